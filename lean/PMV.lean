import PMV.Core.Sx
