/-
  Shapes, indices, NumPy broadcasting.  Mathlib-free.
-/
namespace PMV

abbrev Shape := List Nat
abbrev Index := List Nat

def size (s : Shape) : Nat := s.foldr (· * ·) 1

/-- NumPy broadcasting on reversed shapes (innermost axis first), written as the loop of
    `Qube.broadcasted_shape`: missing axes count as 1, equal lengths or a 1 on either side. -/
def bcastRev : List Nat → List Nat → Option (List Nat)
  | [], ys => some ys
  | x :: xs, [] => some (x :: xs)
  | x :: xs, y :: ys =>
    match bcastRev xs ys with
    | none => none
    | some r =>
      if x = y then some (x :: r)
      else if x = 1 then some (y :: r)
      else if y = 1 then some (x :: r)
      else none

def bcast (a b : Shape) : Option Shape := (bcastRev a.reverse b.reverse).map List.reverse

/-- all indices of a shape in row-major (C) order -/
def indices : Shape → List Index
  | [] => [[]]
  | n :: s => (List.range n).flatMap fun i => (indices s).map (i :: ·)

/-- `i` is a valid index into shape `s` -/
def Valid : Shape → Index → Prop
  | [], [] => True
  | n :: s, i :: is => i < n ∧ Valid s is
  | _, _ => False

instance : (s : Shape) → (i : Index) → Decidable (Valid s i)
  | [], [] => isTrue trivial
  | n :: s, i :: is =>
    have := instDecidableValid s is
    inferInstanceAs (Decidable (i < n ∧ Valid s is))
  | [], _ :: _ => isFalse (by simp [Valid])
  | _ :: _, [] => isFalse (by simp [Valid])

/-- row-major flat offset -/
def ravel : Shape → Index → Nat
  | n :: s, i :: is => i * size s + ravel s is
  | _, _ => 0

/-- project a (reversed) result index onto a (reversed) operand shape: right-aligned,
    length-1 axes map to 0, extra leading result axes are dropped -/
def bidxRev : List Nat → List Nat → List Nat
  | [], _ => []
  | _ :: _, [] => []
  | n :: s, i :: is => (if n = 1 then 0 else i) :: bidxRev s is

def bidx (s : Shape) (i : Index) : Index := (bidxRev s.reverse i.reverse).reverse

/-- remove the axes listed in `axes` (positions) from a list -/
def dropAxes {α} (axes : List Nat) (l : List α) : List α :=
  (l.zipIdx.filter fun p => !axes.contains p.2).map (·.1)

def keepAxes {α} (axes : List Nat) (l : List α) : List α :=
  (l.zipIdx.filter fun p => axes.contains p.2).map (·.1)

/-- interleave an index over the kept axes (`o`) with an index over the reduced axes (`r`) -/
def mergeIdx (axes : List Nat) : Nat → Nat → Index → Index → Index
  | 0, _, _, _ => []
  | rank + 1, k, o, r =>
    if axes.contains k then
      match r with
      | x :: r' => x :: mergeIdx axes rank (k + 1) o r'
      | [] => []
    else
      match o with
      | x :: o' => x :: mergeIdx axes rank (k + 1) o' r
      | [] => []

/-- normalise a possibly negative axis -/
def normAxis (rank : Nat) (a : Int) : Option Nat :=
  if 0 ≤ a ∧ a < rank then some a.toNat
  else if a < 0 ∧ -a ≤ rank then some (a + rank).toNat
  else none

end PMV
