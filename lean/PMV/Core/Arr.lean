import PMV.Core.Shape
/-
  Functional n-dimensional arrays: a shape and a total function on indices.
-/
namespace PMV

structure Arr (α : Type) where
  shape : Shape
  get : Index → α

namespace Arr
variable {α β γ : Type}

def ofFlat [Inhabited α] (shape : Shape) (data : Array α) : Arr α :=
  ⟨shape, fun i => data[ravel shape i]!⟩

def toList (a : Arr α) : List α := (indices a.shape).map a.get

def map (f : α → β) (a : Arr α) : Arr β := ⟨a.shape, fun i => f (a.get i)⟩

def const (shape : Shape) (x : α) : Arr α := ⟨shape, fun _ => x⟩

/-- broadcast to a larger shape (np.broadcast_to) -/
def bto (a : Arr α) (out : Shape) : Arr α := ⟨out, fun i => a.get (bidx a.shape i)⟩

/-- element-wise binary operation with NumPy broadcasting -/
def map2 (f : α → β → γ) (a : Arr α) (b : Arr β) : Option (Arr γ) :=
  (bcast a.shape b.shape).map fun out =>
    ⟨out, fun i => f (a.get (bidx a.shape i)) (b.get (bidx b.shape i))⟩

/-- the lane of elements that reduce onto output index `o` when reducing over `axes` -/
def lane (a : Arr α) (axes : List Nat) (o : Index) : List α :=
  (indices (keepAxes axes a.shape)).map fun r => a.get (mergeIdx axes a.shape.length 0 o r)

/-- reduce over the given (normalised, distinct) axes with a list kernel -/
def reduce (f : List α → β) (a : Arr α) (axes : List Nat) : Arr β :=
  ⟨dropAxes axes a.shape, fun o => f (a.lane axes o)⟩

end Arr
end PMV
