/-
  S-expressions: the wire format of the line protocol between the Python
  harness (which drives the real polymath code) and the Lean driver (which
  runs the executable models).  Mathlib-free.
-/
namespace PMV

inductive Sx where
  | atom (s : String)
  | list (l : List Sx)
  deriving Repr, BEq, Inhabited

namespace Sx

partial def render : Sx → String
  | atom s => s
  | list l => "(" ++ " ".intercalate (l.map render) ++ ")"

instance : ToString Sx := ⟨render⟩

/-- tokenizer: parentheses are their own tokens, whitespace separates atoms -/
def tokens (s : String) : List String :=
  let step := fun (acc : List String × String) (c : Char) =>
    let (out, cur) := acc
    if c == '(' || c == ')' then
      let out := if cur.isEmpty then out else cur :: out
      (String.singleton c :: out, "")
    else if c == ' ' || c == '\n' || c == '\t' || c == '\r' then
      (if cur.isEmpty then out else cur :: out, "")
    else (out, cur.push c)
  let (out, cur) := s.foldl step ([], "")
  (if cur.isEmpty then out else cur :: out).reverse

/-- parse a token list; returns the parsed items of the current level and the rest -/
partial def parseItems : List String → List Sx → Option (List Sx × List String)
  | [], acc => some (acc.reverse, [])
  | ")" :: rest, acc => some (acc.reverse, ")" :: rest)
  | "(" :: rest, acc =>
    match parseItems rest [] with
    | some (items, ")" :: rest') => parseItems rest' (list items :: acc)
    | _ => none
  | t :: rest, acc => parseItems rest (atom t :: acc)

def parse (s : String) : Option Sx :=
  match parseItems (tokens s) [] with
  | some ([x], []) => some x
  | some (xs, []) => some (list xs)
  | _ => none

def toInt? : Sx → Option Int
  | atom s => s.toInt?
  | _ => none

def toNat? : Sx → Option Nat
  | atom s => s.toNat?
  | _ => none

def toBool? : Sx → Option Bool
  | atom "T" => some true
  | atom "F" => some false
  | _ => none

def toList? : Sx → Option (List Sx)
  | list l => some l
  | _ => none

def ints? (x : Sx) : Option (List Int) := do
  let l ← x.toList?
  l.mapM toInt?

def nats? (x : Sx) : Option (List Nat) := do
  let l ← x.toList?
  l.mapM toNat?

def bools? (x : Sx) : Option (List Bool) := do
  let l ← x.toList?
  l.mapM toBool?

def ofBool (b : Bool) : Sx := atom (if b then "T" else "F")
def ofInt (i : Int) : Sx := atom (toString i)
def ofNat (n : Nat) : Sx := atom (toString n)
def ofInts (l : List Int) : Sx := list (l.map ofInt)
def ofNats (l : List Nat) : Sx := list (l.map ofNat)
def ofBools (l : List Bool) : Sx := list (l.map ofBool)

end Sx
end PMV
