import PMV.Lemmas.ReduceLane
/-
  Lane-level lemmas for C13, part 3: sort and median.  The code sorts the lane after filling
  the masked positions with `_maxval` and sorts the mask separately; a sorted permutation is
  unique, so this is the sorted unmasked sub-list followed by the fills.
-/
namespace PMV.Reduce

theorem npSort_perm (l : List Int) : (npSort l).Perm l := List.mergeSort_perm l _

theorem npSort_sorted (l : List Int) : (npSort l).Pairwise (· ≤ ·) := by
  have h := List.pairwise_mergeSort (le := fun a b : Int => decide (a ≤ b))
    (by intro a b c hab hbc; simp at *; omega) (by intro a b; simp; omega) l
  exact h.imp (by intro a b hab; simpa using hab)

theorem npSort_length (l : List Int) : (npSort l).length = l.length := (npSort_perm l).length_eq

theorem npSort_mem (l : List Int) (x : Int) : x ∈ npSort l ↔ x ∈ l := (npSort_perm l).mem_iff

/-- a sorted list that is a permutation of `l` is `npSort l` -/
theorem npSort_unique (l s : List Int) (hp : s.Perm l) (hs : s.Pairwise (· ≤ ·)) : npSort l = s := by
  apply List.Perm.eq_of_pairwise (le := (· ≤ ·))
  · intro a b _ _ hab hba; exact Int.le_antisymm hab hba
  · exact npSort_sorted l
  · exact hs
  · exact (npSort_perm l).trans hp.symm

theorem fillWith_perm (fill : Int) (xs : List (Cell Int)) :
    (fillWith fill xs).Perm (unm xs ++ List.replicate (countMasked xs) fill) := by
  induction xs with
  | nil => exact List.Perm.refl _
  | cons c cs ih =>
    have e : fillWith fill (c :: cs) = (if c.m then fill else c.v) :: fillWith fill cs := rfl
    have e2 : countMasked (c :: cs) = (if c.m then 1 else 0) + countMasked cs := rfl
    rw [e, e2, unm_cons]
    cases c.m
    · simp only [Bool.false_eq_true, if_false, Nat.zero_add, List.cons_append]
      exact List.Perm.cons _ ih
    · simp only [if_true]
      rw [Nat.add_comm, List.replicate_succ]
      exact (List.Perm.cons _ ih).trans List.perm_middle.symm

/-- the filled and sorted lane: the sorted unmasked values, then the fills -/
theorem npSort_fillWith (maxval : Int) (xs : List (Cell Int))
    (hmax : ∀ c ∈ xs, c.m = false → c.v ≤ maxval) :
    npSort (fillWith maxval xs) = npSort (unm xs) ++ List.replicate (countMasked xs) maxval := by
  apply npSort_unique
  · exact ((npSort_perm (unm xs)).append_right _).trans (fillWith_perm maxval xs).symm
  · rw [List.pairwise_append]
    refine ⟨npSort_sorted _, ?_, ?_⟩
    · rw [List.pairwise_replicate]; right; exact Int.le_refl _
    · intro a ha b hb
      rw [List.mem_replicate] at hb
      rw [hb.2]
      obtain ⟨c, hc, hm, hv⟩ := (mem_unm xs a).1 ((npSort_mem _ a).1 ha)
      rw [← hv]; exact hmax c hc hm

theorem npSortB_perm (l : List Bool) : (npSortB l).Perm l := List.mergeSort_perm l _

theorem masks_perm (xs : List (Cell Int)) :
    (xs.map (·.m)).Perm (List.replicate (unm xs).length false ++ List.replicate (countMasked xs) true) := by
  induction xs with
  | nil => exact List.Perm.refl _
  | cons c cs ih =>
    have e2 : countMasked (c :: cs) = (if c.m then 1 else 0) + countMasked cs := rfl
    rw [List.map_cons, e2, unm_cons]
    cases hc : c.m
    · simp only [Bool.false_eq_true, if_false, Nat.zero_add, List.length_cons, List.replicate_succ,
        List.cons_append]
      exact List.Perm.cons _ ih
    · simp only [if_true]
      rw [Nat.add_comm, List.replicate_succ]
      exact (List.Perm.cons _ ih).trans List.perm_middle.symm

/-- the sorted mask: one False per unmasked element, then one True per masked element -/
theorem npSortB_masks (xs : List (Cell Int)) :
    npSortB (xs.map (·.m))
      = List.replicate (unm xs).length false ++ List.replicate (countMasked xs) true := by
  apply List.Perm.eq_of_pairwise (le := fun a b : Bool => (!a || b) = true)
  · intro a b _ _ hab hba; cases a <;> cases b <;> simp_all
  · exact List.pairwise_mergeSort (le := fun a b : Bool => !a || b)
      (by intro a b c; cases a <;> cases b <;> cases c <;> simp)
      (by intro a b; cases a <;> cases b <;> simp) _
  · rw [List.pairwise_append]
    refine ⟨?_, ?_, ?_⟩
    · rw [List.pairwise_replicate]; right; rfl
    · rw [List.pairwise_replicate]; right; rfl
    · intro a ha b hb
      rw [List.mem_replicate] at ha hb
      rw [ha.2, hb.2]; rfl
  · exact (npSortB_perm _).trans (masks_perm xs)

theorem zip_obs_false (vs : List Int) :
    (List.zip vs (List.replicate vs.length false)).map obs = vs.map some := by
  induction vs with
  | nil => rfl
  | cons v vs ih => simp [List.replicate_succ, obs, ih]

theorem zip_obs_true (k : Nat) (v : Int) :
    (List.zip (List.replicate k v) (List.replicate k true)).map obs = List.replicate k none := by
  induction k with
  | zero => rfl
  | succ k ih => simp [List.replicate_succ, obs]

/-- `Scalar.sort`, branch with an array mask: the observable lane is the reference -/
theorem sortMasked_array_spec (maxval : Int) (xs : List (Cell Int))
    (hmax : ∀ c ∈ xs, c.m = false → c.v ≤ maxval) :
    (sortMasked maxval .array xs).map obs = specSort xs := by
  unfold sortMasked specSort
  simp only [npSort_fillWith maxval xs hmax, npSortB_masks]
  rw [List.zip_append (by simp [npSort_length]), List.map_append]
  rw [← npSort_length (unm xs), zip_obs_false, zip_obs_true]

/-- branch with the scalar mask True (everything masked) -/
theorem sortMasked_scalar_true_spec (maxval : Int) (xs : List (Cell Int))
    (h : ∀ c ∈ xs, c.m = true) :
    (sortMasked maxval (.scalar true) xs).map obs = specSort xs := by
  unfold sortMasked specSort
  have hu : unm xs = [] := (unm_eq_nil_iff xs).2 h
  have hl := length_eq xs
  rw [hu] at hl ⊢
  simp only [List.length_nil, Nat.zero_add] at hl
  have hlen : (npSort (fillWith maxval xs)).length = xs.length := by
    rw [npSort_length]; simp [fillWith]
  have : (xs.map fun _ => true) = List.replicate (npSort (fillWith maxval xs)).length true := by
    rw [hlen]; clear hl hlen hu h
    induction xs with
    | nil => rfl
    | cons c cs ih => simp [List.replicate_succ, ih]
  simp only [this]
  rw [← hl, ← hlen]
  generalize npSort (fillWith maxval xs) = vs
  have hn : npSort [] = [] := by simp [npSort]
  rw [hn]
  simp only [List.map_nil, List.nil_append]
  induction vs with
  | nil => rfl
  | cons v vs ih => simp [List.replicate_succ, obs, ih]

/-- no element masked: plain `np.sort` -/
theorem sortPlain_spec (xs : List (Cell Int)) (h : ∀ c ∈ xs, c.m = false) :
    (sortPlain xs).map obs = specSort xs := by
  unfold sortPlain specSort
  have hu := unm_eq_raw xs h
  have hl := length_eq xs
  rw [hu] at hl ⊢
  have : countMasked xs = 0 := by simp [raw] at hl; omega
  rw [this]
  simp [obs, Function.comp_def]

/-! ### median -/

theorem getD_append_left_zero (a b : List Int) (i : Nat) (h : i < a.length) :
    (a ++ b).getD i 0 = a.getD i 0 := by
  simp [List.getD_eq_getElem?_getD, List.getElem?_append_left h]

theorem medianMixed_spec (maxval : Int) (xs : List (Cell Int))
    (hmax : ∀ c ∈ xs, c.m = false → c.v ≤ maxval) :
    obs (medianMixed maxval xs) = specRed npMedian2 xs := by
  unfold medianMixed
  have hl := length_eq xs
  have hcnt : ((xs.length : Int) - (countMasked xs : Int)) = ((unm xs).length : Int) := by omega
  simp only [hcnt, npSort_fillWith maxval xs hmax]
  by_cases h : unm xs = []
  · rw [specRed_of_nil _ _ h]; simp [h, obs]
  · rw [specRed_of_ne _ _ h]
    have hpos : 0 < (unm xs).length := by
      cases hu : unm xs with
      | nil => contradiction
      | cons _ _ => simp
    have h0 : (((unm xs).length : Int) == 0) = false := by
      simp; omega
    have hlo : (max ((((unm xs).length : Int) - 1) / 2) 0).toNat = ((unm xs).length - 1) / 2 := by
      have : 0 ≤ (((unm xs).length : Int) - 1) / 2 := by omega
      rw [Int.max_eq_left this]; omega
    have hhi : ((((unm xs).length : Int)) / 2).toNat = (unm xs).length / 2 := by omega
    simp only [h0, hlo, hhi]
    rw [getD_append_left_zero _ _ _ (by rw [npSort_length]; omega),
        getD_append_left_zero _ _ _ (by rw [npSort_length]; omega)]
    rfl

end PMV.Reduce
