import PMV.Lemmas.IndexSpec
/-
  C09 — helper lemmas about NumPy's index normalisation and the per-entry steps of `_prep_index`.
-/
namespace PMV.Index
open PMV PMV.NpIndex


/-- the entry is flagged: masked, or out of range for an axis of length `n` -/
def intFlag (n : Nat) (k : Int) (m : Bool) : Bool := m || (normIdx n k).isNone

theorem normIdx_some (n : Nat) (k : Int) (j : Nat) (h : normIdx n k = some j) : j < n := by
  unfold normIdx at h
  split at h
  · simp at h; omega
  · split at h
    · simp at h; omega
    · simp at h



theorem normIdx_isNone (n : Nat) (k : Int) :
    (normIdx n k).isNone = (decide (k ≥ (n:Int)) || decide (k < -(n:Int))) := by
  unfold normIdx
  by_cases h1 : 0 ≤ k ∧ k < n
  · have a : ¬ k ≥ (n:Int) := by omega
    have b : ¬ k < -(n:Int) := by omega
    simp [h1, a, b]
  · by_cases h2 : k < 0 ∧ -k ≤ n
    · have a : ¬ k ≥ (n:Int) := by omega
      have b : ¬ k < -(n:Int) := by omega
      simp [h1, h2, a, b]
    · have c : k ≥ (n:Int) ∨ k < -(n:Int) := by omega
      rcases c with c | c <;> simp [h1, h2, c]

theorem normIdx_emod (n : Nat) (k : Int) (h : (normIdx n k).isNone = false) :
    normIdx n (k % (n:Int)) = normIdx n k := by
  rw [normIdx_isNone] at h
  have h' : ¬ k ≥ (n:Int) ∧ ¬ k < -(n:Int) := by simpa using h
  by_cases h1 : 0 ≤ k
  · rw [Int.emod_eq_of_lt h1 (by omega)]
  · have e : k % (n:Int) = k + n := by
      have : k % (n:Int) = (k + n) % n := by simp
      rw [this]; exact Int.emod_eq_of_lt (by omega) (by omega)
    rw [e]
    have h5 : 0 ≤ k + (n:Int) ∧ k + n < n := by omega
    have h6 : ¬ (0 ≤ k ∧ k < n) := by omega
    have h7 : k < 0 ∧ -k ≤ n := by omega
    simp [normIdx, h5, h6, h7]

theorem normIdx_emod_some (n : Nat) (k : Int) (hn : 0 < n) : (normIdx n (k % (n:Int))).isSome = true := by
  have h1 : 0 ≤ k % (n:Int) := Int.emod_nonneg _ (by omega)
  have h2 : k % (n:Int) < n := Int.emod_lt_of_pos _ (by omega)
  simp [normIdx, h1, h2]

theorem unusedIndex_safe (n : Nat) (used : List Int) (hn : 0 < n) :
    (normIdx n (unusedIndex n used)).isSome = true := by
  unfold unusedIndex
  split
  · rename_i k hk
    have := List.mem_of_find?_eq_some hk
    have hk' : k < n := by simpa using this
    simp [normIdx, hk']
  · simp [normIdx]; omega

/-- flag of element `i` of an integer-array entry: its mask, or out of range for the axis -/
def iarrFlag (n : Nat) (v : Arr Int) (m : Mask) (i : Index) : Bool :=
  m.bit i || (normIdx n (v.get i)).isNone

/-- what an entry contributes to the post-mask at array coordinate `i` -/
def PostUpd.bit : PostUpd → Index → Bool
  | .keep, _ => false
  | .setTrue, _ => true
  | .orArr a, i => a.get i

theorem oobAt_eq (n : Nat) (v : Arr Int) (i : Index) : oobAt n v i = (normIdx n (v.get i)).isNone := by
  rw [normIdx_isNone]; rfl

theorem prepIntArrMask_bit (n : Nat) (v : Arr Int) (m : Mask) (i : Index) (hi : i ∈ indices v.shape) :
    (prepIntArrMask n v m).bit i = iarrFlag n v m i := by
  unfold prepIntArrMask iarrFlag
  rw [← oobAt_eq]
  cases hO : (indices v.shape).any (oobAt n v) with
  | false =>
    have := List.any_eq_false.mp hO i hi
    simp_all
  | true =>
    cases m with
    | all b => cases b <;> simp [Mask.bit]
    | arr a => simp [Mask.bit]

theorem prepIntArrUpd_bit (v : Arr Int) (mv : Mask) (i : Index) : (prepIntArrUpd v mv).bit i = mv.bit i := by
  cases mv with
  | all b => cases b <;> rfl
  | arr a => rfl

theorem prepIntArrVals_safe (n : Nat) (v : Arr Int) (mv : Mask) (am : Bool) (i : Index) (hn : 0 < n) :
    (normIdx n (prepIntArrVals n v mv am i)).isSome = true := by
  unfold prepIntArrVals
  simp only
  split
  · cases mv with
    | all b =>
      cases b
      · exact unusedIndex_safe n _ hn
      · simp [normIdx]; omega
    | arr a => exact unusedIndex_safe n _ hn
  · exact normIdx_emod_some n _ hn

/-- **integer entry.**  An unmasked in-range integer is handed to NumPy as the same element NumPy
    itself would pick (negative values normalised) and leaves the post-mask alone; a masked or
    out-of-range integer is replaced by the safe index 0 and masks the whole result. -/
theorem int_entry_exact (n : Nat) (k : Int) (m : Bool) :
    (intFlag n k m = false →
      ∃ j, prepInt n k m = (.int j, .keep) ∧ normIdx n j = normIdx n k) ∧
    (intFlag n k m = true → prepInt n k m = (.int 0, .setTrue)) := by
  cases m with
  | true => simp [intFlag, prepInt]
  | false =>
    by_cases h1 : 0 ≤ k ∧ k < n
    · have e : k % (n:Int) = k := Int.emod_eq_of_lt h1.1 h1.2
      have h0 : ¬ k < 0 := by omega
      have h3 : ¬ (n:Int) ≤ k := by omega
      constructor
      · intro _; exact ⟨k, by simp [prepInt, h0, h3, e], rfl⟩
      · intro h; simp [intFlag, normIdx, h1] at h
    · by_cases h2 : k < 0 ∧ -k ≤ n
      · have e : k % (n:Int) = k + n := by
          have : k % (n:Int) = (k + n) % n := by simp
          rw [this]; exact Int.emod_eq_of_lt (by omega) (by omega)
        have h3 : ¬ (k + n < 0) := by omega
        have h4 : ¬ ((n:Int) ≤ k + n) := by omega
        constructor
        · intro _
          refine ⟨k + n, by simp [prepInt, h2.1, h3, h4, e], ?_⟩
          have h5 : 0 ≤ k + (n:Int) ∧ k + n < n := by omega
          simp [normIdx, h1, h2, h5]
        · intro h; simp [intFlag, normIdx, h1, h2] at h
      · constructor
        · intro h; simp [intFlag, normIdx, h1, h2] at h
        · intro _
          by_cases h4 : k < 0
          · have : k + n < 0 := by omega
            simp [prepInt, h4, this]
          · have : (n:Int) ≤ k := by omega
            simp [prepInt, h4, this]

end PMV.Index
