import PMV.Lemmas.ReadOnly
/-
  Helper lemmas for C08, object store: the frame relation `OExt T` between the state before and after any piece of the
  model.  Objects are never deleted; a read-only object stays read-only and keeps its `_values_` and `_mask_`; it keeps
  its units and derivatives too unless it is in `T` (the target of the call, or an object created during the call).
  Core Lean only.
-/
namespace PMV.ReadOnly

structure OExt (T : Nat → Prop) (s s' : State) : Prop where
  len : s.objs.length ≤ s'.objs.length
  keep : ∀ (i : Nat) (o : Obj), s.objs[i]? = some o → ∃ o' : Obj, s'.objs[i]? = some o' ∧
    (o.ro = true → o'.ro = true ∧ o'.vals = o.vals ∧ o'.mask = o.mask ∧
      (¬ T i → o'.units = o.units ∧ o'.derivs = o.derivs))

theorem OExt.refl (T : Nat → Prop) (s : State) : OExt T s s :=
  ⟨Nat.le_refl _, fun _ o h => ⟨o, h, fun _ => ⟨‹_›, rfl, rfl, fun _ => ⟨rfl, rfl⟩⟩⟩⟩

theorem OExt.trans {T : Nat → Prop} {a b c : State} (h1 : OExt T a b) (h2 : OExt T b c) : OExt T a c := by
  refine ⟨Nat.le_trans h1.len h2.len, ?_⟩
  intro i o ho
  obtain ⟨o1, ho1, k1⟩ := h1.keep i o ho
  obtain ⟨o2, ho2, k2⟩ := h2.keep i o1 ho1
  refine ⟨o2, ho2, ?_⟩
  intro hro
  obtain ⟨r1, v1, m1, d1⟩ := k1 hro
  obtain ⟨r2, v2, m2, d2⟩ := k2 r1
  refine ⟨r2, v2.trans v1, m2.trans m1, ?_⟩
  intro hT
  exact ⟨(d2 hT).1.trans (d1 hT).1, (d2 hT).2.trans (d1 hT).2⟩

theorem OExt.of_objs {T : Nat → Prop} {s s' : State} (h : s'.objs = s.objs) : OExt T s s' := by
  refine ⟨by rw [h]; exact Nat.le_refl _, ?_⟩
  intro i o ho
  exact ⟨o, by rw [h]; exact ho, fun hr => ⟨hr, rfl, rfl, fun _ => ⟨rfl, rfl⟩⟩⟩

theorem oext_allocObj (T : Nat → Prop) (s : State) (o : Obj) : OExt T s (s.allocObj o).2 := by
  refine ⟨by simp [State.allocObj], ?_⟩
  intro i x hx
  refine ⟨x, ?_, fun hr => ⟨hr, rfl, rfl, fun _ => ⟨rfl, rfl⟩⟩⟩
  simp only [State.allocObj]
  rw [List.getElem?_append_left (List.getElem?_eq_some_iff.mp hx).1]
  exact hx

/-- the general rule for an update of one object -/
theorem oext_setObj (T : Nat → Prop) (s : State) (i : Nat) (f : Obj → Obj)
    (h : ∀ o, s.objs[i]? = some o → o.ro = true →
      (f o).ro = true ∧ (f o).vals = o.vals ∧ (f o).mask = o.mask ∧
        (¬ T i → (f o).units = o.units ∧ (f o).derivs = o.derivs)) :
    OExt T s (s.setObj i f) := by
  refine ⟨by simp [State.setObj, length_upd], ?_⟩
  intro j o ho
  simp only [State.setObj, getElem?_upd]
  by_cases hij : i = j
  · subst hij
    refine ⟨f o, by simp [ho], ?_⟩
    intro hr
    exact h o ho hr
  · exact ⟨o, by simp [hij, ho], fun hr => ⟨hr, rfl, rfl, fun _ => ⟨rfl, rfl⟩⟩⟩

/-- an update of an object that is not read-only -/
theorem oext_setObj_nonro (T : Nat → Prop) (s : State) (i : Nat) (f : Obj → Obj)
    (h : ∀ o, s.objs[i]? = some o → o.ro = false) : OExt T s (s.setObj i f) :=
  oext_setObj T s i f fun o ho hr => absurd hr (by rw [h o ho]; decide)

/-- an update that leaves flag, arrays, units and derivatives alone (the cache) -/
theorem oext_setObj_keep (T : Nat → Prop) (s : State) (i : Nat) (f : Obj → Obj)
    (h : ∀ o, (f o).ro = o.ro ∧ (f o).vals = o.vals ∧ (f o).mask = o.mask ∧ (f o).units = o.units ∧
      (f o).derivs = o.derivs) : OExt T s (s.setObj i f) :=
  oext_setObj T s i f fun o _ hr =>
    ⟨(h o).1.trans hr, (h o).2.1, (h o).2.2.1, fun _ => ⟨(h o).2.2.2.1, (h o).2.2.2.2⟩⟩

/-- an update of units / derivatives / cache of an object in `T` -/
theorem oext_setObj_T (T : Nat → Prop) (s : State) (i : Nat) (f : Obj → Obj) (hT : T i)
    (h : ∀ o, (f o).ro = o.ro ∧ (f o).vals = o.vals ∧ (f o).mask = o.mask) : OExt T s (s.setObj i f) :=
  oext_setObj T s i f fun o _ hr => ⟨(h o).1.trans hr, (h o).2.1, (h o).2.2, fun hn => absurd hT hn⟩

theorem oext_foldl {α : Type} (T : Nat → Prop) (f : State → α → State) (hf : ∀ s x, OExt T s (f s x))
    (l : List α) (s : State) : OExt T s (l.foldl f s) := by
  induction l generalizing s with
  | nil => exact OExt.refl _ _
  | cons x xs ih => exact (hf s x).trans (ih _)

theorem oext_foldl_pair {α β : Type} (T : Nat → Prop) (f : State × β → α → State × β)
    (hf : ∀ s x, OExt T s.1 (f s x).1) (l : List α) (s : State × β) : OExt T s.1 (l.foldl f s).1 := by
  induction l generalizing s with
  | nil => exact OExt.refl _ _
  | cons x xs ih => exact (hf s x).trans (ih _)

theorem oext_ite {T : Nat → Prop} {c : Prop} [Decidable c] {s a b : State} (ha : OExt T s a) (hb : OExt T s b) :
    OExt T s (if c then a else b) := by
  split <;> assumption

/-! ### array-level pieces do not touch the object store -/

theorem objs_freeze (s : State) (a : Nat) : (s.freeze a).objs = s.objs := rfl
theorem objs_freezeV (s : State) (v : Val) : (s.freezeV v).objs = s.objs := by cases v <;> rfl
theorem objs_freezeM (s : State) (v : Msk) : (s.freezeM v).objs = s.objs := by cases v <;> rfl
theorem objs_stamps (s : State) (n : Nat) : (s.stamps n).2.objs = s.objs := rfl
theorem objs_viewOf (s : State) (a : Nat) (idx : List Nat) (f : Bool) : (s.viewOf a idx f).2.objs = s.objs := by
  unfold State.viewOf; split <;> rfl
theorem objs_copyOf (s : State) (a : Nat) (idx : List Nat) : (s.copyOf a idx).2.objs = s.objs := rfl
theorem objs_freshArr (s : State) (n : Nat) (w : Bool) : (s.freshArr n w).2.objs = s.objs := rfl
theorem objs_writeArr (s : State) (a : Nat) (pos : List Nat) : (s.writeArr a pos).1.objs = s.objs := by
  unfold State.writeArr; split
  · split <;> rfl
  · rfl
theorem objs_initObj (s : State) (v : Val) (m : Msk) (ex : Obj) : (s.initObj v m ex).2.objs = s.objs := by
  unfold State.initObj; dsimp only; split
  · exact objs_freezeM _ _
  · rfl
theorem objs_deriveVals (s : State) (v : Val) (m : Mode) (idx : List Nat) : (deriveVals s v m idx).2.objs = s.objs := by
  unfold deriveVals
  cases v <;> cases m <;> first | rfl | exact objs_viewOf _ _ _ _
theorem objs_deriveMask (s : State) (v : Msk) (m : Mode) (idx : List Nat) : (deriveMask s v m idx).2.objs = s.objs := by
  unfold deriveMask
  cases v <;> cases m <;> first | rfl | exact objs_viewOf _ _ _ _
theorem objs_deriveMaskSel (s : State) (v : Msk) (m : Mode) (sel : Sel) :
    (deriveMaskSel s v m sel).2.objs = s.objs := by
  unfold deriveMaskSel; split
  · rfl
  · exact objs_deriveMask _ _ _ _
theorem objs_copyVals (s : State) (v : Val) : (copyVals s v).2.objs = s.objs := by cases v <;> rfl
theorem objs_copyMask (s : State) (v : Msk) : (copyMask s v).2.objs = s.objs := by cases v <;> rfl
theorem objs_negVals (s : State) (v : Val) : (negVals s v).2.objs = s.objs := by cases v <;> rfl
theorem objs_decode (s : State) (o : Obj) (mc : MaskClass) : (decode s o mc).2.objs = s.objs := by
  unfold decode
  split
  · rfl
  · split
    · rfl
    · rfl
    · dsimp only; split <;> rfl
    · dsimp only; split <;> rfl
theorem objs_expandMask (s : State) (m : Msk) (mn : Nat) : (expandMask s m mn).2.objs = s.objs := by
  unfold expandMask; split <;> rfl
theorem objs_writeMask (s : State) (m : Msk) (mpos : List Nat) : (writeMask s m mpos).2.objs = s.objs := by
  unfold writeMask; split
  · exact objs_writeArr _ _ _
  · rfl

/-! ### composites -/

theorem oext_asRO0 (T : Nat → Prop) (s : State) (i : Nat) : OExt T s (asRO0 s i) := by
  unfold asRO0
  split
  · rename_i o ho
    split
    · exact OExt.refl _ _
    · rename_i hro
      have hobjs : ((s.freezeV o.vals).freezeM o.mask).objs = s.objs := by
        rw [objs_freezeM, objs_freezeV]
      refine (OExt.of_objs hobjs).trans (oext_setObj_nonro T _ i _ ?_)
      intro o' ho'
      rw [hobjs, ho] at ho'
      cases ho'
      simpa using hro
  · exact OExt.refl _ _

theorem oext_asROf (T : Nat → Prop) (fuel : Nat) : ∀ (s : State) (i : Nat), OExt T s (asROf fuel s i) := by
  induction fuel with
  | zero => intro s i; exact OExt.refl _ _
  | succ n ih =>
    intro s i
    unfold asROf
    split
    · split
      · exact OExt.refl _ _
      · dsimp only
        refine OExt.trans ?_ (oext_foldl T _ (fun s (kd : Nat × Nat) => ih s kd.2) _ _)
        split
        · exact (oext_asRO0 T _ _).trans (ih _ _)
        · exact oext_asRO0 T _ _
    · exact OExt.refl _ _

theorem oext_asRO (T : Nat → Prop) (s : State) (i : Nat) (r : Bool) : OExt T s (asRO s i r) :=
  oext_asROf T _ _ _

theorem oext_cloneNR (T : Nat → Prop) (s : State) (i : Nat) : OExt T s (cloneNR s i).2 := by
  unfold cloneNR
  split
  · exact oext_allocObj T _ _
  · exact OExt.refl _ _

theorem oext_wodOf (T : Nat → Prop) (s : State) (i : Nat) : OExt T s (wodOf s i).2 := by
  unfold wodOf
  split
  · split
    · exact OExt.refl _ _
    · split
      · exact OExt.refl _ _
      · dsimp only
        refine ((OExt.of_objs (objs_initObj _ _ _ _)).trans (oext_allocObj T _ _)).trans
          (oext_setObj_keep T _ _ _ (fun o => ⟨rfl, rfl, rfl, rfl, rfl⟩))
  · exact OExt.refl _ _

theorem oext_matchReadonly (T : Nat → Prop) (s : State) (p : Bool) (d : Nat) :
    OExt T s (matchReadonly s p d).2 := by
  unfold matchReadonly
  simp only
  split <;> split <;> (try dsimp only) <;>
    first | exact (oext_cloneNR T _ _).trans (oext_asRO T _ _ _) | exact oext_cloneNR T _ _

theorem oext_insertDeriv (T : Nat → Prop) (s : State) (i k d : Nat) (ov : Bool) (hT : T i) :
    OExt T s (insertDeriv s i k d ov).1 := by
  unfold insertDeriv
  split
  · split
    · exact OExt.refl _ _
    · split
      · exact OExt.refl _ _
      · exact ((oext_wodOf T _ _).trans (oext_matchReadonly T _ _ _)).trans
          (oext_setObj_T T _ _ _ hT (fun o => ⟨rfl, rfl, rfl⟩))
  · exact OExt.refl _ _

theorem cloneNR_fst (s : State) (i : Nat) (o : Obj) (h : s.objs[i]? = some o) : (cloneNR s i).1 = s.objs.length := by
  simp [cloneNR, h, State.allocObj]

theorem oext_cloneStep (T : Nat → Prop) (c : Nat) (hT : T c) (s : State) (kd : Nat × Nat) :
    OExt T s (cloneStep c s kd) :=
  (oext_cloneNR T _ _).trans (oext_insertDeriv T _ _ _ _ _ hT)

theorem oext_clone (T : Nat → Prop) (s : State) (i : Nat) (r : Bool) (hT : ∀ j, s.objs.length ≤ j → T j) :
    OExt T s (clone s i r).2 := by
  unfold clone
  split
  · rename_i o ho
    dsimp only
    split
    · exact (oext_cloneNR T _ _).trans
        (oext_foldl T _ (oext_cloneStep T _ (hT _ (by rw [cloneNR_fst s i o ho]; exact Nat.le_refl _))) _ _)
    · exact oext_cloneNR T _ _
  · exact OExt.refl _ _

theorem oext_freezeSource (T : Nat → Prop) (s : State) (i : Nat) (m : Mode) (v : Val) :
    OExt T s (freezeSource s i m v) := by
  unfold freezeSource
  split
  · exact oext_asRO T _ _ _
  · exact OExt.refl _ _

theorem oext_finishDerived (T : Nat → Prop) (s : State) (nv : Val) (nm : Msk) (o : Obj) (m : Mode) :
    OExt T s (finishDerived s nv nm o m).2 := by
  unfold finishDerived
  dsimp only
  refine OExt.trans (OExt.of_objs ?_) (oext_allocObj T _ _)
  repeat' split
  all_goals simp only [objs_freezeM, objs_freezeV, objs_initObj]

theorem finishDerived_fst (s : State) (nv : Val) (nm : Msk) (o : Obj) (m : Mode) :
    (finishDerived s nv nm o m).1 = s.objs.length := by
  unfold finishDerived
  dsimp only
  simp only [State.allocObj]
  repeat' split
  all_goals simp only [objs_freezeM, objs_freezeV, objs_initObj]

theorem oext_derive1 (T : Nat → Prop) (s : State) (i : Nat) (m : Mode) (sel : Sel) :
    OExt T s (derive1 s i m sel).2 := by
  unfold derive1
  split
  · exact (((oext_freezeSource T _ _ _ _).trans (OExt.of_objs (objs_deriveVals _ _ _ _))).trans
      (OExt.of_objs (objs_deriveMaskSel _ _ _ _))).trans (oext_finishDerived T _ _ _ _ _)
  · exact OExt.refl _ _

theorem derive1_fst_ge (s : State) (i : Nat) (m : Mode) (sel : Sel) (o : Obj) (h : s.objs[i]? = some o) :
    s.objs.length ≤ (derive1 s i m sel).1 := by
  simp only [derive1, h, finishDerived_fst]
  rw [objs_deriveMaskSel, objs_deriveVals]
  exact (oext_freezeSource (fun _ => True) s i m o.vals).len

theorem oext_deriveStep (T : Nat → Prop) (c : Nat) (hT : T c) (m : Mode) (sel : Sel) (dsel : List (Nat × Sel))
    (s : State) (kd : Nat × Nat) : OExt T s (deriveStep c m sel dsel s kd) :=
  (oext_derive1 T _ _ _ _).trans (oext_insertDeriv T _ _ _ _ _ hT)

theorem oext_derive (T : Nat → Prop) (s : State) (i : Nat) (m : Mode) (sel : Sel) (r : Bool) (dsel : List (Nat × Sel))
    (hT : ∀ j, s.objs.length ≤ j → T j) : OExt T s (derive s i m sel r dsel).2 := by
  unfold derive
  split
  · rename_i o ho
    dsimp only
    split
    · exact (oext_derive1 T _ _ _ _).trans
        (oext_foldl T _ (oext_deriveStep T _ (hT _ (derive1_fst_ge s i m sel o ho)) _ _ _) _ _)
    · exact oext_derive1 T _ _ _ _
  · exact OExt.refl _ _

theorem oext_copyNR (T : Nat → Prop) (s : State) (i : Nat) (ro : Bool) : OExt T s (copyNR s i ro).2 := by
  unfold copyNR
  split
  · rename_i o ho
    split
    · exact oext_cloneNR T _ _
    · dsimp only
      have h : OExt T s ((copyMask (copyVals s o.vals).2 o.mask).2) :=
        OExt.of_objs (by rw [objs_copyMask, objs_copyVals])
      exact (h.trans (oext_allocObj T _ _)).trans (oext_ite (oext_asRO T _ _ _) (OExt.refl _ _))
  · exact OExt.refl _ _

theorem copyNR_fst (s : State) (i : Nat) (ro : Bool) (o : Obj) (h : s.objs[i]? = some o) :
    (copyNR s i ro).1 = s.objs.length := by
  unfold copyNR
  simp only [h]
  split
  · exact cloneNR_fst s i o h
  · simp only [State.allocObj]
    rw [objs_copyMask, objs_copyVals]

theorem oext_copyStep (T : Nat → Prop) (c : Nat) (hT : T c) (ro : Bool) (s : State) (kd : Nat × Nat) :
    OExt T s (copyStep c ro s kd) :=
  (oext_copyNR T _ _ _).trans (oext_insertDeriv T _ _ _ _ _ hT)

theorem oext_copy (T : Nat → Prop) (s : State) (i : Nat) (r ro : Bool) (hT : ∀ j, s.objs.length ≤ j → T j) :
    OExt T s (copy s i r ro).2 := by
  unfold copy
  split
  · rename_i o ho
    dsimp only
    split
    · exact oext_copyNR T _ _ _
    · split
      · exact (oext_copyNR T _ _ _).trans
          (oext_foldl T _ (oext_copyStep T _ (hT _ (by rw [copyNR_fst s i ro o ho]; exact Nat.le_refl _)) _) _ _)
      · exact oext_copyNR T _ _ _
  · exact OExt.refl _ _

theorem oext_negNR (T : Nat → Prop) (s : State) (i : Nat) (u d : Bool) : OExt T s (negNR s i u d).2 := by
  unfold negNR
  split
  · dsimp only
    refine OExt.trans (OExt.of_objs ?_) (oext_allocObj T _ _)
    split
    · rw [objs_copyMask, objs_negVals]
    · rw [objs_negVals]
  · exact OExt.refl _ _

theorem negNR_fst (s : State) (i : Nat) (u d : Bool) (o : Obj) (h : s.objs[i]? = some o) :
    (negNR s i u d).1 = s.objs.length := by
  unfold negNR
  simp only [h, State.allocObj]
  split
  · rw [objs_copyMask, objs_negVals]
  · rw [objs_negVals]

theorem oext_negStep (T : Nat → Prop) (c : Nat) (hT : T c) (s : State) (kd : Nat × Nat) : OExt T s (negStep c s kd) :=
  (oext_negNR T _ _ _ _).trans (oext_insertDeriv T _ _ _ _ _ hT)

theorem oext_neg (T : Nat → Prop) (s : State) (i : Nat) (u d : Bool) (hT : ∀ j, s.objs.length ≤ j → T j) :
    OExt T s (neg s i u d).2 := by
  unfold neg
  split
  · rename_i o ho
    exact (oext_negNR T _ _ _ _).trans
      (oext_foldl T _ (oext_negStep T _ (hT _ (by rw [negNR_fst s i u d o ho]; exact Nat.le_refl _))) _ _)
  · exact OExt.refl _ _

theorem oext_unpickleNR (T : Nat → Prop) (s : State) (o : Obj) (mc : MaskClass) (pm : Option Msk) (top : Bool) :
    OExt T s (unpickleNR s o mc pm top).2 := by
  unfold unpickleNR
  dsimp only
  cases top with
  | true =>
    simp only [if_true]
    refine OExt.trans (OExt.of_objs ?_) (oext_allocObj T _ _)
    split
    · rw [objs_freezeM, objs_freezeV, objs_decode]
    · rw [objs_decode]
  | false =>
    simp only [Bool.false_eq_true, if_false]
    exact ((OExt.of_objs (objs_decode _ _ _)).trans (oext_allocObj T _ _)).trans
      (oext_ite (oext_asRO T _ _ _) (OExt.refl _ _))

theorem unpickleNR_fst (s : State) (o : Obj) (mc : MaskClass) (pm : Option Msk) (top : Bool) :
    (unpickleNR s o mc pm top).1 = s.objs.length := by
  unfold unpickleNR
  dsimp only
  cases top with
  | true =>
    simp only [if_true, State.allocObj]
    split
    · rw [objs_freezeM, objs_freezeV, objs_decode]
    · rw [objs_decode]
  | false =>
    simp only [Bool.false_eq_true, if_false, State.allocObj]
    rw [objs_decode]

theorem oext_unpickleStep (T : Nat → Prop) (c : Nat) (hT : T c) (pm : Option Msk) (dmc : List (Nat × MaskClass))
    (s : State) (kd : Nat × Nat) : OExt T s (unpickleStep c pm dmc s kd) := by
  unfold unpickleStep
  split
  · exact (oext_unpickleNR T _ _ _ _ _).trans (oext_insertDeriv T _ _ _ _ _ hT)
  · exact OExt.refl _ _

theorem oext_unpickle (T : Nat → Prop) (s : State) (i : Nat) (mc : MaskClass) (dmc : List (Nat × MaskClass))
    (hT : ∀ j, s.objs.length ≤ j → T j) : OExt T s (unpickle s i mc dmc).2 := by
  unfold unpickle
  split
  · exact (oext_unpickleNR T _ _ _ _ _).trans
      (oext_foldl T _ (oext_unpickleStep T _ (hT _ (by rw [unpickleNR_fst]; exact Nat.le_refl _)) _ _) _ _)
  · exact OExt.refl _ _

/-- `require_writable` passed: the object exists and is not read-only -/
theorem nonro_of_requireWritable (s : State) (i : Nat) (h : requireWritable s i = none) :
    ∀ o, s.objs[i]? = some o → o.ro = false := by
  intro o ho
  simp only [requireWritable, ho] at h
  cases hr : o.ro
  · rfl
  · simp [hr] at h

theorem oext_setItem (T : Nat → Prop) (fuel : Nat) : ∀ (s : State) (i : Nat) (pos mpos : List Nat) (mn : Nat),
    OExt T s (setItem s i pos mpos mn fuel).1 := by
  induction fuel with
  | zero => intro s i pos mpos mn; exact OExt.refl _ _
  | succ n ih =>
    intro s i pos mpos mn
    unfold setItem
    split
    · exact OExt.refl _ _
    · rename_i hrw
      have hnr := nonro_of_requireWritable s i hrw
      split
      · rename_i o ho
        split
        · exact OExt.refl _ _
        · split
          · exact OExt.refl _ _
          · dsimp only
            -- the first update of the target: it is not read-only
            have e1 : OExt T s ((expandMask s o.mask mn).2.setObj i fun x =>
                { x with mask := (expandMask s o.mask mn).1 }) :=
              (OExt.of_objs (objs_expandMask _ _ _)).trans
                (oext_setObj_nonro T _ i _ (by rw [objs_expandMask]; exact hnr))
            split
            · exact e1.trans (OExt.of_objs (objs_writeArr _ _ _))
            · refine OExt.trans ?_ (oext_foldl_pair T _ (fun acc (kd : Nat × Nat) => ?_) _ (_, Res.ok))
              · refine ((e1.trans (OExt.of_objs (objs_writeArr _ _ _))).trans
                  (OExt.of_objs (objs_writeMask _ _ _))).trans (oext_setObj_nonro T _ i _ ?_)
                intro o' ho'
                rw [objs_writeMask, objs_writeArr] at ho'
                simp only [State.setObj, getElem?_upd, if_true, objs_expandMask, ho, Option.map_some] at ho'
                cases ho'
                exact hnr o ho
              · split
                · exact OExt.refl _ _
                · exact ih _ _ _ _ _
      · exact OExt.refl _ _

theorem oext_zeroDeriv (T : Nat → Prop) (s : State) (n d : Nat) : OExt T s (zeroDeriv s n d).2 := by
  unfold zeroDeriv
  split
  · exact (OExt.of_objs (objs_freshArr _ _ _)).trans (oext_allocObj T _ _)
  · exact OExt.refl _ _

theorem oext_setAllStep (T : Nat → Prop) (i n : Nat) (hT : T i) (s : State) (kd : Nat × Nat) :
    OExt T s (setAllStep i n s kd) :=
  (oext_zeroDeriv T _ _ _).trans (oext_setObj_T T _ _ _ hT (fun o => ⟨rfl, rfl, rfl⟩))

theorem oext_setAll (T : Nat → Prop) (s : State) (i : Nat) (hT : T i) : OExt T s (setAll s i).1 := by
  unfold setAll
  split
  · exact OExt.refl _ _
  · rename_i hrw
    have hnr := nonro_of_requireWritable s i hrw
    split
    · split
      · exact OExt.refl _ _
      · split
        · exact OExt.refl _ _
        · exact ((OExt.of_objs (objs_freshArr _ _ _)).trans
            (oext_setObj_nonro T _ i _ (by rw [objs_freshArr]; exact hnr))).trans
            (oext_foldl T _ (oext_setAllStep T _ _ hT) _ _)
    · exact OExt.refl _ _

theorem oext_iop (T : Nat → Prop) (s : State) (i : Nat) (fast un : Bool) (hT : T i) :
    OExt T s (iop s i fast un).1 := by
  unfold iop
  split
  · exact OExt.refl _ _
  · split
    · exact OExt.refl _ _
    · rename_i hrw
      have hnr := nonro_of_requireWritable s i hrw
      split
      · split
        · exact (OExt.of_objs (objs_stamps _ _)).trans
            (oext_setObj_nonro T _ i _ (by rw [objs_stamps]; exact hnr))
        · dsimp only
          split
          · exact OExt.of_objs (objs_writeArr _ _ _)
          · split
            · exact (OExt.of_objs (objs_writeArr _ _ _)).trans
                (oext_setObj_keep T _ _ _ (fun o => ⟨rfl, rfl, rfl, rfl, rfl⟩))
            · exact ((OExt.of_objs (objs_writeArr _ _ _)).trans
                (oext_foldl T _ (fun s (kd : Nat × Nat) => oext_insertDeriv T s _ _ _ _ hT) _ _)).trans
                (oext_setObj_keep T _ _ _ (fun o => ⟨rfl, rfl, rfl, rfl, rfl⟩))
      · exact OExt.refl _ _

theorem oext_setUnits (T : Nat → Prop) (s : State) (i u : Nat) (ov : Bool) (hT : T i) :
    OExt T s (setUnits s i u ov).1 := by
  unfold setUnits
  split
  · split
    · exact OExt.refl _ _
    · split
      · exact OExt.refl _ _
      · exact oext_setObj_T T _ _ _ hT (fun o => ⟨rfl, rfl, rfl⟩)
  · exact OExt.refl _ _

theorem oext_deleteDeriv (T : Nat → Prop) (s : State) (i k : Nat) (ov : Bool) (hT : T i) :
    OExt T s (deleteDeriv s i k ov).1 := by
  unfold deleteDeriv
  split
  · exact OExt.refl _ _
  · split
    · exact oext_setObj_T T _ _ _ hT (fun o => ⟨rfl, rfl, rfl⟩)
    · exact OExt.refl _ _

theorem oext_deleteDerivs (T : Nat → Prop) (s : State) (i : Nat) (ov : Bool) (hT : T i) :
    OExt T s (deleteDerivs s i ov).1 := by
  unfold deleteDerivs
  split
  · exact OExt.refl _ _
  · split
    · exact oext_setObj_T T _ _ _ hT (fun o => ⟨rfl, rfl, rfl⟩)
    · exact OExt.refl _ _

theorem oext_insertDerivs (T : Nat → Prop) (s : State) (i : Nat) (kds : List (Nat × Nat)) (ov : Bool) (hT : T i) :
    OExt T s (insertDerivs s i kds ov).1 := by
  unfold insertDerivs
  split
  · split
    · exact OExt.refl _ _
    · refine oext_foldl_pair T _ (fun acc (kd : Nat × Nat) => ?_) _ (s, Res.ok)
      split
      · exact OExt.refl _ _
      · exact oext_insertDeriv T _ _ _ _ _ hT
  · exact OExt.refl _ _

theorem oext_mkObj (T : Nat → Prop) (s : State) (n mn : Nat) (mask : Option Bool) (u d : Bool) :
    OExt T s (mkObj s n mn mask u d).2 := by
  unfold mkObj
  dsimp only
  cases mask with
  | some b => exact (OExt.of_objs (objs_freshArr _ _ _)).trans (oext_allocObj T _ _)
  | none =>
    exact ((OExt.of_objs (objs_freshArr _ _ _)).trans (OExt.of_objs (objs_freshArr _ _ _))).trans
      (oext_allocObj T _ _)

theorem oext_mkScalar (T : Nat → Prop) (s : State) (m u d : Bool) : OExt T s (mkScalar s m u d).2 :=
  (OExt.of_objs (objs_stamps _ _)).trans (oext_allocObj T _ _)

/-- the object a mutator call is aimed at -/
def Target : Op → Option Nat
  | .setItem v _ _ _ => some v
  | .setAll v => some v
  | .iop v _ _ => some v
  | .setUnits v _ _ => some v
  | .deleteDeriv v _ _ => some v
  | .deleteDerivs v _ => some v
  | .insertDeriv v _ _ _ => some v
  | .insertDerivs v _ _ => some v
  | _ => none

/-- the objects one call may give other units / derivatives: its target and the objects it creates -/
def Touch (s : State) (op : Op) (j : Nat) : Prop := Target op = some j ∨ s.objs.length ≤ j

/-- the frame property of `step` on the object store -/
theorem oext_step (s : State) (op : Op) : OExt (Touch s op) s (step s op).1 := by
  have hfresh : ∀ j, s.objs.length ≤ j → Touch s op j := fun j h => Or.inr h
  cases op <;> simp only [step, objRes]
  case mk => exact oext_mkObj _ _ _ _ _ _ _
  case mks => exact oext_mkScalar _ _ _ _ _
  case derive => split <;> first | exact oext_derive _ _ _ _ _ _ _ hfresh | exact OExt.refl _ _
  case wod => split <;> first | exact oext_wodOf _ _ _ | exact OExt.refl _ _
  case clone => split <;> first | exact oext_clone _ _ _ _ hfresh | exact OExt.refl _ _
  case copy => split <;> first | exact oext_copy _ _ _ _ _ hfresh | exact OExt.refl _ _
  case neg => split <;> first | exact oext_neg _ _ _ _ _ hfresh | exact OExt.refl _ _
  case pickle => split <;> first | exact oext_unpickle _ _ _ _ _ hfresh | exact OExt.refl _ _
  case getDeriv => split <;> (try split) <;> exact OExt.refl _ _
  case rawRef => split <;> first | exact OExt.of_objs rfl | exact OExt.refl _ _
  case rawView =>
    split
    · exact (OExt.of_objs (objs_viewOf _ _ _ _)).trans (OExt.of_objs rfl)
    · exact OExt.refl _ _
  case setItem => exact oext_setItem _ _ _ _ _ _ _
  case setAll => exact oext_setAll _ _ _ (Or.inl rfl)
  case iop => exact oext_iop _ _ _ _ _ (Or.inl rfl)
  case setUnits => exact oext_setUnits _ _ _ _ _ (Or.inl rfl)
  case deleteDeriv => exact oext_deleteDeriv _ _ _ _ _ (Or.inl rfl)
  case deleteDerivs => exact oext_deleteDerivs _ _ _ _ (Or.inl rfl)
  case insertDeriv => exact oext_insertDeriv _ _ _ _ _ _ (Or.inl rfl)
  case insertDerivs => exact oext_insertDerivs _ _ _ _ _ (Or.inl rfl)
  case asReadonly => split <;> (try dsimp only) <;> first | exact oext_asRO _ _ _ _ | exact OExt.refl _ _
  case requireWritable => split <;> exact OExt.refl _ _
  case write =>
    split
    · split <;> exact OExt.of_objs (objs_writeArr _ _ _)
    · exact OExt.refl _ _

end PMV.ReadOnly
