import PMV.Lemmas.Ravel
import Mathlib.Data.List.Nodup
import Mathlib.Data.List.Perm.Subperm
/-
  Axis permutations: `permute p` / `unpermute p` are mutually inverse bijections between the valid
  index sets of a shape and of the permuted shape, for every rank and every permutation `p` of the
  axes; a permutation that only moves leading axes never touches the item part of an index.
-/
namespace PMV.NpShape
open PMV

/-- the row-major enumeration never repeats an index -/
theorem indices_nodup (s : Shape) : (indices s).Nodup := by
  apply List.Nodup.of_map (ravel s)
  rw [indices_map_ravel]
  exact List.nodup_range

/-- `p` lists every axis `0 … n-1` exactly once -/
def IsPerm (n : Nat) (p : List Nat) : Prop := p.length = n ∧ p.Nodup ∧ ∀ m ∈ p, m < n

theorem IsPerm.mem {n : Nat} {p : List Nat} (h : IsPerm n p) {m : Nat} (hm : m < n) : m ∈ p := by
  obtain ⟨hl, hnd, hlt⟩ := h
  have hsub : p ⊆ List.range n := fun x hx => List.mem_range.2 (hlt x hx)
  have hperm : p.Perm (List.range n) :=
    (List.subperm_of_subset hnd hsub).perm_of_length_le (by simp [hl])
  exact hperm.mem_iff.2 (List.mem_range.2 hm)

theorem getD_of_lt (l : List Nat) (k : Nat) (h : k < l.length) : l.getD k 0 = l[k] := by
  simp [List.getD_eq_getElem?_getD, h]

theorem getD_permute (p l : List Nat) (k : Nat) (h : k < p.length) :
    (permute p l).getD k 0 = l.getD p[k] 0 := by
  unfold permute
  rw [getD_of_lt _ _ (by simpa using h)]
  simp

theorem getD_unpermute (p idx : List Nat) (m : Nat) (h : m < p.length) :
    (unpermute p idx).getD m 0 = idx.getD (p.idxOf m) 0 := by
  unfold unpermute
  rw [getD_of_lt _ _ (by simpa using h)]
  simp

theorem length_permute (p l : List Nat) : (permute p l).length = p.length := by simp [permute]
theorem length_unpermute (p idx : List Nat) : (unpermute p idx).length = p.length := by simp [unpermute]

theorem list_eq_of_getD {a b : List Nat} (hl : a.length = b.length)
    (h : ∀ k, k < a.length → a.getD k 0 = b.getD k 0) : a = b := by
  apply List.ext_getElem hl
  intro k h1 h2
  have := h k h1
  rwa [getD_of_lt _ _ h1, getD_of_lt _ _ h2] at this

/-- `permute p` after `unpermute p` is the identity: nothing is duplicated -/
theorem permute_unpermute {n : Nat} {p idx : List Nat} (hp : IsPerm n p) (hi : idx.length = n) :
    permute p (unpermute p idx) = idx := by
  obtain ⟨hl, hnd, hlt⟩ := hp
  apply list_eq_of_getD (by rw [length_permute, hl, hi])
  intro k hk
  rw [length_permute] at hk
  rw [getD_permute _ _ _ hk, getD_unpermute _ _ _ (by rw [hl]; exact hlt _ (List.getElem_mem hk)),
    hnd.idxOf_getElem]

/-- `unpermute p` after `permute p` is the identity: nothing is lost -/
theorem unpermute_permute {n : Nat} {p l : List Nat} (hp : IsPerm n p) (hlen : l.length = n) :
    unpermute p (permute p l) = l := by
  have hl := hp.1
  apply list_eq_of_getD (by rw [length_unpermute, hl, hlen])
  intro m hm
  rw [length_unpermute] at hm
  have hmem : m ∈ p := hp.mem (hl ▸ hm)
  have hidx : p.idxOf m < p.length := List.idxOf_lt_length_of_mem hmem
  rw [getD_unpermute _ _ _ hm, getD_permute _ _ _ hidx, List.getElem_idxOf hidx]

theorem valid_iff : ∀ (s : Shape) (i : Index),
    Valid s i ↔ i.length = s.length ∧ ∀ k, k < s.length → i.getD k 0 < s.getD k 0
  | [], [] => by simp [Valid]
  | [], _ :: _ => by simp [Valid]
  | _ :: _, [] => by simp [Valid]
  | n :: s, x :: xs => by
    simp only [Valid, valid_iff s xs, List.length_cons, Nat.add_right_cancel_iff]
    constructor
    · rintro ⟨hx, hl, h⟩
      refine ⟨hl, fun k hk => ?_⟩
      cases k with
      | zero => simpa using hx
      | succ k => simpa using h k (by omega)
    · rintro ⟨hl, h⟩
      refine ⟨by simpa using h 0 (by omega), hl, fun k hk => ?_⟩
      simpa using h (k + 1) (by omega)

/-- a valid index of the source is sent to a valid index of the transposed shape -/
theorem valid_permute {n : Nat} {p : List Nat} {s : Shape} {j : Index} (hp : IsPerm n p)
    (hs : s.length = n) (hj : Valid s j) : Valid (permute p s) (permute p j) := by
  obtain ⟨hjl, hj⟩ := (valid_iff s j).1 hj
  refine (valid_iff _ _).2 ⟨by simp [length_permute], fun k hk => ?_⟩
  rw [length_permute] at hk
  rw [getD_permute _ _ _ hk, getD_permute _ _ _ hk]
  exact hj _ (hs ▸ hp.2.2 _ (List.getElem_mem hk))

/-- a valid index of the transposed shape comes from a valid index of the source -/
theorem valid_unpermute {n : Nat} {p : List Nat} {s : Shape} {idx : Index} (hp : IsPerm n p)
    (hs : s.length = n) (hi : Valid (permute p s) idx) : Valid s (unpermute p idx) := by
  obtain ⟨hil, hi⟩ := (valid_iff _ _).1 hi
  have hl := hp.1
  refine (valid_iff _ _).2 ⟨by rw [length_unpermute, hl, hs], fun m hm => ?_⟩
  have hm' : m < p.length := by omega
  have hmem : m ∈ p := hp.mem (hs ▸ hm)
  have hidx : p.idxOf m < p.length := List.idxOf_lt_length_of_mem hmem
  rw [getD_unpermute _ _ _ hm']
  have := hi (p.idxOf m) (by rw [length_permute]; exact hidx)
  rwa [getD_permute _ _ _ hidx, List.getElem_idxOf hidx] at this

/-! ### composition and inverses -/

/-- two transposes compose to the transpose by the composed order -/
theorem permute_permute (p p' l : List Nat) (h : ∀ m ∈ p', m < p.length) :
    permute p' (permute p l) = permute (permute p' p) l := by
  apply list_eq_of_getD (by simp [length_permute])
  intro k hk
  rw [length_permute] at hk
  have hk' : k < (permute p' p).length := by rw [length_permute]; exact hk
  rw [getD_permute _ _ _ hk, getD_permute _ _ _ hk']
  have hp : p'[k] < p.length := h _ (List.getElem_mem hk)
  rw [getD_permute _ _ _ hp]
  congr 1
  have := getD_permute p' p k hk
  rw [getD_of_lt _ _ hk', getD_of_lt _ _ hp] at this
  exact this.symm

theorem permute_range (l : List Nat) : permute (List.range l.length) l = l := by
  apply list_eq_of_getD (by simp [length_permute])
  intro k hk
  rw [length_permute] at hk
  rw [getD_permute _ _ _ hk]
  simp

/-- if the composed order is the identity, the second transpose undoes the first -/
theorem unpermute_unpermute_of_inverse {n : Nat} {p p' : List Nat} {idx : Index}
    (hp : IsPerm n p) (hp' : IsPerm n p') (hinv : permute p' p = List.range n) (hi : idx.length = n) :
    unpermute p (unpermute p' idx) = idx := by
  have h1 : permute p' (unpermute p' idx) = idx := permute_unpermute hp' hi
  have hl2 : (unpermute p (unpermute p' idx)).length = n := by rw [length_unpermute, hp.1]
  have h2 : permute p (unpermute p (unpermute p' idx)) = unpermute p' idx :=
    permute_unpermute hp (by rw [length_unpermute, hp'.1])
  have h3 : permute p' (permute p (unpermute p (unpermute p' idx))) = idx := by rw [h2, h1]
  rw [permute_permute _ _ _ (fun m hm => hp.1 ▸ hp'.2.2 m hm), hinv] at h3
  rw [← hl2] at h3
  rwa [permute_range] at h3

/-! ### permutations of the leading axes leave the item part of an index alone -/

/-- the axes `L … L+m-1` in place -/
def tailAxes (L m : Nat) : List Nat := (List.range m).map (L + ·)

theorem getD_append_left (a b : List Nat) (k : Nat) (h : k < a.length) :
    (a ++ b).getD k 0 = a.getD k 0 := by
  simp [List.getD_eq_getElem?_getD, List.getElem?_append_left h]

theorem getD_append_right (a b : List Nat) (k : Nat) :
    (a ++ b).getD (a.length + k) 0 = b.getD k 0 := by
  simp [List.getD_eq_getElem?_getD, List.getElem?_append_right]

theorem permute_lead_shape {L : Nat} {p : List Nat} (s t : List Nat) (hp : IsPerm L p) (hs : s.length = L) :
    permute (p ++ tailAxes L t.length) (s ++ t) = permute p s ++ t := by
  unfold permute tailAxes
  rw [List.map_append]
  congr 1
  · apply List.map_congr_left
    intro m hm
    exact getD_append_left _ _ _ (hs ▸ hp.2.2 m hm)
  · rw [List.map_map]
    apply List.ext_getElem (by simp)
    intro k h1 h2
    simp only [List.getElem_map, List.getElem_range, Function.comp]
    rw [← hs, getD_append_right, getD_of_lt _ _ h2]

theorem unpermute_lead_index {L : Nat} {p : List Nat} (i k : List Nat) (hp : IsPerm L p)
    (hi : i.length = L) :
    unpermute (p ++ tailAxes L k.length) (i ++ k) = unpermute p i ++ k := by
  have hl := hp.1
  unfold unpermute
  have hlen : (p ++ tailAxes L k.length).length = L + k.length := by simp [tailAxes, hl]
  rw [hlen, List.range_add, List.map_append, hl]
  congr 1
  · apply List.map_congr_left
    intro m hm
    have hm' : m < L := List.mem_range.1 hm
    have hmem : m ∈ p := hp.mem hm'
    rw [List.idxOf_append_of_mem hmem, getD_append_left _ _ _ (hi ▸ hl ▸ List.idxOf_lt_length_of_mem hmem)]
  · rw [List.map_map]
    apply List.ext_getElem (by simp)
    intro y h1 h2
    simp only [List.getElem_map, List.getElem_range, Function.comp]
    have hnot : L + y ∉ p := fun hmem => by have := hp.2.2 _ hmem; omega
    have hy : y < k.length := h2
    have hidx : (tailAxes L k.length).idxOf (L + y) = y := by
      have hnd : (tailAxes L k.length).Nodup := by
        unfold tailAxes
        exact (List.nodup_range).map (fun a b h => by omega)
      have hlt : y < (tailAxes L k.length).length := by simp [tailAxes, hy]
      have hget : (tailAxes L k.length)[y] = L + y := by simp [tailAxes]
      rw [← hget]
      exact hnd.idxOf_getElem _ _
    rw [List.idxOf_append_of_notMem hnot, hidx, hl, ← hi, getD_append_right, getD_of_lt _ _ hy]

end PMV.NpShape
