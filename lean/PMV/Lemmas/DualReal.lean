import Mathlib.Analysis.SpecialFunctions.Trigonometric.Deriv
import Mathlib.Analysis.SpecialFunctions.Trigonometric.ArctanDeriv
import Mathlib.Analysis.SpecialFunctions.Trigonometric.InverseDeriv
import Mathlib.Analysis.SpecialFunctions.Sqrt
import Mathlib.Analysis.SpecialFunctions.Log.Deriv
import Mathlib.Analysis.SpecialFunctions.ExpDeriv
import Mathlib.Analysis.SpecialFunctions.Pow.Deriv
import Mathlib.Analysis.Calculus.Deriv.Abs
import PMV.Model.Dual
/-
  C06 helper development: the `ℝ` instance of `Num`, the real four-quadrant arctangent and its
  derivative, and the bookkeeping lemmas (`Option.getD` through the key merges) used by
  `Props/C06.lean`.
-/
namespace PMV.Dual
open PMV

/-- The four-quadrant arctangent on ℝ (the function `np.arctan2(y, x)` approximates): the angle in
    `(-π, π]` of the point `(x, y)`; `0` at the origin. -/
noncomputable def atan2R (y x : ℝ) : ℝ :=
  if 0 < x then Real.arctan (y / x)
  else if 0 < y then Real.pi / 2 - Real.arctan (x / y)
  else if y < 0 then -(Real.pi / 2) - Real.arctan (x / y)
  else if x < 0 then Real.pi else 0

/-- The real-number instance of the numeric interface: the mathematical functions themselves. -/
noncomputable instance instNumReal : Num ℝ where
  ofInt n := (n : ℝ)
  half := 1 / 2
  pi := Real.pi
  sin := Real.sin
  cos := Real.cos
  tan := Real.tan
  exp := Real.exp
  log := Real.log
  sqrt := Real.sqrt
  asin := Real.arcsin
  acos := Real.arccos
  atan := Real.arctan
  atan2 := atan2R
  abs := fun x => |x|
  pow := fun x p => x ^ p
  lt := fun a b => decide (a < b)

/-! #### unfolding the interface at ℝ -/
@[simp] theorem one_real : (Num.one : ℝ) = 1 := by simp [Num.one, Num.ofInt]
@[simp] theorem zero_real : (Num.zero : ℝ) = 0 := by simp [Num.zero, Num.ofInt]
@[simp] theorem two_real : (Num.two : ℝ) = 2 := by simp [Num.two, Num.ofInt]
@[simp] theorem half_real : (Num.half : ℝ) = 1 / 2 := rfl
@[simp] theorem ofInt_real (n : ℤ) : (Num.ofInt n : ℝ) = (n : ℝ) := rfl
@[simp] theorem pow_real (a p : ℝ) : Num.pow a p = a ^ p := rfl
@[simp] theorem sqrt_real (a : ℝ) : Num.sqrt a = Real.sqrt a := rfl
@[simp] theorem sin_real (a : ℝ) : Num.sin a = Real.sin a := rfl
@[simp] theorem cos_real (a : ℝ) : Num.cos a = Real.cos a := rfl
@[simp] theorem lt_real (a b : ℝ) : (Num.lt a b = true) ↔ a < b := by simp [Num.lt]
@[simp] theorem nz_real (a : ℝ) : (Num.nz a = true) ↔ a ≠ 0 := by
  simp only [Num.nz, Bool.or_eq_true, lt_real, zero_real]
  exact ⟨fun h => h.elim ne_of_lt (fun h => (ne_of_lt h).symm), fun h => lt_or_gt_of_ne h⟩

theorem sign_real_pos {a : ℝ} (h : 0 < a) : (Num.sign a : ℝ) = 1 := by
  simp [Num.sign, Num.lt, not_lt.mpr h.le, h]
theorem sign_real_neg {a : ℝ} (h : a < 0) : (Num.sign a : ℝ) = -1 := by
  simp [Num.sign, Num.lt, h]

/-! #### `Option.getD · 0` through the key merges: an absent key counts as derivative 0 -/
section getD
variable (a b : ℝ) (da db : Option ℝ)

theorem getD_dAdd : (dAdd da db).getD 0 = da.getD 0 + db.getD 0 := by
  cases da <;> cases db <;> simp [dAdd]
theorem getD_dSub : (dSub da db).getD 0 = da.getD 0 - db.getD 0 := by
  cases da <;> cases db <;> simp [dSub]
theorem getD_dMul : (dMul a da b db).getD 0 = da.getD 0 * b + a * db.getD 0 := by
  cases da <;> cases db <;> simp [dMul]
theorem getD_dDiv : (dDiv a da b db).getD 0
    = da.getD 0 * (1 / b) - a * (db.getD 0 * (1 / b) * (1 / b)) := by
  cases da <;> cases db <;> simp [dDiv]
theorem getD_dFac : (dFac a da).getD 0 = a * da.getD 0 := by
  cases da <;> simp [dFac]
theorem getD_dFacR : (dFacR a da).getD 0 = da.getD 0 * a := by
  cases da <;> simp [dFacR]
theorem getD_map_neg : (da.map fun x => -x).getD 0 = -(da.getD 0) := by
  cases da <;> simp
theorem getD_map_div : (da.map fun x => x / a).getD 0 = da.getD 0 / a := by
  cases da <;> simp
theorem getD_map_zero : (da.map fun _ => (Num.zero : ℝ)).getD 0 = 0 := by
  cases da <;> simp
theorem getD_dAtan2 : (dAtan2 a da b db).getD 0
    = b * (1 / (b * b + a * a)) * da.getD 0 - a * (1 / (b * b + a * a)) * db.getD 0 := by
  cases da <;> cases db <;> simp [dAtan2]
end getD

/-- a two-valued step function of a differentiable quantity is locally constant away from the step -/
theorem hasDerivAt_step {f : ℝ → ℝ} {f' t : ℝ} (a b : ℝ) (hf : HasDerivAt f f' t) (hne : f t ≠ 0) :
    HasDerivAt (fun s => if Num.lt (f s) (Num.zero : ℝ) = true then a else b) 0 t := by
  rcases lt_or_gt_of_ne hne with h | h
  · have ev : (fun s => if Num.lt (f s) (Num.zero : ℝ) = true then a else b) =ᶠ[nhds t] fun _ => a := by
      filter_upwards [hf.continuousAt.eventually (gt_mem_nhds h)] with s hs
      simp [hs]
    exact (hasDerivAt_const t a).congr_of_eventuallyEq ev
  · have ev : (fun s => if Num.lt (f s) (Num.zero : ℝ) = true then a else b) =ᶠ[nhds t] fun _ => b := by
      filter_upwards [hf.continuousAt.eventually (lt_mem_nhds h)] with s hs
      simp [not_lt.mpr hs.le]
    exact (hasDerivAt_const t b).congr_of_eventuallyEq ev

/-! #### the real arctan2 on its three open regions and its derivative off the branch cut -/

theorem atan2R_of_pos_x {y x : ℝ} (hx : 0 < x) : atan2R y x = Real.arctan (y / x) := by
  simp [atan2R, hx]

theorem atan2R_of_pos_y {y x : ℝ} (hy : 0 < y) : atan2R y x = Real.pi / 2 - Real.arctan (x / y) := by
  unfold atan2R
  by_cases hx : 0 < x
  · have h : y / x = (x / y)⁻¹ := by rw [inv_div]
    rw [if_pos hx, h, Real.arctan_inv_of_pos (div_pos hx hy)]
  · rw [if_neg hx, if_pos hy]

theorem atan2R_of_neg_y {y x : ℝ} (hy : y < 0) : atan2R y x = -(Real.pi / 2) - Real.arctan (x / y) := by
  unfold atan2R
  by_cases hx : 0 < x
  · have h : y / x = (x / y)⁻¹ := by rw [inv_div]
    rw [if_pos hx, h, Real.arctan_inv_of_neg (div_neg_of_pos_of_neg hx hy)]
  · rw [if_neg hx, if_neg (not_lt.mpr hy.le), if_pos hy]

/-- `atan2R (r sin θ) (r cos θ) = θ`-style sanity anchor: on the positive x-axis the angle is 0, on the
    positive y-axis π/2, on the negative x-axis π, on the negative y-axis -π/2. -/
theorem atan2R_axes : atan2R 0 1 = 0 ∧ atan2R 1 0 = Real.pi / 2 ∧ atan2R 0 (-1) = Real.pi
    ∧ atan2R (-1) 0 = -(Real.pi / 2) := by
  refine ⟨by simp [atan2R], by simp [atan2R], by simp [atan2R], ?_⟩
  simp [atan2R]

theorem hasDerivAt_atan2R {fy fx : ℝ → ℝ} {dy dx t : ℝ}
    (hy : HasDerivAt fy dy t) (hx : HasDerivAt fx dx t) (h : 0 < fx t ∨ fy t ≠ 0) :
    HasDerivAt (fun s => atan2R (fy s) (fx s))
      (fx t * (1 / (fx t * fx t + fy t * fy t)) * dy - fy t * (1 / (fx t * fx t + fy t * fy t)) * dx) t := by
  rcases h with hpos | hne
  · -- right half-plane: arctan (y/x)
    have hev : (fun s => atan2R (fy s) (fx s)) =ᶠ[nhds t] fun s => Real.arctan (fy s / fx s) := by
      filter_upwards [hx.continuousAt.eventually (lt_mem_nhds hpos)] with s hs
      exact atan2R_of_pos_x hs
    have key := (hy.div hx (ne_of_gt hpos)).arctan
    refine (key.congr_of_eventuallyEq hev).congr_deriv ?_
    have hxne : fx t ≠ 0 := ne_of_gt hpos
    have hsum : fx t * fx t + fy t * fy t ≠ 0 := by
      have : 0 < fx t * fx t := mul_pos hpos hpos
      exact ne_of_gt (by nlinarith [mul_self_nonneg (fy t)])
    simp only [Pi.div_apply]
    field_simp
  · rcases lt_or_gt_of_ne hne with hneg | hposy
    · have hev : (fun s => atan2R (fy s) (fx s)) =ᶠ[nhds t]
          fun s => -(Real.pi / 2) - Real.arctan (fx s / fy s) := by
        filter_upwards [hy.continuousAt.eventually (gt_mem_nhds hneg)] with s hs
        exact atan2R_of_neg_y hs
      have key := ((hx.div hy hne).arctan).const_sub (-(Real.pi / 2))
      refine (key.congr_of_eventuallyEq hev).congr_deriv ?_
      have hsum : fx t * fx t + fy t * fy t ≠ 0 := by
        have : 0 < fy t * fy t := mul_pos_of_neg_of_neg hneg hneg
        exact ne_of_gt (by nlinarith [mul_self_nonneg (fx t)])
      simp only [Pi.div_apply]
      field_simp
      ring
    · have hev : (fun s => atan2R (fy s) (fx s)) =ᶠ[nhds t]
          fun s => Real.pi / 2 - Real.arctan (fx s / fy s) := by
        filter_upwards [hy.continuousAt.eventually (lt_mem_nhds hposy)] with s hs
        exact atan2R_of_pos_y hs
      have key := ((hx.div hy hne).arctan).const_sub (Real.pi / 2)
      refine (key.congr_of_eventuallyEq hev).congr_deriv ?_
      have hsum : fx t * fx t + fy t * fy t ≠ 0 := by
        have : 0 < fy t * fy t := mul_pos hposy hposy
        exact ne_of_gt (by nlinarith [mul_self_nonneg (fx t)])
      simp only [Pi.div_apply]
      field_simp
      ring

end PMV.Dual
