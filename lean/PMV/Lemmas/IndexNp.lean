import PMV.Model.NpIndex
import PMV.Lemmas.Bcast
/-
  C09 — a sanity theorem for the NumPy model `NpIndex.npIndex` on BASIC indices (None, Ellipsis,
  slices as coordinate lists, integers): its result — computed through atoms, broadcast of advanced
  shapes, placement of advanced axes and `walk` — equals a direct per-entry specification of NumPy
  basic indexing, for every rank.  (The advanced-index rules are validated by the kernel suite only.)
-/
namespace PMV.NpIndex
open PMV

def NEntry.isBasicN : NEntry → Bool
  | .newaxis => true | .ell => true | .coords _ => true | .int _ => true
  | _ => false

/-- NumPy basic indexing, read entry by entry against the remaining shape: result shape and, per
    result coordinate, the source coordinate.  `w` = number of axes the Ellipsis stands for. -/
def basicSpec (w : Nat) : Shape → List NEntry → Option (Shape × (Index → Index))
  | [], [] => some ([], fun _ => [])
  | _ :: _, [] => none
  | sh, .newaxis :: r => (basicSpec w sh r).map fun sf => (1 :: sf.1, fun o => sf.2 o.tail)
  | sh, .ell :: r =>
    (basicSpec w (sh.drop w) r).map fun sf =>
      (sh.take w ++ sf.1, fun o => o.take (sh.take w).length ++ sf.2 (o.drop (sh.take w).length))
  | n :: sh, .coords l :: r =>
    if l.all (· < n) then
      (basicSpec w sh r).map fun sf => (l.length :: sf.1, fun o => l.getD (o.headD 0) 0 :: sf.2 o.tail)
    else none
  | n :: sh, .int k :: r =>
    match normIdx n k with
    | some k' => (basicSpec w sh r).map fun sf => (sf.1, fun o => k' :: sf.2 o)
    | none => none
  | _, _ => none

theorem walk_ranges (ats : List Atom) : ∀ (L : Shape) (s : Shape) (o : Index), Valid (L ++ s) o →
    walk ((L.map fun n => Atom.plain (List.range n)) ++ ats) o [] =
      o.take L.length ++ walk ats (o.drop L.length) [] := by
  intro L
  induction L with
  | nil => intro s o _; simp
  | cons n L ih =>
    intro s o hv
    cases o with
    | nil => simp [Valid] at hv
    | cons a o =>
      simp only [List.cons_append, Valid] at hv
      have hget : (List.range n)[a]?.getD 0 = a := by simp [hv.1]
      simp [walk, hget, ih s o hv.2]

/-- the atoms of a basic index realise `basicSpec` -/
theorem atoms_basicSpec (w : Nat) : ∀ (idx : List NEntry), idx.all NEntry.isBasicN = true → ∀ (sh : Shape),
    match atoms sh w idx, basicSpec w sh idx with
    | none, none => True
    | some ats, some sf => plainLens ats = sf.1 ∧ (∀ s ∈ advShapes ats, s = []) ∧ allOk ats = true ∧
        ∀ o, Valid sf.1 o → walk ats o [] = sf.2 o
    | _, _ => False := by
  intro idx
  induction idx with
  | nil =>
    intro _ sh
    cases sh <;> simp [atoms, basicSpec, plainLens, advShapes, allOk, walk]
  | cons e r ih =>
    intro hb sh
    simp only [List.all_cons, Bool.and_eq_true] at hb
    cases e with
    | newaxis =>
      have := ih hb.2 sh
      have e1 : atoms sh w (.newaxis :: r) = (atoms sh w r).map (Atom.newaxis :: ·) := by cases sh <;> simp [atoms]
      have e2 : basicSpec w sh (.newaxis :: r) = (basicSpec w sh r).map fun sf => (1 :: sf.1, fun o => sf.2 o.tail) := by
        cases sh <;> simp [basicSpec]
      rw [e1, e2]
      cases ha : atoms sh w r <;> cases hs : basicSpec w sh r <;> simp [ha, hs] at this ⊢
      obtain ⟨h1, h2, h3, h4⟩ := this
      refine ⟨by simp [plainLens, h1], by simpa [advShapes] using h2, by simpa [allOk] using h3, ?_⟩
      intro o ho
      cases o with
      | nil => simp [Valid] at ho
      | cons a o => simp only [Valid] at ho; simp [walk, h4 o ho.2]
    | ell =>
      have := ih hb.2 (sh.drop w)
      have e1 : atoms sh w (.ell :: r) = (atoms (sh.drop w) w r).map
          (((sh.take w).map fun n => Atom.plain (List.range n)) ++ ·) := by cases sh <;> simp [atoms]
      have e2 : basicSpec w sh (.ell :: r) = (basicSpec w (sh.drop w) r).map fun sf =>
          (sh.take w ++ sf.1, fun o => o.take (sh.take w).length ++ sf.2 (o.drop (sh.take w).length)) := by
        cases sh <;> simp [basicSpec]
      rw [e1, e2]
      cases ha : atoms (sh.drop w) w r with
      | none =>
        cases hs : basicSpec w (sh.drop w) r with
        | none => simp
        | some sf => simp [ha, hs] at this
      | some ats' =>
      cases hs : basicSpec w (sh.drop w) r with
      | none => simp [ha, hs] at this
      | some sf =>
      simp only [ha, hs] at this
      simp only [Option.map_some]
      obtain ⟨h1, h2, h3, h4⟩ := this
      have pl : ∀ (L : Shape) (X : List Atom), plainLens ((L.map fun n => Atom.plain (List.range n)) ++ X) = L ++ plainLens X := by
        intro L X; induction L with
        | nil => rfl
        | cons n L ihL => simp [plainLens, ihL]
      have av : ∀ (L : Shape) (X : List Atom), advShapes ((L.map fun n => Atom.plain (List.range n)) ++ X) = advShapes X := by
        intro L X; induction L with
        | nil => rfl
        | cons n L ihL => simpa [advShapes] using ihL
      have ok : ∀ (L : Shape) (X : List Atom), allOk ((L.map fun n => Atom.plain (List.range n)) ++ X) = allOk X := by
        intro L X; induction L with
        | nil => rfl
        | cons n L ihL => simpa [allOk] using ihL
      refine ⟨by rw [pl, h1], by rw [av]; exact h2, by rw [ok]; exact h3, ?_⟩
      intro o ho
      rw [walk_ranges _ _ _ o ho]
      have hlen : (o.take (sh.take w).length).length = (sh.take w).length := by
        have := valid_length ho
        simp [List.length_take] at this ⊢; omega
      have hsplit : o = o.take (sh.take w).length ++ o.drop (sh.take w).length := by simp
      have hv2 : Valid sf.1 (o.drop (sh.take w).length) := by
        rw [hsplit] at ho
        exact ((valid_append hlen).1 ho).2
      rw [h4 _ hv2]
    | coords l =>
      cases sh with
      | nil => simp [atoms, basicSpec]
      | cons n sh =>
        have := ih hb.2 sh
        by_cases hl : l.all (· < n) = true
        · simp only [atoms, basicSpec, hl, if_true]
          cases ha : atoms sh w r <;> cases hs : basicSpec w sh r <;> simp [ha, hs] at this ⊢
          obtain ⟨h1, h2, h3, h4⟩ := this
          refine ⟨by simp [plainLens, h1], by simpa [advShapes] using h2, by simpa [allOk] using h3, ?_⟩
          intro o ho
          cases o with
          | nil => simp [Valid] at ho
          | cons a o => simp only [Valid] at ho; simp [walk, h4 o ho.2]
        · simp [atoms, basicSpec, hl]
    | int k =>
      cases sh with
      | nil => simp [atoms, basicSpec]
      | cons n sh =>
        have := ih hb.2 sh
        simp only [atoms, basicSpec]
        cases hn : normIdx n k with
        | none => simp
        | some k' =>
          simp only []
          cases ha : atoms sh w r <;> cases hs : basicSpec w sh r <;> simp [ha, hs] at this ⊢
          obtain ⟨h1, h2, h3, h4⟩ := this
          refine ⟨by simp [plainLens, h1], by simpa [advShapes] using h2, by simpa [allOk] using h3, ?_⟩
          intro o ho
          simp [walk, h4 o ho]
    | _ => simp [NEntry.isBasicN] at hb

theorem bcastAll_nils : ∀ (l : List Shape), (∀ s ∈ l, s = []) → bcastAll l = some [] := by
  intro l
  induction l with
  | nil => intro _; rfl
  | cons x r ih =>
    intro h
    have hx : x = [] := h x (by simp)
    subst hx
    simp [bcastAll, ih (fun s hs => h s (by simp [hs])), bcast, bcastRev]

/-- **npIndex_basic_spec.**  For an index of None / Ellipsis / slices / integers only, on any shape:
    `npIndex` fails exactly when `basicSpec` does (two Ellipses or too many entries aside, which
    both reject), and otherwise returns `basicSpec`'s shape and, at every valid result coordinate,
    `basicSpec`'s source coordinate: the advanced-index machinery of the model (broadcast shape,
    placement, `walk`) is neutral on basic indices. -/
theorem npIndex_basic_spec (shape : Shape) (idx : List NEntry) (hb : idx.all NEntry.isBasicN = true)
    (h1 : ellCount idx ≤ 1) (h2 : consTotal idx ≤ shape.length) :
    match npIndex shape idx,
          basicSpec (shape.length - consTotal idx) shape (if idx.any NEntry.isEll then idx else idx ++ [.ell]) with
    | none, none => True
    | some s, some sf => s.shape = sf.1 ∧ ∀ o, Valid sf.1 o → s.src o = sf.2 o
    | _, _ => False := by
  have hb' : (if idx.any NEntry.isEll then idx else idx ++ [.ell]).all NEntry.isBasicN = true := by
    split
    · exact hb
    · simp [List.all_append, hb, NEntry.isBasicN]
  have key := atoms_basicSpec (shape.length - consTotal idx) _ hb' shape
  unfold npIndex
  have g1 : ¬ ellCount idx > 1 := by omega
  have g2 : ¬ consTotal idx > shape.length := by omega
  simp only [g1, g2, if_false]
  generalize (if idx.any NEntry.isEll then idx else idx ++ [.ell]) = idx' at key ⊢
  cases ha : atoms shape (shape.length - consTotal idx) idx' with
  | none =>
    cases hs : basicSpec (shape.length - consTotal idx) shape idx' with
    | none => trivial
    | some sf => rw [ha, hs] at key; exact key.elim
  | some ats =>
    cases hs : basicSpec (shape.length - consTotal idx) shape idx' with
    | none => rw [ha, hs] at key; exact key.elim
    | some sf =>
      rw [ha, hs] at key
      obtain ⟨k1, k2, k3, k4⟩ := key
      simp only [bcastAll_nils _ k2, k3]
      refine ⟨by simp [k1], fun o ho => ?_⟩
      simp [splitAt, k4 o ho]

end PMV.NpIndex
