import PMV.Model.Algebra
import Mathlib.Tactic.Ring
/-
  C16 helper development: for each of the 24 Euler conventions, `qFromEulerRaw` (the code-shaped model of
  the four assignments and the parity flip of Quaternion.from_euler) equals the quaternion product of the
  three axis quaternions (cos h, sin h · e_axis) that the axes string names — same order convention as
  `eulerSpec`.  One lemma per convention, four `ring` identities each, no hypothesis.
-/
namespace PMV.Algebra
variable {K : Type} [CommRing K]
/-- the quaternion of a rotation about a principal axis, from sine and cosine of the HALF angle -/
def qAx (axis : Nat) (h : SC K) : Q4 K :=
  match axis with
  | 0 => ⟨h.c, h.s, 0, 0⟩
  | 1 => ⟨h.c, 0, h.s, 0⟩
  | _ => ⟨h.c, 0, 0, h.s⟩
/-- the defining composition of three axis quaternions (order as in `eulerSpec`) -/
def qEulerSpec (static : Bool) (x1 x2 x3 : Nat) (hi hj hk : SC K) : Q4 K :=
  match static with
  | true => qMul (qAx x3 hk) (qMul (qAx x2 hj) (qAx x1 hi))
  | false => qMul (qAx x1 hi) (qMul (qAx x2 hj) (qAx x3 hk))
theorem qeuler_row_sxyz (hi hj hk : SC K) (q0 : Q4 K) :
    qFromEulerRaw ⟨0, 0, 0, 0⟩ hi hj hk q0 = qEulerSpec true 0 1 2 hi hj hk := by
  simp [qFromEulerRaw, qEulerIJK, nextAxis, qEulerSpec, qAx, qMul, Q4.setAt, Q4.get, SC.neg]
  refine ⟨?_, ?_, ?_, ?_⟩ <;> ring1
theorem qeuler_row_sxyx (hi hj hk : SC K) (q0 : Q4 K) :
    qFromEulerRaw ⟨0, 0, 1, 0⟩ hi hj hk q0 = qEulerSpec true 0 1 0 hi hj hk := by
  simp [qFromEulerRaw, qEulerIJK, nextAxis, qEulerSpec, qAx, qMul, Q4.setAt, Q4.get, SC.neg]
  refine ⟨?_, ?_, ?_, ?_⟩ <;> ring1
theorem qeuler_row_sxzy (hi hj hk : SC K) (q0 : Q4 K) :
    qFromEulerRaw ⟨0, 1, 0, 0⟩ hi hj hk q0 = qEulerSpec true 0 2 1 hi hj hk := by
  simp [qFromEulerRaw, qEulerIJK, nextAxis, qEulerSpec, qAx, qMul, Q4.setAt, Q4.get, SC.neg]
  refine ⟨?_, ?_, ?_, ?_⟩ <;> ring1
theorem qeuler_row_sxzx (hi hj hk : SC K) (q0 : Q4 K) :
    qFromEulerRaw ⟨0, 1, 1, 0⟩ hi hj hk q0 = qEulerSpec true 0 2 0 hi hj hk := by
  simp [qFromEulerRaw, qEulerIJK, nextAxis, qEulerSpec, qAx, qMul, Q4.setAt, Q4.get, SC.neg]
  refine ⟨?_, ?_, ?_, ?_⟩ <;> ring1
theorem qeuler_row_syzx (hi hj hk : SC K) (q0 : Q4 K) :
    qFromEulerRaw ⟨1, 0, 0, 0⟩ hi hj hk q0 = qEulerSpec true 1 2 0 hi hj hk := by
  simp [qFromEulerRaw, qEulerIJK, nextAxis, qEulerSpec, qAx, qMul, Q4.setAt, Q4.get, SC.neg]
  refine ⟨?_, ?_, ?_, ?_⟩ <;> ring1
theorem qeuler_row_syzy (hi hj hk : SC K) (q0 : Q4 K) :
    qFromEulerRaw ⟨1, 0, 1, 0⟩ hi hj hk q0 = qEulerSpec true 1 2 1 hi hj hk := by
  simp [qFromEulerRaw, qEulerIJK, nextAxis, qEulerSpec, qAx, qMul, Q4.setAt, Q4.get, SC.neg]
  refine ⟨?_, ?_, ?_, ?_⟩ <;> ring1
theorem qeuler_row_syxz (hi hj hk : SC K) (q0 : Q4 K) :
    qFromEulerRaw ⟨1, 1, 0, 0⟩ hi hj hk q0 = qEulerSpec true 1 0 2 hi hj hk := by
  simp [qFromEulerRaw, qEulerIJK, nextAxis, qEulerSpec, qAx, qMul, Q4.setAt, Q4.get, SC.neg]
  refine ⟨?_, ?_, ?_, ?_⟩ <;> ring1
theorem qeuler_row_syxy (hi hj hk : SC K) (q0 : Q4 K) :
    qFromEulerRaw ⟨1, 1, 1, 0⟩ hi hj hk q0 = qEulerSpec true 1 0 1 hi hj hk := by
  simp [qFromEulerRaw, qEulerIJK, nextAxis, qEulerSpec, qAx, qMul, Q4.setAt, Q4.get, SC.neg]
  refine ⟨?_, ?_, ?_, ?_⟩ <;> ring1
theorem qeuler_row_szxy (hi hj hk : SC K) (q0 : Q4 K) :
    qFromEulerRaw ⟨2, 0, 0, 0⟩ hi hj hk q0 = qEulerSpec true 2 0 1 hi hj hk := by
  simp [qFromEulerRaw, qEulerIJK, nextAxis, qEulerSpec, qAx, qMul, Q4.setAt, Q4.get, SC.neg]
  refine ⟨?_, ?_, ?_, ?_⟩ <;> ring1
theorem qeuler_row_szxz (hi hj hk : SC K) (q0 : Q4 K) :
    qFromEulerRaw ⟨2, 0, 1, 0⟩ hi hj hk q0 = qEulerSpec true 2 0 2 hi hj hk := by
  simp [qFromEulerRaw, qEulerIJK, nextAxis, qEulerSpec, qAx, qMul, Q4.setAt, Q4.get, SC.neg]
  refine ⟨?_, ?_, ?_, ?_⟩ <;> ring1
theorem qeuler_row_szyx (hi hj hk : SC K) (q0 : Q4 K) :
    qFromEulerRaw ⟨2, 1, 0, 0⟩ hi hj hk q0 = qEulerSpec true 2 1 0 hi hj hk := by
  simp [qFromEulerRaw, qEulerIJK, nextAxis, qEulerSpec, qAx, qMul, Q4.setAt, Q4.get, SC.neg]
  refine ⟨?_, ?_, ?_, ?_⟩ <;> ring1
theorem qeuler_row_szyz (hi hj hk : SC K) (q0 : Q4 K) :
    qFromEulerRaw ⟨2, 1, 1, 0⟩ hi hj hk q0 = qEulerSpec true 2 1 2 hi hj hk := by
  simp [qFromEulerRaw, qEulerIJK, nextAxis, qEulerSpec, qAx, qMul, Q4.setAt, Q4.get, SC.neg]
  refine ⟨?_, ?_, ?_, ?_⟩ <;> ring1
theorem qeuler_row_rzyx (hi hj hk : SC K) (q0 : Q4 K) :
    qFromEulerRaw ⟨0, 0, 0, 1⟩ hi hj hk q0 = qEulerSpec false 2 1 0 hi hj hk := by
  simp [qFromEulerRaw, qEulerIJK, nextAxis, qEulerSpec, qAx, qMul, Q4.setAt, Q4.get, SC.neg]
  refine ⟨?_, ?_, ?_, ?_⟩ <;> ring1
theorem qeuler_row_rxyx (hi hj hk : SC K) (q0 : Q4 K) :
    qFromEulerRaw ⟨0, 0, 1, 1⟩ hi hj hk q0 = qEulerSpec false 0 1 0 hi hj hk := by
  simp [qFromEulerRaw, qEulerIJK, nextAxis, qEulerSpec, qAx, qMul, Q4.setAt, Q4.get, SC.neg]
  refine ⟨?_, ?_, ?_, ?_⟩ <;> ring1
theorem qeuler_row_ryzx (hi hj hk : SC K) (q0 : Q4 K) :
    qFromEulerRaw ⟨0, 1, 0, 1⟩ hi hj hk q0 = qEulerSpec false 1 2 0 hi hj hk := by
  simp [qFromEulerRaw, qEulerIJK, nextAxis, qEulerSpec, qAx, qMul, Q4.setAt, Q4.get, SC.neg]
  refine ⟨?_, ?_, ?_, ?_⟩ <;> ring1
theorem qeuler_row_rxzx (hi hj hk : SC K) (q0 : Q4 K) :
    qFromEulerRaw ⟨0, 1, 1, 1⟩ hi hj hk q0 = qEulerSpec false 0 2 0 hi hj hk := by
  simp [qFromEulerRaw, qEulerIJK, nextAxis, qEulerSpec, qAx, qMul, Q4.setAt, Q4.get, SC.neg]
  refine ⟨?_, ?_, ?_, ?_⟩ <;> ring1
theorem qeuler_row_rxzy (hi hj hk : SC K) (q0 : Q4 K) :
    qFromEulerRaw ⟨1, 0, 0, 1⟩ hi hj hk q0 = qEulerSpec false 0 2 1 hi hj hk := by
  simp [qFromEulerRaw, qEulerIJK, nextAxis, qEulerSpec, qAx, qMul, Q4.setAt, Q4.get, SC.neg]
  refine ⟨?_, ?_, ?_, ?_⟩ <;> ring1
theorem qeuler_row_ryzy (hi hj hk : SC K) (q0 : Q4 K) :
    qFromEulerRaw ⟨1, 0, 1, 1⟩ hi hj hk q0 = qEulerSpec false 1 2 1 hi hj hk := by
  simp [qFromEulerRaw, qEulerIJK, nextAxis, qEulerSpec, qAx, qMul, Q4.setAt, Q4.get, SC.neg]
  refine ⟨?_, ?_, ?_, ?_⟩ <;> ring1
theorem qeuler_row_rzxy (hi hj hk : SC K) (q0 : Q4 K) :
    qFromEulerRaw ⟨1, 1, 0, 1⟩ hi hj hk q0 = qEulerSpec false 2 0 1 hi hj hk := by
  simp [qFromEulerRaw, qEulerIJK, nextAxis, qEulerSpec, qAx, qMul, Q4.setAt, Q4.get, SC.neg]
  refine ⟨?_, ?_, ?_, ?_⟩ <;> ring1
theorem qeuler_row_ryxy (hi hj hk : SC K) (q0 : Q4 K) :
    qFromEulerRaw ⟨1, 1, 1, 1⟩ hi hj hk q0 = qEulerSpec false 1 0 1 hi hj hk := by
  simp [qFromEulerRaw, qEulerIJK, nextAxis, qEulerSpec, qAx, qMul, Q4.setAt, Q4.get, SC.neg]
  refine ⟨?_, ?_, ?_, ?_⟩ <;> ring1
theorem qeuler_row_ryxz (hi hj hk : SC K) (q0 : Q4 K) :
    qFromEulerRaw ⟨2, 0, 0, 1⟩ hi hj hk q0 = qEulerSpec false 1 0 2 hi hj hk := by
  simp [qFromEulerRaw, qEulerIJK, nextAxis, qEulerSpec, qAx, qMul, Q4.setAt, Q4.get, SC.neg]
  refine ⟨?_, ?_, ?_, ?_⟩ <;> ring1
theorem qeuler_row_rzxz (hi hj hk : SC K) (q0 : Q4 K) :
    qFromEulerRaw ⟨2, 0, 1, 1⟩ hi hj hk q0 = qEulerSpec false 2 0 2 hi hj hk := by
  simp [qFromEulerRaw, qEulerIJK, nextAxis, qEulerSpec, qAx, qMul, Q4.setAt, Q4.get, SC.neg]
  refine ⟨?_, ?_, ?_, ?_⟩ <;> ring1
theorem qeuler_row_rxyz (hi hj hk : SC K) (q0 : Q4 K) :
    qFromEulerRaw ⟨2, 1, 0, 1⟩ hi hj hk q0 = qEulerSpec false 0 1 2 hi hj hk := by
  simp [qFromEulerRaw, qEulerIJK, nextAxis, qEulerSpec, qAx, qMul, Q4.setAt, Q4.get, SC.neg]
  refine ⟨?_, ?_, ?_, ?_⟩ <;> ring1
theorem qeuler_row_rzyz (hi hj hk : SC K) (q0 : Q4 K) :
    qFromEulerRaw ⟨2, 1, 1, 1⟩ hi hj hk q0 = qEulerSpec false 2 1 2 hi hj hk := by
  simp [qFromEulerRaw, qEulerIJK, nextAxis, qEulerSpec, qAx, qMul, Q4.setAt, Q4.get, SC.neg]
  refine ⟨?_, ?_, ?_, ?_⟩ <;> ring1
end PMV.Algebra
