import PMV.Model.Algebra
import PMV.Lemmas.AlgebraMat3
import Mathlib.Tactic.Ring
import Mathlib.Tactic.LinearCombination
/-
  C16 helper development: textbook axis rotations and, for each of the 24 Euler conventions, the
  lemma that `fromEuler` (the code-shaped model of Matrix3.from_euler) writes exactly the product of
  the three axis rotations that the axes string names.  One lemma per convention (each is nine
  `ring` identities; no hypothesis on the sines and cosines).
-/
namespace PMV.Algebra
variable {K : Type} [CommRing K]

/-- textbook counter-clockwise rotation about a principal axis (0 = x, 1 = y, 2 = z) -/
def Rax (axis : Nat) (a : SC K) : Mat K :=
  match axis with
  | 0 => fun r c => match r, c with
    | 0, 0 => 1 | 1, 1 => a.c | 1, 2 => -a.s | 2, 1 => a.s | 2, 2 => a.c | _, _ => 0
  | 1 => fun r c => match r, c with
    | 1, 1 => 1 | 0, 0 => a.c | 0, 2 => a.s | 2, 0 => -a.s | 2, 2 => a.c | _, _ => 0
  | _ => fun r c => match r, c with
    | 2, 2 => 1 | 0, 0 => a.c | 0, 1 => -a.s | 1, 0 => a.s | 1, 1 => a.c | _, _ => 0

theorem rax_orthonormal (axis : Nat) (hx : axis < 3) (a : SC K) (h : a.s * a.s + a.c * a.c = 1) :
    Orthonormal3 (Rax axis a) := by
  revert axis
  refine forall_lt3 ?_ ?_ ?_ <;> refine forall_lt3_2 ⟨?_, ?_, ?_, ?_, ?_, ?_, ?_, ?_, ?_⟩ <;>
    simp [Rax, Mat.mul, Mat.T, Mat.ident, sumRange] <;> first | ring1 | linear_combination h

theorem rax_det (axis : Nat) (hx : axis < 3) (a : SC K) (h : a.s * a.s + a.c * a.c = 1) :
    det3 (Rax axis a) = 1 := by
  revert axis
  refine forall_lt3 ?_ ?_ ?_ <;> simp [Rax, det3] <;> linear_combination h

/-- the meaning of an axes string: `static` (first letter 's') and the three axis letters
    (x = 0, y = 1, z = 2), next to the encoded tuple of `_AXES2TUPLE` -/
def convTable : List (String × Conv × Bool × Nat × Nat × Nat) := [
  ("sxyz", ⟨0, 0, 0, 0⟩, true, 0, 1, 2),
  ("sxyx", ⟨0, 0, 1, 0⟩, true, 0, 1, 0),
  ("sxzy", ⟨0, 1, 0, 0⟩, true, 0, 2, 1),
  ("sxzx", ⟨0, 1, 1, 0⟩, true, 0, 2, 0),
  ("syzx", ⟨1, 0, 0, 0⟩, true, 1, 2, 0),
  ("syzy", ⟨1, 0, 1, 0⟩, true, 1, 2, 1),
  ("syxz", ⟨1, 1, 0, 0⟩, true, 1, 0, 2),
  ("syxy", ⟨1, 1, 1, 0⟩, true, 1, 0, 1),
  ("szxy", ⟨2, 0, 0, 0⟩, true, 2, 0, 1),
  ("szxz", ⟨2, 0, 1, 0⟩, true, 2, 0, 2),
  ("szyx", ⟨2, 1, 0, 0⟩, true, 2, 1, 0),
  ("szyz", ⟨2, 1, 1, 0⟩, true, 2, 1, 2),
  ("rzyx", ⟨0, 0, 0, 1⟩, false, 2, 1, 0),
  ("rxyx", ⟨0, 0, 1, 1⟩, false, 0, 1, 0),
  ("ryzx", ⟨0, 1, 0, 1⟩, false, 1, 2, 0),
  ("rxzx", ⟨0, 1, 1, 1⟩, false, 0, 2, 0),
  ("rxzy", ⟨1, 0, 0, 1⟩, false, 0, 2, 1),
  ("ryzy", ⟨1, 0, 1, 1⟩, false, 1, 2, 1),
  ("rzxy", ⟨1, 1, 0, 1⟩, false, 2, 0, 1),
  ("ryxy", ⟨1, 1, 1, 1⟩, false, 1, 0, 1),
  ("ryxz", ⟨2, 0, 0, 1⟩, false, 1, 0, 2),
  ("rzxz", ⟨2, 0, 1, 1⟩, false, 2, 0, 2),
  ("rxyz", ⟨2, 1, 0, 1⟩, false, 0, 1, 2),
  ("rzyz", ⟨2, 1, 1, 1⟩, false, 2, 1, 2)]

/-- the defining composition: static frame = rotations about fixed axes applied in the order
    written (so the first one is the rightmost factor), rotating frame = the reverse order -/
def eulerSpec (static : Bool) (x1 x2 x3 : Nat) (ai aj ak : SC K) : Mat K :=
  match static with
  | true => Mat.mul 3 (Rax x3 ak) (Mat.mul 3 (Rax x2 aj) (Rax x1 ai))
  | false => Mat.mul 3 (Rax x1 ai) (Mat.mul 3 (Rax x2 aj) (Rax x3 ak))

theorem euler_row_sxyz (ai aj ak : SC K) (m0 : Mat K) :
    Eq3 (fromEuler ⟨0, 0, 0, 0⟩ ai aj ak m0) (eulerSpec true 0 1 2 ai aj ak) := by
  refine forall_lt3_2 ⟨?_, ?_, ?_, ?_, ?_, ?_, ?_, ?_, ?_⟩ <;>
    simp [fromEuler, eulerIJK, nextAxis, eulerSpec, Rax, Mat.set, Mat.mul, sumRange, SC.neg] <;> ring1

theorem euler_row_sxyx (ai aj ak : SC K) (m0 : Mat K) :
    Eq3 (fromEuler ⟨0, 0, 1, 0⟩ ai aj ak m0) (eulerSpec true 0 1 0 ai aj ak) := by
  refine forall_lt3_2 ⟨?_, ?_, ?_, ?_, ?_, ?_, ?_, ?_, ?_⟩ <;>
    simp [fromEuler, eulerIJK, nextAxis, eulerSpec, Rax, Mat.set, Mat.mul, sumRange, SC.neg] <;> ring1

theorem euler_row_sxzy (ai aj ak : SC K) (m0 : Mat K) :
    Eq3 (fromEuler ⟨0, 1, 0, 0⟩ ai aj ak m0) (eulerSpec true 0 2 1 ai aj ak) := by
  refine forall_lt3_2 ⟨?_, ?_, ?_, ?_, ?_, ?_, ?_, ?_, ?_⟩ <;>
    simp [fromEuler, eulerIJK, nextAxis, eulerSpec, Rax, Mat.set, Mat.mul, sumRange, SC.neg] <;> ring1

theorem euler_row_sxzx (ai aj ak : SC K) (m0 : Mat K) :
    Eq3 (fromEuler ⟨0, 1, 1, 0⟩ ai aj ak m0) (eulerSpec true 0 2 0 ai aj ak) := by
  refine forall_lt3_2 ⟨?_, ?_, ?_, ?_, ?_, ?_, ?_, ?_, ?_⟩ <;>
    simp [fromEuler, eulerIJK, nextAxis, eulerSpec, Rax, Mat.set, Mat.mul, sumRange, SC.neg] <;> ring1

theorem euler_row_syzx (ai aj ak : SC K) (m0 : Mat K) :
    Eq3 (fromEuler ⟨1, 0, 0, 0⟩ ai aj ak m0) (eulerSpec true 1 2 0 ai aj ak) := by
  refine forall_lt3_2 ⟨?_, ?_, ?_, ?_, ?_, ?_, ?_, ?_, ?_⟩ <;>
    simp [fromEuler, eulerIJK, nextAxis, eulerSpec, Rax, Mat.set, Mat.mul, sumRange, SC.neg] <;> ring1

theorem euler_row_syzy (ai aj ak : SC K) (m0 : Mat K) :
    Eq3 (fromEuler ⟨1, 0, 1, 0⟩ ai aj ak m0) (eulerSpec true 1 2 1 ai aj ak) := by
  refine forall_lt3_2 ⟨?_, ?_, ?_, ?_, ?_, ?_, ?_, ?_, ?_⟩ <;>
    simp [fromEuler, eulerIJK, nextAxis, eulerSpec, Rax, Mat.set, Mat.mul, sumRange, SC.neg] <;> ring1

theorem euler_row_syxz (ai aj ak : SC K) (m0 : Mat K) :
    Eq3 (fromEuler ⟨1, 1, 0, 0⟩ ai aj ak m0) (eulerSpec true 1 0 2 ai aj ak) := by
  refine forall_lt3_2 ⟨?_, ?_, ?_, ?_, ?_, ?_, ?_, ?_, ?_⟩ <;>
    simp [fromEuler, eulerIJK, nextAxis, eulerSpec, Rax, Mat.set, Mat.mul, sumRange, SC.neg] <;> ring1

theorem euler_row_syxy (ai aj ak : SC K) (m0 : Mat K) :
    Eq3 (fromEuler ⟨1, 1, 1, 0⟩ ai aj ak m0) (eulerSpec true 1 0 1 ai aj ak) := by
  refine forall_lt3_2 ⟨?_, ?_, ?_, ?_, ?_, ?_, ?_, ?_, ?_⟩ <;>
    simp [fromEuler, eulerIJK, nextAxis, eulerSpec, Rax, Mat.set, Mat.mul, sumRange, SC.neg] <;> ring1

theorem euler_row_szxy (ai aj ak : SC K) (m0 : Mat K) :
    Eq3 (fromEuler ⟨2, 0, 0, 0⟩ ai aj ak m0) (eulerSpec true 2 0 1 ai aj ak) := by
  refine forall_lt3_2 ⟨?_, ?_, ?_, ?_, ?_, ?_, ?_, ?_, ?_⟩ <;>
    simp [fromEuler, eulerIJK, nextAxis, eulerSpec, Rax, Mat.set, Mat.mul, sumRange, SC.neg] <;> ring1

theorem euler_row_szxz (ai aj ak : SC K) (m0 : Mat K) :
    Eq3 (fromEuler ⟨2, 0, 1, 0⟩ ai aj ak m0) (eulerSpec true 2 0 2 ai aj ak) := by
  refine forall_lt3_2 ⟨?_, ?_, ?_, ?_, ?_, ?_, ?_, ?_, ?_⟩ <;>
    simp [fromEuler, eulerIJK, nextAxis, eulerSpec, Rax, Mat.set, Mat.mul, sumRange, SC.neg] <;> ring1

theorem euler_row_szyx (ai aj ak : SC K) (m0 : Mat K) :
    Eq3 (fromEuler ⟨2, 1, 0, 0⟩ ai aj ak m0) (eulerSpec true 2 1 0 ai aj ak) := by
  refine forall_lt3_2 ⟨?_, ?_, ?_, ?_, ?_, ?_, ?_, ?_, ?_⟩ <;>
    simp [fromEuler, eulerIJK, nextAxis, eulerSpec, Rax, Mat.set, Mat.mul, sumRange, SC.neg] <;> ring1

theorem euler_row_szyz (ai aj ak : SC K) (m0 : Mat K) :
    Eq3 (fromEuler ⟨2, 1, 1, 0⟩ ai aj ak m0) (eulerSpec true 2 1 2 ai aj ak) := by
  refine forall_lt3_2 ⟨?_, ?_, ?_, ?_, ?_, ?_, ?_, ?_, ?_⟩ <;>
    simp [fromEuler, eulerIJK, nextAxis, eulerSpec, Rax, Mat.set, Mat.mul, sumRange, SC.neg] <;> ring1

theorem euler_row_rzyx (ai aj ak : SC K) (m0 : Mat K) :
    Eq3 (fromEuler ⟨0, 0, 0, 1⟩ ai aj ak m0) (eulerSpec false 2 1 0 ai aj ak) := by
  refine forall_lt3_2 ⟨?_, ?_, ?_, ?_, ?_, ?_, ?_, ?_, ?_⟩ <;>
    simp [fromEuler, eulerIJK, nextAxis, eulerSpec, Rax, Mat.set, Mat.mul, sumRange, SC.neg] <;> ring1

theorem euler_row_rxyx (ai aj ak : SC K) (m0 : Mat K) :
    Eq3 (fromEuler ⟨0, 0, 1, 1⟩ ai aj ak m0) (eulerSpec false 0 1 0 ai aj ak) := by
  refine forall_lt3_2 ⟨?_, ?_, ?_, ?_, ?_, ?_, ?_, ?_, ?_⟩ <;>
    simp [fromEuler, eulerIJK, nextAxis, eulerSpec, Rax, Mat.set, Mat.mul, sumRange, SC.neg] <;> ring1

theorem euler_row_ryzx (ai aj ak : SC K) (m0 : Mat K) :
    Eq3 (fromEuler ⟨0, 1, 0, 1⟩ ai aj ak m0) (eulerSpec false 1 2 0 ai aj ak) := by
  refine forall_lt3_2 ⟨?_, ?_, ?_, ?_, ?_, ?_, ?_, ?_, ?_⟩ <;>
    simp [fromEuler, eulerIJK, nextAxis, eulerSpec, Rax, Mat.set, Mat.mul, sumRange, SC.neg] <;> ring1

theorem euler_row_rxzx (ai aj ak : SC K) (m0 : Mat K) :
    Eq3 (fromEuler ⟨0, 1, 1, 1⟩ ai aj ak m0) (eulerSpec false 0 2 0 ai aj ak) := by
  refine forall_lt3_2 ⟨?_, ?_, ?_, ?_, ?_, ?_, ?_, ?_, ?_⟩ <;>
    simp [fromEuler, eulerIJK, nextAxis, eulerSpec, Rax, Mat.set, Mat.mul, sumRange, SC.neg] <;> ring1

theorem euler_row_rxzy (ai aj ak : SC K) (m0 : Mat K) :
    Eq3 (fromEuler ⟨1, 0, 0, 1⟩ ai aj ak m0) (eulerSpec false 0 2 1 ai aj ak) := by
  refine forall_lt3_2 ⟨?_, ?_, ?_, ?_, ?_, ?_, ?_, ?_, ?_⟩ <;>
    simp [fromEuler, eulerIJK, nextAxis, eulerSpec, Rax, Mat.set, Mat.mul, sumRange, SC.neg] <;> ring1

theorem euler_row_ryzy (ai aj ak : SC K) (m0 : Mat K) :
    Eq3 (fromEuler ⟨1, 0, 1, 1⟩ ai aj ak m0) (eulerSpec false 1 2 1 ai aj ak) := by
  refine forall_lt3_2 ⟨?_, ?_, ?_, ?_, ?_, ?_, ?_, ?_, ?_⟩ <;>
    simp [fromEuler, eulerIJK, nextAxis, eulerSpec, Rax, Mat.set, Mat.mul, sumRange, SC.neg] <;> ring1

theorem euler_row_rzxy (ai aj ak : SC K) (m0 : Mat K) :
    Eq3 (fromEuler ⟨1, 1, 0, 1⟩ ai aj ak m0) (eulerSpec false 2 0 1 ai aj ak) := by
  refine forall_lt3_2 ⟨?_, ?_, ?_, ?_, ?_, ?_, ?_, ?_, ?_⟩ <;>
    simp [fromEuler, eulerIJK, nextAxis, eulerSpec, Rax, Mat.set, Mat.mul, sumRange, SC.neg] <;> ring1

theorem euler_row_ryxy (ai aj ak : SC K) (m0 : Mat K) :
    Eq3 (fromEuler ⟨1, 1, 1, 1⟩ ai aj ak m0) (eulerSpec false 1 0 1 ai aj ak) := by
  refine forall_lt3_2 ⟨?_, ?_, ?_, ?_, ?_, ?_, ?_, ?_, ?_⟩ <;>
    simp [fromEuler, eulerIJK, nextAxis, eulerSpec, Rax, Mat.set, Mat.mul, sumRange, SC.neg] <;> ring1

theorem euler_row_ryxz (ai aj ak : SC K) (m0 : Mat K) :
    Eq3 (fromEuler ⟨2, 0, 0, 1⟩ ai aj ak m0) (eulerSpec false 1 0 2 ai aj ak) := by
  refine forall_lt3_2 ⟨?_, ?_, ?_, ?_, ?_, ?_, ?_, ?_, ?_⟩ <;>
    simp [fromEuler, eulerIJK, nextAxis, eulerSpec, Rax, Mat.set, Mat.mul, sumRange, SC.neg] <;> ring1

theorem euler_row_rzxz (ai aj ak : SC K) (m0 : Mat K) :
    Eq3 (fromEuler ⟨2, 0, 1, 1⟩ ai aj ak m0) (eulerSpec false 2 0 2 ai aj ak) := by
  refine forall_lt3_2 ⟨?_, ?_, ?_, ?_, ?_, ?_, ?_, ?_, ?_⟩ <;>
    simp [fromEuler, eulerIJK, nextAxis, eulerSpec, Rax, Mat.set, Mat.mul, sumRange, SC.neg] <;> ring1

theorem euler_row_rxyz (ai aj ak : SC K) (m0 : Mat K) :
    Eq3 (fromEuler ⟨2, 1, 0, 1⟩ ai aj ak m0) (eulerSpec false 0 1 2 ai aj ak) := by
  refine forall_lt3_2 ⟨?_, ?_, ?_, ?_, ?_, ?_, ?_, ?_, ?_⟩ <;>
    simp [fromEuler, eulerIJK, nextAxis, eulerSpec, Rax, Mat.set, Mat.mul, sumRange, SC.neg] <;> ring1

theorem euler_row_rzyz (ai aj ak : SC K) (m0 : Mat K) :
    Eq3 (fromEuler ⟨2, 1, 1, 1⟩ ai aj ak m0) (eulerSpec false 2 1 2 ai aj ak) := by
  refine forall_lt3_2 ⟨?_, ?_, ?_, ?_, ?_, ?_, ?_, ?_, ?_⟩ <;>
    simp [fromEuler, eulerIJK, nextAxis, eulerSpec, Rax, Mat.set, Mat.mul, sumRange, SC.neg] <;> ring1

end PMV.Algebra
