import PMV.Model.Index
/-
  C09/C10 — the per-element SPECIFICATION of polymath indexing (`sel`), written independently of
  `_prep_index` / NumPy: for each output coordinate, the source element and whether the selecting
  index entries were masked or out of range.  Mathlib-free.
-/
namespace PMV.Index
open PMV PMV.NpIndex

/-! ### shapeless objects -/

/-- axes a shapeless object acquires: `None` ↦ 1, an unmasked `False` ↦ 0 -/
def Entry.sdim : Entry → List Nat
  | .none => [1]
  | .bool false false => [0]
  | _ => []

def Entry.smasked : Entry → Bool
  | .bool _ true => true
  | _ => false

def scalarDims (es : List Entry) : List Nat := es.flatMap Entry.sdim

/-- the index contains a masked Boolean -/
def scalarMasked (es : List Entry) : Bool := es.any Entry.smasked

/-- valid index for a shapeless object: only `True`/`False`/masked Boolean (at most one), `...`
    (at most one), `None`, `:`; `hb`/`he` = a boolean / an Ellipsis has been seen already -/
def scalarOK : Bool → Bool → List Entry → Bool
  | _, _, [] => true
  | hb, he, .bool _ _ :: r => !hb && scalarOK true he r
  | hb, he, .ell :: r => !he && scalarOK hb true r
  | hb, he, .none :: r => scalarOK hb he r
  | hb, he, .slice full _ :: r => full && scalarOK hb he r
  | _, _, _ :: _ => false

/-! ### objects with at least one axis: the per-element specification `sel`

Every entry is read against the axes that remain ("progressively"): an integer fixes a coordinate,
a slice / single boolean / `None` / the Ellipsis produce axes, an array entry reads one coordinate
(per consumed axis) for each element of the broadcast array shape.  The array axes stand where the
first array entry stood. -/

/-- a resolved index entry of the specification -/
inductive SAtom where
  /-- one result axis; element `j` reads source coordinate `l[j]`; `flag`: the entry is a masked
      Boolean, every result element is masked -/
  | axis (l : List Nat) (flag : Bool)
  /-- `None`: one result axis of length 1 -/
  | new
  /-- an integer on an axis of length `n`: reads coordinate `k`; `none` = masked or out of range -/
  | fix (n : Nat) (k : Option Nat)
  /-- an array entry of shape `sh`: at array coordinate `i` it reads the source coordinates `f i`
      (one per consumed axis) and is masked / out of range iff `flag i` -/
  | arr (sh : Shape) (f : Index → List Nat) (flag : Index → Bool)

/-- a single-axis entry on an axis of length `n` -/
def specEntry (n : Nat) : Entry → Option SAtom
  | .slice _ l => if l.all (· < n) then some (.axis l false) else none
  | .bool v m =>
    some (if m then .axis (List.range (min 1 n)) true
          else if v then .axis (List.range n) false else .axis [] false)
  | .int k m => some (.fix n (if m then none else normIdx n k))
  | .iarr v m =>
    some (.arr v.shape (fun i => [(normIdx n (v.get i)).getD 0])
                       (fun i => m.bit i || (normIdx n (v.get i)).isNone))
  | _ => none

/-- the positions a Boolean array selects: True or masked, in row-major order -/
def boolSel (v : Arr Bool) (m : Mask) : List Index :=
  (indices v.shape).filter fun i => v.get i || m.bit i

/-- resolve the entries against the remaining shape; `w` = number of axes the Ellipsis stands for -/
def specAtoms (w : Nat) : Shape → List Entry → Option (List SAtom)
  | [], [] => some []
  | _ :: _, [] => none
  | sh, .none :: r => (specAtoms w sh r).map (SAtom.new :: ·)
  | sh, .ell :: r =>
    (specAtoms w (sh.drop w) r).map (((sh.take w).map fun n => SAtom.axis (List.range n) false) ++ ·)
  | sh, .barr v m :: r =>
    if sh.take v.shape.length = v.shape ∧ sh ≠ [] then
      (specAtoms w (sh.drop v.shape.length) r).map
        (SAtom.arr [(boolSel v m).length] (fun i => (boolSel v m).getD (i.headD 0) [])
                   (fun i => m.bit ((boolSel v m).getD (i.headD 0) [])) :: ·)
    else none
  | n :: sh, e :: r => (specEntry n e).bind fun a => (specAtoms w sh r).map (a :: ·)
  | [], _ :: _ => none

namespace SAtom
/-- lengths of the result axes produced by the non-array entries -/
def lens : List SAtom → Shape
  | [] => []
  | axis l _ :: r => l.length :: lens r
  | new :: r => 1 :: lens r
  | _ :: r => lens r

def arrShapes : List SAtom → List Shape
  | [] => []
  | arr sh _ _ :: r => sh :: arrShapes r
  | _ :: r => arrShapes r

/-- result axes produced ahead of the first array entry -/
def axesBefore : List SAtom → Nat
  | [] => 0
  | axis _ _ :: r => 1 + axesBefore r
  | new :: r => 1 + axesBefore r
  | fix _ _ :: r => axesBefore r
  | arr _ _ _ :: _ => 0

/-- result axes produced ahead of the first integer or array entry -/
def axesBeforeAdv : List SAtom → Nat
  | [] => 0
  | axis _ _ :: r => 1 + axesBeforeAdv r
  | new :: r => 1 + axesBeforeAdv r
  | fix _ _ :: _ => 0
  | arr _ _ _ :: _ => 0

/-- source coordinate for plain coordinate `po` and array coordinate `ac` -/
def walk : List SAtom → Index → Index → Index
  | [], _, _ => []
  | axis l _ :: r, po, ac => l.getD (po.headD 0) 0 :: walk r po.tail ac
  | new :: r, po, ac => walk r po.tail ac
  | fix _ k :: r, po, ac => k.getD 0 :: walk r po ac
  | arr sh f _ :: r, po, ac => f (bidx sh ac) ++ walk r po ac

/-- is some entry selecting this element masked or out of range? -/
def flag : List SAtom → Index → Bool
  | [], _ => false
  | axis _ fl :: r, ac => fl || flag r ac
  | new :: r, ac => flag r ac
  | fix _ k :: r, ac => k.isNone || flag r ac
  | arr sh _ fl :: r, ac => fl (bidx sh ac) || flag r ac

/-- the recorded defect KF-C09-1 does not apply: no integer entry sits on an axis of length 0 -/
def ok : SAtom → Bool
  | fix n none => decide (0 < n)
  | _ => true
end SAtom

/-- the specification's result: shape; per result coordinate the source coordinate and whether a
    selecting entry is masked / out of range -/
structure Spec where
  shape : Shape
  src : Index → Index
  flag : Index → Bool

def ellCountE (es : List Entry) : Nat := (es.filter Entry.isEll).length

/-- resolve a whole index: at most one Ellipsis, not more entries than axes, an index without
    Ellipsis is followed by an implicit one -/
def selAtoms (shape : Shape) (es : List Entry) : Option (List SAtom) :=
  if ellCountE es > 1 then none
  else if totalAdvance es > shape.length then none
  else specAtoms (shape.length - totalAdvance es) shape (if es.any Entry.isEll then es else es ++ [.ell])

def specOf (sats : List SAtom) : Option Spec :=
  (bcastAll (SAtom.arrShapes sats)).map fun B =>
    let loc := SAtom.axesBefore sats
    let pl := SAtom.lens sats
    ⟨pl.take loc ++ B ++ pl.drop loc,
     fun o => SAtom.walk sats (splitAt loc B.length o).1 (splitAt loc B.length o).2,
     fun o => SAtom.flag sats (splitAt loc B.length o).2⟩

/-- **the specification**: `q[es]` for `q` of leading shape `shape` (Pair/Vector index objects are
    not covered by `sel`) -/
def sel (shape : Shape) (es : List Entry) : Option Spec := (selAtoms shape es).bind specOf

end PMV.Index
