import PMV.Model.Index
/-
  C09/C10 — the per-element SPECIFICATION of polymath indexing (`sel`), written independently of
  `_prep_index` / NumPy: for each output coordinate, the source element and whether the selecting
  index entries were masked or out of range.  Mathlib-free.
-/
namespace PMV.Index
open PMV PMV.NpIndex

/-! ### shapeless objects -/

/-- axes a shapeless object acquires: `None` ↦ 1, an unmasked `False` ↦ 0 -/
def Entry.sdim : Entry → List Nat
  | .none => [1]
  | .bool false false => [0]
  | _ => []

def Entry.smasked : Entry → Bool
  | .bool _ true => true
  | _ => false

def scalarDims (es : List Entry) : List Nat := es.flatMap Entry.sdim

/-- the index contains a masked Boolean -/
def scalarMasked (es : List Entry) : Bool := es.any Entry.smasked

/-- valid index for a shapeless object: only `True`/`False`/masked Boolean (at most one), `...`
    (at most one), `None`, `:`; `hb`/`he` = a boolean / an Ellipsis has been seen already -/
def scalarOK : Bool → Bool → List Entry → Bool
  | _, _, [] => true
  | hb, he, .bool _ _ :: r => !hb && scalarOK true he r
  | hb, he, .ell :: r => !he && scalarOK hb true r
  | hb, he, .none :: r => scalarOK hb he r
  | hb, he, .slice full _ :: r => full && scalarOK hb he r
  | _, _, _ :: _ => false

end PMV.Index
