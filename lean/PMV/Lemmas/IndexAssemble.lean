import PMV.Lemmas.IndexBasic
/-
  C09 — from the entry-by-entry agreement to `getitemShaped = sel`: the guards of `_prep_index`
  and of NumPy, the implicit trailing Ellipsis, the result shape and source map.
-/
namespace PMV.Index
open PMV PMV.NpIndex

theorem expand_basic : ∀ (es : List Entry), es.all Entry.isBasic = true → expand es = es := by
  intro es
  induction es with
  | nil => intro _; rfl
  | cons e r ih =>
    intro h
    simp only [List.all_cons, Bool.and_eq_true] at h
    have : expandEntry e = [e] := by cases e <;> simp_all [Entry.isBasic, expandEntry]
    simp only [expand, List.flatMap_cons, this] at ih ⊢
    rw [ih h.2]; rfl

/-- an ellipsis-free list fits trivially -/
theorem ellFits_noEll (w : Nat) : ∀ (es : List Entry) (n : Nat), es.all (fun e => !e.isEll) = true →
    EllFits w n es := by
  intro es
  induction es with
  | nil => intro _ _; trivial
  | cons e r ih =>
    intro n h
    simp only [List.all_cons, Bool.and_eq_true] at h
    have he : e.isEll = false := by simpa using h.1
    exact ⟨fun h' => absurd h' (by simp [he]), ih _ h.2⟩

theorem filter_isEll_nil_of_len (r : List Entry) (h : (r.filter Entry.isEll).length = 0) :
    r.all (fun e => !e.isEll) = true := by
  have : r.filter Entry.isEll = [] := List.length_eq_zero_iff.mp h
  rw [List.all_eq_true]
  intro x hx
  have := List.filter_eq_nil_iff.mp this x hx
  simpa using this

/-- indexer.py:326-329: with at most one Ellipsis and not more entries than axes, the Ellipsis
    finds its `rank - total` axes -/
theorem ellFits_guard : ∀ (es : List Entry) (n : Nat), ellCountE es ≤ 1 → totalAdvance es ≤ n →
    EllFits (n - totalAdvance es) n es := by
  intro es
  -- generalise: the Ellipsis width `w` satisfies  w + (advance of the remaining entries) ≤ available
  suffices H : ∀ (w : Nat) (es : List Entry) (n : Nat), ellCountE es ≤ 1 → w + totalAdvance es ≤ n →
      EllFits w n es by
    intro n h1 h2
    exact H _ es n h1 (by omega)
  intro w es
  induction es with
  | nil => intro _ _ _; trivial
  | cons e r ih =>
    intro n h1 h2
    simp only [totalAdvance, List.map_cons, List.sum_cons] at h2
    cases he : e.isEll with
    | true =>
      have hr : (r.filter Entry.isEll).length = 0 := by
        simp only [ellCountE, List.filter_cons, he, if_true, List.length_cons] at h1; omega
      exact ⟨fun _ => by omega, ellFits_noEll w r _ (filter_isEll_nil_of_len r hr)⟩
    | false =>
      have h1' : ellCountE r ≤ 1 := by simpa [ellCountE, List.filter_cons, he] using h1
      refine ⟨fun h' => absurd h' (by simp [he]), ?_⟩
      have : e.padv w = e.advance := by simp [Entry.padv, he]
      rw [this]
      exact ih (n - e.advance) h1' (by simp only [totalAdvance]; omega)

/-- the implicit Ellipsis NumPy appends is the image of an Ellipsis appended to the index -/
theorem prog_append_ell (w : Nat) : ∀ (es : List Entry) (rest : Shape) (post : PostMask),
    prog w rest (es ++ [.ell]) post =
      (prog w rest es post).map fun x => (x.1 ++ [NEntry.ell], x.2.1, x.2.2) := by
  intro es
  induction es with
  | nil =>
    intro rest post
    simp [prog, prepEntry, PostUpd.apply]
  | cons e es ih =>
    intro rest post
    simp only [List.cons_append, prog]
    cases prepEntry rest 0 e with
    | none => rfl
    | some x =>
      obtain ⟨p, u, s⟩ := x
      simp only
      cases u.apply post with
      | none => rfl
      | some post' =>
        simp only [ih]
        cases prog w (rest.drop (e.padv w)) es post' with
        | none => rfl
        | some y => obtain ⟨ps, po, ss⟩ := y; rfl

/-- what the loop's output looks like for basic entries -/
theorem prog_image (w : Nat) : ∀ (es : List Entry), es.all Entry.isBasic = true →
    ∀ (rest : Shape) (post : PostMask) (pre : List NEntry) (post' : PostMask) (shs : List Shape),
    prog w rest es post = some (pre, post', shs) →
    shs = [] ∧ ellCount pre = ellCountE es ∧ consTotal pre = totalAdvance es ∧
    pre.any NEntry.isEll = es.any Entry.isEll ∧ pre.all (fun p => !p.isArr) = true := by
  intro es
  induction es with
  | nil =>
    intro _ rest post pre post' shs h
    simp only [prog, Option.some.injEq, Prod.mk.injEq] at h
    obtain ⟨rfl, _, rfl⟩ := h
    simp [ellCount, ellCountE, consTotal, totalAdvance]
  | cons e es ih =>
    intro hb rest post pre post' shs h
    simp only [List.all_cons, Bool.and_eq_true] at hb
    simp only [prog] at h
    cases hpe : prepEntry rest 0 e with
    | none => simp [hpe] at h
    | some x =>
      obtain ⟨p, u, s⟩ := x
      simp only [hpe] at h
      cases hu : u.apply post with
      | none => simp [hu] at h
      | some po =>
        simp only [hu] at h
        cases hp : prog w (rest.drop (e.padv w)) es po with
        | none => simp [hp] at h
        | some y =>
          obtain ⟨ps, po', ss⟩ := y
          simp only [hp, Option.some.injEq, Prod.mk.injEq] at h
          obtain ⟨rfl, _, rfl⟩ := h
          obtain ⟨i1, i2, i3, i4, i5⟩ := ih hb.2 _ _ _ _ _ hp
          -- facts about the head
          have hhead : s = none ∧ p.isEll = e.isEll ∧ p.cons = e.advance ∧ p.isArr = false := by
            cases e with
            | none => simp only [prepEntry, Option.some.injEq, Prod.mk.injEq] at hpe; obtain ⟨rfl, _, rfl⟩ := hpe; simp [NEntry.isEll, Entry.isEll, NEntry.cons, Entry.advance, NEntry.isArr]
            | ell => simp only [prepEntry, Option.some.injEq, Prod.mk.injEq] at hpe; obtain ⟨rfl, _, rfl⟩ := hpe; simp [NEntry.isEll, Entry.isEll, NEntry.cons, Entry.advance, NEntry.isArr]
            | slice full l =>
              simp only [prepEntry] at hpe
              cases hr : rest[0]? with
              | none => simp [hr] at hpe
              | some n =>
                simp only [hr, Option.some.injEq, Prod.mk.injEq] at hpe; obtain ⟨rfl, _, rfl⟩ := hpe
                simp [NEntry.isEll, Entry.isEll, NEntry.cons, Entry.advance, NEntry.isArr]
            | int k m =>
              simp only [prepEntry] at hpe
              cases hr : rest[0]? with
              | none => simp [hr] at hpe
              | some n =>
                simp only [hr, Option.some.injEq, Prod.mk.injEq] at hpe; obtain ⟨rfl, _, rfl⟩ := hpe
                have hj : ∃ j u', prepInt n k m = (.int j, u') := by
                  obtain ⟨h1, h2⟩ := int_entry_exact n k m
                  cases hf : intFlag n k m with
                  | false => obtain ⟨j, hj, _⟩ := h1 hf; exact ⟨j, _, hj⟩
                  | true => exact ⟨0, _, h2 hf⟩
                obtain ⟨j, u', hj⟩ := hj
                simp [hj, NEntry.isEll, Entry.isEll, NEntry.cons, Entry.advance, NEntry.isArr]
            | bool v m =>
              simp only [prepEntry] at hpe
              cases hr : rest[0]? with
              | none => simp [hr] at hpe
              | some n =>
                simp only [hr, Option.some.injEq, Prod.mk.injEq] at hpe; obtain ⟨rfl, _, rfl⟩ := hpe
                cases m <;> cases v <;>
                  simp [prepBool, NEntry.isEll, Entry.isEll, NEntry.cons, Entry.advance, NEntry.isArr]
            | _ => simp [Entry.isBasic] at hb
          obtain ⟨g1, g2, g3, g4⟩ := hhead
          subst g1
          refine ⟨by simpa using i1, ?_, ?_, ?_, ?_⟩
          · simp only [ellCount, ellCountE, List.filter_cons, g2] at i2 ⊢
            split <;> simp [i2]
          · simp only [consTotal, totalAdvance, List.map_cons, List.sum_cons, g3] at i3 ⊢
            rw [i3]
          · simp [List.any_cons, g2, i4]
          · simp [List.all_cons, g4, i5]

/-- **`_prep_index` read progressively** (any entries): under its own guards (at most one
    Ellipsis; with an Ellipsis, not more entries than axes) `_prep_index` is the progressive loop
    `prog` on the whole shape, followed by the broadcast of the array shapes, `locate` and the
    simplification of the post-mask. -/
theorem prepIndex_eq (shape : Shape) (indx : List Entry)
    (h1 : ellCountE (expand indx) ≤ 1)
    (h2 : (expand indx).any Entry.isEll = true → totalAdvance (expand indx) ≤ shape.length) :
    prepIndex shape indx =
      match prog (shape.length - totalAdvance (expand indx)) shape (expand indx) (.all false) with
      | none => none
      | some (pre, post, shapes) =>
        match bcastAll shapes with
        | none => none
        | some ashape =>
          let lm := locate pre ((expand indx).findIdx? Entry.isEll) (shape.length - totalAdvance (expand indx))
          some ⟨pre, if !(ashape.all (· != 0)) then .all false else if post.all? then .all true else post,
                ((expand indx).findIdx? Entry.isEll).isSome, lm.2, ashape, lm.1⟩ := by
  generalize hex : expand indx = ex at h1 h2 ⊢
  generalize hw : shape.length - totalAdvance ex = w
  have hg1 : ¬ ((ex.filter Entry.isEll).length > 1) := by simpa [ellCountE] using Nat.not_lt.mpr h1
  have hsome : (ex.findIdx? Entry.isEll).isSome = ex.any Entry.isEll := List.findIdx?_isSome
  have hg2 : ((ex.findIdx? Entry.isEll).isSome && decide (totalAdvance ex > shape.length)) = false := by
    rw [hsome]
    cases ha : ex.any Entry.isEll with
    | false => rfl
    | true => have := h2 ha; simp; omega
  have hfits : EllFits w shape.length ex := by
    cases ha : ex.any Entry.isEll with
    | true => rw [← hw]; exact ellFits_guard ex shape.length h1 (h2 ha)
    | false =>
      apply ellFits_noEll
      rw [List.all_eq_true]
      intro x hx
      have := List.any_eq_false.mp ha x hx
      simpa using this
  have hloop := prepLoop_prog w ex [] shape (.all false) hfits
  simp only [List.nil_append, List.length_nil] at hloop
  unfold prepIndex
  simp only [hex, hg1, if_false, hg2, hw, Bool.false_eq_true]
  cases hk : ex.findIdx? Entry.isEll with
  | some k =>
    have hl := locs_progressive w ex 0 0 k hk h1
    simp only [Nat.zero_add] at hl
    simp only [hl, hloop]
    cases prog w shape ex (.all false) with
    | none => rfl
    | some x =>
      obtain ⟨pre, post, shapes⟩ := x
      simp only
      cases bcastAll shapes with
      | none => rfl
      | some ashape => rfl
  | none =>
    have hne : ex.all (fun e => !e.isEll) = true := by
      rw [List.all_eq_true]
      intro x hx
      simpa using (List.findIdx?_eq_none_iff.mp hk) x hx
    have hl := plocs_noEll w ex 0 hne
    simp only [← hl, hloop]
    cases prog w shape ex (.all false) with
    | none => rfl
    | some x =>
      obtain ⟨pre, post, shapes⟩ := x
      simp only
      cases bcastAll shapes with
      | none => rfl
      | some ashape => rfl

/-! ### specification atoms vs NumPy atoms -/

theorem plainLens_toAtom : ∀ (sats : List SAtom), plainLens (sats.map SAtom.toAtom) = SAtom.lens sats := by
  intro sats
  induction sats with
  | nil => rfl
  | cons a r ih => cases a <;> simp [SAtom.toAtom, plainLens, SAtom.lens, ih]

theorem walk_toAtom : ∀ (sats : List SAtom) (po ac : Index),
    walk (sats.map SAtom.toAtom) po ac = SAtom.walk sats po ac := by
  intro sats
  induction sats with
  | nil => intro _ _; rfl
  | cons a r ih => intro po ac; cases a <;> simp [SAtom.toAtom, walk, SAtom.walk, ih]

theorem allOk_toAtom : ∀ (sats : List SAtom), allOk (sats.map SAtom.toAtom) = true := by
  intro sats
  induction sats with
  | nil => rfl
  | cons a r ih => cases a <;> simp [SAtom.toAtom, allOk, ih]

/-- integers are advanced indices of shape `()`: they do not change the broadcast array shape -/
theorem bcastAll_toAtom : ∀ (sats : List SAtom),
    bcastAll (advShapes (sats.map SAtom.toAtom)) = bcastAll (SAtom.arrShapes sats) := by
  intro sats
  induction sats with
  | nil => rfl
  | cons a r ih =>
    cases a with
    | fix n k =>
      simp only [List.map_cons, SAtom.toAtom, advShapes, SAtom.arrShapes, bcastAll, ih]
      cases bcastAll (SAtom.arrShapes r) with
      | none => rfl
      | some t => simp [bcast, bcastRev]
    | arr sh f fl => simp only [List.map_cons, SAtom.toAtom, advShapes, SAtom.arrShapes, bcastAll, ih]
    | axis l fl => simpa [SAtom.toAtom, advShapes, SAtom.arrShapes] using ih
    | new => simpa [SAtom.toAtom, advShapes, SAtom.arrShapes] using ih

/-- basic entries resolve to atoms without arrays -/
theorem specAtoms_basic_arrShapes (w : Nat) : ∀ (es : List Entry), es.all Entry.isBasic = true →
    ∀ (rest : Shape) (sats : List SAtom), specAtoms w rest es = some sats → SAtom.arrShapes sats = [] := by
  intro es
  induction es with
  | nil =>
    intro _ rest sats h
    cases rest <;> simp [specAtoms] at h
    subst h; rfl
  | cons e es ih =>
    intro hb rest sats h
    simp only [List.all_cons, Bool.and_eq_true] at hb
    have axes : ∀ (L : List Nat) (x : List SAtom),
        SAtom.arrShapes (L.map (fun n => SAtom.axis (List.range n) false) ++ x) = SAtom.arrShapes x := by
      intro L x; induction L with
      | nil => rfl
      | cons n L ihL => simpa [SAtom.arrShapes] using ihL
    cases e with
    | none =>
      rw [specAtoms_none] at h
      cases hs : specAtoms w rest es with
      | none => simp [hs] at h
      | some x => simp only [hs, Option.map_some, Option.some.injEq] at h; subst h; simpa [SAtom.arrShapes] using ih hb.2 rest x hs
    | ell =>
      rw [specAtoms_ell] at h
      cases hs : specAtoms w (rest.drop w) es with
      | none => simp [hs] at h
      | some x => simp only [hs, Option.map_some, Option.some.injEq] at h; subst h; rw [axes]; exact ih hb.2 _ x hs
    | slice full l =>
      cases rest with
      | nil => simp [specAtoms] at h
      | cons n sh =>
        rw [specAtoms_cons_cons w n sh _ es (by simp) (by simp) (by simp)] at h
        cases hs : specAtoms w sh es with
        | none => cases hq : specEntry n (.slice full l) <;> simp [hq, hs] at h
        | some x =>
          simp only [specEntry] at h
          split at h
          · simp only [hs, Option.bind_some, Option.map_some, Option.some.injEq] at h; subst h
            simpa [SAtom.arrShapes] using ih hb.2 sh x hs
          · simp at h
    | int k m =>
      cases rest with
      | nil => simp [specAtoms] at h
      | cons n sh =>
        rw [specAtoms_cons_cons w n sh _ es (by simp) (by simp) (by simp)] at h
        cases hs : specAtoms w sh es with
        | none => simp [specEntry, hs] at h
        | some x =>
          simp only [specEntry, hs, Option.bind_some, Option.map_some, Option.some.injEq] at h; subst h
          simpa [SAtom.arrShapes] using ih hb.2 sh x hs
    | bool v m =>
      cases rest with
      | nil => simp [specAtoms] at h
      | cons n sh =>
        rw [specAtoms_cons_cons w n sh _ es (by simp) (by simp) (by simp)] at h
        cases hs : specAtoms w sh es with
        | none => simp [specEntry, hs] at h
        | some x =>
          simp only [specEntry, hs, Option.bind_some, Option.map_some, Option.some.injEq] at h; subst h
          cases m <;> cases v <;> simpa [SAtom.arrShapes] using ih hb.2 sh x hs
    | _ => simp [Entry.isBasic] at hb

theorem getitemShaped_prep_none (shape : Shape) (mask : Mask) (es : List Entry)
    (h : prepIndex shape es = none) : getitemShaped shape mask es = none := by
  simp [getitemShaped, h]

theorem getitemShaped_np_none (shape : Shape) (mask : Mask) (es : List Entry) (p : Prep)
    (h : prepIndex shape es = some p) (h2 : npIndex shape p.pre = none) :
    getitemShaped shape mask es = none := by
  simp [getitemShaped, h, h2]

/-- the result of `__getitem__` when the prepared index has no array entry (scalar post-mask,
    no relocation) -/
theorem getitemShaped_noarr (shape : Shape) (mask : Mask) (es : List Entry) (pre : List NEntry)
    (b he : Bool) (s : Sel)
    (h : prepIndex shape es = some ⟨pre, .all b, he, false, [], 0⟩) (h2 : npIndex shape pre = some s) :
    ∃ r, getitemShaped shape mask es = some r ∧ r.shape = s.shape ∧
      ∀ o, r.src o = s.src o ∧ r.mask.bit o = (mask.bit (s.src o) || b) := by
  unfold getitemShaped
  simp only [h, h2]
  cases b with
  | false =>
    cases mask with
    | all c => exact ⟨_, rfl, rfl, fun o => ⟨rfl, by simp [PostMask.any?, Mask.bit]⟩⟩
    | arr a => exact ⟨_, rfl, rfl, fun o => ⟨rfl, by simp [PostMask.any?, Mask.bit]⟩⟩
  | true =>
    exact ⟨_, rfl, rfl, fun o => ⟨rfl, by simp [PostMask.any?, PostMask.all?, Mask.bit]⟩⟩

/-- NumPy's result for a prepared index whose atoms are the image of array-free spec atoms -/
theorem npIndex_noarr (shape : Shape) (pre : List NEntry) (sats : List SAtom)
    (h1 : ellCount pre ≤ 1) (h2 : consTotal pre ≤ shape.length)
    (hat : atoms shape (shape.length - consTotal pre)
      (if pre.any NEntry.isEll then pre else pre ++ [.ell]) = some (sats.map SAtom.toAtom))
    (harr : SAtom.arrShapes sats = []) :
    ∃ s, npIndex shape pre = some s ∧ s.shape = SAtom.lens sats ∧ ∀ o, s.src o = SAtom.walk sats o [] := by
  have hB : bcastAll (advShapes (sats.map SAtom.toAtom)) = some [] := by
    rw [bcastAll_toAtom, harr]; rfl
  unfold npIndex
  have g1 : ¬ ellCount pre > 1 := by omega
  have g2 : ¬ consTotal pre > shape.length := by omega
  simp only [g1, g2, if_false, hat, hB, allOk_toAtom]
  refine ⟨_, by simp; rfl, ?_, ?_⟩
  · simp [plainLens_toAtom]
  · intro o; simp [NpIndex.splitAt, walk_toAtom]

theorem specOf_noarr (sats : List SAtom) (harr : SAtom.arrShapes sats = []) :
    ∃ sp, specOf sats = some sp ∧ sp.shape = SAtom.lens sats ∧
      ∀ o, sp.src o = SAtom.walk sats o [] ∧ sp.flag o = SAtom.flag sats [] := by
  unfold specOf
  rw [harr]
  refine ⟨_, rfl, by simp, fun o => by simp [NpIndex.splitAt]⟩


end PMV.Index
