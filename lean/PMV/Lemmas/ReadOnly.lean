import PMV.Model.ReadOnly
/-
  Helper lemmas for C08: the extension relation `Ext` between the state before and after any piece of the model
  (buffers onto which no writeable ndarray object looks keep their content and stay that way; ndarray objects keep
  their buffer and window and never become writeable again), proved for every primitive and every composite function.
  Core Lean only.
-/
namespace PMV.ReadOnly

/-- no writeable ndarray object looks into buffer `k` -/
def Fz (k : Nat) (s : State) : Prop :=
  k < s.bufs.length ∧ ∀ (a : Nat) (x : NdArr), s.arrs[a]? = some x → x.buf = k → x.w = false

structure Ext (s s' : State) : Prop where
  len : s.bufs.length ≤ s'.bufs.length
  fz : ∀ k, Fz k s → Fz k s' ∧ s'.bufs[k]? = s.bufs[k]?
  arr : ∀ (a : Nat) (x : NdArr), s.arrs[a]? = some x →
    ∃ x' : NdArr, s'.arrs[a]? = some x' ∧ x'.buf = x.buf ∧ x'.sel = x.sel ∧ (x.w = false → x'.w = false)

theorem Ext.refl (s : State) : Ext s s :=
  ⟨Nat.le_refl _, fun _ h => ⟨h, rfl⟩, fun _ x h => ⟨x, h, rfl, rfl, id⟩⟩

theorem Ext.trans {a b c : State} (h1 : Ext a b) (h2 : Ext b c) : Ext a c := by
  refine ⟨Nat.le_trans h1.len h2.len, ?_, ?_⟩
  · intro k hk
    have ⟨hb, eb⟩ := h1.fz k hk
    have ⟨hc, ec⟩ := h2.fz k hb
    exact ⟨hc, ec.trans eb⟩
  · intro i x hx
    obtain ⟨y, hy, yb, ys, yw⟩ := h1.arr i x hx
    obtain ⟨z, hz, zb, zs, zw⟩ := h2.arr i y hy
    exact ⟨z, hz, zb.trans yb, zs.trans ys, fun h => zw (yw h)⟩

/-- nothing but objects / caller handles / the clock changed -/
theorem Ext.of_same {s s' : State} (hb : s'.bufs = s.bufs) (ha : s'.arrs = s.arrs) : Ext s s' := by
  refine ⟨by rw [hb]; exact Nat.le_refl _, ?_, ?_⟩
  · intro k hk
    exact ⟨⟨by rw [hb]; exact hk.1, by rw [ha]; exact hk.2⟩, by rw [hb]⟩
  · intro i x hx
    exact ⟨x, by rw [ha]; exact hx, rfl, rfl, id⟩

theorem getElem?_upd {α : Type} (l : List α) (i j : Nat) (f : α → α) :
    (upd l i f)[j]? = if i = j then (l[j]?).map f else l[j]? := by
  unfold upd
  split
  · rename_i x hx
    by_cases hij : i = j
    · subst hij
      obtain ⟨hlt, hget⟩ := List.getElem?_eq_some_iff.mp hx
      simp [hlt, hget]
    · simp [hij, List.getElem?_set_ne hij]
  · rename_i hx
    by_cases hij : i = j
    · subst hij; simp [hx]
    · simp [hij]

theorem length_upd {α : Type} (l : List α) (i : Nat) (f : α → α) : (upd l i f).length = l.length := by
  unfold upd; split <;> simp

theorem ext_freeze (s : State) (a : Nat) : Ext s (s.freeze a) := by
  refine ⟨Nat.le_refl _, ?_, ?_⟩
  · intro k hk
    refine ⟨⟨hk.1, ?_⟩, rfl⟩
    intro i x hx hb
    simp only [State.freeze, getElem?_upd] at hx
    split at hx
    · cases h : s.arrs[i]? with
      | none => simp [h] at hx
      | some y => simp [h] at hx; subst hx; rfl
    · exact hk.2 i x hx hb
  · intro i x hx
    simp only [State.freeze, getElem?_upd]
    by_cases h : a = i
    · simp [h, hx]
    · simp [h, hx]

theorem ext_freezeV (s : State) (v : Val) : Ext s (s.freezeV v) := by
  cases v <;> simp only [State.freezeV]
  · exact Ext.refl _
  · exact ext_freeze _ _

theorem ext_freezeM (s : State) (v : Msk) : Ext s (s.freezeM v) := by
  cases v <;> simp only [State.freezeM]
  · exact Ext.refl _
  · exact ext_freeze _ _

theorem ext_stamps (s : State) (n : Nat) : Ext s (s.stamps n).2 := Ext.of_same rfl rfl
theorem ext_allocObj (s : State) (o : Obj) : Ext s (s.allocObj o).2 := Ext.of_same rfl rfl
theorem ext_setObj (s : State) (i : Nat) (f : Obj → Obj) : Ext s (s.setObj i f) := Ext.of_same rfl rfl

/-- a new ndarray object that looks into the same buffer as an existing one and is no more writeable than it -/
theorem ext_allocArr_view (s : State) (p : Nat) (x y : NdArr) (hp : s.arrs[p]? = some x)
    (hb : y.buf = x.buf) (hw : x.w = false → y.w = false) : Ext s (s.allocArr y).2 := by
  refine ⟨Nat.le_refl _, ?_, ?_⟩
  · intro k hk
    refine ⟨⟨hk.1, ?_⟩, rfl⟩
    intro i z hz hzb
    simp only [State.allocArr, List.getElem?_append] at hz
    split at hz
    · exact hk.2 i z hz hzb
    · rename_i hlt
      have : i - s.arrs.length = 0 ∨ i - s.arrs.length ≠ 0 := Nat.eq_zero_or_pos _ |>.imp id Nat.ne_of_gt
      cases this with
      | inl h0 =>
        simp [h0] at hz; subst hz
        exact hw (hk.2 p x hp (hb ▸ hzb))
      | inr h0 =>
        cases hh : i - s.arrs.length with
        | zero => exact absurd hh h0
        | succ m => simp [hh] at hz
  · intro i z hz
    refine ⟨z, ?_, rfl, rfl, id⟩
    simp only [State.allocArr]
    rw [List.getElem?_append_left (List.getElem?_eq_some_iff.mp hz).1]
    exact hz

/-- a new ndarray object onto a buffer that does not exist yet, allocated together with it -/
theorem ext_newBufArr (s : State) (cells sel : List Nat) (w : Bool) :
    Ext s ((s.allocBuf cells).2.allocArr { buf := s.bufs.length, sel := sel, w := w }).2 := by
  refine ⟨by simp [State.allocBuf, State.allocArr], ?_, ?_⟩
  · intro k hk
    refine ⟨⟨by simp [State.allocBuf, State.allocArr]; exact Nat.lt_succ_of_lt hk.1, ?_⟩, ?_⟩
    · intro i z hz hzb
      simp only [State.allocBuf, State.allocArr, List.getElem?_append] at hz
      split at hz
      · exact hk.2 i z hz hzb
      · cases hh : i - s.arrs.length with
        | zero =>
          simp [hh] at hz; subst hz
          simp at hzb
          exact absurd hk.1 (by rw [← hzb]; exact Nat.lt_irrefl _)
        | succ m => simp [hh] at hz
    · simp only [State.allocBuf, State.allocArr]
      rw [List.getElem?_append_left hk.1]
  · intro i z hz
    refine ⟨z, ?_, rfl, rfl, id⟩
    simp only [State.allocBuf, State.allocArr]
    rw [List.getElem?_append_left (List.getElem?_eq_some_iff.mp hz).1]
    exact hz

theorem ext_viewOf (s : State) (a : Nat) (idx : List Nat) (f : Bool) : Ext s (s.viewOf a idx f).2 := by
  unfold State.viewOf
  split
  · rename_i x hx
    exact ext_allocArr_view s a x _ hx rfl (fun h => by simp [h])
  · -- no such array: a dummy non-writeable object onto buffer 0
    refine ⟨Nat.le_refl _, ?_, ?_⟩
    · intro k hk
      refine ⟨⟨hk.1, ?_⟩, rfl⟩
      intro i z hz hzb
      simp only [State.allocArr, List.getElem?_append] at hz
      split at hz
      · exact hk.2 i z hz hzb
      · cases hh : i - s.arrs.length with
        | zero => simp [hh] at hz; subst hz; rfl
        | succ m => simp [hh] at hz
    · intro i z hz
      refine ⟨z, ?_, rfl, rfl, id⟩
      simp only [State.allocArr]
      rw [List.getElem?_append_left (List.getElem?_eq_some_iff.mp hz).1]
      exact hz

theorem ext_copyOf (s : State) (a : Nat) (idx : List Nat) : Ext s (s.copyOf a idx).2 := by
  unfold State.copyOf
  exact ext_newBufArr s _ _ true

theorem ext_freshArr (s : State) (n : Nat) (w : Bool) : Ext s (s.freshArr n w).2 := by
  unfold State.freshArr
  exact (ext_stamps s n).trans (ext_newBufArr (s.stamps n).2 _ _ w)

theorem ext_writeArr (s : State) (a : Nat) (pos : List Nat) : Ext s (s.writeArr a pos).1 := by
  unfold State.writeArr
  split
  · rename_i x hx
    split
    · rename_i hw
      refine ⟨by simp [length_upd], ?_, ?_⟩
      · intro k hk
        have hne : x.buf ≠ k := fun h => by have := hk.2 a x hx h; simp [hw] at this
        refine ⟨⟨by simp [length_upd]; exact hk.1, hk.2⟩, ?_⟩
        simp only [getElem?_upd, hne, if_false]
      · intro i z hz
        exact ⟨z, hz, rfl, rfl, id⟩
    · exact Ext.refl _
  · exact Ext.refl _

/-! ### composites -/

theorem ext_foldl {α : Type} (f : State → α → State) (hf : ∀ s x, Ext s (f s x)) (l : List α) (s : State) :
    Ext s (l.foldl f s) := by
  induction l generalizing s with
  | nil => exact Ext.refl _
  | cons x xs ih => exact (hf s x).trans (ih _)

theorem ext_foldl_pair {α β : Type} (f : State × β → α → State × β) (hf : ∀ s x, Ext s.1 (f s x).1)
    (l : List α) (s : State × β) : Ext s.1 (l.foldl f s).1 := by
  induction l generalizing s with
  | nil => exact Ext.refl _
  | cons x xs ih => exact (hf s x).trans (ih _)

theorem ext_initObj (s : State) (v : Val) (m : Msk) (ex : Obj) : Ext s (s.initObj v m ex).2 := by
  unfold State.initObj
  simp only
  split
  · exact ext_freezeM _ _
  · exact Ext.refl _

theorem ext_asRO0 (s : State) (i : Nat) : Ext s (asRO0 s i) := by
  unfold asRO0
  split
  · split
    · exact Ext.refl _
    · exact ((ext_freezeV _ _).trans (ext_freezeM _ _)).trans (ext_setObj _ _ _)
  · exact Ext.refl _

theorem ext_asROf (fuel : Nat) : ∀ (s : State) (i : Nat), Ext s (asROf fuel s i) := by
  induction fuel with
  | zero => intro s i; exact Ext.refl _
  | succ n ih =>
    intro s i
    unfold asROf
    split
    · split
      · exact Ext.refl _
      · dsimp only
        refine Ext.trans ?_ (ext_foldl _ (fun s (kd : Nat × Nat) => ih s kd.2) _ _)
        split
        · exact (ext_asRO0 _ _).trans (ih _ _)
        · exact ext_asRO0 _ _
    · exact Ext.refl _

theorem ext_asRO (s : State) (i : Nat) (r : Bool) : Ext s (asRO s i r) := ext_asROf _ _ _

theorem ext_cloneNR (s : State) (i : Nat) : Ext s (cloneNR s i).2 := by
  unfold cloneNR
  split
  · exact ext_allocObj _ _
  · exact Ext.refl _

theorem ext_wodOf (s : State) (i : Nat) : Ext s (wodOf s i).2 := by
  unfold wodOf
  split
  · split
    · exact Ext.refl _
    · split
      · exact Ext.refl _
      · simp only
        exact ((ext_initObj _ _ _ _).trans (ext_allocObj _ _)).trans (ext_setObj _ _ _)
  · exact Ext.refl _

theorem ext_matchReadonly (s : State) (p : Bool) (d : Nat) : Ext s (matchReadonly s p d).2 := by
  unfold matchReadonly
  simp only
  split <;> split <;> (try dsimp only) <;>
    first | exact (ext_cloneNR _ _).trans (ext_asRO _ _ _) | exact ext_cloneNR _ _

theorem ext_insertDeriv (s : State) (i k d : Nat) (ov : Bool) : Ext s (insertDeriv s i k d ov).1 := by
  unfold insertDeriv
  split
  · split
    · exact Ext.refl _
    · split
      · exact Ext.refl _
      · exact ((ext_wodOf _ _).trans (ext_matchReadonly _ _ _)).trans (ext_setObj _ _ _)
  · exact Ext.refl _

theorem ext_cloneStep (c : Nat) (s : State) (kd : Nat × Nat) : Ext s (cloneStep c s kd) :=
  (ext_cloneNR _ _).trans (ext_insertDeriv _ _ _ _ _)

theorem ext_clone (s : State) (i : Nat) (r : Bool) : Ext s (clone s i r).2 := by
  unfold clone
  split
  · dsimp only
    split
    · exact (ext_cloneNR _ _).trans (ext_foldl _ (ext_cloneStep _) _ _)
    · exact ext_cloneNR _ _
  · exact Ext.refl _

theorem ext_deriveVals (s : State) (v : Val) (m : Mode) (idx : List Nat) : Ext s (deriveVals s v m idx).2 := by
  unfold deriveVals
  cases v with
  | sc st =>
    cases m <;> simp only <;> first | exact Ext.refl _ | exact ext_newBufArr _ _ _ _
  | arr a =>
    cases m <;> simp only <;> first | exact ext_viewOf _ _ _ _ | exact ext_copyOf _ _ _ | exact Ext.refl _

theorem ext_deriveMask (s : State) (v : Msk) (m : Mode) (idx : List Nat) : Ext s (deriveMask s v m idx).2 := by
  unfold deriveMask
  cases v with
  | sc st => exact Ext.refl _
  | arr a =>
    cases m <;> simp only <;> first | exact ext_viewOf _ _ _ _ | exact ext_copyOf _ _ _ | exact Ext.refl _

theorem ext_freezeSource (s : State) (i : Nat) (m : Mode) (v : Val) : Ext s (freezeSource s i m v) := by
  unfold freezeSource
  split
  · exact ext_asRO _ _ _
  · exact Ext.refl _

theorem ext_deriveMaskSel (s : State) (v : Msk) (m : Mode) (sel : Sel) : Ext s (deriveMaskSel s v m sel).2 := by
  unfold deriveMaskSel
  split
  · exact Ext.refl _
  · exact ext_deriveMask _ _ _ _

theorem ext_ite {c : Prop} [Decidable c] {s a b : State} (ha : Ext s a) (hb : Ext s b) :
    Ext s (if c then a else b) := by
  split <;> assumption

theorem ext_finishDerived (s : State) (nv : Val) (nm : Msk) (o : Obj) (m : Mode) :
    Ext s (finishDerived s nv nm o m).2 := by
  unfold finishDerived
  dsimp only
  exact (ext_ite ((ext_initObj _ _ _ _).trans ((ext_freezeV _ _).trans (ext_freezeM _ _)))
    (ext_initObj _ _ _ _)).trans (ext_allocObj _ _)

theorem ext_derive1 (s : State) (i : Nat) (m : Mode) (sel : Sel) : Ext s (derive1 s i m sel).2 := by
  unfold derive1
  split
  · exact (((ext_freezeSource _ _ _ _).trans (ext_deriveVals _ _ _ _)).trans (ext_deriveMaskSel _ _ _ _)).trans
      (ext_finishDerived _ _ _ _ _)
  · exact Ext.refl _

theorem ext_deriveStep (c : Nat) (m : Mode) (sel : Sel) (dsel : List (Nat × Sel)) (s : State) (kd : Nat × Nat) :
    Ext s (deriveStep c m sel dsel s kd) :=
  (ext_derive1 _ _ _ _).trans (ext_insertDeriv _ _ _ _ _)

theorem ext_derive (s : State) (i : Nat) (m : Mode) (sel : Sel) (r : Bool) (dsel : List (Nat × Sel)) :
    Ext s (derive s i m sel r dsel).2 := by
  unfold derive
  split
  · dsimp only
    split
    · exact (ext_derive1 _ _ _ _).trans (ext_foldl _ (ext_deriveStep _ _ _ _) _ _)
    · exact ext_derive1 _ _ _ _
  · exact Ext.refl _

theorem ext_copyVals (s : State) (v : Val) : Ext s (copyVals s v).2 := by
  cases v <;> simp only [copyVals]
  · exact Ext.refl _
  · exact ext_copyOf _ _ _

theorem ext_copyMask (s : State) (v : Msk) : Ext s (copyMask s v).2 := by
  cases v <;> simp only [copyMask]
  · exact Ext.refl _
  · exact ext_copyOf _ _ _

theorem ext_copyNR (s : State) (i : Nat) (ro : Bool) : Ext s (copyNR s i ro).2 := by
  unfold copyNR
  split
  · split
    · exact ext_cloneNR _ _
    · dsimp only
      split
      · exact (((ext_copyVals _ _).trans (ext_copyMask _ _)).trans (ext_allocObj _ _)).trans (ext_asRO _ _ _)
      · exact ((ext_copyVals _ _).trans (ext_copyMask _ _)).trans (ext_allocObj _ _)
  · exact Ext.refl _

theorem ext_copyStep (c : Nat) (ro : Bool) (s : State) (kd : Nat × Nat) : Ext s (copyStep c ro s kd) :=
  (ext_copyNR _ _ _).trans (ext_insertDeriv _ _ _ _ _)

theorem ext_copy (s : State) (i : Nat) (r ro : Bool) : Ext s (copy s i r ro).2 := by
  unfold copy
  split
  · dsimp only
    split
    · exact ext_copyNR _ _ _
    · split
      · exact (ext_copyNR _ _ _).trans (ext_foldl _ (ext_copyStep _ _) _ _)
      · exact ext_copyNR _ _ _
  · exact Ext.refl _

theorem ext_negVals (s : State) (v : Val) : Ext s (negVals s v).2 := by
  cases v <;> simp only [negVals]
  · exact ext_stamps _ _
  · exact ext_freshArr _ _ _

theorem ext_negNR (s : State) (i : Nat) (u d : Bool) : Ext s (negNR s i u d).2 := by
  unfold negNR
  split
  · dsimp only
    split
    · exact ((ext_negVals _ _).trans (ext_copyMask _ _)).trans (ext_allocObj _ _)
    · exact (ext_negVals _ _).trans (ext_allocObj _ _)
  · exact Ext.refl _

theorem ext_negStep (c : Nat) (s : State) (kd : Nat × Nat) : Ext s (negStep c s kd) :=
  (ext_negNR _ _ _ _).trans (ext_insertDeriv _ _ _ _ _)

theorem ext_neg (s : State) (i : Nat) (u d : Bool) : Ext s (neg s i u d).2 := by
  unfold neg
  split
  · exact (ext_negNR _ _ _ _).trans (ext_foldl _ (ext_negStep _) _ _)
  · exact Ext.refl _

theorem ext_decode (s : State) (o : Obj) (mc : MaskClass) : Ext s (decode s o mc).2 := by
  unfold decode
  split
  · exact Ext.refl _
  · split
    · exact ext_freshArr _ _ _
    · exact ext_copyOf _ _ _
    · dsimp only
      split
      · exact (ext_copyOf _ _ _).trans (ext_copyOf _ _ _)
      · exact ext_copyOf _ _ _
    · dsimp only
      split
      · exact (ext_freshArr _ _ _).trans (ext_copyOf _ _ _)
      · exact ext_freshArr _ _ _

theorem ext_unpickleNR (s : State) (o : Obj) (mc : MaskClass) (pm : Option Msk) (top : Bool) :
    Ext s (unpickleNR s o mc pm top).2 := by
  unfold unpickleNR
  dsimp only
  cases top with
  | true =>
    simp only [if_true]
    exact (ext_ite ((ext_decode _ _ _).trans ((ext_freezeV _ _).trans (ext_freezeM _ _)))
      (ext_decode _ _ _)).trans (ext_allocObj _ _)
  | false =>
    simp only [Bool.false_eq_true, if_false]
    exact ((ext_decode _ _ _).trans (ext_allocObj _ _)).trans (ext_ite (ext_asRO _ _ _) (Ext.refl _))

theorem ext_unpickleStep (c : Nat) (pm : Option Msk) (dmc : List (Nat × MaskClass)) (s : State) (kd : Nat × Nat) :
    Ext s (unpickleStep c pm dmc s kd) := by
  unfold unpickleStep
  split
  · exact (ext_unpickleNR _ _ _ _ _).trans (ext_insertDeriv _ _ _ _ _)
  · exact Ext.refl _

theorem ext_unpickle (s : State) (i : Nat) (mc : MaskClass) (dmc : List (Nat × MaskClass)) :
    Ext s (unpickle s i mc dmc).2 := by
  unfold unpickle
  split
  · exact (ext_unpickleNR _ _ _ _ _).trans (ext_foldl _ (ext_unpickleStep _ _ _) _ _)
  · exact Ext.refl _

theorem ext_expandMask (s : State) (m : Msk) (mn : Nat) : Ext s (expandMask s m mn).2 := by
  unfold expandMask
  split
  · exact ext_freshArr _ _ _
  · exact Ext.refl _

theorem ext_writeMask (s : State) (m : Msk) (mpos : List Nat) : Ext s (writeMask s m mpos).2 := by
  unfold writeMask
  split
  · exact (ext_copyOf _ _ _).trans (ext_writeArr _ _ _)
  · exact Ext.refl _

theorem ext_setItem (fuel : Nat) : ∀ (s : State) (i : Nat) (pos mpos : List Nat) (mn : Nat),
    Ext s (setItem s i pos mpos mn fuel).1 := by
  induction fuel with
  | zero => intro s i pos mpos mn; exact Ext.refl _
  | succ n ih =>
    intro s i pos mpos mn
    unfold setItem
    split
    · exact Ext.refl _
    · split
      · split
        · exact Ext.refl _
        · split
          · exact Ext.refl _
          · dsimp only
            split
            · exact ((ext_expandMask _ _ _).trans (ext_setObj _ _ _)).trans (ext_writeArr _ _ _)
            · refine Ext.trans ?_ (ext_foldl_pair _ (fun acc (kd : Nat × Nat) => ?_) _ (_, Res.ok))
              · exact ((((ext_expandMask _ _ _).trans (ext_setObj _ _ _)).trans (ext_writeArr _ _ _)).trans
                  (ext_writeMask _ _ _)).trans (ext_setObj _ _ _)
              · split
                · exact Ext.refl _
                · exact ih _ _ _ _ _
      · exact Ext.refl _

theorem ext_zeroDeriv (s : State) (n d : Nat) : Ext s (zeroDeriv s n d).2 := by
  unfold zeroDeriv
  split
  · exact (ext_freshArr _ _ _).trans (ext_allocObj _ _)
  · exact Ext.refl _

theorem ext_setAllStep (i n : Nat) (s : State) (kd : Nat × Nat) : Ext s (setAllStep i n s kd) :=
  (ext_zeroDeriv _ _ _).trans (ext_setObj _ _ _)

theorem ext_setAll (s : State) (i : Nat) : Ext s (setAll s i).1 := by
  unfold setAll
  split
  · exact Ext.refl _
  · split
    · split
      · exact Ext.refl _
      · split
        · exact Ext.refl _
        · exact ((ext_freshArr _ _ _).trans (ext_setObj _ _ _)).trans (ext_foldl _ (ext_setAllStep _ _) _ _)
    · exact Ext.refl _

theorem ext_iop (s : State) (i : Nat) (fast un : Bool) : Ext s (iop s i fast un).1 := by
  unfold iop
  split
  · exact Ext.refl _
  · split
    · exact Ext.refl _
    · split
      · split
        · exact (ext_stamps _ _).trans (ext_setObj _ _ _)
        · dsimp only
          split
          · exact ext_writeArr _ _ _
          · split
            · exact (ext_writeArr _ _ _).trans (ext_setObj _ _ _)
            · exact ((ext_writeArr _ _ _).trans
                (ext_foldl _ (fun s (kd : Nat × Nat) => ext_insertDeriv s _ _ _ _) _ _)).trans (ext_setObj _ _ _)
      · exact Ext.refl _

theorem ext_setUnits (s : State) (i u : Nat) (ov : Bool) : Ext s (setUnits s i u ov).1 := by
  unfold setUnits
  split
  · split
    · exact Ext.refl _
    · split
      · exact Ext.refl _
      · exact ext_setObj _ _ _
  · exact Ext.refl _

theorem ext_deleteDeriv (s : State) (i k : Nat) (ov : Bool) : Ext s (deleteDeriv s i k ov).1 := by
  unfold deleteDeriv
  split
  · exact Ext.refl _
  · split
    · exact ext_setObj _ _ _
    · exact Ext.refl _

theorem ext_deleteDerivs (s : State) (i : Nat) (ov : Bool) : Ext s (deleteDerivs s i ov).1 := by
  unfold deleteDerivs
  split
  · exact Ext.refl _
  · split
    · exact ext_setObj _ _ _
    · exact Ext.refl _

theorem ext_insertDerivs (s : State) (i : Nat) (kds : List (Nat × Nat)) (ov : Bool) :
    Ext s (insertDerivs s i kds ov).1 := by
  unfold insertDerivs
  split
  · split
    · exact Ext.refl _
    · refine ext_foldl_pair _ (fun acc (kd : Nat × Nat) => ?_) _ (s, Res.ok)
      split
      · exact Ext.refl _
      · exact ext_insertDeriv _ _ _ _ _
  · exact Ext.refl _

theorem ext_mkObj (s : State) (n mn : Nat) (mask : Option Bool) (u d : Bool) : Ext s (mkObj s n mn mask u d).2 := by
  unfold mkObj
  dsimp only
  cases mask with
  | some b => exact (ext_freshArr _ _ _).trans (ext_allocObj _ _)
  | none => exact ((ext_freshArr _ _ _).trans (ext_freshArr _ _ _)).trans (ext_allocObj _ _)

theorem ext_mkScalar (s : State) (m u d : Bool) : Ext s (mkScalar s m u d).2 :=
  (ext_stamps _ _).trans (ext_allocObj _ _)

/-- every call of the alphabet extends the state -/
theorem ext_step (s : State) (op : Op) : Ext s (step s op).1 := by
  cases op <;> simp only [step, objRes]
  case mk => exact ext_mkObj _ _ _ _ _ _
  case mks => exact ext_mkScalar _ _ _ _
  case derive => split <;> first | exact ext_derive _ _ _ _ _ _ | exact Ext.refl _
  case wod => split <;> first | exact ext_wodOf _ _ | exact Ext.refl _
  case clone => split <;> first | exact ext_clone _ _ _ | exact Ext.refl _
  case copy => split <;> first | exact ext_copy _ _ _ _ | exact Ext.refl _
  case neg => split <;> first | exact ext_neg _ _ _ _ | exact Ext.refl _
  case pickle => split <;> first | exact ext_unpickle _ _ _ _ | exact Ext.refl _
  case getDeriv => split <;> (try split) <;> exact Ext.refl _
  case rawRef => split <;> first | exact Ext.of_same rfl rfl | exact Ext.refl _
  case rawView =>
    split
    · exact (ext_viewOf _ _ _ _).trans (Ext.of_same rfl rfl)
    · exact Ext.refl _
  case setItem => exact ext_setItem _ _ _ _ _ _
  case setAll => exact ext_setAll _ _
  case iop => exact ext_iop _ _ _ _
  case setUnits => exact ext_setUnits _ _ _ _
  case deleteDeriv => exact ext_deleteDeriv _ _ _ _
  case deleteDerivs => exact ext_deleteDerivs _ _ _
  case insertDeriv => exact ext_insertDeriv _ _ _ _ _
  case insertDerivs => exact ext_insertDerivs _ _ _ _
  case asReadonly => split <;> (try dsimp only) <;> first | exact ext_asRO _ _ _ | exact Ext.refl _
  case requireWritable => split <;> exact Ext.refl _
  case write =>
    split
    · split <;> exact ext_writeArr _ _ _
    · exact Ext.refl _

theorem ext_run (ops : List Op) : ∀ s : State, Ext s (run s ops) := by
  induction ops with
  | nil => intro s; exact Ext.refl _
  | cons op ops ih => intro s; exact (ext_step s op).trans (ih _)

end PMV.ReadOnly
