import PMV.Model.NpShape
/-
  ravel / unravel are mutually inverse for EVERY shape; row-major enumeration; behaviour on
  concatenated shapes (leading part ++ item part).  Core Lean only.
-/
namespace PMV.NpShape
open PMV

theorem size_nil : size [] = 1 := rfl
theorem size_cons (n : Nat) (s : Shape) : size (n :: s) = n * size s := rfl

theorem size_append (s t : Shape) : size (s ++ t) = size s * size t := by
  induction s with
  | nil => simp [size_nil]
  | cons n s ih => simp only [List.cons_append, size_cons, ih, Nat.mul_assoc]

theorem valid_length : ∀ {s : Shape} {i : Index}, Valid s i → i.length = s.length
  | [], [], _ => rfl
  | _ :: s, _ :: is, h => by simp [valid_length (s := s) (i := is) h.2]
  | [], _ :: _, h => by simp [Valid] at h
  | _ :: _, [], h => by simp [Valid] at h

theorem ravel_lt : ∀ {s : Shape} {i : Index}, Valid s i → ravel s i < size s
  | [], [], _ => by simp [ravel, size_nil]
  | n :: s, i :: is, h => by
    have h1 : i < n := h.1
    have h2 := ravel_lt (s := s) (i := is) h.2
    simp only [ravel, size_cons]
    calc i * size s + ravel s is < i * size s + size s := by omega
      _ = (i + 1) * size s := by rw [Nat.add_mul, Nat.one_mul]
      _ ≤ n * size s := Nat.mul_le_mul_right _ h1
  | [], _ :: _, h => by simp [Valid] at h
  | _ :: _, [], h => by simp [Valid] at h

theorem unravel_valid : ∀ (s : Shape) (k : Nat), k < size s → Valid s (unravel s k)
  | [], _, _ => trivial
  | n :: s, k, h => by
    simp only [size_cons] at h
    have hs : 0 < size s := by
      rcases Nat.eq_zero_or_pos (size s) with h0 | h0
      · rw [h0] at h; omega
      · exact h0
    refine ⟨?_, unravel_valid s _ (Nat.mod_lt _ hs)⟩
    exact (Nat.div_lt_iff_lt_mul hs).2 h

/-- `unravel` after `ravel` is the identity on valid indices, for every shape -/
theorem unravel_ravel : ∀ {s : Shape} {i : Index}, Valid s i → unravel s (ravel s i) = i
  | [], [], _ => rfl
  | n :: s, i :: is, h => by
    have h2 := ravel_lt (s := s) (i := is) h.2
    have ih := unravel_ravel (s := s) (i := is) h.2
    have hs : 0 < size s := by omega
    simp only [ravel, unravel]
    have e1 : (i * size s + ravel s is) / size s = i := by
      rw [Nat.mul_comm, Nat.mul_add_div hs, Nat.div_eq_of_lt h2]; rfl
    have e2 : (i * size s + ravel s is) % size s = ravel s is := by
      rw [Nat.mul_comm, Nat.mul_add_mod, Nat.mod_eq_of_lt h2]
    rw [e1, e2, ih]
  | [], _ :: _, h => by simp [Valid] at h
  | _ :: _, [], h => by simp [Valid] at h

/-- `ravel` after `unravel` is the identity on offsets, for every shape -/
theorem ravel_unravel : ∀ (s : Shape) (k : Nat), k < size s → ravel s (unravel s k) = k
  | [], k, h => by simp [size_nil] at h; simp [unravel, ravel, h]
  | n :: s, k, h => by
    simp only [size_cons] at h
    have hs : 0 < size s := by
      rcases Nat.eq_zero_or_pos (size s) with h0 | h0
      · rw [h0] at h; omega
      · exact h0
    simp only [unravel, ravel]
    rw [ravel_unravel s _ (Nat.mod_lt _ hs), Nat.mul_comm]
    exact Nat.div_add_mod k (size s)

/-! ### concatenated shapes: leading part ++ item part -/

theorem ravel_append : ∀ (s t : Shape) (i k : Index), i.length = s.length →
    ravel (s ++ t) (i ++ k) = ravel s i * size t + ravel t k
  | [], t, [], k, _ => by simp [ravel]
  | n :: s, t, i :: is, k, h => by
    have h' : is.length = s.length := by simpa using h
    simp only [List.cons_append, ravel, ravel_append s t is k h', size_append]
    rw [Nat.add_mul, Nat.mul_assoc, Nat.add_assoc]
  | [], _, _ :: _, _, h => by simp at h
  | _ :: _, _, [], _, h => by simp at h

theorem unravel_append : ∀ (s t : Shape) (a b : Nat), a < size s → b < size t →
    unravel (s ++ t) (a * size t + b) = unravel s a ++ unravel t b
  | [], t, a, b, ha, _ => by
    simp [size_nil] at ha; subst ha; simp [unravel]
  | n :: s, t, a, b, ha, hb => by
    simp only [size_cons] at ha
    have hs : 0 < size s := by
      rcases Nat.eq_zero_or_pos (size s) with h0 | h0
      · rw [h0] at ha; omega
      · exact h0
    have ht : 0 < size t := by omega
    simp only [List.cons_append, unravel, size_append]
    have e1 : (a * size t + b) / (size s * size t) = a / size s := by
      rw [Nat.mul_comm (size s), ← Nat.div_div_eq_div_mul, Nat.mul_comm a, Nat.mul_add_div ht,
        Nat.div_eq_of_lt hb, Nat.add_zero]
    have e2 : (a * size t + b) % (size s * size t) = (a % size s) * size t + b := by
      rw [Nat.mul_comm (size s), Nat.mod_mul, Nat.mul_comm a, Nat.mul_add_mod, Nat.mod_eq_of_lt hb,
        Nat.mul_add_div ht, Nat.div_eq_of_lt hb, Nat.add_zero, Nat.add_comm, Nat.mul_comm]
    rw [e1, e2, unravel_append s t _ b (Nat.mod_lt _ hs) hb]

theorem valid_append : ∀ {s t : Shape} {i k : Index}, Valid s i → Valid t k → Valid (s ++ t) (i ++ k)
  | [], _, [], _, _, hk => hk
  | _ :: _, _, _ :: _, _, hi, hk => ⟨hi.1, valid_append hi.2 hk⟩
  | [], _, _ :: _, _, h, _ => by simp [Valid] at h
  | _ :: _, _, [], _, h, _ => by simp [Valid] at h

/-- reshape of a values array `old ++ item → new ++ item` moves element `(i, k)` from
    `(unravel old (ravel new i), k)`: the item index `k` is untouched -/
theorem reshape_lead_item (old new item : Shape) (i k : Index) (hsz : size new = size old)
    (hi : Valid new i) (hk : Valid item k) :
    unravel (old ++ item) (ravel (new ++ item) (i ++ k)) = unravel old (ravel new i) ++ k := by
  rw [ravel_append new item i k (valid_length hi)]
  rw [unravel_append old item _ _ (hsz ▸ ravel_lt hi) (ravel_lt hk), unravel_ravel hk]

/-! ### row-major enumeration -/

theorem mem_indices_valid : ∀ {s : Shape} {i : Index}, i ∈ indices s → Valid s i
  | [], i, h => by simp [indices] at h; subst h; trivial
  | n :: s, i, h => by
    simp only [indices, List.mem_flatMap, List.mem_range, List.mem_map] at h
    obtain ⟨a, ha, is, his, rfl⟩ := h
    exact ⟨ha, mem_indices_valid his⟩

theorem valid_mem_indices : ∀ {s : Shape} {i : Index}, Valid s i → i ∈ indices s
  | [], [], _ => by simp [indices]
  | n :: s, i :: is, h => by
    simp only [indices, List.mem_flatMap, List.mem_range, List.mem_map]
    exact ⟨i, h.1, is, valid_mem_indices h.2, rfl⟩
  | [], _ :: _, h => by simp [Valid] at h
  | _ :: _, [], h => by simp [Valid] at h

theorem range_mul_succ (n S : Nat) :
    List.range ((n + 1) * S) = List.range (n * S) ++ (List.range S).map (n * S + ·) := by
  rw [Nat.add_mul, Nat.one_mul, List.range_add]

theorem flatMap_range_blocks (S : Nat) : ∀ n : Nat,
    (List.range n).flatMap (fun i => (List.range S).map (i * S + ·)) = List.range (n * S)
  | 0 => by simp
  | n + 1 => by
    rw [List.range_succ, List.flatMap_append, flatMap_range_blocks S n, range_mul_succ]
    simp

/-- the row-major enumeration of a shape visits the flat offsets `0, 1, …, size s - 1` in order -/
theorem indices_map_ravel : ∀ s : Shape, (indices s).map (ravel s) = List.range (size s)
  | [] => by simp [indices, ravel, size_nil, List.range_succ]
  | n :: s => by
    simp only [indices, List.map_flatMap, List.map_map, size_cons]
    have : ∀ i, (List.map (ravel (n :: s) ∘ fun x => i :: x) (indices s))
        = (List.range (size s)).map (i * size s + ·) := by
      intro i
      rw [← indices_map_ravel s, List.map_map]
      apply List.map_congr_left
      intro is _
      simp [ravel]
    simp only [this]
    exact flatMap_range_blocks (size s) n

theorem indices_length (s : Shape) : (indices s).length = size s := by
  have := congrArg List.length (indices_map_ravel s)
  simpa using this

/-- unravelling the offsets in order reproduces the enumeration -/
theorem range_map_unravel (s : Shape) : (List.range (size s)).map (unravel s) = indices s := by
  rw [← indices_map_ravel s, List.map_map]
  conv => rhs; rw [← List.map_id (indices s)]
  apply List.map_congr_left
  intro i hi
  exact unravel_ravel (mem_indices_valid hi)

/-- a reshaped array lists the same elements in the same (row-major) order -/
theorem toList_reshapeTo {α} (a : Arr α) (s : Shape) (h : size s = size a.shape) :
    (reshapeTo a s).toList = a.toList := by
  unfold Arr.toList reshapeTo
  simp only
  have e : (indices s).map (fun i => a.get (unravel a.shape (ravel s i)))
      = ((indices s).map (ravel s)).map (fun k => a.get (unravel a.shape k)) := by
    rw [List.map_map]; rfl
  rw [e, indices_map_ravel, h, ← range_map_unravel a.shape, List.map_map]
  rfl

end PMV.NpShape
