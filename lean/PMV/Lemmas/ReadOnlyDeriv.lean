import PMV.Lemmas.ReadOnlyInv
/-
  Helper lemmas for C08: every derivative of a read-only object is read-only (`InvD`), preserved by every piece of the
  model.  Uses the well-formedness part of `InvA` (a stored derivative / cached wod is a younger object than its
  owner), which is what makes the recursion of `as_readonly` reach everything.  Core Lean only.
-/
namespace PMV.ReadOnly

/-- derivatives of read-only objects are read-only, for all objects outside `X` -/
def InvDX (X : Nat → Prop) (s : State) : Prop :=
  ∀ (i : Nat) (o : Obj), ¬ X i → s.objs[i]? = some o → o.ro = true →
    ∀ kd ∈ o.derivs, ∃ d : Obj, s.objs[kd.2]? = some d ∧ d.ro = true

def InvD (s : State) : Prop := InvDX (fun _ => False) s

theorem InvDX.weaken {X Y : Nat → Prop} {s : State} (h : InvDX X s) (hxy : ∀ j, X j → Y j) : InvDX Y s :=
  fun i o hY => h i o (fun hx => hY (hxy i hx))

theorem invDX_objs {X : Nat → Prop} {s s' : State} (h : InvDX X s) (ho : s'.objs = s.objs) : InvDX X s' := by
  intro i o hx hio hro kd hkd
  rw [ho] at hio ⊢
  exact h i o hx hio hro kd hkd

theorem invDX_allocObj {X : Nat → Prop} {s : State} (h : InvDX X s) (o : Obj) (hd : o.derivs = []) :
    InvDX X (s.allocObj o).2 := by
  intro i x hx hix hro kd hkd
  simp only [State.allocObj, List.getElem?_append] at hix
  split at hix
  · obtain ⟨d, hd1, hd2⟩ := h i x hx hix hro kd hkd
    refine ⟨d, ?_, hd2⟩
    simp only [State.allocObj]
    rw [List.getElem?_append_left (List.getElem?_eq_some_iff.mp hd1).1]
    exact hd1
  · cases hh : i - s.objs.length with
    | zero =>
      simp [hh] at hix; subst hix
      simp [hd] at hkd
    | succ m => simp [hh] at hix

/-- an update of one object: its flag does not go down, and if the new record is read-only its derivatives are
    read-only objects other than itself -/
theorem invDX_setObj {X : Nat → Prop} {s : State} (h : InvDX X s) (i : Nat) (f : Obj → Obj)
    (hf : ∀ o, s.objs[i]? = some o → (o.ro = true → (f o).ro = true) ∧
      (¬ X i → (f o).ro = true → ∀ kd ∈ (f o).derivs, ∃ d : Obj, s.objs[kd.2]? = some d ∧ d.ro = true ∧ kd.2 ≠ i)) :
    InvDX X (s.setObj i f) := by
  intro j x hx hjx hro kd hkd
  simp only [State.setObj, getElem?_upd] at hjx ⊢
  have look : ∀ (k : Nat) (d : Obj), s.objs[k]? = some d → d.ro = true →
      ∃ d' : Obj, (if i = k then Option.map f s.objs[k]? else s.objs[k]?) = some d' ∧ d'.ro = true := by
    intro k d hk hdro
    by_cases hik : i = k
    · subst hik
      exact ⟨f d, by simp [hk], (hf d hk).1 hdro⟩
    · exact ⟨d, by simp [hik, hk], hdro⟩
  by_cases hij : i = j
  · subst hij
    simp only [if_true] at hjx
    cases ho : s.objs[i]? with
    | none => simp [ho] at hjx
    | some o =>
      simp [ho] at hjx; subst hjx
      obtain ⟨d, hd1, hd2, hne⟩ := (hf o ho).2 hx hro kd hkd
      exact ⟨d, by simp [Ne.symm hne, hd1], hd2⟩
  · simp only [hij, if_false] at hjx
    obtain ⟨d, hd1, hd2⟩ := h j x hx hjx hro kd hkd
    exact look kd.2 d hd1 hd2

/-- an update that keeps the flag and does not add derivatives -/
theorem invDX_setObj_sub {X : Nat → Prop} {s : State} (hA : InvA s) (h : InvDX X s) (i : Nat) (f : Obj → Obj)
    (hf : ∀ o, (f o).ro = o.ro ∧ ∀ kd ∈ (f o).derivs, kd ∈ o.derivs) : InvDX X (s.setObj i f) := by
  refine invDX_setObj h i f ?_
  intro o ho
  refine ⟨fun hr => (hf o).1.trans hr, ?_⟩
  intro hx hr kd hkd
  have hmem := (hf o).2 kd hkd
  obtain ⟨d, hd1, hd2⟩ := h i o hx ho ((hf o).1 ▸ hr) kd hmem
  exact ⟨d, hd1, hd2, Nat.ne_of_gt ((hA i o ho).dlt kd hmem).1⟩

/-! ### as_readonly reaches the whole tree below an object and nothing above it -/

theorem asRO0_other (s : State) (i j : Nat) (h : j ≠ i) : (asRO0 s i).objs[j]? = s.objs[j]? := by
  unfold asRO0
  split
  · split
    · rfl
    · simp only [State.setObj, getElem?_upd, objs_freezeM, objs_freezeV]
      simp [Ne.symm h]
  · rfl

theorem asROf_below (fuel : Nat) : ∀ (s : State) (i : Nat), InvA s → ∀ j, j < i →
    (asROf fuel s i).objs[j]? = s.objs[j]? := by
  induction fuel with
  | zero => intro s i _ j _; rfl
  | succ n ih =>
    intro s i hA j hj
    unfold asROf
    split
    · rename_i o ho
      split
      · rfl
      · dsimp only
        have hb := hA i o ho
        have h1 : InvA (asRO0 s i) := invA_asRO0 hA i
        have e1 : (asRO0 s i).objs[j]? = s.objs[j]? := asRO0_other s i j (Nat.ne_of_lt hj)
        -- the derivatives
        have key : ∀ (l : List (Nat × Nat)) (st : State), InvA st → (∀ kd ∈ l, j < kd.2) →
            (l.foldl (fun s kd => asROf n s kd.2) st).objs[j]? = st.objs[j]? := by
          intro l
          induction l with
          | nil => intro st _ _; rfl
          | cons x xs ihl =>
            intro st hst hl
            simp only [List.foldl_cons]
            rw [ihl _ (invA_asROf n st x.2 hst) (fun kd hkd => hl kd (List.mem_cons_of_mem _ hkd))]
            exact ih st x.2 hst j (hl x (List.mem_cons_self ..))
        have hlt : ∀ kd ∈ o.derivs, j < kd.2 := fun kd hkd => Nat.lt_trans hj (hb.dlt kd hkd).1
        -- the cached wod
        cases hw : o.wodc with
        | none =>
          dsimp only
          rw [key _ _ h1 hlt]
          exact e1
        | some w =>
          dsimp only
          rw [key _ _ (invA_asROf n _ w h1) hlt]
          exact (ih _ w h1 j (Nat.lt_trans hj (hb.wlt w hw).1)).trans e1
    · rfl

/-- the flag of an object never goes down and its derivative table stays, along `as_readonly` of anything -/
theorem asROf_keeps (fuel : Nat) (s : State) (i j : Nat) (o : Obj) (ho : s.objs[j]? = some o) (hro : o.ro = true) :
    ∃ o', (asROf fuel s i).objs[j]? = some o' ∧ o'.ro = true ∧ o'.derivs = o.derivs := by
  obtain ⟨o', ho', k⟩ := (oext_asROf (fun _ => False) fuel s i).keep j o ho
  obtain ⟨h1, _, _, h4⟩ := k hro
  exact ⟨o', ho', h1, (h4 (fun h => h)).2⟩

theorem invDX_asROf (fuel : Nat) : ∀ (s : State) (i : Nat) (X : Nat → Prop), InvA s → InvDX X s →
    s.objs.length ≤ i + fuel →
    InvDX X (asROf fuel s i) ∧ ∀ o', (asROf fuel s i).objs[i]? = some o' → o'.ro = true := by
  induction fuel with
  | zero =>
    intro s i X _ hD hlen
    refine ⟨hD, ?_⟩
    intro o' ho'
    have : i < s.objs.length := (List.getElem?_eq_some_iff.mp ho').1
    exact absurd this (Nat.not_lt.mpr hlen)
  | succ n ih =>
    intro s i X hA hD hlen
    unfold asROf
    split
    · rename_i o ho
      split
      · rename_i hro
        exact ⟨hD, fun o' ho' => by rw [ho] at ho'; cases ho'; exact hro⟩
      · rename_i hro
        dsimp only
        have hb := hA i o ho
        have h1A : InvA (asRO0 s i) := invA_asRO0 hA i
        have hl1 : (asRO0 s i).objs.length = s.objs.length := len_asRO0 s i
        -- after the flag is set: the object itself is the only one whose derivatives may lag behind
        have hi1 : ∃ o1, (asRO0 s i).objs[i]? = some o1 ∧ o1.ro = true ∧ o1.derivs = o.derivs := by
          refine ⟨{ o with ro := true }, ?_, rfl, rfl⟩
          have hobjs : (asRO0 s i).objs = upd s.objs i (fun o => { o with ro := true }) := by
            simp [asRO0, ho, hro, State.setObj, objs_freezeM, objs_freezeV]
          rw [hobjs, getElem?_upd]
          simp [ho]
        have h1D : InvDX (fun j => X j ∨ j = i) (asRO0 s i) := by
          intro j x hx hjx hxro kd hkd
          have hji : j ≠ i := fun h => hx (Or.inr h)
          rw [asRO0_other s i j hji] at hjx
          obtain ⟨d, hd1, hd2⟩ := hD j x (fun h => hx (Or.inl h)) hjx hxro kd hkd
          by_cases hk : kd.2 = i
          · obtain ⟨o1, ho1, r1, _⟩ := hi1
            exact ⟨o1, by rw [hk]; exact ho1, r1⟩
          · exact ⟨d, by rw [asRO0_other s i kd.2 hk]; exact hd1, hd2⟩
        -- the derivatives, one after the other
        have key : ∀ (l : List (Nat × Nat)) (st : State), InvA st → InvDX (fun j => X j ∨ j = i) st →
            st.objs.length = s.objs.length → (∀ kd ∈ l, i < kd.2 ∧ kd.2 < s.objs.length) →
            InvDX (fun j => X j ∨ j = i) (l.foldl (fun s kd => asROf n s kd.2) st) ∧
            ∀ kd ∈ l, ∃ d : Obj, (l.foldl (fun s kd => asROf n s kd.2) st).objs[kd.2]? = some d ∧ d.ro = true := by
          intro l
          induction l with
          | nil => intro st _ hst _ _; exact ⟨hst, by simp⟩
          | cons x xs ihl =>
            intro st hstA hstD hstl hl
            simp only [List.foldl_cons]
            have hx := hl x (List.mem_cons_self ..)
            obtain ⟨hD1, hro1⟩ := ih st x.2 _ hstA hstD (by rw [hstl]; omega)
            have hA1 := invA_asROf n st x.2 hstA
            have hl1' : (asROf n st x.2).objs.length = s.objs.length := by rw [len_asROf, hstl]
            obtain ⟨hDr, hror⟩ := ihl _ hA1 hD1 hl1' (fun kd hkd => hl kd (List.mem_cons_of_mem _ hkd))
            refine ⟨hDr, ?_⟩
            intro kd hkd
            cases List.mem_cons.mp hkd with
            | inr hin => exact hror kd hin
            | inl heq =>
              subst heq
              -- it exists, it is read-only after its own step, and stays so
              have hex : ∃ d1, (asROf n st kd.2).objs[kd.2]? = some d1 := by
                have : kd.2 < (asROf n st kd.2).objs.length := by rw [hl1']; exact hx.2
                exact ⟨(asROf n st kd.2).objs[kd.2], by simp [this]⟩
              obtain ⟨d1, hd1⟩ := hex
              have hr1 := hro1 d1 hd1
              obtain ⟨d2, hd2, k2⟩ :=
                (oext_foldl (fun _ => False) _ (fun s (kd : Nat × Nat) => oext_asROf _ n s kd.2) xs _).keep kd.2 d1 hd1
              exact ⟨d2, hd2, (k2 hr1).1⟩
        have rest : ∀ s2 : State, InvA s2 → InvDX (fun j => X j ∨ j = i) s2 → s2.objs.length = s.objs.length →
            (∃ o2, s2.objs[i]? = some o2 ∧ o2.ro = true ∧ o2.derivs = o.derivs) →
            InvDX X (o.derivs.foldl (fun s kd => asROf n s kd.2) s2) ∧
            ∀ o', (o.derivs.foldl (fun s kd => asROf n s kd.2) s2).objs[i]? = some o' → o'.ro = true := by
          intro s2 h2A h2D h2l hex2
          obtain ⟨o2, ho2, r2, d2⟩ := hex2
          obtain ⟨hDf, hrof⟩ := key o.derivs _ h2A h2D h2l hb.dlt
          -- the object itself in the final state
          obtain ⟨o3, ho3, k3⟩ :=
            (oext_foldl (fun _ => False) _ (fun s (kd : Nat × Nat) => oext_asROf _ n s kd.2) o.derivs _).keep i o2 ho2
          obtain ⟨r3, _, _, f3⟩ := k3 r2
          have d3 : o3.derivs = o.derivs := (f3 (fun h => h)).2.trans d2
          refine ⟨?_, fun o' ho' => by rw [ho3] at ho'; cases ho'; exact r3⟩
          intro j x hx hjx hxro kd hkd
          by_cases hji : j = i
          · subst hji
            rw [ho3] at hjx; cases hjx
            rw [d3] at hkd
            exact hrof kd hkd
          · exact hDf j x (fun h => h.elim hx hji) hjx hxro kd hkd
        -- the cached wod
        cases hw : o.wodc with
        | none =>
          dsimp only
          exact rest _ h1A h1D hl1 hi1
        | some w =>
          dsimp only
          have hwl := (hb.wlt w hw).1
          obtain ⟨o1, ho1, r1, d1⟩ := hi1
          obtain ⟨o2, ho2, r2, d2⟩ := asROf_keeps n _ w i o1 ho1 r1
          exact rest _ (invA_asROf n _ w h1A) (ih _ w _ h1A h1D (by rw [hl1]; omega)).1
            (by rw [len_asROf, hl1]) ⟨o2, ho2, r2, d2.trans d1⟩
    · rename_i hnone
      exact ⟨hD, fun o' ho' => by rw [hnone] at ho'; cases ho'⟩

theorem invD_asRO {s : State} (hA : InvA s) (h : InvD s) (i : Nat) (r : Bool) : InvD (asRO s i r) :=
  (invDX_asROf _ s i _ hA h (by omega)).1

theorem asRO_ro {s : State} (hA : InvA s) (h : InvD s) (i : Nat) (r : Bool) :
    ∀ o', (asRO s i r).objs[i]? = some o' → o'.ro = true :=
  (invDX_asROf _ s i _ hA h (by omega)).2

/-! ### the other pieces -/

/-- both invariants together -/
def Inv (s : State) : Prop := InvA s ∧ InvD s

theorem invD_objs {s s' : State} (h : InvD s) (ho : s'.objs = s.objs) : InvD s' := invDX_objs h ho

theorem inv_arrays {s s' : State} (h : Inv s) (he : Ext s s') (ho : s'.objs = s.objs) : Inv s' :=
  ⟨invA_arrays h.1 he ho, invD_objs h.2 ho⟩

theorem inv_foldl {α : Type} (f : State → α → State) (hf : ∀ s x, Inv s → Inv (f s x)) (l : List α) (s : State)
    (h : Inv s) : Inv (l.foldl f s) := by
  induction l generalizing s with
  | nil => exact h
  | cons x xs ih => exact ih _ (hf s x h)

theorem inv_foldl_pair {α β : Type} (f : State × β → α → State × β) (hf : ∀ s x, Inv s.1 → Inv (f s x).1)
    (l : List α) (s : State × β) (h : Inv s.1) : Inv (l.foldl f s).1 := by
  induction l generalizing s with
  | nil => exact h
  | cons x xs ih => exact ih _ (hf s x h)

theorem inv_asRO {s : State} (h : Inv s) (i : Nat) (r : Bool) : Inv (asRO s i r) :=
  ⟨invA_asRO h.1 i r, invD_asRO h.1 h.2 i r⟩

theorem inv_cloneNR {s : State} (h : Inv s) (i : Nat) : Inv (cloneNR s i).2 := by
  refine ⟨invA_cloneNR h.1 i, ?_⟩
  unfold cloneNR
  split
  · exact invDX_allocObj h.2 _ rfl
  · exact h.2

theorem inv_wodOf {s : State} (h : Inv s) (i : Nat) : Inv (wodOf s i).2 := by
  refine ⟨invA_wodOf h.1 i, ?_⟩
  unfold wodOf
  split
  · rename_i o ho
    split
    · exact h.2
    · split
      · exact h.2
      · dsimp only
        have hA1 : InvA (s.initObj o.vals o.mask o).2 := invA_initObj h.1 _ _ _
        have hD1 : InvD (s.initObj o.vals o.mask o).2 := invD_objs h.2 (objs_initObj _ _ _ _)
        have hb1 := hA1 i o (by rw [objs_initObj]; exact ho)
        have hA2 : InvA ((s.initObj o.vals o.mask o).2.allocObj { (s.initObj o.vals o.mask o).1 with ro := o.ro }).2 :=
          invA_allocObj hA1 _ (by simp [State.initObj]) (by simp [State.initObj])
            (by simpa [State.initObj] using hb1.vok) (by simpa [State.initObj] using hb1.mok)
            (by intro hr; simpa [State.initObj] using hb1.agr hr)
        have hD2 := invDX_allocObj hD1 { (s.initObj o.vals o.mask o).1 with ro := o.ro } (by simp [State.initObj])
        exact invDX_setObj_sub hA2 hD2 i _ (fun x => ⟨rfl, fun kd hkd => hkd⟩)
  · exact h.2

/-- the flags of existing objects are not changed by `wod` -/
theorem wodOf_flag (s : State) (d j : Nat) (o : Obj) (ho : s.objs[j]? = some o) :
    ∃ o', (wodOf s d).2.objs[j]? = some o' ∧ o'.ro = o.ro := by
  have hj : j < s.objs.length := (List.getElem?_eq_some_iff.mp ho).1
  unfold wodOf
  split
  · rename_i od hod
    split
    · exact ⟨o, ho, rfl⟩
    · split
      · exact ⟨o, ho, rfl⟩
      · dsimp only
        simp only [State.setObj, getElem?_upd, State.allocObj, objs_initObj]
        rw [List.getElem?_append_left hj, ho]
        by_cases hdj : d = j
        · simp [hdj]
        · simp [hdj]
  · exact ⟨o, ho, rfl⟩

theorem cloneNR_below (s : State) (d j : Nat) (hj : j < s.objs.length) : (cloneNR s d).2.objs[j]? = s.objs[j]? := by
  unfold cloneNR
  split
  · simp only [State.allocObj]
    exact List.getElem?_append_left hj
  · rfl

theorem cloneNR_get (s : State) (d : Nat) (od : Obj) (hd : s.objs[d]? = some od) :
    (cloneNR s d).2.objs[(cloneNR s d).1]? = some { od with derivs := [], wodc := none } := by
  simp [cloneNR, hd, State.allocObj]

/-- what `matchReadonly` hands back exists; it is read-only when the parent is; objects that existed keep their record -/
theorem matchReadonly_spec {s : State} (h : Inv s) (p : Bool) (d : Nat) (hd : d < s.objs.length) :
    (∀ j, j < s.objs.length → (matchReadonly s p d).2.objs[j]? = s.objs[j]?) ∧
    (p = true → ∃ x, (matchReadonly s p d).2.objs[(matchReadonly s p d).1]? = some x ∧ x.ro = true) := by
  have hod : s.objs[d]? = some s.objs[d] := by simp [hd]
  have hc1 : (cloneNR s d).1 = s.objs.length := cloneNR_fst s d _ hod
  have hcI : Inv (cloneNR s d).2 := inv_cloneNR h d
  unfold matchReadonly
  simp only [hod]
  by_cases hcond : (p && !(s.objs[d]).ro) = true
  · simp only [hcond, if_true]
    constructor
    · intro j hj
      have := asROf_below ((cloneNR s d).2.objs.length + 1) (cloneNR s d).2 (cloneNR s d).1 hcI.1 j (by rw [hc1]; exact hj)
      exact (show (asRO (cloneNR s d).2 (cloneNR s d).1 true).objs[j]? = _ from this).trans (cloneNR_below s d j hj)
    · intro _
      have hlt : (cloneNR s d).1 < (asRO (cloneNR s d).2 (cloneNR s d).1 true).objs.length := by
        rw [len_asRO, hc1]; simp [cloneNR, hod, State.allocObj]
      have hex : (asRO (cloneNR s d).2 (cloneNR s d).1 true).objs[(cloneNR s d).1]? =
          some ((asRO (cloneNR s d).2 (cloneNR s d).1 true).objs[(cloneNR s d).1]) := by simp [hlt]
      exact ⟨_, hex, asRO_ro hcI.1 hcI.2 _ true _ hex⟩
  · simp only [hcond, if_false]
    refine ⟨fun j hj => cloneNR_below s d j hj, ?_⟩
    intro hp
    refine ⟨_, cloneNR_get s d _ hod, ?_⟩
    simp only [hp, Bool.true_and, Bool.not_eq_true', Bool.not_eq_false'] at hcond
    simpa using hcond

theorem inv_matchReadonly {s : State} (h : Inv s) (p : Bool) (d : Nat) : Inv (matchReadonly s p d).2 := by
  unfold matchReadonly
  simp only
  split <;> split <;> (try dsimp only) <;>
    first | exact inv_asRO (inv_cloneNR h _) _ _ | exact inv_cloneNR h _

theorem inv_insertDeriv {s : State} (h : Inv s) (i k d : Nat) (ov : Bool) : Inv (insertDeriv s i k d ov).1 := by
  refine ⟨invA_insertDeriv h.1 i k d ov, ?_⟩
  unfold insertDeriv
  split
  · rename_i o od ho hod
    split
    · exact h.2
    · split
      · exact h.2
      · have hi : i < s.objs.length := (List.getElem?_eq_some_iff.mp ho).1
        have hd : d < s.objs.length := (List.getElem?_eq_some_iff.mp hod).1
        have h1 : Inv (wodOf s d).2 := inv_wodOf h d
        have hw := wodOf_lt h.1 d hd
        have hl1 : s.objs.length ≤ (wodOf s d).2.objs.length := (oext_wodOf (fun _ => True) s d).len
        obtain ⟨hc1, hc2⟩ := matchReadonly_fst (wodOf s d).2 o.ro (wodOf s d).1 hw
        obtain ⟨hbelow, hro⟩ := matchReadonly_spec h1 o.ro (wodOf s d).1 hw
        have h2 : Inv (matchReadonly (wodOf s d).2 o.ro (wodOf s d).1).2 := inv_matchReadonly h1 _ _
        -- the target has the flag it had at the start
        obtain ⟨o1, ho1, r1⟩ := wodOf_flag s d i o ho
        have ho2 : (matchReadonly (wodOf s d).2 o.ro (wodOf s d).1).2.objs[i]? = some o1 := by
          rw [hbelow i (Nat.lt_of_lt_of_le hi hl1)]; exact ho1
        refine invDX_setObj h2.2 i _ ?_
        intro o' ho'
        rw [ho2] at ho'
        cases ho'
        refine ⟨fun hr => hr, ?_⟩
        intro _ hr kd hkd
        have hb := h2.1 i o1 ho2
        cases mem_setKey hkd with
        | inl hold =>
          obtain ⟨x, hx1, hx2⟩ := h2.2 i o1 (fun hf => hf) ho2 hr kd hold
          exact ⟨x, hx1, hx2, Nat.ne_of_gt (hb.dlt kd hold).1⟩
        | inr hnew =>
          subst hnew
          obtain ⟨x, hx1, hx2⟩ := hro (r1 ▸ hr)
          refine ⟨x, hx1, hx2, ?_⟩
          dsimp only
          rw [hc1]
          exact Nat.ne_of_gt (Nat.lt_of_lt_of_le hi hl1)
  · exact h.2

theorem inv_allocObj {s : State} (h : Inv s) (o : Obj) (hd : o.derivs = []) (hw : o.wodc = none)
    (hv : valOK s o.vals) (hm : mskOK s o.mask) (ha : Agrees s o) : Inv (s.allocObj o).2 :=
  ⟨invA_allocObj h.1 o hd hw hv hm ha, invDX_allocObj h.2 o hd⟩

theorem inv_cloneStep (c : Nat) (s : State) (kd : Nat × Nat) (h : Inv s) : Inv (cloneStep c s kd) :=
  inv_insertDeriv (inv_cloneNR h _) _ _ _ _

theorem inv_clone {s : State} (h : Inv s) (i : Nat) (r : Bool) : Inv (clone s i r).2 := by
  unfold clone
  split
  · dsimp only
    split
    · exact inv_foldl _ (inv_cloneStep _) _ _ (inv_cloneNR h _)
    · exact inv_cloneNR h _
  · exact h

/-- any piece that keeps `InvA` and allocates nothing but one object without derivatives keeps `InvD` -/
theorem invD_of_objs_append {s s' : State} (h : InvD s) (o : Obj) (hd : o.derivs = [])
    (ho : s'.objs = s.objs ++ [o]) : InvD s' := by
  have := invDX_allocObj h o hd
  intro i x hx hix hro kd hkd
  rw [ho] at hix ⊢
  exact this i x hx (by simpa [State.allocObj] using hix) hro kd hkd

theorem inv_freezeSource {s : State} (h : Inv s) (i : Nat) (m : Mode) (v : Val) : Inv (freezeSource s i m v) := by
  unfold freezeSource
  split
  · exact inv_asRO h _ _
  · exact h

theorem invD_finishDerived {s : State} (h : InvD s) (nv : Val) (nm : Msk) (o : Obj) (m : Mode) :
    InvD (finishDerived s nv nm o m).2 := by
  unfold finishDerived
  dsimp only
  refine invDX_allocObj (invD_objs h ?_) _ (by simp [State.initObj])
  repeat' split
  all_goals simp only [objs_freezeM, objs_freezeV, objs_initObj]

theorem inv_derive1 {s : State} (h : Inv s) (i : Nat) (m : Mode) (sel : Sel) : Inv (derive1 s i m sel).2 := by
  refine ⟨invA_derive1 h.1 i m sel, ?_⟩
  unfold derive1
  split
  · rename_i o ho
    dsimp only
    have h0 := inv_freezeSource h i m o.vals
    exact invD_finishDerived (invD_objs (invD_objs h0.2 (objs_deriveVals _ _ _ _)) (objs_deriveMaskSel _ _ _ _)) _ _ _ _
  · exact h.2

theorem inv_deriveStep (c : Nat) (m : Mode) (sel : Sel) (dsel : List (Nat × Sel)) (s : State) (kd : Nat × Nat)
    (h : Inv s) : Inv (deriveStep c m sel dsel s kd) :=
  inv_insertDeriv (inv_derive1 h _ _ _) _ _ _ _

theorem inv_derive {s : State} (h : Inv s) (i : Nat) (m : Mode) (sel : Sel) (r : Bool) (dsel : List (Nat × Sel)) :
    Inv (derive s i m sel r dsel).2 := by
  unfold derive
  split
  · dsimp only
    split
    · exact inv_foldl _ (inv_deriveStep _ _ _ _) _ _ (inv_derive1 h _ _ _)
    · exact inv_derive1 h _ _ _
  · exact h

theorem inv_copyNR {s : State} (h : Inv s) (i : Nat) (ro : Bool) : Inv (copyNR s i ro).2 := by
  unfold copyNR
  split
  · rename_i o ho
    split
    · exact inv_cloneNR h _
    · dsimp only
      have h1 : Inv (copyVals s o.vals).2 := inv_arrays h (ext_copyVals _ _) (objs_copyVals _ _)
      have h2 : Inv (copyMask (copyVals s o.vals).2 o.mask).2 :=
        inv_arrays h1 (ext_copyMask _ _) (objs_copyMask _ _)
      have h3 := inv_allocObj h2
        { o with vals := (copyVals s o.vals).1, mask := (copyMask (copyVals s o.vals).2 o.mask).1, ro := false,
                 derivs := [], wodc := none } rfl rfl
        (valOK_mono (ext_copyMask _ _) (copyVals_ok _ _)) (copyMask_ok _ _) (by intro hr; simp at hr)
      split
      · exact inv_asRO h3 _ _
      · exact h3
  · exact h

theorem inv_copyStep (c : Nat) (ro : Bool) (s : State) (kd : Nat × Nat) (h : Inv s) : Inv (copyStep c ro s kd) :=
  inv_insertDeriv (inv_copyNR h _ _) _ _ _ _

theorem inv_copy {s : State} (h : Inv s) (i : Nat) (r ro : Bool) : Inv (copy s i r ro).2 := by
  unfold copy
  split
  · dsimp only
    split
    · exact inv_copyNR h _ _
    · split
      · exact inv_foldl _ (inv_copyStep _ _) _ _ (inv_copyNR h _ _)
      · exact inv_copyNR h _ _
  · exact h

theorem inv_negNR {s : State} (h : Inv s) (i : Nat) (u d : Bool) : Inv (negNR s i u d).2 := by
  refine ⟨invA_negNR h.1 i u d, ?_⟩
  unfold negNR
  split
  · dsimp only
    refine invDX_allocObj (invD_objs h.2 ?_) _ rfl
    split
    · rw [objs_copyMask, objs_negVals]
    · rw [objs_negVals]
  · exact h.2

theorem inv_negStep (c : Nat) (s : State) (kd : Nat × Nat) (h : Inv s) : Inv (negStep c s kd) :=
  inv_insertDeriv (inv_negNR h _ _ _) _ _ _ _

theorem inv_neg {s : State} (h : Inv s) (i : Nat) (u d : Bool) : Inv (neg s i u d).2 := by
  unfold neg
  split
  · exact inv_foldl _ (inv_negStep _) _ _ (inv_negNR h _ _ _)
  · exact h

theorem inv_unpickle_aux {s1 : State} (h1 : Inv s1) (o : Obj) (nv : Val) (nm : Msk) (top : Bool)
    (dv : valOK s1 nv) (hnm : mskOK s1 nm) :
    Inv (if top then
        (if o.ro then (s1.freezeV nv).freezeM nm else s1).allocObj
          { o with vals := nv, mask := nm, derivs := [], wodc := none }
      else
        ((s1.allocObj { o with vals := nv, mask := nm, ro := false, derivs := [], wodc := none }).1,
         if o.ro then asRO (s1.allocObj { o with vals := nv, mask := nm, ro := false, derivs := [], wodc := none }).2
            (s1.allocObj { o with vals := nv, mask := nm, ro := false, derivs := [], wodc := none }).1 true
         else (s1.allocObj { o with vals := nv, mask := nm, ro := false, derivs := [], wodc := none }).2)).2 := by
  refine ⟨invA_unpickle_aux h1.1 o nv nm top dv hnm, ?_⟩
  cases top with
  | true =>
    simp only [if_true]
    refine invDX_allocObj (invD_objs h1.2 ?_) _ rfl
    split
    · rw [objs_freezeM, objs_freezeV]
    · rfl
  | false =>
    simp only [Bool.false_eq_true, if_false]
    have h2 := inv_allocObj h1
      { o with vals := nv, mask := nm, ro := false, derivs := [], wodc := none } rfl rfl dv hnm
      (by intro hr; simp at hr)
    split
    · exact (inv_asRO h2 _ _).2
    · exact h2.2

theorem inv_unpickleNR {s : State} (h : Inv s) (o : Obj) (mc : MaskClass) (pm : Option Msk) (top : Bool)
    (hv : valOK s o.vals) (hm : mskOK s o.mask) (hpm : ∀ m, pm = some m → mskOK s m) :
    Inv (unpickleNR s o mc pm top).2 := by
  have hE : Ext s (decode s o mc).2 := ext_decode _ _ _
  have h1 : Inv (decode s o mc).2 := inv_arrays h hE (objs_decode _ _ _)
  obtain ⟨dv, dm⟩ := decode_ok s o mc hv hm
  cases pm with
  | some m =>
    unfold unpickleNR
    exact inv_unpickle_aux h1 o _ m top dv (mskOK_mono hE (hpm m rfl))
  | none =>
    unfold unpickleNR
    exact inv_unpickle_aux h1 o _ _ top dv dm

theorem inv_unpickleStep (c : Nat) (pm : Option Msk) (dmc : List (Nat × MaskClass)) (s : State) (kd : Nat × Nat)
    (h : Inv s) (hpm : ∀ m, pm = some m → mskOK s m) : Inv (unpickleStep c pm dmc s kd) := by
  unfold unpickleStep
  split
  · rename_i d hd
    exact inv_insertDeriv (inv_unpickleNR h d _ pm false (h.1 _ d hd).vok (h.1 _ d hd).mok hpm) _ _ _ _
  · exact h

theorem inv_foldl_ext {α : Type} (P : State → Prop) (f : State → α → State)
    (hf : ∀ s x, Inv s → P s → Inv (f s x) ∧ P (f s x)) (l : List α) (s : State) (h : Inv s) (hp : P s) :
    Inv (l.foldl f s) ∧ P (l.foldl f s) := by
  induction l generalizing s with
  | nil => exact ⟨h, hp⟩
  | cons x xs ih => exact ih _ (hf s x h hp).1 (hf s x h hp).2

theorem inv_unpickle {s : State} (h : Inv s) (i : Nat) (mc : MaskClass) (dmc : List (Nat × MaskClass)) :
    Inv (unpickle s i mc dmc).2 := by
  unfold unpickle
  split
  · rename_i o ho
    have h1 : Inv (unpickleNR s o mc none true).2 :=
      inv_unpickleNR h o mc none true (h.1 i o ho).vok (h.1 i o ho).mok (by intro m hm; cases hm)
    refine (inv_foldl_ext
      (fun st => ∀ m, parentMaskOf (unpickleNR s o mc none true).2 (unpickleNR s o mc none true).1 = some m → mskOK st m)
      _ ?_ _ _ h1 (parentMaskOf_ok h1.1 _)).1
    intro st kd hst hp
    refine ⟨inv_unpickleStep _ _ _ _ _ hst hp, ?_⟩
    intro m hm
    exact mskOK_mono (ext_unpickleStep _ _ _ _ _) (hp m hm)
  · exact h

theorem inv_setItem (fuel : Nat) : ∀ (s : State) (i : Nat) (pos mpos : List Nat) (mn : Nat), Inv s →
    Inv (setItem s i pos mpos mn fuel).1 := by
  induction fuel with
  | zero => intro s i pos mpos mn h; exact h
  | succ n ih =>
    intro s i pos mpos mn h
    refine ⟨invA_setItem (n + 1) s i pos mpos mn h.1, ?_⟩
    unfold setItem
    split
    · exact h.2
    · rename_i hrw
      have hnr := nonro_of_requireWritable s i hrw
      split
      · rename_i o ho
        split
        · exact h.2
        · rename_i a _
          split
          · exact h.2
          · dsimp only
            have h1 : Inv (expandMask s o.mask mn).2 := inv_arrays h (ext_expandMask _ _ _) (objs_expandMask _ _ _)
            have h2D : InvD ((expandMask s o.mask mn).2.setObj i fun x =>
                { x with mask := (expandMask s o.mask mn).1 }) :=
              invDX_setObj_sub h1.1 h1.2 i _ (fun x => ⟨rfl, fun kd hkd => hkd⟩)
            split
            · exact invD_objs h2D (objs_writeArr _ _ _)
            · -- the remaining part of the state change keeps InvA by the lemma above; redo it for InvD
              have hA_all := invA_setItem (n + 1) s i pos mpos mn h.1
              have h3D := invD_objs h2D (objs_writeArr _ a pos)
              have h4D := invD_objs h3D (objs_writeMask _ (expandMask s o.mask mn).1 mpos)
              -- InvA of the state before the last update of the target
              have h2A : InvA ((expandMask s o.mask mn).2.setObj i fun x =>
                  { x with mask := (expandMask s o.mask mn).1 }) := by
                refine invA_setObj h1.1 i _ ?_
                intro o' ho'
                have hb1 := h1.1 i o' ho'
                rw [objs_expandMask, ho] at ho'
                cases ho'
                exact ⟨hb1.vok, expandMask_ok _ _ _ (h.1 i o ho).mok, hb1.dlt, hb1.wlt, fun hr => by
                  have := hb1.agr hr
                  exact ⟨this.1, absurd hr (by simp [hnr o ho])⟩⟩
              have h4A := invA_arrays (invA_arrays h2A (ext_writeArr _ a pos) (objs_writeArr _ a pos))
                (ext_writeMask _ (expandMask s o.mask mn).1 mpos) (objs_writeMask _ _ _)
              refine (inv_foldl_pair _ (fun acc (kd : Nat × Nat) hacc => ?_) _ (_, Res.ok) ⟨?_, ?_⟩).2
              · split
                · exact hacc
                · exact ih _ _ _ _ _ hacc
              · refine invA_setObj h4A i _ ?_
                intro o' ho'
                have hb4 := h4A i o' ho'
                rw [objs_writeMask, objs_writeArr] at ho'
                simp only [State.setObj, getElem?_upd, if_true, objs_expandMask, ho, Option.map_some] at ho'
                cases ho'
                have hm3 := mskOK_mono ((ext_setObj (expandMask s o.mask mn).2 i fun x =>
                    { x with mask := (expandMask s o.mask mn).1 }).trans (ext_writeArr _ a pos))
                  (expandMask_ok s o.mask mn (h.1 i o ho).mok)
                exact ⟨hb4.vok, writeMask_ok _ _ _ hm3, hb4.dlt, by simp,
                  fun hr => absurd hr (by simp [hnr o ho])⟩
              · exact invDX_setObj_sub h4A h4D i _ (fun x => ⟨rfl, fun kd hkd => hkd⟩)
      · exact h.2

theorem inv_zeroDeriv {s : State} (h : Inv s) (n d : Nat) : Inv (zeroDeriv s n d).2 := by
  refine ⟨invA_zeroDeriv h.1 n d, ?_⟩
  unfold zeroDeriv
  split
  · exact invDX_allocObj (invD_objs h.2 (objs_freshArr _ _ _)) _ rfl
  · exact h.2

theorem zeroDeriv_below (s : State) (n d j : Nat) (hj : j < s.objs.length) :
    (zeroDeriv s n d).2.objs[j]? = s.objs[j]? := by
  unfold zeroDeriv
  split
  · simp only [State.allocObj, objs_freshArr]
    exact List.getElem?_append_left hj
  · rfl

/-- one pass of the whole-object assignment on a target that is not read-only -/
theorem inv_setAllStep (i n : Nat) (s : State) (kd : Nat × Nat) (h : Inv s) (hi : i < s.objs.length)
    (hk : kd.2 < s.objs.length) (hnr : ∀ o, s.objs[i]? = some o → o.ro = false) :
    Inv (setAllStep i n s kd) ∧ (∀ o, (setAllStep i n s kd).objs[i]? = some o → o.ro = false) := by
  have hz := inv_zeroDeriv h n kd.2
  have hlook : (zeroDeriv s n kd.2).2.objs[i]? = s.objs[i]? := zeroDeriv_below s n kd.2 i hi
  refine ⟨⟨invA_setAllStep i n s kd h.1 hi hk, ?_⟩, ?_⟩
  · unfold setAllStep
    dsimp only
    refine invDX_setObj hz.2 i _ ?_
    intro o' ho'
    rw [hlook] at ho'
    refine ⟨fun hr => hr, ?_⟩
    intro _ hr
    exact absurd hr (by simp [hnr o' ho'])
  · intro o ho
    unfold setAllStep at ho
    simp only [State.setObj, getElem?_upd, if_true, hlook] at ho
    cases hs : s.objs[i]? with
    | none => simp [hs] at ho
    | some x =>
      simp [hs] at ho
      subst ho
      exact hnr x hs

theorem inv_setAll {s : State} (h : Inv s) (i : Nat) : Inv (setAll s i).1 := by
  unfold setAll
  split
  · exact h
  · rename_i hrw
    have hnr := nonro_of_requireWritable s i hrw
    split
    · rename_i o ho
      split
      · exact h
      · rename_i a ha
        split
        · exact h
        · have hb := h.1 i o ho
          have hi : i < s.objs.length := (List.getElem?_eq_some_iff.mp ho).1
          have h1 : Inv (s.freshArr (allPos s a).length true).2 :=
            inv_arrays h (ext_freshArr _ _ _) (objs_freshArr _ _ _)
          have h2A : InvA ((s.freshArr (allPos s a).length true).2.setObj i fun x =>
              { x with vals := .arr (s.freshArr (allPos s a).length true).1, mask := .sc false, wodc := none }) := by
            refine invA_setObj h1.1 i _ ?_
            intro o' ho'
            rw [objs_freshArr, ho] at ho'
            cases ho'
            have hb1 := h1.1 i o (by rw [objs_freshArr]; exact ho)
            exact ⟨freshArr_ok _ _ _, trivial, hb1.dlt, by simp, fun hr => absurd hr (by simp [hnr o ho])⟩
          have h2D := invDX_setObj_sub h1.1 h1.2 i (fun x =>
              { x with vals := Val.arr (s.freshArr (allPos s a).length true).1, mask := Msk.sc false, wodc := none })
              (fun x => ⟨rfl, fun kd hkd => hkd⟩)
          have hlen2 : ((s.freshArr (allPos s a).length true).2.setObj i fun x =>
              { x with vals := .arr (s.freshArr (allPos s a).length true).1, mask := .sc false,
                       wodc := none }).objs.length = s.objs.length := by
            simp [State.setObj, length_upd, objs_freshArr]
          have hnr2 : ∀ x, ((s.freshArr (allPos s a).length true).2.setObj i fun x =>
              { x with vals := .arr (s.freshArr (allPos s a).length true).1, mask := .sc false,
                       wodc := none }).objs[i]? = some x → x.ro = false := by
            intro x hx
            simp only [State.setObj, getElem?_upd, if_true, objs_freshArr, ho, Option.map_some] at hx
            cases hx
            exact hnr o ho
          have key : ∀ (l : List (Nat × Nat)) (st : State), Inv st → s.objs.length ≤ st.objs.length →
              (∀ x, st.objs[i]? = some x → x.ro = false) → (∀ kd ∈ l, kd.2 < s.objs.length) →
              Inv (l.foldl (setAllStep i (allPos s a).length) st) := by
            intro l
            induction l with
            | nil => intro st hst _ _ _; exact hst
            | cons x xs ih =>
              intro st hst hle hn hl
              simp only [List.foldl_cons]
              obtain ⟨hI, hN⟩ := inv_setAllStep i _ st x hst (Nat.lt_of_lt_of_le hi hle)
                (Nat.lt_of_lt_of_le (hl x (List.mem_cons_self ..)) hle) hn
              refine ih _ hI ?_ hN (fun kd hkd => hl kd (List.mem_cons_of_mem _ hkd))
              exact Nat.le_trans hle (by
                unfold setAllStep
                simp only [State.setObj, length_upd]
                exact (oext_zeroDeriv (fun _ => True) st _ _).len)
          exact key _ _ ⟨h2A, h2D⟩ (by rw [hlen2]; exact Nat.le_refl _) hnr2 (fun kd hkd => (hb.dlt kd hkd).2)
    · exact h

theorem inv_iop {s : State} (h : Inv s) (i : Nat) (fast un : Bool) : Inv (iop s i fast un).1 := by
  refine ⟨invA_iop h.1 i fast un, ?_⟩
  unfold iop
  split
  · exact h.2
  · split
    · exact h.2
    · split
      · rename_i o _
        split
        · exact invDX_setObj_sub (invA_arrays h.1 (ext_stamps _ _) (objs_stamps _ _))
            (invD_objs h.2 (objs_stamps _ _)) i _ (fun x => ⟨rfl, fun kd hkd => hkd⟩)
        · rename_i a _
          dsimp only
          have h1 : Inv (s.writeArr a (allPos s a)).1 := inv_arrays h (ext_writeArr _ _ _) (objs_writeArr _ _ _)
          split
          · exact h1.2
          · split
            · exact invDX_setObj_sub h1.1 h1.2 i _ (fun x => ⟨rfl, fun kd hkd => hkd⟩)
            · have h2 := inv_foldl _ (fun st (kd : Nat × Nat) hst => inv_insertDeriv hst i kd.1 kd.2 false) o.derivs _ h1
              exact invDX_setObj_sub h2.1 h2.2 i _ (fun x => ⟨rfl, fun kd hkd => hkd⟩)
      · exact h.2

theorem inv_setUnits {s : State} (h : Inv s) (i u : Nat) (ov : Bool) : Inv (setUnits s i u ov).1 := by
  refine ⟨invA_setUnits h.1 i u ov, ?_⟩
  unfold setUnits
  split
  · split
    · exact h.2
    · split
      · exact h.2
      · exact invDX_setObj_sub h.1 h.2 i _ (fun x => ⟨rfl, fun kd hkd => hkd⟩)
  · exact h.2

theorem inv_deleteDeriv {s : State} (h : Inv s) (i k : Nat) (ov : Bool) : Inv (deleteDeriv s i k ov).1 := by
  refine ⟨invA_deleteDeriv h.1 i k ov, ?_⟩
  unfold deleteDeriv
  split
  · exact h.2
  · split
    · exact invDX_setObj_sub h.1 h.2 i _ (fun x => ⟨rfl, fun kd hkd => (List.mem_filter.mp hkd).1⟩)
    · exact h.2

theorem inv_deleteDerivs {s : State} (h : Inv s) (i : Nat) (ov : Bool) : Inv (deleteDerivs s i ov).1 := by
  refine ⟨invA_deleteDerivs h.1 i ov, ?_⟩
  unfold deleteDerivs
  split
  · exact h.2
  · split
    · exact invDX_setObj_sub h.1 h.2 i _ (fun x => ⟨rfl, fun kd hkd => by simp at hkd⟩)
    · exact h.2

theorem inv_insertDerivs {s : State} (h : Inv s) (i : Nat) (kds : List (Nat × Nat)) (ov : Bool) :
    Inv (insertDerivs s i kds ov).1 := by
  unfold insertDerivs
  split
  · split
    · exact h
    · refine inv_foldl_pair _ (fun acc (kd : Nat × Nat) hacc => ?_) _ (s, Res.ok) h
      split
      · exact hacc
      · exact inv_insertDeriv hacc _ _ _ _
  · exact h

theorem inv_mkObj {s : State} (h : Inv s) (n mn : Nat) (mask : Option Bool) (u d : Bool) :
    Inv (mkObj s n mn mask u d).2 := by
  refine ⟨invA_mkObj h.1 n mn mask u d, ?_⟩
  unfold mkObj
  dsimp only
  cases mask with
  | some b => exact invDX_allocObj (invD_objs h.2 (objs_freshArr _ _ _)) _ rfl
  | none =>
    exact invDX_allocObj (invD_objs (invD_objs h.2 (objs_freshArr _ _ _)) (objs_freshArr _ _ _)) _ rfl

theorem inv_mkScalar {s : State} (h : Inv s) (m u d : Bool) : Inv (mkScalar s m u d).2 :=
  ⟨invA_mkScalar h.1 m u d, invDX_allocObj (invD_objs h.2 (objs_stamps _ _)) _ rfl⟩

/-- every call of the alphabet keeps both invariants -/
theorem inv_step {s : State} (h : Inv s) (op : Op) : Inv (step s op).1 := by
  cases op <;> simp only [step, objRes]
  case mk => exact inv_mkObj h _ _ _ _ _
  case mks => exact inv_mkScalar h _ _ _
  case derive => split <;> first | exact inv_derive h _ _ _ _ _ | exact h
  case wod => split <;> first | exact inv_wodOf h _ | exact h
  case clone => split <;> first | exact inv_clone h _ _ | exact h
  case copy => split <;> first | exact inv_copy h _ _ _ | exact h
  case neg => split <;> first | exact inv_neg h _ _ _ | exact h
  case pickle => split <;> first | exact inv_unpickle h _ _ _ | exact h
  case getDeriv => split <;> (try split) <;> exact h
  case rawRef => split <;> first | exact inv_arrays h (Ext.of_same rfl rfl) rfl | exact h
  case rawView =>
    split
    · exact inv_arrays (inv_arrays h (ext_viewOf _ _ _ _) (objs_viewOf _ _ _ _)) (Ext.of_same rfl rfl) rfl
    · exact h
  case setItem => exact inv_setItem _ _ _ _ _ _ h
  case setAll => exact inv_setAll h _
  case iop => exact inv_iop h _ _ _
  case setUnits => exact inv_setUnits h _ _ _
  case deleteDeriv => exact inv_deleteDeriv h _ _ _
  case deleteDerivs => exact inv_deleteDerivs h _ _
  case insertDeriv => exact inv_insertDeriv h _ _ _ _
  case insertDerivs => exact inv_insertDerivs h _ _ _
  case asReadonly => split <;> (try dsimp only) <;> first | exact inv_asRO h _ _ | exact h
  case requireWritable => split <;> exact h
  case write =>
    split
    · split <;> exact inv_arrays h (ext_writeArr _ _ _) (objs_writeArr _ _ _)
    · exact h

theorem inv_run (ops : List Op) : ∀ s : State, Inv s → Inv (run s ops) := by
  induction ops with
  | nil => intro s h; exact h
  | cons op ops ih => intro s h; exact ih _ (inv_step h op)

theorem inv_empty : Inv State.empty :=
  ⟨invA_empty, fun i o _ h => by simp [State.empty] at h⟩

end PMV.ReadOnly
