import PMV.Lemmas.ReadOnlyInv
/-
  Helper lemmas for C08: every derivative of a read-only object is read-only (`InvD`), preserved by every piece of the
  model.  Uses the well-formedness part of `InvA` (a stored derivative / cached wod is a younger object than its
  owner), which is what makes the recursion of `as_readonly` reach everything.  Core Lean only.
-/
namespace PMV.ReadOnly

/-- derivatives of read-only objects are read-only, for all objects outside `X` -/
def InvDX (X : Nat → Prop) (s : State) : Prop :=
  ∀ (i : Nat) (o : Obj), ¬ X i → s.objs[i]? = some o → o.ro = true →
    ∀ kd ∈ o.derivs, ∃ d : Obj, s.objs[kd.2]? = some d ∧ d.ro = true

def InvD (s : State) : Prop := InvDX (fun _ => False) s

theorem InvDX.weaken {X Y : Nat → Prop} {s : State} (h : InvDX X s) (hxy : ∀ j, X j → Y j) : InvDX Y s :=
  fun i o hY => h i o (fun hx => hY (hxy i hx))

theorem invDX_objs {X : Nat → Prop} {s s' : State} (h : InvDX X s) (ho : s'.objs = s.objs) : InvDX X s' := by
  intro i o hx hio hro kd hkd
  rw [ho] at hio ⊢
  exact h i o hx hio hro kd hkd

theorem invDX_allocObj {X : Nat → Prop} {s : State} (h : InvDX X s) (o : Obj) (hd : o.derivs = []) :
    InvDX X (s.allocObj o).2 := by
  intro i x hx hix hro kd hkd
  simp only [State.allocObj, List.getElem?_append] at hix
  split at hix
  · obtain ⟨d, hd1, hd2⟩ := h i x hx hix hro kd hkd
    refine ⟨d, ?_, hd2⟩
    simp only [State.allocObj]
    rw [List.getElem?_append_left (List.getElem?_eq_some_iff.mp hd1).1]
    exact hd1
  · cases hh : i - s.objs.length with
    | zero =>
      simp [hh] at hix; subst hix
      simp [hd] at hkd
    | succ m => simp [hh] at hix

/-- an update of one object: its flag does not go down, and if the new record is read-only its derivatives are
    read-only objects other than itself -/
theorem invDX_setObj {X : Nat → Prop} {s : State} (h : InvDX X s) (i : Nat) (f : Obj → Obj)
    (hf : ∀ o, s.objs[i]? = some o → (o.ro = true → (f o).ro = true) ∧
      (¬ X i → (f o).ro = true → ∀ kd ∈ (f o).derivs, ∃ d : Obj, s.objs[kd.2]? = some d ∧ d.ro = true ∧ kd.2 ≠ i)) :
    InvDX X (s.setObj i f) := by
  intro j x hx hjx hro kd hkd
  simp only [State.setObj, getElem?_upd] at hjx ⊢
  have look : ∀ (k : Nat) (d : Obj), s.objs[k]? = some d → d.ro = true →
      ∃ d' : Obj, (if i = k then Option.map f s.objs[k]? else s.objs[k]?) = some d' ∧ d'.ro = true := by
    intro k d hk hdro
    by_cases hik : i = k
    · subst hik
      exact ⟨f d, by simp [hk], (hf d hk).1 hdro⟩
    · exact ⟨d, by simp [hik, hk], hdro⟩
  by_cases hij : i = j
  · subst hij
    simp only [if_true] at hjx
    cases ho : s.objs[i]? with
    | none => simp [ho] at hjx
    | some o =>
      simp [ho] at hjx; subst hjx
      obtain ⟨d, hd1, hd2, hne⟩ := (hf o ho).2 hx hro kd hkd
      exact ⟨d, by simp [Ne.symm hne, hd1], hd2⟩
  · simp only [hij, if_false] at hjx
    obtain ⟨d, hd1, hd2⟩ := h j x hx hjx hro kd hkd
    exact look kd.2 d hd1 hd2

/-- an update that keeps the flag and does not add derivatives -/
theorem invDX_setObj_sub {X : Nat → Prop} {s : State} (hA : InvA s) (h : InvDX X s) (i : Nat) (f : Obj → Obj)
    (hf : ∀ o, (f o).ro = o.ro ∧ ∀ kd ∈ (f o).derivs, kd ∈ o.derivs) : InvDX X (s.setObj i f) := by
  refine invDX_setObj h i f ?_
  intro o ho
  refine ⟨fun hr => (hf o).1.trans hr, ?_⟩
  intro hx hr kd hkd
  have hmem := (hf o).2 kd hkd
  obtain ⟨d, hd1, hd2⟩ := h i o hx ho ((hf o).1 ▸ hr) kd hmem
  exact ⟨d, hd1, hd2, Nat.ne_of_gt ((hA i o ho).dlt kd hmem).1⟩

/-! ### as_readonly reaches the whole tree below an object and nothing above it -/

theorem asRO0_other (s : State) (i j : Nat) (h : j ≠ i) : (asRO0 s i).objs[j]? = s.objs[j]? := by
  unfold asRO0
  split
  · split
    · rfl
    · simp only [State.setObj, getElem?_upd, objs_freezeM, objs_freezeV]
      simp [Ne.symm h]
  · rfl

theorem asROf_below (fuel : Nat) : ∀ (s : State) (i : Nat), InvA s → ∀ j, j < i →
    (asROf fuel s i).objs[j]? = s.objs[j]? := by
  induction fuel with
  | zero => intro s i _ j _; rfl
  | succ n ih =>
    intro s i hA j hj
    unfold asROf
    split
    · rename_i o ho
      split
      · rfl
      · dsimp only
        have hb := hA i o ho
        have h1 : InvA (asRO0 s i) := invA_asRO0 hA i
        have e1 : (asRO0 s i).objs[j]? = s.objs[j]? := asRO0_other s i j (Nat.ne_of_lt hj)
        -- the cached wod
        have h2 : InvA (match o.wodc with
            | some w => asROf n (asRO0 s i) w
            | none => asRO0 s i) ∧
            (match o.wodc with
            | some w => asROf n (asRO0 s i) w
            | none => asRO0 s i).objs[j]? = s.objs[j]? := by
          cases hw : o.wodc with
          | none => exact ⟨h1, e1⟩
          | some w =>
            exact ⟨invA_asROf n _ w h1, (ih _ w h1 j (Nat.lt_trans hj (hb.wlt w hw).1)).trans e1⟩
        -- the derivatives
        have key : ∀ (l : List (Nat × Nat)) (st : State), InvA st → (∀ kd ∈ l, j < kd.2) →
            (l.foldl (fun s kd => asROf n s kd.2) st).objs[j]? = st.objs[j]? := by
          intro l
          induction l with
          | nil => intro st _ _; rfl
          | cons x xs ihl =>
            intro st hst hl
            simp only [List.foldl_cons]
            rw [ihl _ (invA_asROf n st x.2 hst) (fun kd hkd => hl kd (List.mem_cons_of_mem _ hkd))]
            exact ih st x.2 hst j (hl x (List.mem_cons_self ..))
        rw [key _ _ h2.1 (fun kd hkd => Nat.lt_trans hj (hb.dlt kd hkd).1)]
        exact h2.2
    · rfl

/-- the flag of an object never goes down and its derivative table stays, along `as_readonly` of anything -/
theorem asROf_keeps (fuel : Nat) (s : State) (i j : Nat) (o : Obj) (ho : s.objs[j]? = some o) (hro : o.ro = true) :
    ∃ o', (asROf fuel s i).objs[j]? = some o' ∧ o'.ro = true ∧ o'.derivs = o.derivs := by
  obtain ⟨o', ho', k⟩ := (oext_asROf (fun _ => False) fuel s i).keep j o ho
  obtain ⟨h1, _, _, h4⟩ := k hro
  exact ⟨o', ho', h1, (h4 (fun h => h)).2⟩

theorem invDX_asROf (fuel : Nat) : ∀ (s : State) (i : Nat) (X : Nat → Prop), InvA s → InvDX X s →
    s.objs.length ≤ i + fuel →
    InvDX X (asROf fuel s i) ∧ ∀ o', (asROf fuel s i).objs[i]? = some o' → o'.ro = true := by
  induction fuel with
  | zero =>
    intro s i X _ hD hlen
    refine ⟨hD, ?_⟩
    intro o' ho'
    have : i < s.objs.length := (List.getElem?_eq_some_iff.mp ho').1
    exact absurd this (Nat.not_lt.mpr hlen)
  | succ n ih =>
    intro s i X hA hD hlen
    unfold asROf
    split
    · rename_i o ho
      split
      · rename_i hro
        exact ⟨hD, fun o' ho' => by rw [ho] at ho'; cases ho'; exact hro⟩
      · rename_i hro
        dsimp only
        have hb := hA i o ho
        have h1A : InvA (asRO0 s i) := invA_asRO0 hA i
        have hl1 : (asRO0 s i).objs.length = s.objs.length := len_asRO0 s i
        -- after the flag is set: the object itself is the only one whose derivatives may lag behind
        have hi1 : ∃ o1, (asRO0 s i).objs[i]? = some o1 ∧ o1.ro = true ∧ o1.derivs = o.derivs := by
          refine ⟨{ o with ro := true }, ?_, rfl, rfl⟩
          simp only [asRO0, ho, hro, if_false, State.setObj, getElem?_upd, if_true, objs_freezeM, objs_freezeV]
          simp
        have h1D : InvDX (fun j => X j ∨ j = i) (asRO0 s i) := by
          intro j x hx hjx hxro kd hkd
          have hji : j ≠ i := fun h => hx (Or.inr h)
          rw [asRO0_other s i j hji] at hjx
          obtain ⟨d, hd1, hd2⟩ := hD j x (fun h => hx (Or.inl h)) hjx hxro kd hkd
          by_cases hk : kd.2 = i
          · obtain ⟨o1, ho1, r1, _⟩ := hi1
            exact ⟨o1, by rw [hk]; exact ho1, r1⟩
          · exact ⟨d, by rw [asRO0_other s i kd.2 hk]; exact hd1, hd2⟩
        -- the cached wod
        have h2 : InvA (match o.wodc with
            | some w => asROf n (asRO0 s i) w
            | none => asRO0 s i) ∧
            InvDX (fun j => X j ∨ j = i) (match o.wodc with
            | some w => asROf n (asRO0 s i) w
            | none => asRO0 s i) ∧
            (match o.wodc with
            | some w => asROf n (asRO0 s i) w
            | none => asRO0 s i).objs.length = s.objs.length ∧
            ∃ o2, (match o.wodc with
            | some w => asROf n (asRO0 s i) w
            | none => asRO0 s i).objs[i]? = some o2 ∧ o2.ro = true ∧ o2.derivs = o.derivs := by
          cases hw : o.wodc with
          | none => exact ⟨h1A, h1D, hl1, hi1⟩
          | some w =>
            have hwl := (hb.wlt w hw).1
            refine ⟨invA_asROf n _ w h1A, (ih _ w _ h1A h1D (by rw [hl1]; omega)).1, by rw [len_asROf, hl1], ?_⟩
            obtain ⟨o1, ho1, r1, d1⟩ := hi1
            obtain ⟨o2, ho2, r2, d2⟩ := asROf_keeps n _ w i o1 ho1 r1
            exact ⟨o2, ho2, r2, d2.trans d1⟩
        -- the derivatives, one after the other
        have key : ∀ (l : List (Nat × Nat)) (st : State), InvA st → InvDX (fun j => X j ∨ j = i) st →
            st.objs.length = s.objs.length → (∀ kd ∈ l, i < kd.2 ∧ kd.2 < s.objs.length) →
            InvDX (fun j => X j ∨ j = i) (l.foldl (fun s kd => asROf n s kd.2) st) ∧
            ∀ kd ∈ l, ∃ d : Obj, (l.foldl (fun s kd => asROf n s kd.2) st).objs[kd.2]? = some d ∧ d.ro = true := by
          intro l
          induction l with
          | nil => intro st _ hst _ _; exact ⟨hst, by simp⟩
          | cons x xs ihl =>
            intro st hstA hstD hstl hl
            simp only [List.foldl_cons]
            have hx := hl x (List.mem_cons_self ..)
            obtain ⟨hD1, hro1⟩ := ih st x.2 _ hstA hstD (by rw [hstl]; omega)
            have hA1 := invA_asROf n st x.2 hstA
            have hl1' : (asROf n st x.2).objs.length = s.objs.length := by rw [len_asROf, hstl]
            obtain ⟨hDr, hror⟩ := ihl _ hA1 hD1 hl1' (fun kd hkd => hl kd (List.mem_cons_of_mem _ hkd))
            refine ⟨hDr, ?_⟩
            intro kd hkd
            cases List.mem_cons.mp hkd with
            | inr hin => exact hror kd hin
            | inl heq =>
              subst heq
              -- it exists, it is read-only after its own step, and stays so
              have hex : ∃ d1, (asROf n st kd.2).objs[kd.2]? = some d1 := by
                have : kd.2 < (asROf n st kd.2).objs.length := by rw [hl1']; exact hx.2
                exact ⟨_, by simp [this]⟩
              obtain ⟨d1, hd1⟩ := hex
              have hr1 := hro1 d1 hd1
              obtain ⟨d2, hd2, k2⟩ :=
                (oext_foldl (fun _ => False) _ (fun s (kd : Nat × Nat) => oext_asROf _ n s kd.2) xs _).keep kd.2 d1 hd1
              exact ⟨d2, hd2, (k2 hr1).1⟩
        obtain ⟨h2A, h2D, h2l, o2, ho2, r2, d2⟩ := h2
        obtain ⟨hDf, hrof⟩ := key o.derivs _ h2A h2D h2l hb.dlt
        -- the object itself in the final state
        obtain ⟨o3, ho3, k3⟩ :=
          (oext_foldl (fun _ => False) _ (fun s (kd : Nat × Nat) => oext_asROf _ n s kd.2) o.derivs _).keep i o2 ho2
        obtain ⟨r3, _, _, f3⟩ := k3 r2
        have d3 : o3.derivs = o.derivs := (f3 (fun h => h)).2.trans d2
        refine ⟨?_, fun o' ho' => by rw [ho3] at ho'; cases ho'; exact r3⟩
        intro j x hx hjx hxro kd hkd
        by_cases hji : j = i
        · subst hji
          rw [ho3] at hjx; cases hjx
          rw [d3] at hkd
          exact hrof kd hkd
        · exact hDf j x (fun h => h.elim hx hji) hjx hxro kd hkd
    · rename_i hnone
      exact ⟨hD, fun o' ho' => by rw [hnone] at ho'; cases ho'⟩

theorem invD_asRO {s : State} (hA : InvA s) (h : InvD s) (i : Nat) (r : Bool) : InvD (asRO s i r) :=
  (invDX_asROf _ s i _ hA h (by omega)).1

theorem asRO_ro {s : State} (hA : InvA s) (h : InvD s) (i : Nat) (r : Bool) :
    ∀ o', (asRO s i r).objs[i]? = some o' → o'.ro = true :=
  (invDX_asROf _ s i _ hA h (by omega)).2

end PMV.ReadOnly
