import PMV.Model.Algebra
import PMV.Lemmas.AlgebraMat3
import PMV.Lemmas.AlgebraMat3T
import Mathlib.Tactic.Ring
import Mathlib.Tactic.LinearCombination
/-
  C16 helper development: the polynomial relations of a 3×3 rotation matrix (rows and columns
  orthonormal, every entry equals its cofactor, determinant 1), derived from `M Mᵀ = 1` and `det M = 1`.
  They generate the ideal of SO(3); the round-trip theorems of Props/C16.lean are `linear_combination`s of
  them (certificates found by exact linear algebra with harness/c16_cert.py and re-checked here by the kernel).
-/
namespace PMV.Algebra
variable {K : Type} [CommRing K]

structure SO3 (m : Mat K) : Prop where
  r00 : m 0 0 * m 0 0 + m 0 1 * m 0 1 + m 0 2 * m 0 2 = 1
  r01 : m 0 0 * m 1 0 + m 0 1 * m 1 1 + m 0 2 * m 1 2 = 0
  r02 : m 0 0 * m 2 0 + m 0 1 * m 2 1 + m 0 2 * m 2 2 = 0
  r11 : m 1 0 * m 1 0 + m 1 1 * m 1 1 + m 1 2 * m 1 2 = 1
  r12 : m 1 0 * m 2 0 + m 1 1 * m 2 1 + m 1 2 * m 2 2 = 0
  r22 : m 2 0 * m 2 0 + m 2 1 * m 2 1 + m 2 2 * m 2 2 = 1
  c00 : m 0 0 * m 0 0 + m 1 0 * m 1 0 + m 2 0 * m 2 0 = 1
  c01 : m 0 0 * m 0 1 + m 1 0 * m 1 1 + m 2 0 * m 2 1 = 0
  c02 : m 0 0 * m 0 2 + m 1 0 * m 1 2 + m 2 0 * m 2 2 = 0
  c11 : m 0 1 * m 0 1 + m 1 1 * m 1 1 + m 2 1 * m 2 1 = 1
  c12 : m 0 1 * m 0 2 + m 1 1 * m 1 2 + m 2 1 * m 2 2 = 0
  c22 : m 0 2 * m 0 2 + m 1 2 * m 1 2 + m 2 2 * m 2 2 = 1
  f00 : m 1 1 * m 2 2 - m 1 2 * m 2 1 = m 0 0
  f01 : m 1 2 * m 2 0 - m 1 0 * m 2 2 = m 0 1
  f02 : m 1 0 * m 2 1 - m 1 1 * m 2 0 = m 0 2
  f10 : m 2 1 * m 0 2 - m 2 2 * m 0 1 = m 1 0
  f11 : m 2 2 * m 0 0 - m 2 0 * m 0 2 = m 1 1
  f12 : m 2 0 * m 0 1 - m 2 1 * m 0 0 = m 1 2
  f20 : m 0 1 * m 1 2 - m 0 2 * m 1 1 = m 2 0
  f21 : m 0 2 * m 1 0 - m 0 0 * m 1 2 = m 2 1
  f22 : m 0 0 * m 1 1 - m 0 1 * m 1 0 = m 2 2
  hdet : m 0 0 * (m 1 1 * m 2 2 - m 1 2 * m 2 1) + m 0 1 * (m 1 2 * m 2 0 - m 1 0 * m 2 2) + m 0 2 * (m 1 0 * m 2 1 - m 1 1 * m 2 0) = 1

theorem SO3.of {m : Mat K} (h : Orthonormal3 m) (hd : det3 m = 1) : SO3 m := by
  have ht := h.transpose
  have r00 := h 0 0 (by omega) (by omega)
  have c00 := ht 0 0 (by omega) (by omega)
  have r01 := h 0 1 (by omega) (by omega)
  have c01 := ht 0 1 (by omega) (by omega)
  have r02 := h 0 2 (by omega) (by omega)
  have c02 := ht 0 2 (by omega) (by omega)
  have r11 := h 1 1 (by omega) (by omega)
  have c11 := ht 1 1 (by omega) (by omega)
  have r12 := h 1 2 (by omega) (by omega)
  have c12 := ht 1 2 (by omega) (by omega)
  have r22 := h 2 2 (by omega) (by omega)
  have c22 := ht 2 2 (by omega) (by omega)
  simp [Mat.mul, Mat.T, sumRange, Mat.ident] at r00 r01 r02 r11 r12 r22 c00 c01 c02 c11 c12 c22
  simp only [det3] at hd
  refine ⟨by linear_combination r00, by linear_combination r01, by linear_combination r02, by linear_combination r11, by linear_combination r12, by linear_combination r22,
    by linear_combination c00, by linear_combination c01, by linear_combination c02, by linear_combination c11, by linear_combination c12, by linear_combination c22,
    ?_, ?_, ?_, ?_, ?_, ?_, ?_, ?_, ?_, by linear_combination hd⟩
  · linear_combination (m 1 2 * m 2 1 - m 1 1 * m 2 2) * r00 + (-m 0 2 * m 2 1 + m 0 1 * m 2 2) * r01 + (m 0 2 * m 1 1 - m 0 1 * m 1 2) * r02 + (m 0 0) * hd
  · linear_combination (-m 1 2 * m 2 0 + m 1 0 * m 2 2) * r00 + (m 0 2 * m 2 0 - m 0 0 * m 2 2) * r01 + (-m 0 2 * m 1 0 + m 0 0 * m 1 2) * r02 + (m 0 1) * hd
  · linear_combination (m 1 1 * m 2 0 - m 1 0 * m 2 1) * r00 + (-m 0 1 * m 2 0 + m 0 0 * m 2 1) * r01 + (m 0 1 * m 1 0 - m 0 0 * m 1 1) * r02 + (m 0 2) * hd
  · linear_combination (m 1 2 * m 2 1 - m 1 1 * m 2 2) * r01 + (-m 0 2 * m 2 1 + m 0 1 * m 2 2) * r11 + (m 0 2 * m 1 1 - m 0 1 * m 1 2) * r12 + (m 1 0) * hd
  · linear_combination (-m 1 2 * m 2 0 + m 1 0 * m 2 2) * r01 + (m 0 2 * m 2 0 - m 0 0 * m 2 2) * r11 + (-m 0 2 * m 1 0 + m 0 0 * m 1 2) * r12 + (m 1 1) * hd
  · linear_combination (m 1 1 * m 2 0 - m 1 0 * m 2 1) * r01 + (-m 0 1 * m 2 0 + m 0 0 * m 2 1) * r11 + (m 0 1 * m 1 0 - m 0 0 * m 1 1) * r12 + (m 1 2) * hd
  · linear_combination (m 1 2 * m 2 1 - m 1 1 * m 2 2) * r02 + (-m 0 2 * m 2 1 + m 0 1 * m 2 2) * r12 + (m 0 2 * m 1 1 - m 0 1 * m 1 2) * r22 + (m 2 0) * hd
  · linear_combination (-m 1 2 * m 2 0 + m 1 0 * m 2 2) * r02 + (m 0 2 * m 2 0 - m 0 0 * m 2 2) * r12 + (-m 0 2 * m 1 0 + m 0 0 * m 1 2) * r22 + (m 2 1) * hd
  · linear_combination (m 1 1 * m 2 0 - m 1 0 * m 2 1) * r02 + (-m 0 1 * m 2 0 + m 0 0 * m 2 1) * r12 + (m 0 1 * m 1 0 - m 0 0 * m 1 1) * r22 + (m 2 2) * hd

end PMV.Algebra
