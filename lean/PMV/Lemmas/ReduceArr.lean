import PMV.Model.Reduce
/-
  Index lemmas for C13: lanes of `Arr.reduce`.
   (A) every element of a lane (at a valid output index) is an element of the array;
   (B) an array of non-zero size has no empty lane;
   (C) an array of size zero has only empty lanes (at valid output indices).
  Core Lean only; by induction over the shape, no bound on rank or axis lengths.
-/
namespace PMV

/-- `keepAxes` / `dropAxes` with a starting position -/
def keepFrom {α} (axes : List Nat) (k : Nat) (l : List α) : List α :=
  ((l.zipIdx k).filter fun p => axes.contains p.2).map (·.1)
def dropFrom {α} (axes : List Nat) (k : Nat) (l : List α) : List α :=
  ((l.zipIdx k).filter fun p => !axes.contains p.2).map (·.1)

theorem keepAxes_eq {α} (axes : List Nat) (l : List α) : keepAxes axes l = keepFrom axes 0 l := rfl
theorem dropAxes_eq {α} (axes : List Nat) (l : List α) : dropAxes axes l = dropFrom axes 0 l := rfl

theorem keepFrom_cons {α} (axes : List Nat) (k : Nat) (n : α) (s : List α) :
    keepFrom axes k (n :: s) = if axes.contains k then n :: keepFrom axes (k + 1) s else keepFrom axes (k + 1) s := by
  unfold keepFrom
  rw [List.zipIdx_cons, List.filter_cons]
  cases axes.contains k <;> simp

theorem dropFrom_cons {α} (axes : List Nat) (k : Nat) (n : α) (s : List α) :
    dropFrom axes k (n :: s) = if axes.contains k then dropFrom axes (k + 1) s else n :: dropFrom axes (k + 1) s := by
  unfold dropFrom
  rw [List.zipIdx_cons, List.filter_cons]
  cases axes.contains k <;> simp

theorem size_cons (n : Nat) (s : Shape) : size (n :: s) = n * size s := rfl

theorem mem_indices_iff (s : Shape) (i : Index) : i ∈ indices s ↔ Valid s i := by
  induction s generalizing i with
  | nil =>
    cases i with
    | nil => simp [indices, Valid]
    | cons a i => simp [indices, Valid]
  | cons n s ih =>
    cases i with
    | nil => simp [indices, Valid]
    | cons a i =>
      simp only [indices, List.mem_flatMap, List.mem_range, List.mem_map, Valid]
      constructor
      · rintro ⟨j, hj, t, ht, e⟩
        injection e with e1 e2
        subst e1; subst e2
        exact ⟨hj, (ih t).1 ht⟩
      · rintro ⟨ha, hv⟩
        exact ⟨a, ha, i, (ih i).2 hv, rfl⟩

theorem indices_ne_nil (s : Shape) (h : size s ≠ 0) : indices s ≠ [] := by
  induction s with
  | nil => simp [indices]
  | cons n s ih =>
    rw [size_cons] at h
    have hn : n ≠ 0 := fun e => h (by simp [e])
    have hs : size s ≠ 0 := fun e => h (by simp [e])
    obtain ⟨t, ht⟩ := List.exists_mem_of_ne_nil _ (ih hs)
    intro e
    have : (0 :: t) ∈ indices (n :: s) := by
      simp only [indices, List.mem_flatMap, List.mem_range, List.mem_map]
      exact ⟨0, Nat.pos_of_ne_zero hn, t, ht, rfl⟩
    rw [e] at this; cases this

theorem indices_eq_nil (s : Shape) (h : size s = 0) : indices s = [] := by
  induction s with
  | nil => simp [size] at h
  | cons n s ih =>
    rw [size_cons] at h
    rcases Nat.mul_eq_zero.1 h with h | h
    · subst h; simp [indices]
    · simp [indices, ih h]

theorem size_keepFrom_ne_zero (axes : List Nat) (k : Nat) (s : Shape) (h : size s ≠ 0) :
    size (keepFrom axes k s) ≠ 0 := by
  induction s generalizing k with
  | nil => simp [keepFrom, size]
  | cons n s ih =>
    rw [size_cons] at h
    have hn : n ≠ 0 := fun e => h (by simp [e])
    have hs : size s ≠ 0 := fun e => h (by simp [e])
    rw [keepFrom_cons]
    split
    · rw [size_cons]; exact Nat.mul_ne_zero hn (ih (k + 1) hs)
    · exact ih (k + 1) hs

theorem size_keepFrom_eq_zero (axes : List Nat) (k : Nat) (s : Shape) (o : Index) (h : size s = 0)
    (ho : Valid (dropFrom axes k s) o) : size (keepFrom axes k s) = 0 := by
  induction s generalizing k o with
  | nil => simp [size] at h
  | cons n s ih =>
    rw [size_cons] at h
    rw [keepFrom_cons]
    rw [dropFrom_cons] at ho
    split
    · rename_i hc
      rw [if_pos hc] at ho
      rw [size_cons]
      rcases Nat.mul_eq_zero.1 h with h | h
      · simp [h]
      · simp [ih (k + 1) o h ho]
    · rename_i hc
      rw [if_neg hc] at ho
      cases o with
      | nil => simp [Valid] at ho
      | cons i o =>
        simp only [Valid] at ho
        rcases Nat.mul_eq_zero.1 h with h | h
        · omega
        · exact ih (k + 1) o h ho.2

theorem valid_mergeIdx (axes : List Nat) (s : Shape) (k : Nat) (o r : Index)
    (ho : Valid (dropFrom axes k s) o) (hr : Valid (keepFrom axes k s) r) :
    Valid s (mergeIdx axes s.length k o r) := by
  induction s generalizing k o r with
  | nil => simp [mergeIdx, Valid]
  | cons n s ih =>
    rw [dropFrom_cons] at ho
    rw [keepFrom_cons] at hr
    simp only [List.length_cons, mergeIdx]
    by_cases hc : axes.contains k = true
    · rw [if_pos hc] at ho hr ⊢
      cases r with
      | nil => simp [Valid] at hr
      | cons x r =>
        simp only [Valid] at hr ⊢
        exact ⟨hr.1, ih (k + 1) o r ho hr.2⟩
    · rw [if_neg hc] at ho hr ⊢
      cases o with
      | nil => simp [Valid] at ho
      | cons x o =>
        simp only [Valid] at ho ⊢
        exact ⟨ho.1, ih (k + 1) o r ho.2 hr⟩

/-- every position from `k` on is selected -/
def AllFrom (axes : List Nat) (k n : Nat) : Prop := ∀ j, k ≤ j → j < k + n → axes.contains j = true

theorem keepFrom_all {α} (axes : List Nat) (k : Nat) (s : List α) (h : AllFrom axes k s.length) :
    keepFrom axes k s = s := by
  induction s generalizing k with
  | nil => rfl
  | cons n s ih =>
    rw [keepFrom_cons, if_pos (h k (Nat.le_refl k) (by simp)), ih (k + 1)]
    intro j h1 h2; exact h j (by omega) (by simp; omega)

theorem dropFrom_all {α} (axes : List Nat) (k : Nat) (s : List α) (h : AllFrom axes k s.length) :
    dropFrom axes k s = [] := by
  induction s generalizing k with
  | nil => rfl
  | cons n s ih =>
    rw [dropFrom_cons, if_pos (h k (Nat.le_refl k) (by simp)), ih (k + 1)]
    intro j h1 h2; exact h j (by omega) (by simp; omega)

theorem mergeIdx_all (axes : List Nat) (s : Shape) (k : Nat) (o r : Index)
    (h : AllFrom axes k s.length) (hr : Valid s r) : mergeIdx axes s.length k o r = r := by
  induction s generalizing k r with
  | nil => cases r with
    | nil => rfl
    | cons x r => simp [Valid] at hr
  | cons n s ih =>
    cases r with
    | nil => simp [Valid] at hr
    | cons x r =>
      simp only [Valid] at hr
      simp only [List.length_cons, mergeIdx]
      rw [if_pos (h k (Nat.le_refl k) (by simp)), ih (k + 1) r _ hr.2]
      intro j h1 h2; exact h j (by omega) (by simp; omega)

theorem allFrom_range (n : Nat) : AllFrom (List.range n) 0 n := by
  intro j _ h2
  simp only [List.contains_eq_mem, List.mem_range, decide_eq_true_eq]
  omega

/-- (F) dropping the same positions from a valid index and from the shape -/
theorem valid_dropFrom (axes : List Nat) (k : Nat) (s : Shape) (i : Index) (h : Valid s i) :
    Valid (dropFrom axes k s) (dropFrom axes k i) := by
  induction s generalizing k i with
  | nil => cases i with
    | nil => simp [dropFrom, Valid]
    | cons x i => simp [Valid] at h
  | cons n s ih =>
    cases i with
    | nil => simp [Valid] at h
    | cons x i =>
      simp only [Valid] at h
      rw [dropFrom_cons, dropFrom_cons]
      split
      · exact ih (k + 1) i h.2
      · exact ⟨h.1, ih (k + 1) i h.2⟩

namespace Arr
variable {α : Type}

/-- (D) reducing over all axes: the one lane is the flattened array -/
theorem lane_all (a : Arr α) (o : Index) : a.lane (List.range a.shape.length) o = a.toList := by
  simp only [lane, toList]
  rw [keepAxes_eq, keepFrom_all _ _ _ (allFrom_range _)]
  apply List.map_congr_left
  intro r hr
  rw [mergeIdx_all _ _ _ _ _ (allFrom_range _) ((mem_indices_iff _ _).1 hr)]

theorem dropAxes_all (s : Shape) : dropAxes (List.range s.length) s = [] := by
  rw [dropAxes_eq]; exact dropFrom_all _ _ _ (allFrom_range _)

/-- (E) a shape-() object has the single lane `[a.get []]` -/
theorem lane_scalar (a : Arr α) (axes : List Nat) (o : Index) (h : a.shape = []) :
    a.lane axes o = [a.get []] := by
  simp [lane, h, keepAxes, indices, mergeIdx]

theorem toList_scalar (a : Arr α) (h : a.shape = []) : a.toList = [a.get []] := by
  simp [toList, h, indices]

/-- (A) -/
theorem lane_subset (a : Arr α) (axes : List Nat) (o : Index) (ho : Valid (dropAxes axes a.shape) o) :
    ∀ x ∈ a.lane axes o, x ∈ a.toList := by
  intro x hx
  simp only [lane, List.mem_map] at hx
  obtain ⟨r, hr, rfl⟩ := hx
  simp only [toList, List.mem_map]
  refine ⟨_, ?_, rfl⟩
  rw [mem_indices_iff]
  rw [mem_indices_iff, keepAxes_eq] at hr
  rw [dropAxes_eq] at ho
  exact valid_mergeIdx axes a.shape 0 o r ho hr

/-- (B) -/
theorem lane_ne_nil (a : Arr α) (axes : List Nat) (o : Index) (h : size a.shape ≠ 0) :
    a.lane axes o ≠ [] := by
  simp only [lane, ne_eq, List.map_eq_nil_iff]
  rw [keepAxes_eq]
  exact indices_ne_nil _ (size_keepFrom_ne_zero axes 0 a.shape h)

/-- (C) -/
theorem lane_eq_nil (a : Arr α) (axes : List Nat) (o : Index) (h : size a.shape = 0)
    (ho : Valid (dropAxes axes a.shape) o) : a.lane axes o = [] := by
  simp only [lane, List.map_eq_nil_iff]
  rw [keepAxes_eq]
  rw [dropAxes_eq] at ho
  exact indices_eq_nil _ (size_keepFrom_eq_zero axes 0 a.shape o h ho)

end Arr
end PMV
