import PMV.Lemmas.GatherUn
namespace PMV.Shrink
open PMV
set_option linter.unusedSectionVars false
variable {K : Type} [Inhabited K]

theorem bcastRev_prefix : ∀ (s t : List Nat), bcastRev s (s ++ t) = some (s ++ t)
  | [], t => by simp [bcastRev]
  | n :: s, t => by simp [bcastRev_cons_same, bcastRev_prefix s t]

theorem bcast_suffix (A pre : Shape) : bcast A (pre ++ A) = some (pre ++ A) := by
  simp [bcast, bcastRev_prefix]

theorem maxShape_self : ∀ (s : Shape), maxShape s s = s
  | [] => rfl
  | n :: s => by simp [maxShape, maxShape_self s]

/-- an operand whose trailing axes are exactly the antimask's needs no reconciliation -/
theorem reconcile_aligned (a : Arr Bool) (x : Q K) (pre : Shape) (hx : x.obj.shape = pre ++ a.shape) :
    reconcile a x = some (pre.length, a, x) := by
  unfold reconcile
  have h1 : ¬ (pre.length + a.shape.length < a.shape.length) := by omega
  simp only [hx, List.length_append, h1, ↓reduceIte, Nat.add_sub_cancel, List.take_left',
    List.drop_left', maxShape_self, ne_eq, not_true_eq_false]

theorem shrink_spec_aligned (df : Dflt K) (cfg : Cfg) (am : Arr Bool) (x x' : Q K) (pre gpre : Shape)
    (hdis : cfg.disable = false) (hder : x.derivs = [])
    (hx : x.obj.shape = pre ++ am.shape) (hG : bcast pre gpre = some gpre)
    (h : shrink df cfg (.arr am) x = some x') :
    ∀ p a, a ∈ trues am → Valid gpre p →
      Cell.Same (x'.cellB (p ++ [rnk am a])) (x.cellB (p ++ a)) := by
  intro p a ha hp
  have hva := (mem_trues ha).1
  have hga := (mem_trues ha).2
  have hla := trues_length ha
  have hvp : Valid pre (bidx pre p) := valid_bidx _ _ _ hG hp
  have hi : Valid (pre ++ am.shape) (bidx pre p ++ a) := valid_append _ _ _ _ hvp hva
  have hxB : x.cellB (p ++ a) = x.cellAt (bidx pre p ++ a) := by
    simp only [Q.cellB, hx, bidx_append _ _ _ _ hla, bidx_valid _ _ hva]
  unfold shrink shrinkG at h
  simp only [hdis, Bool.false_eq_true, ↓reduceIte] at h
  split at h
  · cases h
  · -- fully masked on the antimask: the stand-in
    next hg =>
    cases h
    refine Cell.Same.of_masked rfl ?_
    rw [hxB]
    simp only [gone?] at hg
    simp only [Q.cellAt, Obj.maskAt]
    cases hr : x.obj.rep <;> simp only [hr] at hg ⊢
    · simp only [Option.some.injEq, Bool.not_eq_eq_eq_not, Bool.not_true] at hg
      have := anyOver_of_mem (p := am.get) hva hga
      simp [this] at hg
    · simp only [hx, bcast_suffix, Option.map_some, Option.some.injEq, Bool.not_eq_eq_eq_not,
        Bool.not_true] at hg
      have hne : ¬ ((fun i => am.get (bidx am.shape i) && x.obj.antiAt (bidx (pre ++ am.shape) i))
          (bidx pre p ++ a) = true) := fun e => by
        have := anyOver_of_mem (p := fun i => am.get (bidx am.shape i) &&
          x.obj.antiAt (bidx (pre ++ am.shape) i)) hi e
        simp [this] at hg
      simp only [bidx_short am.shape _ a (by omega), bidx_valid _ _ hva, hga, bidx_valid _ _ hi,
        Bool.true_and, Obj.antiAt, Obj.maskAt, hr, Bool.not_eq_true', Bool.not_eq_false] at hne
      exact hne
  · next hg =>
    split at h
    · -- shapeless pass-through
      next hs0 =>
      cases h
      simp only [Q.cellB, hs0, bidx, List.reverse_nil, bidxRev_nil_left]
      exact ⟨rfl, fun _ => ⟨rfl, fun _ => rfl⟩⟩
    · rw [reconcile_aligned am x pre hx] at h
      unfold finishShrink at h
      simp only [hder, mapM'] at h
      have hk := rnk_lt ha
      have hi' : Valid (pre ++ [count am]) (bidx pre p ++ [rnk am a]) :=
        valid_append _ _ _ _ hvp ⟨hk, trivial⟩
      have hsh : List.take pre.length x.obj.shape = pre := by simp [hx]
      rw [hxB]
      cases hr : x.obj.rep <;> simp only [hr] at h
      · simp [gone?, hr] at hg
      · -- scalar mask False: the gathered mask is all False
        split at h
        · next hall =>
          exfalso
          simp only [npGather, Arr.const] at hall
          have := allOver_at hall (i := [rnk am a]) (by simpa using ⟨hk, trivial⟩)
          simp at this
        · cases h
          simp only [Q.cellB, npGather, hsh, bidx_singleton _ _ _ _ hk]
          simp only [Q.cellAt, hder, lookupD, List.dropLast_concat, List.getLastD_concat, sel_rnk ha]
          refine ⟨?_, fun _ => ⟨rfl, fun _ => rfl⟩⟩
          simp only [Obj.maskAt, hr, Arr.const]
          simp only [List.take_zero, List.nil_append]
          by_cases hb : (anyOver [count am] fun _ => false) = true <;> simp only [hb] <;> rfl
      · -- array mask
        have hm : (npGather pre.length am ⟨x.obj.shape, x.obj.mbits⟩).get (bidx pre p ++ [rnk am a])
            = x.obj.maskAt (bidx pre p ++ a) := by
          simp [npGather, Obj.maskAt, hr, sel_rnk ha]
        have hv : Valid (npGather pre.length am ⟨x.obj.shape, x.obj.mbits⟩).shape
            (bidx pre p ++ [rnk am a]) := by simpa [npGather, hsh] using hi'
        split at h
        · next hall =>
          cases h
          refine Cell.Same.of_masked rfl ?_
          simp only [Q.cellAt]
          rw [← hm]; exact allOver_at hall hv
        · cases h
          simp only [Q.cellB, npGather, hsh, bidx_singleton _ _ _ _ hk]
          simp only [Q.cellAt, hder, lookupD, List.dropLast_concat, List.getLastD_concat, sel_rnk ha]
          refine ⟨?_, fun _ => ⟨rfl, fun _ => rfl⟩⟩
          have hm2 : x.obj.mbits (bidx pre p ++ a) = x.obj.maskAt (bidx pre p ++ a) := by
            simp [Obj.maskAt, hr]
          simp only [npGather, hsh] at hm hv
          by_cases hany : anyOver (pre ++ [count am])
              (fun i => x.obj.mbits (List.dropLast i ++ sel am (List.getLastD i 0))) = true
          · simp only [Obj.maskAt, hany, ↓reduceIte, hr, List.dropLast_concat, List.getLastD_concat,
              sel_rnk ha]
          · simp only [Obj.maskAt, hany, ↓reduceIte, hr]
            cases hc : x.obj.mbits (bidx pre p ++ a) with
            | false => rfl
            | true =>
              exfalso; apply hany
              exact anyOver_of_mem (p := fun i => x.obj.mbits (List.dropLast i ++ sel am (List.getLastD i 0)))
                hv (by simpa [sel_rnk ha] using hc)
theorem keys_maskedSingle (df : Dflt K) (x : Q K) : (x.maskedSingle df).keys = x.keys := by
  simp [Q.keys, Q.maskedSingle, List.map_map, Function.comp_def]

/-- `shrink` keeps the class and (here: the empty set of) derivative keys -/
theorem shrink_keys_cls (df : Dflt K) (cfg : Cfg) (am : Arr Bool) (x x' : Q K) (pre : Shape)
    (hdis : cfg.disable = false) (hder : x.derivs = [])
    (hx : x.obj.shape = pre ++ am.shape)
    (h : shrink df cfg (.arr am) x = some x') : x'.keys = x.keys ∧ x'.cls = x.cls := by
  unfold shrink shrinkG at h
  simp only [hdis, Bool.false_eq_true, ↓reduceIte] at h
  split at h
  · cases h
  · cases h; exact ⟨keys_maskedSingle df x, rfl⟩
  · split at h
    · cases h; exact ⟨rfl, rfl⟩
    · rw [reconcile_aligned am x pre hx] at h
      unfold finishShrink at h
      simp only [hder, mapM'] at h
      cases hr : x.obj.rep <;> simp only [hr] at h <;> split at h <;> cases h <;>
        first
        | exact ⟨by simp [Q.keys, Q.maskedSingle, hder], rfl⟩
        | exact ⟨by simp [Q.keys, hder], rfl⟩

end PMV.Shrink
