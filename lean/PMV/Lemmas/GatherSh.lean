import PMV.Lemmas.GatherUn
/-
  The code-shaped `shrink` (array antimask, shrinking enabled), for every operand shape that
  broadcasts into the grid `gpre ++ antimask.shape` (fewer axes than the antimask, unit axes,
  leading axes) and with derivatives: the returned object stands for the operand on the
  antimask.  Core Lean only.
-/
namespace PMV.Shrink
open PMV
set_option linter.unusedSectionVars false
variable {K : Type} [Inhabited K]

/-! ### shapes -/

theorem bcastRev_prefix : ∀ (s t : List Nat), bcastRev s (s ++ t) = some (s ++ t)
  | [], t => by simp [bcastRev]
  | n :: s, t => by simp [bcastRev_cons_same, bcastRev_prefix s t]

theorem bcast_suffix (A pre : Shape) : bcast A (pre ++ A) = some (pre ++ A) := by
  simp [bcast, bcastRev_prefix]

theorem maxShape_self : ∀ (s : Shape), maxShape s s = s
  | [] => rfl
  | n :: s => by simp [maxShape, maxShape_self s]

theorem valid_pos : ∀ (s : Shape) (i : Index), Valid s i → ∀ n ∈ s, 0 < n
  | [], [], _, n, hn => by simp at hn
  | [], _ :: _, h, _, _ => by simp [Valid] at h
  | _ :: _, [], h, _, _ => by simp [Valid] at h
  | m :: s, i :: is, h, n, hn => by
    simp only [List.mem_cons] at hn
    rcases hn with e | hn
    · subst e; exact Nat.lt_of_le_of_lt (Nat.zero_le _) h.1
    · exact valid_pos s is h.2 n hn

/-- splitting a fit `s ++ t` into `g ++ u` with `|t| = |u|` -/
theorem fit_split (s t g u : Shape) (h : t.length = u.length)
    (hf : bcast (s ++ t) (g ++ u) = some (g ++ u)) : bcast s g = some g ∧ bcast t u = some u := by
  rw [PMV.bcast_append _ _ _ _ h] at hf
  cases h1 : bcast s g <;> simp only [h1] at hf
  · cases hf
  · next l =>
    cases h2 : bcast t u <;> simp only [h2] at hf
    · cases hf
    · next m =>
      have hm : m.length = u.length := by
        have := PMV.bcast_length h2; omega
      have := List.append_inj' (Option.some.inj hf) hm
      exact ⟨by rw [this.1], by rw [this.2]⟩

theorem fit_join (s t g u : Shape) (h : t.length = u.length)
    (h1 : bcast s g = some g) (h2 : bcast t u = some u) : bcast (s ++ t) (g ++ u) = some (g ++ u) := by
  rw [PMV.bcast_append _ _ _ _ h, h1, h2]

/-- on axes of equal rank a shape that broadcasts into `A` without changing it is below `A` -/
theorem maxShape_fit : ∀ (t A : Shape), t.length = A.length → bcast t A = some A →
    (∀ n ∈ A, 0 < n) → maxShape t A = A
  | [], [], _, _, _ => rfl
  | [], _ :: _, h, _, _ => by simp at h
  | _ :: _, [], h, _, _ => by simp at h
  | x :: t, y :: A, h, hf, hp => by
    have hl : t.length = A.length := by simpa using h
    have := fit_split [x] t [y] A hl (by simpa using hf)
    have ih := maxShape_fit t A hl this.2 (fun n hn => hp n (by simp [hn]))
    have hy : 0 < y := hp y (by simp)
    have hxy : max x y = y := by
      have h1 := this.1
      simp only [bcast, List.reverse_cons, List.reverse_nil, List.nil_append, bcastRev] at h1
      split at h1
      · next e => subst e; simp
      · split at h1
        · next e => subst e; omega
        · split at h1
          · next e1 e2 e3 => simp at h1; omega
          · simp at h1
    simp [maxShape, ih, hxy]

/-- the broadcast of two shapes that fit a grid fits the grid -/
theorem fit_bcast (a b g G : Shape) (hab : bcast a b = some g) (ha : bcast a G = some G)
    (hb : bcast b G = some G) : bcast g G = some G := by
  have := PMV.bcast_assoc a b G
  simp [hab, hb, ha] at this
  exact this

/-! ### rank reconciliation -/

theorem reconcile_spec (am : Arr Bool) (x : Q K) (gpre : Shape) (extras : Nat) (a2 : Arr Bool) (x2 : Q K)
    (hwf : x.WF) (hfit : bcast x.obj.shape (gpre ++ am.shape) = some (gpre ++ am.shape))
    (hpos : ∀ n ∈ am.shape, 0 < n)
    (h : reconcile am x = some (extras, a2, x2)) :
    ∃ pre, a2 = am ∧ extras = pre.length ∧ x2.obj.shape = pre ++ am.shape ∧
      bcast pre gpre = some gpre ∧ x2.WF ∧ x2.keys = x.keys ∧ x2.cls = x.cls ∧ x2.obj.rep = x.obj.rep ∧
      ∀ j, x2.cellB j = x.cellB j := by
  unfold reconcile at h
  -- first broadcast
  have step1 : ∃ x1, (if x.obj.shape.length < am.shape.length then x.bto am.shape else some x) = some x1 ∧
      am.shape.length ≤ x1.obj.shape.length ∧
      bcast x1.obj.shape (gpre ++ am.shape) = some (gpre ++ am.shape) ∧ x1.WF ∧ x1.keys = x.keys ∧
      x1.cls = x.cls ∧ x1.obj.rep = x.obj.rep ∧ ∀ j, x1.cellB j = x.cellB j := by
    by_cases hlt : x.obj.shape.length < am.shape.length
    · simp only [hlt, ↓reduceIte]
      cases hb : x.bto am.shape with
      | none => simp [hlt, hb] at h
      | some x1 =>
        obtain ⟨hs, hw, hk, hc, _, hcell⟩ := Q.bto_spec _ _ _ hwf hb
        exact ⟨x1, rfl, by rw [hs]; exact Nat.le_refl _, by rw [hs]; exact bcast_suffix _ _, hw, hk, hc,
          Q.bto_rep _ _ _ hb, hcell⟩
    · simp only [hlt, ↓reduceIte]
      exact ⟨x, rfl, by omega, hfit, hwf, rfl, rfl, rfl, fun _ => rfl⟩
  obtain ⟨x1, he1, hrank, hfit1, hwf1, hk1, hc1, hr1, hcell1⟩ := step1
  simp only [he1] at h
  -- split the shape of x1
  generalize hex : x1.obj.shape.length - am.shape.length = ex at h
  have hsplit : x1.obj.shape = x1.obj.shape.take ex ++ x1.obj.shape.drop ex := (List.take_append_drop _ _).symm
  have hlen : (x1.obj.shape.drop ex).length = am.shape.length := by simp; omega
  have hf := fit_split _ _ _ _ hlen (by rw [← hsplit]; exact hfit1)
  have hmax := maxShape_fit _ _ hlen hf.2 hpos
  simp only [hmax, ← hsplit, ne_eq, not_true_eq_false, ↓reduceIte] at h
  have hfin : maxShape (x1.obj.shape.drop ex) am.shape = am.shape := hmax
  -- the after part broadcasts to the antimask's shape
  by_cases hsame : x1.obj.shape = x1.obj.shape.take ex ++ am.shape
  · simp only [hsame.symm, not_true_eq_false, ↓reduceIte, Option.some.injEq, Prod.mk.injEq] at h
    obtain ⟨h1, h2, h3⟩ := h
    subst h1 h2 h3
    refine ⟨x1.obj.shape.take ex, rfl, ?_, hsame, hf.1, hwf1, hk1, hc1, hr1, hcell1⟩
    simp; omega
  · simp only [hsame, not_false_eq_true, ↓reduceIte] at h
    cases hb : x1.bto (x1.obj.shape.take ex ++ am.shape) with
    | none => simp [hb] at h
    | some x2' =>
      simp only [hb, Option.some.injEq, Prod.mk.injEq] at h
      obtain ⟨h1, h2, h3⟩ := h
      subst h1 h2 h3
      obtain ⟨hs, hw, hk, hc, _, hcell⟩ := Q.bto_spec _ _ _ hwf1 hb
      refine ⟨x1.obj.shape.take ex, rfl, ?_, hs, hf.1, hw, hk.trans hk1, hc.trans hc1,
        (Q.bto_rep _ _ _ hb).trans hr1, fun j => (hcell j).trans (hcell1 j)⟩
      simp; omega

/-! ### the fully-masked test -/

/-- if `gone?` answers True, every element the antimask selects is masked -/
theorem gone_masked (am : Arr Bool) (x : Q K) (gpre : Shape)
    (hfit : bcast x.obj.shape (gpre ++ am.shape) = some (gpre ++ am.shape))
    (hg : gone? am x.obj = some true) (p a : Index) (ha : a ∈ trues am) (hp : Valid gpre p) :
    (x.cellB (p ++ a)).m = true := by
  have hva := (mem_trues ha).1
  have hga := (mem_trues ha).2
  have hla := trues_length ha
  simp only [gone?] at hg
  simp only [Q.cellB, Q.cellAt, Obj.maskAt]
  cases hr : x.obj.rep <;> simp only [hr] at hg ⊢
  · simp only [Option.some.injEq, Bool.not_eq_eq_eq_not, Bool.not_true] at hg
    rw [anyOver_of_mem (p := am.get) hva hga] at hg; cases hg
  · cases hb : bcast am.shape x.obj.shape <;> simp only [hb, Option.map_none, Option.map_some] at hg
    · cases hg
    · next g =>
      simp only [Option.some.injEq, Bool.not_eq_eq_eq_not, Bool.not_true] at hg
      have hgG : bcast g (gpre ++ am.shape) = some (gpre ++ am.shape) :=
        fit_bcast _ _ _ _ hb (bcast_suffix _ _) hfit
      have hvi : Valid g (bidx g (p ++ a)) := valid_bidx _ _ _ hgG (valid_append _ _ _ _ hp hva)
      have := anyOver_false_at hg hvi
      simp only [bidx_comp_left _ _ _ _ hb, bidx_comp_right _ _ _ _ hb,
        bidx_short am.shape p a (by omega), bidx_valid _ _ hva, hga, Bool.true_and, Obj.antiAt,
        Obj.maskAt, hr, Bool.not_eq_false'] at this
      exact this

/-! ### gathering an aligned operand -/

/-- shapes a shrunken operand can have: `()` or the kept leading axes plus the gathered axis -/
def ShrFits (am : Arr Bool) (gpre : Shape) (s : Shape) : Prop :=
  bcast s (gpre ++ [count am]) = some (gpre ++ [count am])

theorem shrFits_nil (am : Arr Bool) (gpre : Shape) : ShrFits am gpre [] := PMV.bcast_nil_left _

theorem shrFits_snoc (am : Arr Bool) (gpre pre : Shape) (h : bcast pre gpre = some gpre) :
    ShrFits am gpre (pre ++ [count am]) :=
  fit_join _ _ _ _ rfl h (PMV.bcast_self _)

/-- the cache entry written by `shrink` refers to (a broadcast view of) the operand -/
def BackOK (x' x : Q K) : Prop :=
  (∀ o ds, x'.back = .to o ds →
    (∀ k d, lookupD ds k = some d → d.shape = o.shape) ∧
    ∀ j, pcellAt o ds (bidx o.shape j) = x.cellB j) ∧
  (x'.obj.shape ≠ [] → ∃ o ds, x'.back = .to o ds)

theorem plain_wf (x : Q K) (hwf : x.WF) : ∀ k d, lookupD x.plainDerivs k = some d → d.shape = x.obj.shape := by
  intro k d hk
  simp only [Q.plainDerivs, lookupD_mapVals] at hk
  cases hx : lookupD x.derivs k <;> simp only [hx, Option.map_none, Option.map_some] at hk
  · cases hk
  · cases hk; exact hwf k _ hx

theorem plain_cellB (x : Q K) (j : Index) : pcellAt x.obj x.plainDerivs (bidx x.obj.shape j) = x.cellB j :=
  (cellAt_plain x _).symm

theorem finish_spec (df : Dflt K) (recur : Arr Bool → DObj K → Option (DObj K)) (am : Arr Bool)
    (x2 x' : Q K) (pre gpre : Shape)
    (hx : x2.obj.shape = pre ++ am.shape) (hG : bcast pre gpre = some gpre) (hwf : x2.WF)
    (hrep : x2.obj.rep ≠ .allT)
    (hrec : ∀ k d d', lookupD x2.derivs k = some d → recur am d = some d' →
      ∀ p a, a ∈ trues am → Valid gpre p →
        (d'.obj.dcellAt (bidx d'.obj.shape (p ++ [rnk am a]))).obs
          = (d.obj.dcellAt (bidx d.obj.shape (p ++ a))).obs)
    (h : finishShrink df recur pre.length am x2 = some x') :
    (x'.keys = x2.keys ∧ x'.cls = x2.cls ∧ x'.WF ∧ ShrFits am gpre x'.obj.shape ∧ BackOK x' x2) ∧
    ∀ p a, a ∈ trues am → Valid gpre p →
      Cell.Same (x'.cellB (p ++ [rnk am a])) (x2.cellB (p ++ a)) := by
  have hbk : ∀ (y : Q K), y.back = .to x2.obj x2.plainDerivs → BackOK y x2 := by
    intro y hy
    refine ⟨fun o ds e => ?_, fun _ => ⟨_, _, hy⟩⟩
    rw [hy] at e; cases e
    exact ⟨plain_wf x2 hwf, plain_cellB x2⟩
  simp only [finishShrink] at h
  have hsh : List.take pre.length x2.obj.shape = pre := by simp [hx]
  -- the gathered mask agrees with the operand's mask at corresponding positions
  generalize hgm : gatherMask pre.length am x2.obj = gm at h
  unfold gatherMask at hgm
  have hgm_at : ∀ q a, a ∈ trues am → gm.get (q ++ [rnk am a]) = x2.obj.maskAt (q ++ a) := by
    intro q a ha
    subst hgm
    cases hr : x2.obj.rep
    · exact absurd hr hrep
    · simp [npGather, Arr.const, Obj.maskAt, hr]
    · simp [npGather, Obj.maskAt, hr, sel_rnk ha]
  have hgm_valid : ∀ q a, a ∈ trues am → Valid pre q → Valid gm.shape (q ++ [rnk am a]) ∨ x2.obj.rep = .allF := by
    intro q a ha hq
    subst hgm
    cases hr : x2.obj.rep
    · exact absurd hr hrep
    · exact Or.inr rfl
    · left
      simp only [npGather, hsh]
      exact valid_append _ _ _ _ hq ⟨rnk_lt ha, trivial⟩
  have hcellB : ∀ p a, a ∈ trues am → x2.cellB (p ++ a) = x2.cellAt (bidx pre p ++ a) := by
    intro p a ha
    simp only [Q.cellB, hx, bidx_append _ _ _ _ (trues_length ha), bidx_valid _ _ (mem_trues ha).1]
  split at h
  · -- the gathered mask is all True: the stand-in
    next hall =>
    cases h
    refine ⟨⟨keys_maskedSingle df x2, rfl, maskedSingle_wf df x2, shrFits_nil am gpre, hbk _ rfl⟩, ?_⟩
    intro p a ha hp
    refine Cell.Same.of_masked rfl ?_
    rw [hcellB p a ha]
    simp only [Q.cellAt]
    have hvp : Valid pre (bidx pre p) := valid_bidx _ _ _ hG hp
    rw [← hgm_at _ a ha]
    rcases hgm_valid _ a ha hvp with hv | hr
    · exact allOver_at hall hv
    · exfalso
      subst hgm
      simp only [hr, npGather, Arr.const] at hall
      have := allOver_at hall (i := [rnk am a]) (by simpa using ⟨rnk_lt ha, trivial⟩)
      simp at this
  · next hall =>
    cases hmd : mapDerivs (fun (d : DObj K) => (recur am d).bind (insertDeriv
        (npGather pre.length am ⟨x2.obj.shape, x2.obj.vals⟩).shape)) x2.derivs <;> simp only [hmd] at h
    · cases h
    · next ds =>
      cases h
      have hshape : (npGather pre.length am ⟨x2.obj.shape, x2.obj.vals⟩).shape = pre ++ [count am] := by
        simp [npGather, hsh]
      refine ⟨⟨?_, rfl, ?_, ?_, hbk _ rfl⟩, ?_⟩
      · simp only [Q.keys]; exact keys_mapDerivs _ _ _ hmd
      · intro k d hk
        have hl := lookupD_mapDerivs _ _ _ hmd k
        rw [hl] at hk
        cases hx0 : lookupD x2.derivs k <;> simp only [hx0, Option.bind_none, Option.bind_some] at hk
        · cases hk
        · next d0 =>
          cases hr : recur am d0 <;> simp only [hr, Option.bind_none, Option.bind_some] at hk
          · cases hk
          · exact (insertDeriv_spec _ _ _ hk).1
      · show ShrFits am gpre (npGather pre.length am ⟨x2.obj.shape, x2.obj.vals⟩).shape
        rw [hshape]; exact shrFits_snoc am gpre pre hG
      · intro p a ha hp
        have hk := rnk_lt ha
        have hvp : Valid pre (bidx pre p) := valid_bidx _ _ _ hG hp
        rw [hcellB p a ha]
        simp only [Q.cellB, hshape, bidx_singleton _ _ _ _ hk]
        apply same_of_parts
        · -- values and mask bit
          simp only [Obj.dcellAt, npGather, List.dropLast_concat, List.getLastD_concat, sel_rnk ha]
          congr 1
          rw [← hgm_at _ a ha]
          simp only [Obj.maskAt]
          by_cases hany : anyOver gm.shape gm.get = true
          · simp only [hany, ↓reduceIte]
          · simp only [hany]
            have hf : gm.get (bidx pre p ++ [rnk am a]) = false := by
              rcases hgm_valid _ a ha hvp with hv | hr
              · cases hc : gm.get (bidx pre p ++ [rnk am a]) with
                | false => rfl
                | true => exact absurd (anyOver_of_mem hv hc) hany
              · rw [hgm_at _ a ha]; simp [Obj.maskAt, hr]
            rw [hf]; rfl
        · -- derivatives
          intro k
          simp only [derivAt]
          cases hx0 : lookupD x2.derivs k with
          | none => rw [lookupD_mapDerivs_none _ _ _ hmd k hx0]
          | some d0 =>
            obtain ⟨d2, hg, hl2⟩ := lookupD_mapDerivs_some _ _ _ hmd k d0 hx0
            rw [hl2]
            cases hr : recur am d0 <;> simp only [hr, Option.bind_none, Option.bind_some] at hg
            · cases hg
            · next d' =>
              have hd0 : d0.obj.shape = pre ++ am.shape := (hwf k d0 hx0).trans hx
              have := hrec k d0 d' hx0 hr p a ha hp
              rw [hd0, bidx_append _ _ _ _ (trues_length ha), bidx_valid _ _ (mem_trues ha).1] at this
              rw [← this, ← bidx_singleton _ _ _ _ hk, ← hshape]
              exact congrArg DCell.obs ((insertDeriv_spec _ _ _ hg).2 (p ++ [rnk am a]))

/-! ### shrink -/

theorem anyOver_exists {s : Shape} {p : Index → Bool} (h : anyOver s p = true) :
    ∃ i, Valid s i ∧ p i = true := by
  simp only [anyOver, List.any_eq_true] at h
  obtain ⟨i, hi, hp⟩ := h
  exact ⟨i, mem_indices_valid _ _ hi, hp⟩

/-- if the fully-masked test answers False, the antimask has no zero-length axis -/
theorem gone_false_pos (am : Arr Bool) (o : Obj K) (hg : gone? am o = some false) :
    ∀ n ∈ am.shape, 0 < n := by
  simp only [gone?] at hg
  cases hr : o.rep <;> simp only [hr] at hg
  · cases hg
  · simp only [Option.some.injEq, Bool.not_eq_eq_eq_not, Bool.not_false] at hg
    obtain ⟨i, hi, _⟩ := anyOver_exists hg
    exact valid_pos _ _ hi
  · cases hb : bcast am.shape o.shape <;> simp only [hb, Option.map_none, Option.map_some] at hg
    · cases hg
    · next g =>
      simp only [Option.some.injEq, Bool.not_eq_eq_eq_not, Bool.not_false] at hg
      obtain ⟨i, hi, _⟩ := anyOver_exists hg
      have hfit : bcast am.shape g = some g := by
        have := PMV.bcast_assoc am.shape am.shape o.shape
        simp [PMV.bcast_self, hb] at this
        exact this.symm
      exact valid_pos _ _ (valid_bidx _ _ _ hfit hi)

/-- the contract of the function `shrink` uses for the derivatives -/
def DSpec (am : Arr Bool) (gpre : Shape) (recur : Arr Bool → DObj K → Option (DObj K)) : Prop :=
  ∀ d d' pre, recur am d = some d' → d.obj.shape = pre ++ am.shape → bcast pre gpre = some gpre →
    ∀ p a, a ∈ trues am → Valid gpre p →
      (d'.obj.dcellAt (bidx d'.obj.shape (p ++ [rnk am a]))).obs
        = (d.obj.dcellAt (bidx d.obj.shape (p ++ a))).obs

theorem shrinkG_spec (df : Dflt K) (recur : Arr Bool → DObj K → Option (DObj K)) (cfg : Cfg)
    (am : Arr Bool) (x x' : Q K) (gpre : Shape)
    (hdis : cfg.disable = false) (hwf : x.WF)
    (hfit : bcast x.obj.shape (gpre ++ am.shape) = some (gpre ++ am.shape))
    (hrec : DSpec am gpre recur)
    (h : shrinkG df recur cfg (.arr am) x = some x') :
    (x'.keys = x.keys ∧ x'.cls = x.cls ∧ x'.WF ∧ ShrFits am gpre x'.obj.shape ∧ BackOK x' x) ∧
    ∀ p a, a ∈ trues am → Valid gpre p →
      Cell.Same (x'.cellB (p ++ [rnk am a])) (x.cellB (p ++ a)) := by
  unfold shrinkG at h
  simp only [hdis, Bool.false_eq_true, ↓reduceIte] at h
  split at h
  · cases h
  · next hg =>
    cases h
    refine ⟨⟨keys_maskedSingle df x, rfl, maskedSingle_wf df x, shrFits_nil am gpre, ?_⟩, ?_⟩
    · refine ⟨fun o ds e => ?_, fun hne => absurd rfl hne⟩
      by_cases hdc : cfg.disableCache = true
      · simp [hdc] at e
      · simp only [hdc, Bool.false_eq_true, ↓reduceIte, Back.to.injEq] at e
        obtain ⟨rfl, rfl⟩ := e
        exact ⟨plain_wf x hwf, plain_cellB x⟩
    intro p a ha hp
    exact Cell.Same.of_masked rfl (gone_masked am x gpre hfit hg p a ha hp)
  · next hg =>
    split at h
    · next hs0 =>
      cases h
      refine ⟨⟨rfl, rfl, hwf, ?_, ?_⟩, ?_⟩
      · show ShrFits am gpre x.obj.shape
        rw [hs0]; exact shrFits_nil am gpre
      · exact ⟨fun o ds e => (nomatch e), fun hne => absurd hs0 hne⟩
      · intro p a _ _
        simp only [Q.cellB, hs0, bidx, List.reverse_nil, bidxRev_nil_left]
        exact ⟨rfl, fun _ => ⟨rfl, fun _ => rfl⟩⟩
    · cases hrc : reconcile am x <;> simp only [hrc] at h
      · cases h
      · next r =>
        obtain ⟨extras, a2, x2⟩ := r
        obtain ⟨pre, rfl, rfl, hx2, hG, hwf2, hk2, hc2, hr2, hcell⟩ :=
          reconcile_spec am x gpre extras a2 x2 hwf hfit (gone_false_pos am x.obj hg) hrc
        have hrep : x2.obj.rep ≠ .allT := by
          rw [hr2]; intro e; simp [gone?, e] at hg
        obtain ⟨⟨hk, hc, hw, hf, hb1, hb2⟩, hsame⟩ := finish_spec df recur a2 x2 x' pre gpre hx2 hG hwf2 hrep
          (fun k d d' hk hr p a ha hp => hrec d d' pre hr ((hwf2 k d hk).trans hx2) hG p a ha hp) h
        refine ⟨⟨hk.trans hk2, hc.trans hc2, hw, hf,
          fun o ds e => ⟨(hb1 o ds e).1, fun j => ((hb1 o ds e).2 j).trans (hcell j)⟩, hb2⟩, ?_⟩
        intro p a ha hp
        rw [← hcell]; exact hsame p a ha hp

theorem dspec_none (am : Arr Bool) (gpre : Shape) : DSpec (K := K) am gpre (fun _ _ => none) := by
  intro d d' pre h; cases h

theorem toQ_wf (d : DObj K) : d.toQ.WF := by
  intro k d0 hk; simp [DObj.toQ, lookupD] at hk

/-- `deriv.shrink(antimask)` meets the contract -/
theorem dspec_shrinkD (df : Dflt K) (cfg : Cfg) (am : Arr Bool) (gpre : Shape)
    (hdis : cfg.disable = false) : DSpec am gpre (shrinkD df cfg) := by
  intro d d' pre h hsh hG p a ha hp
  unfold shrinkD at h
  cases hs : shrinkG df (fun _ _ => none) cfg (.arr am) d.toQ <;>
    simp only [hs, Option.map_none, Option.map_some] at h
  · cases h
  · next y =>
    cases h
    have hfit : bcast d.toQ.obj.shape (gpre ++ am.shape) = some (gpre ++ am.shape) := by
      show bcast d.obj.shape _ = _
      rw [hsh]; exact fit_join _ _ _ _ rfl hG (PMV.bcast_self _)
    have := (shrinkG_spec df _ cfg am d.toQ y gpre hdis (toQ_wf d) hfit (dspec_none am gpre) hs).2 p a ha hp
    exact same_main_obs this

/-- `Qube.shrink` (array antimask, shrinking enabled): all shapes that fit the grid, all mask
    representations, all branches, derivatives included -/
theorem shrink_spec (df : Dflt K) (cfg : Cfg) (am : Arr Bool) (x x' : Q K) (gpre : Shape)
    (hdis : cfg.disable = false) (hwf : x.WF)
    (hfit : bcast x.obj.shape (gpre ++ am.shape) = some (gpre ++ am.shape))
    (h : shrink df cfg (.arr am) x = some x') :
    (x'.keys = x.keys ∧ x'.cls = x.cls ∧ x'.WF ∧ ShrFits am gpre x'.obj.shape ∧ BackOK x' x) ∧
    ∀ p a, a ∈ trues am → Valid gpre p →
      Cell.Same (x'.cellB (p ++ [rnk am a])) (x.cellB (p ++ a)) :=
  shrinkG_spec df _ cfg am x x' gpre hdis hwf hfit (dspec_shrinkD df cfg am gpre hdis) h

/-! ### the test mode `_DISABLE_SHRINKING` -/

/-- with shrinking disabled, `shrink` masks what lies outside the antimask and leaves every
    selected element (read through broadcasting at any grid index) exactly as it is -/
theorem shrink_disabled_spec (df : Dflt K) (cfg : Cfg) (am : Arr Bool) (x x' : Q K)
    (hdis : cfg.disable = true) (hwf : x.WF) (h : shrink df cfg (.arr am) x = some x') :
    x'.keys = x.keys ∧ x'.cls = x.cls ∧
      ∀ p a, a ∈ trues am → x'.cellB (p ++ a) = x.cellB (p ++ a) := by
  unfold shrink shrinkG at h
  simp only [hdis, ↓reduceIte] at h
  split at h
  · cases h; exact ⟨rfl, rfl, fun _ _ _ => rfl⟩
  · simp_all
  · cases hmo : maskedOutside x.obj x.plainDerivs (.arr am) <;>
      simp only [hmo, Option.map_none, Option.map_some] at h
    · cases h
    · next r =>
      obtain ⟨o', ds'⟩ := r
      cases h
      obtain ⟨hk, hc⟩ := maskedOutside_spec x.obj x.plainDerivs am o' ds' (plain_wf x hwf) hmo
      refine ⟨?_, rfl, fun p a ha => ?_⟩
      · rw [keys_withArrays, hk, keys_plainDerivs]
      · simp only [Q.cellB, cellAt_withArrays]
        show pcellAt o' ds' (bidx o'.shape (p ++ a)) = _
        rw [hc p a ha, cellAt_plain]

theorem unshrink_disabled (df : Dflt K) (cfg : Cfg) (am : AM) (sh : Shape) (y : Q K)
    (hdis : cfg.disable = true) : unshrink df cfg am sh y = some y := by
  unfold unshrink unshrinkG; simp [hdis]

end PMV.Shrink
