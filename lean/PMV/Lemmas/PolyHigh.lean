import PMV.Lemmas.PolyRing
import PMV.Lemmas.PolyRoots
/-
  Helper development for C20, order ≥ 3: what `roots()` hands to `np.linalg.eigvals`
  (all-zero handling, shifting out leading zeros, companion row).
-/
set_option linter.unusedSectionVars false
open Polynomial
namespace PMV.Poly
variable {F : Type} [Field F] [LinearOrder F] [IsStrictOrderedRing F]

/-- the test `coefficients[...,0] == 0.` -/
def isZ (x : F) : Bool := decide (x = 0)

/-- number of leading zero coefficients -/
def leadZeros (c : List F) : Nat := (c.takeWhile isZ).length

theorem takeWhile_append_zero (rest : List F) (h : ∃ x ∈ rest, x ≠ 0) :
    (rest ++ [0]).takeWhile isZ = rest.takeWhile isZ ∧
    (rest ++ [0]).dropWhile isZ = rest.dropWhile isZ ++ [0] := by
  induction rest with
  | nil => simp at h
  | cons a rest ih =>
    by_cases ha : a = 0
    · have h' : ∃ x ∈ rest, x ≠ 0 := by
        obtain ⟨x, hx, hx0⟩ := h
        rcases List.mem_cons.mp hx with rfl | hx
        · exact absurd ha hx0
        · exact ⟨x, hx, hx0⟩
      obtain ⟨i1, i2⟩ := ih h'
      simp [isZ, ha] at i1 i2 ⊢
      exact ⟨i1, i2⟩
    · simp [isZ, ha]

theorem shiftLoop_spec (s : F → F) (fuel : Nat) (c : List F) (s0 : Nat) (hnz : ∃ x ∈ c, x ≠ 0)
    (hf : leadZeros c ≤ fuel) :
    @shiftLoop F _ (fieldOps s) fuel c s0 =
      (c.dropWhile isZ ++ List.replicate (leadZeros c) 0, s0 + leadZeros c) := by
  induction fuel generalizing c s0 with
  | zero =>
    have hz : leadZeros c = 0 := by omega
    have : c.takeWhile isZ = [] := List.eq_nil_of_length_eq_zero hz
    have hd : c.dropWhile isZ = c := by
      have := List.takeWhile_append_dropWhile (p := isZ) (l := c)
      rw [‹c.takeWhile isZ = []›] at this; simpa using this
    simp [shiftLoop, hz, hd]
  | succ fuel ih =>
    cases c with
    | nil => simp at hnz
    | cons c0 rest =>
      by_cases h0 : c0 = 0
      · subst h0
        have h' : ∃ x ∈ rest, x ≠ 0 := by
          obtain ⟨x, hx, hx0⟩ := hnz
          rcases List.mem_cons.mp hx with rfl | hx
          · exact absurd rfl hx0
          · exact ⟨x, hx, hx0⟩
        obtain ⟨t1, t2⟩ := takeWhile_append_zero rest h'
        have hz : leadZeros ((0 : F) :: rest) = leadZeros rest + 1 := by
          simp [leadZeros, isZ]
        have hz' : leadZeros (rest ++ [0]) = leadZeros rest := by simp [leadZeros, t1]
        have hf' : leadZeros (rest ++ [0]) ≤ fuel := by omega
        have h'' : ∃ x ∈ rest ++ [0], x ≠ 0 := by
          obtain ⟨x, hx, hx0⟩ := h'
          exact ⟨x, List.mem_append_left _ hx, hx0⟩
        have hd : List.dropWhile isZ ((0 : F) :: rest) = List.dropWhile isZ rest := by
          simp [isZ]
        simp only [shiftLoop, ops_beq, decide_true, if_true]
        rw [ih (rest ++ [0]) (s0 + 1) h'' hf', hz', hz, t2, hd, List.replicate_succ]
        simp only [List.append_assoc, List.singleton_append, Prod.mk.injEq, true_and]
        omega
      · simp [shiftLoop, ops_beq, h0, leadZeros, isZ]

theorem leadZeros_le (c : List F) : leadZeros c ≤ c.length := by
  unfold leadZeros
  have := congrArg List.length (List.takeWhile_append_dropWhile (p := isZ) (l := c))
  simp only [List.length_append] at this
  omega

/-- what `roots()` prepares for a polynomial that is not identically zero: mask unchanged, the
    leading zeros moved to the end, their number recorded -/
theorem prepHigh_spec (s : F → F) (p : PCell F) (hnz : ∃ x ∈ p.c, x ≠ 0) :
    @prepHigh F _ _ (fieldOps s) p =
      (p.m, leadZeros p.c, p.c.dropWhile isZ ++ List.replicate (leadZeros p.c) 0) := by
  obtain ⟨c, hc, hc0⟩ := hnz
  have hall : (p.c.all fun x => @RootOps.beq F (fieldOps s) x 0) = false := by
    rw [List.all_eq_false]
    exact ⟨c, hc, by simp [ops_beq, hc0]⟩
  simp only [prepHigh, hall, Bool.or_false, Bool.false_eq_true, if_false]
  rw [shiftLoop_spec s _ _ 0 ⟨c, hc, hc0⟩ (leadZeros_le _)]
  simp

theorem toPoly_takeWhile_zero (c : List F) : toPoly (c.takeWhile isZ) = 0 := by
  induction c with
  | nil => simp
  | cons a c ih =>
    by_cases ha : a = 0
    · simp [isZ, ha, toPoly_cons, ih]
    · simp [isZ, ha]

/-- the shifted coefficient list denotes `x^k · p` (k = number of leading zeros): `k` extraneous
    zero roots are what the code masks afterwards -/
theorem toPoly_shifted (c : List F) :
    toPoly (c.dropWhile isZ ++ List.replicate (leadZeros c) 0) = toPoly c * X ^ leadZeros c := by
  rw [toPoly_append, toPoly_replicate_zero, List.length_replicate, add_zero]
  congr 1
  conv_rhs => rw [← List.takeWhile_append_dropWhile (p := isZ) (l := c)]
  rw [toPoly_append, toPoly_takeWhile_zero]
  simp

/-- the row handed to LAPACK is that of the companion matrix of the monic normalisation:
    `c₀ · (xⁿ − row(x)) = c₀ xⁿ + c₁ xⁿ⁻¹ + … ` -/
theorem toPoly_companionRow (c0 : F) (rest : List F) (h0 : c0 ≠ 0) :
    C c0 * (X ^ rest.length - toPoly (@companionRow F _ _ (c0 :: rest))) = toPoly (c0 :: rest) := by
  have : toPoly (rest.map fun x => (- x) / c0) = - (C (1 / c0) * toPoly rest) := by
    induction rest with
    | nil => simp
    | cons a rest ih =>
      rw [List.map_cons, toPoly_cons, toPoly_cons, ih, List.length_map]
      simp only [C_neg, div_eq_mul_inv, one_mul, C_mul]
      ring
  simp only [companionRow]
  rw [this, toPoly_cons]
  have hc : C c0 * C (1 / c0) = (1 : F[X]) := by rw [← C_mul]; simp [h0]
  linear_combination (toPoly rest) * hc
end PMV.Poly
