import PMV.Lemmas.PolyRing
import PMV.Lemmas.PolyRoots
/-
  Helper development for C20, order ≥ 3: what `roots()` hands to `np.linalg.eigvals`
  (all-zero handling, shifting out leading zeros, companion row).
-/
set_option linter.unusedSectionVars false
open Polynomial
namespace PMV.Poly
variable {F : Type} [Field F] [LinearOrder F] [IsStrictOrderedRing F]

/-- the test `coefficients[...,0] == 0.` -/
def isZ (x : F) : Bool := decide (x = 0)

/-- number of leading zero coefficients -/
def leadZeros (c : List F) : Nat := (c.takeWhile isZ).length

theorem takeWhile_append_zero (rest : List F) (h : ∃ x ∈ rest, x ≠ 0) :
    (rest ++ [0]).takeWhile isZ = rest.takeWhile isZ ∧
    (rest ++ [0]).dropWhile isZ = rest.dropWhile isZ ++ [0] := by
  induction rest with
  | nil => simp at h
  | cons a rest ih =>
    by_cases ha : a = 0
    · have h' : ∃ x ∈ rest, x ≠ 0 := by
        obtain ⟨x, hx, hx0⟩ := h
        rcases List.mem_cons.mp hx with rfl | hx
        · exact absurd ha hx0
        · exact ⟨x, hx, hx0⟩
      obtain ⟨i1, i2⟩ := ih h'
      simp [isZ, ha] at i1 i2 ⊢
      exact ⟨i1, i2⟩
    · simp [isZ, ha]

theorem shiftLoop_spec (s : F → F) (fuel : Nat) (c : List F) (s0 : Nat) (hnz : ∃ x ∈ c, x ≠ 0)
    (hf : leadZeros c ≤ fuel) :
    @shiftLoop F _ (fieldOps s) fuel c s0 =
      (c.dropWhile isZ ++ List.replicate (leadZeros c) 0, s0 + leadZeros c) := by
  induction fuel generalizing c s0 with
  | zero =>
    have hz : leadZeros c = 0 := by omega
    have : c.takeWhile isZ = [] := List.eq_nil_of_length_eq_zero hz
    have hd : c.dropWhile isZ = c := by
      have := List.takeWhile_append_dropWhile (p := isZ) (l := c)
      rw [‹c.takeWhile isZ = []›] at this; simpa using this
    simp [shiftLoop, hz, hd]
  | succ fuel ih =>
    cases c with
    | nil => simp at hnz
    | cons c0 rest =>
      by_cases h0 : c0 = 0
      · subst h0
        have h' : ∃ x ∈ rest, x ≠ 0 := by
          obtain ⟨x, hx, hx0⟩ := hnz
          rcases List.mem_cons.mp hx with rfl | hx
          · exact absurd rfl hx0
          · exact ⟨x, hx, hx0⟩
        obtain ⟨t1, t2⟩ := takeWhile_append_zero rest h'
        have hz : leadZeros ((0 : F) :: rest) = leadZeros rest + 1 := by
          simp [leadZeros, isZ]
        have hz' : leadZeros (rest ++ [0]) = leadZeros rest := by simp [leadZeros, t1]
        have hf' : leadZeros (rest ++ [0]) ≤ fuel := by omega
        have h'' : ∃ x ∈ rest ++ [0], x ≠ 0 := by
          obtain ⟨x, hx, hx0⟩ := h'
          exact ⟨x, List.mem_append_left _ hx, hx0⟩
        have hd : List.dropWhile isZ ((0 : F) :: rest) = List.dropWhile isZ rest := by
          simp [isZ]
        simp only [shiftLoop, ops_beq, decide_true, if_true]
        rw [ih (rest ++ [0]) (s0 + 1) h'' hf', hz', hz, t2, hd, List.replicate_succ]
        simp only [List.append_assoc, List.singleton_append, Prod.mk.injEq, true_and]
        omega
      · simp [shiftLoop, ops_beq, h0, leadZeros, isZ]

theorem leadZeros_le (c : List F) : leadZeros c ≤ c.length := by
  unfold leadZeros
  have := congrArg List.length (List.takeWhile_append_dropWhile (p := isZ) (l := c))
  simp only [List.length_append] at this
  omega

/-- what `roots()` prepares for a polynomial that is not identically zero: mask unchanged, the
    leading zeros moved to the end, their number recorded -/
theorem prepHigh_spec (s : F → F) (p : PCell F) (hnz : ∃ x ∈ p.c, x ≠ 0) :
    @prepHigh F _ _ (fieldOps s) p =
      (p.m, leadZeros p.c, p.c.dropWhile isZ ++ List.replicate (leadZeros p.c) 0) := by
  obtain ⟨c, hc, hc0⟩ := hnz
  have hall : (p.c.all fun x => @RootOps.beq F (fieldOps s) x 0) = false := by
    rw [List.all_eq_false]
    exact ⟨c, hc, by simp [ops_beq, hc0]⟩
  simp only [prepHigh, hall, Bool.or_false, Bool.false_eq_true, if_false]
  rw [shiftLoop_spec s _ _ 0 ⟨c, hc, hc0⟩ (leadZeros_le _)]
  simp

theorem toPoly_takeWhile_zero (c : List F) : toPoly (c.takeWhile isZ) = 0 := by
  induction c with
  | nil => simp
  | cons a c ih =>
    by_cases ha : a = 0
    · simp [isZ, ha, toPoly_cons, ih]
    · simp [isZ, ha]

/-- the shifted coefficient list denotes `x^k · p` (k = number of leading zeros): `k` extraneous
    zero roots are what the code masks afterwards -/
theorem toPoly_shifted (c : List F) :
    toPoly (c.dropWhile isZ ++ List.replicate (leadZeros c) 0) = toPoly c * X ^ leadZeros c := by
  rw [toPoly_append, toPoly_replicate_zero, List.length_replicate, add_zero]
  congr 1
  conv_rhs => rw [← List.takeWhile_append_dropWhile (p := isZ) (l := c)]
  rw [toPoly_append, toPoly_takeWhile_zero]
  simp

/-- the row handed to LAPACK is that of the companion matrix of the monic normalisation:
    `c₀ · (xⁿ − row(x)) = c₀ xⁿ + c₁ xⁿ⁻¹ + … ` -/
theorem toPoly_companionRow (c0 : F) (rest : List F) (h0 : c0 ≠ 0) :
    C c0 * (X ^ rest.length - toPoly (@companionRow F _ _ (c0 :: rest))) = toPoly (c0 :: rest) := by
  have : toPoly (rest.map fun x => (- x) / c0) = - (C (1 / c0) * toPoly rest) := by
    induction rest with
    | nil => simp
    | cons a rest ih =>
      rw [List.map_cons, toPoly_cons, toPoly_cons, ih, List.length_map]
      simp only [C_neg, div_eq_mul_inv, one_mul, C_mul]
      ring
  simp only [companionRow]
  rw [this, toPoly_cons]
  have hc : C c0 * C (1 / c0) = (1 : F[X]) := by rw [← C_mul]; simp [h0]
  linear_combination (toPoly rest) * hc

theorem dropWhile_head (c : List F) (hnz : ∃ x ∈ c, x ≠ 0) :
    ∃ c0 rest, c.dropWhile isZ = c0 :: rest ∧ c0 ≠ 0 := by
  induction c with
  | nil => simp at hnz
  | cons a c ih =>
    by_cases ha : a = 0
    · have h' : ∃ x ∈ c, x ≠ 0 := by
        obtain ⟨x, hx, hx0⟩ := hnz
        rcases List.mem_cons.mp hx with rfl | hx
        · exact absurd ha hx0
        · exact ⟨x, hx, hx0⟩
      obtain ⟨c0, rest, h1, h2⟩ := ih h'
      exact ⟨c0, rest, by simp [isZ, ha, h1], h2⟩
    · exact ⟨a, c, by simp [isZ, ha], ha⟩

/-- The LAPACK contract of `roots_high_partial`, derived from two narrower assumptions about the
    list `eig` returned for the companion row of the shifted polynomial:
    (A) spectral — a real number is a (real) member of `eig` iff it is a root of the characteristic
        polynomial `xⁿ − row(x)` of the companion matrix;
    (B) ordering — the first `k` entries are the exact zeros contributed by the `k` shifted-out
        leading coefficients, and a further exact zero is present iff `p(0) = 0`. -/
theorem contract_of_spectral (eig : List (F × F)) (c : List F) (hnz : ∃ x ∈ c, x ≠ 0)
    (A : ∀ x : F, (x, 0) ∈ eig ↔
      x ^ (@companionRow F _ _ (c.dropWhile isZ ++ List.replicate (leadZeros c) 0)).length
        - eval x (toPoly (@companionRow F _ _ (c.dropWhile isZ ++ List.replicate (leadZeros c) 0))) = 0)
    (B1 : ∀ z ∈ eig.take (leadZeros c), z = (0, 0))
    (B2 : ((0 : F), (0 : F)) ∈ eig.drop (leadZeros c) ↔ evalC c 0 = 0) :
    ∀ x : F, (∃ z ∈ eig.drop (leadZeros c), z.2 = 0 ∧ z.1 = x) ↔ evalC c x = 0 := by
  intro x
  have hmem : (∃ z ∈ eig.drop (leadZeros c), z.2 = 0 ∧ z.1 = x) ↔ (x, 0) ∈ eig.drop (leadZeros c) := by
    constructor
    · rintro ⟨⟨z1, z2⟩, hz, h2, h1⟩
      simp only at h1 h2; subst h1; subst h2; exact hz
    · intro h; exact ⟨(x, 0), h, rfl, rfl⟩
  rw [hmem]
  by_cases hx : x = 0
  · subst hx; exact B2
  · obtain ⟨c0, rest, hd, hc0⟩ := dropWhile_head c hnz
    have hsplit : (x, (0 : F)) ∈ eig ↔ (x, (0 : F)) ∈ eig.drop (leadZeros c) := by
      conv_lhs => rw [← List.take_append_drop (leadZeros c) eig]
      rw [List.mem_append]
      constructor
      · rintro (h | h)
        · have := B1 _ h
          simp only [Prod.mk.injEq] at this
          exact absurd this.1 hx
        · exact h
      · exact Or.inr
    rw [← hsplit, A x]
    have hrow := toPoly_companionRow c0 (rest ++ List.replicate (leadZeros c) 0) hc0
    have hsh := toPoly_shifted c
    rw [hd] at hsh A
    simp only [List.cons_append] at hsh hrow ⊢
    rw [hd]
    simp only [List.cons_append]
    have e1 : eval x (toPoly (c0 :: (rest ++ List.replicate (leadZeros c) 0))) =
        c0 * (x ^ (rest ++ List.replicate (leadZeros c) 0).length
          - eval x (toPoly (@companionRow F _ _ (c0 :: (rest ++ List.replicate (leadZeros c) 0))))) := by
      rw [← hrow]; simp
    have e2 : eval x (toPoly (c0 :: (rest ++ List.replicate (leadZeros c) 0))) = evalC c x * x ^ leadZeros c := by
      rw [hsh, eval_mul, eval_pow, eval_X, eval_toPoly, evalC_eq_horner']
    have hlen : (@companionRow F _ _ (c0 :: (rest ++ List.replicate (leadZeros c) 0))).length
        = (rest ++ List.replicate (leadZeros c) 0).length := by simp [companionRow]
    rw [hlen]
    constructor
    · intro h
      rw [h, mul_zero] at e1
      rw [e1] at e2
      rcases mul_eq_zero.mp e2.symm with h | h
      · exact h
      · exact absurd (pow_eq_zero_iff (by intro hk; rw [hk] at h; simp at h) |>.mp h) hx
    · intro h
      rw [h, zero_mul] at e2
      rw [e2] at e1
      exact (mul_eq_zero.mp e1.symm).resolve_left hc0
end PMV.Poly
