import PMV.Model.Algebra
/-
  C16 helper lemmas: index bookkeeping of the reshape / rollaxis / broadcast steps of
  Qube.dot, Qube.cross and Qube.outer.  Core Lean only.
-/
namespace PMV.Algebra

theorem length_insAt {k t : Nat} {l : List Nat} (h : k ≤ l.length) : (insAt k t l).length = l.length + 1 := by
  simp [insAt]; omega

theorem insAt_append_left {k t : Nat} {l r : List Nat} (h : k ≤ l.length) :
    insAt k t (l ++ r) = insAt k t l ++ r := by
  simp [insAt, List.take_append_of_le_length h, List.drop_append_of_le_length h]

theorem insAt_append_right {k t : Nat} {z l : List Nat} :
    insAt (z.length + k) t (z ++ l) = z ++ insAt k t l := by
  have h1 : List.take (z.length + k) z = z := List.take_of_length_le (by omega)
  have h2 : List.drop (z.length + k) z = [] := List.drop_of_length_le (by omega)
  simp [insAt, List.take_append, List.drop_append, h1, h2]

theorem bz_append {s1 s2 : Shape} {i1 i2 : Index} (h : s1.length = i1.length) :
    bz (s1 ++ s2) (i1 ++ i2) = bz s1 i1 ++ bz s2 i2 := by
  simp [bz, List.zipWith_append h]

theorem bz_ones {k : Nat} {i : Index} (h : i.length = k) : bz (List.replicate k 1) i = List.replicate k 0 := by
  induction k generalizing i with
  | zero => cases i <;> simp_all [bz]
  | succ k ih =>
    cases i with
    | nil => simp at h
    | cons x i =>
      simp only [List.length_cons, Nat.add_right_cancel_iff] at h
      have := ih h
      simp_all [bz, List.replicate_succ]

theorem bz_valid {s : Shape} {i : Index} (h : Valid s i) : bz s i = i := by
  induction s generalizing i with
  | nil => cases i <;> simp_all [bz, Valid]
  | cons n s ih =>
    cases i with
    | nil => simp [Valid] at h
    | cons x i =>
      simp only [Valid] at h
      have := ih h.2
      simp only [bz, List.zipWith_cons_cons] at this ⊢
      rw [this]
      by_cases hn : n = 1
      · have : x = 0 := by omega
        simp [hn, this]
      · simp [hn]

theorem valid_length {s : Shape} {i : Index} (h : Valid s i) : i.length = s.length := by
  induction s generalizing i with
  | nil => cases i <;> simp_all [Valid]
  | cons n s ih =>
    cases i with
    | nil => simp [Valid] at h
    | cons x i => simp only [Valid] at h; simp [ih h.2]

theorem bshape_append {xs ys xs' ys' : Shape} (h : xs.length = ys.length) :
    bshape (xs ++ xs') (ys ++ ys') =
      match bshape xs ys, bshape xs' ys' with
      | some a, some b => some (a ++ b)
      | _, _ => none := by
  induction xs generalizing ys with
  | nil =>
    cases ys with
    | nil => simp [bshape]; cases bshape xs' ys' <;> rfl
    | cons y ys => simp at h
  | cons x xs ih =>
    cases ys with
    | nil => simp at h
    | cons y ys =>
      simp only [List.length_cons, Nat.add_right_cancel_iff] at h
      simp only [List.cons_append, bshape, ih h]
      cases bshape xs ys <;> cases bshape xs' ys' <;> simp <;>
        by_cases h1 : x = y <;> by_cases h2 : x = 1 <;> by_cases h3 : y = 1 <;>
        (have h1' : (y = x) = (x = y) := propext eq_comm) <;> simp_all

theorem bshape_ones_right (s : Shape) : bshape s (List.replicate s.length 1) = some s := by
  induction s with
  | nil => rfl
  | cons x s ih =>
    simp only [List.length_cons, List.replicate_succ, bshape, ih]
    by_cases h : x = 1 <;> simp [h]

theorem bshape_ones_left (s : Shape) : bshape (List.replicate s.length 1) s = some s := by
  induction s with
  | nil => rfl
  | cons x s ih =>
    simp only [List.length_cons, List.replicate_succ, bshape, ih]
    by_cases h : 1 = x <;> simp [h]

theorem bshape_self (s : Shape) : bshape s s = some s := by
  induction s with
  | nil => rfl
  | cons x s ih => simp [bshape, ih]

variable {K : Type}

theorem normAx_lt {nrank : Nat} {a : Int} {a1 : Nat} (h : normAx nrank a = some a1) : a1 < nrank := by
  unfold normAx at h
  by_cases hp : a ≥ 0 <;> simp only [hp, if_true, if_false] at h <;> split at h <;> simp at h <;> omega

/-- block-wise broadcast of the two padded and rolled shapes -/
theorem bshape_blocks (A B D1 D2 : Shape) (n : Nat) :
    bshape (A ++ List.replicate B.length 1 ++ D1 ++ List.replicate D2.length 1 ++ [n])
           (List.replicate A.length 1 ++ B ++ List.replicate D1.length 1 ++ D2 ++ [n])
      = some (A ++ B ++ D1 ++ D2 ++ [n]) := by
  rw [bshape_append (by simp), bshape_append (by simp), bshape_append (by simp), bshape_append (by simp)]
  simp [bshape_ones_right, bshape_ones_left, bshape_self]

theorem bz_blocks1 (A B D1 D2 : Shape) (n t : Nat) (o1 o2 d1 d2 : Index)
    (h1 : Valid A o1) (h2 : Valid B o2) (h3 : Valid D1 d1) (h4 : Valid D2 d2) (ht : t < n) :
    bz (A ++ List.replicate B.length 1 ++ D1 ++ List.replicate D2.length 1 ++ [n]) (o1 ++ o2 ++ d1 ++ d2 ++ [t])
      = o1 ++ List.replicate B.length 0 ++ d1 ++ List.replicate D2.length 0 ++ [t] := by
  have l1 := valid_length h1; have l2 := valid_length h2; have l3 := valid_length h3; have l4 := valid_length h4
  rw [bz_append (by (try simp only [List.length_append, List.length_replicate]); omega), bz_append (by (try simp only [List.length_append, List.length_replicate]); omega), bz_append (by (try simp only [List.length_append, List.length_replicate]); omega), bz_append (by (try simp only [List.length_append, List.length_replicate]); omega)]
  rw [bz_valid h1, bz_valid h3, bz_ones l2, bz_ones l4, bz_valid (s := [n]) (i := [t]) (by simp [Valid, ht])]

theorem bz_blocks2 (A B D1 D2 : Shape) (n t : Nat) (o1 o2 d1 d2 : Index)
    (h1 : Valid A o1) (h2 : Valid B o2) (h3 : Valid D1 d1) (h4 : Valid D2 d2) (ht : t < n) :
    bz (List.replicate A.length 1 ++ B ++ List.replicate D1.length 1 ++ D2 ++ [n]) (o1 ++ o2 ++ d1 ++ d2 ++ [t])
      = List.replicate A.length 0 ++ o2 ++ List.replicate D1.length 0 ++ d2 ++ [t] := by
  have l1 := valid_length h1; have l2 := valid_length h2; have l3 := valid_length h3; have l4 := valid_length h4
  rw [bz_append (by (try simp only [List.length_append, List.length_replicate]); omega), bz_append (by (try simp only [List.length_append, List.length_replicate]); omega), bz_append (by (try simp only [List.length_append, List.length_replicate]); omega), bz_append (by (try simp only [List.length_append, List.length_replicate]); omega)]
  rw [bz_valid h2, bz_valid h4, bz_ones l1, bz_ones l3, bz_valid (s := [n]) (i := [t]) (by simp [Valid, ht])]

theorem getD_eq_of_lt {l : List Nat} {k : Nat} (h : k < l.length) (d d' : Nat) : l.getD k d = l.getD k d' := by
  simp [List.getD, List.getElem?_eq_getElem h]

theorem take_len_append (X C : List Nat) : List.take X.length (X ++ C) = X := by simp
theorem drop_len_append (X C : List Nat) : List.drop X.length (X ++ C) = C := by simp

theorem pick1 (X Z d Z' : List Nat) (n m k : Nat) (hX : X.length = n) (hZ : Z.length = m) (hd : d.length = k) :
    List.take n (X ++ Z ++ d ++ Z') ++ List.take k (List.drop (n + m) (X ++ Z ++ d ++ Z')) = X ++ d := by
  subst hX hZ hd
  have e1 : X ++ Z ++ d ++ Z' = X ++ (Z ++ d ++ Z') := by simp [List.append_assoc]
  have e2 : X ++ Z ++ d ++ Z' = (X ++ Z) ++ (d ++ Z') := by simp [List.append_assoc]
  have e3 : X.length + Z.length = (X ++ Z).length := by simp
  rw [e1, take_len_append, ← e1, e2, e3, drop_len_append, take_len_append]

theorem pick2 (Z X Z' d : List Nat) (z n k : Nat) (hZ : Z.length = z) (hX : X.length = n) (hZ' : Z'.length = k) :
    List.take n (List.drop z (Z ++ X ++ Z' ++ d)) ++ List.drop (z + n + k) (Z ++ X ++ Z' ++ d) = X ++ d := by
  subst hZ hX hZ'
  have e1 : Z ++ X ++ Z' ++ d = Z ++ (X ++ (Z' ++ d)) := by simp [List.append_assoc]
  have e2 : Z ++ X ++ Z' ++ d = (Z ++ X ++ Z') ++ d := by simp [List.append_assoc]
  have e3 : Z.length + X.length + Z'.length = (Z ++ X ++ Z').length := by simp [Nat.add_assoc]
  rw [e1, drop_len_append, take_len_append, ← e1, e2, e3, drop_len_append]

theorem eraseIdx_mid (z l r : List Nat) (k : Nat) (h : k < l.length) :
    (z ++ l ++ r).eraseIdx (k + z.length) = z ++ l.eraseIdx k ++ r := by
  rw [List.append_assoc, List.eraseIdx_append_of_length_le (by omega), List.append_assoc]
  congr 1
  rw [Nat.add_sub_cancel, List.eraseIdx_append_of_lt_length h]

theorem getD_mid (z l r : List Nat) (k d : Nat) (h : k < l.length) :
    (z ++ l ++ r).getD (k + z.length) d = l.getD k d := by
  simp only [List.getD]
  rw [List.append_assoc, List.getElem?_append_right (by omega), Nat.add_sub_cancel, List.getElem?_append_left h]


end PMV.Algebra
