import PMV.Lemmas.FaultsReject
/-
  C19: rejection lemmas, second part: *=, /=, item assignment, insert_derivs.
-/
namespace PMV.Faults

theorem mapE_error {α β} (f : α → Except Exc β) (l : List α) (x : α) (e : Exc)
    (hx : x ∈ l) (hf : f x = .error e) : ∃ e', mapE f l = .error e' := by
  induction l with
  | nil => cases hx
  | cons y ys ih =>
    simp only [mapE]
    rcases List.mem_cons.1 hx with rfl | hx'
    · rw [hf]; exact ⟨e, rfl⟩
    · obtain ⟨e', he'⟩ := ih hx'
      split
      · exact ⟨_, rfl⟩
      · rw [he']; exact ⟨e', rfl⟩

/-- a matrix product whose operand does not broadcast into the target cannot have the target's values shape -/
theorem matmul_shape_mismatch (s : Obj) (ashape out : Shape) (n0 n1 m1 : Nat)
    (hnum : s.numer = [n0, n1]) (hb : bcast s.shape ashape = some out) (h : into ashape s.shape = false) :
    (out ++ [n0, m1] ++ s.denom == s.valuesShape) = false := by
  cases hq : (out ++ [n0, m1] ++ s.denom == s.valuesShape)
  · rfl
  · exfalso
    have heq := eq_of_beq hq
    unfold Obj.valuesShape at heq
    rw [hnum, List.append_assoc, List.append_assoc] at heq
    have := (List.append_inj' heq (by simp)).1
    subst this
    simp [into, hb] at h

theorem rej_shape_vMulQ (s a : Obj) (h : into a.shape s.shape = false) : Rejected (vMulQ s a) := by
  unfold vMulQ
  split
  · rej_walk
  · split
    · split
      · next n0 n1 m0 m1 hnum _ =>
        refine rej_bind (fun _ _ => ?_)
        refine rej_bind (fun _ _ => ?_)
        split
        · exact rej_raise _
        · next out hb =>
          exact rej_guard (matmul_shape_mismatch s a.shape out n0 n1 m1 hnum hb h)
      · exact rej_raise _
    · exact rej_raise _

theorem rej_vMul_q (s a : Obj) (h : ∀ c : Cls, Rejected (vMulQ s { a with cls := c })) :
    Rejected (vMul s (.q a)) := by
  unfold vMul
  refine rej_bind (fun _ _ => ?_)
  refine rej_bind (fun _ _ => ?_)
  split
  · split
    · next o heq =>
      cases heq
      split
      · exact h _
      · exact rej_raise _
    · next hno => exact absurd rfl (hno a)
  · simp only [toScalarArg, asScalar]
    exact rej_bind (fun a' ha' => by cases ha'; exact h a.cls)

theorem rej_shape_vMul (s a : Obj) (h : into a.shape s.shape = false) : Rejected (vMul s (.q a)) :=
  rej_vMul_q s a (fun _ => rej_shape_vMulQ s _ h)

/-- what `reciprocal()` keeps of a rank-0 operand or a matrix: everything but (possibly) the kind -/
theorem reciprocalOk_same (a r : Obj) (h : reciprocalOk a = .ok r) :
    r = a ∨ r = { a with kind := .float } := by
  unfold reciprocalOk at h
  repeat' (split at h)
  all_goals (cases h)
  all_goals (first | exact Or.inl rfl | exact Or.inr rfl)

theorem rej_vDiv_q (s a : Obj) (h : ∀ r, (r = a ∨ r = { a with kind := .float }) → Rejected (vMul s (.q r))) :
    Rejected (vDiv s (.q a)) := by
  unfold vDiv
  refine rej_bind (fun _ _ => ?_)
  refine rej_bind (fun _ _ => ?_)
  refine rej_bind (fun _ _ => ?_)
  simp only [toScalarArg, asScalar]
  refine rej_bind (fun a' ha' => ?_)
  cases ha'
  refine rej_bind (fun r hr => ?_)
  exact h r (reciprocalOk_same a r hr)

theorem rej_shape_vDiv (s a : Obj) (h : into a.shape s.shape = false) : Rejected (vDiv s (.q a)) := by
  refine rej_vDiv_q s a (fun r hr => ?_)
  rcases hr with rfl | rfl
  · exact rej_shape_vMul s _ h
  · exact rej_shape_vMul s _ h

theorem rej_kind_vMulQ (s a : Obj) (hr : a.rank = 0) (h1 : s.isInt = true) (h2 : a.isInt = false) :
    Rejected (vMulQ s a) := by
  unfold vMulQ
  have hk : (!(s.isInt && !a.isInt)) = false := by simp [h1, h2]
  have hr' : (a.rank == 0) = true := by simp [hr]
  simp only [hr', if_true]
  rej_walk

theorem rej_kind_vMul (s a : Obj) (hr : a.rank = 0) (h1 : s.isInt = true) (h2 : a.isInt = false) :
    Rejected (vMul s (.q a)) :=
  rej_vMul_q s a (fun _ => rej_kind_vMulQ s _ hr h1 h2)

/-- the derivative `e` of the operand cannot be combined with the target's derivatives -/
def mulClash (s : Obj) (e : Deriv) : Prop :=
  (!s.denom.isEmpty && !e.denom.isEmpty) = true ∨ ∃ d, s.find e.key = some d ∧ (d.denom == mulDenom s e) = false

theorem mulStep_error (s : Obj) (e : Deriv) (h : mulClash s e) : mulStep s e = .error .valueError := by
  unfold mulStep
  rcases h with h | ⟨d, hd, hne⟩
  · simp [h]
  · split
    · rfl
    · simp [hd, hne]

theorem rej_deriv_vMulQ (s a : Obj) (hr : a.rank = 0) (e : Deriv) (he : e ∈ a.derivs) (hc : mulClash s e) :
    Rejected (vMulQ s a) := by
  unfold vMulQ
  have hr' : (a.rank == 0) = true := by simp [hr]
  simp only [hr', if_true]
  refine rej_bind (fun _ _ => ?_)
  refine rej_bind (fun _ _ => ?_)
  refine rej_bind (fun _ _ => ?_)
  unfold mulDerivs
  obtain ⟨e', he'⟩ := filterMapE_error (mulStep s) a.derivs e .valueError he (mulStep_error s e hc)
  rw [he']
  exact ⟨e', rfl⟩

theorem rej_deriv_vMul (s a : Obj) (hr : a.rank = 0) (e : Deriv) (he : e ∈ a.derivs) (hc : mulClash s e) :
    Rejected (vMul s (.q a)) :=
  rej_vMul_q s a (fun _ => rej_deriv_vMulQ s _ hr e he hc)

theorem rej_deriv_vDiv (s a : Obj) (hr : a.rank = 0) (e : Deriv) (he : e ∈ a.derivs) (hc : mulClash s e) :
    Rejected (vDiv s (.q a)) := by
  refine rej_vDiv_q s a (fun r hr' => ?_)
  rcases hr' with rfl | rfl
  · exact rej_deriv_vMul s _ hr e he hc
  · exact rej_deriv_vMul s _ hr e he hc

/-! #### item assignment -/

theorem asThisType_q (s a a' : Obj) (h : asThisType s (.q a) = .ok a') :
    a'.numer = a.numer ∧ a'.denom = a.denom ∧ a'.shape = a.shape ∧
      a'.derivs = (if s.cls.derivsOk then a.derivs else []) := by
  simp only [asThisType] at h
  repeat' (split at h)
  all_goals (first | (cases h; refine ⟨rfl, rfl, rfl, ?_⟩; simp_all) | cases h)

/-- item assignment with a selection and a Qube operand is rejected as soon as the converted operand fails one of the
    `_require_assignable` / NumPy checks -/
theorem rej_vSetItem_sel (s : Obj) (sel : Shape) (arg : Arg)
    (h : ∀ a', asThisType s arg = .ok a' →
      (s.numer == a'.numer) = false ∨ (s.denom == a'.denom) = false
      ∨ (s.derivs.all fun d => !d.ro && (match (a'.derivs.map fun e => (e.key, e.denom)).lookup d.key with
            | some dn => dn == d.denom | none => true)) = false
      ∨ assignable a'.shape sel = false) :
    Rejected (vSetItem s (.sel sel) arg) := by
  unfold vSetItem
  refine rej_bind (fun _ _ => ?_)
  simp only [prepIndex]
  refine rej_bind (fun x hx => ?_)
  cases hx
  dsimp only
  refine rej_bind (fun a' ha' => ?_)
  rcases h a' ha' with h | h | h | h
  · rej_walk
  · rej_walk
  · rej_walk
  · rej_walk

theorem rej_type_vSetItem (s : Obj) (sel : Shape) : Rejected (vSetItem s (.sel sel) .bad) :=
  rej_vSetItem_sel s sel .bad (fun a' h => by simp [asThisType] at h)

theorem rej_numer_vSetItem (s a : Obj) (sel : Shape) (h : (s.numer == a.numer) = false) :
    Rejected (vSetItem s (.sel sel) (.q a)) :=
  rej_vSetItem_sel s sel _ (fun a' ha' => by
    obtain ⟨h1, _, _, _⟩ := asThisType_q s a a' ha'
    left; rw [h1]; exact h)

theorem rej_denom_vSetItem (s a : Obj) (sel : Shape) (h : (s.denom == a.denom) = false) :
    Rejected (vSetItem s (.sel sel) (.q a)) :=
  rej_vSetItem_sel s sel _ (fun a' ha' => by
    obtain ⟨_, h2, _, _⟩ := asThisType_q s a a' ha'
    right; left; rw [h2]; exact h)

theorem rej_shape_vSetItem (s a : Obj) (sel : Shape) (h : assignable a.shape sel = false) :
    Rejected (vSetItem s (.sel sel) (.q a)) :=
  rej_vSetItem_sel s sel _ (fun a' ha' => by
    obtain ⟨_, _, h3, _⟩ := asThisType_q s a a' ha'
    right; right; right; rw [h3]; exact h)

/-- a derivative of the target for which the operand carries a derivative of the same key and another denominator,
    or which is read-only -/
def setitemClash (a : Obj) (d : Deriv) : Prop :=
  d.ro = true ∨ ∃ dn, (a.derivs.map fun e => (e.key, e.denom)).lookup d.key = some dn ∧ (dn == d.denom) = false

theorem rej_deriv_vSetItem (s a : Obj) (sel : Shape) (hok : s.cls.derivsOk = true) (d : Deriv) (hd : d ∈ s.derivs)
    (hc : setitemClash a d) : Rejected (vSetItem s (.sel sel) (.q a)) :=
  rej_vSetItem_sel s sel _ (fun a' ha' => by
    obtain ⟨_, _, _, h4⟩ := asThisType_q s a a' ha'
    right; right; left
    rw [h4, hok, if_pos rfl, List.all_eq_false]
    refine ⟨d, hd, ?_⟩
    rcases hc with hro | ⟨dn, hl, hne⟩
    · simp [hro]
    · simp [hl, hne])

/-! #### insert_deriv / insert_derivs -/

theorem rej_ro_vInsertDeriv (s : Obj) (k : String) (d : Arg) (h : s.ro = true) (hk : s.hasKey k = true) :
    Rejected (vInsertDeriv s k d false) := by
  unfold vInsertDeriv
  refine rej_bind (fun _ _ => ?_)
  have : (!(s.ro && s.hasKey k && !false)) = false := by simp [h, hk]
  rej_walk

theorem rej_ro_vInsertDerivs (s : Obj) (ds : List (String × Arg)) (h : s.ro = true) (p : String × Arg) (hp : p ∈ ds)
    (hk : s.hasKey p.1 = true) : Rejected (vInsertDerivs s ds false) := by
  unfold vInsertDerivs
  have : (!(s.ro && !false && ds.any fun p => s.hasKey p.1)) = false := by
    have : (ds.any fun p => s.hasKey p.1) = true := List.any_eq_true.2 ⟨p, hp, hk⟩
    simp [h, this]
  rej_walk

/-- insert_derivs is rejected as soon as one derivative of the dictionary is incompatible -/
theorem rej_vInsertDerivs_of (s : Obj) (ds : List (String × Arg)) (ov : Bool) (p : String × Arg) (hp : p ∈ ds)
    (h : ∃ e, compatibleDeriv s p.2 = .error e) : Rejected (vInsertDerivs s ds ov) := by
  unfold vInsertDerivs
  refine rej_bind (fun _ _ => ?_)
  obtain ⟨e, he⟩ := h
  obtain ⟨e', he'⟩ := mapE_error (insStep s) ds p e hp (by simp [insStep, he])
  rw [he']
  exact ⟨e', rfl⟩

theorem fails_bind {α β} {x : Except Exc α} {f : α → Except Exc β}
    (h : ∀ a, x = .ok a → ∃ e, f a = .error e) : ∃ e, (x >>= f) = .error e := by
  cases x with
  | error e => exact ⟨e, rfl⟩
  | ok a => exact h a rfl

theorem fails_guard {β} {c : Bool} {e : Exc} {f : Unit → Except Exc β} (h : c = false) :
    ∃ e', (guard' c e >>= f) = .error e' := by
  subst h; exact ⟨e, rfl⟩

theorem compatibleDeriv_bad (s : Obj) : ∃ e, compatibleDeriv s .bad = .error e := by
  simp only [compatibleDeriv]
  exact fails_bind (fun _ _ => ⟨_, rfl⟩)

theorem compatibleDeriv_shape (s a : Obj) (h : into a.shape s.shape = false) :
    ∃ e, compatibleDeriv s (.q a) = .error e := by
  simp only [compatibleDeriv]
  refine fails_bind (fun _ _ => ?_)
  refine fails_bind (fun _ _ => ?_)
  exact fails_guard h

theorem compatibleDeriv_numer (s a : Obj) (h : (a.numer == s.numer) = false) :
    ∃ e, compatibleDeriv s (.q a) = .error e := by
  simp only [compatibleDeriv]
  refine fails_bind (fun _ _ => ?_)
  exact fails_guard h

/-! #### a float NUMBER for an integer target whose values are an array (NumPy's cast test rejects) -/

theorem kernelCheck_float_int (s : Obj) (sh : Shape) (al : Bool) (hk : s.kind = .int) (hp : s.pyScalar = false) :
    kernelCheck s sh .float al = .error .typeError := by
  simp [kernelCheck, hp, hk, castable]

theorem fails_kernel {β} (s : Obj) (sh : Shape) (al : Bool) (hk : s.kind = .int) (hp : s.pyScalar = false)
    (f : Unit → Except Exc β) : ∃ e, (kernelCheck s sh .float al >>= f) = .error e := by
  rw [kernelCheck_float_int s sh al hk hp]; exact ⟨_, rfl⟩

theorem rej_kindnum_vAdd (s : Obj) (z : Bool) (hk : s.kind = .int) (hp : s.pyScalar = false) :
    Rejected (vAdd s (.num .float z)) := by
  unfold vAdd
  refine rej_bind (fun _ _ => ?_)
  refine rej_bind (fun _ _ => ?_)
  simp only [fastPath]
  split
  · next sh k hfp =>
    split at hfp
    · cases hfp; exact fails_kernel s _ _ hk hp _
    · cases hfp
  · simp only [toQubeAdd, asThisType0]
    refine rej_bind (fun a ha => ?_)
    cases ha
    unfold vAddQ
    have hi : (!(s.isInt && !({ s with kind := Kind.float, shape := [], derivs := [], ro := false } : Obj).isInt)) = false := by
      simp [Obj.isInt, hk]
    rej_walk

theorem rej_kindnum_vMul (s : Obj) (z : Bool) (hk : s.kind = .int) (hp : s.pyScalar = false) :
    Rejected (vMul s (.num .float z)) := by
  unfold vMul
  refine rej_bind (fun _ _ => ?_)
  refine rej_bind (fun _ _ => ?_)
  split
  · exact rej_raise _
  · refine rej_bind (fun _ _ => ?_)
    exact fails_kernel s _ _ hk hp _

theorem rej_kindnum_vFloorMod (fl : Bool) (s : Obj) (z : Bool) (hk : s.kind = .int) (hp : s.pyScalar = false) :
    Rejected (vFloorMod fl s (.num .float z)) := by
  unfold vFloorMod
  refine rej_bind (fun _ _ => ?_)
  refine rej_bind (fun _ _ => ?_)
  refine rej_bind (fun _ _ => ?_)
  split
  · next k heq => cases heq; exact fails_kernel s _ _ hk hp _
  · have hs : toScalarArg (.num .float z) = .ok ⟨.scalar, .float, [], [], [], none, false, 0, []⟩ := rfl
    rw [hs]
    refine rej_bind (fun a ha => ?_)
    cases ha
    split
    · refine rej_bind (fun _ _ => ?_)
      refine rej_bind (fun _ _ => ?_)
      exact fails_kernel s _ _ hk hp _
    · exact rej_raise _

/-! #### units for a class that disallows them; another item shape for &=, |=, ^= -/

theorem rej_unitsAllowed_vAdd (s a : Obj) (h : unitsAllowed s a = false) : Rejected (vAdd s (.q a)) := by
  apply rejected_vAdd_q
  unfold vAddQ
  rej_walk

theorem rej_unitsAllowed_vMul (s a : Obj) (hr : a.rank = 0) (h : unitsAllowed s a = false) :
    Rejected (vMul s (.q a)) := by
  refine rej_vMul_q s a (fun c => ?_)
  unfold vMulQ
  have hr' : (({ a with cls := c } : Obj).rank == 0) = true := by simpa [Obj.rank] using hr
  have h' : unitsAllowed s { a with cls := c } = false := h
  simp only [hr', if_true]
  rej_walk

theorem rej_unitsAllowed_vFloorMod (fl : Bool) (s a : Obj) (h : unitsAllowed s a = false) :
    Rejected (vFloorMod fl s (.q a)) := by
  unfold vFloorMod
  refine rej_bind (fun _ _ => ?_)
  refine rej_bind (fun _ _ => ?_)
  refine rej_bind (fun _ _ => ?_)
  simp only [toScalarArg, asScalar]
  refine rej_bind (fun a' ha' => ?_)
  cases ha'
  split
  · rej_walk
  · exact rej_raise _

theorem rej_item_vLogic (s a : Obj) (h : (a.item == s.item) = false) : Rejected (vLogic s (.q a)) := by
  unfold vLogic; rej_walk

end PMV.Faults
