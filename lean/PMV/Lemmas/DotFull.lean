import PMV.Model.Dispatch
import PMV.Lemmas.Bcast
import PMV.Lemmas.AlgebraIndex
/-
  The matrix path on FULL arrays (`Dispatch.dotFull`: reshape, rollaxis, full NumPy broadcasting, sum) equals, for every
  leading index, C16's per-item `Algebra.dotItem` applied to the operand items selected by LEADING-axis broadcasting.
  Core Lean only.
-/
namespace PMV.Dispatch
open PMV PMV.Algebra

/-! ### bridges between the same-rank broadcasting of `Algebra` (`bz`, `bshape`) and NumPy broadcasting (`bidx`, `bcast`) -/

theorem bidxRev_eq_zipWith (s i : List Nat) :
    bidxRev s i = List.zipWith (fun n x => if n = 1 then 0 else x) s i := by
  induction s generalizing i with
  | nil => simp [bidxRev]
  | cons n s ih => cases i <;> simp [bidxRev, ih]

theorem bidx_eq_bz (t : Shape) (j : Index) (h : j.length = t.length) : bidx t j = bz t j := by
  simp only [bidx, bz, bidxRev_eq_zipWith]
  rw [← List.reverse_zipWith (by simpa using h.symm)]
  simp

theorem ifchain_eq (x y : Nat) (r : List Nat) :
    (if x = y then some (x :: r) else if x = 1 then some (y :: r) else if y = 1 then some (x :: r) else none)
      = (axisRule x y).map (· :: r) := by
  unfold axisRule
  split
  · rfl
  · split
    · rfl
    · split <;> rfl

theorem bcast_single (x y : Nat) : bcast [x] [y] = (axisRule x y).map (fun z => [z]) := by
  simp only [bcast, List.reverse_cons, List.reverse_nil, List.nil_append, bcastRev_cons, bcastRev, consO]
  cases axisRule x y <;> rfl

theorem bcast_cons (x y : Nat) (xs ys : Shape) (h : xs.length = ys.length) :
    bcast (x :: xs) (y :: ys) =
      match bcast xs ys with
      | none => none
      | some r => if x = y then some (x :: r) else if x = 1 then some (y :: r)
                  else if y = 1 then some (x :: r) else none := by
  have := bcast_append [x] [y] xs ys h
  simp only [List.singleton_append] at this
  rw [this, bcast_single]
  cases bcast xs ys with
  | none => cases axisRule x y <;> rfl
  | some r => simp only [ifchain_eq]; cases axisRule x y <;> rfl

theorem bcast_eq_bshape (t u : Shape) (h : t.length = u.length) : bcast t u = bshape t u := by
  induction t generalizing u with
  | nil =>
    cases u with
    | nil => simp [bcast, bcastRev, bshape]
    | cons _ _ => simp at h
  | cons x xs ih =>
    cases u with
    | nil => simp at h
    | cons y ys =>
      have hl : xs.length = ys.length := by simpa using h
      rw [bcast_cons x y xs ys hl, ih ys hl]
      rfl

/-! ### the leading index passes through reshape, rollaxis, multiply and sum -/

/-- the item at leading index `i` of a full array -/
def itemAt (X : Arr Int) (numer denom : Shape) (i : Index) : Item Int := ⟨numer, denom, fun j => X.get (i ++ j)⟩

theorem rollEnd_lead (X : Arr Int) (s t : Shape) (k : Nat) (hX : X.shape = s ++ t) (hk : k < t.length) :
    (rollEnd (s.length + k) X).shape = s ++ (t.eraseIdx k ++ [t.getD k 1]) ∧
    ∀ i j, i.length = s.length → j ≠ [] →
      (rollEnd (s.length + k) X).get (i ++ j) = (rollEnd k ⟨t, fun j' => X.get (i ++ j')⟩).get j := by
  constructor
  · simp only [rollEnd, hX]
    have e1 := eraseIdx_mid s t [] k hk
    have e2 := getD_mid s t [] k 1 hk
    simp only [List.append_nil] at e1 e2
    rw [Nat.add_comm s.length k, e1, e2, List.append_assoc]
  · intro i j hi hj
    simp only [rollEnd]
    have h1 : (i ++ j).getLastD 0 = j.getLastD 0 := by
      simp [List.getLastD_eq_getLast?, List.getLast?_append]
      cases h : j.getLast? with
      | none => simp [List.getLast?_eq_none_iff] at h; exact absurd h hj
      | some v => simp
    have h2 : (i ++ j).dropLast = i ++ j.dropLast := by
      rw [List.dropLast_append_of_ne_nil hj]
    rw [h1, h2, ← hi, insAt_append_right]

/-- NumPy multiplication of two full arrays whose item parts have equal rank: leading parts broadcast by NumPy's rule,
    item parts by the same-rank rule of `Algebra.mulB` -/
theorem map2_lead (X Y : Arr Int) (s1 s2 t1 t2 : Shape) (hX : X.shape = s1 ++ t1) (hY : Y.shape = s2 ++ t2)
    (ht : t1.length = t2.length) :
    match bcast s1 s2, bshape t1 t2 with
    | some out, some T => ∃ v, Arr.map2 (· * ·) X Y = some v ∧ v.shape = out ++ T ∧
        ∀ i j, j.length = t1.length →
          v.get (i ++ j) = X.get (bidx s1 i ++ bz t1 j) * Y.get (bidx s2 i ++ bz t2 j)
    | _, _ => Arr.map2 (· * ·) X Y = none := by
  have hb := bcast_append s1 s2 t1 t2 ht
  rw [bcast_eq_bshape t1 t2 ht] at hb
  cases h1 : bcast s1 s2 with
  | none => rw [h1] at hb; simp [Arr.map2, hX, hY, hb]
  | some out =>
    cases h2 : bshape t1 t2 with
    | none => rw [h1, h2] at hb; simp [Arr.map2, hX, hY, hb]
    | some T =>
      rw [h1, h2] at hb
      simp only [] at hb
      refine ⟨⟨out ++ T, fun i => X.get (bidx X.shape i) * Y.get (bidx Y.shape i)⟩, ?_, rfl, ?_⟩
      · simp [Arr.map2, hX, hY, hb]
      · intro i j hj
        simp only [hX, hY]
        rw [bidx_append _ _ _ _ hj, bidx_append _ _ _ _ (by omega), bidx_eq_bz t1 j hj, bidx_eq_bz t2 j (by omega)]

theorem sumLast_lead (V : Arr Int) (out T : Shape) (hV : V.shape = out ++ T) (hT : T ≠ []) :
    (sumLast V).shape = out ++ T.dropLast ∧
    ∀ i j, (sumLast V).get (i ++ j) = sumRange (T.getLastD 0) fun t => V.get (i ++ (j ++ [t])) := by
  constructor
  · simp only [sumLast, hV]
    rw [List.dropLast_append_of_ne_nil hT]
  · intro i j
    simp only [sumLast, hV, List.append_assoc]
    congr 1
    simp [List.getLastD_eq_getLast?, List.getLast?_append]
    cases h : T.getLast? with
    | none => simp [List.getLast?_eq_none_iff] at h; exact absurd h hT
    | some v => simp

/-- the padded item shapes of the two operands of `dot` -/
def padShape1 (a b : Desc) : Shape :=
  a.numer ++ List.replicate (b.numer.length - 1) 1 ++ a.denom ++ List.replicate b.denom.length 1
def padShape2 (a b : Desc) : Shape :=
  List.replicate (a.numer.length - 1) 1 ++ b.numer ++ List.replicate a.denom.length 1 ++ b.denom

/-- the rolled, padded item arrays of `Algebra.dotItem` for axes (-1, 0) -/
def rolled1 (a b : Desc) (x : Item Int) : Arr Int :=
  rollEnd (a.numer.length - 1) (pad1 x (b.numer.length - 1) b.denom.length)
def rolled2 (a b : Desc) (y : Item Int) : Arr Int :=
  rollEnd (0 + (a.numer.length - 1)) (pad2 y (a.numer.length - 1) a.denom.length)

def rolledShape1 (a b : Desc) : Shape :=
  (padShape1 a b).eraseIdx (a.numer.length - 1) ++ [(padShape1 a b).getD (a.numer.length - 1) 1]
def rolledShape2 (a b : Desc) : Shape :=
  (padShape2 a b).eraseIdx (0 + (a.numer.length - 1)) ++ [(padShape2 a b).getD (0 + (a.numer.length - 1)) 1]

theorem rolledShape_length (a b : Desc) (h1 : a.numer ≠ []) (h2 : b.numer ≠ []) :
    (rolledShape1 a b).length = (rolledShape2 a b).length ∧ rolledShape1 a b ≠ [] := by
  have l1 : a.numer.length ≥ 1 := List.length_pos_iff.mpr h1
  have l2 : b.numer.length ≥ 1 := List.length_pos_iff.mpr h2
  constructor
  · simp only [rolledShape1, rolledShape2, padShape1, padShape2, List.length_append, List.length_eraseIdx,
      List.length_replicate, List.length_singleton]
    split <;> split <;> omega
  · simp [rolledShape1]

theorem take_lead (i j : List Nat) (n : Nat) : (i ++ j).take (i.length + n) = i ++ j.take n := by
  induction i with
  | nil => simp
  | cons a i ih => simp [Nat.succ_add, ih]

theorem drop_lead (i j : List Nat) (n : Nat) : (i ++ j).drop (i.length + n) = j.drop n := by
  induction i with
  | nil => simp
  | cons a i ih => simp [Nat.succ_add, ih]

theorem bshape_length {t u T : Shape} (h : bshape t u = some T) : T.length = t.length := by
  induction t generalizing u T with
  | nil => cases u <;> simp [bshape] at h; subst h; rfl
  | cons x xs ih =>
    cases u with
    | nil => simp [bshape] at h
    | cons y ys =>
      simp only [bshape] at h
      cases hr : bshape xs ys with
      | none => rw [hr] at h; cases h
      | some r =>
        rw [hr] at h
        have := ih hr
        simp only [] at h
        split at h
        · cases h; simp [this]
        · split at h
          · cases h; simp [this]
          · split at h
            · cases h; simp [this]
            · cases h

/-- the reshaped full arrays of `dotFull` -/
def fullPad1 (a b : Desc) (A : Arr Int) : Arr Int :=
  ⟨a.shape ++ (a.numer ++ List.replicate (b.numer.length - 1) 1 ++ a.denom ++ List.replicate b.denom.length 1),
   fun i => A.get (i.take (a.shape.length + a.numer.length) ++
     (i.drop (a.shape.length + a.numer.length + (b.numer.length - 1))).take a.denom.length)⟩
def fullPad2 (a b : Desc) (B : Arr Int) : Arr Int :=
  ⟨b.shape ++ (List.replicate (a.numer.length - 1) 1 ++ b.numer ++ List.replicate a.denom.length 1 ++ b.denom),
   fun i => B.get (i.take b.shape.length ++ ((i.drop (b.shape.length + (a.numer.length - 1))).take b.numer.length ++
     i.drop (b.shape.length + (a.numer.length - 1) + b.numer.length + a.denom.length)))⟩

theorem dotFull_def (a b : Desc) (A B : Arr Int) :
    dotFull a b A B =
      (Arr.map2 (· * ·) (rollEnd (a.shape.length + (a.numer.length - 1)) (fullPad1 a b A))
        (rollEnd (b.shape.length + (0 + (a.numer.length - 1))) (fullPad2 a b B))).map sumLast := rfl

/-- the item at leading index `i` of the reshaped full array is the reshaped item -/
theorem fullPad1_item (a b : Desc) (A : Arr Int) (i : Index) (hi : i.length = a.shape.length) :
    (⟨padShape1 a b, fun j' => (fullPad1 a b A).get (i ++ j')⟩ : Arr Int) =
      pad1 (itemAt A a.numer a.denom i) (b.numer.length - 1) b.denom.length := by
  simp only [pad1, itemAt, padShape1, fullPad1]
  congr 1
  funext j'
  rw [← hi, take_lead, Nat.add_assoc, drop_lead, List.append_assoc]

theorem fullPad2_item (a b : Desc) (B : Arr Int) (i : Index) (hi : i.length = b.shape.length) :
    (⟨padShape2 a b, fun j' => (fullPad2 a b B).get (i ++ j')⟩ : Arr Int) =
      pad2 (itemAt B b.numer b.denom i) (a.numer.length - 1) a.denom.length := by
  simp only [pad2, itemAt, padShape2, fullPad2]
  congr 1
  funext j'
  have e1 : (i ++ j').take i.length = i := by simp
  rw [← hi, e1, drop_lead, Nat.add_assoc, Nat.add_assoc, drop_lead, ← Nat.add_assoc]

theorem rolled1_shape (a b : Desc) (x : Item Int) (hn : x.numer = a.numer) (hd : x.denom = a.denom) :
    (rolled1 a b x).shape = rolledShape1 a b := by
  simp [rolled1, rollEnd, pad1, rolledShape1, padShape1, hn, hd]

theorem rolled2_shape (a b : Desc) (y : Item Int) (hn : y.numer = b.numer) (hd : y.denom = b.denom) :
    (rolled2 a b y).shape = rolledShape2 a b := by
  simp [rolled2, rollEnd, pad2, rolledShape2, padShape2, hn, hd]

/-- **dotFull_items.** The step-by-step matrix path on FULL arrays: fails exactly when the leading shapes or the rolled
    item shapes do not broadcast; otherwise, at leading index `i`, its values are the per-item product-and-sum of the items
    selected by LEADING-axis broadcasting (`bidx`). -/
theorem dotFull_items (a b : Desc) (A B : Arr Int) (h1 : a.numer ≠ []) (h2 : b.numer ≠ []) :
    match bcast a.shape b.shape, bshape (rolledShape1 a b) (rolledShape2 a b) with
    | some out, some T => ∃ v, dotFull a b A B = some v ∧ v.shape = out ++ T.dropLast ∧
        ∀ i j, a.shape.length ≤ i.length → b.shape.length ≤ i.length → j.length + 1 = T.length → ∀ p,
          mulB (rolled1 a b (itemAt A a.numer a.denom (bidx a.shape i)))
               (rolled2 a b (itemAt B b.numer b.denom (bidx b.shape i))) = some p →
          v.get (i ++ j) = (sumLast p).get j
    | _, _ => dotFull a b A B = none := by
  have l1 : a.numer.length ≥ 1 := List.length_pos_iff.mpr h1
  have l2 : b.numer.length ≥ 1 := List.length_pos_iff.mpr h2
  obtain ⟨hlen, hne⟩ := rolledShape_length a b h1 h2
  have hk1 : a.numer.length - 1 < (padShape1 a b).length := by simp [padShape1]; omega
  have hk2 : 0 + (a.numer.length - 1) < (padShape2 a b).length := by simp [padShape2]; omega
  obtain ⟨s1, g1⟩ := rollEnd_lead (fullPad1 a b A) a.shape (padShape1 a b) (a.numer.length - 1) rfl hk1
  obtain ⟨s2, g2⟩ := rollEnd_lead (fullPad2 a b B) b.shape (padShape2 a b) (0 + (a.numer.length - 1)) rfl hk2
  have hm := map2_lead _ _ a.shape b.shape (rolledShape1 a b) (rolledShape2 a b) s1 s2 hlen
  rw [dotFull_def]
  cases hb : bcast a.shape b.shape with
  | none => rw [hb] at hm; simp only [] at hm ⊢; rw [hm]; rfl
  | some out =>
    cases hT : bshape (rolledShape1 a b) (rolledShape2 a b) with
    | none => rw [hb, hT] at hm; simp only [] at hm ⊢; rw [hm]; rfl
    | some T =>
      rw [hb, hT] at hm
      obtain ⟨v0, hv0, hsh0, hget0⟩ := hm
      have hTlen : T.length = (rolledShape1 a b).length := bshape_length hT
      have hTne : T ≠ [] := by
        intro h; rw [h] at hTlen
        exact hne (List.eq_nil_of_length_eq_zero hTlen.symm)
      obtain ⟨hs, hg⟩ := sumLast_lead v0 out T hsh0 hTne
      refine ⟨sumLast v0, by rw [hv0]; rfl, hs, ?_⟩
      intro i j hia hib hj p hp
      rw [hg]
      -- the per-item product
      have hla : (bidx a.shape i).length = a.shape.length := by rw [bidx_length_le]; omega
      have hlb : (bidx b.shape i).length = b.shape.length := by rw [bidx_length_le]; omega
      have hsh1 := rolled1_shape a b (itemAt A a.numer a.denom (bidx a.shape i)) rfl rfl
      have hsh2 := rolled2_shape a b (itemAt B b.numer b.denom (bidx b.shape i)) rfl rfl
      have hp' : p = ⟨T, fun k =>
          (rolled1 a b (itemAt A a.numer a.denom (bidx a.shape i))).get (bz (rolledShape1 a b) k) *
          (rolled2 a b (itemAt B b.numer b.denom (bidx b.shape i))).get (bz (rolledShape2 a b) k)⟩ := by
        simp only [mulB, hsh1, hsh2, hT, Option.map_some, Option.some.injEq] at hp
        exact hp.symm
      subst hp'
      simp only [sumLast]
      have hlast : (out ++ T).getLastD 0 = T.getLastD 0 := by
        simp [List.getLastD_eq_getLast?, List.getLast?_append]
        cases h : T.getLast? with
        | none => simp [List.getLast?_eq_none_iff] at h; exact absurd h hTne
        | some v => simp
      congr 1
      funext t
      have hjt : (j ++ [t]).length = (rolledShape1 a b).length := by simp; omega
      rw [hget0 i (j ++ [t]) hjt]
      have hpos : (rolledShape1 a b).length ≥ 1 := List.length_pos_iff.mpr hne
      have hz1 : bz (rolledShape1 a b) (j ++ [t]) ≠ [] := by
        intro h
        have hl : (bz (rolledShape1 a b) (j ++ [t])).length
            = min (rolledShape1 a b).length (j ++ [t]).length := by simp [bz]
        rw [h, hjt] at hl
        simp at hl
        omega
      have hz2 : bz (rolledShape2 a b) (j ++ [t]) ≠ [] := by
        intro h
        have hl : (bz (rolledShape2 a b) (j ++ [t])).length
            = min (rolledShape2 a b).length (j ++ [t]).length := by simp [bz]
        rw [h, hjt, ← hlen] at hl
        simp at hl
        omega
      rw [g1 (bidx a.shape i) _ hla hz1, g2 (bidx b.shape i) _ hlb hz2,
        fullPad1_item a b A _ hla, fullPad2_item a b B _ hlb]
      rfl

end PMV.Dispatch
