import PMV.Lemmas.IndexProg
import PMV.Lemmas.IndexEntries
/-
  C09 — basic index tuples (None / Ellipsis / slices / integers / single booleans), any rank:
  the progressive reading of `_prep_index`'s loop, NumPy's resolution of the prepared index and
  the specification's resolution of the original index agree entry by entry.
-/
namespace PMV.Index
open PMV PMV.NpIndex

def Entry.isBasic : Entry → Bool
  | .none => true | .ell => true | .slice _ _ => true | .int _ _ => true | .bool _ _ => true
  | _ => false

/-- the NumPy atom a specification atom corresponds to (a flagged integer is read at the safe index 0) -/
def SAtom.toAtom : SAtom → Atom
  | .axis l _ => .plain l
  | .new => .newaxis
  | .fix _ k => .adv [] (fun _ => [k.getD 0]) true
  | .arr sh f _ => .adv sh f true

/-! unfolding lemmas -/
theorem atoms_newaxis (sh : Shape) (w : Nat) (r : List NEntry) :
    atoms sh w (.newaxis :: r) = (atoms sh w r).map (Atom.newaxis :: ·) := by
  cases sh <;> simp [atoms]

theorem atoms_ell (sh : Shape) (w : Nat) (r : List NEntry) :
    atoms sh w (.ell :: r) =
      (atoms (sh.drop w) w r).map (((sh.take w).map fun n => Atom.plain (List.range n)) ++ ·) := by
  cases sh <;> simp [atoms]

theorem specAtoms_none (sh : Shape) (w : Nat) (r : List Entry) :
    specAtoms w sh (.none :: r) = (specAtoms w sh r).map (SAtom.new :: ·) := by
  cases sh <;> simp [specAtoms]

theorem specAtoms_ell (sh : Shape) (w : Nat) (r : List Entry) :
    specAtoms w sh (.ell :: r) =
      (specAtoms w (sh.drop w) r).map (((sh.take w).map fun n => SAtom.axis (List.range n) false) ++ ·) := by
  cases sh <;> simp [specAtoms]

theorem specAtoms_nil_cons (w : Nat) (e : Entry) (r : List Entry) (he : e ≠ .none) (he' : e ≠ .ell)
    (hb : ∀ v m, e ≠ .barr v m) : specAtoms w [] (e :: r) = none := by
  cases e <;> simp_all [specAtoms]

theorem specAtoms_cons_cons (w n : Nat) (sh : Shape) (e : Entry) (r : List Entry) (he : e ≠ .none)
    (he' : e ≠ .ell) (hb : ∀ v m, e ≠ .barr v m) :
    specAtoms w (n :: sh) (e :: r) =
      (specEntry n e).bind fun a => (specAtoms w sh r).map (a :: ·) := by
  cases e <;> simp_all [specAtoms]

/-- what the progressive loop, NumPy's resolution and the specification's resolution have to do
    with each other on the remaining shape `rest`, the post-mask so far being the scalar `b` -/
def Agree (w : Nat) (es : List Entry) (rest : Shape) (post : PostMask) : Prop :=
  (prog w rest es post = none → specAtoms w rest es = none) ∧
  (∀ pre post' shs, prog w rest es post = some (pre, post', shs) →
    (specAtoms w rest es = none → atoms rest w pre = none) ∧
    (∀ sats, specAtoms w rest es = some sats →
      post' = (if SAtom.flag sats [] then .all true else post) ∧
      (sats.all SAtom.ok = true → atoms rest w pre = some (sats.map SAtom.toAtom))))

theorem agree_nil (w : Nat) (rest : Shape) (b : PostMask) : Agree w [] rest b := by
  refine ⟨fun h => by simp [prog] at h, ?_⟩
  intro pre post' shs h
  simp only [prog, Option.some.injEq, Prod.mk.injEq] at h
  obtain ⟨rfl, rfl, rfl⟩ := h
  cases rest with
  | nil =>
    refine ⟨fun h => by simp [specAtoms] at h, ?_⟩
    intro sats hs
    simp only [specAtoms, Option.some.injEq] at hs
    subst hs
    exact ⟨by simp [SAtom.flag], fun _ => by simp [atoms]⟩
  | cons n sh =>
    exact ⟨fun _ => by simp [atoms], fun sats hs => by simp [specAtoms] at hs⟩

/-- one entry that produces no array: if the three readings step alike, agreement propagates -/
theorem agree_step (w : Nat) (es : List Entry) (rest rest' : Shape) (b : PostMask) (fl : Bool) (e : Entry)
    (p : NEntry) (u : PostUpd) (sa : List SAtom)
    (so : Option Shape) (hpe : prepEntry rest 0 e = some (p, u, so))
    (hu : u.apply b = some (if fl then .all true else b))
    (hdrop : rest.drop (e.padv w) = rest')
    (hspec : specAtoms w rest (e :: es) = (specAtoms w rest' es).map (sa ++ ·))
    (hat1 : ∀ ps, sa.all SAtom.ok = true →
      atoms rest w (p :: ps) = (atoms rest' w ps).map (sa.map SAtom.toAtom ++ ·))
    (hat2 : ∀ ps, atoms rest' w ps = none → atoms rest w (p :: ps) = none)
    (hflag : ∀ x, SAtom.flag (sa ++ x) [] = (fl || SAtom.flag x []))
    (ih : Agree w es rest' (if fl then .all true else b)) : Agree w (e :: es) rest b := by
  obtain ⟨ih1, ih2⟩ := ih
  have hprog : prog w rest (e :: es) b =
      match prog w rest' es (if fl then .all true else b) with
      | none => none
      | some (ps, post'', ss) => some (p :: ps, post'', so.toList ++ ss) := by
    simp only [prog, hpe, hu, hdrop]
    cases prog w rest' es (if fl then .all true else b) with
    | none => rfl
    | some x => obtain ⟨ps, po, ss⟩ := x; simp
  constructor
  · intro h
    rw [hprog] at h
    cases hp : prog w rest' es (if fl then .all true else b) with
    | none => rw [hspec, ih1 hp]; rfl
    | some x => obtain ⟨ps, po, ss⟩ := x; simp [hp] at h
  · intro pre post' shs h
    rw [hprog] at h
    cases hp : prog w rest' es (if fl then .all true else b) with
    | none => simp [hp] at h
    | some x =>
      obtain ⟨ps, po, ss⟩ := x
      simp only [hp, Option.some.injEq, Prod.mk.injEq] at h
      obtain ⟨rfl, rfl, rfl⟩ := h
      obtain ⟨j2, j3⟩ := ih2 ps po ss hp
      refine ⟨?_, ?_⟩
      · intro hn
        rw [hspec] at hn
        have : specAtoms w rest' es = none := by
          cases hs : specAtoms w rest' es with
          | none => rfl
          | some _ => simp [hs] at hn
        exact hat2 ps (j2 this)
      · intro sats hs
        rw [hspec] at hs
        cases hs' : specAtoms w rest' es with
        | none => simp [hs'] at hs
        | some sats' =>
          simp only [hs', Option.map_some, Option.some.injEq] at hs
          subst hs
          obtain ⟨k1, k2⟩ := j3 sats' hs'
          refine ⟨?_, ?_⟩
          · rw [k1, hflag]; cases fl <;> cases SAtom.flag sats' [] <;> simp
          · intro hok
            rw [List.all_append, Bool.and_eq_true] at hok
            rw [hat1 ps hok.1, k2 hok.2]
            simp

/-- an entry the loop accepts but neither the specification nor NumPy does (slice coordinates
    outside the axis — excluded by the harness's abstraction of slices) -/
theorem agree_dead (w : Nat) (es : List Entry) (rest : Shape) (b : PostMask) (e : Entry)
    (p : NEntry) (u : PostUpd) (so : Option Shape) (hpe : prepEntry rest 0 e = some (p, u, so))
    (hspec : specAtoms w rest (e :: es) = none) (hat : ∀ ps, atoms rest w (p :: ps) = none) :
    Agree w (e :: es) rest b := by
  refine ⟨fun _ => hspec, ?_⟩
  intro pre post' shs h
  simp only [prog, hpe] at h
  cases hu : u.apply b with
  | none => simp [hu] at h
  | some po =>
    simp only [hu] at h
    cases hp : prog w (rest.drop (e.padv w)) es po with
    | none => simp [hp] at h
    | some x =>
      obtain ⟨ps, po', ss⟩ := x
      simp only [hp, Option.some.injEq, Prod.mk.injEq] at h
      obtain ⟨rfl, _, _⟩ := h
      exact ⟨fun _ => hat ps, fun sats hs => by rw [hspec] at hs; simp at hs⟩

/-- an entry the loop rejects -/
theorem agree_reject (w : Nat) (es : List Entry) (rest : Shape) (b : PostMask) (e : Entry)
    (hpe : prepEntry rest 0 e = none) (hspec : specAtoms w rest (e :: es) = none) :
    Agree w (e :: es) rest b := by
  refine ⟨fun _ => hspec, ?_⟩
  intro pre post' shs h
  simp [prog, hpe] at h

theorem flag_axes_append (L : List Nat) (x : List SAtom) (ac : Index) :
    SAtom.flag (L.map (fun n => SAtom.axis (List.range n) false) ++ x) ac = SAtom.flag x ac := by
  induction L with
  | nil => rfl
  | cons n L ih => simp [SAtom.flag, ih]

theorem range_all_lt (n : Nat) : (List.range n).all (· < n) = true := by
  simp [List.all_eq_true]

theorem range_min_all_lt (n : Nat) : (List.range (min 1 n)).all (· < n) = true := by
  simp only [List.all_eq_true, List.mem_range, decide_eq_true_eq]
  intro x hx; omega

/-- **basic entries agree**: for every list of None / Ellipsis / slice / integer / single-boolean
    entries and every remaining shape -/
theorem agree_basic (w : Nat) : ∀ (es : List Entry), es.all Entry.isBasic = true →
    ∀ (rest : Shape) (b : PostMask), Agree w es rest b := by
  intro es
  induction es with
  | nil => intro _ rest b; exact agree_nil w rest b
  | cons e es ih =>
    intro hb rest b
    simp only [List.all_cons, Bool.and_eq_true] at hb
    obtain ⟨hbe, hbs⟩ := hb
    cases e with
    | none =>
      refine agree_step w es rest rest b false .none .newaxis .keep [SAtom.new] none
        (by simp [prepEntry]) (by simp [PostUpd.apply]) (by simp [Entry.padv, Entry.isEll, Entry.advance])
        (by rw [specAtoms_none]; rfl) (fun ps _ => by rw [atoms_newaxis]; rfl)
        (fun ps h => by rw [atoms_newaxis, h]; rfl) (fun x => by simp [SAtom.flag]) ?_
      simpa using ih hbs rest b
    | ell =>
      refine agree_step w es rest (rest.drop w) b false .ell .ell .keep
        ((rest.take w).map fun n => SAtom.axis (List.range n) false) none
        (by simp [prepEntry]) (by simp [PostUpd.apply]) (by simp [Entry.padv, Entry.isEll])
        (by rw [specAtoms_ell]) (fun ps _ => by rw [atoms_ell]; simp [List.map_map, Function.comp_def, SAtom.toAtom])
        (fun ps h => by rw [atoms_ell, h]; rfl) (fun x => by rw [Bool.false_or]; exact flag_axes_append _ x []) ?_
      simpa using ih hbs (rest.drop w) b
    | slice full l =>
      cases rest with
      | nil => exact agree_reject w es [] b _ (by simp [prepEntry]) (specAtoms_nil_cons w _ es (by simp) (by simp) (by simp))
      | cons n sh =>
        by_cases hl : l.all (· < n) = true
        · refine agree_step w es (n :: sh) sh b false (.slice full l) (.coords l) .keep [SAtom.axis l false] none
            (by simp [prepEntry]) (by simp [PostUpd.apply])
            (by simp [Entry.padv, Entry.isEll, Entry.advance])
            (by rw [specAtoms_cons_cons w n sh _ es (by simp) (by simp) (by simp)]; simp [specEntry, hl])
            (fun ps _ => by simp [atoms, hl, SAtom.toAtom]) (fun ps h => by simp [atoms, hl, h])
            (fun x => by simp [SAtom.flag]) ?_
          simpa using ih hbs sh b
        · exact agree_dead w es (n :: sh) b (.slice full l) (.coords l) .keep none (by simp [prepEntry])
            (by rw [specAtoms_cons_cons w n sh _ es (by simp) (by simp) (by simp)]; simp [specEntry, hl])
            (fun ps => by simp [atoms, hl])
    | bool v m =>
      cases rest with
      | nil => exact agree_reject w es [] b _ (by simp [prepEntry]) (specAtoms_nil_cons w _ es (by simp) (by simp) (by simp))
      | cons n sh =>
        have hsp := specAtoms_cons_cons w n sh (.bool v m) es (by simp) (by simp) (by simp)
        cases m with
        | true =>
          refine agree_step w es (n :: sh) sh b true (.bool v true) (.coords (List.range (min 1 n))) .setTrue
            [SAtom.axis (List.range (min 1 n)) true] none
            (by simp [prepEntry, prepBool]) (by simp [PostUpd.apply])
            (by simp [Entry.padv, Entry.isEll, Entry.advance])
            (by rw [hsp]; simp [specEntry])
            (fun ps _ => by simp [atoms, range_min_all_lt, SAtom.toAtom])
            (fun ps h => by simp [atoms, range_min_all_lt, h])
            (fun x => by simp [SAtom.flag]) ?_
          exact ih hbs sh (.all true)
        | false =>
          cases v with
          | true =>
            refine agree_step w es (n :: sh) sh b false (.bool true false) (.coords (List.range n)) .keep
              [SAtom.axis (List.range n) false] none
              (by simp [prepEntry, prepBool]) (by simp [PostUpd.apply])
              (by simp [Entry.padv, Entry.isEll, Entry.advance])
              (by rw [hsp]; simp [specEntry])
              (fun ps _ => by simp [atoms, range_all_lt, SAtom.toAtom])
              (fun ps h => by simp [atoms, range_all_lt, h])
              (fun x => by simp [SAtom.flag]) ?_
            simpa using ih hbs sh b
          | false =>
            refine agree_step w es (n :: sh) sh b false (.bool false false) (.coords []) .keep
              [SAtom.axis [] false] none
              (by simp [prepEntry, prepBool]) (by simp [PostUpd.apply])
              (by simp [Entry.padv, Entry.isEll, Entry.advance])
              (by rw [hsp]; simp [specEntry])
              (fun ps _ => by simp [atoms, SAtom.toAtom])
              (fun ps h => by simp [atoms, h])
              (fun x => by simp [SAtom.flag]) ?_
            simpa using ih hbs sh b
    | int k m =>
      cases rest with
      | nil => exact agree_reject w es [] b _ (by simp [prepEntry]) (specAtoms_nil_cons w _ es (by simp) (by simp) (by simp))
      | cons n sh =>
        have hsp := specAtoms_cons_cons w n sh (.int k m) es (by simp) (by simp) (by simp)
        obtain ⟨h1, h2⟩ := int_entry_exact n k m
        cases hf : intFlag n k m with
        | false =>
          obtain ⟨j, hj, hn⟩ := h1 hf
          have hm : m = false ∧ (normIdx n k).isNone = false := by
            simpa [intFlag] using hf
          obtain ⟨jj, hjj⟩ : ∃ jj, normIdx n k = some jj := by
            cases hq : normIdx n k with
            | none => simp [hq] at hm
            | some jj => exact ⟨jj, rfl⟩
          refine agree_step w es (n :: sh) sh b false (.int k m) (.int j) .keep [SAtom.fix n (some jj)] none
            (by simp [prepEntry, hj]) (by simp [PostUpd.apply])
            (by simp [Entry.padv, Entry.isEll, Entry.advance])
            (by rw [hsp]; simp [specEntry, hm.1, hjj])
            (fun ps _ => by simp [atoms, hn, hjj, SAtom.toAtom])
            (fun ps h => by simp [atoms, hn, hjj, h])
            (fun x => by simp [SAtom.flag]) ?_
          simpa using ih hbs sh b
        | true =>
          have hj := h2 hf
          have hk : (if m = true then none else normIdx n k) = none := by
            cases m with
            | true => rfl
            | false =>
              have : (normIdx n k).isNone = true := by simpa [intFlag] using hf
              simpa using this
          refine agree_step w es (n :: sh) sh b true (.int k m) (.int 0) .setTrue [SAtom.fix n none] none
            (by simp [prepEntry, hj]) (by simp [PostUpd.apply])
            (by simp [Entry.padv, Entry.isEll, Entry.advance])
            (by rw [hsp]; simp [specEntry, hk])
            (fun ps hok => by
              have hn : 0 < n := by simpa [SAtom.ok] using hok
              have : normIdx n 0 = some 0 := by simp [normIdx, hn]
              simp [atoms, this, SAtom.toAtom])
            (fun ps h => by
              simp only [atoms]
              cases normIdx n 0 <;> simp [h])
            (fun x => by simp [SAtom.flag]) ?_
          exact ih hbs sh (.all true)
    | _ => simp [Entry.isBasic] at hbe

end PMV.Index
