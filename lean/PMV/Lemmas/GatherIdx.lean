import PMV.Model.Shrink
/-
  Index algebra of NumPy broadcasting (`bidx`, `bcast`) and of antimask selection
  (`trues`, `sel`, `rnk`) used by the C17 theorems.  Core Lean only.
-/
namespace PMV.Shrink
open PMV

/-! ### bidxRev -/

@[simp] theorem bidxRev_nil_left (i : List Nat) : bidxRev [] i = [] := by
  cases i <;> rfl

@[simp] theorem bidxRev_nil_right (s : List Nat) : bidxRev s [] = [] := by
  cases s <;> rfl

@[simp] theorem bidxRev_cons (n : Nat) (s : List Nat) (i : Nat) (is : List Nat) :
    bidxRev (n :: s) (i :: is) = (if n = 1 then 0 else i) :: bidxRev s is := rfl

theorem bidxRev_append : ∀ (s q z : List Nat),
    bidxRev s (q ++ z) = bidxRev (s.take q.length) q ++ bidxRev (s.drop q.length) z
  | s, [], z => by simp
  | [], q :: qs, z => by simp
  | n :: s, q :: qs, z => by
    simp [bidxRev_append s qs z]

theorem bidxRev_idem : ∀ (s j : List Nat), bidxRev s (bidxRev s j) = bidxRev s j
  | [], j => by simp
  | n :: s, [] => by simp
  | n :: s, i :: is => by
    simp only [bidxRev_cons, bidxRev_idem s is]
    split <;> simp_all

/-- reading through the broadcast result and then through an operand = reading through the
    operand (left operand) -/
theorem bidxRev_comp_left : ∀ (s u t j : List Nat), bcastRev s u = some t →
    bidxRev s (bidxRev t j) = bidxRev s j
  | [], u, t, j, _ => by simp
  | x :: xs, [], t, j, h => by
    simp only [bcastRev, Option.some.injEq] at h
    subst h; exact bidxRev_idem _ _
  | x :: xs, y :: ys, t, [], h => by
    cases t <;> simp
  | x :: xs, y :: ys, t, i :: is, h => by
    simp only [bcastRev] at h
    cases hr : bcastRev xs ys with
    | none => simp [hr] at h
    | some r =>
      simp only [hr] at h
      have ih := bidxRev_comp_left xs ys r is hr
      split at h
      · cases h; simp only [bidxRev_cons, ih]; split <;> simp_all
      · split at h
        · cases h; simp_all [bidxRev_cons]
        · split at h
          · cases h; simp only [bidxRev_cons, ih]; split <;> simp_all
          · cases h

theorem bidxRev_comp_right : ∀ (s u t j : List Nat), bcastRev u s = some t →
    bidxRev s (bidxRev t j) = bidxRev s j
  | [], u, t, j, _ => by simp
  | x :: xs, [], t, j, h => by
    simp only [bcastRev, Option.some.injEq] at h
    subst h; exact bidxRev_idem _ _
  | x :: xs, y :: ys, t, [], h => by
    cases t <;> simp
  | x :: xs, y :: ys, t, i :: is, h => by
    simp only [bcastRev] at h
    cases hr : bcastRev ys xs with
    | none => simp [hr] at h
    | some r =>
      simp only [hr] at h
      have ih := bidxRev_comp_right xs ys r is hr
      split at h
      · cases h; simp only [bidxRev_cons, ih]; split <;> simp_all
      · split at h
        · cases h; simp only [bidxRev_cons, ih]; split <;> simp_all
        · split at h
          · cases h; simp_all [bidxRev_cons]
          · cases h

theorem bidxRev_valid : ∀ (s j : List Nat), Valid s j → bidxRev s j = j
  | [], [], _ => rfl
  | [], _ :: _, h => by simp [Valid] at h
  | _ :: _, [], h => by simp [Valid] at h
  | n :: s, i :: is, h => by
    obtain ⟨h1, h2⟩ := h
    simp only [bidxRev_cons, bidxRev_valid s is h2]
    split
    · next hn => subst hn; congr 1; omega
    · rfl

/-! ### bcastRev -/

theorem bcastRev_drop : ∀ (r : Nat) (x y z : List Nat), bcastRev x y = some z →
    bcastRev (x.drop r) (y.drop r) = some (z.drop r)
  | 0, x, y, z, h => by simpa using h
  | r + 1, [], y, z, h => by
    simp only [bcastRev, Option.some.injEq] at h; subst h; simp [bcastRev]
  | r + 1, x :: xs, [], z, h => by
    simp only [bcastRev, Option.some.injEq] at h; subst h
    simp only [List.drop_succ_cons, List.drop_nil]
    cases hd : xs.drop r <;> simp [bcastRev]
  | r + 1, x :: xs, y :: ys, z, h => by
    simp only [bcastRev] at h
    cases hr : bcastRev xs ys with
    | none => simp [hr] at h
    | some w =>
      simp only [hr] at h
      have ih := bcastRev_drop r xs ys w hr
      have : ∃ a, z = a :: w := by
        split at h
        · exact ⟨_, (Option.some.inj h).symm⟩
        · split at h
          · exact ⟨_, (Option.some.inj h).symm⟩
          · split at h
            · exact ⟨_, (Option.some.inj h).symm⟩
            · cases h
      obtain ⟨a, rfl⟩ := this
      simpa using ih

theorem bcastRev_cons_same (n : Nat) (x y : List Nat) :
    bcastRev (n :: x) (n :: y) = (bcastRev x y).map (n :: ·) := by
  simp only [bcastRev]
  cases bcastRev x y <;> simp

theorem bcastRev_self : ∀ (s : List Nat), bcastRev s s = some s
  | [] => rfl
  | n :: s => by simp [bcastRev_cons_same, bcastRev_self s]

/-! ### validity -/

theorem valid_length : ∀ (s i : List Nat), Valid s i → i.length = s.length
  | [], [], _ => rfl
  | [], _ :: _, h => by simp [Valid] at h
  | _ :: _, [], h => by simp [Valid] at h
  | _ :: s, _ :: is, h => by simp [valid_length s is h.2]

theorem valid_append : ∀ (s i t j : List Nat), Valid s i → Valid t j → Valid (s ++ t) (i ++ j)
  | [], [], t, j, _, h => by simpa using h
  | [], _ :: _, _, _, h, _ => by simp [Valid] at h
  | _ :: _, [], _, _, h, _ => by simp [Valid] at h
  | n :: s, i :: is, t, j, h, h' => ⟨h.1, valid_append s is t j h.2 h'⟩

theorem valid_reverse : ∀ (s i : List Nat), Valid s i → Valid s.reverse i.reverse
  | [], [], _ => trivial
  | [], _ :: _, h => by simp [Valid] at h
  | _ :: _, [], h => by simp [Valid] at h
  | n :: s, i :: is, h => by
    simp only [List.reverse_cons]
    exact valid_append _ _ _ _ (valid_reverse s is h.2) ⟨h.1, trivial⟩

theorem mem_indices_valid : ∀ (s : Shape) (i : Index), i ∈ indices s → Valid s i
  | [], i, h => by
    simp only [indices, List.mem_singleton] at h; subst h; trivial
  | n :: s, i, h => by
    simp only [indices, List.mem_flatMap, List.mem_range, List.mem_map] at h
    obtain ⟨k, hk, is, his, rfl⟩ := h
    exact ⟨hk, mem_indices_valid s is his⟩

theorem valid_mem_indices : ∀ (s : Shape) (i : Index), Valid s i → i ∈ indices s
  | [], [], _ => by simp [indices]
  | [], _ :: _, h => by simp [Valid] at h
  | _ :: _, [], h => by simp [Valid] at h
  | n :: s, i :: is, h => by
    simp only [indices, List.mem_flatMap, List.mem_range, List.mem_map]
    exact ⟨i, h.1, is, valid_mem_indices s is h.2, rfl⟩

/-! ### bidx / bcast (un-reversed wrappers) -/

theorem bidx_comp_left (s u t : Shape) (j : Index) (h : bcast s u = some t) :
    bidx s (bidx t j) = bidx s j := by
  unfold bcast at h
  cases hr : bcastRev s.reverse u.reverse with
  | none => simp [hr] at h
  | some r =>
    simp only [hr, Option.map_some, Option.some.injEq] at h
    subst h
    simp only [bidx, List.reverse_reverse]
    rw [bidxRev_comp_left _ _ _ _ hr]

theorem bidx_comp_right (s u t : Shape) (j : Index) (h : bcast u s = some t) :
    bidx s (bidx t j) = bidx s j := by
  unfold bcast at h
  cases hr : bcastRev u.reverse s.reverse with
  | none => simp [hr] at h
  | some r =>
    simp only [hr, Option.map_some, Option.some.injEq] at h
    subst h
    simp only [bidx, List.reverse_reverse]
    rw [bidxRev_comp_right _ _ _ _ hr]

theorem bidx_idem (s : Shape) (j : Index) : bidx s (bidx s j) = bidx s j := by
  simp only [bidx, List.reverse_reverse, bidxRev_idem]

theorem bidx_valid (s : Shape) (j : Index) (h : Valid s j) : bidx s j = j := by
  simp only [bidx, bidxRev_valid _ _ (valid_reverse s j h), List.reverse_reverse]

/-- splitting an index whose trailing part has the length of the trailing part of the shape -/
theorem bidx_append (s t : Shape) (p a : Index) (h : a.length = t.length) :
    bidx (s ++ t) (p ++ a) = bidx s p ++ bidx t a := by
  simp only [bidx, List.reverse_append]
  rw [bidxRev_append]
  simp [h]

/-- an operand with at most as many axes as the trailing index part ignores the leading part -/
theorem bidx_short (s : Shape) (p a : Index) (h : s.length ≤ a.length) :
    bidx s (p ++ a) = bidx s a := by
  simp only [bidx, List.reverse_append]
  rw [bidxRev_append]
  have h1 : List.drop a.length s.reverse = [] := by
    apply List.drop_eq_nil_of_le; simpa using h
  have h2 : List.take a.length s.reverse = s.reverse := by
    apply List.take_of_length_le; simpa using h
  simp [h1, h2]

/-- general split: the trailing `a.length` axes of the shape against `a`, the rest against `p` -/
theorem bidx_split (s : Shape) (p a : Index) :
    bidx s (p ++ a) = bidx (s.take (s.length - a.length)) p ++ bidx (s.drop (s.length - a.length)) a := by
  simp only [bidx, List.reverse_append]
  rw [bidxRev_append]
  by_cases h : a.length ≤ s.length
  · have e : s.length - (s.length - a.length) = a.length := by omega
    simp [List.reverse_take, List.reverse_drop, e]
  · have e : s.length - a.length = 0 := by omega
    have h1 : List.drop a.length s.reverse = [] := by
      apply List.drop_eq_nil_of_le; simp; omega
    have h2 : List.take a.length s.reverse = s.reverse := by
      apply List.take_of_length_le; simp; omega
    simp [e, h1, h2]

theorem bidx_singleton (n k : Nat) (s : Shape) (p : Index) (hk : k < n) :
    bidx (s ++ [n]) (p ++ [k]) = bidx s p ++ [k] := by
  rw [bidx_append _ _ _ _ (by simp)]
  congr 1
  simp only [bidx, List.reverse_cons, List.reverse_nil, List.nil_append, bidxRev_cons,
    bidxRev_nil_left]
  split
  · next h => subst h; simp; omega
  · rfl

/-! ### antimask selection -/

theorem mem_trues {am : Arr Bool} {a : Index} (h : a ∈ trues am) :
    Valid am.shape a ∧ am.get a = true := by
  simp only [trues, List.mem_filter] at h
  exact ⟨mem_indices_valid _ _ h.1, h.2⟩

theorem mem_trues_of {am : Arr Bool} {a : Index} (hv : Valid am.shape a) (hg : am.get a = true) :
    a ∈ trues am := by
  simp only [trues, List.mem_filter]
  exact ⟨valid_mem_indices _ _ hv, hg⟩

theorem rnk_lt {am : Arr Bool} {a : Index} (h : a ∈ trues am) : rnk am a < count am := by
  simp only [rnk, count]
  exact List.idxOf_lt_length_of_mem h

theorem sel_rnk {am : Arr Bool} {a : Index} (h : a ∈ trues am) : sel am (rnk am a) = a := by
  have hlt := rnk_lt h
  simp only [sel, rnk, count] at *
  simp [List.getD, List.getElem?_eq_getElem hlt]

theorem trues_length {am : Arr Bool} {a : Index} (h : a ∈ trues am) :
    a.length = am.shape.length := valid_length _ _ (mem_trues h).1

theorem sel_mem {am : Arr Bool} {k : Nat} (h : k < count am) : sel am k ∈ trues am := by
  simp only [sel, count] at *
  simp [List.getD, List.getElem?_eq_getElem h]

theorem valid_snoc : ∀ (s : Shape) (n : Nat) (i : Index), Valid (s ++ [n]) i →
    ∃ p k, i = p ++ [k] ∧ Valid s p ∧ k < n
  | [], n, [], h => by simp [Valid] at h
  | [], n, [k], h => ⟨[], k, rfl, trivial, h.1⟩
  | [], n, _ :: _ :: _, h => by simp [Valid] at h
  | m :: s, n, [], h => by simp [Valid] at h
  | m :: s, n, i :: is, h => by
    obtain ⟨p, k, rfl, hp, hk⟩ := valid_snoc s n is h.2
    exact ⟨i :: p, k, rfl, ⟨h.1, hp⟩, hk⟩

/-- the kept leading axes, reversed -/
theorem reverse_take_sub (s : List Nat) (r : Nat) :
    (s.take (s.length - r)).reverse = s.reverse.drop r := by
  by_cases h : r ≤ s.length
  · rw [List.reverse_take]; congr 1; omega
  · have e : s.length - r = 0 := by omega
    rw [e, List.take_zero, List.reverse_nil, List.drop_eq_nil_of_le]
    simp; omega

/-- broadcasting commutes with keeping the leading axes in front of `r` trailing ones and with
    appending a common last axis -/
theorem bcast_take_snoc (a b c : Shape) (r n : Nat) (h : bcast a b = some c) :
    bcast (a.take (a.length - r) ++ [n]) (b.take (b.length - r) ++ [n])
      = some (c.take (c.length - r) ++ [n]) := by
  unfold bcast at h ⊢
  cases hr : bcastRev a.reverse b.reverse with
  | none => simp [hr] at h
  | some cr =>
    simp only [hr, Option.map_some, Option.some.injEq] at h
    subst h
    simp only [List.reverse_append, List.reverse_cons, List.reverse_nil, List.nil_append,
      List.singleton_append, reverse_take_sub, bcastRev_cons_same,
      bcastRev_drop r _ _ _ hr, Option.map_some, List.length_reverse]
    have := reverse_take_sub cr.reverse r
    simp only [List.reverse_reverse, List.length_reverse] at this
    rw [← this, List.reverse_reverse]

/-! ### a valid grid index projects onto a valid operand index -/

theorem valid_bidxRev : ∀ (s g j : List Nat), bcastRev s g = some g → Valid g j →
    Valid s (bidxRev s j)
  | [], g, j, _, _ => by simp [Valid]
  | x :: xs, [], j, h, _ => by simp [bcastRev] at h
  | x :: xs, g :: gs, [], _, hv => by simp [Valid] at hv
  | x :: xs, g :: gs, i :: is, h, hv => by
    simp only [bcastRev] at h
    cases hr : bcastRev xs gs with
    | none => simp [hr] at h
    | some r =>
      simp only [hr] at h
      have hx : (x = g ∨ x = 1) ∧ r = gs := by
        split at h
        · next e => cases h; exact ⟨Or.inl e, rfl⟩
        · split at h
          · next e => cases h; exact ⟨Or.inr e, rfl⟩
          · split at h
            · cases h; exact ⟨Or.inl rfl, rfl⟩
            · cases h
      obtain ⟨hx, rfl⟩ := hx
      have ih := valid_bidxRev xs r is hr hv.2
      simp only [bidxRev_cons]
      refine ⟨?_, ih⟩
      split
      · omega
      · rcases hx with e | e
        · subst e; exact hv.1
        · contradiction

theorem valid_bidx (s g : Shape) (j : Index) (h : bcast s g = some g) (hv : Valid g j) :
    Valid s (bidx s j) := by
  unfold bcast at h
  cases hr : bcastRev s.reverse g.reverse with
  | none => simp [hr] at h
  | some r =>
    simp only [hr, Option.map_some, Option.some.injEq] at h
    have : r = g.reverse := by rw [← h]; simp
    subst this
    have := valid_reverse _ _ (valid_bidxRev _ _ _ hr (valid_reverse _ _ hv))
    simpa [bidx] using this

end PMV.Shrink
