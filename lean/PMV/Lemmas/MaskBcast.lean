import PMV.Core.Arr
/-
  Facts about NumPy broadcasting (`bcast`, `bidx` of PMV.Core.Shape) used by the C01 theorems.
  Core Lean only.  Everything is proved on the reversed (innermost-first) lists and transported.
-/
namespace PMV

/-! ### reversed lists -/

theorem bidxRev_idem (s i : List Nat) : bidxRev s (bidxRev s i) = bidxRev s i := by
  induction s generalizing i with
  | nil => cases i <;> rfl
  | cons n s ih =>
    cases i with
    | nil => rfl
    | cons k ks =>
      simp only [bidxRev, ih]
      split <;> simp_all

/-- projecting onto an operand after projecting onto the broadcast shape is projecting onto
    the operand -/
theorem bidxRev_bcastRev (a b o : List Nat) (h : bcastRev a b = some o) (i : List Nat) :
    bidxRev a (bidxRev o i) = bidxRev a i ∧ bidxRev b (bidxRev o i) = bidxRev b i := by
  induction a generalizing b o i with
  | nil =>
    simp only [bcastRev] at h
    cases h
    refine ⟨?_, bidxRev_idem b i⟩
    cases (bidxRev b i) <;> cases i <;> rfl
  | cons x xs ih =>
    cases b with
    | nil =>
      simp only [bcastRev] at h
      cases h
      refine ⟨bidxRev_idem _ i, ?_⟩
      cases (bidxRev (x :: xs) i) <;> cases i <;> rfl
    | cons y ys =>
      simp only [bcastRev] at h
      cases hr : bcastRev xs ys with
      | none => simp [hr] at h
      | some r =>
        simp only [hr] at h
        cases i with
        | nil =>
          have : ∀ z, bidxRev (z :: r) [] = [] := fun _ => rfl
          split at h
          · cases h; exact ⟨rfl, rfl⟩
          · split at h
            · cases h; exact ⟨rfl, rfl⟩
            · split at h
              · cases h; exact ⟨rfl, rfl⟩
              · cases h
        | cons k ks =>
          obtain ⟨i1, i2⟩ := ih ys r hr ks
          split at h
          · cases h
            rename_i hxy
            subst hxy
            simp only [bidxRev, i1, i2]
            constructor <;> (split <;> simp_all)
          · split at h
            · cases h
              rename_i hx1
              subst hx1
              simp only [bidxRev, i1, i2]
              constructor <;> (split <;> simp_all)
            · split at h
              · cases h
                rename_i hy1
                subst hy1
                simp only [bidxRev, i1, i2]
                constructor <;> (split <;> simp_all)
              · cases h

theorem bcastRev_self (s : List Nat) : bcastRev s s = some s := by
  induction s with
  | nil => rfl
  | cons n s ih => simp [bcastRev, ih]

/-- the broadcast shape absorbs its operands -/
theorem bcastRev_absorb (a b o : List Nat) (h : bcastRev a b = some o) :
    bcastRev a o = some o ∧ bcastRev b o = some o := by
  induction a generalizing b o with
  | nil =>
    simp only [bcastRev] at h
    cases h
    exact ⟨rfl, bcastRev_self b⟩
  | cons x xs ih =>
    cases b with
    | nil =>
      simp only [bcastRev] at h
      cases h
      exact ⟨bcastRev_self _, rfl⟩
    | cons y ys =>
      simp only [bcastRev] at h
      cases hr : bcastRev xs ys with
      | none => simp [hr] at h
      | some r =>
        simp only [hr] at h
        obtain ⟨i1, i2⟩ := ih ys r hr
        split at h
        · cases h; rename_i hxy; subst hxy; simp [bcastRev, i1, i2]
        · split at h
          · cases h; rename_i hx1; subst hx1; simp [bcastRev, i1, i2]
          · split at h
            · cases h; rename_i hy1; subst hy1; simp [bcastRev, i1, i2]
            · cases h

/-! ### validity -/

theorem valid_length : ∀ (s i : List Nat), Valid s i → i.length = s.length
  | [], [], _ => rfl
  | [], _ :: _, h => by simp [Valid] at h
  | _ :: _, [], h => by simp [Valid] at h
  | _ :: s, _ :: i, h => by simp [valid_length s i h.2]

theorem valid_append : ∀ (s i : List Nat) (n k : Nat), Valid s i → k < n →
    Valid (s ++ [n]) (i ++ [k])
  | [], [], _, _, _, hk => ⟨hk, trivial⟩
  | [], _ :: _, _, _, h, _ => by simp [Valid] at h
  | _ :: _, [], _, _, h, _ => by simp [Valid] at h
  | _ :: s, _ :: i, n, k, h, hk => ⟨h.1, valid_append s i n k h.2 hk⟩

theorem valid_reverse : ∀ (s i : List Nat), Valid s i → Valid s.reverse i.reverse
  | [], [], _ => trivial
  | [], _ :: _, h => by simp [Valid] at h
  | _ :: _, [], h => by simp [Valid] at h
  | n :: s, k :: i, h => by
    simp only [List.reverse_cons]
    exact valid_append _ _ _ _ (valid_reverse s i h.2) h.1

/-- the projection of a valid result index is a valid operand index -/
theorem valid_bidxRev (a t : List Nat) (h : bcastRev a t = some t) (i : List Nat)
    (hv : Valid t i) : Valid a (bidxRev a i) := by
  induction a generalizing t i with
  | nil => cases i <;> trivial
  | cons x xs ih =>
    cases t with
    | nil => simp [bcastRev] at h
    | cons y ys =>
      cases i with
      | nil => simp [Valid] at hv
      | cons k ks =>
        simp only [bcastRev] at h
        cases hr : bcastRev xs ys with
        | none => simp [hr] at h
        | some r =>
          simp only [hr] at h
          obtain ⟨hk, hks⟩ := hv
          have key : r = ys ∧ (x = y ∨ x = 1) := by
            split at h
            · cases h; rename_i e; exact ⟨rfl, Or.inl e⟩
            · split at h
              · cases h; rename_i e; exact ⟨rfl, Or.inr e⟩
              · split at h
                · rename_i e
                  have := Option.some.inj h
                  injection this with h1 h2
                  exact ⟨h2, Or.inl h1⟩
                · cases h
          obtain ⟨rfl, hx⟩ := key
          refine ⟨?_, ih r hr ks hks⟩
          split
          · omega
          · cases hx with
            | inl e => omega
            | inr e => contradiction

theorem mem_indices : ∀ (s j : List Nat), Valid s j → j ∈ indices s
  | [], [], _ => by simp [indices]
  | [], _ :: _, h => by simp [Valid] at h
  | _ :: _, [], h => by simp [Valid] at h
  | n :: s, k :: ks, h => by
    simp only [indices, List.mem_flatMap, List.mem_range, List.mem_map]
    exact ⟨k, h.1, ks, mem_indices s ks h.2, rfl⟩

/-! ### transport to `bcast` / `bidx` -/

theorem bcast_iff (a b o : Shape) : bcast a b = some o ↔ bcastRev a.reverse b.reverse = some o.reverse := by
  unfold bcast
  cases h : bcastRev a.reverse b.reverse with
  | none => simp
  | some r =>
    simp only [Option.map_some, Option.some.injEq]
    constructor
    · intro e; rw [← e, List.reverse_reverse]
    · intro e; rw [e, List.reverse_reverse]

theorem bidx_bidx_of_bcast (a b o : Shape) (h : bcast a b = some o) (i : Index) :
    bidx a (bidx o i) = bidx a i ∧ bidx b (bidx o i) = bidx b i := by
  have := bidxRev_bcastRev _ _ _ ((bcast_iff a b o).1 h) i.reverse
  unfold bidx
  simp only [List.reverse_reverse, this.1, this.2, and_self]

theorem bidx_idem (s : Shape) (i : Index) : bidx s (bidx s i) = bidx s i := by
  unfold bidx
  simp only [List.reverse_reverse, bidxRev_idem]

theorem bcast_self (s : Shape) : bcast s s = some s := (bcast_iff s s s).2 (bcastRev_self _)

theorem bcast_absorb (a b o : Shape) (h : bcast a b = some o) :
    bcast a o = some o ∧ bcast b o = some o := by
  have := bcastRev_absorb _ _ _ ((bcast_iff a b o).1 h)
  exact ⟨(bcast_iff a o o).2 this.1, (bcast_iff b o o).2 this.2⟩

/-- `s` broadcasts into `t` -/
theorem bidx_bidx_into (s t : Shape) (h : bcast s t = some t) (i : Index) :
    bidx s (bidx t i) = bidx s i := (bidx_bidx_of_bcast s t t h i).1

theorem valid_bidx (s t : Shape) (h : bcast s t = some t) (i : Index) (hv : Valid t i) :
    Valid s (bidx s i) := by
  have h' := (bcast_iff s t t).1 h
  have := valid_bidxRev _ _ h' i.reverse (valid_reverse t i hv)
  have := valid_reverse _ _ this
  simpa [bidx] using this

theorem valid_bidx_self (s : Shape) (i : Index) (hv : Valid s i) : Valid s (bidx s i) :=
  valid_bidx s s (bcast_self s) i hv

end PMV
