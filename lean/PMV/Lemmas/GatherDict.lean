import PMV.Lemmas.GatherCat
import PMV.Lemmas.Bcast
/-
  Derivative dictionaries (`lookupD`, `mapVals`, `mapDerivs`), well-formed objects (every
  derivative has the parent's shape), `broadcast_to`, `insert_deriv`, `masked_single` and the
  NumPy `np.any` / `np.all` enumerations, as used by the C17 theorems.  Core Lean only.
-/
namespace PMV.Shrink
open PMV
set_option linter.unusedSectionVars false

/-! ### dictionaries -/

theorem lookupD_mapVals {α β : Type} (f : α → β) (ds : List (String × α)) (k : String) :
    lookupD (mapVals f ds) k = (lookupD ds k).map f := by
  induction ds with
  | nil => rfl
  | cons p ds ih =>
    obtain ⟨k', d⟩ := p
    simp only [mapVals, lookupD, ih]
    split <;> rfl

theorem keys_mapVals {α β : Type} (f : α → β) (ds : List (String × α)) :
    (mapVals f ds).map (·.1) = ds.map (·.1) := by
  induction ds with
  | nil => rfl
  | cons p ds ih => obtain ⟨k', d⟩ := p; simp [mapVals, ih]

theorem lookupD_mapDerivs {α β : Type} (g : α → Option β) : ∀ (ds : List (String × α))
    (ds2 : List (String × β)), mapDerivs g ds = some ds2 →
    ∀ k, lookupD ds2 k = (lookupD ds k).bind g
  | [], ds2, h, k => by simp only [mapDerivs, Option.some.injEq] at h; subst h; rfl
  | (k', d) :: rest, ds2, h, k => by
    simp only [mapDerivs] at h
    cases h1 : g d <;> simp only [h1] at h
    · cases h
    · cases h2 : mapDerivs g rest <;> simp only [h2] at h
      · cases h
      · cases h
        simp only [lookupD, lookupD_mapDerivs g rest _ h2 k]
        split
        · simp [h1]
        · rfl

theorem keys_mapDerivs {α β : Type} (g : α → Option β) : ∀ (ds : List (String × α))
    (ds2 : List (String × β)), mapDerivs g ds = some ds2 → ds2.map (·.1) = ds.map (·.1)
  | [], ds2, h => by simp only [mapDerivs, Option.some.injEq] at h; subst h; rfl
  | (k', d) :: rest, ds2, h => by
    simp only [mapDerivs] at h
    cases h1 : g d <;> simp only [h1] at h
    · cases h
    · cases h2 : mapDerivs g rest <;> simp only [h2] at h
      · cases h
      · cases h; simp [keys_mapDerivs g rest _ h2]

theorem lookupD_none_of_keys {α β : Type} (ds : List (String × α)) (ds2 : List (String × β))
    (h : ds2.map (·.1) = ds.map (·.1)) (k : String) :
    (lookupD ds2 k).isSome = (lookupD ds k).isSome := by
  induction ds generalizing ds2 with
  | nil => cases ds2 <;> simp_all [lookupD]
  | cons p ds ih =>
    cases ds2 with
    | nil => simp at h
    | cons q ds2 =>
      obtain ⟨k1, d1⟩ := p; obtain ⟨k2, d2⟩ := q
      simp only [List.map_cons, List.cons.injEq] at h
      obtain ⟨e, h⟩ := h
      subst e
      simp only [lookupD]
      split
      · rfl
      · exact ih ds2 h

theorem lookupD_mapDerivs_some {α β : Type} (g : α → Option β) : ∀ (ds : List (String × α))
    (ds2 : List (String × β)), mapDerivs g ds = some ds2 → ∀ k d, lookupD ds k = some d →
    ∃ d2, g d = some d2 ∧ lookupD ds2 k = some d2
  | [], _, _, k, d, hk => by simp [lookupD] at hk
  | (k', d') :: rest, ds2, h, k, d, hk => by
    simp only [mapDerivs] at h
    cases h1 : g d' <;> simp only [h1] at h
    · cases h
    · cases h2 : mapDerivs g rest <;> simp only [h2] at h
      · cases h
      · cases h
        simp only [lookupD] at hk ⊢
        split at hk
        · next e => cases hk; exact ⟨_, h1, by simp [e]⟩
        · next e =>
          obtain ⟨d2, hg, hl⟩ := lookupD_mapDerivs_some g rest _ h2 k d hk
          exact ⟨d2, hg, by simp [e, hl]⟩

theorem lookupD_mapDerivs_none {α β : Type} (g : α → Option β) (ds : List (String × α))
    (ds2 : List (String × β)) (h : mapDerivs g ds = some ds2) (k : String) (hk : lookupD ds k = none) :
    lookupD ds2 k = none := by
  rw [lookupD_mapDerivs g ds ds2 h k, hk]; rfl

variable {K : Type} [Inhabited K]

/-! ### cells in terms of `dcellAt` -/

/-- every derivative has the leading shape of its parent (`insert_deriv` enforces it) -/
def Q.WF (x : Q K) : Prop := ∀ k d, lookupD x.derivs k = some d → d.obj.shape = x.obj.shape

def derivAt (ds : List (String × DObj K)) (k : String) (i : Index) : DCell K :=
  match lookupD ds k with
  | some d => d.obj.dcellAt i
  | none => noDeriv

theorem cellAt_eq (x : Q K) (i : Index) :
    x.cellAt i = ⟨(x.obj.dcellAt i).v, (x.obj.dcellAt i).m, fun k => derivAt x.derivs k i⟩ := rfl

/-- two objects have the same elements at a pair of indices if their arrays and the arrays of
    their derivatives do -/
theorem cellAt_congr (x y : Q K) (i j : Index) (h0 : x.obj.dcellAt i = y.obj.dcellAt j)
    (hd : ∀ k, derivAt x.derivs k i = derivAt y.derivs k j) : x.cellAt i = y.cellAt j := by
  rw [cellAt_eq, cellAt_eq, h0]
  congr 1
  funext k; exact hd k

theorem dcell_obs_iff (x y : DCell K) : x.obs = y.obs ↔ x.m = y.m ∧ (x.m = false → x.v = y.v) := by
  obtain ⟨xv, xm⟩ := x; obtain ⟨yv, ym⟩ := y
  cases xm <;> cases ym <;> simp [DCell.obs]

/-! ### np.any / np.all -/

theorem anyOver_of_mem {s : Shape} {p : Index → Bool} {i : Index} (hi : Valid s i) (hp : p i = true) :
    anyOver s p = true := by
  simp only [anyOver, List.any_eq_true]
  exact ⟨i, valid_mem_indices _ _ hi, hp⟩

theorem allOver_at {s : Shape} {p : Index → Bool} (h : allOver s p = true) {i : Index} (hi : Valid s i) :
    p i = true := by
  simp only [allOver, List.all_eq_true] at h
  exact h i (valid_mem_indices _ _ hi)

theorem anyOver_false_at {s : Shape} {p : Index → Bool} (h : anyOver s p = false) {i : Index}
    (hi : Valid s i) : p i = false := by
  cases hp : p i with
  | false => rfl
  | true => rw [anyOver_of_mem hi hp] at h; cases h

/-! ### broadcast_to -/

theorem Obj.bto_spec (o o2 : Obj K) (s : Shape) (h : o.bto s = some o2) :
    o2.shape = s ∧ ∀ j, o2.dcellAt (bidx s j) = o.dcellAt (bidx o.shape j) := by
  unfold Obj.bto at h
  by_cases e : s = o.shape
  · simp only [e, ↓reduceIte, Option.some.injEq] at h
    subst h; exact ⟨e.symm, fun j => by rw [e]⟩
  · simp only [e, ↓reduceIte] at h
    by_cases e2 : bcast o.shape s = some s
    · simp only [e2, ↓reduceIte, Option.some.injEq] at h
      subst h
      refine ⟨rfl, fun j => ?_⟩
      simp only [Obj.dcellAt, Obj.maskAt, bidx_comp_left _ _ _ _ e2]
    · simp [e2] at h

theorem Obj.bto_rep (o o2 : Obj K) (s : Shape) (h : o.bto s = some o2) : o2.rep = o.rep := by
  unfold Obj.bto at h
  by_cases e : s = o.shape
  · simp only [e, ↓reduceIte, Option.some.injEq] at h; subst h; rfl
  · simp only [e, ↓reduceIte] at h
    by_cases e2 : bcast o.shape s = some s
    · simp only [e2, ↓reduceIte, Option.some.injEq] at h; subst h; rfl
    · simp [e2] at h

theorem Q.bto_rep (x x2 : Q K) (s : Shape) (h : x.bto s = some x2) : x2.obj.rep = x.obj.rep := by
  unfold Q.bto at h
  by_cases e : s = x.obj.shape
  · simp only [e, ↓reduceIte, Option.some.injEq] at h; subst h; rfl
  · simp only [e, ↓reduceIte] at h
    cases ho : x.obj.bto s <;> simp only [ho] at h
    · cases h
    · cases hd : mapDerivs (fun (d : DObj K) => (d.obj.bto s).map fun o => (⟨o, true, .none⟩ : DObj K))
          x.derivs <;> simp only [hd] at h
      · cases h
      · cases h; exact Obj.bto_rep _ _ _ ho

theorem Obj.bto_fits (o o2 : Obj K) (s : Shape) (h : o.bto s = some o2) : bcast o.shape s = some s := by
  unfold Obj.bto at h
  by_cases e : s = o.shape
  · rw [e]; exact PMV.bcast_self _
  · simp only [e, ↓reduceIte] at h
    by_cases e2 : bcast o.shape s = some s
    · exact e2
    · simp [e2] at h

theorem Q.bto_spec (x x2 : Q K) (s : Shape) (hwf : x.WF) (h : x.bto s = some x2) :
    x2.obj.shape = s ∧ x2.WF ∧ x2.keys = x.keys ∧ x2.cls = x.cls ∧ bcast x.obj.shape s = some s ∧
      ∀ j, x2.cellB j = x.cellB j := by
  unfold Q.bto at h
  by_cases e : s = x.obj.shape
  · simp only [e, ↓reduceIte, Option.some.injEq] at h
    subst h; exact ⟨e.symm, hwf, rfl, rfl, by rw [e]; exact PMV.bcast_self _, fun _ => rfl⟩
  · simp only [e, ↓reduceIte] at h
    cases ho : x.obj.bto s <;> simp only [ho] at h
    · cases h
    · next o =>
      cases hd : mapDerivs (fun (d : DObj K) => (d.obj.bto s).map fun o => (⟨o, true, .none⟩ : DObj K))
          x.derivs <;> simp only [hd] at h
      · cases h
      · next ds =>
        cases h
        obtain ⟨hs, hc⟩ := Obj.bto_spec _ _ _ ho
        have hl := lookupD_mapDerivs _ _ _ hd
        refine ⟨hs, ?_, ?_, rfl, Obj.bto_fits _ _ _ ho, ?_⟩
        · intro k d hk
          rw [hl k] at hk
          cases hx : lookupD x.derivs k <;> simp only [hx, Option.bind_none, Option.bind_some] at hk
          · cases hk
          · next d0 =>
            cases hb : d0.obj.bto s <;> simp only [hb, Option.map_none, Option.map_some] at hk
            · cases hk
            · cases hk; exact (Obj.bto_spec _ _ _ hb).1.trans hs.symm
        · simp only [Q.keys]; exact keys_mapDerivs _ _ _ hd
        · intro j
          simp only [Q.cellB, hs]
          apply cellAt_congr
          · exact hc j
          · intro k
            simp only [derivAt, hl k]
            cases hx : lookupD x.derivs k <;> simp only [Option.bind_none, Option.bind_some]
            · next d0 =>
              have hsh := hwf k d0 hx
              cases hb : d0.obj.bto s <;> simp only [Option.map_none, Option.map_some]
              · -- impossible: mapDerivs succeeded
                exfalso
                have := hl k
                simp only [hx, Option.bind_some, hb, Option.map_none] at this
                have h2 := lookupD_none_of_keys x.derivs ds (keys_mapDerivs _ _ _ hd) k
                simp [this, hx] at h2
              · rw [(Obj.bto_spec _ _ _ hb).2 j, hsh]

/-! ### insert_deriv -/

theorem insertDeriv_spec (sh : Shape) (d d2 : DObj K) (h : insertDeriv sh d = some d2) :
    d2.obj.shape = sh ∧ ∀ j, d2.obj.dcellAt (bidx sh j) = d.obj.dcellAt (bidx d.obj.shape j) := by
  unfold insertDeriv at h
  by_cases e : d.obj.shape = sh
  · simp only [e, ↓reduceIte, Option.some.injEq] at h
    subst h; exact ⟨e, fun j => by rw [e]⟩
  · simp only [e, ↓reduceIte] at h
    cases hb : d.obj.bto sh <;> simp only [hb, Option.map_none, Option.map_some] at h
    · cases h
    · cases h; exact Obj.bto_spec _ _ _ hb

/-- a derivative that already has the parent's shape is kept as it is (cache included) -/
theorem insertDeriv_same (sh : Shape) (d : DObj K) (h : d.obj.shape = sh) : insertDeriv sh d = some d := by
  simp [insertDeriv, h]

/-! ### masked_single -/

theorem keys_maskedSingle (df : Dflt K) (x : Q K) : (x.maskedSingle df).keys = x.keys := by
  simp only [Q.keys, Q.maskedSingle]; exact keys_mapVals _ _

theorem maskedSingle_masked (df : Dflt K) (x : Q K) (j : Index) : ((x.maskedSingle df).cellB j).m = true := rfl

theorem maskedSingle_wf (df : Dflt K) (x : Q K) : (x.maskedSingle df).WF := by
  intro k d hk
  simp only [Q.maskedSingle, lookupD_mapVals] at hk
  cases hx : lookupD x.derivs k <;> simp only [hx, Option.map_none, Option.map_some] at hk
  · cases hk
  · cases hk; rfl

theorem cellB_congr (x y : Q K) (h1 : x.obj = y.obj) (h2 : x.derivs = y.derivs) (j : Index) :
    x.cellB j = y.cellB j := by
  simp only [Q.cellB, Q.cellAt, h1, h2]

/-- every element of an all-masked object is masked, read at any valid grid index -/
theorem allMasked_cellB (y : Q K) (h : y.obj.allMasked = true) (G : Shape)
    (hfit : bcast y.obj.shape G = some G) (j : Index) (hj : Valid G j) : (y.cellB j).m = true := by
  simp only [Q.cellB, Q.cellAt, Obj.maskAt]
  unfold Obj.allMasked at h
  cases hr : y.obj.rep <;> simp only [hr] at h ⊢
  · cases h
  · exact allOver_at h (valid_bidx _ _ _ hfit hj)

end PMV.Shrink
