import PMV.Lemmas.FaultsBasic
/-
  C19: per-mutator lemmas — every validation chain raises only documented classes (Ok3) and every plan it
  produces executes to the end (Safe).  Used by PMV/Props/C19.lean.
-/
namespace PMV.Faults
theorem allowed_unsupported (a : Arg) : (unsupported a).allowed = true := by cases a <;> rfl

macro "ok3_step" : tactic => `(tactic| first
  | exact ok3_pure _
  | exact ok3_ok _
  | exact ok3_throw _ rfl
  | exact ok3_error _ rfl
  | exact ok3_guard _ _ rfl
  | exact ok3_guard _ _ (allowed_unsupported _)
  | exact ok3_guard _ _ (by split <;> rfl)
  | exact ok3_throw _ (allowed_unsupported _)
  | exact ok3_error _ (allowed_unsupported _)
  | (refine ok3_bind ?_ (fun _ => ?_))
  | dsimp only [raise]
  | split)

theorem ok3_requireWritable (s : Obj) : Ok3 (requireWritable s) := ok3_guard _ _ rfl
theorem ok3_kernelCheck (s : Obj) (a : Shape) (k : Kind) (al : Bool) : Ok3 (kernelCheck s a k al) := by
  unfold kernelCheck; repeat ok3_step
theorem ok3_asThisType0 (s : Obj) (a : Arg) : Ok3 (asThisType0 s a) := by
  cases a <;> simp only [asThisType0] <;> repeat ok3_step
theorem ok3_asScalar (a : Arg) : Ok3 (asScalar a) := by
  cases a <;> simp only [asScalar] <;> repeat ok3_step
theorem ok3_addDerivs (s a : Obj) : Ok3 (addDerivs s a) := by
  unfold addDerivs
  refine ok3_bind (ok3_filterMapE _ (fun d => ?_) _) (fun _ => ok3_pure _)
  unfold addStep
  repeat ok3_step
theorem ok3_toQubeAdd (s : Obj) (a : Arg) : Ok3 (toQubeAdd s a) := by
  cases a <;> simp only [toQubeAdd, asThisType0] <;> repeat ok3_step
theorem ok3_toScalarArg (a : Arg) : Ok3 (toScalarArg a) := by
  cases a <;> simp only [toScalarArg, asScalar] <;> repeat ok3_step
theorem ok3_vAddQ (s a : Obj) : Ok3 (vAddQ s a) := by
  unfold vAddQ
  repeat (first | exact ok3_kernelCheck _ _ _ _ | exact ok3_addDerivs _ _ | ok3_step)
theorem ok3_vAdd (s : Obj) (a : Arg) : Ok3 (vAdd s a) := by
  unfold vAdd
  repeat (first | exact ok3_requireWritable _ | exact ok3_kernelCheck _ _ _ _ | exact ok3_toQubeAdd _ _ | exact ok3_vAddQ _ _ | ok3_step)

macro "ok3_auto" : tactic => `(tactic| repeat (first
  | exact ok3_requireWritable _ | exact ok3_kernelCheck _ _ _ _ | exact ok3_addDerivs _ _
  | exact ok3_asScalar _ | exact ok3_asThisType0 _ _ | exact ok3_toScalarArg _ | ok3_step))

theorem ok3_mulDerivs (s a : Obj) : Ok3 (mulDerivs s a) := by
  unfold mulDerivs
  refine ok3_bind (ok3_filterMapE _ (fun d => ?_) _) (fun _ => ok3_pure _)
  unfold mulStep
  ok3_auto
theorem ok3_vMulQ (s a : Obj) : Ok3 (vMulQ s a) := by
  unfold vMulQ
  repeat (first | exact ok3_mulDerivs _ _ | exact ok3_kernelCheck _ _ _ _ | ok3_step)
theorem ok3_vMul (s : Obj) (a : Arg) : Ok3 (vMul s a) := by
  unfold vMul
  repeat (first | exact ok3_vMulQ _ _ | exact ok3_requireWritable _ | exact ok3_kernelCheck _ _ _ _ | exact ok3_toScalarArg _ | ok3_step)
theorem ok3_reciprocalOk (a : Obj) : Ok3 (reciprocalOk a) := by
  unfold reciprocalOk; ok3_auto
theorem ok3_vDiv (s : Obj) (a : Arg) : Ok3 (vDiv s a) := by
  unfold vDiv
  repeat (first | exact ok3_vMul _ _ | exact ok3_reciprocalOk _ | exact ok3_requireWritable _ | exact ok3_kernelCheck _ _ _ _ | exact ok3_toScalarArg _ | ok3_step)
theorem ok3_vFloorMod (fl : Bool) (s : Obj) (a : Arg) : Ok3 (vFloorMod fl s a) := by
  unfold vFloorMod; ok3_auto
theorem ok3_vLogic (s : Obj) (a : Arg) : Ok3 (vLogic s a) := by
  unfold vLogic; ok3_auto
theorem ok3_compatibleDeriv (s : Obj) (a : Arg) : Ok3 (compatibleDeriv s a) := by
  cases a <;> simp only [compatibleDeriv] <;> ok3_auto
theorem ok3_vInsertDeriv (s : Obj) (k : String) (a : Arg) (o : Bool) : Ok3 (vInsertDeriv s k a o) := by
  unfold vInsertDeriv
  repeat (first | exact ok3_compatibleDeriv _ _ | ok3_step)
theorem ok3_vInsertDerivs (s : Obj) (ds : List (String × Arg)) (o : Bool) : Ok3 (vInsertDerivs s ds o) := by
  unfold vInsertDerivs
  refine ok3_bind (ok3_guard _ _ rfl) (fun _ => ok3_bind (ok3_mapE _ (fun p => ?_) _) (fun _ => ok3_pure _))
  intro e he
  unfold insStep at he
  split at he
  · cases he
  · next e' he' => cases he; exact ok3_compatibleDeriv _ _ _ he'
theorem ok3_vDeleteDeriv (s : Obj) (k : String) (o : Bool) : Ok3 (vDeleteDeriv s k o) := by
  unfold vDeleteDeriv; ok3_auto
theorem ok3_vDeleteDerivs (s : Obj) (p : List String) (o : Bool) : Ok3 (vDeleteDerivs s p o) := by
  unfold vDeleteDerivs; ok3_auto
theorem ok3_vSetUnits (s : Obj) (u : UArg) (o : Bool) : Ok3 (vSetUnits s u o) := by
  unfold vSetUnits; ok3_auto
theorem ok3_prepIndex (ix : Idx) : Ok3 (prepIndex ix) := by
  cases ix <;> simp only [prepIndex, prepIndexWrapper] <;> ok3_auto
theorem ok3_asThisType (s : Obj) (a : Arg) : Ok3 (asThisType s a) := by
  cases a <;> simp only [asThisType] <;> ok3_auto
theorem ok3_vSetItem (s : Obj) (ix : Idx) (a : Arg) : Ok3 (vSetItem s ix a) := by
  unfold vSetItem
  repeat (first | exact ok3_prepIndex _ | exact ok3_asThisType _ _ | exact ok3_requireWritable _ | ok3_step)


macro "safe_step" : tactic => `(tactic| first
  | exact safe_error _ _
  | exact safe_throw _ _
  | exact safe_raise _ _
  | (refine safe_bind _ (fun _ _ => ?_))
  | dsimp only []
  | split)

/-- the first write of an in-place ufunc: NumPy's own test has already been made by `kernelCheck` -/
theorem valuesWrite_pre (s : Obj) (a : Shape) (k : Kind) (al : Bool) (h : kernelCheck s a k al = .ok ()) :
    (valuesWrite s a k al).pre s = true := by
  unfold kernelCheck at h
  unfold valuesWrite
  by_cases hp : s.pyScalar = true
  · simp [hp, Prim.pre]
  · simp only [hp] at h ⊢
    by_cases hc : castable k s.kind = true
    · by_cases hi : into a (s.lead al) = true
      · simp [Prim.pre, hc, hi, hp]
      · simp [hc, hi] at h
    · simp [hc] at h

theorem valuesWrite_frame (s : Obj) (a : Shape) (k : Kind) (al : Bool) :
    ((valuesWrite s a k al).apply s).frame = s.frame := apply_frame _ _

theorem valuesWrite_derivs (s : Obj) (a : Shape) (k : Kind) (al : Bool) :
    ((valuesWrite s a k al).apply s).derivs = s.derivs := by
  unfold valuesWrite; split <;> rfl

/-- a plan that starts with a checked values write and continues with frame-decided primitives -/
theorem exec_values_then_frame (s : Obj) (a : Shape) (k : Kind) (al : Bool) (rest : List Prim)
    (h : kernelCheck s a k al = .ok ()) (hr : ∀ p ∈ rest, frameOk s.frame p = true) :
    (execAll s (valuesWrite s a k al :: rest)).2 = none := by
  rw [execAll_cons_ok _ _ _ (valuesWrite_pre s a k al h)]
  apply execAll_frame
  intro p hp
  rw [valuesWrite_frame]
  exact hr p hp

theorem frameOk_insertPrims (s : Obj) (nd : List (String × Shape × Shape))
    (hro : s.ro = false) (hd : s.cls.derivsOk = true ∨ nd = [])
    (hsh : ∀ x ∈ nd, into x.2.1 s.shape = true) :
    ∀ p ∈ insertPrims s nd, frameOk s.frame p = true := by
  intro p hp
  simp only [insertPrims, List.mem_map] at hp
  obtain ⟨⟨k, sh, dn⟩, hx, rfl⟩ := hp
  cases hd with
  | inr h => subst h; cases hx
  | inl h =>
    have := hsh _ hx
    simp_all [frameOk, Obj.frame]

theorem addDerivs_shapes (s a : Obj) (nd) (h : addDerivs s a = .ok nd) (hi : into a.shape s.shape = true) :
    ∀ x ∈ nd, into x.2.1 s.shape = true := by
  unfold addDerivs at h
  obtain ⟨both, hb, h⟩ := (bind_ok _ _ _).1 h
  cases h
  intro x hx
  simp only [List.mem_append, List.mem_map] at hx
  rcases hx with (hx | ⟨d, _, rfl⟩) | ⟨d, _, rfl⟩
  · obtain ⟨d, _, hf⟩ := filterMapE_mem _ _ _ hb x hx
    unfold addStep at hf
    split at hf
    · split at hf
      · cases hf; exact into_refl _
      · cases hf
    · cases hf
  · exact into_refl _
  · exact hi

theorem ro_of_writable (s : Obj) (u : Unit) (h : requireWritable s = .ok u) : s.ro = false := by
  have := (guard_ok _ _).1 h; simpa using this

theorem derivsOk_of_ne_boolean (s : Obj) (u : Unit) (h : guard' (s.cls != .boolean) .typeError = .ok u) :
    s.cls.derivsOk = true := by
  have := (guard_ok _ _).1 h
  cases hc : s.cls <;> simp_all [Cls.derivsOk]

theorem safe_vAddQ (s a : Obj) (hro : s.ro = false) (hcls : s.cls.derivsOk = true) : Safe s (vAddQ s a) := by
  unfold vAddQ
  refine safe_bind _ (fun _ _ => ?_)
  refine safe_bind _ (fun _ _ => ?_)
  refine safe_bind _ (fun _ _ => ?_)
  refine safe_bind _ (fun _ hi => ?_)
  refine safe_bind _ (fun _ _ => ?_)
  refine safe_bind _ (fun _ _ => ?_)
  refine safe_bind _ (fun nd hnd => ?_)
  refine safe_bind _ (fun _ hk => ?_)
  have hi' := (guard_ok _ _).1 hi
  apply safe_pure
  refine exec_values_then_frame s _ _ _ _ hk ?_
  intro p hp
  change p ∈ [Prim.setMask, Prim.setUnits _] ++ insertPrims s nd at hp
  rcases List.mem_append.1 hp with h | h
  · simp at h; rcases h with rfl | rfl <;> rfl
  · exact frameOk_insertPrims s nd hro (Or.inl hcls) (addDerivs_shapes s a nd hnd hi') p h

theorem safe_vAdd (s : Obj) (arg : Arg) : Safe s (vAdd s arg) := by
  unfold vAdd
  refine safe_bind _ (fun _ hb => ?_)
  refine safe_bind _ (fun _ hw => ?_)
  have hro := ro_of_writable s _ hw
  have hcls := derivsOk_of_ne_boolean s _ hb
  split
  · refine safe_bind _ (fun _ hk => ?_)
    exact safe_pure _ _ (exec_values_then_frame s _ _ _ [] hk (by simp))
  · refine safe_bind _ (fun a _ => ?_)
    exact safe_vAddQ s a hro hcls

theorem mulDerivs_shapes (s a : Obj) (nd) (h : mulDerivs s a = .ok nd) :
    ∀ x ∈ nd, into x.2.1 s.shape = true := by
  unfold mulDerivs at h
  obtain ⟨fa, hb, h⟩ := (bind_ok _ _ _).1 h
  cases h
  intro x hx
  simp only [List.mem_append, List.mem_map] at hx
  rcases hx with ⟨d, _, rfl⟩ | hx
  · exact into_refl _
  · obtain ⟨d, _, hf⟩ := filterMapE_mem _ _ _ hb x hx
    unfold mulStep at hf
    split at hf
    · cases hf
    · split at hf
      · split at hf <;> cases hf
      · cases hf; exact into_refl _

theorem safe_vMulQ (s a : Obj) (hro : s.ro = false) (hcls : s.cls.derivsOk = true) : Safe s (vMulQ s a) := by
  unfold vMulQ
  split
  · refine safe_bind _ (fun _ _ => ?_)
    refine safe_bind _ (fun _ _ => ?_)
    refine safe_bind _ (fun _ _ => ?_)
    refine safe_bind _ (fun nd hnd => ?_)
    refine safe_bind _ (fun _ hk => ?_)
    apply safe_pure
    refine exec_values_then_frame s _ _ _ _ hk ?_
    intro p hp
    change p ∈ [Prim.setMask, Prim.setUnits _] ++ insertPrims s nd at hp
    rcases List.mem_append.1 hp with h | h
    · simp at h; rcases h with rfl | rfl <;> rfl
    · exact frameOk_insertPrims s nd hro (Or.inl hcls) (mulDerivs_shapes s a nd hnd) p h
  · split
    · split
      · refine safe_bind _ (fun _ _ => ?_)
        refine safe_bind _ (fun _ _ => ?_)
        split
        · exact safe_raise _ _
        · refine safe_bind _ (fun _ hv => ?_)
          refine safe_bind _ (fun nd hnd => ?_)
          apply safe_pure
          have hv' := (guard_ok _ _).1 hv
          rw [List.singleton_append, execAll_cons_ok _ _ _ (by simpa [Prim.pre] using hv')]
          apply execAll_frame
          intro p hp
          rw [apply_frame]
          exact frameOk_insertPrims s nd hro (Or.inl hcls) (mulDerivs_shapes _ _ nd hnd) p hp
      · exact safe_raise _ _
    · exact safe_raise _ _

theorem exec_values_ipDerivs (s : Obj) (k : Kind)
    (hd : s.derivs.all (!·.ro) = true) (hk : kernelCheck s [] k = .ok ()) :
    (execAll s ([valuesWrite s [] k] ++ (if s.derivs.isEmpty then [] else [.ipDerivs]))).2 = none := by
  rw [List.singleton_append, execAll_cons_ok _ _ _ (valuesWrite_pre s _ _ _ hk)]
  split
  · rfl
  · have : (Prim.ipDerivs).pre ((valuesWrite s [] k).apply s) = true := by
      simp only [Prim.pre, valuesWrite_derivs]; exact hd
    rw [execAll_cons_ok _ _ _ this]; rfl

theorem safe_vMul (s : Obj) (arg : Arg) : Safe s (vMul s arg) := by
  unfold vMul
  refine safe_bind _ (fun _ hb => ?_)
  refine safe_bind _ (fun _ hw => ?_)
  have hro := ro_of_writable s _ hw
  have hcls := derivsOk_of_ne_boolean s _ hb
  split
  · split
    · split
      · intro plan hp
        rename_i o _ _
        have hro' : ({ s with } : Obj).ro = false := hro
        exact safe_vMulQ s _ hro hcls plan hp
      · exact safe_raise _ _
    · exact safe_raise _ _
  · split
    · refine safe_bind _ (fun _ hd => ?_)
      refine safe_bind _ (fun _ hk => ?_)
      exact safe_pure _ _ (exec_values_ipDerivs s _ ((guard_ok _ _).1 hd) hk)
    · refine safe_bind _ (fun a _ => ?_)
      exact safe_vMulQ s a hro hcls

theorem safe_vDiv (s : Obj) (arg : Arg) : Safe s (vDiv s arg) := by
  unfold vDiv
  refine safe_bind _ (fun _ _ => ?_)
  refine safe_bind _ (fun _ _ => ?_)
  refine safe_bind _ (fun _ _ => ?_)
  split
  · refine safe_bind _ (fun _ hd => ?_)
    refine safe_bind _ (fun _ hk => ?_)
    exact safe_pure _ _ (exec_values_ipDerivs s _ ((guard_ok _ _).1 hd) hk)
  · refine safe_bind _ (fun a _ => ?_)
    refine safe_bind _ (fun r _ => ?_)
    exact safe_vMul s _

theorem frameOk_floorTail (f : Frame) (fl : Bool) : ∀ p ∈ floorTail fl, frameOk f p = true := by
  intro p hp; cases fl <;> simp [floorTail] at hp; subst hp; rfl

theorem safe_vFloorMod (fl : Bool) (s : Obj) (arg : Arg) : Safe s (vFloorMod fl s arg) := by
  unfold vFloorMod
  refine safe_bind _ (fun _ _ => ?_)
  refine safe_bind _ (fun _ _ => ?_)
  refine safe_bind _ (fun _ _ => ?_)
  split
  · refine safe_bind _ (fun _ hk => ?_)
    apply safe_pure
    rw [List.singleton_append]
    exact exec_values_then_frame s _ _ _ _ hk (frameOk_floorTail _ _)
  · refine safe_bind _ (fun a _ => ?_)
    split
    · refine safe_bind _ (fun _ _ => ?_)
      refine safe_bind _ (fun _ _ => ?_)
      refine safe_bind _ (fun _ hk => ?_)
      apply safe_pure
      refine exec_values_then_frame s _ _ _ _ hk ?_
      intro p hp
      change p ∈ [Prim.setMask, Prim.setUnits _] ++ floorTail fl at hp
      rcases List.mem_append.1 hp with h | h
      · simp at h; rcases h with rfl | rfl <;> rfl
      · exact frameOk_floorTail _ _ p h
    · exact safe_raise _ _

theorem safe_vLogic (s : Obj) (arg : Arg) : Safe s (vLogic s arg) := by
  unfold vLogic
  refine safe_bind _ (fun _ _ => ?_)
  split
  · refine safe_bind _ (fun _ _ => ?_)
    refine safe_bind _ (fun _ _ => ?_)
    refine safe_bind _ (fun _ _ => ?_)
    refine safe_bind _ (fun _ hk => ?_)
    exact safe_pure _ _ (exec_values_then_frame s _ _ _ _ hk (by intro p hp; simp at hp; subst hp; rfl))
  · refine safe_bind _ (fun _ _ => ?_)
    refine safe_bind _ (fun _ _ => ?_)
    refine safe_bind _ (fun _ _ => ?_)
    refine safe_bind _ (fun _ hk => ?_)
    exact safe_pure _ _ (exec_values_then_frame s _ _ _ _ hk (by intro p hp; simp at hp; subst hp; rfl))
  · refine safe_bind _ (fun _ _ => ?_)
    refine safe_bind _ (fun _ hk => ?_)
    exact safe_pure _ _ (exec_values_then_frame s _ _ _ [] hk (by simp))

theorem compatibleDeriv_facts (s : Obj) (d : Arg) (o : Obj) (h : compatibleDeriv s d = .ok o) :
    s.cls.derivsOk = true ∧ (o.numer == s.numer) = true ∧ into o.shape s.shape = true := by
  cases d with
  | q d =>
    simp only [compatibleDeriv] at h
    obtain ⟨_, h1, h⟩ := (bind_ok _ _ _).1 h
    obtain ⟨_, h2, h⟩ := (bind_ok _ _ _).1 h
    obtain ⟨_, h3, h⟩ := (bind_ok _ _ _).1 h
    cases h
    exact ⟨(guard_ok _ _).1 h1, (guard_ok _ _).1 h2, (guard_ok _ _).1 h3⟩
  | num k z => simp only [compatibleDeriv] at h; obtain ⟨_, _, h⟩ := (bind_ok _ _ _).1 h; cases h
  | nd k sh => simp only [compatibleDeriv] at h; obtain ⟨_, _, h⟩ := (bind_ok _ _ _).1 h; cases h
  | bad => simp only [compatibleDeriv] at h; obtain ⟨_, _, h⟩ := (bind_ok _ _ _).1 h; cases h

theorem safe_vInsertDeriv (s : Obj) (key : String) (d : Arg) (ov : Bool) : Safe s (vInsertDeriv s key d ov) := by
  unfold vInsertDeriv
  refine safe_bind _ (fun o ho => ?_)
  refine safe_bind _ (fun _ hg => ?_)
  obtain ⟨h1, h2, h3⟩ := compatibleDeriv_facts s d o ho
  have hg' := (guard_ok _ _).1 hg
  apply safe_pure
  have : (Prim.insertDeriv key o.shape o.numer o.denom true ov).pre s = true := by
    simp only [Prim.pre, h1, h2, h3, hg', Bool.and_self]
  rw [execAll_cons_ok _ _ _ this]; rfl

/-- insert_derivs on a writable object, or with override=True -/
theorem insStep_ok (s : Obj) (p : String × Arg) (k : String) (o : Obj) (h : insStep s p = .ok (k, o)) :
    k = p.1 ∧ compatibleDeriv s p.2 = .ok o := by
  unfold insStep at h
  split at h
  · next o' ho' => cases h; exact ⟨rfl, ho'⟩
  · cases h

theorem mapE_insStep_keys (s : Obj) : ∀ (ds : List (String × Arg)) (os : List (String × Obj)),
    mapE (insStep s) ds = .ok os → os.map (·.1) = ds.map (·.1) := by
  intro ds
  induction ds with
  | nil => intro os h; simp only [mapE] at h; cases h; rfl
  | cons p ps ih =>
    intro os h
    simp only [mapE] at h
    split at h
    · cases h
    · next b hb =>
      split at h
      · cases h
      · next l hl =>
        cases h
        obtain ⟨k, o⟩ := b
        have := (insStep_ok s p k o hb).1
        simp [this, ih l hl]

/-- the part of insert_deriv's precondition that only the frame decides -/
def insCompat (f : Frame) (o : Obj) : Bool := f.cls.derivsOk && (o.numer == f.numer) && into o.shape f.shape

theorem hasKey_after_insert (s : Obj) (k k' : String) (sh nu dn : Shape) (q ov : Bool)
    (hne : k ≠ k') (h : s.hasKey k' = false) :
    ((Prim.insertDeriv k sh nu dn q ov).apply s).hasKey k' = false := by
  simp only [Prim.apply, Obj.hasKey, List.any_append, List.any_filter, List.any_cons, List.any_nil, Bool.or_false]
  simp only [Obj.hasKey] at h
  rw [List.any_eq_false] at h
  have h1 : (s.derivs.any fun x => (x.key != k) && (x.key == k')) = false := by
    rw [List.any_eq_false]
    intro x hx
    have := h x hx
    simp_all
  have h2 : (k == k') = false := by simpa using hne
  simp [h1, h2]

/-- a sequence of insert_deriv calls whose derivatives are all compatible runs to its end: on a writable object,
    with override, or — on a read-only object without override — if the keys are distinct and none is present -/
theorem exec_inserts (ov : Bool) : ∀ (os : List (String × Obj)) (s' : Obj),
    (∀ p ∈ os, insCompat s'.frame p.2 = true) →
    (s'.ro = false ∨ ov = true ∨ ((os.map (·.1)).Nodup ∧ ∀ p ∈ os, s'.hasKey p.1 = false)) →
    (execAll s' (os.map fun p => Prim.insertDeriv p.1 p.2.shape p.2.numer p.2.denom true ov)).2 = none := by
  intro os
  induction os with
  | nil => intro s' _ _; rfl
  | cons p ps ih =>
    intro s' hc hk
    have hp := hc p (by simp)
    simp only [insCompat, Obj.frame, Bool.and_eq_true] at hp
    obtain ⟨⟨h1, h2⟩, h3⟩ := hp
    have hlast : (!(s'.ro && s'.hasKey p.1 && !ov)) = true := by
      rcases hk with h | h | ⟨_, h⟩
      · simp [h]
      · simp [h]
      · simp [h p (by simp)]
    have hpre : (Prim.insertDeriv p.1 p.2.shape p.2.numer p.2.denom true ov).pre s' = true := by
      simp only [Prim.pre, h1, h2, h3, hlast, Bool.and_self]
    rw [List.map_cons, execAll_cons_ok _ _ _ hpre]
    apply ih
    · intro q hq
      rw [apply_frame]
      exact hc q (by simp [hq])
    · rcases hk with h | h | ⟨hnd, h⟩
      · left; show s'.ro = false; exact h
      · right; left; exact h
      · right; right
        simp only [List.map_cons, List.nodup_cons] at hnd
        refine ⟨hnd.2, ?_⟩
        intro q hq
        have hne : p.1 ≠ q.1 := by
          intro he
          exact hnd.1 (by rw [he]; exact List.mem_map_of_mem (f := (·.1)) hq)
        exact hasKey_after_insert s' p.1 q.1 _ _ _ _ _ hne (h q (by simp [hq]))

/-- insert_derivs: FULL — also on a read-only object without override, given that the keys of the dictionary
    are distinct (which is what a Python dict is) -/
theorem safe_vInsertDerivs (s : Obj) (ds : List (String × Arg)) (ov : Bool) (hnd : (ds.map (·.1)).Nodup) :
    Safe s (vInsertDerivs s ds ov) := by
  unfold vInsertDerivs
  refine safe_bind _ (fun _ hg => ?_)
  refine safe_bind _ (fun os hos => ?_)
  apply safe_pure
  apply exec_inserts
  · intro p hp
    obtain ⟨k, o⟩ := p
    obtain ⟨⟨k', d⟩, _, hf⟩ := mapE_mem _ _ _ hos _ hp
    obtain ⟨h1, h2, h3⟩ := compatibleDeriv_facts s d o (insStep_ok s _ k o hf).2
    simp [insCompat, Obj.frame, h1, h2, h3]
  · by_cases hro : s.ro = false
    · exact Or.inl hro
    · by_cases hov : ov = true
      · exact Or.inr (Or.inl hov)
      · right; right
        have hkeys := mapE_insStep_keys s ds os hos
        refine ⟨by rw [hkeys]; exact hnd, ?_⟩
        intro p hp
        have hg' := (guard_ok _ _).1 hg
        have hro' : s.ro = true := by cases h : s.ro <;> simp_all
        have hov' : ov = false := by cases h : ov <;> simp_all
        simp only [hro', hov', Bool.not_false, Bool.true_and, Bool.not_eq_true'] at hg'
        rw [List.any_eq_false] at hg'
        have hmem : p.1 ∈ ds.map (·.1) := by rw [← hkeys]; exact List.mem_map_of_mem (f := (·.1)) hp
        obtain ⟨q, hq, hqk⟩ := List.mem_map.1 hmem
        have := hg' q hq
        rw [← hqk]
        simpa using this

theorem safe_vDeleteDeriv (s : Obj) (key : String) (ov : Bool) : Safe s (vDeleteDeriv s key ov) := by
  unfold vDeleteDeriv
  refine safe_bind _ (fun _ _ => ?_)
  exact safe_pure _ _ rfl

theorem safe_vDeleteDerivs (s : Obj) (pr : List String) (ov : Bool) : Safe s (vDeleteDerivs s pr ov) := by
  unfold vDeleteDerivs
  refine safe_bind _ (fun _ _ => ?_)
  split
  · exact safe_pure _ _ rfl
  · apply safe_pure
    apply execAll_frame
    intro p hp
    simp only [List.mem_map] at hp
    obtain ⟨d, _, rfl⟩ := hp
    rfl

theorem safe_vSetUnits (s : Obj) (u : UArg) (ov : Bool) : Safe s (vSetUnits s u ov) := by
  unfold vSetUnits
  refine safe_bind _ (fun _ _ => ?_)
  refine safe_bind _ (fun _ _ => ?_)
  split
  · exact safe_raise _ _
  · exact safe_pure _ _ rfl
  · refine safe_bind _ (fun _ _ => ?_)
    exact safe_pure _ _ rfl

theorem safe_vSetItem (s : Obj) (ix : Idx) (arg : Arg) : Safe s (vSetItem s ix arg) := by
  unfold vSetItem
  refine safe_bind _ (fun _ hw => ?_)
  have hro := ro_of_writable s _ hw
  refine safe_bind _ (fun sel _ => ?_)
  split
  · exact safe_pure _ _ rfl
  · refine safe_bind _ (fun a _ => ?_)
    refine safe_bind _ (fun _ _ => ?_)
    refine safe_bind _ (fun _ _ => ?_)
    refine safe_bind _ (fun _ hd => ?_)
    refine safe_bind _ (fun _ ha => ?_)
    have hd' := (guard_ok _ _).1 hd
    have ha' := (guard_ok _ _).1 ha
    apply safe_pure
    rw [List.append_assoc, List.cons_append, List.cons_append, List.nil_append]
    rw [execAll_cons_ok _ _ _ (by simpa [Prim.pre] using ha')]
    rw [execAll_cons_ok _ _ _ (by rfl)]
    -- the two writes so far changed neither the frame nor the derivatives
    have tailOk : ∀ s' : Obj, s'.frame = s.frame →
        (execAll s' ((if s.cls.derivsOk then a.derivs.filter fun e => !s.hasKey e.key else []).map
          fun e => Prim.insertDeriv e.key s.shape s.numer e.denom true true)).2 = none := by
      intro s' hs'
      apply execAll_frame
      intro p hp
      simp only [List.mem_map] at hp
      obtain ⟨e, he, rfl⟩ := hp
      rw [hs']
      by_cases hc : s.cls.derivsOk = true
      · simp [frameOk, Obj.frame, hc, into_refl]
      · simp [hc] at he
    split
    · exact tailOk _ rfl
    · rw [List.singleton_append, execAll_cons_ok _ _ _ (by simpa [Prim.pre, Prim.apply] using hd')]
      exact tailOk _ rfl

end PMV.Faults
