import PMV.Lemmas.FaultsBasic
/-
  C19: rejection lemmas — a validation chain that meets a failing check (or failed earlier) ends in an exception.
  Used by the `fault_detected` family in PMV/Props/C19.lean.
-/
namespace PMV.Faults

/-- the call is rejected: validation ends with an exception (which one is `validate_allowed`'s business) -/
def Rejected (v : V) : Prop := ∃ e, v = .error e

theorem rej_error (e : Exc) : Rejected (.error e) := ⟨e, rfl⟩
theorem rej_throw (e : Exc) : Rejected (throw e) := ⟨e, rfl⟩
theorem rej_raise (e : Exc) : Rejected (raise e) := ⟨e, rfl⟩
theorem rej_bind {α} {x : Except Exc α} {f : α → V} (h : ∀ a, x = .ok a → Rejected (f a)) : Rejected (x >>= f) := by
  cases x with
  | error e => exact ⟨e, rfl⟩
  | ok a => exact h a rfl
theorem rej_guard {c : Bool} {e : Exc} {f : Unit → V} (h : c = false) : Rejected (guard' c e >>= f) := by
  subst h; exact ⟨e, rfl⟩

theorem filterMapE_error {α β} (f : α → Except Exc (Option β)) (l : List α) (x : α) (e : Exc)
    (hx : x ∈ l) (hf : f x = .error e) : ∃ e', filterMapE f l = .error e' := by
  induction l with
  | nil => cases hx
  | cons y ys ih =>
    simp only [filterMapE]
    rcases List.mem_cons.1 hx with rfl | hx'
    · rw [hf]; exact ⟨e, rfl⟩
    · obtain ⟨e', he'⟩ := ih hx'
      split
      · exact ⟨_, rfl⟩
      · exact ⟨e', he'⟩
      · rw [he']; exact ⟨e', rfl⟩

/-- walking down a chain: a step that already failed rejects; otherwise continue with what it returned -/
macro "rej_walk" : tactic => `(tactic| repeat (first
  | exact rej_guard (by assumption)
  | exact rej_error _ | exact rej_throw _ | exact rej_raise _
  | refine rej_bind (fun _ _ => ?_)))

theorem rejected_vAddQ_of (s a : Obj)
    (h : canMatch s.units a.units = false ∨ (s.numer == a.numer) = false ∨ (s.denom == a.denom) = false
      ∨ into a.shape s.shape = false ∨ (s.isInt = true ∧ a.isInt = false)
      ∨ (∃ d ∈ s.derivs, ∃ e, a.find d.key = some e ∧ (e.denom == d.denom) = false)) :
    Rejected (vAddQ s a) := by
  unfold vAddQ
  rcases h with h | h | h | h | ⟨h1, h2⟩ | ⟨d, hd, e, he, hne⟩
  · rej_walk
  · rej_walk
  · rej_walk
  · rej_walk
  · have hk : (!(s.isInt && !a.isInt)) = false := by simp [h1, h2]
    rej_walk
  · refine rej_bind (fun _ _ => ?_)
    refine rej_bind (fun _ _ => ?_)
    refine rej_bind (fun _ _ => ?_)
    refine rej_bind (fun _ _ => ?_)
    refine rej_bind (fun _ _ => ?_)
    refine rej_bind (fun _ _ => ?_)
    unfold addDerivs
    obtain ⟨e', he'⟩ := filterMapE_error (addStep s a) s.derivs d .valueError hd (by simp [addStep, he, hne])
    rw [he']
    exact ⟨e', rfl⟩

theorem rejected_vAdd_q (s a : Obj) (h : Rejected (vAddQ s a)) : Rejected (vAdd s (.q a)) := by
  unfold vAdd
  refine rej_bind (fun _ _ => ?_)
  refine rej_bind (fun _ _ => ?_)
  simp only [fastPath, toQubeAdd]
  exact rej_bind (fun a' ha' => by cases ha'; exact h)

theorem rej_ro_vAdd (s : Obj) (a : Arg) (h : s.ro = true) : Rejected (vAdd s a) := by
  have h' : (!s.ro) = false := by simp [h]
  unfold vAdd requireWritable; rej_walk
theorem rej_ro_vMul (s : Obj) (a : Arg) (h : s.ro = true) : Rejected (vMul s a) := by
  have h' : (!s.ro) = false := by simp [h]
  unfold vMul requireWritable; rej_walk
theorem rej_ro_vDiv (s : Obj) (a : Arg) (h : s.ro = true) : Rejected (vDiv s a) := by
  have h' : (!s.ro) = false := by simp [h]
  unfold vDiv requireWritable; rej_walk
theorem rej_ro_vFloorMod (fl : Bool) (s : Obj) (a : Arg) (h : s.ro = true) : Rejected (vFloorMod fl s a) := by
  have h' : (!s.ro) = false := by simp [h]
  unfold vFloorMod requireWritable; rej_walk
theorem rej_ro_vLogic (s : Obj) (a : Arg) (h : s.ro = true) : Rejected (vLogic s a) := by
  have h' : (!s.ro) = false := by simp [h]
  unfold vLogic requireWritable; rej_walk
theorem rej_ro_vSetItem (s : Obj) (ix : Idx) (a : Arg) (h : s.ro = true) : Rejected (vSetItem s ix a) := by
  have h' : (!s.ro) = false := by simp [h]
  unfold vSetItem requireWritable; rej_walk
theorem rej_ro_vDeleteDeriv (s : Obj) (k : String) (h : s.ro = true) : Rejected (vDeleteDeriv s k false) := by
  have h' : (false || !s.ro) = false := by simp [h]
  unfold vDeleteDeriv; rej_walk
theorem rej_ro_vDeleteDerivs (s : Obj) (p : List String) (h : s.ro = true) : Rejected (vDeleteDerivs s p false) := by
  have h' : (false || !s.ro) = false := by simp [h]
  unfold vDeleteDerivs; rej_walk
theorem rej_ro_vSetUnits (s : Obj) (u : UArg) (h : s.ro = true) : Rejected (vSetUnits s u false) := by
  have h' : (false || !s.ro) = false := by simp [h]
  unfold vSetUnits; rej_walk

theorem rej_shape_vFloorMod (fl : Bool) (s a : Obj) (h : into a.shape s.shape = false) :
    Rejected (vFloorMod fl s (.q a)) := by
  unfold vFloorMod
  refine rej_bind (fun _ _ => ?_)
  refine rej_bind (fun _ _ => ?_)
  refine rej_bind (fun _ _ => ?_)
  simp only [toScalarArg, asScalar]
  refine rej_bind (fun a' ha' => ?_)
  cases ha'
  split
  · rej_walk
  · exact rej_raise _
theorem rej_shape_vLogic (s a : Obj) (h : into a.shape s.shape = false) : Rejected (vLogic s (.q a)) := by
  unfold vLogic; rej_walk
theorem rej_shape_vInsertDeriv (s a : Obj) (k : String) (o : Bool) (h : into a.shape s.shape = false) :
    Rejected (vInsertDeriv s k (.q a) o) := by
  unfold vInsertDeriv; simp only [compatibleDeriv]
  refine rej_bind (fun _ hx => ?_)
  obtain ⟨_, _, hx⟩ := (bind_ok _ _ _).1 hx
  obtain ⟨_, _, hx⟩ := (bind_ok _ _ _).1 hx
  obtain ⟨_, h3, _⟩ := (bind_ok _ _ _).1 hx
  have := (guard_ok _ _).1 h3
  rw [h] at this; cases this
theorem rej_numer_vInsertDeriv (s a : Obj) (k : String) (o : Bool) (h : (a.numer == s.numer) = false) :
    Rejected (vInsertDeriv s k (.q a) o) := by
  unfold vInsertDeriv; simp only [compatibleDeriv]
  refine rej_bind (fun _ hx => ?_)
  obtain ⟨_, _, hx⟩ := (bind_ok _ _ _).1 hx
  obtain ⟨_, h2, _⟩ := (bind_ok _ _ _).1 hx
  have := (guard_ok _ _).1 h2
  rw [h] at this; cases this
theorem rej_units_vSetUnits (s : Obj) (d : Nat) (o : Bool) (h : canMatch (some d) s.units = false) :
    Rejected (vSetUnits s (.unit d) o) := by
  unfold vSetUnits; rej_walk
theorem rej_kind_vDiv (s : Obj) (a : Arg) (h : s.isFloat = false) : Rejected (vDiv s a) := by
  unfold vDiv; rej_walk
theorem rej_type_vAdd (s : Obj) : Rejected (vAdd s .bad) := by
  unfold vAdd
  refine rej_bind (fun _ _ => ?_)
  refine rej_bind (fun _ _ => ?_)
  simp only [fastPath, toQubeAdd, asThisType0]
  exact rej_bind (fun _ h => by cases h)
theorem rej_type_vMul (s : Obj) : Rejected (vMul s .bad) := by
  unfold vMul
  refine rej_bind (fun _ _ => ?_)
  refine rej_bind (fun _ _ => ?_)
  split
  · exact rej_raise _
  · simp only [toScalarArg, asScalar]
    exact rej_bind (fun _ h => by cases h)
theorem rej_type_vDiv (s : Obj) : Rejected (vDiv s .bad) := by
  unfold vDiv
  refine rej_bind (fun _ _ => ?_)
  refine rej_bind (fun _ _ => ?_)
  refine rej_bind (fun _ _ => ?_)
  simp only [toScalarArg, asScalar]
  exact rej_bind (fun _ h => by cases h)
theorem rej_type_vFloorMod (fl : Bool) (s : Obj) : Rejected (vFloorMod fl s .bad) := by
  unfold vFloorMod
  refine rej_bind (fun _ _ => ?_)
  refine rej_bind (fun _ _ => ?_)
  refine rej_bind (fun _ _ => ?_)
  simp only [toScalarArg, asScalar]
  exact rej_bind (fun _ h => by cases h)
theorem rej_type_vInsertDeriv (s : Obj) (k : String) (o : Bool) : Rejected (vInsertDeriv s k .bad o) := by
  unfold vInsertDeriv; simp only [compatibleDeriv]
  refine rej_bind (fun _ hx => ?_)
  obtain ⟨_, _, hx⟩ := (bind_ok _ _ _).1 hx
  cases hx
theorem rej_type_vSetUnits (s : Obj) (o : Bool) : Rejected (vSetUnits s .bad o) := by
  unfold vSetUnits
  refine rej_bind (fun _ _ => ?_)
  refine rej_bind (fun _ _ => ?_)
  exact rej_raise _
theorem rej_index_vSetItem (s : Obj) (e : Exc) (a : Arg) : Rejected (vSetItem s (.fails e) a) := by
  unfold vSetItem
  refine rej_bind (fun _ _ => ?_)
  simp only [prepIndex, prepIndexWrapper]
  exact rej_bind (fun _ h => by cases h)


end PMV.Faults
