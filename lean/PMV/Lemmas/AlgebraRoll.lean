import PMV.Model.Algebra
import PMV.Lemmas.AlgebraIndex
/-
  C16 helper lemmas shared by dot and cross: shapes and elements of the two operands after the
  reshape-with-ones and `rollaxis(…, k, ndim)` steps (math_ops.py:216-228 = 423-435).
  A = numer1 without axis a1, B = numer2 without axis a2, n = the common axis length.
-/
namespace PMV.Algebra
variable {K : Type}

theorem roll_shape1 (a b : Item K) (a1 : Nat) (l1 : a1 < a.numer.length) (B : Shape)
    (hB : B.length = b.numer.length - 1) :
    (rollEnd a1 (pad1 a (b.numer.length - 1) b.denom.length)).shape =
      a.numer.eraseIdx a1 ++ List.replicate B.length 1 ++ a.denom
        ++ List.replicate b.denom.length 1 ++ [a.numer.getD a1 0] := by
  simp only [rollEnd, pad1, hB]
  have := eraseIdx_mid [] a.numer (List.replicate (b.numer.length - 1) 1 ++ a.denom ++ List.replicate b.denom.length 1) a1 l1
  have g := getD_mid [] a.numer (List.replicate (b.numer.length - 1) 1 ++ a.denom ++ List.replicate b.denom.length 1) a1 1 l1
  simp only [List.nil_append, List.length_nil, Nat.add_zero, ← List.append_assoc] at this g
  rw [this, g, getD_eq_of_lt l1 1 0]

theorem roll_shape2 (a b : Item K) (a2 : Nat) (l2 : a2 < b.numer.length) (A : Shape)
    (hA : A.length = a.numer.length - 1) :
    (rollEnd (a2 + (a.numer.length - 1)) (pad2 b (a.numer.length - 1) a.denom.length)).shape =
      List.replicate A.length 1 ++ b.numer.eraseIdx a2 ++ List.replicate a.denom.length 1
        ++ b.denom ++ [b.numer.getD a2 0] := by
  simp only [rollEnd, pad2, hA]
  have := eraseIdx_mid (List.replicate (a.numer.length - 1) 1) b.numer (List.replicate a.denom.length 1 ++ b.denom) a2 l2
  have g := getD_mid (List.replicate (a.numer.length - 1) 1) b.numer (List.replicate a.denom.length 1 ++ b.denom) a2 1 l2
  simp only [List.length_replicate, ← List.append_assoc] at this g
  rw [this, g, getD_eq_of_lt l2 1 0]

/-- element of the first rolled array at a broadcast result index -/
theorem roll_get1 (a b : Item K) (a1 t : Nat) (l1 : a1 < a.numer.length) (B D2 : Shape)
    (hB : B.length = b.numer.length - 1) (hD2 : D2.length = b.denom.length)
    (o1 d1 : Index) (v1 : Valid (a.numer.eraseIdx a1) o1) (v3 : Valid a.denom d1) :
    (rollEnd a1 (pad1 a (b.numer.length - 1) b.denom.length)).get
        (o1 ++ List.replicate B.length 0 ++ d1 ++ List.replicate D2.length 0 ++ [t])
      = a.get (insAt a1 t o1 ++ d1) := by
  have eA : (a.numer.eraseIdx a1).length = a.numer.length - 1 := by simp [List.length_eraseIdx, l1]
  have lo1 := valid_length v1; have ld1 := valid_length v3
  simp only [rollEnd, pad1, List.dropLast_concat, List.getLastD_concat]
  have i1 : insAt a1 t (o1 ++ List.replicate B.length 0 ++ d1 ++ List.replicate D2.length 0)
      = insAt a1 t o1 ++ List.replicate B.length 0 ++ d1 ++ List.replicate D2.length 0 := by
    rw [List.append_assoc, List.append_assoc, insAt_append_left (by omega)]; simp [List.append_assoc]
  rw [i1, pick1 _ _ _ _ _ _ _ (by rw [length_insAt (by omega)]; omega) (by simp [hB]) ld1]

/-- element of the second rolled array at a broadcast result index -/
theorem roll_get2 (a b : Item K) (a2 t : Nat) (l2 : a2 < b.numer.length) (A D1 : Shape)
    (hA : A.length = a.numer.length - 1) (hD1 : D1.length = a.denom.length)
    (o2 d2 : Index) (v2 : Valid (b.numer.eraseIdx a2) o2) (v4 : Valid b.denom d2) :
    (rollEnd (a2 + (a.numer.length - 1)) (pad2 b (a.numer.length - 1) a.denom.length)).get
        (List.replicate A.length 0 ++ o2 ++ List.replicate D1.length 0 ++ d2 ++ [t])
      = b.get (insAt a2 t o2 ++ d2) := by
  have eB : (b.numer.eraseIdx a2).length = b.numer.length - 1 := by simp [List.length_eraseIdx, l2]
  have lo2 := valid_length v2; have ld2 := valid_length v4
  simp only [rollEnd, pad2, List.dropLast_concat, List.getLastD_concat]
  have i2 : insAt (a2 + (a.numer.length - 1)) t
        (List.replicate A.length 0 ++ o2 ++ List.replicate D1.length 0 ++ d2)
      = List.replicate A.length 0 ++ insAt a2 t o2 ++ List.replicate D1.length 0 ++ d2 := by
    have : a2 + (a.numer.length - 1) = (List.replicate A.length 0).length + a2 := by
      simp [hA]; omega
    rw [this, List.append_assoc, List.append_assoc, insAt_append_right, insAt_append_left (by omega)]
    simp [List.append_assoc]
  rw [i2, pick2 _ _ _ _ _ _ _ (by simp [hA]) (by rw [length_insAt (by omega)]; omega) (by simp [hD1])]

theorem eraseIdx_insAt {k t : Nat} {l : List Nat} (h : k ≤ l.length) : (insAt k t l).eraseIdx k = l := by
  have : k = (l.take k).length := by simp [Nat.min_eq_left h]
  simp only [insAt]
  conv => lhs; arg 2; rw [this]
  rw [List.eraseIdx_append_of_length_le (Nat.le_refl _)]
  simp

theorem getD_insAt {k t d : Nat} {l : List Nat} (h : k ≤ l.length) : (insAt k t l).getD k d = t := by
  have : k = (l.take k).length := by simp [Nat.min_eq_left h]
  simp only [insAt, List.getD]
  conv => lhs; arg 1; arg 2; rw [this]
  rw [List.getElem?_append_right (Nat.le_refl _)]
  simp

end PMV.Algebra
