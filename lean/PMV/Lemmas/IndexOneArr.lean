import PMV.Lemmas.IndexAssemble
import PMV.Lemmas.IndexValid
/-
  C09 — index tuples with ONE array entry (integer or boolean array, masked and out-of-range
  elements included) in any position: agreement of `_prep_index`'s loop, NumPy's resolution and the
  specification, with the post-mask tracked per array element.
-/
namespace PMV.Index
open PMV PMV.NpIndex

/-- entries that produce axes and nothing else -/
def Entry.isPlain : Entry → Bool
  | .none => true | .ell => true | .slice _ _ => true | .bool _ _ => true
  | _ => false

/-- the post-mask `post` represents the per-array-element flag `F` on the array shape `sh` -/
def PostRep (post : PostMask) (sh : Shape) (F : Index → Bool) : Prop :=
  match post with
  | .all c => ∀ i, Valid sh i → F i = c
  | .arr a => a.shape = sh ∧ ∀ i, Valid sh i → a.get i = F i

/-- NumPy's atoms simulate the specification's: same axes, same array shape `sh`, same placement,
    and the same source element wherever no selecting entry is flagged -/
def Sim (ats : List Atom) (sats : List SAtom) (sh : Shape) : Prop :=
  plainLens ats = SAtom.lens sats ∧ bcastAll (advShapes ats) = some sh ∧
  bcastAll (SAtom.arrShapes sats) = some sh ∧ allOk ats = true ∧
  axesBefore ats = SAtom.axesBefore sats ∧
  ∀ po ac, Valid sh ac → SAtom.flag sats ac = false → walk ats po ac = SAtom.walk sats po ac

def Agree1 (w : Nat) (es : List Entry) (rest : Shape) (b : Bool) : Prop :=
  (prog w rest es (.all b) = none → specAtoms w rest es = none) ∧
  (∀ pre post' shs, prog w rest es (.all b) = some (pre, post', shs) →
    (specAtoms w rest es = none → atoms rest w pre = none) ∧
    (∀ sats, specAtoms w rest es = some sats →
      ∃ sh, shs = [sh] ∧ PostRep post' sh (fun i => b || SAtom.flag sats i) ∧
        ∃ ats, atoms rest w pre = some ats ∧ Sim ats sats sh))

/-- the flag of array-free atoms does not depend on the array coordinate -/
theorem flag_noarr : ∀ (sats : List SAtom), SAtom.arrShapes sats = [] → ∀ ac,
    SAtom.flag sats ac = SAtom.flag sats [] := by
  intro sats
  induction sats with
  | nil => intro _ _; rfl
  | cons a r ih =>
    intro h ac
    cases a with
    | arr sh f fl => simp [SAtom.arrShapes] at h
    | axis l fl => simp only [SAtom.flag]; rw [ih (by simpa [SAtom.arrShapes] using h)]
    | new => simp only [SAtom.flag]; rw [ih (by simpa [SAtom.arrShapes] using h)]
    | fix n k => simp only [SAtom.flag]; rw [ih (by simpa [SAtom.arrShapes] using h)]

theorem walk_noarr : ∀ (sats : List SAtom), SAtom.arrShapes sats = [] → ∀ po ac,
    SAtom.walk sats po ac = SAtom.walk sats po [] := by
  intro sats
  induction sats with
  | nil => intro _ _ _; rfl
  | cons a r ih =>
    intro h po ac
    cases a with
    | arr sh f fl => simp [SAtom.arrShapes] at h
    | axis l fl => simp only [SAtom.walk]; rw [ih (by simpa [SAtom.arrShapes] using h)]
    | new => simp only [SAtom.walk]; rw [ih (by simpa [SAtom.arrShapes] using h)]
    | fix n k => simp only [SAtom.walk]; rw [ih (by simpa [SAtom.arrShapes] using h)]

/-- on a shape without empty axes no integer entry sits on an empty axis -/
theorem specAtoms_ok (w : Nat) : ∀ (es : List Entry), es.all Entry.isBasic = true →
    ∀ (rest : Shape), (∀ n ∈ rest, 0 < n) → ∀ sats, specAtoms w rest es = some sats →
    sats.all SAtom.ok = true := by
  intro es
  induction es with
  | nil =>
    intro _ rest _ sats h
    cases rest <;> simp [specAtoms] at h
    subst h; rfl
  | cons e es ih =>
    intro hb rest hpos sats h
    simp only [List.all_cons, Bool.and_eq_true] at hb
    have axes : ∀ (L : List Nat) (x : List SAtom),
        (L.map (fun n => SAtom.axis (List.range n) false) ++ x).all SAtom.ok = x.all SAtom.ok := by
      intro L x; induction L with
      | nil => rfl
      | cons n L ihL => simpa [SAtom.ok] using ihL
    cases e with
    | none =>
      rw [specAtoms_none] at h
      cases hs : specAtoms w rest es with
      | none => simp [hs] at h
      | some x =>
        simp only [hs, Option.map_some, Option.some.injEq] at h; subst h
        simpa [SAtom.ok] using ih hb.2 rest hpos x hs
    | ell =>
      rw [specAtoms_ell] at h
      cases hs : specAtoms w (rest.drop w) es with
      | none => simp [hs] at h
      | some x =>
        simp only [hs, Option.map_some, Option.some.injEq] at h; subst h
        rw [axes]
        exact ih hb.2 _ (fun n hn => hpos n (List.mem_of_mem_drop hn)) x hs
    | slice full l =>
      cases rest with
      | nil => simp [specAtoms] at h
      | cons n sh =>
        rw [specAtoms_cons_cons w n sh _ es (by simp) (by simp) (by simp)] at h
        cases hs : specAtoms w sh es with
        | none => cases hq : specEntry n (.slice full l) <;> simp [hq, hs] at h
        | some x =>
          simp only [specEntry] at h
          split at h
          · simp only [hs, Option.bind_some, Option.map_some, Option.some.injEq] at h; subst h
            simpa [SAtom.ok] using ih hb.2 sh (fun m hm => hpos m (by simp [hm])) x hs
          · simp at h
    | int k m =>
      cases rest with
      | nil => simp [specAtoms] at h
      | cons n sh =>
        rw [specAtoms_cons_cons w n sh _ es (by simp) (by simp) (by simp)] at h
        cases hs : specAtoms w sh es with
        | none => simp [specEntry, hs] at h
        | some x =>
          simp only [specEntry, hs, Option.bind_some, Option.map_some, Option.some.injEq] at h; subst h
          have hn : 0 < n := hpos n (by simp)
          have := ih hb.2 sh (fun m hm => hpos m (by simp [hm])) x hs
          simp only [List.all_cons, this, Bool.and_true]
          cases (if m = true then none else normIdx n k) <;> simp [SAtom.ok, hn]
    | bool v m =>
      cases rest with
      | nil => simp [specAtoms] at h
      | cons n sh =>
        rw [specAtoms_cons_cons w n sh _ es (by simp) (by simp) (by simp)] at h
        cases hs : specAtoms w sh es with
        | none => simp [specEntry, hs] at h
        | some x =>
          simp only [specEntry, hs, Option.bind_some, Option.map_some, Option.some.injEq] at h; subst h
          cases m <;> cases v <;> simpa [SAtom.ok] using ih hb.2 sh (fun m hm => hpos m (by simp [hm])) x hs
    | _ => simp [Entry.isBasic] at hb

theorem postRep_congr (post : PostMask) (sh : Shape) (F G : Index → Bool)
    (h : ∀ i, Valid sh i → F i = G i) (hp : PostRep post sh F) : PostRep post sh G := by
  cases post with
  | all c => intro i hi; rw [← h i hi]; exact hp i hi
  | arr a => exact ⟨hp.1, fun i hi => by rw [← h i hi]; exact hp.2 i hi⟩

/-- the array entry followed by basic entries -/
theorem agree1_base (w : Nat) (suf : List Entry) (rest rest' : Shape) (b : Bool) (e : Entry)
    (p : NEntry) (u : PostUpd) (sh : Shape) (post1 : PostMask)
    (f f' : Index → List Nat) (fl : Index → Bool)
    (hpe : prepEntry rest 0 e = some (p, u, some sh))
    (hu : u.apply (.all b) = some post1)
    (hpost : PostRep post1 sh (fun i => b || fl i))
    (hdrop : rest.drop (e.padv w) = rest')
    (hspec : specAtoms w rest (e :: suf) = (specAtoms w rest' suf).map (SAtom.arr sh f' fl :: ·))
    (hat : ∀ ps, atoms rest w (p :: ps) = (atoms rest' w ps).map (Atom.adv sh f true :: ·))
    (hf : ∀ i, Valid sh i → fl i = false → f i = f' i)
    (hsb : suf.all Entry.isBasic = true) (hpos : ∀ n ∈ rest', 0 < n) :
    Agree1 w (e :: suf) rest b := by
  obtain ⟨ag1, ag2⟩ := agree_basic w suf hsb rest' post1
  have hprog : prog w rest (e :: suf) (.all b) =
      match prog w rest' suf post1 with
      | none => none
      | some (ps, post'', ss) => some (p :: ps, post'', [sh] ++ ss) := by
    simp only [prog, hpe, hu, hdrop]
    cases prog w rest' suf post1 with
    | none => rfl
    | some x => obtain ⟨ps, po, ss⟩ := x; simp
  constructor
  · intro h
    rw [hprog] at h
    cases hp : prog w rest' suf post1 with
    | none => rw [hspec, ag1 hp]; rfl
    | some x => obtain ⟨ps, po, ss⟩ := x; simp [hp] at h
  · intro pre post' shs h
    rw [hprog] at h
    cases hp : prog w rest' suf post1 with
    | none => simp [hp] at h
    | some x =>
      obtain ⟨ps, po, ss⟩ := x
      simp only [hp, Option.some.injEq, Prod.mk.injEq] at h
      obtain ⟨rfl, rfl, rfl⟩ := h
      obtain ⟨hss, _⟩ := prog_image w suf hsb _ _ _ _ _ hp
      subst hss
      obtain ⟨j2, j3⟩ := ag2 ps po [] hp
      refine ⟨?_, ?_⟩
      · intro hn
        rw [hspec] at hn
        have : specAtoms w rest' suf = none := by
          cases hs : specAtoms w rest' suf with
          | none => rfl
          | some _ => simp [hs] at hn
        rw [hat, j2 this]; rfl
      · intro sats hs
        rw [hspec] at hs
        cases hs' : specAtoms w rest' suf with
        | none => simp [hs'] at hs
        | some sats' =>
          simp only [hs', Option.map_some, Option.some.injEq] at hs
          subst hs
          obtain ⟨k1, k2⟩ := j3 sats' hs'
          have harr := specAtoms_basic_arrShapes w suf hsb rest' sats' hs'
          have hok := specAtoms_ok w suf hsb rest' hpos sats' hs'
          have hats := k2 hok
          refine ⟨sh, rfl, ?_, Atom.adv sh f true :: sats'.map SAtom.toAtom, by rw [hat, hats]; rfl, ?_⟩
          · -- the post-mask
            rw [k1]
            cases hfs : SAtom.flag sats' [] with
            | true =>
              intro i _
              simp [SAtom.flag, flag_noarr sats' harr, hfs]
            | false =>
              simp only [Bool.false_eq_true, if_false]
              refine postRep_congr post1 sh _ _ ?_ hpost
              intro i hi
              simp [SAtom.flag, flag_noarr sats' harr i, hfs, bidx_self hi]
          · -- the atoms
            have hB : bcastAll (advShapes (sats'.map SAtom.toAtom)) = some [] := by
              rw [bcastAll_toAtom, harr]; rfl
            refine ⟨by simp [plainLens, SAtom.lens, plainLens_toAtom], ?_, ?_, ?_, rfl, ?_⟩
            · simp only [advShapes, bcastAll, hB]; exact bcast_nil_right sh
            · simp only [SAtom.arrShapes, bcastAll, harr]; exact bcast_nil_right sh
            · simp [allOk, allOk_toAtom]
            · intro po ac hac hfl
              simp only [SAtom.flag, Bool.or_eq_false_iff] at hfl
              simp only [walk, SAtom.walk, walk_toAtom, bidx_self hac]
              rw [bidx_self hac] at hfl
              rw [hf ac hac hfl.1]

theorem agree1_reject (w : Nat) (es : List Entry) (rest : Shape) (b : Bool) (e : Entry)
    (hpe : prepEntry rest 0 e = none) (hspec : specAtoms w rest (e :: es) = none) :
    Agree1 w (e :: es) rest b := by
  refine ⟨fun _ => hspec, ?_⟩
  intro pre post' shs h
  simp [prog, hpe] at h

/-- an integer-array entry (masked / out-of-range elements included) followed by basic entries -/
theorem agree1_iarr (w : Nat) (suf : List Entry) (n : Nat) (sh : Shape) (b : Bool) (v : Arr Int) (m : Mask)
    (hn : 0 < n) (hpos : ∀ k ∈ sh, 0 < k) (hsb : suf.all Entry.isBasic = true) :
    Agree1 w (.iarr v m :: suf) (n :: sh) b := by
  have hvalid : ∀ i, Valid v.shape i → i ∈ indices v.shape := fun i hi => (mem_indices _ _).2 hi
  have hok : (indices v.shape).all (fun i => (normIdx n ((prepIntArrVals n v (prepIntArrMask n v m)
      (if (indices v.shape).any (oobAt n v) = true then true else (prepIntArrMask n v m).any v.shape)) i)).isSome) = true := by
    rw [List.all_eq_true]; intro i _; exact prepIntArrVals_safe n v _ _ i hn
  refine agree1_base w suf (n :: sh) sh b (.iarr v m)
    (.arr ⟨v.shape, prepIntArrVals n v (prepIntArrMask n v m)
      (if (indices v.shape).any (oobAt n v) = true then true else (prepIntArrMask n v m).any v.shape)⟩)
    (prepIntArrUpd v (prepIntArrMask n v m)) v.shape
    (match prepIntArrMask n v m with
      | .arr a => .arr ⟨v.shape, fun i => b || a.get i⟩
      | .all true => .all true
      | .all false => .all b)
    (fun i => [(normIdx n ((prepIntArrVals n v (prepIntArrMask n v m)
      (if (indices v.shape).any (oobAt n v) = true then true else (prepIntArrMask n v m).any v.shape)) i)).getD 0])
    (fun i => [(normIdx n (v.get i)).getD 0]) (iarrFlag n v m)
    rfl ?_ ?_ (by simp [Entry.padv, Entry.isEll, Entry.advance])
    (by rw [specAtoms_cons_cons w n sh _ suf (by simp) (by simp) (by simp)]; simp only [specEntry, Option.bind_some]; rfl)
    (fun ps => by simp only [atoms, hok]) ?_ hsb hpos
  · -- the update of the post-mask
    unfold prepIntArrUpd
    cases prepIntArrMask n v m with
    | all c => cases c <;> simp [PostUpd.apply]
    | arr a => simp [PostUpd.apply, PostMask.orArr, Arr.map]
  · -- it represents "masked or out of range"
    have hbit := fun i hi => prepIntArrMask_bit n v m i (hvalid i hi)
    cases hm : prepIntArrMask n v m with
    | all c =>
      rw [hm] at hbit
      cases c with
      | true => intro i hi; simp [← hbit i hi, Mask.bit]
      | false => intro i hi; simp [← hbit i hi, Mask.bit]
    | arr a =>
      rw [hm] at hbit
      exact ⟨rfl, fun i hi => by simp [← hbit i hi, Mask.bit]⟩
  · -- unflagged elements read what NumPy itself would read
    intro i hi hfl
    have hb := prepIntArrMask_bit n v m i (hvalid i hi)
    rw [hfl] at hb
    have h2 : (normIdx n (v.get i)).isNone = false := by
      unfold iarrFlag at hfl; simp at hfl; simp [hfl.2]
    simp only [prepIntArrVals, hb, Bool.and_false, Bool.false_eq_true, if_false]
    rw [normIdx_emod n _ h2]

/-- a boolean-array entry (masked elements included) followed by basic entries -/
theorem agree1_barr (w : Nat) (suf : List Entry) (rest : Shape) (b : Bool) (v : Arr Bool) (m : Mask)
    (hpos : ∀ k ∈ rest, 0 < k) (hsb : suf.all Entry.isBasic = true) :
    Agree1 w (.barr v m :: suf) rest b := by
  by_cases hs : rest.take v.shape.length = v.shape ∧ rest ≠ []
  · obtain ⟨hs1, hs2⟩ := hs
    obtain ⟨n, sh, rfl⟩ : ∃ n sh, rest = n :: sh := by
      cases rest with
      | nil => exact absurd rfl hs2
      | cons n sh => exact ⟨n, sh, rfl⟩
    refine agree1_base w suf (n :: sh) ((n :: sh).drop v.shape.length) b (.barr v m)
      (.barr ⟨v.shape, fun i => v.get i || m.bit i⟩)
      (match m with
        | .arr a => .orArr ⟨[(boolSel v m).length], fun i => a.get ((boolSel v m).getD (i.headD 0) [])⟩
        | .all true => .setTrue
        | .all false => .keep)
      [(boolSel v m).length]
      (match m with
        | .arr a => .arr ⟨[(boolSel v m).length], fun i => b || a.get ((boolSel v m).getD (i.headD 0) [])⟩
        | .all true => .all true
        | .all false => .all b)
      (fun i => (boolSel v m).getD (i.headD 0) []) (fun i => (boolSel v m).getD (i.headD 0) [])
      (fun i => m.bit ((boolSel v m).getD (i.headD 0) []))
      ?_ ?_ ?_ (by simp [Entry.padv, Entry.isEll, Entry.advance])
      (by simp only [specAtoms, hs1, true_and]; simp)
      (fun ps => by simp only [atoms, hs1, if_true]; rfl) (fun _ _ _ => rfl) hsb
      (fun k hk => hpos k (List.mem_of_mem_drop hk))
    · simp only [prepEntry, List.getElem?_cons_zero, prepBoolArr, List.drop_zero, hs1, if_true,
        Option.map_some]
      rfl
    · cases m with
      | all c => cases c <;> simp [PostUpd.apply]
      | arr a => simp [PostUpd.apply, PostMask.orArr, Arr.map, boolSel, trues, Mask.bit]
    · cases m with
      | all c => cases c <;> (intro i _; simp [Mask.bit])
      | arr a => exact ⟨rfl, fun i _ => by simp [Mask.bit]⟩
  · refine agree1_reject w suf rest b _ ?_ ?_
    · cases rest with
      | nil => simp [prepEntry]
      | cons n sh =>
        have : ¬ ((n :: sh).take v.shape.length = v.shape) := fun h => hs ⟨h, by simp⟩
        simp [prepEntry, prepBoolArr, this]
    · cases rest with
      | nil => simp [specAtoms]
      | cons n sh =>
        have : ¬ ((n :: sh).take v.shape.length = v.shape) := fun h => hs ⟨h, by simp⟩
        simp [specAtoms, this]

def SAtom.isPlainA : SAtom → Bool
  | .axis _ _ => true | .new => true | _ => false

theorem sim_cons_plain (a : SAtom) (ha : a.isPlainA = true) (ats : List Atom) (sats : List SAtom) (sh : Shape)
    (h : Sim ats sats sh) : Sim (a.toAtom :: ats) (a :: sats) sh := by
  obtain ⟨h1, h2, h3, h4, h5, h6⟩ := h
  cases a with
  | axis l fl =>
    refine ⟨by simp [SAtom.toAtom, plainLens, SAtom.lens, h1], by simpa [SAtom.toAtom, advShapes] using h2,
      by simpa [SAtom.arrShapes] using h3, by simpa [SAtom.toAtom, allOk] using h4,
      by simp [SAtom.toAtom, axesBefore, SAtom.axesBefore, h5], ?_⟩
    intro po ac hac hfl
    simp only [SAtom.flag, Bool.or_eq_false_iff] at hfl
    simp [SAtom.toAtom, walk, SAtom.walk, h6 po.tail ac hac hfl.2]
  | new =>
    refine ⟨by simp [SAtom.toAtom, plainLens, SAtom.lens, h1], by simpa [SAtom.toAtom, advShapes] using h2,
      by simpa [SAtom.arrShapes] using h3, by simpa [SAtom.toAtom, allOk] using h4,
      by simp [SAtom.toAtom, axesBefore, SAtom.axesBefore, h5], ?_⟩
    intro po ac hac hfl
    simp only [SAtom.flag] at hfl
    simp [SAtom.toAtom, walk, SAtom.walk, h6 po.tail ac hac hfl]
  | fix n k => simp [SAtom.isPlainA] at ha
  | arr sh' f fl => simp [SAtom.isPlainA] at ha

theorem sim_prepend : ∀ (sa : List SAtom), sa.all SAtom.isPlainA = true → ∀ (ats : List Atom)
    (sats : List SAtom) (sh : Shape), Sim ats sats sh → Sim (sa.map SAtom.toAtom ++ ats) (sa ++ sats) sh := by
  intro sa
  induction sa with
  | nil => intro _ ats sats sh h; exact h
  | cons a r ih =>
    intro hp ats sats sh h
    simp only [List.all_cons, Bool.and_eq_true] at hp
    exact sim_cons_plain a hp.1 _ _ sh (ih hp.2 ats sats sh h)

/-- one plain entry ahead of the array entry -/
theorem agree1_step (w : Nat) (es : List Entry) (rest rest' : Shape) (b fl : Bool) (e : Entry)
    (p : NEntry) (u : PostUpd) (sa : List SAtom)
    (hpe : prepEntry rest 0 e = some (p, u, none))
    (hu : u.apply (.all b) = some (.all (b || fl)))
    (hdrop : rest.drop (e.padv w) = rest')
    (hspec : specAtoms w rest (e :: es) = (specAtoms w rest' es).map (sa ++ ·))
    (hat1 : ∀ ps, atoms rest w (p :: ps) = (atoms rest' w ps).map (sa.map SAtom.toAtom ++ ·))
    (hplain : sa.all SAtom.isPlainA = true)
    (hflag : ∀ x ac, SAtom.flag (sa ++ x) ac = (fl || SAtom.flag x ac))
    (ih : Agree1 w es rest' (b || fl)) : Agree1 w (e :: es) rest b := by
  obtain ⟨ih1, ih2⟩ := ih
  have hprog : prog w rest (e :: es) (.all b) =
      match prog w rest' es (.all (b || fl)) with
      | none => none
      | some (ps, post'', ss) => some (p :: ps, post'', ss) := by
    simp only [prog, hpe, hu, hdrop]
    cases prog w rest' es (.all (b || fl)) with
    | none => rfl
    | some x => obtain ⟨ps, po, ss⟩ := x; simp
  constructor
  · intro h
    rw [hprog] at h
    cases hp : prog w rest' es (.all (b || fl)) with
    | none => rw [hspec, ih1 hp]; rfl
    | some x => obtain ⟨ps, po, ss⟩ := x; simp [hp] at h
  · intro pre post' shs h
    rw [hprog] at h
    cases hp : prog w rest' es (.all (b || fl)) with
    | none => simp [hp] at h
    | some x =>
      obtain ⟨ps, po, ss⟩ := x
      simp only [hp, Option.some.injEq, Prod.mk.injEq] at h
      obtain ⟨rfl, rfl, rfl⟩ := h
      obtain ⟨j2, j3⟩ := ih2 ps po ss hp
      refine ⟨?_, ?_⟩
      · intro hn
        rw [hspec] at hn
        have : specAtoms w rest' es = none := by
          cases hs : specAtoms w rest' es with
          | none => rfl
          | some _ => simp [hs] at hn
        rw [hat1, j2 this]; rfl
      · intro sats hs
        rw [hspec] at hs
        cases hs' : specAtoms w rest' es with
        | none => simp [hs'] at hs
        | some sats' =>
          simp only [hs', Option.map_some, Option.some.injEq] at hs
          subst hs
          obtain ⟨sh, k1, k2, ats, k3, k4⟩ := j3 sats' hs'
          refine ⟨sh, k1, ?_, sa.map SAtom.toAtom ++ ats, by rw [hat1, k3]; rfl, sim_prepend sa hplain ats sats' sh k4⟩
          refine postRep_congr po sh _ _ ?_ k2
          intro i _
          rw [hflag, Bool.or_assoc]

theorem agree1_dead (w : Nat) (es : List Entry) (rest : Shape) (b : Bool) (e : Entry)
    (p : NEntry) (u : PostUpd) (so : Option Shape) (hpe : prepEntry rest 0 e = some (p, u, so))
    (hspec : specAtoms w rest (e :: es) = none) (hat : ∀ ps, atoms rest w (p :: ps) = none) :
    Agree1 w (e :: es) rest b := by
  refine ⟨fun _ => hspec, ?_⟩
  intro pre post' shs h
  simp only [prog, hpe] at h
  cases hu : u.apply (.all b) with
  | none => simp [hu] at h
  | some po =>
    simp only [hu] at h
    cases hp : prog w (rest.drop (e.padv w)) es po with
    | none => simp [hp] at h
    | some x =>
      obtain ⟨ps, po', ss⟩ := x
      simp only [hp, Option.some.injEq, Prod.mk.injEq] at h
      obtain ⟨rfl, _, _⟩ := h
      exact ⟨fun _ => hat ps, fun sats hs => by rw [hspec] at hs; simp at hs⟩

def Entry.isArrE : Entry → Bool
  | .iarr _ _ => true | .barr _ _ => true | _ => false

/-- **one array entry agrees**: plain entries (None / Ellipsis / slices / single booleans), then an
    integer or boolean array entry, then basic entries — on any remaining shape without empty axes -/
theorem agree1_list (w : Nat) : ∀ (pfx : List Entry), pfx.all Entry.isPlain = true →
    ∀ (e : Entry) (suf : List Entry) (rest : Shape) (b : Bool), e.isArrE = true →
    suf.all Entry.isBasic = true → (∀ n ∈ rest, 0 < n) → Agree1 w (pfx ++ e :: suf) rest b := by
  intro pfx
  induction pfx with
  | nil =>
    intro _ e suf rest b he hsb hpos
    cases e with
    | iarr v m =>
      cases rest with
      | nil => exact agree1_reject w suf [] b _ (by simp [prepEntry]) (specAtoms_nil_cons w _ suf (by simp) (by simp) (by simp))
      | cons n sh => exact agree1_iarr w suf n sh b v m (hpos n (by simp)) (fun k hk => hpos k (by simp [hk])) hsb
    | barr v m => exact agree1_barr w suf rest b v m hpos hsb
    | _ => simp [Entry.isArrE] at he
  | cons x pfx ih =>
    intro hp e suf rest b he hsb hpos
    simp only [List.all_cons, Bool.and_eq_true] at hp
    obtain ⟨hpx, hps⟩ := hp
    simp only [List.cons_append]
    cases x with
    | none =>
      exact agree1_step w _ rest rest b false .none .newaxis .keep [SAtom.new]
        (by simp [prepEntry]) (by simp [PostUpd.apply]) (by simp [Entry.padv, Entry.isEll, Entry.advance])
        (by rw [specAtoms_none]; rfl) (fun ps => by rw [atoms_newaxis]; rfl) rfl
        (fun x ac => by simp [SAtom.flag]) (by simpa using ih hps e suf rest b he hsb hpos)
    | ell =>
      exact agree1_step w _ rest (rest.drop w) b false .ell .ell .keep
        ((rest.take w).map fun n => SAtom.axis (List.range n) false)
        (by simp [prepEntry]) (by simp [PostUpd.apply]) (by simp [Entry.padv, Entry.isEll])
        (by rw [specAtoms_ell])
        (fun ps => by rw [atoms_ell]; simp [List.map_map, Function.comp_def, SAtom.toAtom])
        (by rw [List.all_eq_true]; intro a ha
            obtain ⟨n, _, rfl⟩ := List.mem_map.mp ha; rfl)
        (fun x ac => by rw [Bool.false_or]; exact flag_axes_append _ x ac)
        (by simpa using ih hps e suf (rest.drop w) b he hsb (fun n hn => hpos n (List.mem_of_mem_drop hn)))
    | slice full l =>
      cases rest with
      | nil => exact agree1_reject w _ [] b _ (by simp [prepEntry]) (specAtoms_nil_cons w _ _ (by simp) (by simp) (by simp))
      | cons n sh =>
        by_cases hl : l.all (· < n) = true
        · exact agree1_step w _ (n :: sh) sh b false (.slice full l) (.coords l) .keep [SAtom.axis l false]
            (by simp [prepEntry]) (by simp [PostUpd.apply])
            (by simp [Entry.padv, Entry.isEll, Entry.advance])
            (by rw [specAtoms_cons_cons w n sh _ _ (by simp) (by simp) (by simp)]; simp [specEntry, hl])
            (fun ps => by simp [atoms, hl, SAtom.toAtom]) rfl
            (fun x ac => by simp [SAtom.flag])
            (by simpa using ih hps e suf sh b he hsb (fun k hk => hpos k (by simp [hk])))
        · exact agree1_dead w _ (n :: sh) b (.slice full l) (.coords l) .keep none (by simp [prepEntry])
            (by rw [specAtoms_cons_cons w n sh _ _ (by simp) (by simp) (by simp)]; simp [specEntry, hl])
            (fun ps => by simp [atoms, hl])
    | bool v m =>
      cases rest with
      | nil => exact agree1_reject w _ [] b _ (by simp [prepEntry]) (specAtoms_nil_cons w _ _ (by simp) (by simp) (by simp))
      | cons n sh =>
        have hsp := specAtoms_cons_cons w n sh (.bool v m) (pfx ++ e :: suf) (by simp) (by simp) (by simp)
        have ih' := fun b' => ih hps e suf sh b' he hsb (fun k hk => hpos k (by simp [hk]))
        cases m with
        | true =>
          exact agree1_step w _ (n :: sh) sh b true (.bool v true) (.coords (List.range (min 1 n))) .setTrue
            [SAtom.axis (List.range (min 1 n)) true]
            (by simp [prepEntry, prepBool]) (by simp [PostUpd.apply])
            (by simp [Entry.padv, Entry.isEll, Entry.advance])
            (by rw [hsp]; simp [specEntry])
            (fun ps => by simp [atoms, range_min_all_lt, SAtom.toAtom]) rfl
            (fun x ac => by simp [SAtom.flag]) (ih' (b || true))
        | false =>
          cases v with
          | true =>
            exact agree1_step w _ (n :: sh) sh b false (.bool true false) (.coords (List.range n)) .keep
              [SAtom.axis (List.range n) false]
              (by simp [prepEntry, prepBool]) (by simp [PostUpd.apply])
              (by simp [Entry.padv, Entry.isEll, Entry.advance])
              (by rw [hsp]; simp [specEntry])
              (fun ps => by simp [atoms, range_all_lt, SAtom.toAtom]) rfl
              (fun x ac => by simp [SAtom.flag]) (by simpa using ih' b)
          | false =>
            exact agree1_step w _ (n :: sh) sh b false (.bool false false) (.coords []) .keep
              [SAtom.axis [] false]
              (by simp [prepEntry, prepBool]) (by simp [PostUpd.apply])
              (by simp [Entry.padv, Entry.isEll, Entry.advance])
              (by rw [hsp]; simp [specEntry])
              (fun ps => by simp [atoms, SAtom.toAtom]) rfl
              (fun x ac => by simp [SAtom.flag]) (by simpa using ih' b)
    | _ => simp [Entry.isPlain] at hpx

/-! ### where the array axes go: `locate` = the specification's placement -/

/-- result axes the plain prefix produces (the Ellipsis standing for `w` axes) -/
def pfxAxes (w : Nat) : List Entry → Nat
  | [] => 0
  | e :: r => (if e.isEll then w else 1) + pfxAxes w r

theorem axesBefore_axes_append (L : List Nat) (x : List SAtom) :
    SAtom.axesBefore (L.map (fun n => SAtom.axis (List.range n) false) ++ x) = L.length + SAtom.axesBefore x := by
  induction L with
  | nil => simp
  | cons n L ih => simp only [List.map_cons, List.cons_append, SAtom.axesBefore, ih, List.length_cons]; omega

/-- the specification puts the array axes after the axes of the plain prefix -/
theorem specAtoms_axesBefore (w : Nat) (e : Entry) (suf : List Entry) (he : e.isArrE = true) :
    ∀ (pfx : List Entry), pfx.all Entry.isPlain = true → ∀ (rest : Shape) (sats : List SAtom),
    EllFits w rest.length (pfx ++ e :: suf) → specAtoms w rest (pfx ++ e :: suf) = some sats →
    SAtom.axesBefore sats = pfxAxes w pfx := by
  intro pfx
  induction pfx with
  | nil =>
    intro _ rest sats _ h
    simp only [List.nil_append] at h
    cases e with
    | iarr v m =>
      cases rest with
      | nil => simp [specAtoms] at h
      | cons n sh =>
        rw [specAtoms_cons_cons w n sh _ suf (by simp) (by simp) (by simp)] at h
        cases hs : specAtoms w sh suf with
        | none => simp [specEntry, hs] at h
        | some x =>
          simp only [specEntry, hs, Option.bind_some, Option.map_some, Option.some.injEq] at h
          subst h; rfl
    | barr v m =>
      simp only [specAtoms] at h
      split at h
      · cases hs : specAtoms w (rest.drop v.shape.length) suf with
        | none => simp [hs] at h
        | some x => simp only [hs, Option.map_some, Option.some.injEq] at h; subst h; rfl
      · simp at h
    | _ => simp [Entry.isArrE] at he
  | cons x pfx ih =>
    intro hp rest sats hfit h
    simp only [List.all_cons, Bool.and_eq_true] at hp
    obtain ⟨hpx, hps⟩ := hp
    simp only [List.cons_append] at h hfit
    obtain ⟨hf1, hf2⟩ := hfit
    cases x with
    | none =>
      rw [specAtoms_none] at h
      cases hs : specAtoms w rest (pfx ++ e :: suf) with
      | none => simp [hs] at h
      | some y =>
        simp only [hs, Option.map_some, Option.some.injEq] at h; subst h
        have := ih hps rest y (by simpa [Entry.padv, Entry.isEll, Entry.advance] using hf2) hs
        simp [SAtom.axesBefore, pfxAxes, Entry.isEll, this]
    | ell =>
      rw [specAtoms_ell] at h
      cases hs : specAtoms w (rest.drop w) (pfx ++ e :: suf) with
      | none => simp [hs] at h
      | some y =>
        simp only [hs, Option.map_some, Option.some.injEq] at h; subst h
        have hw : w ≤ rest.length := hf1 rfl
        have := ih hps (rest.drop w) y (by simpa [Entry.padv, Entry.isEll, List.length_drop] using hf2) hs
        rw [axesBefore_axes_append, this]
        simp [pfxAxes, Entry.isEll, List.length_take, Nat.min_eq_left hw]
    | slice full l =>
      cases rest with
      | nil => simp [specAtoms] at h
      | cons n sh =>
        rw [specAtoms_cons_cons w n sh _ _ (by simp) (by simp) (by simp)] at h
        cases hs : specAtoms w sh (pfx ++ e :: suf) with
        | none => cases hq : specEntry n (.slice full l) <;> simp [hq, hs] at h
        | some y =>
          simp only [specEntry] at h
          split at h
          · simp only [hs, Option.bind_some, Option.map_some, Option.some.injEq] at h; subst h
            have := ih hps sh y (by simpa [Entry.padv, Entry.isEll, Entry.advance] using hf2) hs
            simp [SAtom.axesBefore, pfxAxes, Entry.isEll, Entry.advance, this]
          · simp at h
    | bool v m =>
      cases rest with
      | nil => simp [specAtoms] at h
      | cons n sh =>
        rw [specAtoms_cons_cons w n sh _ _ (by simp) (by simp) (by simp)] at h
        cases hs : specAtoms w sh (pfx ++ e :: suf) with
        | none => simp [specEntry, hs] at h
        | some y =>
          simp only [specEntry, hs, Option.bind_some, Option.map_some, Option.some.injEq] at h; subst h
          have := ih hps sh y (by simpa [Entry.padv, Entry.isEll, Entry.advance] using hf2) hs
          cases m <;> cases v <;> simp [SAtom.axesBefore, pfxAxes, Entry.isEll, Entry.advance, this]
    | _ => simp [Entry.isPlain] at hpx

def Entry.isAdvE : Entry → Bool
  | .int _ _ => true | .iarr _ _ => true | .barr _ _ => true | _ => false

/-- entries that become a slice or `None` in the prepared index -/
def Entry.isNCE : Entry → Bool
  | .none => true | .slice _ _ => true | .bool _ _ => true | _ => false

def _root_.PMV.NpIndex.NEntry.isNC : NEntry → Bool
  | .newaxis => true | .coords _ => true | _ => false

/-- what `_prep_index` turns one entry into, by kind -/
theorem prepEntry_image (rest : Shape) (e : Entry) (p : NEntry) (u : PostUpd) (so : Option Shape)
    (hk : (e.isBasic || e.isArrE) = true) (h : prepEntry rest 0 e = some (p, u, so)) :
    p.isEll = e.isEll ∧ p.cons = e.advance ∧ p.isArr = e.isArrE ∧ p.isAdv = e.isAdvE ∧ p.isNC = e.isNCE := by
  cases e with
  | none => simp only [prepEntry, Option.some.injEq, Prod.mk.injEq] at h; obtain ⟨rfl, _, _⟩ := h; simp [NEntry.isEll, Entry.isEll, NEntry.cons, Entry.advance, NEntry.isArr, Entry.isArrE, NEntry.isAdv, Entry.isAdvE, NEntry.isNC, Entry.isNCE]
  | ell => simp only [prepEntry, Option.some.injEq, Prod.mk.injEq] at h; obtain ⟨rfl, _, _⟩ := h; simp [NEntry.isEll, Entry.isEll, NEntry.cons, Entry.advance, NEntry.isArr, Entry.isArrE, NEntry.isAdv, Entry.isAdvE, NEntry.isNC, Entry.isNCE]
  | slice full l =>
    simp only [prepEntry] at h
    cases hr : rest[0]? with
    | none => simp [hr] at h
    | some n =>
      simp only [hr, Option.some.injEq, Prod.mk.injEq] at h; obtain ⟨rfl, _, _⟩ := h
      simp [NEntry.isEll, Entry.isEll, NEntry.cons, Entry.advance, NEntry.isArr, Entry.isArrE, NEntry.isAdv, Entry.isAdvE, NEntry.isNC, Entry.isNCE]
  | int k m =>
    simp only [prepEntry] at h
    cases hr : rest[0]? with
    | none => simp [hr] at h
    | some n =>
      simp only [hr, Option.some.injEq, Prod.mk.injEq] at h; obtain ⟨rfl, _, _⟩ := h
      have hj : ∃ j u', prepInt n k m = (.int j, u') := by
        obtain ⟨h1, h2⟩ := int_entry_exact n k m
        cases hf : intFlag n k m with
        | false => obtain ⟨j, hj, _⟩ := h1 hf; exact ⟨j, _, hj⟩
        | true => exact ⟨0, _, h2 hf⟩
      obtain ⟨j, u', hj⟩ := hj
      simp [hj, NEntry.isEll, Entry.isEll, NEntry.cons, Entry.advance, NEntry.isArr, Entry.isArrE, NEntry.isAdv, Entry.isAdvE, NEntry.isNC, Entry.isNCE]
  | bool v m =>
    simp only [prepEntry] at h
    cases hr : rest[0]? with
    | none => simp [hr] at h
    | some n =>
      simp only [hr, Option.some.injEq, Prod.mk.injEq] at h; obtain ⟨rfl, _, _⟩ := h
      cases m <;> cases v <;>
        simp [prepBool, NEntry.isEll, Entry.isEll, NEntry.cons, Entry.advance, NEntry.isArr, Entry.isArrE, NEntry.isAdv, Entry.isAdvE, NEntry.isNC, Entry.isNCE]
  | iarr v m =>
    simp only [prepEntry] at h
    cases hr : rest[0]? with
    | none => simp [hr] at h
    | some n =>
      simp only [hr, prepIntArr, Option.some.injEq, Prod.mk.injEq] at h; obtain ⟨rfl, _, _⟩ := h
      simp [NEntry.isEll, Entry.isEll, NEntry.cons, Entry.advance, NEntry.isArr, Entry.isArrE, NEntry.isAdv, Entry.isAdvE, NEntry.isNC, Entry.isNCE]
  | barr v m =>
    simp only [prepEntry] at h
    cases hr : rest[0]? with
    | none => simp [hr] at h
    | some n =>
      simp only [hr, prepBoolArr, List.drop_zero] at h
      split at h
      · simp only [Option.map_some, Option.some.injEq, Prod.mk.injEq] at h; obtain ⟨rfl, _, _⟩ := h
        simp [NEntry.isEll, Entry.isEll, NEntry.cons, Entry.advance, NEntry.isArr, Entry.isArrE, NEntry.isAdv, Entry.isAdvE, NEntry.isNC, Entry.isNCE]
      · simp at h
  | _ => simp [Entry.isBasic, Entry.isArrE] at hk

/-- the prepared index mirrors the index, kind by kind -/
theorem prog_maps (w : Nat) : ∀ (es : List Entry), es.all (fun e => e.isBasic || e.isArrE) = true →
    ∀ (rest : Shape) (post : PostMask) (pre : List NEntry) (post' : PostMask) (shs : List Shape),
    prog w rest es post = some (pre, post', shs) →
    pre.map NEntry.isEll = es.map Entry.isEll ∧ pre.map NEntry.cons = es.map Entry.advance ∧
    pre.map NEntry.isArr = es.map Entry.isArrE ∧ pre.map NEntry.isAdv = es.map Entry.isAdvE ∧
    pre.map NEntry.isNC = es.map Entry.isNCE := by
  intro es
  induction es with
  | nil =>
    intro _ rest post pre post' shs h
    simp only [prog, Option.some.injEq, Prod.mk.injEq] at h
    obtain ⟨rfl, _, _⟩ := h
    simp
  | cons e es ih =>
    intro hb rest post pre post' shs h
    simp only [List.all_cons, Bool.and_eq_true] at hb
    simp only [prog] at h
    cases hpe : prepEntry rest 0 e with
    | none => simp [hpe] at h
    | some x =>
      obtain ⟨p, u, s⟩ := x
      simp only [hpe] at h
      cases hu : u.apply post with
      | none => simp [hu] at h
      | some po =>
        simp only [hu] at h
        cases hp : prog w (rest.drop (e.padv w)) es po with
        | none => simp [hp] at h
        | some y =>
          obtain ⟨ps, po', ss⟩ := y
          simp only [hp, Option.some.injEq, Prod.mk.injEq] at h
          obtain ⟨rfl, _, _⟩ := h
          obtain ⟨i1, i2, i3, i4, i5⟩ := ih hb.2 _ _ _ _ _ hp
          obtain ⟨g1, g2, g3, g4, g5⟩ := prepEntry_image rest e p u s hb.1 hpe
          simp [i1, i2, i3, i4, i5, g1, g2, g3, g4, g5]

/-- two lists that look alike through two classifiers have the same filter length, `any`, `findIdx?` -/
theorem map_eq_facts {α β : Type} (p1 : α → Bool) (p2 : β → Bool) : ∀ (l1 : List α) (l2 : List β),
    l1.map p1 = l2.map p2 →
    (l1.filter p1).length = (l2.filter p2).length ∧ l1.any p1 = l2.any p2 ∧
    l1.findIdx? p1 = l2.findIdx? p2 ∧ l1.length = l2.length := by
  intro l1
  induction l1 with
  | nil => intro l2 h; cases l2 <;> simp_all
  | cons a r ih =>
    intro l2 h
    cases l2 with
    | nil => simp at h
    | cons b r2 =>
      simp only [List.map_cons, List.cons.injEq] at h
      obtain ⟨i1, i2, i3, i4⟩ := ih r2 h.2
      simp only [List.filter_cons, List.any_cons, List.findIdx?_cons, List.length_cons, h.1, i2, i3, i4]
      cases p2 b <;> simp [i1]

/-- the correction `locate` adds when the Ellipsis stands ahead of the array entry -/
def ellCorr (ellK : Option Nat) (k0 w : Nat) : Nat :=
  match ellK with
  | some k => if k < k0 then w else 0
  | none => 0

/-- `locate` (indexer.py, repaired) for a prepared index with exactly one array entry, at `k0` -/
theorem locate_one (pre : List NEntry) (ellK : Option Nat) (w k0 nsuf : Nat)
    (h1 : pre.findIdx? NEntry.isArr = some k0) (h2 : pre.reverse.findIdx? NEntry.isArr = some nsuf)
    (h3 : pre.length = k0 + 1 + nsuf) :
    locate pre ellK w =
      if separated (pre.map NEntry.isAdv) then (0, false)
      else (((pre.take k0).filter NEntry.isNC).length + ellCorr ellK k0 w, false) := by
  have hk : pre.length - 1 - nsuf = k0 := by omega
  have hdrop : ((pre.map NEntry.isAdv).take k0).drop k0 = [] := by
    apply List.drop_eq_nil_of_le; simp [List.length_take]; omega
  unfold locate
  simp only [h1, h2, Option.getD_some, hk, hdrop, List.all_nil, Bool.not_true, Bool.and_false,
    Bool.not_false, Bool.true_and]
  have hfl : ∀ (f : NEntry → Bool), (∀ x, f x = NEntry.isNC x) →
      ((pre.take k0).filter f).length = ((pre.take k0).filter NEntry.isNC).length := by
    intro f hf
    have : f = NEntry.isNC := funext hf
    rw [this]
  rw [hfl _ (fun x => by cases x <;> rfl)]
  cases ellK with
  | none => simp [ellCorr]
  | some k =>
    by_cases hkk : k < k0 <;> simp [ellCorr, hkk]

theorem axesBefore_le : ∀ (ats : List Atom), axesBefore ats ≤ (plainLens ats).length := by
  intro ats
  induction ats with
  | nil => simp [axesBefore, plainLens]
  | cons a r ih => cases a <;> simp [axesBefore, plainLens] <;> omega

theorem expand_ok : ∀ (es : List Entry), es.all (fun e => e.isBasic || e.isArrE) = true → expand es = es := by
  intro es
  induction es with
  | nil => intro _; rfl
  | cons e r ih =>
    intro h
    simp only [List.all_cons, Bool.and_eq_true] at h
    have : expandEntry e = [e] := by cases e <;> simp_all [Entry.isBasic, Entry.isArrE, expandEntry]
    simp only [expand, List.flatMap_cons, this] at ih ⊢
    rw [ih h.2]; rfl

theorem all_ok_one (pfx : List Entry) (e : Entry) (suf : List Entry) (hp : pfx.all Entry.isPlain = true)
    (he : e.isArrE = true) (hs : suf.all Entry.isBasic = true) :
    (pfx ++ e :: suf).all (fun e => e.isBasic || e.isArrE) = true := by
  simp only [List.all_append, List.all_cons, Bool.and_eq_true, he, Bool.or_true, true_and]
  constructor
  · rw [List.all_eq_true] at hp ⊢
    intro x hx
    have := hp x hx
    cases x <;> simp_all [Entry.isPlain, Entry.isBasic]
  · rw [List.all_eq_true] at hs ⊢
    intro x hx; simp [hs x hx]

/-- the plain prefix of the index, counted the way `locate` counts it -/
theorem pfxAxes_count (w : Nat) : ∀ (pfx : List Entry), pfx.all Entry.isPlain = true →
    (pfx.filter Entry.isEll).length ≤ 1 →
    pfxAxes w pfx = (pfx.filter Entry.isNCE).length + (if pfx.any Entry.isEll then w else 0) := by
  intro pfx
  induction pfx with
  | nil => intro _ _; rfl
  | cons x r ih =>
    intro hp hc
    simp only [List.all_cons, Bool.and_eq_true] at hp
    cases x with
    | ell =>
      have hr : (r.filter Entry.isEll).length = 0 := by
        have : ((Entry.ell :: r).filter Entry.isEll).length = (r.filter Entry.isEll).length + 1 := by
          simp [List.filter_cons, Entry.isEll]
        omega
      have hnone : r.any Entry.isEll = false := by
        have := filter_isEll_nil_of_len r hr
        rw [List.any_eq_false]; intro y hy
        have := List.all_eq_true.mp this y hy
        simpa using this
      have := ih hp.2 (by omega)
      simp [pfxAxes, Entry.isEll, Entry.isNCE, List.filter_cons, this, hnone]; omega
    | none =>
      have := ih hp.2 (by simpa [List.filter_cons, Entry.isEll] using hc)
      simp [pfxAxes, Entry.isEll, Entry.isNCE, List.filter_cons, this]; omega
    | slice f l =>
      have := ih hp.2 (by simpa [List.filter_cons, Entry.isEll] using hc)
      simp [pfxAxes, Entry.isEll, Entry.isNCE, List.filter_cons, this]; omega
    | bool v m =>
      have := ih hp.2 (by simpa [List.filter_cons, Entry.isEll] using hc)
      simp [pfxAxes, Entry.isEll, Entry.isNCE, List.filter_cons, this]; omega
    | _ => simp [Entry.isPlain] at hp

theorem findIdx_one : ∀ (l1 : List Entry) (e : Entry) (l2 : List Entry),
    (∀ x ∈ l1, x.isArrE = false) → e.isArrE = true →
    (l1 ++ e :: l2).findIdx? Entry.isArrE = some l1.length := by
  intro l1
  induction l1 with
  | nil => intro e l2 _ he; simp [List.findIdx?_cons, he]
  | cons x r ih =>
    intro e l2 h he
    have hx : x.isArrE = false := h x (by simp)
    simp [List.findIdx?_cons, hx, ih e l2 (fun y hy => h y (by simp [hy])) he]

theorem ellK_lt (w : Nat) : ∀ (pfx : List Entry) (e : Entry) (suf : List Entry), e.isEll = false →
    ellCorr ((pfx ++ e :: suf).findIdx? Entry.isEll) pfx.length w = if pfx.any Entry.isEll then w else 0 := by
  intro pfx
  induction pfx with
  | nil =>
    intro e suf he
    simp only [ellCorr, List.nil_append, List.findIdx?_cons, he, List.length_nil, List.any_nil]
    cases suf.findIdx? Entry.isEll <;> simp
  | cons x r ih =>
    intro e suf he
    cases hx : x.isEll with
    | true => simp [ellCorr, List.findIdx?_cons, hx]
    | false =>
      have := ih e suf he
      simp only [ellCorr, List.cons_append, List.findIdx?_cons, hx, List.length_cons, List.any_cons, Bool.false_or] at this ⊢
      cases hf : (r ++ e :: suf).findIdx? Entry.isEll with
      | none => simp [hf] at this ⊢; exact this
      | some k =>
        simp only [hf] at this
        simp only [Option.map_some, Bool.false_eq_true, if_false]
        rw [← this]
        by_cases hk : k < r.length <;> simp [hk]

/-- NumPy's result for a prepared index whose atoms simulate the specification's (one array
    entry, advanced entries not separated) -/
theorem npIndex_sim (shape : Shape) (pre : List NEntry) (ats : List Atom) (sats : List SAtom) (sh : Shape)
    (h1 : ellCount pre ≤ 1) (h2 : consTotal pre ≤ shape.length)
    (hat : atoms shape (shape.length - consTotal pre)
      (if pre.any NEntry.isEll then pre else pre ++ [.ell]) = some ats)
    (hsim : Sim ats sats sh) (hsep : separated (pre.map NEntry.isAdv) = false) :
    npIndex shape pre = some ⟨(SAtom.lens sats).take (SAtom.axesBefore sats) ++ sh ++ (SAtom.lens sats).drop (SAtom.axesBefore sats),
      fun o => walk ats (splitAt (SAtom.axesBefore sats) sh.length o).1 (splitAt (SAtom.axesBefore sats) sh.length o).2⟩ := by
  obtain ⟨s1, s2, _, s4, s5, _⟩ := hsim
  unfold npIndex
  have g1 : ¬ ellCount pre > 1 := by omega
  have g2 : ¬ consTotal pre > shape.length := by omega
  simp only [g1, g2, if_false, hat, s2, s4, hsep, s5, s1]
  simp


end PMV.Index
