import PMV.Lemmas.GatherSem
/-
  The catalogue of element-wise operations only looks at what is observable of its operands
  (value and derivatives of unmasked elements, the mask bits): each operator `Respects`
  observational equality.  This is what lets the fully-masked stand-in `masked_single` (and any
  other value stored under a mask) replace a masked operand.  Core Lean only.
-/
namespace PMV.Shrink
open PMV
set_option linter.unusedSectionVars false
variable {K : Type} [Num K]

theorem dobs_eq_iff (x y : DCell K) : x.obs = y.obs ↔ x.m = y.m ∧ (x.m = false → x.v = y.v) := by
  obtain ⟨xv, xm⟩ := x; obtain ⟨yv, ym⟩ := y
  cases xm <;> cases ym <;> simp [DCell.obs]

theorem same_iff (x y : Cell K) : Cell.Same x y ↔
    x.m = y.m ∧ (x.m = false → x.v = y.v ∧
      ∀ k, (x.d k).m = (y.d k).m ∧ ((x.d k).m = false → (x.d k).v = (y.d k).v)) := by
  simp only [Cell.Same, dobs_eq_iff]

namespace Cat

theorem add_respects : (add : Op2 K).Respects := by
  intro ka kb a a' b b' ha hb
  rw [same_iff] at *
  obtain ⟨ham, ha2⟩ := ha; obtain ⟨hbm, hb2⟩ := hb
  cases h1 : a.m <;> cases h2 : b.m <;> simp_all [add, dmap2, noDeriv]
  intro k
  have e1 := ha2.2 k; have e2 := hb2.2 k
  generalize decide (k ∈ ka) = fa; generalize decide (k ∈ kb) = fb
  cases fa <;> cases fb <;> simp_all

theorem sub_respects : (sub : Op2 K).Respects := by
  intro ka kb a a' b b' ha hb
  rw [same_iff] at *
  obtain ⟨ham, ha2⟩ := ha; obtain ⟨hbm, hb2⟩ := hb
  cases h1 : a.m <;> cases h2 : b.m <;> simp_all [sub, dmap2, noDeriv]
  intro k
  have e1 := ha2.2 k; have e2 := hb2.2 k
  generalize decide (k ∈ ka) = fa; generalize decide (k ∈ kb) = fb
  cases fa <;> cases fb <;> simp_all

theorem mul_respects : (mul : Op2 K).Respects := by
  intro ka kb a a' b b' ha hb
  rw [same_iff] at *
  obtain ⟨ham, ha2⟩ := ha; obtain ⟨hbm, hb2⟩ := hb
  cases h1 : a.m <;> cases h2 : b.m <;> simp_all [mul, dmap2, dscale, noDeriv]
  intro k
  have e1 := ha2.2 k; have e2 := hb2.2 k
  generalize decide (k ∈ ka) = fa; generalize decide (k ∈ kb) = fb
  cases fa <;> cases fb <;> simp_all

theorem div_respects : (div : Op2 K).Respects := by
  intro ka kb a a' b b' ha hb
  rw [same_iff] at *
  obtain ⟨ham, ha2⟩ := ha; obtain ⟨hbm, hb2⟩ := hb
  cases h1 : a.m <;> cases h2 : b.m <;> simp_all [div, dmap2, dscale, noDeriv]
  cases hz : Num.isZero b'.v <;> simp_all
  intro k
  have e1 := ha2.2 k; have e2 := hb2.2 k
  generalize decide (k ∈ ka) = fa; generalize decide (k ∈ kb) = fb
  cases fa <;> cases fb <;> simp_all

theorem neg_respects : (neg : Op1 K).Respects := by
  intro ka a a' ha
  rw [same_iff] at *
  obtain ⟨ham, ha2⟩ := ha
  cases h1 : a.m <;> simp_all [neg, noDeriv]
  intro k
  have e1 := ha2.2 k
  generalize decide (k ∈ ka) = fa
  cases fa <;> simp_all

theorem abs_respects : (abs : Op1 K).Respects := by
  intro ka a a' ha
  rw [same_iff] at *
  obtain ⟨ham, ha2⟩ := ha
  cases h1 : a.m <;> simp_all [abs, dscale, noDeriv]
  intro k
  have e1 := ha2.2 k
  generalize decide (k ∈ ka) = fa
  cases fa <;> simp_all

theorem recip_respects : (recip : Op1 K).Respects := by
  intro ka a a' ha
  rw [same_iff] at *
  obtain ⟨ham, ha2⟩ := ha
  cases h1 : a.m <;> simp_all [recip, noDeriv]
  cases hz : Num.isZero a'.v <;> simp_all
  intro k
  have e1 := ha2.2 k
  generalize decide (k ∈ ka) = fa
  cases fa <;> simp_all

theorem sqrt_respects : (sqrt : Op1 K).Respects := by
  intro ka a a' ha
  rw [same_iff] at *
  obtain ⟨ham, ha2⟩ := ha
  cases h1 : a.m <;> simp_all [sqrt, noDeriv]
  cases hz : Num.isNeg a'.v <;> simp_all
  intro k
  have e1 := ha2.2 k
  generalize decide (k ∈ ka) = fa
  cases fa <;> simp_all

theorem wod_respects : (wod : Op1 K).Respects := by
  intro ka a a' ha
  rw [same_iff] at *
  obtain ⟨ham, ha2⟩ := ha
  cases h1 : a.m <;> simp_all [wod, noDeriv]

theorem cmp_respects (c : K → K → Bool) : (cmp c : Op2 K).Respects := by
  intro ka kb a a' b b' ha hb
  rw [same_iff] at *
  obtain ⟨ham, ha2⟩ := ha; obtain ⟨hbm, hb2⟩ := hb
  cases h1 : a.m <;> cases h2 : b.m <;> simp_all [cmp, noDeriv]

theorem eq_respects : (eq : Op2 K).Respects := by
  intro ka kb a a' b b' ha hb
  rw [same_iff] at *
  obtain ⟨ham, ha2⟩ := ha; obtain ⟨hbm, hb2⟩ := hb
  cases h1 : a.m <;> cases h2 : b.m <;> simp_all [eq, noDeriv]

theorem ne_respects : (ne : Op2 K).Respects := by
  intro ka kb a a' b b' ha hb
  rw [same_iff] at *
  obtain ⟨ham, ha2⟩ := ha; obtain ⟨hbm, hb2⟩ := hb
  cases h1 : a.m <;> cases h2 : b.m <;> simp_all [ne, noDeriv]

end Cat
end PMV.Shrink
