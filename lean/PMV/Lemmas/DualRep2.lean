import PMV.Props.C06
/-
  C06, phase 3: representation lemmas (`rep_*`, see Props/C06.lean) for the remaining item sizes
  (2-vectors, quaternions / 2×2 matrices = 4 components, 3×3 matrices = 9 components) and operations
  (3×3 inverse, stack widening, rows, to_matrix3).  Audited with Props/C06.lean (harness/c06.py LEAN_MODULES).
-/
namespace PMV.Dual
open PMV

section repw
variable {env : ℕ → ℝ} {denv : ℕ → Option ℝ} {um : ℕ → Bool}

attribute [local simp] Val.add Val.sub Val.neg Val.nscale Val.ndiv Val.smul Val.sdiv Val.dot Val.normSq Val.norm
  Val.emul Val.ediv Val.comp Val.slice Val.cat Val.rows Val.col Val.transpose Val.transposeV Val.widen
  bilin linmap mergeAdd zipAdd zipSub zipMul sumL dotV Val.dvec
  E.val E.der E.ok getD_dAdd getD_dSub getD_dMul getD_dDiv getD_dFac getD_dFacR getD_map_neg getD_map_div
  List.range List.range.loop

syntax "repw2 " ident ident ident ident : tactic
macro_rules
  | `(tactic| repw2 $a $b $ha $hb) => `(tactic| (
    obtain ⟨va, da, oka⟩ := $a
    obtain ⟨vb, db, okb⟩ := $b
    obtain ⟨hva, hda, hoka⟩ := $ha
    obtain ⟨hvb, hdb, hokb⟩ := $hb
    simp only [List.map] at hva hvb
    subst hva hvb
    refine ⟨?_, ?_, ?_⟩
    · simp
    · cases da <;> cases db <;> simp at hda hdb ⊢ <;> (try subst_vars) <;> (try simp_all) <;>
        (try (repeat' apply And.intro)) <;> (try ring)
    · intro h
      simp at h hoka hokb ⊢
      simp_all))

syntax "repw1 " ident ident : tactic
macro_rules
  | `(tactic| repw1 $a $ha) => `(tactic| (
    obtain ⟨va, da, oka⟩ := $a
    obtain ⟨hva, hda, hoka⟩ := $ha
    simp only [List.map] at hva
    subst hva
    refine ⟨?_, ?_, ?_⟩
    · simp
    · cases da <;> simp at hda ⊢ <;> (try subst_vars) <;> (try simp_all) <;>
        (try (repeat' apply And.intro)) <;> (try ring)
    · intro h
      simp at h hoka ⊢
      simp_all))


theorem rep_neg2 {a : Val ℝ} {a0 a1 : E ℝ} (ha : Rep env denv um a [a0, a1]) :
    Rep env denv um (Val.neg a) [.neg a0, .neg a1] := by repw1 a ha

theorem rep_nscale2 {a : Val ℝ} {a0 a1 : E ℝ} (c : ℝ) (ha : Rep env denv um a [a0, a1]) :
    Rep env denv um (Val.nscale c a) [.scale c a0, .scale c a1] := by repw1 a ha

theorem rep_ndiv2 {a : Val ℝ} {a0 a1 : E ℝ} (c : ℝ) (ha : Rep env denv um a [a0, a1]) :
    Rep env denv um (Val.ndiv a c) [.divn a0 c, .divn a1 c] := by repw1 a ha

theorem rep_add4 {a b : Val ℝ} {a0 a1 a2 a3 b0 b1 b2 b3 : E ℝ}
    (ha : Rep env denv um a [a0, a1, a2, a3]) (hb : Rep env denv um b [b0, b1, b2, b3]) :
    Rep env denv um (Val.add a b) [.add a0 b0, .add a1 b1, .add a2 b2, .add a3 b3] := by repw2 a b ha hb

theorem rep_sub4 {a b : Val ℝ} {a0 a1 a2 a3 b0 b1 b2 b3 : E ℝ}
    (ha : Rep env denv um a [a0, a1, a2, a3]) (hb : Rep env denv um b [b0, b1, b2, b3]) :
    Rep env denv um (Val.sub a b) [.sub a0 b0, .sub a1 b1, .sub a2 b2, .sub a3 b3] := by repw2 a b ha hb

theorem rep_neg4 {a : Val ℝ} {a0 a1 a2 a3 : E ℝ} (ha : Rep env denv um a [a0, a1, a2, a3]) :
    Rep env denv um (Val.neg a) [.neg a0, .neg a1, .neg a2, .neg a3] := by repw1 a ha

theorem rep_nscale4 {a : Val ℝ} {a0 a1 a2 a3 : E ℝ} (c : ℝ) (ha : Rep env denv um a [a0, a1, a2, a3]) :
    Rep env denv um (Val.nscale c a) [.scale c a0, .scale c a1, .scale c a2, .scale c a3] := by repw1 a ha

theorem rep_ndiv4 {a : Val ℝ} {a0 a1 a2 a3 : E ℝ} (c : ℝ) (ha : Rep env denv um a [a0, a1, a2, a3]) :
    Rep env denv um (Val.ndiv a c) [.divn a0 c, .divn a1 c, .divn a2 c, .divn a3 c] := by repw1 a ha

theorem rep_smul4 {a s : Val ℝ} {a0 a1 a2 a3 s0 : E ℝ}
    (ha : Rep env denv um a [a0, a1, a2, a3]) (hs : Rep env denv um s [s0]) :
    Rep env denv um (Val.smul a s) [.mul a0 s0, .mul a1 s0, .mul a2 s0, .mul a3 s0] := by repw2 a s ha hs

theorem rep_add9 {a b : Val ℝ} {a0 a1 a2 a3 a4 a5 a6 a7 a8 b0 b1 b2 b3 b4 b5 b6 b7 b8 : E ℝ}
    (ha : Rep env denv um a [a0, a1, a2, a3, a4, a5, a6, a7, a8]) (hb : Rep env denv um b [b0, b1, b2, b3, b4, b5, b6, b7, b8]) :
    Rep env denv um (Val.add a b) [.add a0 b0, .add a1 b1, .add a2 b2, .add a3 b3, .add a4 b4, .add a5 b5, .add a6 b6, .add a7 b7, .add a8 b8] := by repw2 a b ha hb

theorem rep_sub9 {a b : Val ℝ} {a0 a1 a2 a3 a4 a5 a6 a7 a8 b0 b1 b2 b3 b4 b5 b6 b7 b8 : E ℝ}
    (ha : Rep env denv um a [a0, a1, a2, a3, a4, a5, a6, a7, a8]) (hb : Rep env denv um b [b0, b1, b2, b3, b4, b5, b6, b7, b8]) :
    Rep env denv um (Val.sub a b) [.sub a0 b0, .sub a1 b1, .sub a2 b2, .sub a3 b3, .sub a4 b4, .sub a5 b5, .sub a6 b6, .sub a7 b7, .sub a8 b8] := by repw2 a b ha hb

theorem rep_neg9 {a : Val ℝ} {a0 a1 a2 a3 a4 a5 a6 a7 a8 : E ℝ} (ha : Rep env denv um a [a0, a1, a2, a3, a4, a5, a6, a7, a8]) :
    Rep env denv um (Val.neg a) [.neg a0, .neg a1, .neg a2, .neg a3, .neg a4, .neg a5, .neg a6, .neg a7, .neg a8] := by repw1 a ha

theorem rep_nscale9 {a : Val ℝ} {a0 a1 a2 a3 a4 a5 a6 a7 a8 : E ℝ} (c : ℝ) (ha : Rep env denv um a [a0, a1, a2, a3, a4, a5, a6, a7, a8]) :
    Rep env denv um (Val.nscale c a) [.scale c a0, .scale c a1, .scale c a2, .scale c a3, .scale c a4, .scale c a5, .scale c a6, .scale c a7, .scale c a8] := by repw1 a ha

theorem rep_ndiv9 {a : Val ℝ} {a0 a1 a2 a3 a4 a5 a6 a7 a8 : E ℝ} (c : ℝ) (ha : Rep env denv um a [a0, a1, a2, a3, a4, a5, a6, a7, a8]) :
    Rep env denv um (Val.ndiv a c) [.divn a0 c, .divn a1 c, .divn a2 c, .divn a3 c, .divn a4 c, .divn a5 c, .divn a6 c, .divn a7 c, .divn a8 c] := by repw1 a ha

theorem rep_smul9 {a s : Val ℝ} {a0 a1 a2 a3 a4 a5 a6 a7 a8 s0 : E ℝ}
    (ha : Rep env denv um a [a0, a1, a2, a3, a4, a5, a6, a7, a8]) (hs : Rep env denv um s [s0]) :
    Rep env denv um (Val.smul a s) [.mul a0 s0, .mul a1 s0, .mul a2 s0, .mul a3 s0, .mul a4 s0, .mul a5 s0, .mul a6 s0, .mul a7 s0, .mul a8 s0] := by repw2 a s ha hs

theorem rep_sdiv9 {a s : Val ℝ} {a0 a1 a2 a3 a4 a5 a6 a7 a8 s0 : E ℝ}
    (ha : Rep env denv um a [a0, a1, a2, a3, a4, a5, a6, a7, a8]) (hs : Rep env denv um s [s0]) :
    Rep env denv um (Val.sdiv a s) [.div a0 s0, .div a1 s0, .div a2 s0, .div a3 s0, .div a4 s0, .div a5 s0, .div a6 s0, .div a7 s0, .div a8 s0] := by repw2 a s ha hs

theorem rep_comp1 {a : Val ℝ} {a0 : E ℝ} (ha : Rep env denv um a [a0]) :
    Rep env denv um (Val.comp 0 a) [a0] := by repw1 a ha

theorem rep_comp2 {a : Val ℝ} {a0 a1 : E ℝ} (ha : Rep env denv um a [a0, a1]) :
    Rep env denv um (Val.comp 0 a) [a0] ∧
    Rep env denv um (Val.comp 1 a) [a1] := by
  refine ⟨?_, ?_⟩ <;> repw1 a ha

theorem rep_comp4 {a : Val ℝ} {a0 a1 a2 a3 : E ℝ} (ha : Rep env denv um a [a0, a1, a2, a3]) :
    Rep env denv um (Val.comp 0 a) [a0] ∧
    Rep env denv um (Val.comp 1 a) [a1] ∧
    Rep env denv um (Val.comp 2 a) [a2] ∧
    Rep env denv um (Val.comp 3 a) [a3] := by
  refine ⟨?_, ?_, ?_, ?_⟩ <;> repw1 a ha

theorem rep_comp9 {a : Val ℝ} {a0 a1 a2 a3 a4 a5 a6 a7 a8 : E ℝ} (ha : Rep env denv um a [a0, a1, a2, a3, a4, a5, a6, a7, a8]) :
    Rep env denv um (Val.comp 0 a) [a0] ∧
    Rep env denv um (Val.comp 1 a) [a1] ∧
    Rep env denv um (Val.comp 2 a) [a2] ∧
    Rep env denv um (Val.comp 3 a) [a3] ∧
    Rep env denv um (Val.comp 4 a) [a4] ∧
    Rep env denv um (Val.comp 5 a) [a5] ∧
    Rep env denv um (Val.comp 6 a) [a6] ∧
    Rep env denv um (Val.comp 7 a) [a7] ∧
    Rep env denv um (Val.comp 8 a) [a8] := by
  refine ⟨?_, ?_, ?_, ?_, ?_, ?_, ?_, ?_, ?_⟩ <;> repw1 a ha

theorem rep_rows2 {a : Val ℝ} {a0 a1 a2 a3 : E ℝ} (ha : Rep env denv um a [a0, a1, a2, a3]) :
    Rep env denv um (Val.slice 0 2 a) [a0, a1] ∧ Rep env denv um (Val.slice 2 4 a) [a2, a3] := by
  refine ⟨?_, ?_⟩ <;> repw1 a ha

theorem rep_rows3 {a : Val ℝ} {a0 a1 a2 a3 a4 a5 a6 a7 a8 : E ℝ} (ha : Rep env denv um a [a0, a1, a2, a3, a4, a5, a6, a7, a8]) :
    Rep env denv um (Val.slice 0 3 a) [a0, a1, a2] ∧ Rep env denv um (Val.slice 3 6 a) [a3, a4, a5] ∧
    Rep env denv um (Val.slice 6 9 a) [a6, a7, a8] := by
  refine ⟨?_, ?_, ?_⟩ <;> repw1 a ha

/-- three 3-vectors stacked as the rows of a 3×3 item (`twovec` assembly, matrix3.py:90-127): union of the
    keys, zero rows for a row lacking the key -/
theorem rep_rowcat3 {a b c : Val ℝ} {a0 a1 a2 b0 b1 b2 c0 c1 c2 : E ℝ}
    (ha : Rep env denv um a [a0, a1, a2]) (hb : Rep env denv um b [b0, b1, b2]) (hc : Rep env denv um c [c0, c1, c2]) :
    Rep env denv um (Val.cat (Val.cat a b) c) [a0, a1, a2, b0, b1, b2, c0, c1, c2] := by
  have hab : Rep env denv um (Val.cat a b) [a0, a1, a2, b0, b1, b2] := by repw2 a b ha hb
  generalize Val.cat a b = ab at hab
  repw2 ab c hab hc

theorem rep_norm2 {a : Val ℝ} {a0 a1 : E ℝ} (ha : Rep env denv um a [a0, a1]) :
    Rep env denv um (Val.norm a) [.sqrt (.add (.pow2 a0) (.pow2 a1))] := by
  obtain ⟨va, da, oka⟩ := a
  obtain ⟨hva, hda, hoka⟩ := ha
  simp only [List.map] at hva
  subst hva
  refine ⟨?_, ?_, ?_⟩
  · simp
  · cases da <;> simp at hda ⊢ <;> (try subst_vars) <;> (try simp_all) <;> (try ring)
  · intro h
    simp at h hoka ⊢
    have h2 : Real.sqrt (a0.val env * a0.val env + a1.val env * a1.val env) ≠ 0 := h.2
    have h2 := Real.sqrt_ne_zero'.mp h2
    simp_all

theorem rep_norm4 {a : Val ℝ} {a0 a1 a2 a3 : E ℝ} (ha : Rep env denv um a [a0, a1, a2, a3]) :
    Rep env denv um (Val.norm a) [.sqrt (.add (.add (.add (.pow2 a0) (.pow2 a1)) (.pow2 a2)) (.pow2 a3))] := by
  obtain ⟨va, da, oka⟩ := a
  obtain ⟨hva, hda, hoka⟩ := ha
  simp only [List.map] at hva
  subst hva
  refine ⟨?_, ?_, ?_⟩
  · simp
  · cases da <;> simp at hda ⊢ <;> (try subst_vars) <;> (try simp_all) <;> (try ring)
  · intro h
    simp at h hoka ⊢
    have h2 : Real.sqrt (a0.val env * a0.val env + a1.val env * a1.val env + a2.val env * a2.val env
        + a3.val env * a3.val env) ≠ 0 := h.2
    have h2 := Real.sqrt_ne_zero'.mp h2
    simp_all

theorem rep_ediv2 {a b : Val ℝ} {a0 a1 b0 b1 : E ℝ}
    (ha : Rep env denv um a [a0, a1]) (hb : Rep env denv um b [b0, b1]) :
    Rep env denv um (Val.ediv a b) [.div a0 b0, .div a1 b1] := by
  obtain ⟨va, da, oka⟩ := a
  obtain ⟨vb, db, okb⟩ := b
  obtain ⟨hva, hda, hoka⟩ := ha
  obtain ⟨hvb, hdb, hokb⟩ := hb
  simp only [List.map] at hva hvb
  subst hva hvb
  refine ⟨?_, ?_, ?_⟩
  · simp
  · cases da <;> cases db <;> simp [rpow_neg_two] at hda hdb ⊢ <;> (try subst_vars) <;> (try simp_all) <;>
      (try (repeat' apply And.intro)) <;> (try ring)
  · intro h
    simp at h hoka hokb ⊢
    simp_all

/-- `Qube.stack` key widening: the element keeps values, mask and (absent = 0) derivative components -/
theorem rep_widen {a b : Val ℝ} {es : List (E ℝ)} (ha : Rep env denv um a es) :
    Rep env denv um (Val.widen a b) es := by
  obtain ⟨va, da, oka⟩ := a
  obtain ⟨vb, db, okb⟩ := b
  obtain ⟨hva, hda, hoka⟩ := ha
  refine ⟨hva, ?_, hoka⟩
  cases da <;> cases db <;> simpa [Val.widen, Val.dvec] using hda

end repw

section repinv
variable {env : ℕ → ℝ} {denv : ℕ → Option ℝ} {um : ℕ → Bool}

/-- 3×3 inverse by cofactors -/
def inv3E : List (E ℝ) → List (E ℝ)
  | [a, b, c, d, e, f, g, h, i] =>
    let dt : E ℝ := .add (.sub (.mul a (.sub (.mul e i) (.mul f h))) (.mul b (.sub (.mul d i) (.mul f g))))
      (.mul c (.sub (.mul d h) (.mul e g)))
    [.div (.sub (.mul e i) (.mul f h)) dt, .div (.sub (.mul c h) (.mul b i)) dt, .div (.sub (.mul b f) (.mul c e)) dt,
     .div (.sub (.mul f g) (.mul d i)) dt, .div (.sub (.mul a i) (.mul c g)) dt, .div (.sub (.mul c d) (.mul a f)) dt,
     .div (.sub (.mul d h) (.mul e g)) dt, .div (.sub (.mul b g) (.mul a h)) dt, .div (.sub (.mul a e) (.mul b d)) dt]
  | _ => []

attribute [local simp] Val.inverse Val.inv3V Val.det3 Val.matmulV Val.rows Val.col dotV sumL zipMul Val.dvec inv3E
  E.val E.der E.ok getD_dAdd getD_dSub getD_dMul getD_dDiv List.range List.range.loop

theorem rep_inv3 {a : Val ℝ} {a0 a1 a2 a3 a4 a5 a6 a7 a8 : E ℝ}
    (ha : Rep env denv um a [a0, a1, a2, a3, a4, a5, a6, a7, a8]) :
    Rep env denv um (Val.inverse 3 a) (inv3E [a0, a1, a2, a3, a4, a5, a6, a7, a8]) := by
  obtain ⟨va, da, oka⟩ := a
  obtain ⟨hva, hda, hoka⟩ := ha
  simp only [List.map] at hva
  subst hva
  refine ⟨?_, ?_, ?_⟩
  · simp
  · cases da with
    | none =>
      simp at hda ⊢
      obtain ⟨h0, h1, h2, h3, h4, h5, h6, h7, h8⟩ := hda
      simp [h0, h1, h2, h3, h4, h5, h6, h7, h8]
    | some l =>
      simp at hda
      subst hda
      simp
      generalize a0.val env = x0; generalize a1.val env = x1; generalize a2.val env = x2
      generalize a3.val env = x3; generalize a4.val env = x4; generalize a5.val env = x5
      generalize a6.val env = x6; generalize a7.val env = x7; generalize a8.val env = x8
      generalize (a0.der env denv).getD 0 = y0; generalize (a1.der env denv).getD 0 = y1
      generalize (a2.der env denv).getD 0 = y2; generalize (a3.der env denv).getD 0 = y3
      generalize (a4.der env denv).getD 0 = y4; generalize (a5.der env denv).getD 0 = y5
      generalize (a6.der env denv).getD 0 = y6; generalize (a7.der env denv).getD 0 = y7
      generalize (a8.der env denv).getD 0 = y8
      by_cases hdet : x0 * (x4 * x8 - x5 * x7) - x1 * (x3 * x8 - x5 * x6) + x2 * (x3 * x7 - x4 * x6) = 0
      · simp [hdet]
      · refine ⟨?_, ?_, ?_, ?_, ?_, ?_, ?_, ?_, ?_⟩ <;> (field_simp; ring)
  · intro h
    simp at h hoka ⊢
    simp_all
end repinv

section reptm3
variable {env : ℕ → ℝ} {denv : ℕ → Option ℝ} {um : ℕ → Bool}

/-- component expansion of `Quaternion.to_matrix3` -/
noncomputable def toMatrix3E : List (E ℝ) → List (E ℝ)
  | [p0, p1, p2, p3] =>
    let pn : E ℝ := .sqrt (.add (.add (.add (.pow2 p0) (.pow2 p1)) (.pow2 p2)) (.pow2 p3))
    let c : E ℝ := .div (.lit (Real.sqrt 2)) pn
    let s : E ℝ := .mul c p0
    let x : E ℝ := .mul c p1
    let y : E ℝ := .mul c p2
    let z : E ℝ := .mul c p3
    [.sub (.lit 1) (.add (.mul y y) (.mul z z)), .sub (.mul x y) (.mul s z), .add (.mul x z) (.mul s y),
     .add (.mul x y) (.mul s z), .sub (.lit 1) (.add (.mul x x) (.mul z z)), .sub (.mul y z) (.mul s x),
     .sub (.mul x z) (.mul s y), .add (.mul y z) (.mul s x), .sub (.lit 1) (.add (.mul x x) (.mul y y))]
  | _ => []

attribute [local simp] Val.toMatrix3 toMatrix3E dotV sumL zipMul Val.dvec
  E.val E.der E.ok getD_dAdd getD_dSub getD_dMul getD_dDiv getD_dFac List.range List.range.loop

/-- `Quaternion.to_matrix3`: the source's chain `dm_dq · dq_dp · (-√2/|p|³) · dp` (tables as filled in
    quaternion.py:246-321) is the derivative of the nine quadratic entries of the normalised quaternion -/
theorem rep_toMatrix3 {a : Val ℝ} {a0 a1 a2 a3 : E ℝ} (ha : Rep env denv um a [a0, a1, a2, a3]) :
    Rep env denv um (Val.toMatrix3 a) (toMatrix3E [a0, a1, a2, a3]) := by
  obtain ⟨va, da, oka⟩ := a
  obtain ⟨hva, hda, hoka⟩ := ha
  simp only [List.map] at hva
  subst hva
  refine ⟨?_, ?_, ?_⟩
  · simp
  · cases da with
    | none =>
      simp at hda ⊢
      obtain ⟨h0, h1, h2, h3⟩ := hda
      simp [h0, h1, h2, h3]
    | some l =>
      simp at hda
      subst hda
      simp
      generalize a0.val env = x0; generalize a1.val env = x1; generalize a2.val env = x2
      generalize a3.val env = x3
      generalize (a0.der env denv).getD 0 = y0; generalize (a1.der env denv).getD 0 = y1
      generalize (a2.der env denv).getD 0 = y2; generalize (a3.der env denv).getD 0 = y3
      have hN : 0 ≤ x0 * x0 + x1 * x1 + x2 * x2 + x3 * x3 := by nlinarith [mul_self_nonneg x0, mul_self_nonneg x1, mul_self_nonneg x2, mul_self_nonneg x3]
      have hr := Real.mul_self_sqrt hN
      have ht := Real.mul_self_sqrt (show (0:ℝ) ≤ 2 by norm_num)
      generalize Real.sqrt (x0 * x0 + x1 * x1 + x2 * x2 + x3 * x3) = r at *
      generalize Real.sqrt 2 = t at *
      have h0 : -(x3 * x3) + (-(x2 * x2) + -(x1 * x1)) = x0 * x0 - r * r := by linarith [hr]
      have h1 : -(x3 * x3) + (-(x2 * x2) + -(x0 * x0)) = x1 * x1 - r * r := by linarith [hr]
      have h2 : -(x3 * x3) + (-(x1 * x1) + -(x0 * x0)) = x2 * x2 - r * r := by linarith [hr]
      have h3 : -(x2 * x2) + (-(x1 * x1) + -(x0 * x0)) = x3 * x3 - r * r := by linarith [hr]
      simp only [h0, h1, h2, h3]
      clear h0 h1 h2 h3 hr ht hN
      by_cases hr0 : r = 0
      · subst hr0; simp
      · refine ⟨?_, ?_, ?_, ?_, ?_, ?_, ?_, ?_, ?_⟩ <;> (field_simp; ring)
  · intro h
    simp at h hoka ⊢
    have h2 : Real.sqrt (a0.val env * a0.val env + a1.val env * a1.val env + a2.val env * a2.val env
        + a3.val env * a3.val env) ≠ 0 := h.2
    have h3 := Real.sqrt_ne_zero'.mp h2
    simp_all
end reptm3
end PMV.Dual
