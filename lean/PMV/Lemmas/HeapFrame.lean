import PMV.Model.Heap
/-
  Soundness of the freshness analysis `safe` of PMV/Model/Heap.lean: helper development for Props/C07.lean.
  Core Lean only.
-/
namespace PMV.Heap

/-- `h'` agrees with `h` on every cell below `n0` -/
def Agree (n0 : Nat) (h h' : Heap) : Prop :=
  ∀ l, l < n0 → h'.buf l = h.buf l ∧ h'.arr l = h.arr l ∧ h'.uname l = h.uname l ∧ h'.obj l = h.obj l

/-- relation between the heap `h0` before a call and a later heap `h`, on the cells that existed before
    (`l < n0`).  `rx = false`: identical.  `rx = true`: identical except that WRITEABLE may have been cleared and
    `_readonly_` may have been set (read-only marking). -/
structure Frame (rx : Bool) (n0 : Nat) (h0 h : Heap) : Prop where
  buf : ∀ l, l < n0 → h.buf l = h0.buf l
  uname : ∀ l, l < n0 → h.uname l = h0.uname l
  arrBuf : ∀ l, l < n0 → (h.arr l).buf = (h0.arr l).buf
  arrWr : ∀ l, l < n0 → (rx = false → (h.arr l).wr = (h0.arr l).wr) ∧ ((h.arr l).wr = true → (h0.arr l).wr = true)
  objF : ∀ l, l < n0 → (h.obj l).vals = (h0.obj l).vals ∧ (h.obj l).mask = (h0.obj l).mask ∧
            (h.obj l).units = (h0.obj l).units ∧ (h.obj l).derivs = (h0.obj l).derivs
  objRo : ∀ l, l < n0 → (rx = false → (h.obj l).ro = (h0.obj l).ro) ∧ ((h0.obj l).ro = true → (h.obj l).ro = true)

theorem Frame.refl (rx : Bool) (n0 : Nat) (h : Heap) : Frame rx n0 h h :=
  ⟨fun _ _ => rfl, fun _ _ => rfl, fun _ _ => rfl, fun _ _ => ⟨fun _ => rfl, id⟩,
   fun _ _ => ⟨rfl, rfl, rfl, rfl⟩, fun _ _ => ⟨fun _ => rfl, id⟩⟩

theorem Frame.of_agree {rx n0 h0 h h'} (f : Frame rx n0 h0 h) (a : Agree n0 h h') : Frame rx n0 h0 h' := by
  refine ⟨?_, ?_, ?_, ?_, ?_, ?_⟩ <;> intro l hl <;> obtain ⟨e1, e2, e3, e4⟩ := a l hl
  · rw [e1]; exact f.buf l hl
  · rw [e3]; exact f.uname l hl
  · rw [e2]; exact f.arrBuf l hl
  · rw [e2]; exact f.arrWr l hl
  · rw [e4]; exact f.objF l hl
  · rw [e4]; exact f.objRo l hl

/-- a strict frame means: every cell that existed before is identical -/
theorem Frame.strict_agree {n0 h0 h} (f : Frame false n0 h0 h) : Agree n0 h0 h := by
  intro l hl
  refine ⟨f.buf l hl, ?_, f.uname l hl, ?_⟩
  · have h1 := f.arrBuf l hl
    have h2 := (f.arrWr l hl).1 rfl
    cases hx : h.arr l; cases hy : h0.arr l
    simp_all
  · obtain ⟨a, b, c, d⟩ := f.objF l hl
    have e := (f.objRo l hl).1 rfl
    cases hx : h.obj l; cases hy : h0.obj l
    simp_all

/-- the invariant of the analysis -/
structure Inv (rx : Bool) (n0 : Nat) (h0 : Heap) (s : St) (t : Nat → Tag) : Prop where
  next : n0 ≤ s.h.next
  frame : Frame rx n0 h0 s.h
  tArr : s.raised = false → ∀ r nb a, t r = .newArr nb → s.env r = .arr a →
            n0 ≤ a ∧ a < s.h.next ∧ (nb = true → n0 ≤ (s.h.arr a).buf)
  tObj : s.raised = false → ∀ r o, t r = .newObj → s.env r = .obj o → n0 ≤ o
  tUnits : s.raised = false → ∀ r u, t r = .newUnits → s.env r = .units u → n0 ≤ u

/-- after a raise nothing more is executed: the tags no longer matter -/
theorem Inv.fail {rx n0 h0 s t} (i : Inv rx n0 h0 s t) (t' : Nat → Tag) : Inv rx n0 h0 s.fail t' :=
  ⟨i.next, i.frame, fun h => absurd h (by simp [St.fail]), fun h => absurd h (by simp [St.fail]),
   fun h => absurd h (by simp [St.fail])⟩

/-- binding a register to a value that the analysis tags `old` -/
theorem Inv.setOld {rx n0 h0 s t} (i : Inv rx n0 h0 s t) (dst : Nat) (v : Val) :
    Inv rx n0 h0 (s.set dst v) (upd t dst .old) := by
  refine ⟨i.next, i.frame, ?_, ?_, ?_⟩
  · intro hnr r nb a ht he
    have iA := i.tArr hnr
    by_cases hr : r = dst
    · subst hr; simp at ht
    · simp [St.set, hr] at ht he; exact iA r nb a ht he
  · intro hnr r o ht he
    have iO := i.tObj hnr
    by_cases hr : r = dst
    · subst hr; simp at ht
    · simp [St.set, hr] at ht he; exact iO r o ht he
  · intro hnr r u ht he
    have iU := i.tUnits hnr
    by_cases hr : r = dst
    · subst hr; simp at ht
    · simp [St.set, hr] at ht he; exact iU r u ht he

/-- allocating a new ndarray object (buffer `b`, which is new if the tag says so) -/
theorem Inv.alloc {rx n0 h0 s t} (i : Inv rx n0 h0 s t) (dst : Nat) (b : Nat) (w nb : Bool)
    (bufs : Nat → Int) (hb : ∀ l, l < n0 → bufs l = s.h.buf l) (hnb : nb = true → n0 ≤ b) :
    Inv rx n0 h0 { s with h := { (s.h.allocArr b w) with buf := bufs }, env := upd s.env dst (.arr s.h.next) }
      (upd t dst (.newArr nb)) := by
  have hn := i.next
  refine ⟨?_, ?_, ?_, ?_, ?_⟩
  · show n0 ≤ s.h.next + 1
    omega
  · apply i.frame.of_agree
    intro l hl
    refine ⟨hb l hl, ?_, rfl, rfl⟩
    show upd s.h.arr s.h.next ⟨b, w⟩ l = s.h.arr l
    rw [upd_other]; omega
  · intro hnr r nb' a ht he
    have iA := i.tArr hnr
    by_cases hr : r = dst
    · subst hr
      simp at ht he
      subst ht; subst he
      refine ⟨hn, ?_, ?_⟩
      · show s.h.next < s.h.next + 1
        omega
      · intro h
        show n0 ≤ (upd s.h.arr s.h.next ⟨b, w⟩ s.h.next).buf
        simp; exact hnb h
    · simp [hr] at ht he
      obtain ⟨h1, h2, h3⟩ := iA r nb' a ht he
      refine ⟨h1, ?_, ?_⟩
      · show a < s.h.next + 1
        omega
      · intro h
        show n0 ≤ (upd s.h.arr s.h.next ⟨b, w⟩ a).buf
        rw [upd_other _ _ _ _ (by omega)]; exact h3 h
  · intro hnr r o ht he
    have iO := i.tObj hnr
    by_cases hr : r = dst
    · subst hr; simp at ht
    · simp [hr] at ht he; exact iO r o ht he
  · intro hnr r u ht he
    have iU := i.tUnits hnr
    by_cases hr : r = dst
    · subst hr; simp at ht
    · simp [hr] at ht he; exact iU r u ht he


/-- rebinding nothing in the environment, changing the heap only on cells `≥ n0` and keeping `next` and the
    buffer of every ndarray -/
theorem Inv.heapNew {rx n0 h0 s t} (i : Inv rx n0 h0 s t) (h' : Heap) (ag : Agree n0 s.h h')
    (hnext : s.h.next ≤ h'.next) (hbuf : ∀ a, (h'.arr a).buf = (s.h.arr a).buf) :
    Inv rx n0 h0 { s with h := h' } t := by
  refine ⟨Nat.le_trans i.next hnext, i.frame.of_agree ag, ?_, i.tObj, i.tUnits⟩
  intro hnr r nb a ht he
  obtain ⟨h1, h2, h3⟩ := i.tArr hnr r nb a ht he
  refine ⟨h1, Nat.lt_of_lt_of_le h2 hnext, ?_⟩
  intro h
  show n0 ≤ (h'.arr a).buf
  rw [hbuf]; exact h3 h

theorem setWr_buf (h : Heap) (a x : Nat) : ((h.setWr a).arr x).buf = (h.arr x).buf := by
  unfold Heap.setWr
  by_cases hx : x = a
  · subst hx; simp
  · simp [hx]

theorem setWrOpt_buf (h : Heap) (o : Option Nat) (x : Nat) : ((h.setWrOpt o).arr x).buf = (h.arr x).buf := by
  cases o with
  | none => rfl
  | some a => exact setWr_buf h a x

/-- clearing WRITEABLE keeps the relaxed frame -/
theorem Frame.setWr {n0 h0 h} (f : Frame true n0 h0 h) (a : Nat) : Frame true n0 h0 (h.setWr a) := by
  refine ⟨f.buf, f.uname, ?_, ?_, f.objF, f.objRo⟩
  · intro l hl; rw [setWr_buf]; exact f.arrBuf l hl
  · intro l hl
    refine ⟨fun h => absurd h (by decide), ?_⟩
    unfold Heap.setWr
    by_cases hx : l = a
    · subst hx; simp
    · simp [hx]; exact (f.arrWr l hl).2

theorem Frame.setWrOpt {n0 h0 h} (f : Frame true n0 h0 h) (o : Option Nat) : Frame true n0 h0 (h.setWrOpt o) := by
  cases o with
  | none => exact f
  | some a => exact f.setWr a

theorem freezeObj_buf (h : Heap) (x a : Nat) : ((h.freezeObj x).arr a).buf = (h.arr a).buf := by
  unfold Heap.freezeObj
  split
  · rfl
  · show ((((h.setWrOpt (h.obj x).vals).setWrOpt (h.obj x).mask)).arr a).buf = _
    rw [setWrOpt_buf, setWrOpt_buf]

theorem freezeObj_next (h : Heap) (x : Nat) : (h.freezeObj x).next = h.next := by
  unfold Heap.freezeObj
  split
  · rfl
  · cases hv : (h.obj x).vals <;> cases hm : (h.obj x).mask <;> rfl

theorem Frame.freezeObj {n0 h0 h} (f : Frame true n0 h0 h) (x : Nat) : Frame true n0 h0 (h.freezeObj x) := by
  unfold Heap.freezeObj
  split
  · exact f
  · have f1 := (f.setWrOpt (h.obj x).vals).setWrOpt (h.obj x).mask
    refine ⟨f1.buf, f1.uname, f1.arrBuf, f1.arrWr, ?_, ?_⟩
    · intro l hl
      by_cases hlx : l = x
      · subst hlx
        have := f1.objF l hl
        simpa using this
      · have := f1.objF l hl
        simpa [hlx] using this
    · intro l hl
      refine ⟨fun h => absurd h (by decide), ?_⟩
      by_cases hlx : l = x
      · subst hlx; intro _; simp
      · have := (f1.objRo l hl).2
        simpa [hlx] using this

theorem freezeAll_buf (xs : List Nat) : ∀ (h : Heap) (a : Nat), ((h.freezeAll xs).arr a).buf = (h.arr a).buf := by
  induction xs with
  | nil => intro h a; rfl
  | cons x xs ih => intro h a; simp only [Heap.freezeAll]; rw [ih, freezeObj_buf]

theorem freezeAll_next (xs : List Nat) : ∀ (h : Heap), (h.freezeAll xs).next = h.next := by
  induction xs with
  | nil => intro h; rfl
  | cons x xs ih => intro h; simp only [Heap.freezeAll]; rw [ih, freezeObj_next]

theorem Frame.freezeAll {n0 h0} (xs : List Nat) : ∀ {h}, Frame true n0 h0 h → Frame true n0 h0 (h.freezeAll xs) := by
  induction xs with
  | nil => intro h f; exact f
  | cons x xs ih => intro h f; exact ih (f.freezeObj x)

theorem freezeTree_buf (h : Heap) (x a : Nat) : ((h.freezeTree x).arr a).buf = (h.arr a).buf := by
  unfold Heap.freezeTree
  split
  · rfl
  · rw [freezeAll_buf, freezeObj_buf]

theorem freezeTree_next (h : Heap) (x : Nat) : (h.freezeTree x).next = h.next := by
  unfold Heap.freezeTree
  split
  · rfl
  · rw [freezeAll_next, freezeObj_next]

/-- marking an object and all its derivatives read-only keeps the relaxed frame -/
theorem Frame.freezeTree {n0 h0 h} (f : Frame true n0 h0 h) (x : Nat) : Frame true n0 h0 (h.freezeTree x) := by
  unfold Heap.freezeTree
  split
  · exact f
  · exact Frame.freezeAll _ (f.freezeObj x)

theorem Inv.relaxedHeap {n0 h0 s t} (i : Inv true n0 h0 s t) (h' : Heap) (f : Frame true n0 h0 h')
    (hnext : h'.next = s.h.next) (hbuf : ∀ a, (h'.arr a).buf = (s.h.arr a).buf) :
    Inv true n0 h0 { s with h := h' } t := by
  refine ⟨by show n0 ≤ h'.next; rw [hnext]; exact i.next, f, ?_, i.tObj, i.tUnits⟩
  intro hnr r nb a ht he
  obtain ⟨h1, h2, h3⟩ := i.tArr hnr r nb a ht he
  refine ⟨h1, by show a < h'.next; rw [hnext]; exact h2, ?_⟩
  intro h
  show n0 ≤ (h'.arr a).buf
  rw [hbuf]; exact h3 h

theorem Inv.forget {rx n0 h0 s t} (i : Inv rx n0 h0 s t) (dst : Nat) : Inv rx n0 h0 s (upd t dst .old) := by
  refine ⟨i.next, i.frame, ?_, ?_, ?_⟩
  · intro hnr r nb a ht he
    have iA := i.tArr hnr
    by_cases hr : r = dst
    · subst hr; simp at ht
    · simp [hr] at ht; exact iA r nb a ht he
  · intro hnr r o ht he
    have iO := i.tObj hnr
    by_cases hr : r = dst
    · subst hr; simp at ht
    · simp [hr] at ht; exact iO r o ht he
  · intro hnr r u ht he
    have iU := i.tUnits hnr
    by_cases hr : r = dst
    · subst hr; simp at ht
    · simp [hr] at ht; exact iU r u ht he

/-- binding `dst` to a new cell `next` of another sort (object / units) -/
theorem Inv.allocOther {rx n0 h0 s t} (i : Inv rx n0 h0 s t) (dst : Nat) (h' : Heap) (v : Val) (tg : Tag)
    (ag : Agree n0 s.h h') (hnext : h'.next = s.h.next + 1) (harr : h'.arr = s.h.arr)
    (hv : (v = .obj s.h.next ∧ tg = .newObj) ∨ (v = .units s.h.next ∧ tg = .newUnits)) :
    Inv rx n0 h0 { s with h := h', env := upd s.env dst v } (upd t dst tg) := by
  have hn := i.next
  refine ⟨by show n0 ≤ h'.next; omega, i.frame.of_agree ag, ?_, ?_, ?_⟩
  · intro hnr r nb a ht he
    have iA := i.tArr hnr
    by_cases hr : r = dst
    · subst hr
      rcases hv with ⟨_, h2⟩ | ⟨_, h2⟩ <;> simp [h2] at ht
    · simp [hr] at ht he
      obtain ⟨h1, h2, h3⟩ := iA r nb a ht he
      refine ⟨h1, by show a < h'.next; omega, ?_⟩
      intro h; show n0 ≤ (h'.arr a).buf; rw [harr]; exact h3 h
  · intro hnr r o ht he
    have iO := i.tObj hnr
    by_cases hr : r = dst
    · subst hr
      rcases hv with ⟨h1, _⟩ | ⟨h1, h2⟩
      · simp [h1] at he; omega
      · simp [h2] at ht
    · simp [hr] at ht he; exact iO r o ht he
  · intro hnr r u ht he
    have iU := i.tUnits hnr
    by_cases hr : r = dst
    · subst hr
      rcases hv with ⟨h1, h2⟩ | ⟨h1, _⟩
      · simp [h2] at ht
      · simp [h1] at he; omega
    · simp [hr] at ht he; exact iU r u ht he


/-- a brand-new array on a brand-new buffer bound to `dst`, whatever `newBuf` flag the tag carries -/
theorem Inv.allocFresh {rx n0 h0 s t} (i : Inv rx n0 h0 s t) (dst : Nat) (c : Int) (nb : Bool) :
    Inv rx n0 h0 { s with h := { (s.h.allocArr s.h.next true) with buf := upd s.h.buf s.h.next c },
                          env := upd s.env dst (.arr s.h.next) } (upd t dst (.newArr nb)) := by
  have hn := i.next
  exact i.alloc dst s.h.next true nb _ (fun l hl => upd_other _ _ _ _ (by omega)) (fun _ => hn)

theorem viewTag_isNew (x : Tag) : ∃ nb, viewTag x = .newArr nb := by
  cases x <;> simp [viewTag]

/-- the analysis is sound for one statement -/
theorem step_inv {rx n0 h0 s t t'} (A : Args) (e : Eff) (i : Inv rx n0 h0 s t) (hnr : s.raised = false)
    (ht : tagStep rx e t = some t') : Inv rx n0 h0 (step A e s) t' := by
  have iA := i.tArr hnr
  have iO := i.tObj hnr
  have iU := i.tUnits hnr
  have hn := i.next
  cases e with
  | arg dst k =>
    simp only [tagStep, Option.some.injEq] at ht; subst ht
    exact i.setOld dst _
  | get dst src a =>
    simp only [tagStep, Option.some.injEq] at ht; subst ht
    simp only [step]
    split
    · cases a <;> exact i.setOld dst _
    · exact i.fail _
  | getDeriv dst src key =>
    simp only [tagStep, Option.some.injEq] at ht; subst ht
    simp only [step]
    split
    · split
      · exact i.setOld dst _
      · exact i.fail _
    · exact i.fail _
  | fresh dst =>
    simp only [tagStep, Option.some.injEq] at ht; subst ht
    exact i.allocFresh dst 0 true
  | copyOf dst src =>
    simp only [tagStep, Option.some.injEq] at ht; subst ht
    simp only [step]
    split
    · exact i.allocFresh dst _ true
    · rename_i v hv
      refine ⟨i.next, i.frame, ?_, ?_, ?_⟩
      · intro _ r nb a ht he
        by_cases hr : r = dst
        · subst hr
          simp [St.set] at he
          exact absurd he (hv a)
        · simp [St.set, hr] at ht he; exact iA r nb a ht he
      · intro _ r o ht he
        by_cases hr : r = dst
        · subst hr; simp at ht
        · simp [St.set, hr] at ht he; exact iO r o ht he
      · intro _ r u ht he
        by_cases hr : r = dst
        · subst hr; simp at ht
        · simp [St.set, hr] at ht he; exact iU r u ht he
  | view dst src =>
    simp only [tagStep, Option.some.injEq] at ht; subst ht
    simp only [step]
    split
    · rename_i a ha
      cases htag : t src with
      | newArr nb =>
        simp only [viewTag]
        obtain ⟨_, _, h3⟩ := iA src nb a htag ha
        exact i.alloc dst (s.h.arr a).buf (s.h.arr a).wr nb s.h.buf (fun _ _ => rfl) h3
      | old =>
        exact i.alloc dst (s.h.arr a).buf (s.h.arr a).wr false s.h.buf (fun _ _ => rfl) (fun h => by cases h)
      | newObj =>
        exact i.alloc dst (s.h.arr a).buf (s.h.arr a).wr false s.h.buf (fun _ _ => rfl) (fun h => by cases h)
      | newUnits =>
        exact i.alloc dst (s.h.arr a).buf (s.h.arr a).wr false s.h.buf (fun _ _ => rfl) (fun h => by cases h)
    · obtain ⟨nb, hnb⟩ := viewTag_isNew (t src)
      rw [hnb]
      refine ⟨i.next, i.frame, ?_, ?_, ?_⟩
      · intro _ r nb' a ht he
        by_cases hr : r = dst
        · subst hr; simp [St.set] at he
        · simp [St.set, hr] at ht he; exact iA r nb' a ht he
      · intro _ r o ht he
        by_cases hr : r = dst
        · subst hr; simp at ht
        · simp [St.set, hr] at ht he; exact iO r o ht he
      · intro _ r u ht he
        by_cases hr : r = dst
        · subst hr; simp at ht
        · simp [St.set, hr] at ht he; exact iU r u ht he
    · exact i.fail _
  | newUnits dst =>
    simp only [tagStep, Option.some.injEq] at ht; subst ht
    simp only [step]
    refine i.allocOther dst _ _ _ ?_ rfl rfl (Or.inr ⟨rfl, rfl⟩)
    intro l hl
    refine ⟨rfl, rfl, ?_, rfl⟩
    show upd s.h.uname s.h.next 0 l = s.h.uname l
    rw [upd_other _ _ _ _ (by omega)]
  | newObj dst v m u =>
    simp only [tagStep, Option.some.injEq] at ht; subst ht
    simp only [step]
    refine i.allocOther dst _ _ _ ?_ rfl rfl (Or.inl ⟨rfl, rfl⟩)
    intro l hl
    refine ⟨rfl, rfl, rfl, ?_⟩
    show upd s.h.obj s.h.next _ l = s.h.obj l
    rw [upd_other _ _ _ _ (by omega)]
  | setDeriv o key d =>
    simp only [tagStep] at ht
    split at ht
    · rename_i hto
      simp only [Option.some.injEq] at ht; subst ht
      simp only [step]
      split
      · rename_i x y hx hy
        have hxn := iO o x hto hx
        refine i.heapNew _ ?_ (Nat.le_refl _) (fun _ => rfl)
        intro l hl
        refine ⟨rfl, rfl, rfl, ?_⟩
        show upd s.h.obj x _ l = s.h.obj l
        rw [upd_other _ _ _ _ (by omega)]
      · exact i.fail _
    · cases ht
  | rebind o a src =>
    simp only [tagStep] at ht
    split at ht
    · rename_i hto
      simp only [Option.some.injEq] at ht; subst ht
      simp only [step]
      split
      · rename_i x hx
        have hxn := iO o x hto hx
        refine i.heapNew _ ?_ (Nat.le_refl _) (fun _ => rfl)
        intro l hl
        refine ⟨rfl, rfl, rfl, ?_⟩
        show upd s.h.obj x _ l = s.h.obj l
        rw [upd_other _ _ _ _ (by omega)]
      · exact i.fail _
    · cases ht
  | writeInto r v =>
    simp only [tagStep] at ht
    split at ht
    · rename_i htr
      simp only [Option.some.injEq] at ht; subst ht
      simp only [step]
      split
      · rename_i a ha
        obtain ⟨_, _, h3⟩ := iA r true a htr ha
        have hb := h3 rfl
        split
        · refine i.heapNew _ ?_ (Nat.le_refl _) (fun _ => rfl)
          intro l hl
          refine ⟨?_, rfl, rfl, rfl⟩
          show upd s.h.buf (s.h.arr a).buf v l = s.h.buf l
          rw [upd_other _ _ _ _ (by omega)]
        · exact i.fail _
      · exact i.fail _
    · cases ht
  | setFlag r =>
    simp only [tagStep] at ht
    split at ht
    · rename_i hc
      simp only [Option.some.injEq] at ht; subst ht
      simp only [step]
      split
      · rename_i a ha
        cases htr : t r with
        | newArr nb =>
          obtain ⟨h1, _, _⟩ := iA r nb a htr ha
          refine i.heapNew _ ?_ (Nat.le_refl _) (fun x => setWr_buf s.h a x)
          intro l hl
          refine ⟨rfl, ?_, rfl, rfl⟩
          show upd s.h.arr a _ l = s.h.arr l
          rw [upd_other _ _ _ _ (by omega)]
        | old =>
          simp [htr, Tag.isNewArr] at hc; subst hc
          exact i.relaxedHeap _ (i.frame.setWr a) rfl (fun x => setWr_buf s.h a x)
        | newObj =>
          simp [htr, Tag.isNewArr] at hc; subst hc
          exact i.relaxedHeap _ (i.frame.setWr a) rfl (fun x => setWr_buf s.h a x)
        | newUnits =>
          simp [htr, Tag.isNewArr] at hc; subst hc
          exact i.relaxedHeap _ (i.frame.setWr a) rfl (fun x => setWr_buf s.h a x)
      · exact i
    · cases ht
  | setName u v =>
    simp only [tagStep] at ht
    split at ht
    · rename_i htu
      simp only [Option.some.injEq] at ht; subst ht
      simp only [step]
      split
      · rename_i x hx
        have hxn := iU u x htu hx
        refine i.heapNew _ ?_ (Nat.le_refl _) (fun _ => rfl)
        intro l hl
        refine ⟨rfl, rfl, ?_, rfl⟩
        show upd s.h.uname x v l = s.h.uname l
        rw [upd_other _ _ _ _ (by omega)]
      · exact i.fail _
    · cases ht
  | markRO o =>
    simp only [tagStep] at ht
    split at ht
    · rename_i hrx
      subst hrx
      simp only [Option.some.injEq] at ht; subst ht
      simp only [step]
      split
      · rename_i x hx
        exact i.relaxedHeap _ (i.frame.freezeTree x) (freezeTree_next s.h x) (fun a => freezeTree_buf s.h x a)
      · exact i.fail _
    · cases ht
  | raiseIf n =>
    simp only [tagStep, Option.some.injEq] at ht; subst ht
    simp only [step]
    split
    · exact i.fail _
    · exact i

/-- the analysis is sound for a whole summary: whatever the heap, the arguments (aliased or not) and the raise
    schedule, the final heap — on normal and on exceptional exit — is framed by the initial one -/
theorem run_inv {rx n0 h0} (A : Args) (p : List Eff) : ∀ (s : St) (t : Nat → Tag), Inv rx n0 h0 s t →
    safeFrom rx p t = true → Frame rx n0 h0 (run A p s).h := by
  induction p with
  | nil => intro s t i _; exact i.frame
  | cons e p ih =>
    intro s t i hs
    simp only [run]
    cases hr : s.raised with
    | true => simp; exact i.frame
    | false =>
      simp only [safeFrom] at hs
      cases hts : tagStep rx e t with
      | none => simp [hts] at hs
      | some t' =>
        simp only [hts] at hs
        simp
        exact ih _ t' (step_inv A e i hr hts) hs

theorem Inv.init (rx : Bool) (h : Heap) : Inv rx h.next h ⟨h, emptyEnv, false⟩ (fun _ => .old) :=
  ⟨Nat.le_refl _, Frame.refl _ _ _, fun _ _ _ _ ht => (by cases ht), fun _ _ _ ht => (by cases ht),
   fun _ _ _ ht => (by cases ht)⟩


/-! #### composing safety checks -/

/-- the tags after a summary, if it passes the check -/
def safeFromT (rx : Bool) : List Eff → (Nat → Tag) → Option (Nat → Tag)
  | [], t => some t
  | e :: p, t =>
    match tagStep rx e t with
    | some t' => safeFromT rx p t'
    | none => none

theorem safeFrom_eq (rx : Bool) (p : List Eff) (t : Nat → Tag) : safeFrom rx p t = (safeFromT rx p t).isSome := by
  induction p generalizing t with
  | nil => rfl
  | cons e p ih =>
    simp only [safeFrom, safeFromT]
    cases tagStep rx e t with
    | none => rfl
    | some t1 => exact ih t1

theorem safeFromT_append (rx : Bool) (p q : List Eff) (t : Nat → Tag) :
    safeFromT rx (p ++ q) t = (safeFromT rx p t).bind (safeFromT rx q) := by
  induction p generalizing t with
  | nil => rfl
  | cons e p ih =>
    simp only [List.cons_append, safeFromT]
    cases tagStep rx e t with
    | none => rfl
    | some t1 => exact ih t1

/-- a per-key block that keeps "register 0 is a new object" passes for every list of keys -/
theorem safeFromT_flatMap (rx : Bool) (blk : Nat → List Eff) (P : (Nat → Tag) → Prop)
    (hblk : ∀ k t, P t → ∃ t', safeFromT rx (blk k) t = some t' ∧ P t') :
    ∀ (keys : List Nat) (t : Nat → Tag), P t → ∃ t', safeFromT rx (keys.flatMap blk) t = some t' ∧ P t' := by
  intro keys
  induction keys with
  | nil => intro t ht; exact ⟨t, rfl, ht⟩
  | cons k ks ih =>
    intro t ht
    obtain ⟨t1, e1, p1⟩ := hblk k t ht
    obtain ⟨t2, e2, p2⟩ := ih t1 p1
    refine ⟨t2, ?_, p2⟩
    simp only [List.flatMap_cons, safeFromT_append, e1, Option.bind_some, e2]

end PMV.Heap
