import PMV.Lemmas.GatherCat
namespace PMV.Shrink
open PMV
set_option linter.unusedSectionVars false
variable {K : Type} [Inhabited K]

theorem cellB_congr (x y : Q K) (h1 : x.obj = y.obj) (h2 : x.derivs = y.derivs) (j : Index) :
    x.cellB j = y.cellB j := by
  simp only [Q.cellB, Q.cellAt, h1, h2]

theorem anyOver_of_mem {s : Shape} {p : Index → Bool} {i : Index} (hi : Valid s i) (hp : p i = true) :
    anyOver s p = true := by
  simp only [anyOver, List.any_eq_true]
  exact ⟨i, valid_mem_indices _ _ hi, hp⟩

theorem allOver_at {s : Shape} {p : Index → Bool} (h : allOver s p = true) {i : Index} (hi : Valid s i) :
    p i = true := by
  simp only [allOver, List.all_eq_true] at h
  exact h i (valid_mem_indices _ _ hi)

theorem cacheDrop_obj (cfg : Cfg) (x : Q K) : (cacheDrop cfg x).obj = x.obj := by
  unfold cacheDrop; split <;> rfl
theorem cacheDrop_derivs (cfg : Cfg) (x : Q K) : (cacheDrop cfg x).derivs = x.derivs := by
  unfold cacheDrop; split <;> rfl
theorem cacheDrop_cls (cfg : Cfg) (x : Q K) : (cacheDrop cfg x).cls = x.cls := by
  unfold cacheDrop; split <;> rfl

/-- every element of an all-masked object is masked, read at any valid grid index -/
theorem allMasked_cellB (y : Q K) (h : y.obj.allMasked = true) (G : Shape) (hfit : bcast y.obj.shape G = some G)
    (j : Index) (hj : Valid G j) : (y.cellB j).m = true := by
  simp only [Q.cellB, Q.cellAt, Obj.maskAt]
  unfold Obj.allMasked at h
  cases hr : y.obj.rep <;> simp only [hr] at h ⊢
  · cases h
  · exact allOver_at h (valid_bidx _ _ _ hfit hj)

theorem maskedSingle_bto_masked (df : Dflt K) (y u : Q K) (sh : Shape) (h : (y.maskedSingle df).bto sh = some u)
    (j : Index) : (u.cellB j).m = true := by
  unfold Q.bto at h
  split at h
  · cases h; rfl
  · split at h
    · next o ds ho hds =>
      cases h
      simp only [Q.maskedSingle, Obj.bto, singleObj] at ho
      by_cases e1 : sh = []
      · simp only [e1, ↓reduceIte, Option.some.injEq] at ho; subst ho; rfl
      · simp only [e1, ↓reduceIte] at ho
        by_cases e2 : bcast [] sh = some sh
        · simp only [e2, ↓reduceIte, Option.some.injEq] at ho; subst ho; rfl
        · simp [e2] at ho
    · cases h

theorem scatter_cellB (dv : K) (am : Arr Bool) (y : Q K) (bp : Shape)
    (hs : y.obj.shape = bp ++ [count am]) (hder : y.derivs = []) (p a : Index) (ha : a ∈ trues am) :
    Cell.Same ((⟨y.cls, scatterObj dv am y.obj, [], true, .none⟩ : Q K).cellB (p ++ a))
      (y.cellB (p ++ [rnk am a])) := by
  have hk := rnk_lt ha
  have hl := trues_length ha
  have hval := (mem_trues ha).1
  simp only [Q.cellB, hs, bidx_singleton _ _ _ _ hk]
  simp only [scatterObj, npScatter, hs, List.dropLast_concat]
  rw [bidx_append _ _ _ _ hl, bidx_valid _ _ hval]
  simp only [Q.cellAt, hder, lookupD, Obj.maskAt, List.length_append, hl, Nat.add_sub_cancel,
    List.drop_left', List.take_left', (mem_trues ha).2]
  exact Cell.Same.refl _

theorem shape_snoc (s : Shape) (n : Nat) (hs : s ≠ []) (hl : s.getLastD 0 = n) : s = s.dropLast ++ [n] := by
  rcases List.eq_nil_or_concat s with h | ⟨s', b, rfl⟩
  · exact absurd h hs
  · simp at hl; subst hl; simp

/-- what `unshrink` returns, at a position the antimask selects, is what the shrunken object
    holds at the rank of that position on its last axis (every branch except the cached one) -/
theorem unshrink_spec (df : Dflt K) (cfg : Cfg) (am : Arr Bool) (sh : Shape) (y u : Q K)
    (hdis : cfg.disable = false) (hder : y.derivs = [])
    (hback : ∀ o ds, cacheLookup cfg y.back ≠ .to o ds)
    (h : unshrink df cfg (.arr am) sh y = some u)
    (G' : Shape) (hfit : bcast y.obj.shape G' = some G') :
    ∀ p a, a ∈ trues am → Valid G' (p ++ [rnk am a]) →
      Cell.Same (u.cellB (p ++ a)) (y.cellB (p ++ [rnk am a])) := by
  intro p a ha hv
  simp only [unshrink, unshrinkG, hdis, Bool.false_eq_true, ↓reduceIte] at h
  have e1 := cacheDrop_obj cfg y
  have e2 := cacheDrop_derivs cfg y
  have e3 := cacheDrop_cls cfg y
  generalize cacheDrop cfg y = y0 at h e1 e2 e3
  generalize cacheLookup cfg y.back = ub at h hback
  rw [← cellB_congr y0 y e1 e2]
  have hany : (AM.arr am).any = true := anyOver_of_mem (mem_trues ha).1 (mem_trues ha).2
  simp only [hany, Bool.not_true, Bool.false_or] at h
  split at h
  · next hall =>
    exact Cell.Same.of_masked (maskedSingle_bto_masked df y0 u sh h _)
      (allMasked_cellB y0 hall G' (e1 ▸ hfit) _ hv)
  · split at h
    · next hs =>
      cases h
      simp only [Q.cellB, hs, bidx, List.reverse_nil, bidxRev_nil_left]
      exact Cell.Same.refl _
    · next hs =>
      have fin : (if y0.obj.shape.getLastD 0 ≠ count am then none
          else match mapM' (fun (p : String × DObj K) =>
              match unshrinkD df cfg (AM.arr am) sh p.2 with
              | some d => (insertDeriv (scatterObj (df.of y0.cls) am y0.obj).shape d).map fun d' => (p.1, d')
              | none => none) y0.derivs with
            | none => none
            | some ds => some ⟨y0.cls, scatterObj (df.of y0.cls) am y0.obj, ds, true, .none⟩) = some u := by
        cases ub with
        | none => exact h
        | self => exact h
        | to o ds => exact absurd rfl (hback o ds)
      split at fin
      · cases fin
      · next hl =>
        simp only [e2, hder, mapM'] at fin
        cases fin
        have hl' : y0.obj.shape.getLastD 0 = count am := by simpa using hl
        exact scatter_cellB _ am y0 _ (shape_snoc _ _ hs hl') (e2.trans hder) p a ha

end PMV.Shrink
