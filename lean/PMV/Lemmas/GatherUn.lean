import PMV.Lemmas.GatherMask
/-
  The code-shaped `unshrink` (every branch except the cached one), with derivatives:
  what it returns at a position the antimask selects is what the shrunken object holds at the
  rank of that position on its last axis.  Core Lean only.
-/
namespace PMV.Shrink
open PMV
set_option linter.unusedSectionVars false
variable {K : Type} [Inhabited K]

/-- elements agree observationally when the arrays agree exactly and the derivative arrays
    agree observationally -/
theorem same_of_parts (x y : Q K) (i j : Index) (h0 : x.obj.dcellAt i = y.obj.dcellAt j)
    (hd : ∀ k, (derivAt x.derivs k i).obs = (derivAt y.derivs k j).obs) :
    Cell.Same (x.cellAt i) (y.cellAt j) := by
  rw [cellAt_eq, cellAt_eq, h0]
  exact ⟨rfl, fun _ => ⟨rfl, hd⟩⟩

theorem same_main_obs {a b : Cell K} (h : Cell.Same a b) :
    (⟨a.v, a.m⟩ : DCell K).obs = (⟨b.v, b.m⟩ : DCell K).obs := by
  rw [dcell_obs_iff]
  exact ⟨h.1, fun hm => (h.2 hm).1⟩

theorem cacheDrop_obj (cfg : Cfg) (x : Q K) : (cacheDrop cfg x).obj = x.obj := by
  unfold cacheDrop; split <;> rfl
theorem cacheDrop_derivs (cfg : Cfg) (x : Q K) : (cacheDrop cfg x).derivs = x.derivs := by
  unfold cacheDrop; split <;> rfl
theorem cacheDrop_cls (cfg : Cfg) (x : Q K) : (cacheDrop cfg x).cls = x.cls := by
  unfold cacheDrop; split <;> rfl

theorem maskedSingle_bto_masked (df : Dflt K) (y u : Q K) (sh : Shape)
    (h : (y.maskedSingle df).bto sh = some u) (j : Index) : (u.cellB j).m = true := by
  obtain ⟨_, _, _, _, _, hc⟩ := Q.bto_spec _ _ _ (maskedSingle_wf df y) h
  rw [hc j]; rfl

theorem shape_snoc (s : Shape) (n : Nat) (hs : s ≠ []) (hl : s.getLastD 0 = n) : s = s.dropLast ++ [n] := by
  rcases List.eq_nil_or_concat s with h | ⟨s', b, rfl⟩
  · exact absurd h hs
  · simp at hl; subst hl; simp

/-- the cached back-pointer is not used (absent, ignored, or the cache is disabled) -/
def NoCachedPath (cfg : Cfg) (b : Back K) : Prop := ∀ o ds, cacheLookup cfg b ≠ .to o ds

/-- "the cached back-pointer is current": if `unshrink` finds an un-shrunken object in the cache,
    its arrays (and those of its derivatives, which have its shape) hold, at every position the
    antimask selects, what the shrunken object holds at the rank of that position.  This is what
    `shrink` establishes when it stores the entry and what C18's invariant preserves as long as
    the source is not modified afterwards. -/
def BackCurrent (cfg : Cfg) (am : Arr Bool) (G' : Shape) (y : Q K) : Prop :=
  ∀ o ds, cacheLookup cfg y.back = .to o ds →
    (∀ k d, lookupD ds k = some d → d.shape = o.shape) ∧
    ∀ p a, a ∈ trues am → Valid G' (p ++ [rnk am a]) →
      Cell.Same (pcellAt o ds (bidx o.shape (p ++ a))) (y.cellB (p ++ [rnk am a]))

theorem backCurrent_of_noCachedPath (cfg : Cfg) (am : Arr Bool) (G' : Shape) (y : Q K)
    (h : NoCachedPath cfg y.back) : BackCurrent cfg am G' y :=
  fun o ds e => absurd e (h o ds)

theorem scatter_dcell (dv : K) (am : Arr Bool) (o : Obj K) (bp : Shape) (hs : o.shape = bp ++ [count am])
    (q a : Index) (ha : a ∈ trues am) :
    (scatterObj dv am o).dcellAt (q ++ a) = o.dcellAt (q ++ [rnk am a]) := by
  have hl := trues_length ha
  simp only [scatterObj, npScatter, Obj.dcellAt, Obj.maskAt, List.length_append, hl,
    Nat.add_sub_cancel, List.drop_left', List.take_left', (mem_trues ha).2]

/-- `unshrink`, generically in the function used for the derivatives -/
theorem unshrinkG_spec (df : Dflt K) (recur : DObj K → Option (DObj K)) (cfg : Cfg) (am : Arr Bool)
    (sh : Shape) (y u : Q K) (G' : Shape)
    (hdis : cfg.disable = false) (hwf : y.WF) (hcur : BackCurrent cfg am G' y)
    (hfit : bcast y.obj.shape G' = some G')
    (hrec : NoCachedPath cfg y.back → y.obj.shape ≠ [] →
      ∀ k d d', lookupD y.derivs k = some d → recur d = some d' →
      ∀ p a, a ∈ trues am → Valid G' (p ++ [rnk am a]) →
        (d'.obj.dcellAt (bidx d'.obj.shape (p ++ a))).obs
          = (d.obj.dcellAt (bidx d.obj.shape (p ++ [rnk am a]))).obs)
    (h : unshrinkG df recur cfg (.arr am) sh y = some u) :
    ∀ p a, a ∈ trues am → Valid G' (p ++ [rnk am a]) →
      Cell.Same (u.cellB (p ++ a)) (y.cellB (p ++ [rnk am a])) := by
  intro p a ha hv
  simp only [unshrinkG, hdis, Bool.false_eq_true, ↓reduceIte] at h
  have e1 := cacheDrop_obj cfg y
  have e2 := cacheDrop_derivs cfg y
  generalize cacheDrop cfg y = y0 at h e1 e2
  unfold BackCurrent at hcur
  unfold NoCachedPath at hrec
  generalize cacheLookup cfg y.back = ub at h hcur hrec
  have hany : (AM.arr am).any = true := anyOver_of_mem (mem_trues ha).1 (mem_trues ha).2
  simp only [hany, Bool.not_true, Bool.false_or] at h
  split at h
  · next hall =>
    rw [← cellB_congr y0 y e1 e2]
    exact Cell.Same.of_masked (maskedSingle_bto_masked df y0 u sh h _)
      (allMasked_cellB y0 hall G' (e1 ▸ hfit) _ hv)
  · split at h
    · next hs =>
      rw [← cellB_congr y0 y e1 e2]
      cases h
      simp only [Q.cellB, hs, bidx, List.reverse_nil, bidxRev_nil_left]
      exact Cell.Same.refl _
    · next hs =>
      by_cases hto : ∃ o ds, ub = Back.to o ds
      · -- the cached path: `_masked_outside(unshrunk, antimask)`
        obtain ⟨o, ds, rfl⟩ := hto
        obtain ⟨hw, hsame⟩ := hcur o ds rfl
        cases hmo : maskedOutside o ds (.arr am) <;> simp only [hmo, Option.map_none, Option.map_some] at h
        · cases h
        · next r =>
          obtain ⟨o', ds'⟩ := r
          cases h
          simp only [Q.cellB, cellAt_withArrays]
          show Cell.Same (pcellAt o' ds' (bidx o'.shape (p ++ a))) _
          rw [(maskedOutside_spec o ds am o' ds' hw hmo).2 p a ha]
          exact hsame p a ha hv
      have hnc : ∀ o ds, ub ≠ Back.to o ds := fun o ds e => hto ⟨o, ds, e⟩
      rw [← cellB_congr y0 y e1 e2]
      have hrec := hrec hnc (e1 ▸ hs)
      have fin : (if y0.obj.shape.getLastD 0 ≠ count am then none
          else match mapDerivs (fun (d : DObj K) => (recur d).bind
              (insertDeriv (scatterObj (df.of y0.cls) am y0.obj).shape)) y0.derivs with
            | none => none
            | some ds => some ⟨y0.cls, scatterObj (df.of y0.cls) am y0.obj, ds, true, .none⟩) = some u := by
        cases ub with
        | none => exact h
        | self => exact h
        | to o ds => exact absurd rfl (hnc o ds)
      split at fin
      · cases fin
      · next hl =>
        have hl' : y0.obj.shape.getLastD 0 = count am := by simpa using hl
        have hshape := shape_snoc _ _ hs hl'
        generalize hbp : y0.obj.shape.dropLast = bp at hshape
        cases hmd : mapDerivs (fun (d : DObj K) => (recur d).bind
            (insertDeriv (scatterObj (df.of y0.cls) am y0.obj).shape)) y0.derivs <;>
          simp only [hmd] at fin
        · cases fin
        · next ds =>
          cases fin
          have hk := rnk_lt ha
          have hla := trues_length ha
          have hval := (mem_trues ha).1
          have hush : (scatterObj (df.of y0.cls) am y0.obj).shape = bp ++ am.shape := by
            simp [scatterObj, npScatter, hbp]
          have hi : bidx (bp ++ am.shape) (p ++ a) = bidx bp p ++ a := by
            rw [bidx_append _ _ _ _ hla, bidx_valid _ _ hval]
          have hi' : bidx (bp ++ [count am]) (p ++ [rnk am a]) = bidx bp p ++ [rnk am a] :=
            bidx_singleton _ _ _ _ hk
          simp only [Q.cellB, hush, hi]
          rw [hshape, hi']
          apply same_of_parts
          · exact scatter_dcell _ am y0.obj bp hshape _ a ha
          · intro k
            simp only [derivAt]
            cases hx : lookupD y0.derivs k with
            | none => rw [lookupD_mapDerivs_none _ _ _ hmd k hx]
            | some d0 =>
              obtain ⟨d2, hg, hl2⟩ := lookupD_mapDerivs_some _ _ _ hmd k d0 hx
              rw [hl2]
              cases hr : recur d0 <;> simp only [hr, Option.bind_none, Option.bind_some] at hg
              · cases hg
              · next d' =>
                have hd0 : d0.obj.shape = bp ++ [count am] := by
                  rw [← hshape, e1]; exact hwf k d0 (e2 ▸ hx)
                have := hrec k d0 d' (e2 ▸ hx) hr p a ha hv
                rw [hd0, hi'] at this
                rw [← this, ← hi, ← hush]
                exact congrArg DCell.obs ((insertDeriv_spec _ _ _ hg).2 (p ++ a))

/-- `deriv.unshrink(antimask, shape)` -/
theorem unshrinkD_spec (df : Dflt K) (cfg : Cfg) (am : Arr Bool) (sh : Shape) (d d' : DObj K) (G' : Shape)
    (hdis : cfg.disable = false) (hcur : BackCurrent cfg am G' d.toQ)
    (hfit : bcast d.obj.shape G' = some G')
    (h : unshrinkD df cfg (.arr am) sh d = some d') :
    ∀ p a, a ∈ trues am → Valid G' (p ++ [rnk am a]) →
      (d'.obj.dcellAt (bidx d'.obj.shape (p ++ a))).obs
        = (d.obj.dcellAt (bidx d.obj.shape (p ++ [rnk am a]))).obs := by
  intro p a ha hv
  unfold unshrinkD at h
  cases hu : unshrinkG df (fun _ => none) cfg (.arr am) sh d.toQ <;>
    simp only [hu, Option.map_none, Option.map_some] at h
  · cases h
  · next u =>
    cases h
    have := unshrinkG_spec df (fun _ => none) cfg am sh d.toQ u G' hdis
      (by intro k d0 hk; simp [DObj.toQ, lookupD] at hk) hcur hfit
      (by intro _ _ k d0 d1 hk; simp [DObj.toQ, lookupD] at hk) hu p a ha hv
    exact same_main_obs this

/-- `Qube.unshrink` with derivatives, every branch: the all-masked stand-in, shapeless objects,
    the cached path (under `BackCurrent`) and the scatter with its derivative recursion -/
theorem unshrink_spec (df : Dflt K) (cfg : Cfg) (am : Arr Bool) (sh : Shape) (y u : Q K) (G' : Shape)
    (hdis : cfg.disable = false) (hwf : y.WF) (hcur : BackCurrent cfg am G' y)
    (hcurd : NoCachedPath cfg y.back → y.obj.shape ≠ [] →
      ∀ k d, lookupD y.derivs k = some d → BackCurrent cfg am G' d.toQ)
    (hfit : bcast y.obj.shape G' = some G')
    (h : unshrink df cfg (.arr am) sh y = some u) :
    ∀ p a, a ∈ trues am → Valid G' (p ++ [rnk am a]) →
      Cell.Same (u.cellB (p ++ a)) (y.cellB (p ++ [rnk am a])) := by
  refine unshrinkG_spec df _ cfg am sh y u G' hdis hwf hcur hfit ?_ h
  intro hn hs k d d' hk hr
  exact unshrinkD_spec df cfg am sh d d' G' hdis (hcurd hn hs k d hk)
    (by rw [hwf k d hk]; exact hfit) hr

end PMV.Shrink
