import PMV.Lemmas.DualRep2
/-
  C06, phase 3: ONE composition theorem for item programs over the whole differentiable catalogue.

  `ProgW` mirrors the wire format of the driver (`Driver/C06.lean`, `evalP`): one constructor per primitive
  item operation; `ProgW.run` calls the same `Val.*` definition the driver dispatches to.  Item types:
  Scalar, 2-vector, 3-vector, quaternion, 2×2 and 3×3 matrix (a rotation matrix is a 3×3 item).
  Composite methods (`unit proj perp ucross with_norm`, quaternion reciprocal, `from_rotation`,
  `to_rotation`, `sep`, `twovec`, matrix division) are *functions producing `ProgW` terms*, equal by `rfl`
  to the compositions `Val.unit …` of Model/Dual.lean, so they are covered by the same theorem.
-/
namespace PMV.Dual
open PMV

abbrev ProgR := ProgW ℝ

namespace ProgW

/-- operand elements of one polymath object carry a key on all components or on none -/
def uniform (denv : ℕ → Option ℝ) (idx : List ℕ) : Bool :=
  idx.all (fun i => (denv i).isSome) || idx.all (fun i => (denv i).isNone)

/-- the type check (`none`: ill-typed) -/
def ty (denv : ℕ → Option ℝ) : ProgW ℝ → Option Ty
  | opd τ idx => if idx.length = τ.len ∧ uniform denv idx = true then some τ else none
  | lit _ => some .S
  | add a b | sub a b =>
    match a.ty denv, b.ty denv with
    | some .S, some .S => some .S | some .V2, some .V2 => some .V2 | some .V3, some .V3 => some .V3
    | some .Q, some .Q => some .Q | some .M2, some .M2 => some .M2 | some .M3, some .M3 => some .M3
    | _, _ => none
  | neg a | nscale _ a | ndiv a _ => a.ty denv
  | smul a s | sdiv a s =>
    match a.ty denv, s.ty denv with
    | some τ, some .S => some τ
    | _, _ => none
  | sc1 _ a => match a.ty denv with | some .S => some .S | _ => none
  | sc2 _ a b => match a.ty denv, b.ty denv with | some .S, some .S => some .S | _, _ => none
  | dot a b =>
    match a.ty denv, b.ty denv with
    | some .V2, some .V2 => some .S | some .V3, some .V3 => some .S | _, _ => none
  | normSq a | norm a =>
    match a.ty denv with
    | some .V2 => some .S | some .V3 => some .S | some .Q => some .S | _ => none
  | cross3 a b => match a.ty denv, b.ty denv with | some .V3, some .V3 => some .V3 | _, _ => none
  | cross2 a b => match a.ty denv, b.ty denv with | some .V2, some .V2 => some .S | _, _ => none
  | outer a b =>
    match a.ty denv, b.ty denv with
    | some .V2, some .V2 => some .M2 | some .V3, some .V3 => some .M3 | _, _ => none
  | emul a b | ediv a b =>
    match a.ty denv, b.ty denv with
    | some .V2, some .V2 => some .V2 | some .V3, some .V3 => some .V3 | _, _ => none
  | comp i a => match a.ty denv with | some τ => if i < τ.len then some .S else none | none => none
  | slice i j a =>
    match a.ty denv, i, j with
    | some .Q, 1, 4 => some .V3
    | some .M2, 0, 2 => some .V2 | some .M2, 2, 4 => some .V2
    | some .M3, 0, 3 => some .V3 | some .M3, 3, 6 => some .V3 | some .M3, 6, 9 => some .V3
    | _, _, _ => none
  | cat a b =>
    match a.ty denv, b.ty denv with
    | some .S, some .S => some .V2 | some .V2, some .S => some .V3 | some .S, some .V3 => some .Q
    | _, _ => none
  | rowcat3 a b c =>
    match a.ty denv, b.ty denv, c.ty denv with
    | some .V3, some .V3, some .V3 => some .M3 | _, _, _ => none
  | widen a b => match a.ty denv, b.ty denv with | some τ, some _ => some τ | _, _ => none
  | matmul m k n a b =>
    match m, k, n, a.ty denv, b.ty denv with
    | 2, 2, 2, some .M2, some .M2 => some .M2 | 3, 3, 3, some .M3, some .M3 => some .M3
    | 2, 2, 1, some .M2, some .V2 => some .V2 | 3, 3, 1, some .M3, some .V3 => some .V3
    | _, _, _, _, _ => none
  | transpose m n a =>
    match m, n, a.ty denv with
    | 2, 2, some .M2 => some .M2 | 3, 3, some .M3 => some .M3 | _, _, _ => none
  | inverse n a =>
    match n, a.ty denv with
    | 2, some .M2 => some .M2 | 3, some .M3 => some .M3 | _, _ => none
  | rot _ a => match a.ty denv with | some .S => some .M3 | _ => none
  | qmul a b => match a.ty denv, b.ty denv with | some .Q, some .Q => some .Q | _, _ => none
  | qconj a => match a.ty denv with | some .Q => some .Q | _ => none
  | toMatrix3 a => match a.ty denv with | some .Q => some .M3 | _ => none

/-! component expansions on lists of expressions -/
def sumE : List (E ℝ) → E ℝ
  | [] => .lit 0
  | x :: xs => xs.foldl .add x
def dotE (a b : List (E ℝ)) : E ℝ := sumE (List.zipWith .mul a b)
def normSqE (a : List (E ℝ)) : E ℝ := sumE (a.map .pow2)
def rowsE (n : ℕ) : ℕ → List (E ℝ) → List (List (E ℝ))
  | 0, _ => []
  | m + 1, l => l.take n :: rowsE n m (l.drop n)
def colE (n j m : ℕ) (l : List (E ℝ)) : List (E ℝ) := (rowsE n m l).map fun r => r.getD j (.lit 0)
def matmulE (m k n : ℕ) (a b : List (E ℝ)) : List (E ℝ) :=
  (rowsE k m a).flatMap fun r => (List.range n).map fun j => dotE r (colE n j k b)
def transposeE (m n : ℕ) (a : List (E ℝ)) : List (E ℝ) := (List.range n).flatMap fun j => colE n j m a
def qconjE : List (E ℝ) → List (E ℝ)
  | [s, x, y, z] => [s, .neg x, .neg y, .neg z]
  | _ => []

/-- component expansion of a program -/
noncomputable def expand : ProgW ℝ → List (E ℝ)
  | opd _ idx => idx.map .var
  | lit c => [.lit c]
  | add a b => List.zipWith .add a.expand b.expand
  | sub a b => List.zipWith .sub a.expand b.expand
  | neg a => a.expand.map .neg
  | nscale c a => a.expand.map (.scale c)
  | ndiv a c => a.expand.map (E.divn · c)
  | smul a s => a.expand.map (E.mul · (s.expand.headD (.lit 0)))
  | sdiv a s => a.expand.map (E.div · (s.expand.headD (.lit 0)))
  | sc1 f a => [f.subst fun _ => a.expand.headD (.lit 0)]
  | sc2 f a b => [f.subst fun i => if i = 0 then a.expand.headD (.lit 0) else b.expand.headD (.lit 0)]
  | dot a b => [dotE a.expand b.expand]
  | normSq a => [normSqE a.expand]
  | norm a => [.sqrt (normSqE a.expand)]
  | cross3 a b => cross3E a.expand b.expand
  | cross2 a b =>
    match a.expand, b.expand with
    | [a0, a1], [b0, b1] => [.sub (.mul a0 b1) (.mul a1 b0)]
    | _, _ => []
  | outer a b => a.expand.flatMap fun x => b.expand.map fun y => E.mul x y
  | emul a b => List.zipWith .mul a.expand b.expand
  | ediv a b => List.zipWith .div a.expand b.expand
  | comp i a => [a.expand.getD i (.lit 0)]
  | slice i j a => (a.expand.drop i).take (j - i)
  | cat a b => a.expand ++ b.expand
  | rowcat3 a b c => a.expand ++ b.expand ++ c.expand
  | widen a _ => a.expand
  | matmul m k n a b => matmulE m k n a.expand b.expand
  | transpose m n a => transposeE m n a.expand
  | inverse n a => if n = 2 then inv2E a.expand else inv3E a.expand
  | rot axis a => rotE axis (a.expand.headD (.lit 0))
  | qmul a b => qmulE a.expand b.expand
  | qconj a => qconjE a.expand
  | toMatrix3 a => toMatrix3E a.expand

section composites
variable (env : ℕ → ℝ) (denv : ℕ → Option ℝ) (um : ℕ → Bool) (a b : ProgW ℝ)
theorem run_unit : (unit a).run env denv um = Val.unit (a.run env denv um) := rfl
theorem run_proj : (proj a b).run env denv um = Val.proj (a.run env denv um) (b.run env denv um) := rfl
theorem run_perp : (perp a b).run env denv um = Val.perp (a.run env denv um) (b.run env denv um) := rfl
theorem run_ucross : (ucross a b).run env denv um = Val.ucross (a.run env denv um) (b.run env denv um) := rfl
theorem run_withNorm : (withNorm a b).run env denv um = Val.withNorm (a.run env denv um) (b.run env denv um) := rfl
theorem run_qrecip : (qrecip a).run env denv um = Val.qrecip (a.run env denv um) := rfl
theorem run_fromRotation :
    (fromRotation a b).run env denv um = Val.fromRotation (a.run env denv um) (b.run env denv um) := rfl
theorem run_toRotation0 : (toRotation0 a).run env denv um = Val.toRotation0 (a.run env denv um) := rfl
theorem run_toRotation1 : (toRotation1 a).run env denv um = Val.toRotation1 (a.run env denv um) := rfl
theorem run_fromRaDecLength (c : ProgW ℝ) : (fromRaDecLength a b c).run env denv um
    = Val.smul (Val.cat (Val.cat (Val.smul (Val.sc1 (.cos (.var 0)) (b.run env denv um)) (Val.sc1 (.cos (.var 0)) (a.run env denv um)))
        (Val.smul (Val.sc1 (.cos (.var 0)) (b.run env denv um)) (Val.sc1 (.sin (.var 0)) (a.run env denv um))))
        (Val.sc1 (.sin (.var 0)) (b.run env denv um))) (c.run env denv um) := rfl
theorem run_sep : (sep a b).run env denv um = Val.sep (a.run env denv um) (b.run env denv um) := rfl
theorem run_twovec (axis1 axis2 : ℕ) :
    (twovec axis1 axis2 a b).run env denv um = Val.twovec axis1 axis2 (a.run env denv um) (b.run env denv um) := by
  unfold twovec Val.twovec
  by_cases h : (3 + axis2 - axis1) % 3 = 1 <;> simp only [h, if_true, if_false] <;>
    (simp only [run]; congr 2 <;> split <;> (try rfl) <;> split <;> rfl)
end composites

end ProgW
section opdlemmas
variable {env : ℕ → ℝ} {denv : ℕ → Option ℝ} {um : ℕ → Bool}

theorem mapM_all_some (denv : ℕ → Option ℝ) (idx : List ℕ) (h : ∀ i ∈ idx, (denv i).isSome = true) :
    idx.mapM denv = some (idx.map fun i => (denv i).getD 0) := by
  induction idx with
  | nil => rfl
  | cons i rest ih =>
    have hi := h i (List.mem_cons_self ..)
    obtain ⟨x, hx⟩ := Option.isSome_iff_exists.mp hi
    have := ih (fun j hj => h j (List.mem_cons_of_mem _ hj))
    simp [List.mapM_cons, hx, this]

theorem mapM_all_none (denv : ℕ → Option ℝ) (idx : List ℕ) (hne : idx ≠ []) (h : ∀ i ∈ idx, denv i = none) :
    idx.mapM denv = none := by
  cases idx with
  | nil => exact absurd rfl hne
  | cons i rest => simp [List.mapM_cons, h i (List.mem_cons_self ..)]

/-- an operand element of any item type is represented by its variables -/
theorem rep_opd (idx : List ℕ) (h : ProgW.uniform denv idx = true) :
    Rep env denv um (Val.opd idx env denv um) (idx.map .var) := by
  refine ⟨by simp [Val.opd, E.val], ?_, ?_⟩
  · simp only [ProgW.uniform, Bool.or_eq_true, List.all_eq_true] at h
    rcases h with h | h
    · simp [Val.opd, Val.dvec, mapM_all_some denv idx h, E.der]
    · have h' : ∀ i ∈ idx, denv i = none := fun i hi => by simpa using h i hi
      by_cases hne : idx = []
      · subst hne; simp [Val.opd, Val.dvec]
      · simp only [Val.opd, Val.dvec, mapM_all_none denv idx hne h', Option.getD_none, List.map_map]
        apply List.map_congr_left
        intro i hi
        simp [E.der, h' i hi]
  · intro hok
    simp only [Val.opd, List.all_eq_true] at hok
    intro e he
    obtain ⟨i, hi, rfl⟩ := List.mem_map.mp he
    simpa [E.ok] using hok i hi

theorem len2 {α : Type} {l : List α} (h : l.length = 2) : ∃ a b, l = [a, b] := by
  match l, h with
  | [a, b], _ => exact ⟨a, b, rfl⟩
theorem len4 {α : Type} {l : List α} (h : l.length = 4) : ∃ a b c d, l = [a, b, c, d] := by
  match l, h with
  | [a, b, c, d], _ => exact ⟨a, b, c, d, rfl⟩
theorem len9 {α : Type} {l : List α} (h : l.length = 9) :
    ∃ a b c d e f g h i, l = [a, b, c, d, e, f, g, h, i] := by
  match l, h with
  | [a, b, c, d, e, f, g, h, i], _ => exact ⟨a, b, c, d, e, f, g, h, i, rfl⟩

end opdlemmas

section progw
variable (env : ℕ → ℝ) (denv : ℕ → Option ℝ) (um : ℕ → Bool)

/-- **progw_rep.**  Every well-typed item program over the catalogue (Scalars, 2- and 3-vectors,
    quaternions, 2×2 and 3×3 matrices, rotations), of any depth, evaluated with the source's item-level
    formulas, is represented by its component expansion. -/
theorem progw_rep (p : ProgW ℝ) : ∀ σ, p.ty denv = some σ →
    Rep env denv um (p.run env denv um) p.expand ∧ p.expand.length = σ.len := by
  induction p with
  | opd τ idx =>
    intro σ h; simp only [ProgW.ty] at h
    split at h
    · rename_i hc; simp only [Option.some.injEq] at h; subst h
      exact ⟨rep_opd idx hc.2, by simpa [ProgW.expand] using hc.1⟩
    · simp at h
  | lit c =>
    intro σ h; simp only [ProgW.ty, Option.some.injEq] at h; subst h
    exact ⟨⟨rfl, by simp [Val.dvec, E.der, ProgW.run, ProgW.expand], fun _ => by simp [E.ok, ProgW.expand]⟩, rfl⟩
  | add a b iha ihb =>
    intro σ h; simp only [ProgW.ty] at h
    split at h
    · rename_i ha hb
      obtain ⟨ra, la⟩ := iha _ ha; obtain ⟨rb, lb⟩ := ihb _ hb
      obtain ⟨a0, ea⟩ := len1 la; obtain ⟨b0, eb⟩ := len1 lb
      simp only [Option.some.injEq] at h; subst h
      rw [ea] at ra; rw [eb] at rb; rw [ProgW.run, ProgW.expand, ea, eb]
      exact ⟨rep_add1 ra rb, rfl⟩
    · rename_i ha hb
      obtain ⟨ra, la⟩ := iha _ ha; obtain ⟨rb, lb⟩ := ihb _ hb
      obtain ⟨a0, a1, ea⟩ := len2 la; obtain ⟨b0, b1, eb⟩ := len2 lb
      simp only [Option.some.injEq] at h; subst h
      rw [ea] at ra; rw [eb] at rb; rw [ProgW.run, ProgW.expand, ea, eb]
      exact ⟨rep_add2 ra rb, rfl⟩
    · rename_i ha hb
      obtain ⟨ra, la⟩ := iha _ ha; obtain ⟨rb, lb⟩ := ihb _ hb
      obtain ⟨a0, a1, a2, ea⟩ := len3 la; obtain ⟨b0, b1, b2, eb⟩ := len3 lb
      simp only [Option.some.injEq] at h; subst h
      rw [ea] at ra; rw [eb] at rb; rw [ProgW.run, ProgW.expand, ea, eb]
      exact ⟨rep_add3 ra rb, rfl⟩
    · rename_i ha hb
      obtain ⟨ra, la⟩ := iha _ ha; obtain ⟨rb, lb⟩ := ihb _ hb
      obtain ⟨a0, a1, a2, a3, ea⟩ := len4 la; obtain ⟨b0, b1, b2, b3, eb⟩ := len4 lb
      simp only [Option.some.injEq] at h; subst h
      rw [ea] at ra; rw [eb] at rb; rw [ProgW.run, ProgW.expand, ea, eb]
      exact ⟨rep_add4 ra rb, rfl⟩
    · rename_i ha hb
      obtain ⟨ra, la⟩ := iha _ ha; obtain ⟨rb, lb⟩ := ihb _ hb
      obtain ⟨a0, a1, a2, a3, ea⟩ := len4 la; obtain ⟨b0, b1, b2, b3, eb⟩ := len4 lb
      simp only [Option.some.injEq] at h; subst h
      rw [ea] at ra; rw [eb] at rb; rw [ProgW.run, ProgW.expand, ea, eb]
      exact ⟨rep_add4 ra rb, rfl⟩
    · rename_i ha hb
      obtain ⟨ra, la⟩ := iha _ ha; obtain ⟨rb, lb⟩ := ihb _ hb
      obtain ⟨a0, a1, a2, a3, a4, a5, a6, a7, a8, ea⟩ := len9 la; obtain ⟨b0, b1, b2, b3, b4, b5, b6, b7, b8, eb⟩ := len9 lb
      simp only [Option.some.injEq] at h; subst h
      rw [ea] at ra; rw [eb] at rb; rw [ProgW.run, ProgW.expand, ea, eb]
      exact ⟨rep_add9 ra rb, rfl⟩
    · simp at h
  | sub a b iha ihb =>
    intro σ h; simp only [ProgW.ty] at h
    split at h
    · rename_i ha hb
      obtain ⟨ra, la⟩ := iha _ ha; obtain ⟨rb, lb⟩ := ihb _ hb
      obtain ⟨a0, ea⟩ := len1 la; obtain ⟨b0, eb⟩ := len1 lb
      simp only [Option.some.injEq] at h; subst h
      rw [ea] at ra; rw [eb] at rb; rw [ProgW.run, ProgW.expand, ea, eb]
      exact ⟨rep_sub1 ra rb, rfl⟩
    · rename_i ha hb
      obtain ⟨ra, la⟩ := iha _ ha; obtain ⟨rb, lb⟩ := ihb _ hb
      obtain ⟨a0, a1, ea⟩ := len2 la; obtain ⟨b0, b1, eb⟩ := len2 lb
      simp only [Option.some.injEq] at h; subst h
      rw [ea] at ra; rw [eb] at rb; rw [ProgW.run, ProgW.expand, ea, eb]
      exact ⟨rep_sub2 ra rb, rfl⟩
    · rename_i ha hb
      obtain ⟨ra, la⟩ := iha _ ha; obtain ⟨rb, lb⟩ := ihb _ hb
      obtain ⟨a0, a1, a2, ea⟩ := len3 la; obtain ⟨b0, b1, b2, eb⟩ := len3 lb
      simp only [Option.some.injEq] at h; subst h
      rw [ea] at ra; rw [eb] at rb; rw [ProgW.run, ProgW.expand, ea, eb]
      exact ⟨rep_sub3 ra rb, rfl⟩
    · rename_i ha hb
      obtain ⟨ra, la⟩ := iha _ ha; obtain ⟨rb, lb⟩ := ihb _ hb
      obtain ⟨a0, a1, a2, a3, ea⟩ := len4 la; obtain ⟨b0, b1, b2, b3, eb⟩ := len4 lb
      simp only [Option.some.injEq] at h; subst h
      rw [ea] at ra; rw [eb] at rb; rw [ProgW.run, ProgW.expand, ea, eb]
      exact ⟨rep_sub4 ra rb, rfl⟩
    · rename_i ha hb
      obtain ⟨ra, la⟩ := iha _ ha; obtain ⟨rb, lb⟩ := ihb _ hb
      obtain ⟨a0, a1, a2, a3, ea⟩ := len4 la; obtain ⟨b0, b1, b2, b3, eb⟩ := len4 lb
      simp only [Option.some.injEq] at h; subst h
      rw [ea] at ra; rw [eb] at rb; rw [ProgW.run, ProgW.expand, ea, eb]
      exact ⟨rep_sub4 ra rb, rfl⟩
    · rename_i ha hb
      obtain ⟨ra, la⟩ := iha _ ha; obtain ⟨rb, lb⟩ := ihb _ hb
      obtain ⟨a0, a1, a2, a3, a4, a5, a6, a7, a8, ea⟩ := len9 la; obtain ⟨b0, b1, b2, b3, b4, b5, b6, b7, b8, eb⟩ := len9 lb
      simp only [Option.some.injEq] at h; subst h
      rw [ea] at ra; rw [eb] at rb; rw [ProgW.run, ProgW.expand, ea, eb]
      exact ⟨rep_sub9 ra rb, rfl⟩
    · simp at h
  | neg a iha =>
    intro σ h; simp only [ProgW.ty] at h
    obtain ⟨ra, la⟩ := iha _ h
    cases σ
    · obtain ⟨a0, ea⟩ := len1 la
      rw [ea] at ra; rw [ProgW.run, ProgW.expand, ea]; exact ⟨rep_neg1 ra, rfl⟩
    · obtain ⟨a0, a1, ea⟩ := len2 la
      rw [ea] at ra; rw [ProgW.run, ProgW.expand, ea]; exact ⟨rep_neg2 ra, rfl⟩
    · obtain ⟨a0, a1, a2, ea⟩ := len3 la
      rw [ea] at ra; rw [ProgW.run, ProgW.expand, ea]; exact ⟨rep_neg3 ra, rfl⟩
    · obtain ⟨a0, a1, a2, a3, ea⟩ := len4 la
      rw [ea] at ra; rw [ProgW.run, ProgW.expand, ea]; exact ⟨rep_neg4 ra, rfl⟩
    · obtain ⟨a0, a1, a2, a3, ea⟩ := len4 la
      rw [ea] at ra; rw [ProgW.run, ProgW.expand, ea]; exact ⟨rep_neg4 ra, rfl⟩
    · obtain ⟨a0, a1, a2, a3, a4, a5, a6, a7, a8, ea⟩ := len9 la
      rw [ea] at ra; rw [ProgW.run, ProgW.expand, ea]; exact ⟨rep_neg9 ra, rfl⟩
  | nscale c a iha =>
    intro σ h; simp only [ProgW.ty] at h
    obtain ⟨ra, la⟩ := iha _ h
    cases σ
    · obtain ⟨a0, ea⟩ := len1 la
      rw [ea] at ra; rw [ProgW.run, ProgW.expand, ea]; exact ⟨rep_nscale1 c ra, rfl⟩
    · obtain ⟨a0, a1, ea⟩ := len2 la
      rw [ea] at ra; rw [ProgW.run, ProgW.expand, ea]; exact ⟨rep_nscale2 c ra, rfl⟩
    · obtain ⟨a0, a1, a2, ea⟩ := len3 la
      rw [ea] at ra; rw [ProgW.run, ProgW.expand, ea]; exact ⟨rep_nscale3 c ra, rfl⟩
    · obtain ⟨a0, a1, a2, a3, ea⟩ := len4 la
      rw [ea] at ra; rw [ProgW.run, ProgW.expand, ea]; exact ⟨rep_nscale4 c ra, rfl⟩
    · obtain ⟨a0, a1, a2, a3, ea⟩ := len4 la
      rw [ea] at ra; rw [ProgW.run, ProgW.expand, ea]; exact ⟨rep_nscale4 c ra, rfl⟩
    · obtain ⟨a0, a1, a2, a3, a4, a5, a6, a7, a8, ea⟩ := len9 la
      rw [ea] at ra; rw [ProgW.run, ProgW.expand, ea]; exact ⟨rep_nscale9 c ra, rfl⟩
  | ndiv a c iha =>
    intro σ h; simp only [ProgW.ty] at h
    obtain ⟨ra, la⟩ := iha _ h
    cases σ
    · obtain ⟨a0, ea⟩ := len1 la
      rw [ea] at ra; rw [ProgW.run, ProgW.expand, ea]; exact ⟨rep_ndiv1 c ra, rfl⟩
    · obtain ⟨a0, a1, ea⟩ := len2 la
      rw [ea] at ra; rw [ProgW.run, ProgW.expand, ea]; exact ⟨rep_ndiv2 c ra, rfl⟩
    · obtain ⟨a0, a1, a2, ea⟩ := len3 la
      rw [ea] at ra; rw [ProgW.run, ProgW.expand, ea]; exact ⟨rep_ndiv3 c ra, rfl⟩
    · obtain ⟨a0, a1, a2, a3, ea⟩ := len4 la
      rw [ea] at ra; rw [ProgW.run, ProgW.expand, ea]; exact ⟨rep_ndiv4 c ra, rfl⟩
    · obtain ⟨a0, a1, a2, a3, ea⟩ := len4 la
      rw [ea] at ra; rw [ProgW.run, ProgW.expand, ea]; exact ⟨rep_ndiv4 c ra, rfl⟩
    · obtain ⟨a0, a1, a2, a3, a4, a5, a6, a7, a8, ea⟩ := len9 la
      rw [ea] at ra; rw [ProgW.run, ProgW.expand, ea]; exact ⟨rep_ndiv9 c ra, rfl⟩
  | smul a s iha ihs =>
    intro σ h; simp only [ProgW.ty] at h
    split at h
    · rename_i τ ha hs
      obtain ⟨ra, la⟩ := iha _ ha; obtain ⟨rs, ls⟩ := ihs _ hs
      obtain ⟨s0, es⟩ := len1 ls
      simp only [Option.some.injEq] at h; subst h
      cases τ
      · obtain ⟨a0, ea⟩ := len1 la
        rw [ea] at ra; rw [es] at rs; rw [ProgW.run, ProgW.expand, ea, es]; exact ⟨rep_smul1 ra rs, rfl⟩
      · obtain ⟨a0, a1, ea⟩ := len2 la
        rw [ea] at ra; rw [es] at rs; rw [ProgW.run, ProgW.expand, ea, es]; exact ⟨rep_smul2 ra rs, rfl⟩
      · obtain ⟨a0, a1, a2, ea⟩ := len3 la
        rw [ea] at ra; rw [es] at rs; rw [ProgW.run, ProgW.expand, ea, es]; exact ⟨rep_smul3 ra rs, rfl⟩
      · obtain ⟨a0, a1, a2, a3, ea⟩ := len4 la
        rw [ea] at ra; rw [es] at rs; rw [ProgW.run, ProgW.expand, ea, es]; exact ⟨rep_smul4 ra rs, rfl⟩
      · obtain ⟨a0, a1, a2, a3, ea⟩ := len4 la
        rw [ea] at ra; rw [es] at rs; rw [ProgW.run, ProgW.expand, ea, es]; exact ⟨rep_smul4 ra rs, rfl⟩
      · obtain ⟨a0, a1, a2, a3, a4, a5, a6, a7, a8, ea⟩ := len9 la
        rw [ea] at ra; rw [es] at rs; rw [ProgW.run, ProgW.expand, ea, es]; exact ⟨rep_smul9 ra rs, rfl⟩
    · simp at h
  | sdiv a s iha ihs =>
    intro σ h; simp only [ProgW.ty] at h
    split at h
    · rename_i τ ha hs
      obtain ⟨ra, la⟩ := iha _ ha; obtain ⟨rs, ls⟩ := ihs _ hs
      obtain ⟨s0, es⟩ := len1 ls
      simp only [Option.some.injEq] at h; subst h
      cases τ
      · obtain ⟨a0, ea⟩ := len1 la
        rw [ea] at ra; rw [es] at rs; rw [ProgW.run, ProgW.expand, ea, es]; exact ⟨rep_sdiv1 ra rs, rfl⟩
      · obtain ⟨a0, a1, ea⟩ := len2 la
        rw [ea] at ra; rw [es] at rs; rw [ProgW.run, ProgW.expand, ea, es]; exact ⟨rep_sdiv2 ra rs, rfl⟩
      · obtain ⟨a0, a1, a2, ea⟩ := len3 la
        rw [ea] at ra; rw [es] at rs; rw [ProgW.run, ProgW.expand, ea, es]; exact ⟨rep_sdiv3 ra rs, rfl⟩
      · obtain ⟨a0, a1, a2, a3, ea⟩ := len4 la
        rw [ea] at ra; rw [es] at rs; rw [ProgW.run, ProgW.expand, ea, es]; exact ⟨rep_sdiv4 ra rs, rfl⟩
      · obtain ⟨a0, a1, a2, a3, ea⟩ := len4 la
        rw [ea] at ra; rw [es] at rs; rw [ProgW.run, ProgW.expand, ea, es]; exact ⟨rep_sdiv4 ra rs, rfl⟩
      · obtain ⟨a0, a1, a2, a3, a4, a5, a6, a7, a8, ea⟩ := len9 la
        rw [ea] at ra; rw [es] at rs; rw [ProgW.run, ProgW.expand, ea, es]; exact ⟨rep_sdiv9 ra rs, rfl⟩
    · simp at h
  | sc1 f a iha =>
    intro σ h; simp only [ProgW.ty] at h
    split at h
    · rename_i ha
      obtain ⟨ra, la⟩ := iha _ ha
      obtain ⟨a0, ea⟩ := len1 la
      simp only [Option.some.injEq] at h; subst h
      rw [ea] at ra; rw [ProgW.run, ProgW.expand, ea]
      exact ⟨rep_sc1 f ra, rfl⟩
    · simp at h
  | sc2 f a b iha ihb =>
    intro σ h; simp only [ProgW.ty] at h
    split at h
    · rename_i ha hb
      obtain ⟨ra, la⟩ := iha _ ha; obtain ⟨rb, lb⟩ := ihb _ hb
      obtain ⟨a0, ea⟩ := len1 la; obtain ⟨b0, eb⟩ := len1 lb
      simp only [Option.some.injEq] at h; subst h
      rw [ea] at ra; rw [eb] at rb; rw [ProgW.run, ProgW.expand, ea, eb]
      exact ⟨rep_sc2 f ra rb, rfl⟩
    · simp at h
  | dot a b iha ihb =>
    intro σ h; simp only [ProgW.ty] at h
    split at h
    · rename_i ha hb
      obtain ⟨ra, la⟩ := iha _ ha; obtain ⟨rb, lb⟩ := ihb _ hb
      obtain ⟨a0, a1, ea⟩ := len2 la; obtain ⟨b0, b1, eb⟩ := len2 lb
      simp only [Option.some.injEq] at h; subst h
      rw [ea] at ra; rw [eb] at rb; rw [ProgW.run, ProgW.expand, ea, eb]
      exact ⟨rep_dot2 ra rb, rfl⟩
    · rename_i ha hb
      obtain ⟨ra, la⟩ := iha _ ha; obtain ⟨rb, lb⟩ := ihb _ hb
      obtain ⟨a0, a1, a2, ea⟩ := len3 la; obtain ⟨b0, b1, b2, eb⟩ := len3 lb
      simp only [Option.some.injEq] at h; subst h
      rw [ea] at ra; rw [eb] at rb; rw [ProgW.run, ProgW.expand, ea, eb]
      exact ⟨rep_dot3 ra rb, rfl⟩
    · simp at h
  | normSq a iha =>
    intro σ h; simp only [ProgW.ty] at h
    split at h
    · rename_i ha
      obtain ⟨ra, la⟩ := iha _ ha
      obtain ⟨a0, a1, ea⟩ := len2 la
      simp only [Option.some.injEq] at h; subst h
      rw [ea] at ra; rw [ProgW.run, ProgW.expand, ea]
      exact ⟨rep_normSq2 ra, rfl⟩
    · rename_i ha
      obtain ⟨ra, la⟩ := iha _ ha
      obtain ⟨a0, a1, a2, ea⟩ := len3 la
      simp only [Option.some.injEq] at h; subst h
      rw [ea] at ra; rw [ProgW.run, ProgW.expand, ea]
      exact ⟨rep_normSq3 ra, rfl⟩
    · rename_i ha
      obtain ⟨ra, la⟩ := iha _ ha
      obtain ⟨a0, a1, a2, a3, ea⟩ := len4 la
      simp only [Option.some.injEq] at h; subst h
      rw [ea] at ra; rw [ProgW.run, ProgW.expand, ea]
      exact ⟨rep_normSq4 ra, rfl⟩
    · simp at h
  | norm a iha =>
    intro σ h; simp only [ProgW.ty] at h
    split at h
    · rename_i ha
      obtain ⟨ra, la⟩ := iha _ ha
      obtain ⟨a0, a1, ea⟩ := len2 la
      simp only [Option.some.injEq] at h; subst h
      rw [ea] at ra; rw [ProgW.run, ProgW.expand, ea]
      exact ⟨rep_norm2 ra, rfl⟩
    · rename_i ha
      obtain ⟨ra, la⟩ := iha _ ha
      obtain ⟨a0, a1, a2, ea⟩ := len3 la
      simp only [Option.some.injEq] at h; subst h
      rw [ea] at ra; rw [ProgW.run, ProgW.expand, ea]
      exact ⟨rep_norm3 ra, rfl⟩
    · rename_i ha
      obtain ⟨ra, la⟩ := iha _ ha
      obtain ⟨a0, a1, a2, a3, ea⟩ := len4 la
      simp only [Option.some.injEq] at h; subst h
      rw [ea] at ra; rw [ProgW.run, ProgW.expand, ea]
      exact ⟨rep_norm4 ra, rfl⟩
    · simp at h
  | cross3 a b iha ihb =>
    intro σ h; simp only [ProgW.ty] at h
    split at h
    · rename_i ha hb
      obtain ⟨ra, la⟩ := iha _ ha; obtain ⟨rb, lb⟩ := ihb _ hb
      obtain ⟨a0, a1, a2, ea⟩ := len3 la; obtain ⟨b0, b1, b2, eb⟩ := len3 lb
      simp only [Option.some.injEq] at h; subst h
      rw [ea] at ra; rw [eb] at rb; rw [ProgW.run, ProgW.expand, ea, eb]
      exact ⟨rep_cross3 ra rb, rfl⟩
    · simp at h
  | cross2 a b iha ihb =>
    intro σ h; simp only [ProgW.ty] at h
    split at h
    · rename_i ha hb
      obtain ⟨ra, la⟩ := iha _ ha; obtain ⟨rb, lb⟩ := ihb _ hb
      obtain ⟨a0, a1, ea⟩ := len2 la; obtain ⟨b0, b1, eb⟩ := len2 lb
      simp only [Option.some.injEq] at h; subst h
      rw [ea] at ra; rw [eb] at rb; rw [ProgW.run, ProgW.expand, ea, eb]
      exact ⟨rep_cross2 ra rb, rfl⟩
    · simp at h
  | outer a b iha ihb =>
    intro σ h; simp only [ProgW.ty] at h
    split at h
    · rename_i ha hb
      obtain ⟨ra, la⟩ := iha _ ha; obtain ⟨rb, lb⟩ := ihb _ hb
      obtain ⟨a0, a1, ea⟩ := len2 la; obtain ⟨b0, b1, eb⟩ := len2 lb
      simp only [Option.some.injEq] at h; subst h
      rw [ea] at ra; rw [eb] at rb; rw [ProgW.run, ProgW.expand, ea, eb]
      exact ⟨rep_outer2 ra rb, rfl⟩
    · rename_i ha hb
      obtain ⟨ra, la⟩ := iha _ ha; obtain ⟨rb, lb⟩ := ihb _ hb
      obtain ⟨a0, a1, a2, ea⟩ := len3 la; obtain ⟨b0, b1, b2, eb⟩ := len3 lb
      simp only [Option.some.injEq] at h; subst h
      rw [ea] at ra; rw [eb] at rb; rw [ProgW.run, ProgW.expand, ea, eb]
      exact ⟨rep_outer3 ra rb, rfl⟩
    · simp at h
  | emul a b iha ihb =>
    intro σ h; simp only [ProgW.ty] at h
    split at h
    · rename_i ha hb
      obtain ⟨ra, la⟩ := iha _ ha; obtain ⟨rb, lb⟩ := ihb _ hb
      obtain ⟨a0, a1, ea⟩ := len2 la; obtain ⟨b0, b1, eb⟩ := len2 lb
      simp only [Option.some.injEq] at h; subst h
      rw [ea] at ra; rw [eb] at rb; rw [ProgW.run, ProgW.expand, ea, eb]
      exact ⟨rep_emul2 ra rb, rfl⟩
    · rename_i ha hb
      obtain ⟨ra, la⟩ := iha _ ha; obtain ⟨rb, lb⟩ := ihb _ hb
      obtain ⟨a0, a1, a2, ea⟩ := len3 la; obtain ⟨b0, b1, b2, eb⟩ := len3 lb
      simp only [Option.some.injEq] at h; subst h
      rw [ea] at ra; rw [eb] at rb; rw [ProgW.run, ProgW.expand, ea, eb]
      exact ⟨rep_emul3 ra rb, rfl⟩
    · simp at h
  | ediv a b iha ihb =>
    intro σ h; simp only [ProgW.ty] at h
    split at h
    · rename_i ha hb
      obtain ⟨ra, la⟩ := iha _ ha; obtain ⟨rb, lb⟩ := ihb _ hb
      obtain ⟨a0, a1, ea⟩ := len2 la; obtain ⟨b0, b1, eb⟩ := len2 lb
      simp only [Option.some.injEq] at h; subst h
      rw [ea] at ra; rw [eb] at rb; rw [ProgW.run, ProgW.expand, ea, eb]
      exact ⟨rep_ediv2 ra rb, rfl⟩
    · rename_i ha hb
      obtain ⟨ra, la⟩ := iha _ ha; obtain ⟨rb, lb⟩ := ihb _ hb
      obtain ⟨a0, a1, a2, ea⟩ := len3 la; obtain ⟨b0, b1, b2, eb⟩ := len3 lb
      simp only [Option.some.injEq] at h; subst h
      rw [ea] at ra; rw [eb] at rb; rw [ProgW.run, ProgW.expand, ea, eb]
      exact ⟨rep_ediv3 ra rb, rfl⟩
    · simp at h
  | comp i a iha =>
    intro σ h; simp only [ProgW.ty] at h
    split at h
    · rename_i τ ha
      obtain ⟨ra, la⟩ := iha _ ha
      split at h
      · rename_i hi
        simp only [Option.some.injEq] at h; subst h
        cases τ
        · obtain ⟨a0, ea⟩ := len1 la
          rw [ea] at ra; rw [ProgW.run, ProgW.expand, ea]
          have hc := rep_comp1 ra
          simp only [Ty.len] at hi
          interval_cases i
          · exact ⟨hc, rfl⟩
        · obtain ⟨a0, a1, ea⟩ := len2 la
          rw [ea] at ra; rw [ProgW.run, ProgW.expand, ea]
          have hc := rep_comp2 ra
          simp only [Ty.len] at hi
          interval_cases i
          · exact ⟨hc.1, rfl⟩
          · exact ⟨hc.2, rfl⟩
        · obtain ⟨a0, a1, a2, ea⟩ := len3 la
          rw [ea] at ra; rw [ProgW.run, ProgW.expand, ea]
          have hc := rep_comp3 ra
          simp only [Ty.len] at hi
          interval_cases i
          · exact ⟨hc.1, rfl⟩
          · exact ⟨hc.2.1, rfl⟩
          · exact ⟨hc.2.2, rfl⟩
        · obtain ⟨a0, a1, a2, a3, ea⟩ := len4 la
          rw [ea] at ra; rw [ProgW.run, ProgW.expand, ea]
          have hc := rep_comp4 ra
          simp only [Ty.len] at hi
          interval_cases i
          · exact ⟨hc.1, rfl⟩
          · exact ⟨hc.2.1, rfl⟩
          · exact ⟨hc.2.2.1, rfl⟩
          · exact ⟨hc.2.2.2, rfl⟩
        · obtain ⟨a0, a1, a2, a3, ea⟩ := len4 la
          rw [ea] at ra; rw [ProgW.run, ProgW.expand, ea]
          have hc := rep_comp4 ra
          simp only [Ty.len] at hi
          interval_cases i
          · exact ⟨hc.1, rfl⟩
          · exact ⟨hc.2.1, rfl⟩
          · exact ⟨hc.2.2.1, rfl⟩
          · exact ⟨hc.2.2.2, rfl⟩
        · obtain ⟨a0, a1, a2, a3, a4, a5, a6, a7, a8, ea⟩ := len9 la
          rw [ea] at ra; rw [ProgW.run, ProgW.expand, ea]
          have hc := rep_comp9 ra
          simp only [Ty.len] at hi
          interval_cases i
          · exact ⟨hc.1, rfl⟩
          · exact ⟨hc.2.1, rfl⟩
          · exact ⟨hc.2.2.1, rfl⟩
          · exact ⟨hc.2.2.2.1, rfl⟩
          · exact ⟨hc.2.2.2.2.1, rfl⟩
          · exact ⟨hc.2.2.2.2.2.1, rfl⟩
          · exact ⟨hc.2.2.2.2.2.2.1, rfl⟩
          · exact ⟨hc.2.2.2.2.2.2.2.1, rfl⟩
          · exact ⟨hc.2.2.2.2.2.2.2.2, rfl⟩
      · simp at h
    · simp at h
  | slice i j a iha =>
    intro σ h; simp only [ProgW.ty] at h
    split at h
    · rename_i ha
      obtain ⟨ra, la⟩ := iha _ ha
      obtain ⟨a0, a1, a2, a3, ea⟩ := len4 la
      simp only [Option.some.injEq] at h; subst h
      rw [ea] at ra; rw [ProgW.run, ProgW.expand, ea]
      exact ⟨(rep_qparts ra).2, rfl⟩
    · rename_i ha
      obtain ⟨ra, la⟩ := iha _ ha
      obtain ⟨a0, a1, a2, a3, ea⟩ := len4 la
      simp only [Option.some.injEq] at h; subst h
      rw [ea] at ra; rw [ProgW.run, ProgW.expand, ea]
      exact ⟨(rep_rows2 ra).1, rfl⟩
    · rename_i ha
      obtain ⟨ra, la⟩ := iha _ ha
      obtain ⟨a0, a1, a2, a3, ea⟩ := len4 la
      simp only [Option.some.injEq] at h; subst h
      rw [ea] at ra; rw [ProgW.run, ProgW.expand, ea]
      exact ⟨(rep_rows2 ra).2, rfl⟩
    · rename_i ha
      obtain ⟨ra, la⟩ := iha _ ha
      obtain ⟨a0, a1, a2, a3, a4, a5, a6, a7, a8, ea⟩ := len9 la
      simp only [Option.some.injEq] at h; subst h
      rw [ea] at ra; rw [ProgW.run, ProgW.expand, ea]
      exact ⟨(rep_rows3 ra).1, rfl⟩
    · rename_i ha
      obtain ⟨ra, la⟩ := iha _ ha
      obtain ⟨a0, a1, a2, a3, a4, a5, a6, a7, a8, ea⟩ := len9 la
      simp only [Option.some.injEq] at h; subst h
      rw [ea] at ra; rw [ProgW.run, ProgW.expand, ea]
      exact ⟨(rep_rows3 ra).2.1, rfl⟩
    · rename_i ha
      obtain ⟨ra, la⟩ := iha _ ha
      obtain ⟨a0, a1, a2, a3, a4, a5, a6, a7, a8, ea⟩ := len9 la
      simp only [Option.some.injEq] at h; subst h
      rw [ea] at ra; rw [ProgW.run, ProgW.expand, ea]
      exact ⟨(rep_rows3 ra).2.2, rfl⟩
    · simp at h
  | cat a b iha ihb =>
    intro σ h; simp only [ProgW.ty] at h
    split at h
    · rename_i ha hb
      obtain ⟨ra, la⟩ := iha _ ha; obtain ⟨rb, lb⟩ := ihb _ hb
      obtain ⟨a0, ea⟩ := len1 la; obtain ⟨b0, eb⟩ := len1 lb
      simp only [Option.some.injEq] at h; subst h
      rw [ea] at ra; rw [eb] at rb; rw [ProgW.run, ProgW.expand, ea, eb]
      exact ⟨rep_cat ra rb, rfl⟩
    · rename_i ha hb
      obtain ⟨ra, la⟩ := iha _ ha; obtain ⟨rb, lb⟩ := ihb _ hb
      obtain ⟨a0, a1, ea⟩ := len2 la; obtain ⟨b0, eb⟩ := len1 lb
      simp only [Option.some.injEq] at h; subst h
      rw [ea] at ra; rw [eb] at rb; rw [ProgW.run, ProgW.expand, ea, eb]
      exact ⟨rep_cat21 ra rb, rfl⟩
    · rename_i ha hb
      obtain ⟨ra, la⟩ := iha _ ha; obtain ⟨rb, lb⟩ := ihb _ hb
      obtain ⟨a0, ea⟩ := len1 la; obtain ⟨b0, b1, b2, eb⟩ := len3 lb
      simp only [Option.some.injEq] at h; subst h
      rw [ea] at ra; rw [eb] at rb; rw [ProgW.run, ProgW.expand, ea, eb]
      exact ⟨rep_cat13 ra rb, rfl⟩
    · simp at h
  | rowcat3 a b c iha ihb ihc =>
    intro σ h; simp only [ProgW.ty] at h
    split at h
    · rename_i ha hb hc
      obtain ⟨ra, la⟩ := iha _ ha; obtain ⟨rb, lb⟩ := ihb _ hb; obtain ⟨rc, lc⟩ := ihc _ hc
      obtain ⟨a0, a1, a2, ea⟩ := len3 la; obtain ⟨b0, b1, b2, eb⟩ := len3 lb; obtain ⟨c0, c1, c2, ec⟩ := len3 lc
      simp only [Option.some.injEq] at h; subst h
      rw [ea] at ra; rw [eb] at rb; rw [ec] at rc; rw [ProgW.run, ProgW.expand, ea, eb, ec]
      exact ⟨rep_rowcat3 ra rb rc, rfl⟩
    · simp at h
  | widen a b iha ihb =>
    intro σ h; simp only [ProgW.ty] at h
    split at h
    · rename_i τ _ ha hb
      obtain ⟨ra, la⟩ := iha _ ha
      simp only [Option.some.injEq] at h; subst h
      rw [ProgW.run, ProgW.expand]; exact ⟨rep_widen ra, la⟩
    · simp at h
  | matmul m k n a b iha ihb =>
    intro σ h; simp only [ProgW.ty] at h
    split at h
    · rename_i ha hb
      obtain ⟨ra, la⟩ := iha _ ha; obtain ⟨rb, lb⟩ := ihb _ hb
      obtain ⟨a0, a1, a2, a3, ea⟩ := len4 la; obtain ⟨b0, b1, b2, b3, eb⟩ := len4 lb
      simp only [Option.some.injEq] at h; subst h
      rw [ea] at ra; rw [eb] at rb; rw [ProgW.run, ProgW.expand, ea, eb]
      exact ⟨rep_matmul2 ra rb, rfl⟩
    · rename_i ha hb
      obtain ⟨ra, la⟩ := iha _ ha; obtain ⟨rb, lb⟩ := ihb _ hb
      obtain ⟨a0, a1, a2, a3, a4, a5, a6, a7, a8, ea⟩ := len9 la; obtain ⟨b0, b1, b2, b3, b4, b5, b6, b7, b8, eb⟩ := len9 lb
      simp only [Option.some.injEq] at h; subst h
      rw [ea] at ra; rw [eb] at rb; rw [ProgW.run, ProgW.expand, ea, eb]
      exact ⟨rep_matmul3 ra rb, rfl⟩
    · rename_i ha hb
      obtain ⟨ra, la⟩ := iha _ ha; obtain ⟨rb, lb⟩ := ihb _ hb
      obtain ⟨a0, a1, a2, a3, ea⟩ := len4 la; obtain ⟨b0, b1, eb⟩ := len2 lb
      simp only [Option.some.injEq] at h; subst h
      rw [ea] at ra; rw [eb] at rb; rw [ProgW.run, ProgW.expand, ea, eb]
      exact ⟨rep_matvec2 ra rb, rfl⟩
    · rename_i ha hb
      obtain ⟨ra, la⟩ := iha _ ha; obtain ⟨rb, lb⟩ := ihb _ hb
      obtain ⟨a0, a1, a2, a3, a4, a5, a6, a7, a8, ea⟩ := len9 la; obtain ⟨b0, b1, b2, eb⟩ := len3 lb
      simp only [Option.some.injEq] at h; subst h
      rw [ea] at ra; rw [eb] at rb; rw [ProgW.run, ProgW.expand, ea, eb]
      exact ⟨rep_matvec3 ra rb, rfl⟩
    · simp at h
  | transpose m n a iha =>
    intro σ h; simp only [ProgW.ty] at h
    split at h
    · rename_i ha
      obtain ⟨ra, la⟩ := iha _ ha
      obtain ⟨a0, a1, a2, a3, ea⟩ := len4 la
      simp only [Option.some.injEq] at h; subst h
      rw [ea] at ra; rw [ProgW.run, ProgW.expand, ea]
      exact ⟨rep_transpose2 ra, rfl⟩
    · rename_i ha
      obtain ⟨ra, la⟩ := iha _ ha
      obtain ⟨a0, a1, a2, a3, a4, a5, a6, a7, a8, ea⟩ := len9 la
      simp only [Option.some.injEq] at h; subst h
      rw [ea] at ra; rw [ProgW.run, ProgW.expand, ea]
      exact ⟨rep_transpose3 ra, rfl⟩
    · simp at h
  | inverse n a iha =>
    intro σ h; simp only [ProgW.ty] at h
    split at h
    · rename_i ha
      obtain ⟨ra, la⟩ := iha _ ha
      obtain ⟨a0, a1, a2, a3, ea⟩ := len4 la
      simp only [Option.some.injEq] at h; subst h
      rw [ea] at ra; rw [ProgW.run, ProgW.expand, ea]
      exact ⟨rep_inv2 ra, rfl⟩
    · rename_i ha
      obtain ⟨ra, la⟩ := iha _ ha
      obtain ⟨a0, a1, a2, a3, a4, a5, a6, a7, a8, ea⟩ := len9 la
      simp only [Option.some.injEq] at h; subst h
      rw [ea] at ra; rw [ProgW.run, ProgW.expand, ea]
      exact ⟨rep_inv3 ra, rfl⟩
    · simp at h
  | rot axis a iha =>
    intro σ h; simp only [ProgW.ty] at h
    split at h
    · rename_i ha
      obtain ⟨ra, la⟩ := iha _ ha
      obtain ⟨a0, ea⟩ := len1 la
      simp only [Option.some.injEq] at h; subst h
      rw [ea] at ra; rw [ProgW.run, ProgW.expand, ea]
      exact ⟨rep_rot axis ra, by rcases axis with _ | _ | n <;> rfl⟩
    · simp at h
  | qmul a b iha ihb =>
    intro σ h; simp only [ProgW.ty] at h
    split at h
    · rename_i ha hb
      obtain ⟨ra, la⟩ := iha _ ha; obtain ⟨rb, lb⟩ := ihb _ hb
      obtain ⟨a0, a1, a2, a3, ea⟩ := len4 la; obtain ⟨b0, b1, b2, b3, eb⟩ := len4 lb
      simp only [Option.some.injEq] at h; subst h
      rw [ea] at ra; rw [eb] at rb; rw [ProgW.run, ProgW.expand, ea, eb]
      exact ⟨rep_qmul ra rb, rfl⟩
    · simp at h
  | toMatrix3 a iha =>
    intro σ h; simp only [ProgW.ty] at h
    split at h
    · rename_i ha
      obtain ⟨ra, la⟩ := iha _ ha
      obtain ⟨a0, a1, a2, a3, ea⟩ := len4 la
      simp only [Option.some.injEq] at h; subst h
      rw [ea] at ra; rw [ProgW.run, ProgW.expand, ea]
      exact ⟨rep_toMatrix3 ra, rfl⟩
    · simp at h
  | qconj a iha =>
    intro σ h; simp only [ProgW.ty] at h
    split at h
    · rename_i ha
      obtain ⟨ra, la⟩ := iha _ ha
      obtain ⟨a0, a1, a2, a3, ea⟩ := len4 la
      simp only [Option.some.injEq] at h; subst h
      rw [ea] at ra; rw [ProgW.run, ProgW.expand, ea]
      exact ⟨rep_qconj ra, rfl⟩
    · simp at h

/-- **progw_sound.**  For every well-typed item program (any depth): wherever polymath leaves the result
    unmasked, each component of the derivative item it attaches is the derivative of the corresponding
    value component.  (Composites — `unit proj perp ucross withNorm qrecip mdiv fromRotation toRotation sep
    twovec` — are `ProgW` terms, so they are instances.) -/
theorem progw_sound (p : ProgW ℝ) (x : ℕ → ℝ → ℝ) (dx : ℕ → Option ℝ) (t : ℝ) (σ : Ty)
    (hx : ∀ k, HasDerivAt (x k) ((dx k).getD 0) t)
    (hty : p.ty dx = some σ)
    (hok : (p.run (fun k => x k t) dx um).ok = true) (j : ℕ) (hj : j < σ.len) :
    HasDerivAt (fun s => ((p.run (fun k => x k s) dx um).v).getD j 0)
      (((p.run (fun k => x k t) dx um).dvec).getD j 0) t :=
  rep_sound x dx um t hx (fun env => p.run env dx um) p.expand
    (fun s => (progw_rep (fun k => x k s) dx um p σ hty).1) hok j
    (by rw [(progw_rep (fun k => x k t) dx um p σ hty).2]; exact hj)

end progw

/-- non-vacuity of `progw_rep` / `progw_sound`: `twovec(a, 0, b, 1) * (a.sep(b) * q.conj().to_parts()[1])`-like programs
    type-check: a rotation matrix built by `twovec` applied to a vector scaled by a separation angle -/
example : (ProgW.matmul 3 3 1 (ProgW.twovec 0 1 (.opd .V3 [0, 1, 2]) (.opd .V3 [3, 4, 5]))
      (.smul (.slice 1 4 (.qconj (.opd .Q [6, 7, 8, 9]))) (ProgW.sep (.opd .V3 [0, 1, 2]) (.opd .V3 [3, 4, 5])))).ty
    (fun _ => some 1) = some .V3 := by
  simp [ProgW.ty, ProgW.twovec, ProgW.sep, ProgW.unit, ProgW.ucross, ProgW.uniform, Ty.len]

end PMV.Dual
