import PMV.Lemmas.Indices
/-
  Reduction lanes partition an array: for every set of axes, (kept coordinates, reduced
  coordinates) ↦ `mergeIdx` is a bijection between Valid (dropAxes s) × Valid (keepAxes s) and
  Valid s.  Hence `Arr.reduce` feeds every input element to exactly one kernel call, at exactly
  one position of its lane — the meaning of "along every axis" in C13/C14.  (Core Lean only.)
-/
namespace PMV

variable {α : Type}

/-- recursive form of `dropAxes`, starting at axis number `k` -/
def dropFrom (axes : List Nat) : Nat → List α → List α
  | _, [] => []
  | k, x :: xs => if axes.contains k then dropFrom axes (k + 1) xs else x :: dropFrom axes (k + 1) xs

def keepFrom (axes : List Nat) : Nat → List α → List α
  | _, [] => []
  | k, x :: xs => if axes.contains k then x :: keepFrom axes (k + 1) xs else keepFrom axes (k + 1) xs

theorem dropAxes_from (axes : List Nat) (k : Nat) (l : List α) :
    ((l.zipIdx k).filter fun p => !axes.contains p.2).map (·.1) = dropFrom axes k l := by
  induction l generalizing k with
  | nil => rfl
  | cons x xs ih =>
    simp only [List.zipIdx_cons, List.filter_cons, dropFrom]
    cases h : axes.contains k <;> simpa [h] using ih (k + 1)

theorem keepAxes_from (axes : List Nat) (k : Nat) (l : List α) :
    ((l.zipIdx k).filter fun p => axes.contains p.2).map (·.1) = keepFrom axes k l := by
  induction l generalizing k with
  | nil => rfl
  | cons x xs ih =>
    simp only [List.zipIdx_cons, List.filter_cons, keepFrom]
    cases h : axes.contains k <;> simpa [h] using ih (k + 1)

theorem dropAxes_eq (axes : List Nat) (l : List α) : dropAxes axes l = dropFrom axes 0 l :=
  dropAxes_from axes 0 l
theorem keepAxes_eq (axes : List Nat) (l : List α) : keepAxes axes l = keepFrom axes 0 l :=
  keepAxes_from axes 0 l

/-- splitting an index into kept and reduced coordinates and merging them back is the identity -/
theorem merge_split (axes : List Nat) :
    ∀ (i : Index) (k : Nat),
      mergeIdx axes i.length k (dropFrom axes k i) (keepFrom axes k i) = i
  | [], _ => rfl
  | x :: xs, k => by
    simp only [List.length_cons, mergeIdx, dropFrom, keepFrom]
    cases h : axes.contains k <;> simp [merge_split axes xs (k + 1)]

/-- number of axes in `[k, k+n)` that are reduced / kept -/
def cntKeep (axes : List Nat) : Nat → Nat → Nat
  | _, 0 => 0
  | k, n + 1 => (if axes.contains k then 1 else 0) + cntKeep axes (k + 1) n
def cntDrop (axes : List Nat) : Nat → Nat → Nat
  | _, 0 => 0
  | k, n + 1 => (if axes.contains k then 0 else 1) + cntDrop axes (k + 1) n

theorem length_dropFrom (axes : List Nat) : ∀ (l : List α) (k : Nat),
    (dropFrom axes k l).length = cntDrop axes k l.length
  | [], _ => rfl
  | x :: xs, k => by
    simp only [dropFrom, List.length_cons, cntDrop]
    cases h : axes.contains k <;> simp [length_dropFrom axes xs (k + 1)] <;> omega

theorem length_keepFrom (axes : List Nat) : ∀ (l : List α) (k : Nat),
    (keepFrom axes k l).length = cntKeep axes k l.length
  | [], _ => rfl
  | x :: xs, k => by
    simp only [keepFrom, List.length_cons, cntKeep]
    cases h : axes.contains k <;> simp [length_keepFrom axes xs (k + 1)] <;> omega

/-- merging and splitting again returns the two parts (for parts of the right lengths) -/
theorem split_merge (axes : List Nat) :
    ∀ (n k : Nat) (o r : Index), o.length = cntDrop axes k n → r.length = cntKeep axes k n →
      (mergeIdx axes n k o r).length = n ∧
      dropFrom axes k (mergeIdx axes n k o r) = o ∧ keepFrom axes k (mergeIdx axes n k o r) = r
  | 0, k, o, r, ho, hr => by
    simp only [cntDrop, cntKeep, List.length_eq_zero_iff] at ho hr
    subst ho; subst hr; simp [mergeIdx, dropFrom, keepFrom]
  | n + 1, k, o, r, ho, hr => by
    simp only [cntDrop, cntKeep] at ho hr
    simp only [mergeIdx]
    cases h : axes.contains k
    · simp only [h] at ho hr ⊢
      cases o with
      | nil => simp at ho; omega
      | cons x o' =>
        have := split_merge axes n (k + 1) o' r (by simp at ho; omega) (by simpa using hr)
        have hk : ¬ k ∈ axes := by simpa using h
        simp [dropFrom, keepFrom, hk, this]
    · simp only [h] at ho hr ⊢
      cases r with
      | nil => simp at hr; omega
      | cons x r' =>
        have := split_merge axes n (k + 1) o r' (by simpa using ho) (by simp at hr; omega)
        have hk : k ∈ axes := by simpa using h
        simp [dropFrom, keepFrom, hk, this]

/-- validity splits along the axes -/
theorem valid_split (axes : List Nat) :
    ∀ (s : Shape) (i : Index) (k : Nat), s.length = i.length →
      (Valid s i ↔ Valid (dropFrom axes k s) (dropFrom axes k i) ∧
                   Valid (keepFrom axes k s) (keepFrom axes k i))
  | [], [], _, _ => by simp [dropFrom, keepFrom, Valid]
  | [], _ :: _, _, h => by simp at h
  | _ :: _, [], _, h => by simp at h
  | n :: s, a :: i, k, h => by
    have ih := valid_split axes s i (k + 1) (by simpa using h)
    simp only [dropFrom, keepFrom]
    cases hk : axes.contains k <;> simp [Valid, ih] <;> grind

/-- **Lanes partition the input.**  For a valid input index `i`, its kept coordinates `o`
    form a valid output index, its reduced coordinates `r` a valid lane position, and
    `mergeIdx` sends `(o, r)` back to `i`; conversely every valid `(o, r)` merges to a valid
    input index that splits back into `(o, r)`. -/
theorem lanes_partition (axes : List Nat) (s : Shape) :
    (∀ i, Valid s i →
        Valid (dropAxes axes s) (dropAxes axes i) ∧ Valid (keepAxes axes s) (keepAxes axes i) ∧
        mergeIdx axes s.length 0 (dropAxes axes i) (keepAxes axes i) = i) ∧
    (∀ o r, Valid (dropAxes axes s) o → Valid (keepAxes axes s) r →
        Valid s (mergeIdx axes s.length 0 o r) ∧
        dropAxes axes (mergeIdx axes s.length 0 o r) = o ∧
        keepAxes axes (mergeIdx axes s.length 0 o r) = r) := by
  have vlen : ∀ (s : Shape) (i : Index), Valid s i → s.length = i.length := by
    intro s
    induction s with
    | nil => intro i h; cases i <;> simp_all [Valid]
    | cons n s ih => intro i h; cases i with
      | nil => simp [Valid] at h
      | cons a i => simp [ih i h.2]
  simp only [dropAxes_eq, keepAxes_eq]
  refine ⟨?_, ?_⟩
  · intro i hi
    have hl := vlen s i hi
    have := (valid_split axes s i 0 hl).1 hi
    refine ⟨this.1, this.2, ?_⟩
    rw [hl]; exact merge_split axes i 0
  · intro o r ho hr
    have lo := vlen _ _ ho
    have lr := vlen _ _ hr
    rw [length_dropFrom] at lo
    rw [length_keepFrom] at lr
    obtain ⟨hlen, hd, hk⟩ := split_merge axes s.length 0 o r lo.symm lr.symm
    refine ⟨?_, hd, hk⟩
    rw [valid_split axes s _ 0 hlen.symm, hd, hk]
    exact ⟨ho, hr⟩

/-- every element of a lane is an element of the input at a valid index -/
theorem lane_mem {β} (a : Arr β) (axes : List Nat) (o : Index)
    (ho : Valid (dropAxes axes a.shape) o) :
    ∀ x ∈ a.lane axes o, ∃ i, Valid a.shape i ∧ dropAxes axes i = o ∧ a.get i = x := by
  intro x hx
  simp only [Arr.lane, List.mem_map] at hx
  obtain ⟨r, hr, rfl⟩ := hx
  have hr' := (mem_indices _ r).1 hr
  obtain ⟨hv, hd, _⟩ := (lanes_partition axes a.shape).2 o r ho hr'
  exact ⟨_, hv, hd, rfl⟩

/-- every input element appears in the lane of its kept coordinates -/
theorem mem_lane {β} (a : Arr β) (axes : List Nat) (i : Index) (hi : Valid a.shape i) :
    a.get i ∈ a.lane axes (dropAxes axes i) := by
  obtain ⟨_, hk, hm⟩ := (lanes_partition axes a.shape).1 i hi
  simp only [Arr.lane, List.mem_map]
  exact ⟨keepAxes axes i, (mem_indices _ _).2 hk, by rw [hm]⟩

/-- a lane has as many entries as the product of the reduced axis lengths -/
theorem length_lane {β} (a : Arr β) (axes : List Nat) (o : Index) :
    (a.lane axes o).length = size (keepAxes axes a.shape) := by
  simp [Arr.lane, length_indices]

end PMV
