import PMV.Lemmas.PickleObj
/-
  States written before the dtype was recorded in the ('INT', shape) step are still decoded
  as before (native int).  Core Lean only.
-/
namespace PMV.Pickle
open PMV

/-- every INT step of the list names the native dtype (or none) -/
def NativeSteps (steps : List VStep) : Prop :=
  ∀ v dt, VStep.int v dt ∈ steps → dt = some (8, IntFmt.native) ∨ dt = none

theorem decodeValsLoop_legacy (P : Params) (s s' : St) (am : Option (List Bool))
    (h1 : s'.numer = s.numer) (h2 : s'.denom = s.denom) (h3 : s'.shape = s.shape)
    (h4 : s'.default = s.default) (h5 : s'.kind = s.kind) :
    ∀ (steps : List VStep) (v : PV) (viw : Bool), NativeSteps steps →
      decodeValsLoop P s' am (steps.map VStep.legacy) v viw = decodeValsLoop P s am steps v viw := by
  intro steps
  induction steps with
  | nil => intro v viw _; cases v <;> rfl
  | cons st rest ih =>
    intro v viw hn
    have hrest : NativeSteps rest := fun v dt hm => hn v dt (List.mem_cons_of_mem _ hm)
    cases st with
    | allMasked => simp only [List.map_cons, VStep.legacy, decodeValsLoop, h1, h2, h3, h4, h5, ih _ _ hrest]
    | antimasked =>
      cases v <;> simp only [List.map_cons, VStep.legacy, decodeValsLoop]
      cases am with
      | none => rfl
      | some a => simp only [h1, h2, h3, h4, ih _ _ hrest]
    | float d =>
      cases v <;> simp only [List.map_cons, VStep.legacy, decodeValsLoop, ih _ _ hrest]
    | bool vs sz =>
      cases v <;> simp only [List.map_cons, VStep.legacy, decodeValsLoop, h1, h2, ih _ _ hrest]
    | int vs dt =>
      have hdt := hn vs dt (by simp)
      cases v <;> simp only [List.map_cons, VStep.legacy, decodeValsLoop]
      rcases hdt with hdt | hdt <;> subst hdt <;>
        simp only [Option.getD_some, Option.getD_none, h1, h2] <;>
        split <;> first | exact ih _ _ hrest | rfl

theorem setstate1_legacy (P : Params) (s : St) (hn : NativeSteps s.valsEnc) :
    setstate1 P s.legacy = setstate1 P s := by
  have hrev : NativeSteps s.valsEnc.reverse := fun v dt hm => hn v dt (List.mem_reverse.mp hm)
  have hdec : ∀ am v viw, decodeValsLoop P s.legacy am (s.valsEnc.reverse.map VStep.legacy) v viw
      = decodeValsLoop P s am s.valsEnc.reverse v viw :=
    fun am v viw => decodeValsLoop_legacy P s s.legacy am rfl rfl rfl rfl rfl _ v viw hrev
  unfold setstate1
  simp only [show s.legacy.shape = s.shape from rfl, show s.legacy.maskEnc = s.maskEnc from rfl,
    show s.legacy.mask = s.mask from rfl, show s.legacy.valsEnc = s.valsEnc.map VStep.legacy from rfl,
    show s.legacy.vals = s.vals from rfl, show s.legacy.cls = s.cls from rfl,
    show s.legacy.numer = s.numer from rfl, show s.legacy.denom = s.denom from rfl,
    show s.legacy.kind = s.kind from rfl, show s.legacy.units = s.units from rfl,
    show s.legacy.readonly = s.readonly from rfl, show s.legacy.default = s.default from rfl,
    show s.legacy.digits = s.digits from rfl, ← List.map_reverse, List.isEmpty_map, hdec]

theorem valueStep_native (P : Params) (dt : DType) (d : Digits) (fails : Bool) (vs : Shape) (items : List Item)
    (h : ∀ w sg, dt = .int w sg → w = 8 ∧ sg = IntFmt.native) : NativeSteps (valueStep P dt d fails vs items).1 := by
  intro v dd hm
  cases dt with
  | float => simp [valueStep] at hm
  | bool => simp [valueStep] at hm
  | int w sg =>
    obtain ⟨rfl, rfl⟩ := h w sg rfl
    simp [valueStep] at hm
    left; exact hm.2

theorem getstate1_native (P : Params) (q : Obj) (h : ∀ w sg, q.dtype = .int w sg → w = 8 ∧ sg = IntFmt.native) :
    NativeSteps (getstate1 P q).1.valsEnc := by
  unfold getstate1
  cases q.vals with
  | single x => intro v dt hm; simp [Obj.toSt] at hm
  | array vs items =>
    simp only
    split
    · intro v dt hm; simp [Obj.toSt] at hm
    · split
      · intro v dt hm
        exact valueStep_native P q.dtype _ _ _ _ h v dt (by simpa [Obj.toSt] using hm)
      · intro v dt hm
        simp only [Obj.toSt, List.mem_cons] at hm
        rcases hm with hm | hm
        · cases hm
        · exact valueStep_native P q.dtype _ _ _ _ h v dt hm

end PMV.Pickle
