import PMV.Lemmas.ReadOnlyObj
/-
  Helper lemmas for C08: the invariant of the property's anchor ("flag True implies arrays not writeable") together with
  the well-formedness it needs (array and object handles are valid, a stored derivative / cached wod is a younger object
  than its owner), preserved by every piece of the model.  Core Lean only.
-/
namespace PMV.ReadOnly

def valNW (s : State) : Val → Prop
  | .sc _ => True
  | .arr a => s.arrW a = false

def mskNW (s : State) : Msk → Prop
  | .sc _ => True
  | .arr a => s.arrW a = false

/-- the invariant of the property's anchor: flag True implies arrays not writeable -/
def Agrees (s : State) (o : Obj) : Prop := o.ro = true → valNW s o.vals ∧ mskNW s o.mask

def valOK (s : State) : Val → Prop
  | .sc _ => True
  | .arr a => a < s.arrs.length

def mskOK (s : State) : Msk → Prop
  | .sc _ => True
  | .arr a => a < s.arrs.length

structure ObjA (s : State) (i : Nat) (o : Obj) : Prop where
  vok : valOK s o.vals
  mok : mskOK s o.mask
  dlt : ∀ kd ∈ o.derivs, i < kd.2 ∧ kd.2 < s.objs.length
  wlt : ∀ w, o.wodc = some w → i < w ∧ w < s.objs.length
  agr : Agrees s o

def InvA (s : State) : Prop := ∀ (i : Nat) (o : Obj), s.objs[i]? = some o → ObjA s i o

/-! ### flags of arrays -/

theorem arrW_freeze_self (s : State) (a : Nat) : (s.freeze a).arrW a = false := by
  simp only [State.arrW, State.freeze, getElem?_upd, if_true]
  cases s.arrs[a]? <;> simp

theorem arrW_freeze_keep (s : State) (a b : Nat) (h : s.arrW a = false) : (s.freeze b).arrW a = false := by
  unfold State.arrW at h ⊢
  unfold State.freeze
  simp only [getElem?_upd]
  by_cases hb : b = a
  · subst hb; cases hx : s.arrs[b]? <;> simp
  · simp only [hb, if_false]; exact h

theorem valNW_freezeV (s : State) (v : Val) : valNW (s.freezeV v) v := by
  cases v <;> simp [valNW, State.freezeV, arrW_freeze_self]

theorem mskNW_freezeM (s : State) (m : Msk) : mskNW (s.freezeM m) m := by
  cases m <;> simp [mskNW, State.freezeM, arrW_freeze_self]

theorem valNW_freezeM (s : State) (v : Val) (m : Msk) (h : valNW s v) : valNW (s.freezeM m) v := by
  cases v <;> cases m <;> simp_all [valNW, State.freezeM, arrW_freeze_keep]

theorem frozen_pair (s : State) (v : Val) (m : Msk) :
    valNW ((s.freezeV v).freezeM m) v ∧ mskNW ((s.freezeV v).freezeM m) m :=
  ⟨valNW_freezeM _ _ _ (valNW_freezeV _ _), mskNW_freezeM _ _⟩

theorem Ext.arrs_lt {s s' : State} (h : Ext s s') {a : Nat} (ha : a < s.arrs.length) : a < s'.arrs.length := by
  obtain ⟨x', hx', _⟩ := h.arr a s.arrs[a] (by simp [ha])
  exact (List.getElem?_eq_some_iff.mp hx').1

theorem Ext.arrW_keep {s s' : State} (h : Ext s s') {a : Nat} (ha : a < s.arrs.length) (hw : s.arrW a = false) :
    s'.arrW a = false := by
  have hx : s.arrs[a]? = some s.arrs[a] := by simp [ha]
  obtain ⟨x', hx', _, _, hw'⟩ := h.arr a s.arrs[a] hx
  simp only [State.arrW, hx] at hw
  simp only [State.arrW, hx']
  exact hw' hw

theorem valOK_mono {s s' : State} (h : Ext s s') {v : Val} (hv : valOK s v) : valOK s' v := by
  cases v with
  | sc _ => trivial
  | arr a => exact h.arrs_lt hv

theorem mskOK_mono {s s' : State} (h : Ext s s') {v : Msk} (hv : mskOK s v) : mskOK s' v := by
  cases v with
  | sc _ => trivial
  | arr a => exact h.arrs_lt hv

theorem valNW_mono {s s' : State} (h : Ext s s') {v : Val} (hv : valOK s v) (hn : valNW s v) : valNW s' v := by
  cases v with
  | sc _ => trivial
  | arr a => exact h.arrW_keep hv hn

theorem mskNW_mono {s s' : State} (h : Ext s s') {v : Msk} (hv : mskOK s v) (hn : mskNW s v) : mskNW s' v := by
  cases v with
  | sc _ => trivial
  | arr a => exact h.arrW_keep hv hn

/-! ### the three ways a state changes -/

/-- only arrays / buffers changed -/
theorem ObjA.arrays {s s' : State} {i : Nat} {o : Obj} (h : ObjA s i o) (he : Ext s s')
    (hl : s'.objs.length = s.objs.length) : ObjA s' i o :=
  ⟨valOK_mono he h.vok, mskOK_mono he h.mok, fun kd hk => by rw [hl]; exact h.dlt kd hk,
   fun w hw => by rw [hl]; exact h.wlt w hw,
   fun hr => ⟨valNW_mono he h.vok (h.agr hr).1, mskNW_mono he h.mok (h.agr hr).2⟩⟩

theorem invA_arrays {s s' : State} (h : InvA s) (he : Ext s s') (ho : s'.objs = s.objs) : InvA s' := by
  intro i o hio
  rw [ho] at hio
  exact (h i o hio).arrays he (by rw [ho])

/-- a new object without derivatives and without cache -/
theorem invA_allocObj {s : State} (h : InvA s) (o : Obj) (hd : o.derivs = []) (hw : o.wodc = none)
    (hv : valOK s o.vals) (hm : mskOK s o.mask) (ha : Agrees s o) : InvA (s.allocObj o).2 := by
  intro i x hx
  simp only [State.allocObj, List.getElem?_append] at hx
  have hE : Ext s (s.allocObj o).2 := ext_allocObj s o
  have hlen : (s.allocObj o).2.objs.length = s.objs.length + 1 := by simp [State.allocObj]
  split at hx
  · have hx0 := h i x hx
    exact ⟨hx0.vok, hx0.mok, fun kd hk => ⟨(hx0.dlt kd hk).1, by rw [hlen]; exact Nat.lt_succ_of_lt (hx0.dlt kd hk).2⟩,
      fun w hw' => ⟨(hx0.wlt w hw').1, by rw [hlen]; exact Nat.lt_succ_of_lt (hx0.wlt w hw').2⟩, hx0.agr⟩
  · cases hh : i - s.objs.length with
    | zero =>
      simp [hh] at hx; subst hx
      exact ⟨hv, hm, by simp [hd], by simp [hw], ha⟩
    | succ m => simp [hh] at hx

/-- an update of one object -/
theorem invA_setObj {s : State} (h : InvA s) (i : Nat) (f : Obj → Obj)
    (hf : ∀ o, s.objs[i]? = some o → ObjA s i (f o)) : InvA (s.setObj i f) := by
  intro j x hx
  have hl : (s.setObj i f).objs.length = s.objs.length := by simp [State.setObj, length_upd]
  have hE : Ext s (s.setObj i f) := ext_setObj s i f
  simp only [State.setObj, getElem?_upd] at hx
  by_cases hij : i = j
  · subst hij
    simp only [if_true] at hx
    cases ho : s.objs[i]? with
    | none => simp [ho] at hx
    | some o =>
      simp [ho] at hx; subst hx
      exact (hf o ho).arrays hE hl
  · simp only [hij, if_false] at hx
    exact (h j x hx).arrays hE hl

/-- an update that only clears the cache -/
theorem ObjA.clearCache {s : State} {i : Nat} {o : Obj} (h : ObjA s i o) : ObjA s i { o with wodc := none } :=
  ⟨h.vok, h.mok, h.dlt, by simp, h.agr⟩

theorem mem_setKey {l : List (Nat × Nat)} {k d : Nat} {kd : Nat × Nat} (h : kd ∈ setKey l k d) :
    kd ∈ l ∨ kd = (k, d) := by
  induction l with
  | nil => simp [setKey] at h; exact Or.inr h
  | cons x xs ih =>
    obtain ⟨k', d'⟩ := x
    simp only [setKey] at h
    split at h
    · cases List.mem_cons.mp h with
      | inl h1 => exact Or.inr h1
      | inr h1 => exact Or.inl (List.mem_cons_of_mem _ h1)
    · cases List.mem_cons.mp h with
      | inl h1 => exact Or.inl (h1 ▸ List.mem_cons_self ..)
      | inr h1 =>
        cases ih h1 with
        | inl h2 => exact Or.inl (List.mem_cons_of_mem _ h2)
        | inr h2 => exact Or.inr h2

theorem invA_foldl {α : Type} (f : State → α → State) (hf : ∀ s x, InvA s → InvA (f s x)) (l : List α) (s : State)
    (h : InvA s) : InvA (l.foldl f s) := by
  induction l generalizing s with
  | nil => exact h
  | cons x xs ih => exact ih _ (hf s x h)

/-! ### lengths -/

theorem len_asRO0 (s : State) (i : Nat) : (asRO0 s i).objs.length = s.objs.length := by
  unfold asRO0
  split
  · split
    · rfl
    · simp [State.setObj, length_upd, objs_freezeM, objs_freezeV]
  · rfl

theorem len_foldl {α : Type} (f : State → α → State) (hf : ∀ s x, (f s x).objs.length = s.objs.length) (l : List α)
    (s : State) : (l.foldl f s).objs.length = s.objs.length := by
  induction l generalizing s with
  | nil => rfl
  | cons x xs ih => simp only [List.foldl_cons]; rw [ih, hf]

theorem len_asROf (fuel : Nat) : ∀ (s : State) (i : Nat), (asROf fuel s i).objs.length = s.objs.length := by
  induction fuel with
  | zero => intro s i; rfl
  | succ n ih =>
    intro s i
    unfold asROf
    split
    · split
      · rfl
      · dsimp only
        rw [len_foldl _ (fun s (kd : Nat × Nat) => ih s kd.2)]
        split
        · rw [ih, len_asRO0]
        · rw [len_asRO0]
    · rfl

theorem len_asRO (s : State) (i : Nat) (r : Bool) : (asRO s i r).objs.length = s.objs.length := len_asROf _ _ _

/-! ### as_readonly -/

theorem invA_asRO0 {s : State} (h : InvA s) (i : Nat) : InvA (asRO0 s i) := by
  unfold asRO0
  split
  · rename_i o ho
    split
    · exact h
    · have hobjs : ((s.freezeV o.vals).freezeM o.mask).objs = s.objs := by rw [objs_freezeM, objs_freezeV]
      have hE : Ext s ((s.freezeV o.vals).freezeM o.mask) := (ext_freezeV _ _).trans (ext_freezeM _ _)
      have h2 : InvA ((s.freezeV o.vals).freezeM o.mask) := invA_arrays h hE hobjs
      refine invA_setObj h2 i _ ?_
      intro o' ho'
      rw [hobjs, ho] at ho'
      cases ho'
      have hb := h2 i o (by rw [hobjs]; exact ho)
      exact ⟨hb.vok, hb.mok, hb.dlt, hb.wlt, fun _ => frozen_pair s o.vals o.mask⟩
  · exact h

theorem invA_asROf (fuel : Nat) : ∀ (s : State) (i : Nat), InvA s → InvA (asROf fuel s i) := by
  induction fuel with
  | zero => intro s i h; exact h
  | succ n ih =>
    intro s i h
    unfold asROf
    split
    · split
      · exact h
      · dsimp only
        refine invA_foldl _ (fun s (kd : Nat × Nat) hs => ih s kd.2 hs) _ _ ?_
        split
        · exact ih _ _ (invA_asRO0 h i)
        · exact invA_asRO0 h i
    · exact h

theorem invA_asRO {s : State} (h : InvA s) (i : Nat) (r : Bool) : InvA (asRO s i r) := invA_asROf _ _ _ h

/-! ### new arrays are valid handles -/

theorem freshArr_ok (s : State) (n : Nat) (w : Bool) : (s.freshArr n w).1 < (s.freshArr n w).2.arrs.length := by
  simp [State.freshArr, State.allocArr, State.allocBuf, State.stamps]

theorem viewOf_ok (s : State) (a : Nat) (idx : List Nat) (f : Bool) :
    (s.viewOf a idx f).1 < (s.viewOf a idx f).2.arrs.length := by
  unfold State.viewOf; split <;> simp [State.allocArr]

theorem copyOf_ok (s : State) (a : Nat) (idx : List Nat) : (s.copyOf a idx).1 < (s.copyOf a idx).2.arrs.length := by
  simp [State.copyOf, State.allocArr, State.allocBuf]

theorem deriveVals_ok (s : State) (v : Val) (m : Mode) (idx : List Nat) :
    valOK (deriveVals s v m idx).2 (deriveVals s v m idx).1 := by
  unfold deriveVals
  cases v with
  | sc st => cases m <;> simp [valOK, State.allocArr, State.allocBuf]
  | arr a =>
    cases m <;> simp only [valOK] <;> first | exact viewOf_ok _ _ _ _ | exact copyOf_ok _ _ _ | trivial

theorem deriveMask_ok (s : State) (v : Msk) (m : Mode) (idx : List Nat) (hv : mskOK s v) :
    mskOK (deriveMask s v m idx).2 (deriveMask s v m idx).1 := by
  unfold deriveMask
  cases v with
  | sc b => trivial
  | arr a =>
    cases m <;> simp only [mskOK] <;> first | exact viewOf_ok _ _ _ _ | exact copyOf_ok _ _ _ | exact hv | trivial

theorem deriveMaskSel_ok (s : State) (v : Msk) (m : Mode) (sel : Sel) (hv : mskOK s v) :
    mskOK (deriveMaskSel s v m sel).2 (deriveMaskSel s v m sel).1 := by
  unfold deriveMaskSel
  split
  · trivial
  · exact deriveMask_ok _ _ _ _ hv

theorem copyVals_ok (s : State) (v : Val) : valOK (copyVals s v).2 (copyVals s v).1 := by
  cases v with
  | sc _ => trivial
  | arr a => exact copyOf_ok _ _ _

theorem copyMask_ok (s : State) (v : Msk) : mskOK (copyMask s v).2 (copyMask s v).1 := by
  cases v with
  | sc _ => trivial
  | arr a => exact copyOf_ok _ _ _

theorem negVals_ok (s : State) (v : Val) : valOK (negVals s v).2 (negVals s v).1 := by
  cases v with
  | sc _ => trivial
  | arr a => exact freshArr_ok _ _ _

/-! ### composites -/

theorem invA_cloneNR {s : State} (h : InvA s) (i : Nat) : InvA (cloneNR s i).2 := by
  unfold cloneNR
  split
  · rename_i o ho
    have hb := h i o ho
    exact invA_allocObj h _ rfl rfl hb.vok hb.mok hb.agr
  · exact h

theorem invA_initObj {s : State} (h : InvA s) (v : Val) (m : Msk) (ex : Obj) : InvA (s.initObj v m ex).2 :=
  invA_arrays h (ext_initObj _ _ _ _) (objs_initObj _ _ _ _)

theorem invA_wodOf {s : State} (h : InvA s) (i : Nat) : InvA (wodOf s i).2 := by
  unfold wodOf
  split
  · rename_i o ho
    split
    · exact h
    · split
      · exact h
      · dsimp only
        have hb := h i o ho
        have hE : Ext s (s.initObj o.vals o.mask o).2 := ext_initObj _ _ _ _
        have h1 : InvA (s.initObj o.vals o.mask o).2 := invA_initObj h _ _ _
        have hlen : (s.initObj o.vals o.mask o).2.objs.length = s.objs.length := by rw [objs_initObj]
        have hb1 := h1 i o (by rw [objs_initObj]; exact ho)
        have h2 : InvA ((s.initObj o.vals o.mask o).2.allocObj
            { (s.initObj o.vals o.mask o).1 with ro := o.ro }).2 :=
          invA_allocObj h1 _ (by simp [State.initObj]) (by simp [State.initObj])
            (by simpa [State.initObj] using hb1.vok) (by simpa [State.initObj] using hb1.mok)
            (by intro hr; simpa [State.initObj] using hb1.agr hr)
        refine invA_setObj h2 i _ ?_
        intro o' ho'
        have hb2 := h2 i o' ho'
        refine ⟨hb2.vok, hb2.mok, hb2.dlt, ?_, hb2.agr⟩
        intro w hw
        simp at hw
        subst hw
        have hi : i < s.objs.length := (List.getElem?_eq_some_iff.mp ho).1
        constructor
        · rw [hlen]; exact hi
        · simp [State.allocObj]
  · exact h

theorem wodOf_lt {s : State} (h : InvA s) (d : Nat) (hd : d < s.objs.length) :
    (wodOf s d).1 < (wodOf s d).2.objs.length := by
  unfold wodOf
  split
  · rename_i o ho
    split
    · exact hd
    · split
      · rename_i w hw
        exact ((h d o ho).wlt w hw).2
      · dsimp only
        simp [State.setObj, length_upd, State.allocObj]
  · exact hd

theorem matchReadonly_fst (s : State) (p : Bool) (d : Nat) (hd : d < s.objs.length) :
    (matchReadonly s p d).1 = s.objs.length ∧ (matchReadonly s p d).2.objs.length = s.objs.length + 1 := by
  have ho : s.objs[d]? = some s.objs[d] := by simp [hd]
  have hc1 : (cloneNR s d).1 = s.objs.length := cloneNR_fst s d _ ho
  have hc2 : (cloneNR s d).2.objs.length = s.objs.length + 1 := by simp [cloneNR, ho, State.allocObj]
  unfold matchReadonly
  simp only
  split <;> split <;> (try dsimp only) <;> (try rw [len_asRO]) <;> exact ⟨hc1, hc2⟩

theorem invA_matchReadonly {s : State} (h : InvA s) (p : Bool) (d : Nat) : InvA (matchReadonly s p d).2 := by
  unfold matchReadonly
  simp only
  split <;> split <;> (try dsimp only) <;>
    first | exact invA_asRO (invA_cloneNR h _) _ _ | exact invA_cloneNR h _

theorem invA_insertDeriv {s : State} (h : InvA s) (i k d : Nat) (ov : Bool) : InvA (insertDeriv s i k d ov).1 := by
  unfold insertDeriv
  split
  · rename_i o od ho hod
    split
    · exact h
    · split
      · exact h
      · have hi : i < s.objs.length := (List.getElem?_eq_some_iff.mp ho).1
        have hd : d < s.objs.length := (List.getElem?_eq_some_iff.mp hod).1
        have h1 : InvA (wodOf s d).2 := invA_wodOf h d
        have hw := wodOf_lt h d hd
        have hl1 : s.objs.length ≤ (wodOf s d).2.objs.length := (oext_wodOf (fun _ => True) s d).len
        obtain ⟨hc1, hc2⟩ := matchReadonly_fst (wodOf s d).2 o.ro (wodOf s d).1 hw
        have h2 : InvA (matchReadonly (wodOf s d).2 o.ro (wodOf s d).1).2 := invA_matchReadonly h1 _ _
        refine invA_setObj h2 i _ ?_
        intro o' ho'
        have hb := h2 i o' ho'
        refine ⟨hb.vok, hb.mok, ?_, by simp, hb.agr⟩
        intro kd hkd
        cases mem_setKey hkd with
        | inl hold => exact hb.dlt kd hold
        | inr hnew =>
          subst hnew
          dsimp only
          rw [hc1, hc2]
          exact ⟨Nat.lt_of_lt_of_le hi hl1, Nat.lt_succ_self _⟩
  · exact h

theorem invA_cloneStep (c : Nat) (s : State) (kd : Nat × Nat) (h : InvA s) : InvA (cloneStep c s kd) :=
  invA_insertDeriv (invA_cloneNR h _) _ _ _ _

theorem invA_clone {s : State} (h : InvA s) (i : Nat) (r : Bool) : InvA (clone s i r).2 := by
  unfold clone
  split
  · dsimp only
    split
    · exact invA_foldl _ (invA_cloneStep _) _ _ (invA_cloneNR h _)
    · exact invA_cloneNR h _
  · exact h

theorem invA_freezeSource {s : State} (h : InvA s) (i : Nat) (m : Mode) (v : Val) : InvA (freezeSource s i m v) := by
  unfold freezeSource
  split
  · exact invA_asRO h _ _
  · exact h

theorem invA_finish_aux {s : State} (h : InvA s) (nv : Val) (nm : Msk) (o : Obj) (ro : Bool)
    (hv : valOK s nv) (hm : mskOK s nm) :
    InvA ((if ro then ((s.initObj nv nm o).2.freezeV nv).freezeM nm else (s.initObj nv nm o).2).allocObj
      { (s.initObj nv nm o).1 with ro := ro }).2 := by
  have hE1 : Ext s (s.initObj nv nm o).2 := ext_initObj _ _ _ _
  have h1 : InvA (s.initObj nv nm o).2 := invA_initObj h _ _ _
  have hv1 := valOK_mono hE1 hv
  have hm1 := mskOK_mono hE1 hm
  cases ro with
  | true =>
    simp only [if_true]
    have hE2 : Ext (s.initObj nv nm o).2 (((s.initObj nv nm o).2.freezeV nv).freezeM nm) :=
      (ext_freezeV _ _).trans (ext_freezeM _ _)
    have h2 : InvA (((s.initObj nv nm o).2.freezeV nv).freezeM nm) :=
      invA_arrays h1 hE2 (by rw [objs_freezeM, objs_freezeV])
    exact invA_allocObj h2 _ (by simp [State.initObj]) (by simp [State.initObj])
      (by simpa [State.initObj] using valOK_mono hE2 hv1) (by simpa [State.initObj] using mskOK_mono hE2 hm1)
      (by intro _; simpa [State.initObj] using frozen_pair (s.initObj nv nm o).2 nv nm)
  | false =>
    simp only [Bool.false_eq_true, if_false]
    refine invA_allocObj h1 _ (by simp [State.initObj]) (by simp [State.initObj])
      (by simpa [State.initObj] using hv1) (by simpa [State.initObj] using hm1) ?_
    intro hr
    simp at hr

/-- the object `finishDerived` allocates is fine when the arrays it is given are valid handles -/
theorem invA_finishDerived {s : State} (h : InvA s) (nv : Val) (nm : Msk) (o : Obj) (m : Mode)
    (hv : valOK s nv) (hm : mskOK s nm) : InvA (finishDerived s nv nm o m).2 := by
  unfold finishDerived
  exact invA_finish_aux h nv nm o _ hv hm

theorem invA_derive1 {s : State} (h : InvA s) (i : Nat) (m : Mode) (sel : Sel) : InvA (derive1 s i m sel).2 := by
  unfold derive1
  split
  · rename_i o ho
    dsimp only
    have h0 : InvA (freezeSource s i m o.vals) := invA_freezeSource h _ _ _
    have hl0 : (freezeSource s i m o.vals).objs.length = s.objs.length := by
      unfold freezeSource; split
      · exact len_asRO _ _ _
      · rfl
    -- the source object still exists, with valid arrays
    obtain ⟨o0, ho0, _⟩ := (oext_freezeSource (fun _ => True) s i m o.vals).keep i o ho
    have hm0 : mskOK (freezeSource s i m o.vals) o.mask :=
      mskOK_mono (ext_freezeSource s i m o.vals) (h i o ho).mok
    have h1 : InvA (deriveVals (freezeSource s i m o.vals) o.vals m sel.vidx).2 :=
      invA_arrays h0 (ext_deriveVals _ _ _ _) (objs_deriveVals _ _ _ _)
    have hm1 := mskOK_mono (ext_deriveVals (freezeSource s i m o.vals) o.vals m sel.vidx) hm0
    have h2 : InvA (deriveMaskSel (deriveVals (freezeSource s i m o.vals) o.vals m sel.vidx).2 o.mask m sel).2 :=
      invA_arrays h1 (ext_deriveMaskSel _ _ _ _) (objs_deriveMaskSel _ _ _ _)
    exact invA_finishDerived h2 _ _ _ _
      (valOK_mono (ext_deriveMaskSel _ _ _ _) (deriveVals_ok _ _ _ _)) (deriveMaskSel_ok _ _ _ _ hm1)
  · exact h

theorem invA_deriveStep (c : Nat) (m : Mode) (sel : Sel) (dsel : List (Nat × Sel)) (s : State) (kd : Nat × Nat)
    (h : InvA s) : InvA (deriveStep c m sel dsel s kd) :=
  invA_insertDeriv (invA_derive1 h _ _ _) _ _ _ _

theorem invA_derive {s : State} (h : InvA s) (i : Nat) (m : Mode) (sel : Sel) (r : Bool) (dsel : List (Nat × Sel)) :
    InvA (derive s i m sel r dsel).2 := by
  unfold derive
  split
  · dsimp only
    split
    · exact invA_foldl _ (invA_deriveStep _ _ _ _) _ _ (invA_derive1 h _ _ _)
    · exact invA_derive1 h _ _ _
  · exact h

theorem invA_copyNR {s : State} (h : InvA s) (i : Nat) (ro : Bool) : InvA (copyNR s i ro).2 := by
  unfold copyNR
  split
  · rename_i o ho
    split
    · exact invA_cloneNR h _
    · dsimp only
      have h1 : InvA (copyVals s o.vals).2 := invA_arrays h (ext_copyVals _ _) (objs_copyVals _ _)
      have h2 : InvA (copyMask (copyVals s o.vals).2 o.mask).2 :=
        invA_arrays h1 (ext_copyMask _ _) (objs_copyMask _ _)
      have h3 := invA_allocObj h2
        { o with vals := (copyVals s o.vals).1, mask := (copyMask (copyVals s o.vals).2 o.mask).1, ro := false,
                 derivs := [], wodc := none } rfl rfl
        (valOK_mono (ext_copyMask _ _) (copyVals_ok _ _)) (copyMask_ok _ _) (by intro hr; simp at hr)
      split
      · exact invA_asRO h3 _ _
      · exact h3
  · exact h

theorem invA_copyStep (c : Nat) (ro : Bool) (s : State) (kd : Nat × Nat) (h : InvA s) : InvA (copyStep c ro s kd) :=
  invA_insertDeriv (invA_copyNR h _ _) _ _ _ _

theorem invA_copy {s : State} (h : InvA s) (i : Nat) (r ro : Bool) : InvA (copy s i r ro).2 := by
  unfold copy
  split
  · dsimp only
    split
    · exact invA_copyNR h _ _
    · split
      · exact invA_foldl _ (invA_copyStep _ _) _ _ (invA_copyNR h _ _)
      · exact invA_copyNR h _ _
  · exact h

theorem invA_negNR {s : State} (h : InvA s) (i : Nat) (u d : Bool) : InvA (negNR s i u d).2 := by
  unfold negNR
  split
  · rename_i o ho
    dsimp only
    have hb := h i o ho
    have h1 : InvA (negVals s o.vals).2 := invA_arrays h (ext_negVals _ _) (objs_negVals _ _)
    split
    · have h2 : InvA (copyMask (negVals s o.vals).2 o.mask).2 :=
        invA_arrays h1 (ext_copyMask _ _) (objs_copyMask _ _)
      exact invA_allocObj h2 _ rfl rfl (valOK_mono (ext_copyMask _ _) (negVals_ok _ _)) (copyMask_ok _ _)
        (by intro hr; simp at hr)
    · exact invA_allocObj h1 _ rfl rfl (negVals_ok _ _) (mskOK_mono (ext_negVals _ _) hb.mok)
        (by intro hr; simp at hr)
  · exact h

theorem invA_negStep (c : Nat) (s : State) (kd : Nat × Nat) (h : InvA s) : InvA (negStep c s kd) :=
  invA_insertDeriv (invA_negNR h _ _ _) _ _ _ _

theorem invA_neg {s : State} (h : InvA s) (i : Nat) (u d : Bool) : InvA (neg s i u d).2 := by
  unfold neg
  split
  · exact invA_foldl _ (invA_negStep _) _ _ (invA_negNR h _ _ _)
  · exact h

theorem decode_ok (s : State) (o : Obj) (mc : MaskClass) (_hv : valOK s o.vals) (hm : mskOK s o.mask) :
    valOK (decode s o mc).2 (decode s o mc).1.1 ∧ mskOK (decode s o mc).2 (decode s o mc).1.2 := by
  unfold decode
  split
  · rename_i st hst
    exact ⟨trivial, hm⟩
  · rename_i a ha
    split
    · exact ⟨freshArr_ok _ _ _, trivial⟩
    · exact ⟨copyOf_ok _ _ _, trivial⟩
    · dsimp only
      split
      · exact ⟨Ext.arrs_lt (ext_copyOf _ _ _) (copyOf_ok _ _ _), copyOf_ok _ _ _⟩
      · exact ⟨copyOf_ok _ _ _, trivial⟩
    · dsimp only
      split
      · exact ⟨Ext.arrs_lt (ext_copyOf _ _ _) (freshArr_ok _ _ _), copyOf_ok _ _ _⟩
      · exact ⟨freshArr_ok _ _ _, trivial⟩

theorem invA_unpickle_aux {s1 : State} (h1 : InvA s1) (o : Obj) (nv : Val) (nm : Msk) (top : Bool)
    (dv : valOK s1 nv) (hnm : mskOK s1 nm) :
    InvA (if top then
        (if o.ro then (s1.freezeV nv).freezeM nm else s1).allocObj
          { o with vals := nv, mask := nm, derivs := [], wodc := none }
      else
        ((s1.allocObj { o with vals := nv, mask := nm, ro := false, derivs := [], wodc := none }).1,
         if o.ro then asRO (s1.allocObj { o with vals := nv, mask := nm, ro := false, derivs := [], wodc := none }).2
            (s1.allocObj { o with vals := nv, mask := nm, ro := false, derivs := [], wodc := none }).1 true
         else (s1.allocObj { o with vals := nv, mask := nm, ro := false, derivs := [], wodc := none }).2)).2 := by
  cases top with
  | true =>
    simp only [if_true]
    by_cases hro : o.ro = true
    · simp only [hro, if_true]
      have hE2 := (ext_freezeV s1 nv).trans (ext_freezeM _ nm)
      have h2 := invA_arrays h1 hE2 (by rw [objs_freezeM, objs_freezeV])
      exact invA_allocObj h2 _ rfl rfl (valOK_mono hE2 dv) (mskOK_mono hE2 hnm) (fun _ => frozen_pair _ _ _)
    · simp only [hro, if_false]
      exact invA_allocObj h1 _ rfl rfl dv hnm (by intro hr; simp at hr)
  | false =>
    simp only [Bool.false_eq_true, if_false]
    have h2 := invA_allocObj h1
      { o with vals := nv, mask := nm, ro := false, derivs := [], wodc := none } rfl rfl dv hnm
      (by intro hr; simp at hr)
    split
    · exact invA_asRO h2 _ _
    · exact h2

theorem invA_unpickleNR {s : State} (h : InvA s) (o : Obj) (mc : MaskClass) (pm : Option Msk) (top : Bool)
    (hv : valOK s o.vals) (hm : mskOK s o.mask) (hpm : ∀ m, pm = some m → mskOK s m) :
    InvA (unpickleNR s o mc pm top).2 := by
  have hE : Ext s (decode s o mc).2 := ext_decode _ _ _
  have h1 : InvA (decode s o mc).2 := invA_arrays h hE (objs_decode _ _ _)
  obtain ⟨dv, dm⟩ := decode_ok s o mc hv hm
  cases pm with
  | some m =>
    unfold unpickleNR
    exact invA_unpickle_aux h1 o _ m top dv (mskOK_mono hE (hpm m rfl))
  | none =>
    unfold unpickleNR
    exact invA_unpickle_aux h1 o _ _ top dv dm

theorem invA_unpickleStep (c : Nat) (pm : Option Msk) (dmc : List (Nat × MaskClass)) (s : State) (kd : Nat × Nat)
    (h : InvA s) (hpm : ∀ m, pm = some m → mskOK s m) : InvA (unpickleStep c pm dmc s kd) := by
  unfold unpickleStep
  split
  · rename_i d hd
    exact invA_insertDeriv (invA_unpickleNR h d _ pm false (h _ d hd).vok (h _ d hd).mok hpm) _ _ _ _
  · exact h

theorem parentMaskOf_ok {s : State} (h : InvA s) (c : Nat) : ∀ m, parentMaskOf s c = some m → mskOK s m := by
  intro m hm
  unfold parentMaskOf at hm
  split at hm
  · rename_i x hx
    split at hm
    · rename_i a ha
      cases hm
      have := (h c x hx).mok
      rw [ha] at this
      exact this
    · cases hm
  · cases hm

/-- a fold whose body keeps `InvA` and extends the state, for a side condition that is monotone under extension -/
theorem invA_foldl_ext {α : Type} (P : State → Prop) (f : State → α → State)
    (hf : ∀ s x, InvA s → P s → InvA (f s x) ∧ P (f s x)) (l : List α) (s : State) (h : InvA s) (hp : P s) :
    InvA (l.foldl f s) := by
  induction l generalizing s with
  | nil => exact h
  | cons x xs ih => exact ih _ (hf s x h hp).1 (hf s x h hp).2

theorem invA_unpickle {s : State} (h : InvA s) (i : Nat) (mc : MaskClass) (dmc : List (Nat × MaskClass)) :
    InvA (unpickle s i mc dmc).2 := by
  unfold unpickle
  split
  · rename_i o ho
    have h1 : InvA (unpickleNR s o mc none true).2 :=
      invA_unpickleNR h o mc none true (h i o ho).vok (h i o ho).mok (by intro m hm; cases hm)
    refine invA_foldl_ext
      (fun st => ∀ m, parentMaskOf (unpickleNR s o mc none true).2 (unpickleNR s o mc none true).1 = some m → mskOK st m)
      _ ?_ _ _ h1 (parentMaskOf_ok h1 _)
    intro st kd hst hp
    refine ⟨invA_unpickleStep _ _ _ _ _ hst hp, ?_⟩
    intro m hm
    exact mskOK_mono (ext_unpickleStep _ _ _ _ _) (hp m hm)
  · exact h

theorem expandMask_ok (s : State) (m : Msk) (mn : Nat) (hm : mskOK s m) :
    mskOK (expandMask s m mn).2 (expandMask s m mn).1 := by
  unfold expandMask
  split
  · exact freshArr_ok _ _ _
  · exact hm

theorem writeMask_ok (s : State) (m : Msk) (mpos : List Nat) (hm : mskOK s m) :
    mskOK (writeMask s m mpos).2 (writeMask s m mpos).1 := by
  unfold writeMask
  split
  · exact Ext.arrs_lt (ext_writeArr _ _ _) (copyOf_ok _ _ _)
  · exact hm

theorem invA_foldl_pair {α β : Type} (f : State × β → α → State × β) (hf : ∀ s x, InvA s.1 → InvA (f s x).1)
    (l : List α) (s : State × β) (h : InvA s.1) : InvA (l.foldl f s).1 := by
  induction l generalizing s with
  | nil => exact h
  | cons x xs ih => exact ih _ (hf s x h)

theorem invA_setItem (fuel : Nat) : ∀ (s : State) (i : Nat) (pos mpos : List Nat) (mn : Nat), InvA s →
    InvA (setItem s i pos mpos mn fuel).1 := by
  induction fuel with
  | zero => intro s i pos mpos mn h; exact h
  | succ n ih =>
    intro s i pos mpos mn h
    unfold setItem
    split
    · exact h
    · rename_i hrw
      have hnr := nonro_of_requireWritable s i hrw
      split
      · rename_i o ho
        split
        · exact h
        · rename_i a _
          split
          · exact h
          · dsimp only
            have hb := h i o ho
            have h1 : InvA (expandMask s o.mask mn).2 :=
              invA_arrays h (ext_expandMask _ _ _) (objs_expandMask _ _ _)
            have h2 : InvA ((expandMask s o.mask mn).2.setObj i fun x =>
                { x with mask := (expandMask s o.mask mn).1 }) := by
              refine invA_setObj h1 i _ ?_
              intro o' ho'
              rw [objs_expandMask, ho] at ho'
              cases ho'
              have hb1 := h1 i o (by rw [objs_expandMask]; exact ho)
              exact ⟨hb1.vok, expandMask_ok _ _ _ hb.mok, hb1.dlt, hb1.wlt,
                fun hr => absurd hr (by simp [hnr o ho])⟩
            split
            · exact invA_arrays h2 (ext_writeArr _ _ _) (objs_writeArr _ _ _)
            · refine invA_foldl_pair _ (fun acc (kd : Nat × Nat) hacc => ?_) _ (_, Res.ok) ?_
              · split
                · exact hacc
                · exact ih _ _ _ _ _ hacc
              · have h3 := invA_arrays h2 (ext_writeArr _ a pos) (objs_writeArr _ a pos)
                have h4 := invA_arrays h3 (ext_writeMask _ (expandMask s o.mask mn).1 mpos) (objs_writeMask _ _ _)
                refine invA_setObj h4 i _ ?_
                intro o' ho'
                have hb4 := h4 i o' ho'
                rw [objs_writeMask, objs_writeArr] at ho'
                simp only [State.setObj, getElem?_upd, if_true, objs_expandMask, ho, Option.map_some] at ho'
                cases ho'
                have hm3 := mskOK_mono ((ext_setObj (expandMask s o.mask mn).2 i fun x =>
                    { x with mask := (expandMask s o.mask mn).1 }).trans (ext_writeArr _ a pos))
                  (expandMask_ok s o.mask mn hb.mok)
                exact ⟨hb4.vok, writeMask_ok _ _ _ hm3, hb4.dlt, by simp,
                  fun hr => absurd hr (by simp [hnr o ho])⟩
      · exact h

theorem invA_zeroDeriv {s : State} (h : InvA s) (n d : Nat) : InvA (zeroDeriv s n d).2 := by
  unfold zeroDeriv
  split
  · have h1 : InvA (s.freshArr n true).2 := invA_arrays h (ext_freshArr _ _ _) (objs_freshArr _ _ _)
    exact invA_allocObj h1 _ rfl rfl (freshArr_ok _ _ _) trivial (by intro hr; simp at hr)
  · exact h

theorem zeroDeriv_fst (s : State) (n d : Nat) (hd : d < s.objs.length) :
    (zeroDeriv s n d).1 = s.objs.length ∧ (zeroDeriv s n d).2.objs.length = s.objs.length + 1 := by
  have ho : s.objs[d]? = some s.objs[d] := by simp [hd]
  simp [zeroDeriv, ho, State.allocObj, objs_freshArr]

theorem invA_setAllStep (i n : Nat) (s : State) (kd : Nat × Nat) (h : InvA s) (hi : i < s.objs.length)
    (hk : kd.2 < s.objs.length) : InvA (setAllStep i n s kd) := by
  unfold setAllStep
  dsimp only
  obtain ⟨hz1, hz2⟩ := zeroDeriv_fst s n kd.2 hk
  have h1 := invA_zeroDeriv h n kd.2
  refine invA_setObj h1 i _ ?_
  intro o' ho'
  have hb := h1 i o' ho'
  refine ⟨hb.vok, hb.mok, ?_, by simp, hb.agr⟩
  intro x hx
  cases mem_setKey hx with
  | inl hold => exact hb.dlt x hold
  | inr hnew =>
    subst hnew
    dsimp only
    rw [hz1, hz2]
    exact ⟨hi, Nat.lt_succ_self _⟩

theorem invA_setAll {s : State} (h : InvA s) (i : Nat) : InvA (setAll s i).1 := by
  unfold setAll
  split
  · exact h
  · rename_i hrw
    have hnr := nonro_of_requireWritable s i hrw
    split
    · rename_i o ho
      split
      · exact h
      · rename_i a ha
        split
        · exact h
        · have hb := h i o ho
          have hi : i < s.objs.length := (List.getElem?_eq_some_iff.mp ho).1
          have h1 : InvA (s.freshArr (allPos s a).length true).2 :=
            invA_arrays h (ext_freshArr _ _ _) (objs_freshArr _ _ _)
          have h2 : InvA ((s.freshArr (allPos s a).length true).2.setObj i fun x =>
              { x with vals := .arr (s.freshArr (allPos s a).length true).1, mask := .sc false, wodc := none }) := by
            refine invA_setObj h1 i _ ?_
            intro o' ho'
            rw [objs_freshArr, ho] at ho'
            cases ho'
            have hb1 := h1 i o (by rw [objs_freshArr]; exact ho)
            exact ⟨freshArr_ok _ _ _, trivial, hb1.dlt, by simp, fun hr => absurd hr (by simp [hnr o ho])⟩
          -- the derivative handles stay valid along the fold
          have hlen2 : ((s.freshArr (allPos s a).length true).2.setObj i fun x =>
              { x with vals := .arr (s.freshArr (allPos s a).length true).1, mask := .sc false,
                       wodc := none }).objs.length = s.objs.length := by
            simp [State.setObj, length_upd, objs_freshArr]
          have key : ∀ (l : List (Nat × Nat)) (st : State), InvA st → s.objs.length ≤ st.objs.length →
              (∀ kd ∈ l, kd.2 < s.objs.length) →
              InvA (l.foldl (setAllStep i (allPos s a).length) st) := by
            intro l
            induction l with
            | nil => intro st hst _ _; exact hst
            | cons x xs ih =>
              intro st hst hle hl
              simp only [List.foldl_cons]
              refine ih _ (invA_setAllStep i _ st x hst (Nat.lt_of_lt_of_le hi hle)
                (Nat.lt_of_lt_of_le (hl x (List.mem_cons_self ..)) hle)) ?_ ?_
              · exact Nat.le_trans hle (by
                  unfold setAllStep
                  simp only [State.setObj, length_upd]
                  exact (oext_zeroDeriv (fun _ => True) st _ _).len)
              · intro kd hkd; exact hl kd (List.mem_cons_of_mem _ hkd)
          exact key _ _ h2 (by rw [hlen2]; exact Nat.le_refl _) (fun kd hkd => (hb.dlt kd hkd).2)
    · exact h

theorem invA_iop {s : State} (h : InvA s) (i : Nat) (fast un : Bool) : InvA (iop s i fast un).1 := by
  unfold iop
  split
  · exact h
  · split
    · exact h
    · rename_i hrw
      have hnr := nonro_of_requireWritable s i hrw
      split
      · rename_i o ho
        split
        · refine invA_setObj (invA_arrays h (ext_stamps _ _) (objs_stamps _ _)) i _ ?_
          intro o' ho'
          rw [objs_stamps, ho] at ho'
          cases ho'
          have hb := h i o ho
          exact ⟨trivial, hb.mok, hb.dlt, by simp, fun hr => absurd hr (by simp [hnr o ho])⟩
        · rename_i a _
          dsimp only
          have h1 := invA_arrays h (ext_writeArr s a (allPos s a)) (objs_writeArr _ _ _)
          split
          · exact h1
          · split
            · exact invA_setObj h1 i _ (fun o' ho' => (h1 i o' ho').clearCache)
            · refine invA_setObj (invA_foldl _ (fun st (kd : Nat × Nat) hst => invA_insertDeriv hst _ _ _ _) _ _ h1)
                i _ (fun o' ho' => ObjA.clearCache ?_)
              exact invA_foldl _ (fun st (kd : Nat × Nat) hst => invA_insertDeriv hst _ _ _ _) _ _ h1 i o' ho'
      · exact h

theorem invA_setUnits {s : State} (h : InvA s) (i u : Nat) (ov : Bool) : InvA (setUnits s i u ov).1 := by
  unfold setUnits
  split
  · split
    · exact h
    · split
      · exact h
      · refine invA_setObj h i _ (fun o' ho' => ?_)
        have hb := h i o' ho'
        exact ⟨hb.vok, hb.mok, hb.dlt, by simp, hb.agr⟩
  · exact h

theorem invA_deleteDeriv {s : State} (h : InvA s) (i k : Nat) (ov : Bool) : InvA (deleteDeriv s i k ov).1 := by
  unfold deleteDeriv
  split
  · exact h
  · split
    · refine invA_setObj h i _ (fun o' ho' => ?_)
      have hb := h i o' ho'
      exact ⟨hb.vok, hb.mok, fun kd hkd => hb.dlt kd (List.mem_filter.mp hkd).1, by simp, hb.agr⟩
    · exact h

theorem invA_deleteDerivs {s : State} (h : InvA s) (i : Nat) (ov : Bool) : InvA (deleteDerivs s i ov).1 := by
  unfold deleteDerivs
  split
  · exact h
  · split
    · refine invA_setObj h i _ (fun o' ho' => ?_)
      have hb := h i o' ho'
      exact ⟨hb.vok, hb.mok, by simp, by simp, hb.agr⟩
    · exact h

theorem invA_insertDerivs {s : State} (h : InvA s) (i : Nat) (kds : List (Nat × Nat)) (ov : Bool) :
    InvA (insertDerivs s i kds ov).1 := by
  unfold insertDerivs
  split
  · split
    · exact h
    · refine invA_foldl_pair _ (fun acc (kd : Nat × Nat) hacc => ?_) _ (s, Res.ok) h
      split
      · exact hacc
      · exact invA_insertDeriv hacc _ _ _ _
  · exact h

theorem invA_mkObj {s : State} (h : InvA s) (n mn : Nat) (mask : Option Bool) (u d : Bool) :
    InvA (mkObj s n mn mask u d).2 := by
  unfold mkObj
  dsimp only
  have h1 : InvA (s.freshArr n true).2 := invA_arrays h (ext_freshArr _ _ _) (objs_freshArr _ _ _)
  cases mask with
  | some b =>
    exact invA_allocObj h1 _ rfl rfl (freshArr_ok _ _ _) trivial (by intro hr; simp at hr)
  | none =>
    have h2 : InvA ((s.freshArr n true).2.freshArr mn true).2 :=
      invA_arrays h1 (ext_freshArr _ _ _) (objs_freshArr _ _ _)
    exact invA_allocObj h2 _ rfl rfl (Ext.arrs_lt (ext_freshArr _ _ _) (freshArr_ok _ _ _)) (freshArr_ok _ _ _)
      (by intro hr; simp at hr)

theorem invA_mkScalar {s : State} (h : InvA s) (m u d : Bool) : InvA (mkScalar s m u d).2 :=
  invA_allocObj (invA_arrays h (ext_stamps _ _) (objs_stamps _ _)) _ rfl rfl trivial trivial (by intro hr; simp at hr)

/-- every call of the alphabet keeps the invariant -/
theorem invA_step {s : State} (h : InvA s) (op : Op) : InvA (step s op).1 := by
  cases op <;> simp only [step, objRes]
  case mk => exact invA_mkObj h _ _ _ _ _
  case mks => exact invA_mkScalar h _ _ _
  case derive => split <;> first | exact invA_derive h _ _ _ _ _ | exact h
  case wod => split <;> first | exact invA_wodOf h _ | exact h
  case clone => split <;> first | exact invA_clone h _ _ | exact h
  case copy => split <;> first | exact invA_copy h _ _ _ | exact h
  case neg => split <;> first | exact invA_neg h _ _ _ | exact h
  case pickle => split <;> first | exact invA_unpickle h _ _ _ | exact h
  case getDeriv => split <;> (try split) <;> exact h
  case rawRef => split <;> first | exact invA_arrays h (Ext.of_same rfl rfl) rfl | exact h
  case rawView =>
    split
    · exact invA_arrays (invA_arrays h (ext_viewOf _ _ _ _) (objs_viewOf _ _ _ _)) (Ext.of_same rfl rfl) rfl
    · exact h
  case setItem => exact invA_setItem _ _ _ _ _ _ h
  case setAll => exact invA_setAll h _
  case iop => exact invA_iop h _ _ _
  case setUnits => exact invA_setUnits h _ _ _
  case deleteDeriv => exact invA_deleteDeriv h _ _ _
  case deleteDerivs => exact invA_deleteDerivs h _ _
  case insertDeriv => exact invA_insertDeriv h _ _ _ _
  case insertDerivs => exact invA_insertDerivs h _ _ _
  case asReadonly => split <;> (try dsimp only) <;> first | exact invA_asRO h _ _ | exact h
  case requireWritable => split <;> exact h
  case write =>
    split
    · split <;> exact invA_arrays h (ext_writeArr _ _ _) (objs_writeArr _ _ _)
    · exact h

theorem invA_run (ops : List Op) : ∀ s : State, InvA s → InvA (run s ops) := by
  induction ops with
  | nil => intro s h; exact h
  | cons op ops ih => intro s h; exact ih _ (invA_step h op)

theorem invA_empty : InvA State.empty := by
  intro i o h
  simp [State.empty] at h

end PMV.ReadOnly
