import PMV.Model.Dispatch
import PMV.Lemmas.Bcast
/-
  Rule lemmas for the code-shaped dispatch functions of `PMV/Model/Dispatch.lean` (helper development for
  `PMV/Props/C04.lean`).  Each lemma rewrites one code-shaped function — which validates in the source's order and lets
  NumPy broadcast the aligned FULL shapes — into a declarative outcome stated on LEADING shapes.  Core Lean only.
-/
namespace PMV.Dispatch
open PMV

/-! ### declarative outcome blocks -/

/-- the observable shape part of a result -/
structure Shp where
  cls : Cls
  lead : Shape
  numer : Shape
  denom : Shape
  deriving DecidableEq, Repr

def Res.shp (r : Res) : Shp := ⟨r.cls, r.lead, r.numer, r.denom⟩

/-- accepted (with which class and shapes) or rejected -/
def outcome : M Res → Option Shp
  | .ok r => some r.shp
  | .error _ => none

/-- a Units object can be stored: none is handed over, or the class admits units -/
def unitsFit (c : Cls) (u1 u2 : Option (List Int)) : Bool := !(unitsPresent u1 u2) || c.unitsOk

/-- element-wise combination on LEADING shapes: accepted iff the leading shapes broadcast (NumPy's rule) and the units
    fit the class; the item shape is given and never takes part in broadcasting -/
def ewSpec (c : Cls) (sa sb numer denom : Shape) (fit : Bool) : Option Shp :=
  match bcast sa sb with
  | none => none
  | some out => if fit then some ⟨c, out, numer, denom⟩ else none

/-! ### list helpers -/

theorem take_len_sub {α} (a b : List α) : (a ++ b).take ((a ++ b).length - b.length) = a := by
  simp

theorem drop_len_sub {α} (a b : List α) : (a ++ b).drop ((a ++ b).length - b.length) = b := by
  simp

theorem insOnes_zero (s : Shape) (p : Nat) : insOnes s p 0 = s := by simp [insOnes]
theorem insOnes_end (s : Shape) (r : Nat) : insOnes s s.length r = s ++ List.replicate r 1 := by simp [insOnes]
theorem insOnes_mid (s d : Shape) (r : Nat) : insOnes (s ++ d) s.length r = s ++ List.replicate r 1 ++ d := by
  simp [insOnes]

/-- broadcasting `sx ++ item` against `ss ++ (1,)*|item|` is broadcasting of the leading parts -/
theorem bcast_item_ones (sx ss item : Shape) :
    bcast (sx ++ item) (ss ++ List.replicate item.length 1) = (bcast sx ss).map (· ++ item) := by
  rw [bcast_append sx ss item (List.replicate item.length 1) (by simp), bcast_ones_right]
  cases bcast sx ss <;> rfl

theorem bcast_item_same (sa sb item : Shape) :
    bcast (sa ++ item) (sb ++ item) = (bcast sa sb).map (· ++ item) := by
  rw [bcast_append sa sb item item rfl, bcast_self]
  cases bcast sa sb <;> rfl

/-- numerator of X against unit axes, unit axes against the denominator of S -/
theorem bcast_item_cross (sx ss n d : Shape) :
    bcast (sx ++ (n ++ List.replicate d.length 1)) (ss ++ (List.replicate n.length 1 ++ d))
      = (bcast sx ss).map (· ++ (n ++ d)) := by
  have hitem : bcast (n ++ List.replicate d.length 1) (List.replicate n.length 1 ++ d) = some (n ++ d) := by
    have := bcast_append n (List.replicate n.length 1) (List.replicate d.length 1) d (by simp)
    rw [bcast_ones_right, bcast_ones_left] at this
    exact this
  rw [bcast_append sx ss _ _ (by simp only [List.length_append, List.length_replicate]), hitem]
  cases bcast sx ss <;> rfl

/-! ### `finish` -/

theorem finish_eq (c : Cls) (k : Kind) (l n d : Shape) (u : Bool) (p : Plan) :
    finish c k l n d u p =
      if u && !c.unitsOk then .error .typeError
      else .ok { cls := c, kind := suitableDtype c k, lead := l, numer := n, denom := d, plan := p } := by
  unfold finish; split <;> rfl

/-! ### `_mul_by_scalar` -/

/-- the aligned full shapes the code hands to NumPy broadcast exactly like the leading shapes, in every branch
    (reshape done, or skipped because a value has shape `()`) -/
theorem mulAlign_bcast (x s : Desc) (hs : s.numer = []) (hd : x.denom = [] ∨ s.denom = []) :
    bcast (insOnes x.full x.full.length (if s.drank > 0 && x.full != [] then s.drank else 0))
          (insOnes s.full s.shape.length (if s.full != [] then x.rank else 0))
      = (bcast x.shape s.shape).map (· ++ (x.numer ++ (x.denom ++ s.denom))) := by
  have hsf : s.full = s.shape ++ s.denom := by simp [Desc.full, hs]
  by_cases hsd : s.denom = []
  · -- the scalar has no denominator: X is not reshaped
    have h0 : (if s.drank > 0 && x.full != [] then s.drank else 0) = 0 := by simp [Desc.drank, hsd]
    rw [h0, insOnes_zero]
    have hsf' : s.full = s.shape := by simp [hsf, hsd]
    by_cases hss : s.shape = []
    · have : (if s.full != [] then x.rank else 0) = 0 := by simp [hsf', hss]
      rw [this, insOnes_zero, hsf', hss, bcast_nil_right, bcast_nil_right]
      simp [Desc.full, hsd]
    · have : (if s.full != [] then x.rank else 0) = x.rank := by simp [hsf', hss]
      rw [this, hsf', insOnes_end]
      have hx : x.full = x.shape ++ (x.numer ++ x.denom) := by simp [Desc.full]
      have hr : x.rank = (x.numer ++ x.denom).length := by simp [Desc.rank]
      rw [hx, hr, bcast_item_ones]
      simp [hsd]
  · -- the scalar carries the denominator, X has none
    have hxd : x.denom = [] := by rcases hd with h | h; exact h; exact absurd h hsd
    have hsne : (if s.full != [] then x.rank else 0) = x.numer.length := by
      have : s.full ≠ [] := by rw [hsf]; simp [hsd]
      simp [this, Desc.rank, hxd]
    rw [hsne, hsf, insOnes_mid]
    have hx : x.full = x.shape ++ x.numer := by simp [Desc.full, hxd]
    by_cases hxe : x.full = []
    · have h0 : (if s.drank > 0 && x.full != [] then s.drank else 0) = 0 := by simp [hxe]
      have hsh : x.shape = [] := by rw [hx] at hxe; exact (List.append_eq_nil_iff.mp hxe).1
      have hnu : x.numer = [] := by rw [hx] at hxe; exact (List.append_eq_nil_iff.mp hxe).2
      rw [h0, insOnes_zero, hxe, hsh, hnu, bcast_nil_left, bcast_nil_left]
      simp [hxd]
    · have h1 : (if s.drank > 0 && x.full != [] then s.drank else 0) = s.denom.length := by
        have : s.denom.length > 0 := List.length_pos_iff.mpr hsd
        simp [Desc.drank, hxe, this]
      rw [h1, insOnes_end, hx, List.append_assoc, List.append_assoc, bcast_item_cross]
      simp [hxd]

/-- splitting `out ++ numer ++ denom` the way the constructor does -/
theorem split_lead (out n d : Shape) (nr dr : Nat) (hn : nr = n.length) (hd : dr = d.length) :
    (out ++ (n ++ d)).take ((out ++ (n ++ d)).length - (nr + dr)) = out ∧
    ((out ++ (n ++ d)).take ((out ++ (n ++ d)).length - dr)).drop ((out ++ (n ++ d)).length - (nr + dr)) = n ∧
    (out ++ (n ++ d)).drop ((out ++ (n ++ d)).length - dr) = d := by
  subst hn hd
  have e1 : (out ++ (n ++ d)).length - (n.length + d.length) = out.length := by simp
  have e2 : (out ++ (n ++ d)).length - d.length = (out ++ n).length := by simp; omega
  rw [e1, e2]
  refine ⟨by simp, ?_, ?_⟩
  · rw [← List.append_assoc, List.take_left, List.drop_left]
  · rw [← List.append_assoc, List.drop_left]

/-- **mulByScalar_rule (full).** For a scalar-like S (no numerator axes) and at most one denominator, in EVERY branch of
    the alignment code: ValueError iff the LEADING shapes do not broadcast; TypeError iff the class cannot hold the units;
    otherwise an object of X's class, the class's dtype of the promoted kind, leading shape = NumPy broadcast of the
    leading shapes, numerator X's, denominator whichever exists, and the plan the driver executes. -/
theorem mulByScalar_rule (x s : Desc) (swap : Bool) (hs : s.numer = []) (hd : x.denom = [] ∨ s.denom = []) :
    mulByScalar x s swap =
      match bcast x.shape s.shape with
      | none => .error .valueError
      | some out =>
        if unitsPresent x.units s.units && !x.cls.unitsOk then .error .typeError
        else .ok { cls := x.cls, kind := suitableDtype x.cls (promote x.kind s.kind), lead := out,
                   numer := x.numer, denom := x.denom ++ s.denom,
                   plan :=
                     let px := x.full.length
                     let rx := if s.drank > 0 && x.full != [] then s.drank else 0
                     let ps := s.shape.length
                     let rs := if s.full != [] then x.rank else 0
                     if swap then .ew true ps rs px rx else .ew false px rx ps rs } := by
  unfold mulByScalar
  simp only [mulAlign_bcast x s hs hd]
  cases h : bcast x.shape s.shape with
  | none => rfl
  | some out =>
    have hmax : max x.drank s.drank = (x.denom ++ s.denom).length := by
      rcases hd with h | h <;> simp [Desc.drank, h]
    obtain ⟨e1, e2, e3⟩ := split_lead out x.numer (x.denom ++ s.denom) x.nrankV (max x.drank s.drank) rfl hmax
    simp only [Option.map_some, finish_eq, e1, e2, e3]

/-! ### `_div_by_scalar`, `_floordiv_by_scalar`, `_mod_by_scalar` -/

theorem divAlign_bcast (x s : Desc) (hs : s.numer = []) (hsd : s.denom = []) :
    bcast x.full (insOnes s.full s.shape.length (if s.full != [] && x.rank != 0 then x.rank else 0))
      = (bcast x.shape s.shape).map (· ++ (x.numer ++ x.denom)) := by
  have hsf : s.full = s.shape := by simp [Desc.full, hs, hsd]
  have hx : x.full = x.shape ++ (x.numer ++ x.denom) := by simp [Desc.full]
  have hr : x.rank = (x.numer ++ x.denom).length := by simp [Desc.rank]
  by_cases hss : s.shape = []
  · have : (if s.full != [] && x.rank != 0 then x.rank else 0) = 0 := by simp [hsf, hss]
    rw [this, insOnes_zero, hsf, hss, bcast_nil_right, bcast_nil_right, hx]; rfl
  · by_cases hxr : x.rank = 0
    · have : (if s.full != [] && x.rank != 0 then x.rank else 0) = 0 := by simp [hxr]
      have hi : x.numer ++ x.denom = [] := by
        apply List.eq_nil_of_length_eq_zero; rw [← hr]; exact hxr
      rw [this, insOnes_zero, hsf, hx, hi]
      simp only [List.append_nil]
      cases bcast x.shape s.shape <;> simp
    · have : (if s.full != [] && x.rank != 0 then x.rank else 0) = x.rank := by simp [hsf, hss, hxr]
      rw [this, hsf, insOnes_end, hx, hr, bcast_item_ones]

/-- **divByScalar_rule (full).** Divisor S scalar-like without denominator (the guard the callers apply), X any class,
    every alignment branch: ValueError iff the LEADING shapes do not broadcast; TypeError iff units do not fit. -/
theorem divByScalar_rule (isTrue : Bool) (x s : Desc) (hs : s.numer = []) (hsd : s.denom = []) :
    divByScalar isTrue x s =
      match bcast x.shape s.shape with
      | none => .error .valueError
      | some out =>
        if unitsPresent x.units s.units && !x.cls.unitsOk then .error .typeError
        else .ok { cls := x.cls, kind := suitableDtype x.cls (if isTrue then .float else promote x.kind s.kind),
                   lead := out, numer := x.numer, denom := x.denom,
                   plan := .ew false 0 0 s.shape.length (if s.full != [] && x.rank != 0 then x.rank else 0) } := by
  unfold divByScalar
  simp only [divAlign_bcast x s hs hsd]
  cases h : bcast x.shape s.shape with
  | none => rfl
  | some out =>
    have hl : (out ++ (x.numer ++ x.denom)).length - x.rank = out.length := by simp [Desc.rank]
    simp only [Option.map_some, finish_eq, hl, List.take_left']

/-! ### `__add__` / `__sub__` on two polymath objects -/

/-- **addSub_rule (full, two polymath objects).** The checks of the source in their order collapse to: rejected unless
    units can match, numerators agree and denominators agree; then ValueError iff the LEADING shapes do not broadcast
    (the code broadcasts the FULL shapes), TypeError iff units do not fit the left class. -/
theorem addCore_rule (a b orig : Desc) :
    addCore a b orig =
      if !unitsCanMatch a.units b.units then .error .valueError
      else if a.numer != b.numer then
        (if a.cls != b.cls then .error (unsupported a orig) else .error .valueError)
      else if a.denom != b.denom then .error .valueError
      else match bcast a.shape b.shape with
        | none => .error .valueError
        | some out =>
          if unitsPresent a.units b.units && !a.cls.unitsOk then .error .typeError
          else .ok { cls := a.cls, kind := suitableDtype a.cls (promote a.kind b.kind), lead := out,
                     numer := a.numer, denom := a.denom, plan := .ew false 0 0 0 0 } := by
  unfold addCore
  simp only [Bool.false_eq_true, if_false, if_true, pure, Except.pure, bind, Except.bind]
  by_cases hu : unitsCanMatch a.units b.units <;> simp only [hu, Bool.not_true, Bool.not_false, if_true, if_false,
    Bool.false_eq_true, throw, throwThe, MonadExceptOf.throw]
  by_cases hn : a.numer = b.numer
  · have hn' : (a.numer != b.numer) = false := by simp [hn]
    simp only [hn', Bool.false_eq_true, if_false]
    by_cases hd : a.denom = b.denom
    · have hd' : (a.denom != b.denom) = false := by simp [hd]
      simp only [hd', Bool.false_eq_true, if_false]
      have hbf : b.full = b.shape ++ (a.numer ++ a.denom) := by simp [Desc.full, hn, hd]
      have haf : a.full = a.shape ++ (a.numer ++ a.denom) := by simp [Desc.full]
      rw [haf, hbf, bcast_item_same]
      cases h : bcast a.shape b.shape with
      | none => rfl
      | some out =>
        have hl : (out ++ (a.numer ++ a.denom)).length - a.rank = out.length := by simp [Desc.rank]
        simp only [Option.map_some, finish_eq, hl, List.take_left']
    · have hd' : (a.denom != b.denom) = true := by simp [hd]
      simp only [hd', if_true]
  · have hn' : (a.numer != b.numer) = true := by simp [hn]
    simp only [hn', if_true]

/-- two polymath objects: no fast path, no conversion -/
theorem addSub_qube (a b : Desc) (hb : b.isQ = true) : addSub a b = addCore a b b := by
  have hnum : b.isNum = false := by
    simp [Desc.isNum]; simp [Desc.isQ] at hb; simp [hb]
  unfold addSub
  simp [hnum, hb, bind, Except.bind, pure, Except.pure]

theorem addSub_rule (a b : Desc) (hb : b.isQ = true) :
    addSub a b =
      if !unitsCanMatch a.units b.units then .error .valueError
      else if a.numer != b.numer then
        (if a.cls != b.cls then .error (unsupported a b) else .error .valueError)
      else if a.denom != b.denom then .error .valueError
      else match bcast a.shape b.shape with
        | none => .error .valueError
        | some out =>
          if unitsPresent a.units b.units && !a.cls.unitsOk then .error .typeError
          else .ok { cls := a.cls, kind := suitableDtype a.cls (promote a.kind b.kind), lead := out,
                     numer := a.numer, denom := a.denom, plan := .ew false 0 0 0 0 } := by
  rw [addSub_qube a b hb, addCore_rule]

/-! ### well-formed operand descriptors (what the harness builds and the constructors guarantee) -/

structure WF (d : Desc) : Prop where
  raw : d.isQ = false → d.numer = [] ∧ d.denom = [] ∧ d.units = none
  num : d.isNum = true → d.shape = []
  nrank : d.isQ = true → d.cls.nrank = some d.numer.length
  fixed : d.isQ = true → ∀ n, d.cls.fixedNumer = some n → d.numer = n
  units : d.isQ = true → d.units.isSome = true → d.cls.unitsOk = true
  denom : d.isQ = true → d.denom ≠ [] → d.cls.derivsOk = true

theorem isNum_of_isQ {d : Desc} (h : d.isQ = true) : d.isNum = false := by
  simp [Desc.isNum]; simp [Desc.isQ] at h; simp [h]

theorem isArrayLike_of_isQ {d : Desc} (h : d.isQ = true) : d.isArrayLike = false := by
  simp [Desc.isQ] at h; simp [Desc.isArrayLike, h]

/-- a raw operand read as a Scalar: every axis is a leading axis -/
def readScalar (d : Desc) : Desc :=
  if d.isQ then d else ⟨.qube, .scalar, suitableDtype .scalar d.kind, d.shape, [], [], none⟩

theorem asScalar_raw (d : Desc) (h : d.isQ = false) : asScalar d = .ok (readScalar d) := by
  simp [asScalar, readScalar, h, construct, Cls.unitsOk, Cls.derivsOk, Cls.fixedNumer, bind, Except.bind, pure,
    Except.pure]

theorem asScalar_qube (d : Desc) (h : d.isQ = true) (hb : d.cls ≠ .boolean) : asScalar d = .ok d := by
  simp [asScalar, h, hb]; rfl

theorem asScalar_boolean (d : Desc) (h : d.isQ = true) (hb : d.cls = .boolean) : asScalar d = .ok (asInt d) := by
  simp [asScalar, h, hb]; rfl

/-- splitting a full shape of sufficient rank into leading part, numerator part and denominator part -/
theorem split3 (full : Shape) (nr dr : Nat) (h : nr + dr ≤ full.length) :
    ∃ L N D, full = L ++ (N ++ D) ∧ N.length = nr ∧ D.length = dr := by
  refine ⟨full.take (full.length - (nr + dr)), (full.drop (full.length - (nr + dr))).take nr,
    (full.drop (full.length - (nr + dr))).drop nr, ?_, ?_, ?_⟩
  · rw [List.take_append_drop, List.take_append_drop]
  · simp; omega
  · simp; omega

/-- the constructor on a full shape `L ++ N ++ D` with numerator rank `|N|` and denominator rank `|D|`, when units and
    denominator are admissible for the class: only the class-numerator check can fail -/
theorem construct_split (c : Cls) (kind : Kind) (L N D : Shape) (units : Option (List Int))
    (hu : (units.isSome && !c.unitsOk) = false) (hd : (D.length != 0 && !c.derivsOk) = false) :
    construct c kind (L ++ (N ++ D)) N.length D.length units =
      match c.fixedNumer with
      | some n => if N != n then .error .valueError
                  else .ok ⟨.qube, c, suitableDtype c kind, L, N, D, units⟩
      | none => .ok ⟨.qube, c, suitableDtype c kind, L, N, D, units⟩ := by
  obtain ⟨e1, e2, e3⟩ := split_lead L N D N.length D.length rfl rfl
  have hlen : ¬ (L ++ (N ++ D)).length < N.length + D.length := by simp
  unfold construct
  simp only [hu, hd, Bool.false_eq_true, if_false, hlen, e1, e2, e3, bind, Except.bind, pure, Except.pure]
  cases c.fixedNumer with
  | none => rfl
  | some n => rfl

/-- `Qube.as_this_type(arg, coerce=False)` on a raw operand whose shape has at least the item rank of `self`: fails
    (ValueError) iff its numerator part is not the numerator the class prescribes -/
theorem asThisType_split (self : Desc) (L N D : Shape) (src : Src) (cls : Cls) (kind : Kind)
    (hq : self.isQ = true) (hw : WF self) (hN : N.length = self.numer.length) (hD : D.length = self.denom.length) :
    asThisType self ⟨src, cls, kind, L ++ (N ++ D), [], [], none⟩ =
      match self.cls.fixedNumer with
      | some n => if N != n then .error .valueError
                  else .ok ⟨.qube, self.cls, suitableDtype self.cls kind, L, N, D, self.units⟩
      | none => .ok ⟨.qube, self.cls, suitableDtype self.cls kind, L, N, D, self.units⟩ := by
  have hu : (self.units.isSome && !self.cls.unitsOk) = false := by
    cases hs : self.units.isSome with
    | false => rfl
    | true => simp [hw.units hq hs]
  have hdv : (D.length != 0 && !self.cls.derivsOk) = false := by
    by_cases hd : self.denom = []
    · simp [hD, hd]
    · simp [hw.denom hq hd]
  have hk : suitableDtype .qube kind = kind := by cases kind <;> rfl
  have h1 := construct_split .qube kind L N D self.units (by simp [Cls.unitsOk]) (by simp [Cls.derivsOk])
  simp only [Cls.fixedNumer, hk] at h1
  unfold asThisType
  simp only [Desc.nrankV, Desc.drank, ← hN, ← hD, h1, bind, Except.bind, Desc.full]
  rw [List.append_assoc]
  exact construct_split self.cls kind L N D self.units hu hdv

/-! ### `__add__` / `__sub__` with a raw operand -/

/-- a raw array next to a polymath object `q` under `+`/`-`: its trailing axes must be exactly `q`'s item shape, and the
    remaining leading axes broadcast with `q`'s leading shape -/
def rawAddSpec (q r : Desc) : Option Shp :=
  if q.rank ≤ r.shape.length ∧ r.shape.drop (r.shape.length - q.rank) = q.numer ++ q.denom
  then ewSpec q.cls q.shape (r.shape.take (r.shape.length - q.rank)) q.numer q.denom true else none

theorem unitsCanMatch_self (u : Option (List Int)) : unitsCanMatch u u = true := by
  cases u <;> simp [unitsCanMatch]

theorem unitsFit_self (q : Desc) (hq : q.isQ = true) (hw : WF q) :
    (unitsPresent q.units q.units && !q.cls.unitsOk) = false := by
  cases hs : q.units.isSome with
  | false => simp [unitsPresent, hs]
  | true => simp [hw.units hq hs]

theorem outcome_addCore_converted (q : Desc) (L N D : Shape) (k : Kind) (orig : Desc)
    (hq : q.isQ = true) (hw : WF q) :
    outcome (addCore q ⟨.qube, q.cls, k, L, N, D, q.units⟩ orig) =
      if N = q.numer ∧ D = q.denom then ewSpec q.cls q.shape L q.numer q.denom true else none := by
  rw [addCore_rule]
  simp only [unitsCanMatch_self, Bool.not_true, Bool.false_eq_true, if_false, bne_self_eq_false, unitsFit_self q hq hw]
  by_cases hn : q.numer = N
  · by_cases hd : q.denom = D
    · subst hn hd
      simp only [bne_self_eq_false, Bool.false_eq_true, if_false, and_self, if_true, ewSpec]
      cases bcast q.shape L <;> rfl
    · have : (q.denom != D) = true := by simp [hd]
      have hd' : ¬ D = q.denom := fun h => hd h.symm
      simp [hn, this, hd', outcome]
  · have : (q.numer != N) = true := by simp [hn]
    have hn' : ¬ N = q.numer := fun h => hn h.symm
    simp [this, hn', outcome]

theorem outcome_error {e : Rej} : outcome (.error e) = none := rfl

/-- **addSub_raw.** `q + raw`, `q - raw` (and `raw + q`, which is `q.__add__(raw)`): number fast path, conversion
    by `as_this_type`, checks and NumPy addition collapse to `rawAddSpec`. -/
theorem addSub_raw (q r : Desc) (hq : q.isQ = true) (hw : WF q) (hr : r.isQ = false) (hwr : WF r) :
    outcome (addSub q r) = rawAddSpec q r := by
  obtain ⟨src, cls, kind, shape, numer, denom, units⟩ := r
  obtain ⟨h1, h2, h3⟩ := hwr.raw hr
  simp only at h1 h2 h3
  subst h1 h2 h3
  by_cases hf : (q.rank == 0 && (⟨src, cls, kind, shape, [], [], none⟩ : Desc).isNum) = true
  · -- number fast path
    have hr0 : q.rank = 0 := by simp at hf; exact hf.1
    have hnum : (⟨src, cls, kind, shape, [], [], none⟩ : Desc).isNum = true := by simp at hf; exact hf.2
    have hsh : shape = [] := hwr.num hnum
    subst hsh
    have h0 : q.numer.length + q.denom.length = 0 := hr0
    have hn : q.numer = [] := List.eq_nil_of_length_eq_zero (by omega)
    have hd : q.denom = [] := List.eq_nil_of_length_eq_zero (by omega)
    unfold addSub
    simp only [hf, if_true, pure, Except.pure, outcome, Res.shp, rawAddSpec, hn, hd, ewSpec]
    simp [hr0, bcast_nil_right]
  · have hf' : (q.rank == 0 && (⟨src, cls, kind, shape, [], [], none⟩ : Desc).isNum) = false := by
      simpa using hf
    by_cases hlen : q.rank ≤ shape.length
    · obtain ⟨L, N, D, hs, hN, hD⟩ := split3 shape q.numer.length q.denom.length (by simpa [Desc.rank] using hlen)
      subst hs
      have hconv := asThisType_split q L N D src cls kind hq hw hN hD
      have hdrop : (L ++ (N ++ D)).drop ((L ++ (N ++ D)).length - q.rank) = N ++ D := by
        have : (L ++ (N ++ D)).length - q.rank = L.length := by simp [Desc.rank, hN, hD]
        rw [this, List.drop_left]
      have htake : (L ++ (N ++ D)).take ((L ++ (N ++ D)).length - q.rank) = L := by
        have : (L ++ (N ++ D)).length - q.rank = L.length := by simp [Desc.rank, hN, hD]
        rw [this, List.take_left]
      have hiff : (N ++ D = q.numer ++ q.denom) ↔ (N = q.numer ∧ D = q.denom) := by
        constructor
        · intro h; exact List.append_inj h hN
        · rintro ⟨rfl, rfl⟩; rfl
      unfold addSub
      simp only [hf', Bool.false_eq_true, if_false, hr, hconv, bind, Except.bind, pure, Except.pure, rawAddSpec,
        hdrop, htake, hlen, true_and]
      cases hfx : q.cls.fixedNumer with
      | none =>
        simp only [outcome_addCore_converted q L N D _ _ hq hw, hiff]
      | some n =>
        have hqn : q.numer = n := hw.fixed hq n hfx
        by_cases hNn : N = n
        · have : (N != n) = false := by simp [hNn]
          simp only [this, Bool.false_eq_true, if_false, outcome_addCore_converted q L N D _ _ hq hw, hiff]
        · have : (N != n) = true := by simp [hNn]
          have hne : ¬ (N = q.numer ∧ D = q.denom) := by rw [hqn]; exact fun h => hNn h.1
          simp only [this, if_true, throw, throwThe, MonadExceptOf.throw, outcome_error, hiff, hne, if_false]
    · -- too few axes: the generic constructor already fails
      have hlt : shape.length < q.nrankV + q.drank := by simp [Desc.rank, Desc.nrankV, Desc.drank] at hlen ⊢; omega
      have hconv : asThisType q ⟨src, cls, kind, shape, [], [], none⟩ = .error .valueError := by
        unfold asThisType construct
        simp [Cls.unitsOk, Cls.derivsOk, hlt, bind, Except.bind, throw, throwThe, MonadExceptOf.throw]
      unfold addSub
      simp only [hf', Bool.false_eq_true, if_false, hr, hconv, bind, Except.bind, throw, throwThe,
        MonadExceptOf.throw, outcome_error, rawAddSpec, hlen, false_and]

/-- `raw - q` (`__rsub__`: convert, then `converted.__sub__(q)`, no exception revision): same outcome -/
theorem rsub_raw (q r : Desc) (hq : q.isQ = true) (hw : WF q) (hr : r.isQ = false) (hwr : WF r) :
    outcome (asThisType q r >>= fun a => addSub a q) = rawAddSpec q r := by
  obtain ⟨src, cls, kind, shape, numer, denom, units⟩ := r
  obtain ⟨h1, h2, h3⟩ := hwr.raw hr
  simp only at h1 h2 h3
  subst h1 h2 h3
  by_cases hlen : q.rank ≤ shape.length
  · obtain ⟨L, N, D, hs, hN, hD⟩ := split3 shape q.numer.length q.denom.length (by simpa [Desc.rank] using hlen)
    subst hs
    have hconv := asThisType_split q L N D src cls kind hq hw hN hD
    have hdrop : (L ++ (N ++ D)).drop ((L ++ (N ++ D)).length - q.rank) = N ++ D := by
      have : (L ++ (N ++ D)).length - q.rank = L.length := by simp [Desc.rank, hN, hD]
      rw [this, List.drop_left]
    have htake : (L ++ (N ++ D)).take ((L ++ (N ++ D)).length - q.rank) = L := by
      have : (L ++ (N ++ D)).length - q.rank = L.length := by simp [Desc.rank, hN, hD]
      rw [this, List.take_left]
    have hiff : (N ++ D = q.numer ++ q.denom) ↔ (N = q.numer ∧ D = q.denom) := by
      constructor
      · intro h; exact List.append_inj h hN
      · rintro ⟨rfl, rfl⟩; rfl
    -- the converted object `a` minus `q`
    have hcore : ∀ k, outcome (addSub ⟨.qube, q.cls, k, L, N, D, q.units⟩ q) =
        if N = q.numer ∧ D = q.denom then ewSpec q.cls q.shape L q.numer q.denom true else none := by
      intro k
      rw [addSub_rule _ _ hq]
      simp only [unitsCanMatch_self, Bool.not_true, Bool.false_eq_true, if_false, bne_self_eq_false,
        unitsFit_self q hq hw]
      by_cases hn : N = q.numer
      · by_cases hd : D = q.denom
        · subst hn hd
          simp only [bne_self_eq_false, Bool.false_eq_true, if_false, and_self, if_true, ewSpec]
          rw [bcast_comm]
          cases bcast q.shape L <;> rfl
        · have : (D != q.denom) = true := by simp [hd]
          simp [hn, this, hd, outcome]
      · have : (N != q.numer) = true := by simp [hn]
        simp [this, hn, outcome]
    simp only [hconv, rawAddSpec, hdrop, htake, hlen, true_and, hiff]
    cases hfx : q.cls.fixedNumer with
    | none => simp only [bind, Except.bind, hcore]
    | some n =>
      have hqn : q.numer = n := hw.fixed hq n hfx
      by_cases hNn : N = n
      · have : (N != n) = false := by simp [hNn]
        simp only [this, Bool.false_eq_true, if_false, bind, Except.bind, hcore]
      · have : (N != n) = true := by simp [hNn]
        have hne : ¬ (N = q.numer ∧ D = q.denom) := by rw [hqn]; exact fun h => hNn h.1
        simp only [this, if_true, bind, Except.bind, outcome_error, hne, if_false]
  · have hlt : shape.length < q.nrankV + q.drank := by simp [Desc.rank, Desc.nrankV, Desc.drank] at hlen ⊢; omega
    have hconv : asThisType q ⟨src, cls, kind, shape, [], [], none⟩ = .error .valueError := by
      unfold asThisType construct
      simp [Cls.unitsOk, Cls.derivsOk, hlt, bind, Except.bind, throw, throwThe, MonadExceptOf.throw]
    simp only [hconv, bind, Except.bind, outcome_error, rawAddSpec, hlen, false_and, if_false]

/-! ### outcome forms of the scaling / dividing / matrix building blocks -/

/-- scaling X by a scalar-like S on LEADING shapes -/
def scaleSpec (x s : Desc) : Option Shp :=
  ewSpec x.cls x.shape s.shape x.numer (x.denom ++ s.denom) (unitsFit x.cls x.units s.units)

/-- dividing X by a scalar-like S without denominator -/
def divideSpec (x s : Desc) : Option Shp :=
  ewSpec x.cls x.shape s.shape x.numer x.denom (unitsFit x.cls x.units s.units)

/-- matrix applied to a vector / matrix: inner lengths agree, leading shapes broadcast, at most one denominator -/
def dotSpec (m v : Desc) : Option Shp :=
  if m.denom ≠ [] ∧ v.denom ≠ [] then none
  else match m.numer.getLast?, v.numer.head? with
    | some n1, some n2 =>
      if n1 = n2 then
        (bcast m.shape v.shape).map fun out =>
          ⟨castFirst [v.cls, m.cls] (m.numer.dropLast ++ v.numer.drop 1), out,
           m.numer.dropLast ++ v.numer.drop 1, m.denom ++ v.denom⟩
      else none
    | _, _ => none

theorem unitsFit_not (c : Cls) (u1 u2 : Option (List Int)) :
    (unitsPresent u1 u2 && !c.unitsOk) = !unitsFit c u1 u2 := by
  unfold unitsFit; cases unitsPresent u1 u2 <;> cases c.unitsOk <;> rfl

theorem outcome_mulByScalar (x s : Desc) (swap : Bool) (hs : s.numer = []) (hd : x.denom = [] ∨ s.denom = []) :
    outcome (mulByScalar x s swap) = scaleSpec x s := by
  rw [mulByScalar_rule x s swap hs hd]
  unfold scaleSpec ewSpec
  cases bcast x.shape s.shape with
  | none => rfl
  | some out =>
    simp only [unitsFit_not]
    cases unitsFit x.cls x.units s.units <;> rfl

theorem outcome_divByScalar (t : Bool) (x s : Desc) (hs : s.numer = []) (hsd : s.denom = []) :
    outcome (divByScalar t x s) = divideSpec x s := by
  rw [divByScalar_rule t x s hs hsd]
  unfold divideSpec ewSpec
  cases bcast x.shape s.shape with
  | none => rfl
  | some out =>
    simp only [unitsFit_not]
    cases unitsFit x.cls x.units s.units <;> rfl

theorem outcome_dotPath (m v : Desc) : outcome (dotPath m v) = dotSpec m v := by
  unfold dotPath dotSpec
  by_cases hd : m.denom ≠ [] ∧ v.denom ≠ []
  · have : (m.drank != 0 && v.drank != 0) = true := by
      simp [Desc.drank, hd.1, hd.2]
    simp [this, hd, outcome, bind, Except.bind, throw, throwThe, MonadExceptOf.throw]
  · have : (m.drank != 0 && v.drank != 0) = false := by
      simp only [Desc.drank, ne_eq, not_and, Decidable.not_not] at hd ⊢
      by_cases h1 : m.denom = []
      · simp [h1]
      · simp [hd h1]
    simp only [this, Bool.false_eq_true, if_false, hd, bind, Except.bind, pure, Except.pure]
    cases m.numer.getLast? with
    | none => rfl
    | some n1 =>
      cases v.numer.head? with
      | none => rfl
      | some n2 =>
        by_cases hn : n1 = n2
        · subst hn
          simp only [bne_self_eq_false, Bool.false_eq_true, if_false, if_true, finish_eq, Bool.false_and]
          cases bcast m.shape v.shape <;> rfl
        · have : (n1 != n2) = true := by simp [hn]
          simp [this, hn, outcome, throw, throwThe, MonadExceptOf.throw]

/-! ### multiplication -/

/-- `a * b` outside the Matrix3 special case (operands after Boolean → integer Scalar) -/
def mulCore (a b : Desc) : Option Shp :=
  if b.isNum then some ⟨a.cls, a.shape, a.numer, a.denom⟩
  else if a.isNum then some ⟨b.cls, b.shape, b.numer, b.denom⟩
  else
    if (readScalar a).denom ≠ [] ∧ (readScalar b).denom ≠ [] then none
    else if (readScalar b).numer = [] then scaleSpec (readScalar a) (readScalar b)
    else if (readScalar a).numer = [] then scaleSpec (readScalar b) (readScalar a)
    else if (readScalar a).numer.length = 2 ∧ ((readScalar b).numer.length = 1 ∨ (readScalar b).numer.length = 2)
      then dotSpec (readScalar a) (readScalar b)
    else none

theorem readScalar_qube (d : Desc) (h : d.isQ = true) : readScalar d = d := by simp [readScalar, h]

theorem asScalar_nonbool (b : Desc) (hbb : b.isQ = true → b.cls ≠ .boolean) : asScalar b = .ok (readScalar b) := by
  by_cases hq : b.isQ = true
  · rw [asScalar_qube b hq (hbb hq), readScalar_qube b hq]
  · have hq' : b.isQ = false := by simpa using hq
    exact asScalar_raw b hq'

theorem readScalar_raw_fields (d : Desc) (h : d.isQ = false) :
    (readScalar d).numer = [] ∧ (readScalar d).denom = [] ∧ (readScalar d).shape = d.shape ∧
    (readScalar d).cls = .scalar ∧ (readScalar d).units = none ∧ (readScalar d).isQ = true := by
  unfold readScalar
  rw [if_neg (by simp [h])]
  simp [Desc.isQ]

theorem drank_ne (d : Desc) : (d.drank != 0) = true ↔ d.denom ≠ [] := by
  simp [Desc.drank]

theorem nrankV_eq (d : Desc) : (d.nrankV == 0) = true ↔ d.numer = [] := by
  simp [Desc.nrankV]

/-- **qmul_outcome.** `Qube.__mul__` with its chain (number, as_scalar, dual denominators, `_mul_by_scalar` with exception
    revision, swap-and-retry, matrix path, give up) accepts exactly what `mulCore` accepts, with the same class/shapes. -/
theorem qmul_outcome (a b : Desc) (ha : a.isQ = true) (hbb : b.isQ = true → b.cls ≠ .boolean) :
    outcome (qmul a b) = mulCore a b := by
  unfold qmul mulCore
  by_cases hn : b.isNum = true
  · simp [hn, mulByNumber, outcome, Res.shp, pure, Except.pure]
  · have hn' : b.isNum = false := by simpa using hn
    have han : a.isNum = false := isNum_of_isQ ha
    simp only [hn', han, Bool.false_eq_true, if_false, asScalar_nonbool b hbb, readScalar_qube a ha, bind,
      Except.bind, pure, Except.pure]
    generalize readScalar b = B
    by_cases hdd : a.denom ≠ [] ∧ B.denom ≠ []
    · have : (a.drank != 0 && B.drank != 0) = true := by simp [Desc.drank, hdd.1, hdd.2]
      simp [this, hdd, outcome, throw, throwThe, MonadExceptOf.throw]
    · have hdd' : (a.drank != 0 && B.drank != 0) = false := by
        simp only [Desc.drank, ne_eq, not_and, Decidable.not_not] at hdd ⊢
        by_cases h1 : a.denom = []
        · simp [h1]
        · simp [hdd h1]
      have hdor : a.denom = [] ∨ B.denom = [] := by
        by_cases h1 : a.denom = []
        · exact Or.inl h1
        · right
          by_cases h2 : B.denom = []
          · exact h2
          · exact absurd ⟨h1, h2⟩ hdd
      simp only [hdd', Bool.false_eq_true, if_false, hdd]
      by_cases hB : B.numer = []
      · have : (B.nrankV == 0) = true := (nrankV_eq B).2 hB
        simp only [this, if_true, hB]
        have := outcome_mulByScalar a B false hB hdor
        cases hm : mulByScalar a B false with
        | ok r => rw [hm] at this; simpa using this
        | error e =>
          rw [hm] at this
          by_cases hbq : b.isQ = true <;> simp [hbq, throw, throwThe, MonadExceptOf.throw, outcome] <;>
            simpa [outcome] using this
      · have : (B.nrankV == 0) = false := by
          cases h : (B.nrankV == 0) with
          | false => rfl
          | true => exact absurd ((nrankV_eq B).1 h) hB
        simp only [this, Bool.false_eq_true, if_false, hB]
        by_cases hA : a.numer = []
        · have : (a.nrankV == 0) = true := (nrankV_eq a).2 hA
          simp only [this, if_true, hA]
          exact outcome_mulByScalar B a true hA hdor.symm
        · have : (a.nrankV == 0) = false := by
            cases h : (a.nrankV == 0) with
            | false => rfl
            | true => exact absurd ((nrankV_eq a).1 h) hA
          simp only [this, Bool.false_eq_true, if_false, hA]
          by_cases hm : a.numer.length = 2 ∧ (B.numer.length = 1 ∨ B.numer.length = 2)
          · have : (a.nrankV == 2 && (B.nrankV == 1 || B.nrankV == 2)) = true := by
              simp [Desc.nrankV, hm.1]; exact hm.2
            simp only [this, if_true, hm, and_self, outcome_dotPath]
          · have : (a.nrankV == 2 && (B.nrankV == 1 || B.nrankV == 2)) = false := by
              cases h : (a.nrankV == 2 && (B.nrankV == 1 || B.nrankV == 2)) with
              | false => rfl
              | true =>
                exfalso; apply hm
                simp [Desc.nrankV] at h
                exact h
            simp [this, hm, outcome, throw, throwThe, MonadExceptOf.throw]

theorem numer_nil_of_boolean (b : Desc) (hw : WF b) (hq : b.isQ = true) (hb : b.cls = .boolean) : b.numer = [] := by
  have := hw.nrank hq
  rw [hb] at this
  simp [Cls.nrank] at this
  exact List.eq_nil_of_length_eq_zero this.symm

theorem cls_scalar_of_numer_nil (b : Desc) (hw : WF b) (hq : b.isQ = true) (hb : b.cls ≠ .boolean)
    (hn : b.numer = []) : b.cls = .scalar := by
  have := hw.nrank hq
  rw [hn] at this
  cases hc : b.cls <;> rw [hc] at this <;> simp [Cls.nrank] at this
  exact absurd hc hb

/-- rotating a scalar-like operand `s` by a Matrix3 of leading shape `ms`: the operand itself, broadcast to the common
    leading shape -/
def rotScalarSpec (ms : Shape) (s : Desc) : Option Shp :=
  (bcast ms s.shape).map fun out => ⟨s.cls, out, [], s.denom⟩

/-- `Matrix3.__mul__`: a scalar-like right operand (raw, Scalar or Boolean) is returned unchanged, broadcast over the
    leading axes -/
theorem matrix3Mul_outcome (a b : Desc) (ha : a.isQ = true) (hwb : WF b) :
    outcome (matrix3Mul a b) =
      if (readScalar b).numer = [] then rotScalarSpec a.shape (readScalar b)
      else mulCore a b := by
  have hnb : ∀ hq : b.isQ = true, b.cls = .boolean → (readScalar b).numer = [] := by
    intro hq hb
    rw [readScalar_qube b hq]
    exact numer_nil_of_boolean b hwb hq hb
  unfold matrix3Mul rotScalarSpec
  by_cases hq : b.isQ = true
  · simp only [hq, if_true, pure, Except.pure, bind, Except.bind, readScalar_qube b hq]
    by_cases hn : b.numer = []
    · have : (b.nrankV == 0) = true := (nrankV_eq _).2 hn
      simp only [this, if_true, hn]
      cases bcast a.shape b.shape <;> simp [outcome, Res.shp, throw, throwThe, MonadExceptOf.throw]
    · have : (b.nrankV == 0) = false := by
        cases h : (b.nrankV == 0) with
        | false => rfl
        | true => exact absurd ((nrankV_eq _).1 h) hn
      simp only [this, Bool.false_eq_true, if_false, hn]
      apply qmul_outcome a b ha
      intro _ hb
      have := hnb hq hb
      rw [readScalar_qube b hq] at this
      exact absurd this hn
  · have hq' : b.isQ = false := by simpa using hq
    obtain ⟨f1, f2, f3, f4, f5, f6⟩ := readScalar_raw_fields b hq'
    have : ((readScalar b).nrankV == 0) = true := (nrankV_eq _).2 f1
    simp only [hq', Bool.false_eq_true, if_false, asScalar_raw b hq', bind, Except.bind, this, if_true, f1]
    cases bcast a.shape (readScalar b).shape <;> simp [outcome, Res.shp, throw, throwThe, MonadExceptOf.throw, pure, Except.pure]

theorem scaleSpec_swap_scalar (A b : Desc) (hA : A.cls = .scalar) (hAn : A.numer = []) (hAd : A.denom = [])
    (hb : b.cls = .scalar) (hbn : b.numer = []) : scaleSpec A b = scaleSpec b A := by
  unfold scaleSpec ewSpec unitsFit
  rw [bcast_comm, hA, hb, hAn, hbn, hAd]
  simp [Cls.unitsOk]

/-- **qrmul_outcome.** `raw * q` (`Qube.__rmul__`) -/
theorem qrmul_outcome (q r : Desc) (hq : q.isQ = true) (hw : WF q) (hqb : q.cls ≠ .boolean) (hr : r.isQ = false) :
    outcome (qrmul q r) = mulCore r q := by
  unfold qrmul mulCore
  have hqn : q.isNum = false := isNum_of_isQ hq
  obtain ⟨f1, f2, f3, f4, f5, f6⟩ := readScalar_raw_fields r hr
  by_cases hn : r.isNum = true
  · simp [hn, hqn, mulByNumber, outcome, Res.shp, pure, Except.pure]
  · have hn' : r.isNum = false := by simpa using hn
    simp only [hn', hqn, Bool.false_eq_true, if_false, asScalar_raw r hr, bind, Except.bind, readScalar_qube q hq,
      f2, ne_eq, not_true_eq_false, false_and, f1]
    have := outcome_mulByScalar q (readScalar r) true f1 (Or.inr f2)
    by_cases hqn0 : q.numer = []
    · simp only [hqn0, if_true]
      rw [scaleSpec_swap_scalar (readScalar r) q f4 f1 f2 (cls_scalar_of_numer_nil q hw hq hqb hqn0) hqn0]
      cases hm : mulByScalar q (readScalar r) true with
      | ok v => rw [hm] at this; simpa [pure, Except.pure] using this
      | error e => rw [hm] at this; simpa [outcome, throw, throwThe, MonadExceptOf.throw] using this
    · simp only [hqn0, if_false, if_true]
      cases hm : mulByScalar q (readScalar r) true with
      | ok v => rw [hm] at this; simpa [pure, Except.pure] using this
      | error e => rw [hm] at this; simpa [outcome, throw, throwThe, MonadExceptOf.throw] using this

/-! ### true division, floor division, modulus -/

/-- `a / b`; outer `none` = outside this view (reciprocal of a matrix / quaternion / vector with one denominator axis) -/
def divCore (a b : Desc) : Option (Option Shp) :=
  if b.isNum then some (some ⟨a.cls, a.shape, a.numer, a.denom⟩)
  else if a.isNum then
    if b.cls == .scalar then some (if b.rank ≠ 0 then none else some ⟨.scalar, b.shape, [], []⟩)
    else if reciprocalRaises b then some none else none
  else
    if (readScalar b).denom ≠ [] then some none
    else if (readScalar b).numer = [] then some (divideSpec (readScalar a) (readScalar b))
    else if (readScalar a).numer = [] then (if reciprocalRaises (readScalar b) then some none else none)
    else if (readScalar a).rank = 2 ∧ (readScalar b).rank = 2 then none
    else some none

/-- `a // b`, `a % b` -/
def floorModCore (isMod : Bool) (a b : Desc) : Option Shp :=
  if a.isQ && isMatrix a then none
  else if isMod && b.isNum then some ⟨a.cls, a.shape, a.numer, a.denom⟩
  else if (readScalar b).denom ≠ [] ∨ (readScalar b).numer ≠ [] then none
  else divideSpec (readScalar a) (readScalar b)

theorem drank_pos (d : Desc) : (decide (d.drank > 0)) = true ↔ d.denom ≠ [] := by
  simp [Desc.drank, List.length_pos_iff]

theorem qdiv_outcome (a b : Desc) (zn : Bool) (ha : a.isQ = true) (hbb : b.isQ = true → b.cls ≠ .boolean) :
    (qdiv a b zn).map outcome = divCore a b := by
  unfold qdiv divCore
  by_cases hn : b.isNum = true
  · simp [hn, outcome, Res.shp, pure, Except.pure]
  · have hn' : b.isNum = false := by simpa using hn
    have han : a.isNum = false := isNum_of_isQ ha
    simp only [hn', han, Bool.false_eq_true, if_false, asScalar_nonbool b hbb, readScalar_qube a ha]
    generalize readScalar b = B
    by_cases hd : B.denom ≠ []
    · have : B.drank > 0 := by simp [Desc.drank, List.length_pos_iff, hd]
      simp [this, hd, outcome, throw, throwThe, MonadExceptOf.throw]
    · have hd0 : B.denom = [] := by simpa using hd
      have : ¬ B.drank > 0 := by simp [Desc.drank, hd0]
      simp only [this, if_false, hd]
      by_cases hB : B.numer = []
      · have : (B.nrankV == 0) = true := (nrankV_eq B).2 hB
        simp only [this, if_true, hB, Option.map_some]
        have := outcome_divByScalar true a B hB hd0
        cases hm : divByScalar true a B with
        | ok r => rw [hm] at this; simpa [pure, Except.pure] using this
        | error e =>
          rw [hm] at this
          by_cases hbq : b.isQ = true <;> simp [hbq, throw, throwThe, MonadExceptOf.throw, outcome] <;>
            simpa [outcome] using this
      · have : (B.nrankV == 0) = false := by
          cases h : (B.nrankV == 0) with
          | false => rfl
          | true => exact absurd ((nrankV_eq B).1 h) hB
        simp only [this, Bool.false_eq_true, if_false, hB]
        by_cases hA : a.numer = []
        · have : (a.nrankV == 0) = true := (nrankV_eq a).2 hA
          simp only [this, if_true, hA]
          cases reciprocalRaises B <;> simp [outcome, throw, throwThe, MonadExceptOf.throw]
        · have : (a.nrankV == 0) = false := by
            cases h : (a.nrankV == 0) with
            | false => rfl
            | true => exact absurd ((nrankV_eq a).1 h) hA
          simp only [this, Bool.false_eq_true, if_false, hA]
          by_cases hr : a.rank = 2 ∧ B.rank = 2
          · simp [hr.1, hr.2]
          · have : (a.rank == 2 && B.rank == 2) = false := by
              cases h : (a.rank == 2 && B.rank == 2) with
              | false => rfl
              | true => exfalso; apply hr; simpa using h
            simp [this, hr, outcome, throw, throwThe, MonadExceptOf.throw]

theorem qfloorMod_outcome (isMod : Bool) (a b : Desc) (zn : Bool) (ha : a.isQ = true)
    (hbb : b.isQ = true → b.cls ≠ .boolean) :
    outcome (qfloorMod isMod a b zn) = floorModCore isMod a b := by
  unfold qfloorMod floorModCore
  by_cases hm : isMatrix a = true
  · simp [hm, ha, outcome, bind, Except.bind, throw, throwThe, MonadExceptOf.throw]
  · have hm' : isMatrix a = false := by simpa using hm
    simp only [hm', Bool.false_eq_true, if_false, Bool.and_false, bind, Except.bind, pure, Except.pure]
    by_cases hn : (isMod && b.isNum) = true
    · simp [hn, outcome, Res.shp]
    · have hn' : (isMod && b.isNum) = false := by simpa using hn
      simp only [hn', Bool.false_eq_true, if_false, asScalar_nonbool b hbb, readScalar_qube a ha]
      generalize readScalar b = B
      by_cases hd : B.denom ≠ []
      · have : B.drank > 0 := by simp [Desc.drank, List.length_pos_iff, hd]
        simp [this, hd, outcome, throw, throwThe, MonadExceptOf.throw]
      · have hd0 : B.denom = [] := by simpa using hd
        have : ¬ B.drank > 0 := by simp [Desc.drank, hd0]
        simp only [this, if_false, hd0, ne_eq, not_true_eq_false, false_or]
        by_cases hB : B.numer = []
        · have : (B.nrankV == 0) = true := (nrankV_eq B).2 hB
          simp only [this, if_true, hB, not_true_eq_false, if_false]
          have := outcome_divByScalar false a B hB hd0
          cases hmm : divByScalar false a B with
          | ok r => rw [hmm] at this; simpa using this
          | error e =>
            rw [hmm] at this
            by_cases hbq : b.isQ = true <;> simp [hbq, throw, throwThe, MonadExceptOf.throw, outcome] <;>
              simpa [outcome] using this
        · have : (B.nrankV == 0) = false := by
            cases h : (B.nrankV == 0) with
            | false => rfl
            | true => exact absurd ((nrankV_eq B).1 h) hB
          simp [this, hB, outcome, throw, throwThe, MonadExceptOf.throw]

theorem readScalar_idem (d : Desc) : readScalar (readScalar d) = readScalar d := by
  by_cases h : d.isQ = true
  · simp [readScalar_qube d h]
  · have h' : d.isQ = false := by simpa using h
    exact readScalar_qube _ (readScalar_raw_fields d h').2.2.2.2.2

theorem isMatrix_numer (q : Desc) (hw : WF q) (hq : q.isQ = true) (hm : isMatrix q = true) : q.numer ≠ [] := by
  have := hw.nrank hq
  intro hn
  rw [hn] at this
  simp [isMatrix] at hm
  rcases hm with h | h <;> rw [h] at this <;> simp [Cls.nrank] at this

/-- **qrdiv_outcome.** `raw / q`, `raw // q`, `raw % q` (`__rtruediv__`, `__rfloordiv__`, `__rmod__`) -/
theorem qrdiv_outcome (op : OpSym) (q r : Desc) (hq : q.isQ = true) (hw : WF q) (hqb : q.cls ≠ .boolean)
    (hr : r.isQ = false) :
    (qrdiv op q r).map outcome =
      if op = .div then divCore r q
      else some (floorModCore (op == .mod) r q) := by
  have hqn : q.isNum = false := isNum_of_isQ hq
  obtain ⟨f1, f2, f3, f4, f5, f6⟩ := readScalar_raw_fields r hr
  have hA : (readScalar r).isNum = false := isNum_of_isQ f6
  unfold qrdiv
  by_cases hop : op = .div
  · subst hop
    simp only [bne_self_eq_false, Bool.false_and, Bool.false_eq_true, if_false, beq_self_eq_true, Bool.true_and,
      if_true]
    by_cases hn : r.isNum = true
    · simp only [hn, if_true, divCore, hqn, Bool.false_eq_true, if_false]
      by_cases hs : q.cls = .scalar
      · simp only [hs, beq_self_eq_true, if_true]
        by_cases hr0 : q.rank = 0
        · simp [hr0, outcome, Res.shp, pure, Except.pure]
        · have : (q.rank != 0) = true := by simp [hr0]
          simp [this, hr0, outcome, throw, throwThe, MonadExceptOf.throw]
      · have : (q.cls == Cls.scalar) = false := by simp [hs]
        simp only [this, Bool.false_eq_true, if_false]
        cases reciprocalRaises q <;> simp [outcome, throw, throwThe, MonadExceptOf.throw]
    · have hn' : r.isNum = false := by simpa using hn
      simp only [hn', Bool.false_eq_true, if_false, asScalar_raw r hr]
      have h1 := qdiv_outcome (readScalar r) q false f6 (fun _ => hqb)
      have h2 : divCore (readScalar r) q = divCore r q := by
        simp only [divCore, hqn, hA, hn', readScalar_idem, Bool.false_eq_true, if_false]
      rw [← h2, ← h1]
      cases qdiv (readScalar r) q false with
      | none => rfl
      | some x => cases x <;> rfl
  · have hne : (op != OpSym.div) = true := by simp [hop]
    have hnd : (op == OpSym.div) = false := by simp [hop]
    simp only [hne, Bool.true_and, hnd, Bool.false_and, Bool.false_eq_true, if_false, hop]
    by_cases hm : isMatrix q = true
    · have hqn0 := isMatrix_numer q hw hq hm
      simp [hm, outcome, throw, throwThe, MonadExceptOf.throw, floorModCore, hr, hqn, readScalar_qube q hq, hqn0]
    · have hm' : isMatrix q = false := by simpa using hm
      simp only [hm', Bool.false_eq_true, if_false, asScalar_raw r hr]
      have h1 := qfloorMod_outcome (op == .mod) (readScalar r) q false f6 (fun _ => hqb)
      have h2 : floorModCore (op == .mod) (readScalar r) q = floorModCore (op == .mod) r q := by
        simp only [floorModCore, hr, f6, readScalar_idem, Bool.false_and, Bool.true_and]
        have : isMatrix (readScalar r) = false := by simp [isMatrix, f4]
        simp [this, hqn]
      rw [← h2, ← h1]
      cases qfloorMod (op == .mod) (readScalar r) q false <;> rfl

/-! ### the declarative compatibility specification of the whole operator table -/

/-- Boolean operands take part in arithmetic as integer Scalars -/
def normB (d : Desc) : Desc := if d.isQ && d.cls == .boolean then asInt d else d

/-- `a + b`, `a - b` (operands after `normB`): two polymath objects need matching units, equal numerators and equal
    denominators and broadcastable LEADING shapes; a raw operand is read with the other operand's item shape -/
def addSpec (a b : Desc) : Option Shp :=
  if a.isQ && b.isQ then
    if unitsCanMatch a.units b.units && a.numer == b.numer && a.denom == b.denom
    then ewSpec a.cls a.shape b.shape a.numer a.denom (unitsFit a.cls a.units b.units) else none
  else if a.isQ then rawAddSpec a b else rawAddSpec b a

/-- `a * b` (operands after `normB`; `b0` the right operand before it): `Matrix3 * scalar-like` returns the right operand
    (documented special case) broadcast to the common leading shape, otherwise `mulCore` -/
def mulSpec (a b b0 : Desc) : Option Shp :=
  if a.isQ && a.cls == .matrix3 && (readScalar b0).numer == [] then rotScalarSpec a.shape (readScalar b0)
  else mulCore a b

def coreSpec (op : OpSym) (a b b0 : Desc) : Option (Option Shp) :=
  match op with
  | .add | .sub => some (addSpec a b)
  | .mul => some (mulSpec a b b0)
  | .div => divCore a b
  | .floordiv => some (floorModCore false a b)
  | .mod => some (floorModCore true a b)

/-- **the specification**: `none` = outside this view; `some none` = incompatible (must be rejected);
    `some (some s)` = compatible, with result class, leading shape and item shape `s` -/
def spec (op : OpSym) (a b : Desc) : Option (Option Shp) :=
  if a.isQ || b.isQ then coreSpec op (normB a) (normB b) b else none

theorem outcome_addSub_qube (a b : Desc) (hb : b.isQ = true) (ha : a.isQ = true) :
    outcome (addSub a b) = addSpec a b := by
  rw [addSub_rule a b hb]
  unfold addSpec
  simp only [ha, hb, Bool.and_self, if_true]
  by_cases hu : unitsCanMatch a.units b.units = true
  · by_cases hn : a.numer = b.numer
    · by_cases hd : a.denom = b.denom
      · simp only [hu, hn, hd, Bool.not_true, Bool.false_eq_true, if_false, bne_self_eq_false, beq_self_eq_true,
          Bool.and_self, if_true, ewSpec]
        cases bcast a.shape b.shape with
        | none => rfl
        | some out =>
          simp only [unitsFit_not]
          rw [← hn, ← hd]
          cases unitsFit a.cls a.units b.units <;> rfl
      · have h1 : (a.denom != b.denom) = true := by simp [hd]
        have h2 : (a.denom == b.denom) = false := by simp [hd]
        simp [hu, hn, h1, h2, outcome]
    · have h1 : (a.numer != b.numer) = true := by simp [hn]
      have h2 : (a.numer == b.numer) = false := by simp [hn]
      simp only [hu, h1, h2, Bool.not_true, Bool.false_eq_true, if_false, if_true, Bool.and_false, Bool.false_and]
      split <;> rfl
  · have : unitsCanMatch a.units b.units = false := by simpa using hu
    simp [this, outcome]

theorem mulSpec_not_matrix3 (a b b0 : Desc) (h : a.cls ≠ .matrix3) : mulSpec a b b0 = mulCore a b := by
  unfold mulSpec
  have : (a.cls == Cls.matrix3) = false := by simp [h]
  simp [this]

theorem mulSpec_raw (a b b0 : Desc) (h : a.isQ = false) : mulSpec a b b0 = mulCore a b := by
  unfold mulSpec; simp [h]

/-- the direct methods of a non-Boolean polymath object against a raw or non-Boolean operand -/
theorem direct_spec (op : OpSym) (a b : Desc) (zn : Bool) (ha : a.isQ = true) (hwa : WF a) (hwb : WF b)
    (hbb : b.isQ = true → b.cls ≠ .boolean) :
    (direct op a b zn).map outcome = coreSpec op a b b := by
  cases op with
  | add =>
    simp only [direct, coreSpec, Option.map_some]
    by_cases hb : b.isQ = true
    · rw [outcome_addSub_qube a b hb ha]
    · have hb' : b.isQ = false := by simpa using hb
      rw [addSub_raw a b ha hwa hb' hwb]; simp [addSpec, ha, hb']
  | sub =>
    simp only [direct, coreSpec, Option.map_some]
    by_cases hb : b.isQ = true
    · rw [outcome_addSub_qube a b hb ha]
    · have hb' : b.isQ = false := by simpa using hb
      rw [addSub_raw a b ha hwa hb' hwb]; simp [addSpec, ha, hb']
  | mul =>
    simp only [direct, coreSpec, Option.map_some]
    by_cases hm : a.cls = .matrix3
    · simp only [hm, beq_self_eq_true, if_true, mulSpec, ha, Bool.and_self, Bool.true_and]
      rw [matrix3Mul_outcome a b ha hwb]
      by_cases hn : (readScalar b).numer = [] <;> simp [hn]
    · have : (a.cls == Cls.matrix3) = false := by simp [hm]
      simp only [this, Bool.false_eq_true, if_false, mulSpec_not_matrix3 a b b hm]
      rw [qmul_outcome a b ha hbb]
  | div => simp only [direct, coreSpec]; exact qdiv_outcome a b zn ha hbb
  | floordiv => simp only [direct, coreSpec, Option.map_some]; rw [qfloorMod_outcome false a b zn ha hbb]
  | mod => simp only [direct, coreSpec, Option.map_some]; rw [qfloorMod_outcome true a b zn ha hbb]

theorem asInt_fields (b : Desc) : (asInt b).isQ = b.isQ ∧ (asInt b).isNum = b.isNum ∧
    (asInt b).isArrayLike = b.isArrayLike ∧ (asInt b).cls = .scalar ∧ (asInt b).shape = b.shape ∧
    (asInt b).numer = b.numer ∧ (asInt b).denom = b.denom ∧ (asInt b).units = none := by
  simp [asInt, Desc.isQ, Desc.isNum, Desc.isArrayLike]

theorem WF_asInt (b : Desc) (hw : WF b) (hq : b.isQ = true) (hb : b.cls = .boolean) : WF (asInt b) := by
  obtain ⟨g1, g2, g3, g4, g5, g6, g7, g8⟩ := asInt_fields b
  have hn := numer_nil_of_boolean b hw hq hb
  refine ⟨?_, ?_, ?_, ?_, ?_, ?_⟩
  · intro h; rw [g1, hq] at h; cases h
  · intro h; rw [g2, isNum_of_isQ hq] at h; cases h
  · intro _; rw [g4, g6, hn]; rfl
  · intro _ n h; rw [g4] at h; simp [Cls.fixedNumer] at h; rw [g6, hn, h]
  · intro _ h; rw [g8] at h; cases h
  · intro _ _; rw [g4]; rfl

theorem denom_nil_of_boolean (b : Desc) (hw : WF b) (hq : b.isQ = true) (hb : b.cls = .boolean) : b.denom = [] := by
  by_cases h : b.denom = []
  · exact h
  · have := hw.denom hq h
    rw [hb] at this; simp [Cls.derivsOk] at this

theorem WF_readScalar (r : Desc) (hr : r.isQ = false) : WF (readScalar r) := by
  obtain ⟨f1, f2, f3, f4, f5, f6⟩ := readScalar_raw_fields r hr
  refine ⟨?_, ?_, ?_, ?_, ?_, ?_⟩
  · intro h; rw [f6] at h; cases h
  · intro h; rw [isNum_of_isQ f6] at h; cases h
  · intro _; rw [f4, f1]; rfl
  · intro _ n h; rw [f4] at h; simp [Cls.fixedNumer] at h; rw [f1, h]
  · intro _ h; rw [f5] at h; cases h
  · intro _ _; rw [f4]; rfl

theorem asScalar_asInt (b : Desc) (hq : b.isQ = true) (hb : b.cls = .boolean) :
    asScalar b = .ok (asInt b) ∧ asScalar (asInt b) = .ok (asInt b) := by
  constructor
  · exact asScalar_boolean b hq hb
  · have : (asInt b).isQ = true := by rw [(asInt_fields b).1]; exact hq
    exact asScalar_qube (asInt b) this (by rw [(asInt_fields b).2.2.2.1]; decide)

theorem unsupported_asInt (a b : Desc) : unsupported a (asInt b) = unsupported a b := by
  simp [unsupported, (asInt_fields b).2.2.1]

/-- a Boolean right operand of a non-Scalar object: every `* / // %` path converts it with `as_scalar` first -/
theorem qmul_boolean (a b : Desc) (hq : b.isQ = true) (hb : b.cls = .boolean) : qmul a b = qmul a (asInt b) := by
  obtain ⟨h1, h2⟩ := asScalar_asInt b hq hb
  unfold qmul
  simp only [h1, h2, (asInt_fields b).1, (asInt_fields b).2.1, unsupported_asInt, mulByNumber]
  by_cases hn : b.isNum = true
  · exact absurd hn (by rw [isNum_of_isQ hq]; simp)
  · have : b.isNum = false := by simpa using hn
    simp [this]

theorem qdiv_boolean (a b : Desc) (zn : Bool) (hq : b.isQ = true) (hb : b.cls = .boolean) :
    qdiv a b zn = qdiv a (asInt b) zn := by
  obtain ⟨h1, h2⟩ := asScalar_asInt b hq hb
  unfold qdiv
  simp only [h1, h2, (asInt_fields b).1, (asInt_fields b).2.1, unsupported_asInt]

theorem qfloorMod_boolean (m : Bool) (a b : Desc) (zn : Bool) (hq : b.isQ = true) (hb : b.cls = .boolean) :
    qfloorMod m a b zn = qfloorMod m a (asInt b) zn := by
  obtain ⟨h1, h2⟩ := asScalar_asInt b hq hb
  unfold qfloorMod
  simp only [h1, h2, (asInt_fields b).1, (asInt_fields b).2.1, unsupported_asInt]
  have : b.isNum = false := isNum_of_isQ hq
  simp [this]

theorem numer_ne_nil (a : Desc) (hw : WF a) (hq : a.isQ = true) (h1 : a.cls ≠ .boolean) (h2 : a.cls ≠ .scalar) :
    a.numer ≠ [] := by
  have := hw.nrank hq
  intro hn
  rw [hn] at this
  cases hc : a.cls <;> rw [hc] at this <;> simp [Cls.nrank] at this
  · exact h2 hc
  · exact h1 hc

/-- a Boolean right operand of a polymath object that is neither Scalar nor Boolean (no reflected override applies) -/
theorem direct_bool (op : OpSym) (a b : Desc) (zn : Bool) (ha : a.isQ = true) (hwa : WF a) (hwb : WF b)
    (h1 : a.cls ≠ .boolean) (h2 : a.cls ≠ .scalar) (hq : b.isQ = true) (hb : b.cls = .boolean) :
    (direct op a b zn).map outcome = coreSpec op a (asInt b) b := by
  obtain ⟨g1, g2, g3, g4, g5, g6, g7, g8⟩ := asInt_fields b
  have hnb : (asInt b).isQ = true → (asInt b).cls ≠ .boolean := by intro _; rw [g4]; decide
  have hwi := WF_asInt b hwb hq hb
  have hbn := numer_nil_of_boolean b hwb hq hb
  have han := numer_ne_nil a hwa ha h1 h2
  have hadd : outcome (addSub a b) = addSpec a (asInt b) := by
    rw [addSub_rule a b hq]
    have hne : (a.numer != b.numer) = true := by rw [hbn]; simp [han]
    have hne2 : (a.numer == (asInt b).numer) = false := by rw [g6, hbn]; simp [han]
    simp only [addSpec, ha, g1, hq, Bool.and_self, if_true, hne, hne2, Bool.and_false, Bool.false_and,
      Bool.false_eq_true, if_false]
    split
    · rfl
    · split <;> rfl
  cases op with
  | add => simp only [direct, coreSpec, Option.map_some, hadd]
  | sub => simp only [direct, coreSpec, Option.map_some, hadd]
  | mul =>
    simp only [direct, coreSpec, Option.map_some]
    by_cases hm : a.cls = .matrix3
    · simp only [hm, beq_self_eq_true, if_true, mulSpec, ha, Bool.and_self, Bool.true_and]
      rw [matrix3Mul_outcome a b ha hwb]
      have : (readScalar b).numer = [] := by rw [readScalar_qube b hq]; exact hbn
      simp [this]
    · have : (a.cls == Cls.matrix3) = false := by simp [hm]
      simp only [this, Bool.false_eq_true, if_false, mulSpec_not_matrix3 a _ b hm, qmul_boolean a b hq hb]
      rw [qmul_outcome a (asInt b) ha hnb]
  | div => simp only [direct, coreSpec, qdiv_boolean a b zn hq hb]; exact qdiv_outcome a (asInt b) zn ha hnb
  | floordiv =>
    simp only [direct, coreSpec, Option.map_some, qfloorMod_boolean false a b zn hq hb]
    rw [qfloorMod_outcome false a (asInt b) zn ha hnb]
  | mod =>
    simp only [direct, coreSpec, Option.map_some, qfloorMod_boolean true a b zn hq hb]
    rw [qfloorMod_outcome true a (asInt b) zn ha hnb]

/-- the reflected methods of a non-Boolean polymath object `q` for a raw left operand `r` -/
theorem reflected_spec (op : OpSym) (q r : Desc) (hq : q.isQ = true) (hw : WF q) (hqb : q.cls ≠ .boolean)
    (hr : r.isQ = false) (hwr : WF r) (b0 : Desc) :
    (reflected op q r).map outcome = coreSpec op r q b0 := by
  cases op with
  | add =>
    simp only [reflected, coreSpec, Option.map_some, addSub_raw q r hq hw hr hwr]
    simp [addSpec, hr]
  | sub =>
    simp only [reflected, coreSpec, Option.map_some, rsub_raw q r hq hw hr hwr]
    simp [addSpec, hr]
  | mul =>
    simp only [reflected, coreSpec, Option.map_some, qrmul_outcome q r hq hw hqb hr, mulSpec_raw r q b0 hr]
  | div => simp only [reflected, coreSpec]; rw [qrdiv_outcome .div q r hq hw hqb hr]; simp
  | floordiv => simp only [reflected, coreSpec]; rw [qrdiv_outcome .floordiv q r hq hw hqb hr]; simp; rfl
  | mod => simp only [reflected, coreSpec]; rw [qrdiv_outcome .mod q r hq hw hqb hr]; simp

theorem coreSpec_b0 (op : OpSym) (a b b0 b0' : Desc) (h : a.cls ≠ .matrix3 ∨ a.isQ = false) :
    coreSpec op a b b0 = coreSpec op a b b0' := by
  cases op <;> simp only [coreSpec]
  rcases h with h | h
  · rw [mulSpec_not_matrix3 a b b0 h, mulSpec_not_matrix3 a b b0' h]
  · rw [mulSpec_raw a b b0 h, mulSpec_raw a b b0' h]

theorem normB_bool (d : Desc) (hq : d.isQ = true) (hb : d.cls = .boolean) : normB d = asInt d := by
  simp [normB, hq, hb]

theorem normB_other (d : Desc) (h : ¬ (d.isQ = true ∧ d.cls = .boolean)) : normB d = d := by
  unfold normB
  by_cases hq : d.isQ = true
  · have : d.cls ≠ .boolean := fun hb => h ⟨hq, hb⟩
    simp [this]
  · simp [hq]

theorem WF_normB (d : Desc) (hw : WF d) : WF (normB d) := by
  by_cases h : d.isQ = true ∧ d.cls = .boolean
  · rw [normB_bool d h.1 h.2]; exact WF_asInt d hw h.1 h.2
  · rw [normB_other d h]; exact hw

theorem normB_nonbool (d : Desc) : (normB d).isQ = true → (normB d).cls ≠ .boolean := by
  by_cases h : d.isQ = true ∧ d.cls = .boolean
  · rw [normB_bool d h.1 h.2]; intro _; rw [(asInt_fields d).2.2.2.1]; decide
  · rw [normB_other d h]; intro hq hb; exact h ⟨hq, hb⟩

theorem normB_isQ (d : Desc) : (normB d).isQ = d.isQ := by
  by_cases h : d.isQ = true ∧ d.cls = .boolean
  · rw [normB_bool d h.1 h.2]; exact (asInt_fields d).1
  · rw [normB_other d h]

end PMV.Dispatch
