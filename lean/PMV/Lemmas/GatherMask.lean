import PMV.Lemmas.GatherDict
/-
  `_masked_outside` / `mask_where` (the test mode `_DISABLE_SHRINKING` of `shrink` and the cached
  path of `unshrink`): at every position the antimask selects nothing changes.  Core Lean only.
-/
namespace PMV.Shrink
open PMV
set_option linter.unusedSectionVars false
variable {K : Type} [Inhabited K]

/-- the element of a pair (arrays, derivative arrays) at an index -/
def pcellAt (o : Obj K) (ds : List (String × Obj K)) (i : Index) : Cell K :=
  ⟨(o.dcellAt i).v, (o.dcellAt i).m, fun k =>
    match lookupD ds k with
    | some d => d.dcellAt i
    | none => noDeriv⟩

theorem cellAt_plain (x : Q K) (i : Index) : x.cellAt i = pcellAt x.obj x.plainDerivs i := by
  rw [cellAt_eq]
  simp only [pcellAt, Q.plainDerivs, lookupD_mapVals, derivAt]
  congr 1
  funext k
  cases lookupD x.derivs k <;> rfl

theorem cellAt_withArrays (x : Q K) (o : Obj K) (ds : List (String × Obj K)) (ro : Bool) (i : Index) :
    (x.withArrays (o, ds) ro).cellAt i = pcellAt o ds i := by
  rw [cellAt_eq]
  simp only [pcellAt, Q.withArrays, lookupD_mapVals, derivAt]
  congr 1
  funext k
  cases lookupD ds k <;> rfl

theorem keys_withArrays (x : Q K) (o : Obj K) (ds : List (String × Obj K)) (ro : Bool) :
    (x.withArrays (o, ds) ro).keys = ds.map (·.1) := by
  simp only [Q.keys, Q.withArrays]; exact keys_mapVals _ _

theorem keys_plainDerivs (x : Q K) : x.plainDerivs.map (·.1) = x.keys := by
  simp only [Q.plainDerivs, Q.keys]; exact keys_mapVals _ _

theorem orMask_dcell (o : Obj K) (m : Index → Bool) (i : Index) (hm : m i = false) :
    (o.orMask m).dcellAt i = o.dcellAt i := by
  simp only [Obj.orMask, Obj.dcellAt, Obj.maskAt]
  cases hr : o.rep <;> simp [hr, hm]

theorem orMask_shape (o : Obj K) (m : Index → Bool) : (o.orMask m).shape = o.shape := by
  simp only [Obj.orMask]; cases o.rep <;> rfl

/-- `mask_where(mask)`: an element where the mask is False is unchanged (object and derivatives) -/
theorem maskWhere_cell (o : Obj K) (ds : List (String × Obj K)) (m : Index → Bool) (i : Index)
    (hm : m i = false) :
    pcellAt (maskWhere o ds m).1 (maskWhere o ds m).2 i = pcellAt o ds i := by
  unfold maskWhere
  cases anyOver o.shape m
  · rfl
  · simp only [pcellAt, lookupD_mapVals, orMask_dcell o m i hm]
    congr 1
    funext k
    cases lookupD ds k <;> simp [orMask_dcell _ m i hm]

theorem maskWhere_shape (o : Obj K) (ds : List (String × Obj K)) (m : Index → Bool) :
    (maskWhere o ds m).1.shape = o.shape := by
  unfold maskWhere
  cases anyOver o.shape m
  · rfl
  · exact orMask_shape _ _

theorem maskWhere_keys (o : Obj K) (ds : List (String × Obj K)) (m : Index → Bool) :
    (maskWhere o ds m).2.map (·.1) = ds.map (·.1) := by
  unfold maskWhere
  cases anyOver o.shape m
  · rfl
  · exact keys_mapVals _ _

/-- `_masked_outside(obj, antimask)` leaves every selected element as it is, read through
    broadcasting at any grid index `p ++ a` with `a` selected -/
theorem maskedOutside_spec (o : Obj K) (ds : List (String × Obj K)) (am : Arr Bool)
    (o' : Obj K) (ds' : List (String × Obj K))
    (hwf : ∀ k d, lookupD ds k = some d → d.shape = o.shape)
    (h : maskedOutside o ds (.arr am) = some (o', ds')) :
    ds'.map (·.1) = ds.map (·.1) ∧
    ∀ p a, a ∈ trues am →
      pcellAt o' ds' (bidx o'.shape (p ++ a)) = pcellAt o ds (bidx o.shape (p ++ a)) := by
  unfold maskedOutside at h
  have sel : ∀ p a, a ∈ trues am → am.get (bidx am.shape (p ++ a)) = true := by
    intro p a ha
    rw [bidx_short am.shape p a (by rw [trues_length ha]; exact Nat.le_refl _),
      bidx_valid _ _ (mem_trues ha).1]
    exact (mem_trues ha).2
  by_cases hs : am.shape = o.shape
  · simp only [hs, ↓reduceIte, Option.some.injEq] at h
    have e1 : o' = (maskWhere o ds fun i => !am.get i).1 := by rw [h]
    have e2 : ds' = (maskWhere o ds fun i => !am.get i).2 := by rw [h]
    subst e1 e2
    refine ⟨maskWhere_keys _ _ _, fun p a ha => ?_⟩
    rw [maskWhere_shape]
    apply maskWhere_cell
    have := sel p a ha
    rw [hs] at this
    simp [this]
  · simp only [hs, ↓reduceIte] at h
    cases hb : bcast o.shape am.shape <;> simp only [hb] at h
    · cases h
    · next s =>
      cases ho : o.bto s <;> simp only [ho] at h
      · cases h
      · next o1 =>
        cases hd : mapDerivs (fun (d : Obj K) => d.bto s) ds <;> simp only [hd] at h
        · cases h
        · next ds1 =>
          simp only [Option.some.injEq] at h
          have e1 : o' = (maskWhere o1 ds1 fun i => !am.get (bidx am.shape i)).1 := by rw [h]
          have e2 : ds' = (maskWhere o1 ds1 fun i => !am.get (bidx am.shape i)).2 := by rw [h]
          subst e1 e2
          obtain ⟨hs1, hc1⟩ := Obj.bto_spec _ _ _ ho
          refine ⟨(maskWhere_keys _ _ _).trans (keys_mapDerivs _ _ _ hd), fun p a ha => ?_⟩
          rw [maskWhere_shape, hs1]
          rw [maskWhere_cell _ _ _ _ (by
            simp only [bidx_comp_right _ _ _ _ hb, sel p a ha, Bool.not_true])]
          simp only [pcellAt, hc1]
          congr 1
          funext k
          cases hx : lookupD ds k with
          | none => rw [lookupD_mapDerivs_none _ _ _ hd k hx]
          | some d0 =>
            obtain ⟨d2, hg, hl2⟩ := lookupD_mapDerivs_some _ _ _ hd k d0 hx
            rw [hl2]
            simp only [(Obj.bto_spec _ _ _ hg).2, hwf k d0 hx]

end PMV.Shrink
