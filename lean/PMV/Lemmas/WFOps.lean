import PMV.Lemmas.WFCtor
/- helper lemmas for Props/C05.lean: what the constructor returns when it is called with `example=` a well-formed
   object and an array of shape S ++ item (as_float, broadcast_to, wod ...) -/
namespace PMV.C05L
open PMV PMV.Gen PMV.WF

theorem split_append (s n d : List Nat) :
    let l := s ++ n ++ d
    l.take (l.length - d.length - n.length) = s
    ∧ (l.drop (l.length - d.length - n.length)).take n.length = n
    ∧ l.drop (l.length - d.length) = d
    ∧ l.drop (l.length - d.length - n.length) = n ++ d := by
  simp only []
  have e1 : (s ++ n ++ d).length - d.length - n.length = s.length := by simp; omega
  have e2 : (s ++ n ++ d).length - d.length = (s ++ n).length := by simp; omega
  refine ⟨?_, ?_, ?_, ?_⟩
  · rw [e1, List.append_assoc, List.take_left']; rfl
  · rw [e1, List.append_assoc, List.drop_left']
    · rw [List.take_left']; rfl
    · rfl
  · rw [e2, List.drop_left']; rfl
  · rw [e1, List.append_assoc, List.drop_left']; rfl

/-- what `build` returns, when it returns -/
theorem build_eq {i : CtorIn} {r : Resolved} {b : Body} (h : build i r = some b) :
    ∃ values am v m,
      asValuesAndMask i.arg = some (values, am)
      ∧ (orInt r.nrank (classInfo i.cls).nrank).toNat + (orInt r.drank none).toNat ≤ values.shape.length
      ∧ v.kind = suitableKind i.cls values.kind
      ∧ b = assemble i.cls v m values.shape (orInt r.nrank (classInfo i.cls).nrank).toNat (orInt r.drank none).toNat
              (defaultShape (classInfo i.cls) r.dflt (orInt r.drank none).toNat
                (values.shape.drop (values.shape.length - (orInt r.drank none).toNat
                  - (orInt r.nrank (classInfo i.cls).nrank).toNat)))
              (r.units == RawUnits.some) := by
  unfold build at h
  simp only [] at h
  split at h
  · cases h
  split at h
  · cases h
  split at h
  · cases h
  split at h
  · cases h
  split at h
  · cases h
  split at h
  · cases h
  rename_i values argMask hav
  split at h
  · cases h
  rename_i hlen
  split at h
  · cases h
  rename_i v hv
  split at h
  · cases h
  split at h
  · cases h
  split at h
  · cases h
  rename_i m hm
  have hk := (suitableValue_ok hv).2.2.2.2.2
  repeat' split at h
  all_goals first | (cases h; done) | skip
  all_goals (cases h; exact ⟨values, argMask, v, m, hav, by omega, hk, rfl⟩)

theorem scalarToArr_nrank (c : Cls) (h : (classInfo c).scalarToArr = true) :
    ∃ n, (classInfo c).nrank = some n ∧ 1 ≤ n := by
  cases c <;> simp [classInfo] at h ⊢

/-- the per-object facts about a well-formed body that the lemmas below use -/
structure BodyFacts (b : Body) : Prop where
  vshape : b.vshape = b.shape ++ b.numer ++ b.denom
  nrank : b.nrank = b.numer.length
  drank : b.drank = b.denom.length
  item : b.item = b.numer ++ b.denom
  rank : b.rank = b.nrank + b.drank
  clsN : ∀ n, (classInfo b.cls).nrank = some n → b.numer.length = n
  sc : b.varr = true ∨ b.vshape = []
  kind : kindOk b.cls b.kind = true

theorem bodyFacts_of {b : Body} {h : Bool} (hb : bodyOk b h = true) : BodyFacts b := by
  simp only [bodyOk, bodyClauses, List.all_cons, List.all_nil, Bool.and_eq_true, beq_iff_eq, id, Bool.or_eq_true,
    List.isEmpty_iff] at hb
  obtain ⟨⟨-, c0⟩, c1, -, ⟨⟨⟨a, b'⟩, r⟩, d⟩, -, -, ⟨e, -⟩, k, -⟩ := hb
  refine ⟨c1, a, b', d, r, ?_, c0, k⟩
  intro n hn; rw [hn] at e; simpa [optAll] using e

/-- the arguments of `cls(values, mask, example=e)` -/
def exIn (e : ObjDump) (a : RawArr) (mask : RawMask) : CtorIn :=
  { cls := e.body.cls, arg := .val a, mask := mask, derivs := some [], units := .none, nrank := none,
    drank := none, exmpl := some e, dflt := none }

theorem vecVal_kind (c : Cls) (a : RawArr) : (vecVal c a).norm.kind = a.kind := by
  unfold vecVal RawArr.norm; split <;> split <;> rfl

/-- the constructor called as `cls(values, mask, example=e)` with `values` of shape `S ++ e.item`:
    it raises, or the new object has leading shape `S` and the example's numerator and denominator -/
theorem ctor_example {e : ObjDump} {a : RawArr} {mask : RawMask} {S : List Nat} {b : Body} {hd : Bool}
    (he : bodyOk e.body hd = true)
    (hs : (vecVal e.body.cls a).norm.shape = S ++ e.body.item)
    (h : ctorCore (exIn e a mask) = some b) :
    b.shape = S ∧ b.numer = e.body.numer ∧ b.denom = e.body.denom ∧ b.kind = suitableKind e.body.cls a.kind
    ∧ b.cls = e.body.cls ∧ bodyOk b false = true := by
  have F := bodyFacts_of he
  have hok := ctorCore_ok h
  unfold ctorCore at h
  change (if (fromArg (exIn e (vecVal e.body.cls a) mask)).bad = true then none
    else build (exIn e (vecVal e.body.cls a) mask)
      (fromExample (exIn e (vecVal e.body.cls a) mask) (fromArg (exIn e (vecVal e.body.cls a) mask)))) = some b at h
  split at h
  · cases h
  obtain ⟨values, am', v, m, h1, -, h3, h4⟩ := build_eq h
  simp only [exIn, asValuesAndMask, Option.some.injEq, Prod.mk.injEq] at h1
  obtain ⟨rfl, -⟩ := h1
  -- the two ranks resolve to the example's
  have hN : (orInt (fromExample (exIn e (vecVal e.body.cls a) mask) (fromArg (exIn e (vecVal e.body.cls a) mask))).nrank
      (classInfo e.body.cls).nrank).toNat = e.body.numer.length := by
    simp only [exIn, fromArg, fromExample, Option.isNone_none, Bool.true_and]
    cases hn : (classInfo e.body.cls).nrank with
    | none =>
      simp [orInt, F.nrank]
      split
      · rename_i h0; simp [h0]
      · simp
    | some n => simp [orInt, F.clsN n hn]
  have hD : (orInt (fromExample (exIn e (vecVal e.body.cls a) mask) (fromArg (exIn e (vecVal e.body.cls a) mask))).drank
      none).toNat = e.body.denom.length := by
    simp only [exIn, fromArg, fromExample, optOr]
    simp [orInt, F.drank]
    split
    · rename_i h0; simp [h0]
    · simp
  have hc : (exIn e (vecVal e.body.cls a) mask).cls = e.body.cls := rfl
  rw [hc] at h4 h3
  rw [hN, hD] at h4
  rw [hs, F.item, ← List.append_assoc] at h4
  obtain ⟨t1, t2, t3, -⟩ := split_append S e.body.numer e.body.denom
  subst h4
  simp only [assemble]
  refine ⟨t1, t2, t3, ?_, trivial, hok.1⟩
  rw [h3, vecVal_kind]

theorem kindOk_suitable (c : Cls) (k : Kind) (h : kindOk c k = true) : suitableKind c k = k := by
  cases c <;> cases k <;> simp_all [kindOk, suitableKind, classInfo]

/-- a scalar-valued well-formed object belongs to a class that does not promote scalars, and has no items -/
theorem scalar_facts {b : Body} (F : BodyFacts b) (hv : b.vshape = []) :
    b.shape = [] ∧ b.numer = [] ∧ b.denom = [] ∧ b.item = [] ∧ (classInfo b.cls).scalarToArr = false := by
  have h := F.vshape
  rw [hv] at h
  have h' := h.symm
  simp only [List.append_eq_nil_iff] at h'
  obtain ⟨⟨h1, h2⟩, h3⟩ := h'
  refine ⟨h1, h2, h3, by rw [F.item, h2, h3]; rfl, ?_⟩
  cases hs : (classInfo b.cls).scalarToArr with
  | false => rfl
  | true =>
    obtain ⟨n, hn, hge⟩ := scalarToArr_nrank b.cls hs
    have := F.clsN n hn
    rw [h2] at this
    simp at this
    omega

/-- the values of a well-formed object, handed to the constructor, are seen with shape `shape ++ item` -/
theorem values_shape {b : Body} (F : BodyFacts b) (k : Kind) (w : Bool) :
    (vecVal b.cls ⟨b.varr, b.vshape, k, w⟩).norm.shape = b.shape ++ b.item := by
  rcases F.sc with hva | hvs
  · simp [vecVal, RawArr.norm, hva, F.vshape, F.item, List.append_assoc]
  · obtain ⟨h1, -, -, h4, h5⟩ := scalar_facts F hvs
    cases hva : b.varr <;> simp [vecVal, RawArr.norm, hva, h5, hvs, h1, h4]

theorem bodyOk_false' {b : Body} {h : Bool} (hb : bodyOk b h = true) : bodyOk b false = true := by
  simp only [bodyOk, bodyClauses, List.all_cons, List.all_nil, Bool.and_eq_true, id] at hb ⊢
  obtain ⟨c1, c2, c3, c4, c5, c6, c7, c8, c9, c10, c11⟩ := hb
  refine ⟨c1, c2, c3, c4, c5, c6, c7, c8, c9, ?_, c11⟩
  cases h <;> simp_all

/-- `as_float()`: raises, or a float object of the same shape, numerator and denominator -/
theorem asFloat_ok {o r : ObjDump} {hd : Bool} (ho : bodyOk o.body hd = true) (hbare : o = bare o.body)
    (h : asFloat o = some r) :
    r.body.kind = .float ∧ r.body.shape = o.body.shape ∧ r.body.numer = o.body.numer
    ∧ bodyOk r.body false = true ∧ r = bare r.body := by
  have F := bodyFacts_of ho
  unfold asFloat at h
  split at h
  · rename_i hk
    cases h
    exact ⟨by simpa using hk, rfl, rfl, bodyOk_false' ho, hbare⟩
  · split at h
    · cases h
    · rename_i hfl
      change (ctorCore (exIn o ⟨o.body.varr, o.body.vshape, .float, true⟩ (maskRaw o.body.mask))).map bare = some r at h
      cases hc : ctorCore (exIn o ⟨o.body.varr, o.body.vshape, .float, true⟩ (maskRaw o.body.mask)) with
      | none => rw [hc] at h; cases h
      | some b =>
        rw [hc] at h
        simp only [Option.map_some, Option.some.injEq] at h
        subst h
        obtain ⟨e1, e2, -, e4, -, e6⟩ := ctor_example ho (values_shape F .float true) hc
        refine ⟨?_, e1, e2, e6, rfl⟩
        show b.kind = Kind.float
        rw [e4]
        have : (classInfo o.body.cls).floatsOk = true := by simpa using hfl
        simp [suitableKind, this]

theorem bodyReadonly_ok' {b : Body} {h : Bool} (hb : bodyOk b h = true) : bodyOk (bodyReadonly b) h = true := by
  unfold bodyReadonly
  split
  · exact hb
  · simp only [bodyOk, bodyClauses, List.all_cons, List.all_nil, Bool.and_eq_true, id] at hb ⊢
    obtain ⟨c1, c2, c3, c4, c5, c6, c7, c8, c9, c10, c11⟩ := hb
    refine ⟨c1, c2, ?_, c4, c5, c6, c7, c8, c9, c10, ?_⟩
    · exact maskToReadonly_ok c3
    · unfold roArraysOk
      cases hv : b.varr <;> cases hm : b.mask <;> simp [maskToReadonly]

theorem bodyReadonly_fields (b : Body) :
    (bodyReadonly b).shape = b.shape ∧ (bodyReadonly b).numer = b.numer ∧ (bodyReadonly b).kind = b.kind
    ∧ (bodyReadonly b).readonly = true ∧ (bodyReadonly b).cls = b.cls := by
  unfold bodyReadonly; split <;> simp_all

theorem toShapelessValues_ok {b : Body} (F : BodyFacts b) {v : RawArr} (h : toShapelessValues b = some v) :
    (vecVal b.cls v).norm.shape = [] ++ b.item ∧ v.kind = b.kind := by
  unfold toShapelessValues at h
  split at h
  · rename_i hr
    have hr' : b.rank = 0 := by simpa using hr
    have hnd : b.numer = [] ∧ b.denom = [] := by
      have := F.rank; rw [hr', F.nrank, F.drank] at this
      constructor
      · exact List.eq_nil_of_length_eq_zero (by omega)
      · exact List.eq_nil_of_length_eq_zero (by omega)
    have hitem : b.item = [] := by rw [F.item, hnd.1, hnd.2]; rfl
    have hsc : (classInfo b.cls).scalarToArr = false := by
      cases hs : (classInfo b.cls).scalarToArr with
      | false => rfl
      | true =>
        obtain ⟨n, hn, hge⟩ := scalarToArr_nrank b.cls hs
        have := F.clsN n hn
        rw [hnd.1] at this; simp at this; omega
    split at h
    · split at h
      · cases h; simp [vecVal, RawArr.norm, hsc, hitem]
      · cases h
    · cases h
      rename_i hva
      simp [vecVal, RawArr.norm, bodyValues, hsc, hitem, hva]
  · split at h
    · cases h; simp [vecVal, RawArr.norm]
    · cases h

/-- `broadcast_to(shape)` of an object without derivatives: raises, or an object of that leading shape with the same
    numerator, kind and class -/
theorem broadcastTo_ok {o r : ObjDump} {S : List Nat} {hd : Bool} (ho : bodyOk o.body hd = true)
    (hbare : o = bare o.body) (h : broadcastTo o S = some r) :
    r.body.shape = S ∧ r.body.numer = o.body.numer ∧ r.body.kind = o.body.kind
    ∧ bodyOk r.body false = true ∧ r = bare r.body := by
  have F := bodyFacts_of ho
  have hk := kindOk_suitable o.body.cls o.body.kind F.kind
  unfold broadcastTo at h
  simp only [] at h
  split at h
  · rename_i he
    cases h
    exact ⟨(by simpa using he : S = o.body.shape).symm, rfl, rfl, bodyOk_false' ho, hbare⟩
  split at h
  · -- shape ()
    rename_i hS
    have hS' : S = [] := by simpa using hS
    split at h
    · rename_i v m hv hm
      change (ctorCore (exIn o v m)).map bare = some r at h
      cases hc : ctorCore (exIn o v m) with
      | none => rw [hc] at h; cases h
      | some b =>
        rw [hc] at h
        simp only [Option.map_some, Option.some.injEq] at h
        subst h
        obtain ⟨hs, hkk⟩ := toShapelessValues_ok F hv
        obtain ⟨e1, e2, -, e4, -, e6⟩ := ctor_example ho hs hc
        refine ⟨by rw [hS']; exact e1, e2, ?_, e6, rfl⟩
        show b.kind = o.body.kind
        rw [e4, hkk, hk]
    · cases h
  · have key : ∀ m : RawMask,
        (ctorCore { cls := o.body.cls, arg := .val ⟨true, S ++ o.body.item, o.body.kind, false⟩, mask := m,
                    derivs := some [], units := .none, nrank := none, drank := none, exmpl := some o,
                    dflt := none }).map (fun r => bare (bodyReadonly r)) = some r →
        r.body.shape = S ∧ r.body.numer = o.body.numer ∧ r.body.kind = o.body.kind
          ∧ bodyOk r.body false = true ∧ r = bare r.body := by
      intro m h
      change (ctorCore (exIn o ⟨true, S ++ o.body.item, o.body.kind, false⟩ m)).map (fun r => bare (bodyReadonly r))
        = some r at h
      cases hc : ctorCore (exIn o ⟨true, S ++ o.body.item, o.body.kind, false⟩ m) with
      | none => rw [hc] at h; cases h
      | some b =>
        rw [hc] at h
        simp only [Option.map_some, Option.some.injEq] at h
        subst h
        have hs : (vecVal o.body.cls ⟨true, S ++ o.body.item, o.body.kind, false⟩).norm.shape = S ++ o.body.item := by
          simp [vecVal, RawArr.norm]
        obtain ⟨e1, e2, -, e4, -, e6⟩ := ctor_example ho hs hc
        obtain ⟨f1, f2, f3, -, -⟩ := bodyReadonly_fields b
        refine ⟨?_, ?_, ?_, bodyReadonly_ok' e6, rfl⟩
        · show (bodyReadonly b).shape = S; rw [f1, e1]
        · show (bodyReadonly b).numer = o.body.numer; rw [f2, e2]
        · show (bodyReadonly b).kind = o.body.kind; rw [f3, e4, hk]
    repeat' split at h
    all_goals first | (cases h; done) | (exact key _ h)

end PMV.C05L
