import PMV.Model.Algebra
import Mathlib.Tactic.Ring
import Mathlib.Tactic.LinearCombination
/-
  Helper lemmas for C16: 3×3 matrices as functions `Nat → Nat → K`, read at indices < 3 only.
-/
namespace PMV.Algebra
variable {K : Type} [CommRing K]

/-- `M Mᵀ = 1` on the 3×3 block -/
def Orthonormal3 (m : Mat K) : Prop := ∀ r c, r < 3 → c < 3 → Mat.mul 3 m m.T r c = Mat.ident r c

/-- two matrices agree on the 3×3 block -/
def Eq3 (a b : Mat K) : Prop := ∀ r c, r < 3 → c < 3 → a r c = b r c

theorem forall_lt3 {P : Nat → Prop} (h0 : P 0) (h1 : P 1) (h2 : P 2) : ∀ r, r < 3 → P r := by
  intro r hr
  match r, hr with
  | 0, _ => exact h0
  | 1, _ => exact h1
  | 2, _ => exact h2

theorem forall_lt3_2 {P : Nat → Nat → Prop}
    (h : P 0 0 ∧ P 0 1 ∧ P 0 2 ∧ P 1 0 ∧ P 1 1 ∧ P 1 2 ∧ P 2 0 ∧ P 2 1 ∧ P 2 2) :
    ∀ r c, r < 3 → c < 3 → P r c := by
  obtain ⟨a, b, c, d, e, f, g, i, j⟩ := h
  intro r c' hr hc
  match r, hr, c', hc with
  | 0, _, 0, _ => exact a | 0, _, 1, _ => exact b | 0, _, 2, _ => exact c
  | 1, _, 0, _ => exact d | 1, _, 1, _ => exact e | 1, _, 2, _ => exact f
  | 2, _, 0, _ => exact g | 2, _, 1, _ => exact i | 2, _, 2, _ => exact j

theorem Eq3.det {a b : Mat K} (h : Eq3 a b) : det3 a = det3 b := by
  simp only [det3, h 0 0 (by omega) (by omega), h 0 1 (by omega) (by omega), h 0 2 (by omega) (by omega),
    h 1 0 (by omega) (by omega), h 1 1 (by omega) (by omega), h 1 2 (by omega) (by omega),
    h 2 0 (by omega) (by omega), h 2 1 (by omega) (by omega), h 2 2 (by omega) (by omega)]

theorem Eq3.orthonormal {a b : Mat K} (h : Eq3 a b) (hb : Orthonormal3 b) : Orthonormal3 a := by
  intro r c hr hc
  have := hb r c hr hc
  simp only [Mat.mul, Mat.T, sumRange] at this ⊢
  rw [h r 0 hr (by omega), h r 1 hr (by omega), h r 2 hr (by omega),
      h c 0 hc (by omega), h c 1 hc (by omega), h c 2 hc (by omega)]
  exact this

/-- products of orthonormal matrices are orthonormal: (AB)(AB)ᵀ = A (B Bᵀ) Aᵀ -/
theorem Orthonormal3.mul {a b : Mat K} (ha : Orthonormal3 a) (hb : Orthonormal3 b) :
    Orthonormal3 (Mat.mul 3 a b) := by
  intro r c hr hc
  have hA := ha r c hr hc
  have b00 := hb 0 0 (by omega) (by omega); have b01 := hb 0 1 (by omega) (by omega)
  have b02 := hb 0 2 (by omega) (by omega); have b10 := hb 1 0 (by omega) (by omega)
  have b11 := hb 1 1 (by omega) (by omega); have b12 := hb 1 2 (by omega) (by omega)
  have b20 := hb 2 0 (by omega) (by omega); have b21 := hb 2 1 (by omega) (by omega)
  have b22 := hb 2 2 (by omega) (by omega)
  simp only [Mat.mul, Mat.T, sumRange, Mat.ident] at hA ⊢
  simp [Mat.mul, Mat.T, sumRange, Mat.ident] at b00 b01 b02 b10 b11 b12 b20 b21 b22
  linear_combination hA + a r 0 * a c 0 * b00 + a r 0 * a c 1 * b01 + a r 0 * a c 2 * b02
    + a r 1 * a c 0 * b10 + a r 1 * a c 1 * b11 + a r 1 * a c 2 * b12
    + a r 2 * a c 0 * b20 + a r 2 * a c 1 * b21 + a r 2 * a c 2 * b22

theorem det3_mul (a b : Mat K) : det3 (Mat.mul 3 a b) = det3 a * det3 b := by
  simp only [det3, Mat.mul, sumRange]
  ring

end PMV.Algebra
