import PMV.Model.Algebra
import Mathlib.Tactic.Ring
/-
  C16 helper lemmas: finite sums `sumRange n f = Σ_{t<n} f t` in a commutative ring.
-/
namespace PMV.Algebra
variable {K : Type}

theorem sumRange_congr [Add K] [Zero K] {n : Nat} {f g : Nat → K} (h : ∀ t, t < n → f t = g t) :
    sumRange n f = sumRange n g := by
  induction n with
  | zero => rfl
  | succ n ih =>
    simp only [sumRange]
    rw [ih (fun t ht => h t (by omega)), h n (by omega)]

variable [CommRing K]

theorem sumRange_zero (n : Nat) : sumRange n (fun _ => (0 : K)) = 0 := by
  induction n with
  | zero => rfl
  | succ n ih => simp [sumRange, ih]

theorem sumRange_add (n : Nat) (f g : Nat → K) :
    sumRange n (fun t => f t + g t) = sumRange n f + sumRange n g := by
  induction n with
  | zero => simp [sumRange]
  | succ n ih => simp only [sumRange, ih]; ring

theorem sumRange_sub (n : Nat) (f g : Nat → K) :
    sumRange n (fun t => f t - g t) = sumRange n f - sumRange n g := by
  induction n with
  | zero => simp [sumRange]
  | succ n ih => simp only [sumRange, ih]; ring

theorem sumRange_mul_left (n : Nat) (c : K) (f : Nat → K) :
    sumRange n (fun t => c * f t) = c * sumRange n f := by
  induction n with
  | zero => simp [sumRange]
  | succ n ih => simp only [sumRange, ih]; ring

theorem sumRange_mul_right (n : Nat) (c : K) (f : Nat → K) :
    sumRange n (fun t => f t * c) = sumRange n f * c := by
  induction n with
  | zero => simp [sumRange]
  | succ n ih => simp only [sumRange, ih]; ring

/-- exchange of two finite sums -/
theorem sumRange_comm (m n : Nat) (f : Nat → Nat → K) :
    sumRange m (fun i => sumRange n (fun j => f i j)) = sumRange n (fun j => sumRange m (fun i => f i j)) := by
  induction m with
  | zero => simp [sumRange, sumRange_zero]
  | succ m ih => simp only [sumRange, ih, sumRange_add]

end PMV.Algebra
