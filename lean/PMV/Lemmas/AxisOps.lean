import PMV.Lemmas.AxisPerm
/-
  The concrete axis orders NumPy builds for swapaxes / rollaxis / moveaxis(single axis) are
  permutations for every rank, only move leading axes when called with leading axes, and the
  orders of inverse calls compose to the identity.
-/
namespace PMV.NpShape
open PMV

theorem isPerm_map_range {n : Nat} (f : Nat → Nat) (hlt : ∀ k, k < n → f k < n)
    (hinj : ∀ x, x < n → ∀ y, y < n → f x = f y → x = y) : IsPerm n ((List.range n).map f) := by
  refine ⟨by simp, ?_, ?_⟩
  · apply List.Nodup.map_on _ List.nodup_range
    intro x hx y hy h
    exact hinj x (List.mem_range.1 hx) y (List.mem_range.1 hy) h
  · intro m hm
    obtain ⟨k, hk, rfl⟩ := List.mem_map.1 hm
    exact hlt k (List.mem_range.1 hk)

theorem permute_map_range {n : Nat} (f g : Nat → Nat) (hg : ∀ k, k < n → g k < n) :
    permute ((List.range n).map g) ((List.range n).map f) = (List.range n).map (fun k => f (g k)) := by
  unfold permute
  rw [List.map_map]
  apply List.map_congr_left
  intro k hk
  have hk' := List.mem_range.1 hk
  simp only [Function.comp]
  rw [getD_of_lt _ _ (by simpa using hg k hk')]
  simp

theorem map_range_lead {L m : Nat} (f f' : Nat → Nat) (h1 : ∀ k, k < L → f' k = f k)
    (h2 : ∀ k, k < m → f' (L + k) = L + k) :
    (List.range (L + m)).map f' = (List.range L).map f ++ tailAxes L m := by
  rw [List.range_add, List.map_append, List.map_map]
  unfold tailAxes
  congr 1
  · exact List.map_congr_left fun k hk => h1 k (List.mem_range.1 hk)
  · exact List.map_congr_left fun k hk => h2 k (List.mem_range.1 hk)

/-! ### swapaxes -/

def swapFn (a b k : Nat) : Nat := if k = a then b else if k = b then a else k

theorem swapPerm_eq (n a b : Nat) : swapPerm n a b = (List.range n).map (swapFn a b) := rfl

theorem swapPerm_isPerm {n a b : Nat} (ha : a < n) (hb : b < n) : IsPerm n (swapPerm n a b) := by
  rw [swapPerm_eq]
  apply isPerm_map_range
  · intro k hk; unfold swapFn; split <;> [exact hb; (split <;> [exact ha; exact hk])]
  · intro x _ y _ h; unfold swapFn at h; split at h <;> split at h <;> (try split at h) <;> (try split at h) <;> omega

/-- swapping the same two axes twice restores the axis order -/
theorem swapPerm_invol {n a b : Nat} (ha : a < n) (hb : b < n) :
    permute (swapPerm n a b) (swapPerm n a b) = List.range n := by
  rw [swapPerm_eq, permute_map_range _ _ (fun k hk => by
    unfold swapFn; split <;> [exact hb; (split <;> [exact ha; exact hk])])]
  conv => rhs; rw [← List.map_id (List.range n)]
  apply List.map_congr_left
  intro k _
  unfold swapFn
  simp only [id]
  split <;> (try split) <;> (try split) <;> (try split) <;> omega

/-- called on a values array `shape ++ item` with two leading axes, swapaxes leaves the item axes in place -/
theorem swapPerm_lead {L a b : Nat} (m : Nat) (ha : a < L) (hb : b < L) :
    swapPerm (L + m) a b = swapPerm L a b ++ tailAxes L m := by
  rw [swapPerm_eq, swapPerm_eq]
  apply map_range_lead
  · intro k _; rfl
  · intro k _; unfold swapFn; split <;> (try split) <;> omega

/-! ### rollaxis -/

/-- closed form of `axes = range(n); axes.remove(a); axes.insert(s, a)` -/
def rollFn (a s k : Nat) : Nat :=
  if k < s then (if k < a then k else k + 1) else if k = s then a else (if k - 1 < a then k - 1 else k)

theorem rollPerm_eq {n a s : Nat} (ha : a < n) (hs : s < n) :
    rollPerm n a s = (List.range n).map (rollFn a s) := by
  unfold rollPerm pyInsert
  have hlen : ((List.range n).eraseIdx a).length = n - 1 := by simp [List.length_eraseIdx, ha]
  have hmin : min s ((List.range n).eraseIdx a).length = s := by rw [hlen]; omega
  rw [hmin]
  apply List.ext_getElem
  · rw [List.length_insertIdx, hlen, if_pos (by omega), List.length_map, List.length_range]; omega
  · intro j h1 h2
    simp only [List.getElem_insertIdx, List.getElem_eraseIdx, List.getElem_range, List.getElem_map, rollFn]
    split <;> (try split) <;> (try split) <;> (try split) <;> (try split) <;> omega

theorem rollFn_lt {n a s k : Nat} (ha : a < n) (hs : s < n) (hk : k < n) : rollFn a s k < n := by
  unfold rollFn; split <;> (try split) <;> (try split) <;> omega

theorem rollPerm_isPerm {n a s : Nat} (ha : a < n) (hs : s < n) : IsPerm n (rollPerm n a s) := by
  rw [rollPerm_eq ha hs]
  apply isPerm_map_range
  · intro k hk; exact rollFn_lt ha hs hk
  · intro x hx y hy h
    unfold rollFn at h
    split at h <;> (try split at h) <;> (try split at h) <;> (try split at h) <;> (try split at h) <;>
      (try split at h) <;> (try split at h) <;> omega

/-- rolling axis `a` to position `s` and then rolling position `s` back to `a` restores the order:
    the order of `rollaxis(·, s, a')` composed with that of `rollaxis(·, a, s')` is the identity -/
theorem rollPerm_inverse {n a s : Nat} (ha : a < n) (hs : s < n) :
    permute (rollPerm n s a) (rollPerm n a s) = List.range n := by
  rw [rollPerm_eq ha hs, rollPerm_eq hs ha, permute_map_range _ _ (fun k hk => rollFn_lt hs ha hk)]
  conv => rhs; rw [← List.map_id (List.range n)]
  apply List.map_congr_left
  intro k hk
  have hk' := List.mem_range.1 hk
  simp only [id, rollFn]
  split <;> (try split) <;> (try split) <;> (try split) <;> (try split) <;> (try split) <;> omega

theorem rollPerm_lead {L a s : Nat} (m : Nat) (ha : a < L) (hs : s < L) :
    rollPerm (L + m) a s = rollPerm L a s ++ tailAxes L m := by
  rw [rollPerm_eq (by omega) (by omega), rollPerm_eq ha hs]
  apply map_range_lead
  · intro k _; rfl
  · intro k _; unfold rollFn; split <;> (try split) <;> (try split) <;> omega

/-! ### moveaxis with a single source and destination is a roll -/

theorem filter_not_contains_single (n s : Nat) (hs : s < n) :
    (List.range n).filter (fun m => !([s].contains m)) = (List.range n).eraseIdx s := by
  have h1 : (List.range n).filter (fun m => !([s].contains m)) = (List.range n).filter (fun x => x != s) := by
    apply List.filter_congr
    intro x _
    by_cases h : x = s <;> simp [h]
  rw [h1, ← List.nodup_range.erase_eq_filter]
  apply List.erase_eq_eraseIdx_of_idxOf
  have : (List.range n)[s]'(by simpa using hs) = s := by simp
  conv => lhs; rw [← this]
  exact List.nodup_range.idxOf_getElem _ _

theorem movePerm_single (n s d : Nat) (hs : s < n) : movePerm n [s] [d] = rollPerm n s d := by
  unfold movePerm rollPerm
  simp only [List.zip_cons_cons, List.zip_nil_right, sortPairs, List.foldr_cons, List.foldr_nil, insPair,
    List.foldl_cons, List.foldl_nil]
  rw [filter_not_contains_single n s hs]

/-! ### moveaxis with any number of axes -/

theorem isPerm_of_perm {n : Nat} {p : List Nat} (h : p.Perm (List.range n)) : IsPerm n p :=
  ⟨by simpa using h.length_eq, h.nodup_iff.2 List.nodup_range, fun m hm => List.mem_range.1 (h.mem_iff.1 hm)⟩

theorem pyInsert_perm (l : List Nat) (i x : Nat) : (pyInsert l i x).Perm (x :: l) :=
  List.perm_insertIdx x l (Nat.min_le_right _ _)

theorem foldl_pyInsert_perm : ∀ (ps : List (Nat × Nat)) (init : List Nat),
    (ps.foldl (fun o p => pyInsert o p.1 p.2) init).Perm (ps.map (·.2) ++ init)
  | [], init => by simp
  | p :: ps, init => by
    simp only [List.foldl_cons, List.map_cons]
    refine (foldl_pyInsert_perm ps _).trans ?_
    exact ((pyInsert_perm init p.1 p.2).append_left _).trans List.perm_middle

theorem insPair_perm (p : Nat × Nat) : ∀ l : List (Nat × Nat), (insPair p l).Perm (p :: l)
  | [] => by simp [insPair]
  | q :: qs => by
    unfold insPair
    split
    · exact List.Perm.refl _
    · exact ((insPair_perm p qs).cons q).trans (List.Perm.swap p q qs)

theorem sortPairs_perm : ∀ l : List (Nat × Nat), (sortPairs l).Perm l
  | [] => by simp [sortPairs]
  | p :: ps => by
    show (insPair p (sortPairs ps)).Perm (p :: ps)
    exact (insPair_perm p _).trans ((sortPairs_perm ps).cons p)

theorem hasDup_false_nodup : ∀ l : List Nat, hasDup l = false → l.Nodup
  | [], _ => List.nodup_nil
  | x :: xs, h => by
    simp only [hasDup, Bool.or_eq_false_iff] at h
    refine List.nodup_cons.2 ⟨?_, hasDup_false_nodup xs h.2⟩
    intro hx
    have := h.1
    simp [hx] at this

/-- the axis order `numpy.moveaxis` builds for ANY number of source axes is a permutation of the axes
    (every axis exactly once), for every rank: nothing is lost or duplicated -/
theorem movePerm_isPerm {n : Nat} {src dst : List Nat} (hnd : src.Nodup) (hlt : ∀ x ∈ src, x < n)
    (hlen : dst.length = src.length) : IsPerm n (movePerm n src dst) := by
  apply isPerm_of_perm
  unfold movePerm
  refine (foldl_pyInsert_perm _ _).trans ?_
  have h1 : ((sortPairs (dst.zip src)).map (·.2)).Perm src := by
    refine ((sortPairs_perm _).map _).trans ?_
    rw [List.map_snd_zip (by omega)]
  have h2 : src.Perm ((List.range n).filter fun m => src.contains m) := by
    rw [List.perm_ext_iff_of_nodup hnd (List.nodup_range.filter _)]
    intro a
    simp only [List.mem_filter, List.mem_range, List.contains_iff_mem]
    exact ⟨fun h => ⟨hlt a h, h⟩, fun h => h.2⟩
  refine ((h1.trans h2).append_right _).trans ?_
  exact List.filter_append_perm _ _

/-! ### moveaxis with any number of axes: leading axes only -/

/-- the order `sorted(zip(destination, source))` uses -/
def PairLe (p q : Nat × Nat) : Prop := p.1 < q.1 ∨ (p.1 = q.1 ∧ p.2 ≤ q.2)

theorem pairLe_total (p q : Nat × Nat) : PairLe p q ∨ PairLe q p := by unfold PairLe; omega
theorem pairLe_trans {p q r : Nat × Nat} (h1 : PairLe p q) (h2 : PairLe q r) : PairLe p r := by
  unfold PairLe at *; omega

theorem insPair_sorted (p : Nat × Nat) : ∀ l : List (Nat × Nat), l.Pairwise PairLe → (insPair p l).Pairwise PairLe
  | [], _ => by simp [insPair]
  | q :: qs, h => by
    unfold insPair
    have hq := List.pairwise_cons.1 h
    split
    · rename_i hc
      refine List.pairwise_cons.2 ⟨?_, h⟩
      intro r hr
      rcases List.mem_cons.1 hr with e | e
      · subst e; exact hc
      · exact pairLe_trans hc (hq.1 r e)
    · rename_i hc
      have hqp : PairLe q p := (pairLe_total p q).resolve_left hc
      refine List.pairwise_cons.2 ⟨?_, insPair_sorted p qs hq.2⟩
      intro r hr
      rcases List.mem_cons.1 ((insPair_perm p qs).mem_iff.1 hr) with e | e
      · subst e; exact hqp
      · exact hq.1 r e

theorem sortPairs_sorted : ∀ l : List (Nat × Nat), (sortPairs l).Pairwise PairLe
  | [] => by simp [sortPairs]
  | p :: ps => insPair_sorted p _ (sortPairs_sorted ps)

/-- strictly increasing numbers below `L`: the first plus the count fits below `L` -/
theorem incr_head_bound {L : Nat} : ∀ (d : Nat) (ds : List Nat), (d :: ds).Pairwise (· < ·) → (∀ x ∈ d :: ds, x < L) →
    d + (ds.length + 1) ≤ L
  | d, [], _, hl => by have := hl d (by simp); simp; omega
  | d, e :: es, hp, hl => by
    have h := List.pairwise_cons.1 hp
    have := incr_head_bound e es h.2 (fun x hx => hl x (by simp [hx]))
    have hde := h.1 e (by simp)
    simp only [List.length_cons] at this ⊢
    omega

/-- every insertion position is inside the part built so far -/
def Fits : List (Nat × Nat) → Nat → Prop
  | [], _ => True
  | p :: ps, len => p.1 ≤ len ∧ Fits ps (len + 1)

theorem fits_of_incr {L : Nat} : ∀ (ps : List (Nat × Nat)) (len : Nat), (ps.map (·.1)).Pairwise (· < ·) →
    (∀ p ∈ ps, p.1 < L) → len + ps.length = L → Fits ps len
  | [], _, _, _, _ => trivial
  | p :: ps, len, hp, hl, hlen => by
    have hb := incr_head_bound p.1 (ps.map (·.1)) (by simpa using hp)
      (by intro x hx
          rcases List.mem_cons.1 hx with e | e
          · subst e; exact hl p (by simp)
          · obtain ⟨q, hq, rfl⟩ := List.mem_map.1 e; exact hl q (by simp [hq]))
    simp only [List.length_map, List.length_cons] at hb hlen
    refine ⟨by omega, fits_of_incr ps (len + 1) ?_ (fun q hq => hl q (by simp [hq])) (by omega)⟩
    exact (List.pairwise_cons.1 (by simpa using hp)).2

theorem insertIdx_append_left (x : Nat) : ∀ (A T : List Nat) (i : Nat), i ≤ A.length →
    (A ++ T).insertIdx i x = A.insertIdx i x ++ T
  | A, T, 0, _ => by simp
  | [], _, i + 1, h => by simp at h
  | a :: A, T, i + 1, h => by
    simp only [List.cons_append, List.insertIdx_succ_cons]
    rw [insertIdx_append_left x A T i (by simpa using h)]

theorem pyInsert_append (A T : List Nat) (i x : Nat) (h : i ≤ A.length) :
    pyInsert (A ++ T) i x = pyInsert A i x ++ T := by
  unfold pyInsert
  have e1 : min i (A ++ T).length = i := by rw [List.length_append]; omega
  have e2 : min i A.length = i := by omega
  rw [e1, e2, insertIdx_append_left x A T i h]

theorem length_pyInsert (A : List Nat) (i x : Nat) : (pyInsert A i x).length = A.length + 1 := by
  unfold pyInsert
  rw [List.length_insertIdx, if_pos (Nat.min_le_right _ _)]

theorem foldl_pyInsert_append (T : List Nat) : ∀ (ps : List (Nat × Nat)) (A : List Nat), Fits ps A.length →
    ps.foldl (fun o p => pyInsert o p.1 p.2) (A ++ T) = ps.foldl (fun o p => pyInsert o p.1 p.2) A ++ T
  | [], _, _ => rfl
  | p :: ps, A, hf => by
    simp only [List.foldl_cons]
    rw [pyInsert_append A T p.1 p.2 hf.1]
    exact foldl_pyInsert_append T ps _ (by rw [length_pyInsert]; exact hf.2)

/-- called with LEADING source and destination axes on an array over `shape ++ item` (`L` leading, `m` item
    axes), `numpy.moveaxis` builds an order that permutes the leading axes and leaves the item axes in place —
    for ANY number of axes moved at once -/
theorem movePerm_lead {L : Nat} (m : Nat) {src dst : List Nat} (hsn : src.Nodup) (hdn : dst.Nodup)
    (hs : ∀ x ∈ src, x < L) (hd : ∀ x ∈ dst, x < L) (hlen : dst.length = src.length) :
    movePerm (L + m) src dst = movePerm L src dst ++ tailAxes L m := by
  unfold movePerm
  have hfil : (List.range (L + m)).filter (fun k => !src.contains k)
      = (List.range L).filter (fun k => !src.contains k) ++ tailAxes L m := by
    rw [List.range_add, List.filter_append]
    congr 1
    apply List.filter_eq_self.2
    intro x hx
    obtain ⟨y, _, rfl⟩ := List.mem_map.1 hx
    have : L + y ∉ src := fun h => by have := hs _ h; omega
    simpa using this
  rw [hfil]
  apply foldl_pyInsert_append
  -- the sorted pairs have strictly increasing destinations, all below L
  have hperm := sortPairs_perm (dst.zip src)
  have hfst : ((sortPairs (dst.zip src)).map (·.1)).Perm dst := by
    refine (hperm.map _).trans ?_
    rw [List.map_fst_zip (by omega)]
  have hnd : ((sortPairs (dst.zip src)).map (·.1)).Nodup := hfst.nodup_iff.2 hdn
  have hsorted := sortPairs_sorted (dst.zip src)
  have hincr : ((sortPairs (dst.zip src)).map (·.1)).Pairwise (· < ·) := by
    rw [List.pairwise_map]
    have hne : (sortPairs (dst.zip src)).Pairwise (fun p q => p.1 ≠ q.1) := by
      have := hnd; unfold List.Nodup at this; rwa [List.pairwise_map] at this
    refine (hsorted.and hne).imp ?_
    intro p q ⟨hle, hn⟩
    unfold PairLe at hle; omega
  apply fits_of_incr (L := L) _ _ hincr
  · intro p hp
    have : p.1 ∈ (sortPairs (dst.zip src)).map (·.1) := List.mem_map.2 ⟨p, hp, rfl⟩
    exact hd _ (hfst.mem_iff.1 this)
  · -- L - k remaining axes plus k pairs
    have hk : (sortPairs (dst.zip src)).length = src.length := by
      rw [hperm.length_eq, List.length_zip]; omega
    have hpart := List.filter_append_perm (fun k => src.contains k) (List.range L)
    have h2 : src.Perm ((List.range L).filter fun k => src.contains k) := by
      rw [List.perm_ext_iff_of_nodup hsn (List.nodup_range.filter _)]
      intro a
      simp only [List.mem_filter, List.mem_range, List.contains_iff_mem]
      exact ⟨fun h => ⟨hs a h, h⟩, fun h => h.2⟩
    have := hpart.length_eq
    rw [List.length_append, ← h2.length_eq, List.length_range] at this
    rw [hk]; omega

end PMV.NpShape
