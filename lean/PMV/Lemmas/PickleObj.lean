import PMV.Lemmas.PickleRound
/-
  The promised result of unpickling (`expect`, `expectDeriv`), well-formedness, and the
  round trip of one object and of one derivative.  Core Lean only.
-/
namespace PMV.Pickle
open PMV

/-- what NumPy / the Qube constructor guarantee about an object -/
structure WFObj (o : Obj) : Prop where
  single : ∀ x, o.vals = .single x → ∃ b, o.mask = .scalar b
  array : ∀ vs items, o.vals = .array vs items →
    vs = o.shape ++ (o.numer ++ o.denom) ∧ items.length = size o.shape ∧
    ArrOK o.dtype (size (o.numer ++ o.denom)) vs items
  mask : ∀ bits, o.mask = .array bits → bits.length = size o.shape

/-- the mask in collapsed form: `True` if everything is masked, `False` if nothing is -/
def canonMask (q : Obj) : Mask :=
  if q.mask.all then .scalar true else if !q.mask.any then .scalar false else q.mask

/-- THE SPECIFICATION: the object the property promises after `loads(dumps(q))` (derivatives
    apart).  Class, shape, numerator, denominator, units, read-only flag and default are
    copied; the mask has the same expansion; a single value is kept; in an array every
    unmasked item is kept bit for bit and every masked item is the default; the arrays are
    writable exactly when the object is not read-only; a single value is kept if unmasked and is the
    default if masked. -/
def expect (q : Obj) : Obj :=
  match q.vals with
  | .single x => { baseOf q q.mask with vals := .single (if q.mask.all then q.default.getD 0 0 else x) }
  | .array _ items =>
    { baseOf q (canonMask q) with
        dtype := if q.mask.all then DType.ofKind q.dtype.kind else q.dtype,
        vals := .array (q.shape ++ (q.numer ++ q.denom)) (fill q.default q.maskBits items),
        valsW := !q.readonly, maskW := !q.readonly }

/-- the antimask `__getstate__` hands to the derivatives (Python `None` = `none`) -/
def Obj.antimask (q : Obj) : Option (List Bool) :=
  match q.vals, q.mask with
  | .array _ _, .array bits => if !q.mask.all && q.mask.any then some (bits.map (!·)) else none
  | _, _ => none

theorem maskBits_scalar_all (q : Obj) (b : Bool) (hm : q.mask = .scalar b) (h : b = true) :
    q.maskBits.all id = true := by
  simp [Obj.maskBits, hm, h]

theorem maskBits_scalar_any (q : Obj) (b : Bool) (hm : q.mask = .scalar b) (h : b = false) :
    q.maskBits.any id = false := by
  simp [Obj.maskBits, hm, h]

theorem maskBits_length (q : Obj) (hq : WFObj q) : q.maskBits.length = size q.shape := by
  unfold Obj.maskBits
  cases hm : q.mask with
  | scalar b => simp [length_indices]
  | array bits => exact hq.mask bits hm

theorem antimask_of_array (q : Obj) (vs : Shape) (items : List Item) (hv : q.vals = .array vs items) :
    q.antimask = (match q.mask with
      | .array bits => if !q.mask.all && q.mask.any then some (bits.map (!·)) else none
      | .scalar _ => none) := by
  unfold Obj.antimask; rw [hv]; cases q.mask <;> rfl

theorem antimask_none_all (q : Obj) (h : q.mask.all = true) : q.antimask = none := by
  cases hv : q.vals with
  | single x => simp [Obj.antimask, hv]
  | array vs items =>
    rw [antimask_of_array q vs items hv]
    cases hm : q.mask with
    | scalar b => rfl
    | array bits => rw [hm] at h; simp [h]

theorem antimask_none_any (q : Obj) (h : q.mask.any = false) : q.antimask = none := by
  cases hv : q.vals with
  | single x => simp [Obj.antimask, hv]
  | array vs items =>
    rw [antimask_of_array q vs items hv]
    cases hm : q.mask with
    | scalar b => rfl
    | array bits => rw [hm] at h; simp [h]

theorem antimask_some_of (q : Obj) (vs : Shape) (items : List Item) (bits : List Bool)
    (hv : q.vals = .array vs items) (hm : q.mask = .array bits) (hall : q.mask.all = false)
    (hany : q.mask.any = true) : q.antimask = some (bits.map (!·)) := by
  rw [antimask_of_array q vs items hv]
  rw [hm] at hall hany ⊢
  simp [hall, hany]

/-- **one object**: decoding the state of `q` gives exactly the promised object, and the same
    antimask the encoder used -/
theorem setstate1_getstate1 (P : Params) (q : Obj) (hq : WFObj q)
    (hF : q.dtype = .float → FloatExact P (checkDigits q.digits).1) :
    (getstate1 P q).2.1 = q.antimask ∧
    setstate1 P (getstate1 P q).1 = some (expect q, q.antimask) := by
  cases hv : q.vals with
  | single x =>
    obtain ⟨b, hm⟩ := hq.single x hv
    obtain ⟨h1, h2⟩ := rt_single P q x b hv hm
    have ha : q.antimask = none := by simp [Obj.antimask, hv]
    refine ⟨by rw [h1, ha], ?_⟩
    rw [h2, ha]; simp [expect, hv, hm, Mask.all]
  | array vs items =>
    obtain ⟨hvs, hil, hok⟩ := hq.array vs items hv
    have hml := maskBits_length q hq
    rcases Bool.eq_false_or_eq_true q.mask.all with hall | hall
    · -- fully masked
      obtain ⟨h1, h2⟩ := rt_allMasked P q vs items hv hall
      have ha : q.antimask = none := antimask_none_all q hall
      refine ⟨by rw [h1, ha], ?_⟩
      rw [h2, ha]
      have hmb : q.maskBits.all id = true := by
        unfold Obj.maskBits
        cases hm : q.mask with
        | scalar b => simp [Mask.all, hm] at hall; simp [hall]
        | array bits => simpa [Mask.all, hm] using hall
      have hfill : fill q.default q.maskBits items = (indices q.shape).map fun _ => q.default := by
        rw [fill_all_true q.default q.maskBits items (by rw [hml, hil]) hmb]
        exact map_const_eq _ _ _ (by rw [hil, length_indices])
      simp [expect, hv, hall, canonMask, hfill, baseOf]
    · rcases Bool.eq_false_or_eq_true q.mask.any with hany | hany
      · -- some but not all masked: the mask is an array
        cases hm : q.mask with
        | scalar b => simp [Mask.all, Mask.any, hm] at hall hany; simp_all
        | array bits =>
          have hbl := hq.mask bits hm
          obtain ⟨h1, h2⟩ := rt_partial P q vs items bits hv hm hall hany hbl hil hok hF
          have ha : q.antimask = some (bits.map (!·)) := antimask_some_of q vs items bits hv hm hall hany
          refine ⟨by rw [h1, ha], ?_⟩
          rw [h2, ha]
          have hmb : q.maskBits = bits := by simp [Obj.maskBits, hm]
          have hall' : (Mask.array bits).all = false := by rw [← hm]; exact hall
          have hany' : (Mask.array bits).any = true := by rw [← hm]; exact hany
          simp [expect, hv, hall', hany', canonMask, hmb, hm, baseOf]
      · -- nothing masked
        obtain ⟨h1, h2⟩ := rt_unmasked P q vs items hv hall hany hok hF
        have ha : q.antimask = none := antimask_none_any q hany
        refine ⟨by rw [h1, ha], ?_⟩
        rw [h2, ha]
        have hmb : q.maskBits.any id = false := by
          unfold Obj.maskBits
          cases hm : q.mask with
          | scalar b => simp [Mask.any, hm] at hany; simp [hany]
          | array bits => simpa [Mask.any, hm] using hany
        have hfill : fill q.default q.maskBits items = items :=
          fill_all_false q.default q.maskBits items (by rw [hml, hil]) hmb
        simp [expect, hv, hall, hany, canonMask, hfill, hvs, baseOf]

/-! ### derivatives -/

/-- the digits setting a derivative is pickled with (pickler.py:924-940) -/
def derivDigits (q d : Obj) : Digits :=
  match q.antimask with
  | none => (checkDigits d.digits).1
  | some _ => (d.digits.getD ((checkDigits q.digits).2, (checkDigits q.digits).2)).1

/-- THE SPECIFICATION for a derivative `d` of `q`: pickled whole when the parent's mask is a
    single bool; otherwise only its items at the parent's unmasked elements are stored, and it
    comes back with the parent's mask and its own default under that mask. -/
def expectDeriv (q d : Obj) : Obj :=
  match q.antimask, d.vals with
  | some _, .array _ items =>
    { baseOf d q.mask with
        dtype := .float,
        vals := .array (q.shape ++ (d.numer ++ d.denom)) (fill d.default q.maskBits items),
        valsW := !d.readonly, maskW := !q.readonly && !d.readonly,
        digits := some (d.digits.getD ((checkDigits q.digits).2, (checkDigits q.digits).2)) }
  | _, _ => expect d

structure WFDeriv (q d : Obj) : Prop where
  wf : WFObj d
  shape : d.shape = q.shape
  float : d.dtype = .float
  ro : q.readonly = true → d.readonly = true
  arr : ∀ vs items, q.vals = .array vs items → ∃ dvs ditems, d.vals = .array dvs ditems

theorem ArrOK.gather {dt : DType} {isz : Nat} {vs : Shape} {items : List Item} (hok : ArrOK dt isz vs items)
    (am : List Bool) (item : Shape) (hitem : size item = isz) :
    ArrOK dt isz ((gather am items).length :: item) (gather am items) := by
  refine ⟨hok.isz_pos, fun it hit => hok.item_len it (gather_mem _ _ _ hit), ?_, ?_, ?_⟩
  · unfold asize
    rw [flatten_length_const _ _ (fun it hit => hok.item_len it (gather_mem _ _ _ hit)), size_cons, hitem]
  · intro w s hd
    obtain ⟨hw, hr⟩ := hok.int_ok w s hd
    exact ⟨hw, fun it hit => hr it (gather_mem _ _ _ hit)⟩
  · intro hd it hit
    exact hok.bool_ok hd it (gather_mem _ _ _ hit)

theorem antimask_some (q : Obj) (am : List Bool) (h : q.antimask = some am) :
    ∃ vs items bits, q.vals = .array vs items ∧ q.mask = .array bits ∧ am = bits.map (!·) ∧
      q.mask.all = false ∧ q.mask.any = true := by
  rcases Bool.eq_false_or_eq_true q.mask.all with hall | hall
  · rw [antimask_none_all q hall] at h; cases h
  · rcases Bool.eq_false_or_eq_true q.mask.any with hany | hany
    · cases hv : q.vals with
      | single x => simp [Obj.antimask, hv] at h
      | array vs items =>
        cases hm : q.mask with
        | scalar b => simp [Obj.antimask, hv, hm] at h
        | array bits =>
          rw [antimask_some_of q vs items bits hv hm hall hany] at h
          exact ⟨vs, items, bits, rfl, rfl, (Option.some.inj h).symm, by rw [← hm]; exact hall,
            by rw [← hm]; exact hany⟩
    · rw [antimask_none_any q hany] at h; cases h

theorem getstate1_readonly (P : Params) (q : Obj) : (getstate1 P q).1.readonly = q.readonly := by
  unfold getstate1
  cases q.vals with
  | single x => rfl
  | array vs items =>
    simp only
    split
    · rfl
    · split <;> rfl

/-- **one derivative** -/
theorem setstateDeriv_getstateDeriv (P : Params) (q d : Obj) (hq : WFObj q) (hd : WFDeriv q d)
    (hF : FloatExact P (derivDigits q d)) :
    setstateDeriv P (expect q) q.antimask (getstateDeriv P (checkDigits q.digits) q.antimask d)
      = some (expectDeriv q d) := by
  have hro : ((expect q).readonly && !d.readonly) = false := by
    have : (expect q).readonly = q.readonly := by unfold expect; cases q.vals <;> rfl
    rw [this]
    rcases Bool.eq_false_or_eq_true q.readonly with h | h
    · simp [hd.ro h]
    · simp [h]
  cases ha : q.antimask with
  | none =>
    have hF' : d.dtype = .float → FloatExact P (checkDigits d.digits).1 := by
      intro _; simpa [derivDigits, ha] using hF
    obtain ⟨_, h2⟩ := setstate1_getstate1 P d hd.wf hF'
    have hr : (expect d).readonly = d.readonly := by unfold expect; cases d.vals <;> rfl
    simp only [setstateDeriv, getstateDeriv, h2, hr, hro]
    simp [expectDeriv, ha]
  | some am =>
    obtain ⟨vs, items, bits, hv, hm, ham, hall, hany⟩ := antimask_some q am ha
    obtain ⟨dvs, ditems, hdv⟩ := hd.arr vs items hv
    obtain ⟨hdvs, hdil, hdok⟩ := hd.wf.array dvs ditems hdv
    have hbl : bits.length = size q.shape := hq.mask bits hm
    have hal : am.length = ditems.length := by rw [ham]; simp [hbl, hdil, hd.shape]
    -- the object whose state is taken: gathered values, no mask
    let d' : Obj := { d with digits := some (d.digits.getD ((checkDigits q.digits).2, (checkDigits q.digits).2)),
                              vals := .array ((gather am ditems).length :: d.item) (gather am ditems),
                              mask := .scalar false }
    have hgs : getstateDeriv P (checkDigits q.digits) (some am) d = (getstate1 P d').1 := by
      simp only [getstateDeriv, hdv]; rfl
    have hok' : ArrOK d'.dtype (size (d'.numer ++ d'.denom)) ((gather am ditems).length :: d.item)
        (gather am ditems) := hdok.gather am d.item rfl
    have hF' : d'.dtype = .float → FloatExact P (checkDigits d'.digits).1 := by
      intro _; simpa [derivDigits, ha, checkDigits, d'] using hF
    obtain ⟨_, h2⟩ := rt_unmasked P d' _ _ rfl rfl rfl hok' hF'
    rw [hgs]
    simp only [setstateDeriv, h2]
    have hcnt : (gather am ditems).length = countTrue am := gather_length am ditems hal
    simp only [baseOf, hcnt, if_true]
    have hqs : (expect q).shape = q.shape := by unfold expect; cases q.vals <;> rfl
    have hqm : (expect q).mask = q.mask := by
      unfold expect; rw [hv]
      simp [canonMask, hall, hany, baseOf]
    have hqw : (expect q).maskW = !q.readonly := by unfold expect; rw [hv]
    have hqr : (expect q).readonly = q.readonly := by unfold expect; cases q.vals <;> rfl
    have hmb : q.maskBits = bits := by simp [Obj.maskBits, hm]
    have hsc : scatter d.default am (gather am ditems) = fill d.default bits ditems := by
      rw [scatter_gather d.default am ditems hal, ham, zipWith_not]; rfl
    have hro' : (q.readonly && !d.readonly) = false := by rw [← hqr]; exact hro
    have hgr := getstate1_readonly P d'
    simp [expectDeriv, ha, hdv, hqs, hqm, hqw, hqr, hmb, hsc, hro', baseOf, Obj.item, d', checkDigits] at hgr ⊢
    simp [hgr]

end PMV.Pickle
