import PMV.Lemmas.GatherSh
/-
  Invariants of shrunken computations needed to apply `unshrink_spec` to the value of an
  expression tree: results of element-wise operations are well formed, have an empty cache and
  a shape that fits the shrunken grid; environments shrunk operand by operand.  Core Lean only.
-/
namespace PMV.Shrink
open PMV
set_option linter.unusedSectionVars false
variable {K : Type} [Inhabited K]

/-! ### objects built by element-wise operations -/

theorem ofCells_lookup (cls : Cls) (s : Shape) (ks : List String) (c : Index → Cell K) (k : String)
    (d : DObj K) (h : lookupD (Q.ofCells cls s ks c).derivs k = some d) :
    d.obj.shape = s ∧ d.back = .none := by
  simp only [Q.ofCells, lookupD_map] at h
  split at h
  · cases h; exact ⟨rfl, rfl⟩
  · cases h

theorem ofCells_wf (cls : Cls) (s : Shape) (ks : List String) (c : Index → Cell K) :
    (Q.ofCells cls s ks c).WF := fun k d h => (ofCells_lookup cls s ks c k d h).1

/-- what `unshrink` needs to know about the object it is given, besides the back-pointer -/
def Good (am : Arr Bool) (gpre : Shape) (y : Q K) : Prop :=
  y.WF ∧ ShrFits am gpre y.obj.shape

/-- the value of an operation: empty cache, derivatives with empty caches -/
def Fresh (y : Q K) : Prop :=
  y.back = .none ∧ ∀ k d, lookupD y.derivs k = some d → d.back = .none

theorem lift2_good (am : Arr Bool) (gpre : Shape) (op : Op2 K) (a b c : Q K)
    (ha : Good am gpre a) (hb : Good am gpre b) (h : lift2 op a b = some c) :
    Good am gpre c ∧ Fresh c := by
  unfold lift2 at h
  cases hs : bcast a.obj.shape b.obj.shape <;> simp only [hs, Option.map_none, Option.map_some] at h
  · cases h
  · next s =>
    cases h
    exact ⟨⟨ofCells_wf _ _ _ _, fit_bcast _ _ _ _ hs ha.2 hb.2⟩, rfl,
      fun k d hk => (ofCells_lookup _ _ _ _ k d hk).2⟩

theorem lift1_good (am : Arr Bool) (gpre : Shape) (op : Op1 K) (a : Q K) (ha : Good am gpre a) :
    Good am gpre (lift1 op a) ∧ Fresh (lift1 op a) :=
  ⟨⟨ofCells_wf _ _ _ _, ha.2⟩, rfl, fun k d hk => (ofCells_lookup _ _ _ _ k d hk).2⟩

theorem eval_good (am : Arr Bool) (gpre : Shape) (env : List (Q K))
    (henv : ∀ x ∈ env, Good am gpre x) : ∀ (e : Expr K) (r : Q K), eval env e = some r →
    Good am gpre r ∧ ((∃ n, e = .var n) ∨ Fresh r)
  | .var n, r, h => by
    simp only [eval] at h
    exact ⟨henv r (List.mem_of_getElem? h), Or.inl ⟨n, rfl⟩⟩
  | .un op e, r, h => by
    simp only [eval] at h
    cases h1 : eval env e <;> simp only [h1, Option.map_none, Option.map_some] at h
    · cases h
    · cases h
      have := lift1_good am gpre op _ (eval_good am gpre env henv e _ h1).1
      exact ⟨this.1, Or.inr this.2⟩
  | .bin op e₁ e₂, r, h => by
    simp only [eval] at h
    cases h1 : eval env e₁ <;> simp only [h1] at h
    · cases h
    · cases h2 : eval env e₂ <;> simp only [h2] at h
      · cases h
      · have := lift2_good am gpre op _ _ r (eval_good am gpre env henv e₁ _ h1).1
          (eval_good am gpre env henv e₂ _ h2).1 h
        exact ⟨this.1, Or.inr this.2⟩

/-! ### environments -/

theorem mapOpt_mem {α β : Type} (f : α → Option β) : ∀ (l : List α) (l' : List β),
    mapOpt f l = some l' → ∀ y ∈ l', ∃ x ∈ l, f x = some y
  | [], l', h, y, hy => by simp only [mapOpt, Option.some.injEq] at h; subst h; simp at hy
  | a :: as, l', h, y, hy => by
    simp only [mapOpt] at h
    cases h1 : f a <;> simp only [h1] at h
    · cases h
    · cases h2 : mapOpt f as <;> simp only [h2] at h
      · cases h
      · cases h
        simp only [List.mem_cons] at hy
        rcases hy with rfl | hy
        · exact ⟨a, by simp, h1⟩
        · obtain ⟨x, hx, hfx⟩ := mapOpt_mem f as _ h2 y hy
          exact ⟨x, by simp [hx], hfx⟩

theorem mapOpt_get {α β : Type} (f : α → Option β) : ∀ (l : List α) (l' : List β),
    mapOpt f l = some l' → ∀ (n : Nat) y, l'[n]? = some y → ∃ x, l[n]? = some x ∧ f x = some y
  | [], l', h, n, y, hy => by simp only [mapOpt, Option.some.injEq] at h; subst h; simp at hy
  | a :: as, l', h, n, y, hy => by
    simp only [mapOpt] at h
    cases h1 : f a <;> simp only [h1] at h
    · cases h
    · cases h2 : mapOpt f as <;> simp only [h2] at h
      · cases h
      · cases h
        cases n with
        | zero =>
          simp only [List.getElem?_cons_zero, Option.some.injEq] at hy
          subst hy; exact ⟨a, by simp, h1⟩
        | succ n =>
          simp only [List.getElem?_cons_succ] at hy ⊢
          exact mapOpt_get f as _ h2 n y hy

/-! ### back-pointers -/

theorem cacheLookup_to (cfg : Cfg) (b : Back K) (o : Obj K) (ds : List (String × Obj K))
    (h : cacheLookup cfg b = .to o ds) : b = .to o ds := by
  unfold cacheLookup at h
  split at h
  · cases h
  · split at h
    · cases h
    · split at h
      · cases h
      · exact h

theorem noCachedPath_of_switch (cfg : Cfg) (b : Back K)
    (h : cfg.ignoreCached = true ∨ cfg.disableCache = true) : NoCachedPath cfg b := by
  intro o ds
  unfold cacheLookup
  rcases h with h | h
  · split
    · simp
    · split <;> simp [h]
  · simp [h]

theorem noCachedPath_none (cfg : Cfg) : NoCachedPath (K := K) cfg .none := by
  intro o ds; unfold cacheLookup; split <;> simp

theorem switch_of_noCachedPath_to (cfg : Cfg) (o : Obj K) (ds : List (String × Obj K))
    (h : NoCachedPath cfg (.to o ds)) : cfg.ignoreCached = true ∨ cfg.disableCache = true := by
  have := h o ds
  unfold cacheLookup at this
  cases h1 : cfg.disableCache
  · cases h2 : cfg.ignoreCached
    · simp [h1, h2] at this
    · exact Or.inl rfl
  · exact Or.inr rfl

theorem valid_append_inv : ∀ (s i t j : List Nat), j.length = t.length → Valid (s ++ t) (i ++ j) →
    Valid s i ∧ Valid t j
  | [], i, t, j, hl, hv => by
    have := valid_length _ _ hv
    simp only [List.nil_append, List.length_append] at this
    have hi : i = [] := List.eq_nil_of_length_eq_zero (by omega)
    subst hi
    exact ⟨trivial, by simpa using hv⟩
  | n :: s, [], t, j, hl, hv => by
    have := valid_length _ _ hv
    simp at this; omega
  | n :: s, k :: i, t, j, hl, hv => by
    have := valid_append_inv s i t j hl hv.2
    exact ⟨⟨hv.1, this.1⟩, this.2⟩

end PMV.Shrink
