import PMV.Model.Index
/-
  C09 — the structural link between `_prep_index`'s ABSOLUTE axis bookkeeping (`inlocs`, corrected
  after the Ellipsis; `self._shape_[inloc]`) and a PROGRESSIVE reading of the index (each entry
  consumes a prefix of the remaining shape), which is how NumPy (`NpIndex.atoms`) and the
  specification read it.  Core Lean only.
-/
namespace PMV.Index
open PMV PMV.NpIndex

/-- input axes an entry moves forward by when the Ellipsis stands for `w` axes -/
def Entry.padv (w : Nat) (e : Entry) : Nat := if e.isEll then w else e.advance

/-- progressive input locations: like `inlocsFrom`, the Ellipsis advancing by `w` -/
def plocs (w : Nat) : Nat → List Entry → List Nat
  | _, [] => []
  | a, e :: r => a :: plocs w (a + e.padv w) r

theorem plocs_noEll (w : Nat) : ∀ (es : List Entry) (a : Nat), es.all (fun e => !e.isEll) = true →
    plocs w a es = inlocsFrom a es := by
  intro es
  induction es with
  | nil => intro a _; rfl
  | cons e r ih =>
    intro a h
    simp only [List.all_cons, Bool.and_eq_true] at h
    have he : e.isEll = false := by simpa using h.1
    simp [plocs, inlocsFrom, Entry.padv, he, ih _ h.2]

theorem inlocsFrom_shift (c : Nat) : ∀ (es : List Entry) (a : Nat),
    (inlocsFrom a es).map (· + c) = inlocsFrom (a + c) es := by
  intro es
  induction es with
  | nil => intro a; rfl
  | cons e r ih =>
    intro a
    simp only [inlocsFrom, List.map_cons, ih]
    congr 2
    omega

theorem zipIdx_shift_all (c k : Nat) : ∀ (l : List Nat) (i : Nat), k < i →
    (l.zipIdx i).map (fun (p : Nat × Nat) => if p.2 > k then p.1 + c else p.1) = l.map (· + c) := by
  intro l
  induction l with
  | nil => intro i _; rfl
  | cons x r ih =>
    intro i hi
    simp only [List.zipIdx_cons, List.map_cons]
    rw [ih (i + 1) (by omega)]
    simp [hi]

/-- indexer.py:326-331: adding the correction to the inlocs after the Ellipsis gives the
    progressive locations (at most one Ellipsis) -/
theorem locs_progressive (c : Nat) : ∀ (es : List Entry) (a i k : Nat),
    es.findIdx? Entry.isEll = some k → (es.filter Entry.isEll).length ≤ 1 →
    ((inlocsFrom a es).zipIdx i).map (fun (p : Nat × Nat) => if p.2 > i + k then p.1 + c else p.1)
      = plocs c a es := by
  intro es
  induction es with
  | nil => intro a i k h _; simp at h
  | cons e r ih =>
    intro a i k h hc
    cases he : e.isEll with
    | true =>
      have hk : k = 0 := by simpa [List.findIdx?_cons, he] using h.symm
      subst hk
      have hr : r.all (fun e => !e.isEll) = true := by
        simp only [List.filter_cons, he, if_true, List.length_cons] at hc
        have h0 : (r.filter Entry.isEll).length = 0 := by omega
        have : r.filter Entry.isEll = [] := List.length_eq_zero_iff.mp h0
        rw [List.all_eq_true]
        intro x hx
        have := List.filter_eq_nil_iff.mp this x hx
        simpa using this
      simp only [inlocsFrom, List.zipIdx_cons, List.map_cons, plocs, Entry.padv, he, if_true]
      rw [zipIdx_shift_all c (i + 0) _ (i + 1) (by omega), inlocsFrom_shift, plocs_noEll _ _ _ hr]
      have ha : e.advance = 0 := by cases e <;> simp_all [Entry.isEll, Entry.advance]
      simp [ha]
    | false =>
      simp only [List.findIdx?_cons, he] at h
      cases hf : r.findIdx? Entry.isEll with
      | none => simp [hf] at h
      | some k' =>
        have hk : k = k' + 1 := by simpa [hf] using h.symm
        subst hk
        have hc' : (r.filter Entry.isEll).length ≤ 1 := by
          simpa [List.filter_cons, he] using hc
        simp only [inlocsFrom, List.zipIdx_cons, List.map_cons, plocs, Entry.padv, he]
        have := ih (a + e.advance) (i + 1) k' hf hc'
        have e1 : i + 1 + k' = i + (k' + 1) := by omega
        rw [e1] at this
        rw [this]
        have : ¬ (i + (k' + 1) < i) := by omega
        simp [this]

/-- `prepEntry` only looks at the shape from `inloc` on -/
theorem prepEntry_shift (done rest : Shape) (e : Entry) :
    prepEntry (done ++ rest) done.length e = prepEntry rest 0 e := by
  have h1 : (done ++ rest)[done.length]? = rest[0]? := by
    rw [List.getElem?_append_right (Nat.le_refl _)]; simp
  have h2 : (done ++ rest).drop done.length = rest := by simp
  cases e <;> simp only [prepEntry, h1, prepBoolArr, h2, List.drop_zero]

/-- the loop of `_prep_index` read progressively: every entry sees the remaining shape -/
def prog (w : Nat) : Shape → List Entry → PostMask → Option (List NEntry × PostMask × List Shape)
  | _, [], post => some ([], post, [])
  | rest, e :: es, post =>
    match prepEntry rest 0 e with
    | none => none
    | some (p, u, s) =>
      match u.apply post with
      | none => none
      | some post' =>
        match prog w (rest.drop (e.padv w)) es post' with
        | none => none
        | some (ps, post'', ss) => some (p :: ps, post'', s.toList ++ ss)

/-- the Ellipsis (if any) finds at least `w` axes left -/
def EllFits (w : Nat) : Nat → List Entry → Prop
  | _, [] => True
  | n, e :: r => (e.isEll = true → w ≤ n) ∧ EllFits w (n - e.padv w) r

/-- a consuming entry that `prepEntry` accepts finds the axes it consumes -/
theorem prepEntry_some_advance (rest : Shape) (e : Entry) (x : NEntry × PostUpd × Option Shape)
    (h : prepEntry rest 0 e = some x) : e.advance ≤ rest.length := by
  cases e with
  | none => simp [Entry.advance]
  | ell => simp [Entry.advance]
  | barr v m =>
    simp only [prepEntry] at h
    cases hr : rest[0]? with
    | none => simp [hr] at h
    | some n =>
      simp only [hr, prepBoolArr, List.drop_zero] at h
      by_cases hs : rest.take v.shape.length = v.shape
      · have := congrArg List.length hs
        simp only [List.length_take] at this
        simp only [Entry.advance]; omega
      · simp [hs] at h
  | _ =>
    simp only [prepEntry] at h
    cases hr : rest[0]? with
    | none => simp [hr] at h
    | some n =>
      have : 0 < rest.length := by
        cases rest with
        | nil => simp at hr
        | cons _ _ => simp
      simp only [Entry.advance]; omega

/-- **absolute = progressive.**  With the corrected inlocs, the loop of `_prep_index` over the
    whole shape `done ++ rest`, started at input location `|done|`, is the progressive loop on
    `rest`. -/
theorem prepLoop_prog (w : Nat) : ∀ (es : List Entry) (done rest : Shape) (post : PostMask),
    EllFits w rest.length es →
    prepLoop (done ++ rest) es (plocs w done.length es) post = prog w rest es post := by
  intro es
  induction es with
  | nil => intro done rest post _; rfl
  | cons e es ih =>
    intro done rest post hf
    obtain ⟨hf1, hf2⟩ := hf
    simp only [plocs, prepLoop, prog, prepEntry_shift]
    cases hpe : prepEntry rest 0 e with
    | none => rfl
    | some x =>
      obtain ⟨p, u, s⟩ := x
      simp only
      cases hu : u.apply post with
      | none => rfl
      | some post' =>
        simp only
        have hle : e.padv w ≤ rest.length := by
          unfold Entry.padv
          split
          · rename_i he; exact hf1 he
          · exact prepEntry_some_advance rest e _ hpe
        have hsplit : done ++ rest = (done ++ rest.take (e.padv w)) ++ rest.drop (e.padv w) := by
          simp
        have hlen : (done ++ rest.take (e.padv w)).length = done.length + e.padv w := by
          simp [List.length_take]; omega
        have := ih (done ++ rest.take (e.padv w)) (rest.drop (e.padv w)) post'
          (by simpa [List.length_drop] using hf2)
        rw [hlen, ← hsplit] at this
        rw [this]
        cases prog w (List.drop (Entry.padv w e) rest) es post' <;> rfl

end PMV.Index
