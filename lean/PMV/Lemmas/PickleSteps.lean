import PMV.Lemmas.PickleCorners
/-
  Decoding undoes encoding, step by step (values, masks).  Core Lean only.
-/
namespace PMV.Pickle
open PMV

/-- the float encoder is exact for this digits setting: always for 'double'; otherwise only if
    the method chosen by the data-dependent thresholds happens to be exact -/
def FloatExact (P : Params) (d : Digits) : Prop :=
  d = .double ∨ ∀ dd vs items, P.lossyDec (P.lossyEnc dd vs items) = items

/-- an array of `dt` values given as items: what NumPy guarantees about it -/
structure ArrOK (dt : DType) (isz : Nat) (vshape : Shape) (items : List Item) : Prop where
  isz_pos : 0 < isz
  item_len : ∀ it ∈ items, it.length = isz
  size_eq : asize items = size vshape
  int_ok : ∀ w s, dt = .int w s → 0 < w ∧ ∀ it ∈ items, ∀ x ∈ it, x < 256 ^ w
  bool_ok : dt = .bool → ∀ it ∈ items, ∀ x ∈ it, x < 2

theorem size_cons (n : Nat) (s : Shape) : size (n :: s) = n * size s := rfl

theorem size_append : ∀ (a b : Shape), size (a ++ b) = size a * size b
  | [], b => by simp [size]
  | n :: a, b => by
    rw [List.cons_append, size_cons, size_cons, size_append a b, Nat.mul_assoc]

theorem length_flatMap_const {α β : Type} (f : α → List β) (w : Nat) (hf : ∀ x, (f x).length = w) :
    ∀ xs : List α, (xs.flatMap f).length = xs.length * w
  | [] => by simp
  | x :: xs => by
    rw [List.flatMap_cons, List.length_append, length_flatMap_const f w hf xs, hf]
    simp [Nat.succ_mul, Nat.add_comm]

theorem decodeFloats_encodeFloats (P : Params) (d : Digits) (fails : Bool) (vs : Shape) (items : List Item)
    (h : FloatExact P d) : decodeFloats P (encodeFloats P d fails vs items) = items := by
  unfold encodeFloats
  by_cases hc : asize items ≤ P.cutoff
  · simp [hc, decodeFloats]
  · cases fails
    · cases d with
      | double => simp [hc, decodeFloats, P.fpzip.roundtrip]
      | single =>
        rcases h with h | h
        · cases h
        · simp [hc, decodeFloats, h]
      | num t =>
        rcases h with h | h
        · cases h
        · simp [hc, decodeFloats, h]
    · simp [hc, decodeFloats]

theorem encodeFloats_vshape (P : Params) (d : Digits) (fails : Bool) (vs : Shape) (items : List Item) :
    (encodeFloats P d fails vs items).vshape = vs := by
  unfold encodeFloats
  by_cases h : asize items ≤ P.cutoff
  · simp [h, FEnc.vshape]
  · cases d <;> cases fails <;> simp [h, FEnc.vshape]

theorem decodeInts_intBytes (be : Bool) (w isz : Nat) (vs : Shape) (items : List Item)
    (hw : 0 < w) (hisz : 0 < isz) (hlen : ∀ it ∈ items, it.length = isz)
    (hsize : asize items = size vs) (hr : ∀ it ∈ items, ∀ x ∈ it, x < 256 ^ w) :
    decodeInts be w isz vs (intBytes be w items) = some items := by
  have hbl : (intBytes be w items).length = items.flatten.length * w :=
    length_flatMap_const (wordBytes be w) w (wordBytes_length be w) _
  have hflat : (chunks w (intBytes be w items).length (intBytes be w items)).map (ofWordBytes be) = items.flatten := by
    apply map_ofLe_chunks be w hw
    · intro x hx
      obtain ⟨it, hit, hxi⟩ := List.mem_flatten.mp hx
      exact hr it hit x hxi
    · rw [hbl]; exact Nat.le_mul_of_pos_right _ hw
  unfold decodeInts
  rw [if_neg (by
    intro h
    rcases h with h | h
    · omega
    · rw [hbl, Nat.mul_mod_left] at h; exact h rfl)]
  simp only [hflat]
  rw [if_pos (by unfold asize at hsize; exact hsize)]
  rw [chunks_flatten isz hisz items _ hlen (by
    rw [flatten_length_const isz items hlen]; exact Nat.le_mul_of_pos_right _ hisz)]

theorem map_bit_ne (xs : List Nat) (h : ∀ x ∈ xs, x < 2) : (xs.map fun x => x != 0).map bit = xs := by
  induction xs with
  | nil => rfl
  | cons x xs ih =>
    have hx := h x (by simp)
    simp only [List.map_cons]
    rw [ih (fun y hy => h y (by simp [hy]))]
    have : bit (x != 0) = x := by
      cases x with
      | zero => rfl
      | succ x =>
        cases x with
        | zero => rfl
        | succ x => omega
    rw [this]

theorem packbits_roundtrip' (bs : List Bool) : (unpackbits (packbits bs)).take bs.length = bs :=
  packbitsF_roundtrip bs.length bs (Nat.le_refl _)

def DType.isInt : DType → Bool
  | .int _ _ => true
  | _ => false

theorem valueStep_nonempty (P : Params) (dt : DType) (d : Digits) (fails : Bool) (vs : Shape)
    (items : List Item) : (valueStep P dt d fails vs items).1.isEmpty = false := by
  cases dt <;> rfl

/-- one value step of `__setstate__` undoes the value step of `__getstate__` -/
theorem decodeVals_valueStep (P : Params) (s : St) (am : Option (List Bool)) (dt : DType) (d : Digits)
    (fails : Bool) (vs : Shape) (items : List Item) (rest : List VStep) (viw : Bool)
    (hok : ArrOK dt (size (s.numer ++ s.denom)) vs items) (hF : dt = .float → FloatExact P d) :
    decodeValsLoop P s am ((valueStep P dt d fails vs items).1.reverse ++ rest)
        (valueStep P dt d fails vs items).2 viw
      = decodeValsLoop P s am rest
          (.arr dt vs items (!dt.isInt)) (!dt.isInt || viw) := by
  cases dt with
  | float =>
    simp only [valueStep, List.reverse_cons, List.reverse_nil, List.nil_append, List.singleton_append,
      decodeValsLoop]
    rw [decodeFloats_encodeFloats P d fails vs items (hF rfl), encodeFloats_vshape]
    rfl
  | int w sg =>
    obtain ⟨hw, hr⟩ := hok.int_ok w sg rfl
    simp only [valueStep, List.reverse_cons, List.reverse_nil, List.nil_append, List.singleton_append,
      decodeValsLoop, Option.getD_some, P.bz2.roundtrip]
    rw [decodeInts_intBytes sg.be w _ vs items hw hok.isz_pos hok.item_len hok.size_eq hr]
    rfl
  | bool =>
    simp only [valueStep, List.reverse_cons, List.reverse_nil, List.nil_append, List.singleton_append,
      decodeValsLoop, P.bz2.roundtrip]
    have hb := hok.bool_ok rfl
    have h1 : asize items = (items.flatten.map fun x => x != 0).length := by
      unfold asize; rw [List.length_map]
    rw [h1, packbits_roundtrip']
    rw [map_bit_ne items.flatten (by
      intro x hx
      obtain ⟨it, hit, hxi⟩ := List.mem_flatten.mp hx
      exact hb it hit x hxi)]
    rw [chunks_flatten _ hok.isz_pos items _ hok.item_len (by
      rw [flatten_length_const _ items hok.item_len]; exact Nat.le_mul_of_pos_right _ hok.isz_pos)]
    rfl

end PMV.Pickle
