import PMV.Model.WF
/- helper lemmas for Props/C05.lean: the constructor model establishes every per-object clause of WF -/
namespace PMV.C05L
open PMV PMV.Gen PMV.WF

theorem split3 (l : List Nat) (nrank drank : Nat) (h : nrank + drank ≤ l.length) :
    l = l.take (l.length - drank - nrank) ++ ((l.drop (l.length - drank - nrank)).take nrank) ++ l.drop (l.length - drank)
    ∧ ((l.drop (l.length - drank - nrank)).take nrank).length = nrank
    ∧ (l.drop (l.length - drank)).length = drank
    ∧ l.drop (l.length - drank - nrank) = ((l.drop (l.length - drank - nrank)).take nrank) ++ l.drop (l.length - drank) := by
  have e : l.drop (l.length - drank) = (l.drop (l.length - drank - nrank)).drop nrank := by
    rw [List.drop_drop]; congr 1; omega
  refine ⟨?_, ?_, ?_, ?_⟩
  · rw [e, List.append_assoc, List.take_append_drop, List.take_append_drop]
  · simp; omega
  · simp; omega
  · rw [e, List.take_append_drop]

theorem suitableKind_ok (c : Cls) (k : Kind) (h : k ≠ .other) : kindOk c (suitableKind c k) = true := by
  cases c <;> cases k <;> first | (exact absurd rfl h) | decide

theorem dflt_numer (c : Cls) (d : List Nat) (h : (classInfo c).dflt = some d) : (classInfo c).numer = some d := by
  cases c <;> simp [classInfo] at h ⊢ <;> exact h


theorem suitableMask_ok {m shape m'} (h : suitableMask m shape = some m') : maskOk m' shape = true := by
  unfold suitableMask at h
  split at h
  · cases h; rfl
  · cases h; rfl
  · split at h
    · cases h; simp_all [maskOk]
    · split at h
      · cases h; simp [maskOk]
      · cases h
  · cases h

theorem maskToReadonly_ok {m shape} (h : maskOk m shape = true) : maskOk (maskToReadonly m) shape = true := by
  cases m <;> simp_all [maskOk, maskToReadonly]

@[simp] theorem squeeze0_shape (v : RawArr) : (squeeze0 v).shape = v.shape := by
  unfold squeeze0; split <;> rfl
@[simp] theorem squeeze0_kind (v : RawArr) : (squeeze0 v).kind = v.kind := by
  unfold squeeze0; split <;> rfl
@[simp] theorem castTo_shape (k : Kind) (v : RawArr) : (castTo k v).shape = v.shape := by
  unfold castTo; split <;> rfl
@[simp] theorem castTo_kind (k : Kind) (v : RawArr) : (castTo k v).kind = k := by
  unfold castTo; split <;> simp_all

theorem suitableNumer_ok {c numer n} (h : suitableNumer c numer = some n) :
    n = numer ∧ optAll (classInfo c).numer (fun n => numer == n) = true
    ∧ optAll (classInfo c).nrank (fun n => numer.length == n) = true := by
  unfold suitableNumer at h
  split at h
  · cases h
  · split at h
    · cases h
    · cases h; simp_all

theorem suitableValue_ok {c v numer denom v'} (h : suitableValue c v numer denom = some v') :
    kindOk c v'.kind = true ∧ optAll (classInfo c).numer (fun n => numer == n) = true
    ∧ optAll (classInfo c).nrank (fun n => numer.length == n) = true
    ∧ (v'.shape = v.shape ∨ (v.shape.length < (numer ++ denom).length))
    ∧ ((v.isArr = true ∨ v.shape = []) → (v'.isArr = true ∨ v'.shape = []))
    ∧ v'.kind = suitableKind c v.kind := by
  unfold suitableValue at h
  split at h
  · cases h
  · rename_i hk
    have hk' : v.kind ≠ .other := by simpa using hk
    have key := suitableKind_ok c v.kind hk'
    split at h
    · cases h
    · rename_i n hn
      obtain ⟨rfl, h1, h2⟩ := suitableNumer_ok hn
      simp only [] at h
      split at h
      · rename_i hl
        cases h
        simp only [castTo_shape, squeeze0_shape] at hl
        exact ⟨by simpa using key, h1, h2, Or.inr hl, fun _ => Or.inl rfl, by simp⟩
      · cases h
        refine ⟨by simpa using key, h1, h2, Or.inl (by simp), ?_, by simp⟩
        intro hv
        unfold castTo squeeze0
        split <;> split <;> simp_all

theorem assemble_ok (cls : Cls) (v : RawArr) (m : MaskD) (l : List Nat) (nrank drank : Nat) (dshape : List Nat)
    (units : Bool)
    (hlen : nrank + drank ≤ l.length) (hv : v.shape = l) (hk : kindOk cls v.kind = true)
    (hsc : v.isArr = true ∨ v.shape = [])
    (hn1 : optAll (classInfo cls).numer (fun n => (l.drop (l.length - drank - nrank)).take nrank == n) = true)
    (hn2 : optAll (classInfo cls).nrank (fun n => ((l.drop (l.length - drank - nrank)).take nrank).length == n) = true)
    (hm : maskOk m (l.take (l.length - drank - nrank)) = true)
    (hd : dshape = l.drop (l.length - drank - nrank))
    (hu : units = true → (classInfo cls).unitsOk = true)
    (hdr : drank ≠ 0 → (classInfo cls).derivsOk = true) :
    bodyOk (assemble cls v m l nrank drank dshape units) false = true := by
  obtain ⟨s1, s2, s3, s4⟩ := split3 l nrank drank hlen
  simp only [bodyOk, bodyClauses, assemble, List.all_cons, List.all_nil, id, Bool.and_true, Bool.and_eq_true,
    beq_iff_eq, Bool.or_eq_true, Bool.not_eq_true', List.isEmpty_iff, Bool.not_false, true_and,
    and_true, Bool.true_and]
  refine ⟨?_, ?_, ?_, ⟨⟨s2.symm, s3.symm⟩, s4⟩, hd, ⟨hn2, hn1⟩, hk, ?_, ?_, ?_⟩
  · rcases hsc with h | h
    · exact Or.inl h
    · exact Or.inr (hv ▸ h)
  · rw [hv]; exact s1
  · split
    · exact maskToReadonly_ok hm
    · exact hm
  · cases units
    · exact Or.inl rfl
    · exact Or.inr (hu rfl)
  · by_cases h0 : drank = 0
    · left; exact List.eq_nil_of_length_eq_zero (s3.trans h0)
    · right; exact hdr h0
  · unfold roArraysOk
    simp only []
    cases hva : v.isArr <;> cases hvw : v.writable <;> simp
    cases m <;> simp [maskToReadonly]

theorem defaultShape_ok (cls : Cls) (dflt : Option (List Nat × Kind)) (l : List Nat) (nrank drank : Nat)
    (hlen : nrank + drank ≤ l.length)
    (hn1 : optAll (classInfo cls).numer (fun n => (l.drop (l.length - drank - nrank)).take nrank == n) = true) :
    defaultShape (classInfo cls) dflt drank (l.drop (l.length - drank - nrank)) = l.drop (l.length - drank - nrank) := by
  obtain ⟨s1, s2, s3, s4⟩ := split3 l nrank drank hlen
  have hc : (match (classInfo cls).dflt with
      | some d => (if (drank == 0) = true then d else l.drop (l.length - drank - nrank))
      | none => l.drop (l.length - drank - nrank)) = l.drop (l.length - drank - nrank) := by
    cases hd : (classInfo cls).dflt with
    | none => rfl
    | some d =>
      simp only []
      split
      · rename_i h0
        have h0' : drank = 0 := by simpa using h0
        have hnum := dflt_numer cls d hd
        rw [hnum] at hn1
        simp only [optAll, beq_iff_eq] at hn1
        have e : l.drop (l.length - drank) = [] := List.eq_nil_of_length_eq_zero (s3.trans h0')
        rw [s4, e, hn1]; simp
      · rfl
  unfold defaultShape
  simp only []
  cases dflt with
  | none => exact hc
  | some p =>
    obtain ⟨s, k⟩ := p
    simp only []
    split
    · rename_i h; simpa using h
    · exact hc

theorem norm_sc (a : RawArr) : a.norm.isArr = true ∨ a.norm.shape = [] := by
  unfold RawArr.norm; split <;> simp_all

theorem asValuesAndMask_norm {arg values am} (h : asValuesAndMask arg = some (values, am)) :
    values.isArr = true ∨ values.shape = [] := by
  cases arg with
  | val a => simp only [asValuesAndMask, Option.some.injEq, Prod.mk.injEq] at h; rw [← h.1]; exact norm_sc a
  | qube o => simp only [asValuesAndMask, Option.some.injEq, Prod.mk.injEq] at h; rw [← h.1]; exact norm_sc _
  | bad => cases h

theorem build_ok {i : CtorIn} {r : Resolved} {b : Body} (h : build i r = some b) :
    bodyOk b false = true ∧ b.cls = i.cls ∧ (derivsGiven i = true → (classInfo i.cls).derivsOk = true) := by
  unfold build at h
  simp only [] at h
  split at h
  · cases h
  rename_i hneg
  split at h
  · cases h
  rename_i hdg
  split at h
  · cases h
  rename_i hun
  split at h
  · cases h
  rename_i hnr
  split at h
  · cases h
  rename_i hdr
  split at h
  · cases h
  rename_i values argMask hav
  split at h
  · cases h
  rename_i hlen
  split at h
  · cases h
  rename_i v hv
  split at h
  · cases h
  rename_i m1 hm1
  split at h
  · cases h
  rename_i m2 hm2
  split at h
  · cases h
  rename_i m hm
  have hlen' : (orInt r.nrank (classInfo i.cls).nrank).toNat + (orInt r.drank none).toNat ≤ values.shape.length := by omega
  obtain ⟨s1, s2, s3, s4⟩ := split3 values.shape _ _ hlen'
  obtain ⟨k1, k2, k3, k4, k5, -⟩ := suitableValue_ok hv
  have hnorm : values.isArr = true ∨ values.shape = [] := asValuesAndMask_norm hav
  have hvs : v.shape = values.shape := by
    rcases k4 with k4 | k4
    · exact k4
    · rw [List.length_append, s2, s3] at k4; omega
  have key : bodyOk (assemble i.cls v m values.shape (orInt r.nrank (classInfo i.cls).nrank).toNat
      (orInt r.drank none).toNat (defaultShape (classInfo i.cls) r.dflt (orInt r.drank none).toNat
        (List.drop (values.shape.length - (orInt r.drank none).toNat - (orInt r.nrank (classInfo i.cls).nrank).toNat)
          values.shape)) (r.units == RawUnits.some)) false = true := by
    refine assemble_ok _ _ _ _ _ _ _ _ hlen' hvs k1 (k5 hnorm) k2 k3 (suitableMask_ok hm)
      (defaultShape_ok _ _ _ _ _ hlen' k2) ?_ ?_
    · intro hu
      cases hok : (classInfo i.cls).unitsOk
      · simp [hu, hok] at hun
      · rfl
    · intro hd0
      cases hok : (classInfo i.cls).derivsOk
      · have : orInt r.drank none ≠ 0 := by
          intro e; rw [e] at hd0; exact hd0 rfl
        simp [hok, this] at hdr
      · rfl
  have dg : derivsGiven i = true → (classInfo i.cls).derivsOk = true := by
    intro hg
    cases hok : (classInfo i.cls).derivsOk
    · simp [hg, hok] at hdg
    · rfl
  repeat' split at h
  all_goals first | (cases h; done) | skip
  all_goals (cases h; exact ⟨key, rfl, dg⟩)

theorem ctorCore_ok {i : CtorIn} {b : Body} (h : ctorCore i = some b) :
    bodyOk b false = true ∧ b.cls = i.cls ∧ (derivsGiven i = true → (classInfo i.cls).derivsOk = true) := by
  unfold ctorCore at h
  simp only [] at h
  split at h
  · cases h
  · have := build_ok h
    refine ⟨this.1, this.2.1, ?_⟩
    intro hg
    apply this.2.2
    simp only [derivsGiven] at hg ⊢
    cases hd : i.derivs with
    | some l => simpa [hd] using hg
    | none =>
      rw [hd] at hg
      cases ha : i.arg with
      | qube a => simpa [ha, vectorArg] using hg
      | val a => simp [ha] at hg
      | bad => simp [ha] at hg

end PMV.C05L
