import PMV.Lemmas.AlgebraMat3
import Mathlib.LinearAlgebra.Matrix.NonsingularInverse
/- C16 helper: for 3×3 matrices over a commutative ring M Mᵀ = 1 implies Mᵀ M = 1
   (Mathlib: a one-sided inverse of a square matrix is two-sided). -/
namespace PMV.Algebra
variable {K : Type} [CommRing K]

def toMatrix (m : Mat K) : Matrix (Fin 3) (Fin 3) K := fun i j => m i.val j.val

theorem Orthonormal3.transpose {m : Mat K} (h : Orthonormal3 m) : Orthonormal3 m.T := by
  have H : toMatrix m * (toMatrix m).transpose = 1 := by
    ext i j
    have := h i.val j.val i.2 j.2
    simp only [Mat.mul, sumRange, Mat.T, Mat.ident] at this
    simp only [Matrix.mul_apply, Fin.sum_univ_three, toMatrix, Matrix.transpose_apply, Matrix.one_apply, Fin.ext_iff]
    simpa using this
  have H' := mul_eq_one_comm.mp H
  intro r c hr hc
  have := congrFun (congrFun H' ⟨r, hr⟩) ⟨c, hc⟩
  simp only [Matrix.mul_apply, Fin.sum_univ_three, toMatrix, Matrix.transpose_apply, Matrix.one_apply, Fin.ext_iff] at this
  simp only [Mat.mul, sumRange, Mat.T, Mat.ident]
  simpa using this
end PMV.Algebra
