import PMV.Lemmas.DualReal
/-
  C06 helper development, layer 2: the representation relation between an item computed by the
  source's vector-level formulas (`Val`, Model/Dual.lean) and a tuple of layer-1 component
  expressions, and the component expansions of the vector operations.
-/
namespace PMV.Dual
open PMV

/-- derivative item with an absent key read as zeros -/
def Val.dvec (a : Val ℝ) : List ℝ := a.d.getD (a.v.map fun _ => 0)

/-- `a` (computed by the source's item-level formulas) is represented by the component expressions
    `es`: same values, same derivative components (absent key = 0), and `a` unmasked only if every
    component expression is unmasked. -/
structure Rep (env : ℕ → ℝ) (denv : ℕ → Option ℝ) (um : ℕ → Bool) (a : Val ℝ) (es : List (E ℝ)) : Prop where
  v : a.v = es.map fun e => e.val env
  d : (es.map fun e => (e.der env denv).getD 0) = a.dvec
  ok : a.ok = true → ∀ e ∈ es, e.ok env um = true

/-! #### component expansions (what each item operation is, written with scalar operations) -/

def dot3E (a b : List (E ℝ)) : E ℝ :=
  match a, b with
  | [a0, a1, a2], [b0, b1, b2] => .add (.add (.mul a0 b0) (.mul a1 b1)) (.mul a2 b2)
  | _, _ => .lit 0

def normSq3E : List (E ℝ) → E ℝ
  | [a0, a1, a2] => .add (.add (.pow2 a0) (.pow2 a1)) (.pow2 a2)
  | _ => .lit 0

def cross3E (a b : List (E ℝ)) : List (E ℝ) :=
  match a, b with
  | [a0, a1, a2], [b0, b1, b2] =>
    [.sub (.mul a1 b2) (.mul a2 b1), .sub (.mul a2 b0) (.mul a0 b2), .sub (.mul a0 b1) (.mul a1 b0)]
  | _, _ => []

def qmulE (a b : List (E ℝ)) : List (E ℝ) :=
  match a, b with
  | [a0, a1, a2, a3], [b0, b1, b2, b3] =>
    [.sub (.sub (.sub (.mul a0 b0) (.mul a1 b1)) (.mul a2 b2)) (.mul a3 b3),
     .sub (.add (.add (.mul a0 b1) (.mul a1 b0)) (.mul a2 b3)) (.mul a3 b2),
     .add (.add (.sub (.mul a0 b2) (.mul a1 b3)) (.mul a2 b0)) (.mul a3 b1),
     .add (.sub (.add (.mul a0 b3) (.mul a1 b2)) (.mul a2 b1)) (.mul a3 b0)]
  | _, _ => []

/-- 2×2 matrix product, row-major -/
def matmul2E (a b : List (E ℝ)) : List (E ℝ) :=
  match a, b with
  | [a0, a1, a2, a3], [b0, b1, b2, b3] =>
    [.add (.mul a0 b0) (.mul a1 b2), .add (.mul a0 b1) (.mul a1 b3),
     .add (.mul a2 b0) (.mul a3 b2), .add (.mul a2 b1) (.mul a3 b3)]
  | _, _ => []

/-- 2×2 inverse by cofactors -/
def inv2E : List (E ℝ) → List (E ℝ)
  | [a, b, c, d] =>
    let dt : E ℝ := .sub (.mul a d) (.mul b c)
    [.div d dt, .div (.neg b) dt, .div (.neg c) dt, .div a dt]
  | _ => []

/-- axis rotations: matrix entries as expressions of the angle -/
def rotE (axis : ℕ) (t : E ℝ) : List (E ℝ) :=
  let c : E ℝ := .cos t
  let s : E ℝ := .sin t
  let z : E ℝ := .lit 0
  let o : E ℝ := .lit 1
  match axis with
  | 0 => [o, z, z, z, c, s, z, .neg s, c]
  | 1 => [c, z, s, z, o, z, .neg s, z, c]
  | _ => [c, .neg s, z, s, c, z, z, z, o]

/-! #### substitution of component expressions into a scalar clause template -/

def E.subst : E ℝ → (ℕ → E ℝ) → E ℝ
  | .var i, σ => σ i
  | .lit c, _ => .lit c
  | .add a b, σ => .add (a.subst σ) (b.subst σ)
  | .sub a b, σ => .sub (a.subst σ) (b.subst σ)
  | .mul a b, σ => .mul (a.subst σ) (b.subst σ)
  | .div a b, σ => .div (a.subst σ) (b.subst σ)
  | .neg a, σ => .neg (a.subst σ)
  | .abs a, σ => .abs (a.subst σ)
  | .scale c a, σ => .scale c (a.subst σ)
  | .divn a c, σ => .divn (a.subst σ) c
  | .recip a, σ => .recip (a.subst σ)
  | .pow0 a, σ => .pow0 (a.subst σ)
  | .pow2 a, σ => .pow2 (a.subst σ)
  | .pow3 a, σ => .pow3 (a.subst σ)
  | .pow4 a, σ => .pow4 (a.subst σ)
  | .powi n a, σ => .powi n (a.subst σ)
  | .powg p a, σ => .powg p (a.subst σ)
  | .sin a, σ => .sin (a.subst σ)
  | .cos a, σ => .cos (a.subst σ)
  | .tan a, σ => .tan (a.subst σ)
  | .asin a, σ => .asin (a.subst σ)
  | .acos a, σ => .acos (a.subst σ)
  | .atan a, σ => .atan (a.subst σ)
  | .exp a, σ => .exp (a.subst σ)
  | .log a, σ => .log (a.subst σ)
  | .sqrt a, σ => .sqrt (a.subst σ)
  | .atan2 y x, σ => .atan2 (y.subst σ) (x.subst σ)
  | .sgn a, σ => .sgn (a.subst σ)
  | .isneg a, σ => .isneg (a.subst σ)

theorem E.val_subst (f : E ℝ) (σ : ℕ → E ℝ) (env : ℕ → ℝ) :
    (f.subst σ).val env = f.val (fun i => (σ i).val env) := by
  induction f <;> simp [E.subst, E.val, *]

theorem E.der_subst (f : E ℝ) (σ : ℕ → E ℝ) (env : ℕ → ℝ) (denv : ℕ → Option ℝ) :
    (f.subst σ).der env denv = f.der (fun i => (σ i).val env) (fun i => (σ i).der env denv) := by
  induction f <;> simp [E.subst, E.der, E.val_subst, *]

theorem E.ok_subst (f : E ℝ) (σ : ℕ → E ℝ) (env : ℕ → ℝ) (um : ℕ → Bool) :
    (f.subst σ).ok env um = f.ok (fun i => (σ i).val env) (fun i => (σ i).ok env um) := by
  induction f <;> simp [E.subst, E.ok, E.val_subst, *]

end PMV.Dual
