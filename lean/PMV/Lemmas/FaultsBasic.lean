import PMV.Model.Faults
/-
  C19: generic lemmas about the exception monad of the validation chains and about `execAll`.
-/
namespace PMV.Faults

/-- a validation result whose exception, if any, is one of the three documented classes -/
def Ok3 {α} (v : Except Exc α) : Prop := ∀ e, v = .error e → e.allowed = true

theorem ok3_pure {α} (x : α) : Ok3 (pure x : Except Exc α) := by
  intro e h; cases h

theorem ok3_ok {α} (x : α) : Ok3 (.ok x : Except Exc α) := by
  intro e h; cases h

theorem ok3_throw {α} (e : Exc) (h : e.allowed = true) : Ok3 (throw e : Except Exc α) := by
  intro e' h'; cases h'; exact h

theorem ok3_error {α} (e : Exc) (h : e.allowed = true) : Ok3 (.error e : Except Exc α) := by
  intro e' h'; cases h'; exact h

theorem ok3_bind {α β} {x : Except Exc α} {f : α → Except Exc β}
    (hx : Ok3 x) (hf : ∀ a, Ok3 (f a)) : Ok3 (x >>= f) := by
  intro e h
  cases x with
  | error e' => cases h; exact hx _ rfl
  | ok a => exact hf a e h

theorem ok3_guard (c : Bool) (e : Exc) (h : e.allowed = true) : Ok3 (guard' c e) := by
  unfold guard'; split
  · exact ok3_ok _
  · exact ok3_error _ h

theorem ok3_mapE {α β} (f : α → Except Exc β) (hf : ∀ a, Ok3 (f a)) (l : List α) : Ok3 (mapE f l) := by
  induction l with
  | nil => exact ok3_ok _
  | cons x xs ih =>
    intro e h
    simp only [mapE] at h
    split at h
    · next e' he => cases h; exact hf x _ he
    · split at h
      · next e' he => cases h; exact ih _ he
      · cases h

theorem ok3_filterMapE {α β} (f : α → Except Exc (Option β)) (hf : ∀ a, Ok3 (f a)) (l : List α) :
    Ok3 (filterMapE f l) := by
  induction l with
  | nil => exact ok3_ok _
  | cons x xs ih =>
    intro e h
    simp only [filterMapE] at h
    split at h
    · next e' he => cases h; exact hf x _ he
    · exact ih _ h
    · split at h
      · next e' he => cases h; exact ih _ he
      · cases h

/-! #### inversion of successful binds -/

theorem bind_ok {α β} (x : Except Exc α) (f : α → Except Exc β) (b : β) :
    (x >>= f) = .ok b ↔ ∃ a, x = .ok a ∧ f a = .ok b := by
  cases x with
  | error e => constructor
               · intro h; cases h
               · intro ⟨a, h, _⟩; cases h
  | ok a => constructor
            · intro h; exact ⟨a, rfl, h⟩
            · intro ⟨a', h, h'⟩; cases h; exact h'

theorem guard_ok (c : Bool) (e : Exc) : guard' c e = .ok () ↔ c = true := by
  unfold guard'; cases c <;> simp

/-! #### execution of plans -/

/-- the fields no primitive changes -/
structure Frame where
  cls : Cls
  shape : Shape
  numer : Shape
  denom : Shape
  ro : Bool
  deriving DecidableEq

def Obj.frame (s : Obj) : Frame := ⟨s.cls, s.shape, s.numer, s.denom, s.ro⟩

theorem apply_frame (s : Obj) (p : Prim) : (p.apply s).frame = s.frame := by
  cases p <;> rfl

/-- primitives whose precondition is decided by the frame alone (when the target is writable or the
    insert overrides): mask / units rebinding, delete_deriv(s), insert_deriv of a compatible derivative -/
def frameOk (f : Frame) : Prim → Bool
  | .setMask | .setUnits _ | .deleteDeriv _ | .deleteDerivs _ => true
  | .insertDeriv _ dshape dnumer _ isQube override =>
      f.cls.derivsOk && isQube && (dnumer == f.numer) && into dshape f.shape && (!f.ro || override)
  | _ => false

theorem frameOk_pre (s : Obj) (p : Prim) (h : frameOk s.frame p = true) : p.pre s = true := by
  cases p <;> simp_all [frameOk, Prim.pre, Obj.frame]
  case insertDeriv key dshape dnumer ddenom isQube override =>
    rcases h with ⟨_, h⟩
    cases h with
    | inl h => simp [h]
    | inr h => simp [h]

theorem execAll_frame (plan : List Prim) :
    ∀ s : Obj, (∀ p ∈ plan, frameOk s.frame p = true) → (execAll s plan).2 = none := by
  induction plan with
  | nil => intro s _; rfl
  | cons p ps ih =>
    intro s h
    have hp := frameOk_pre s p (h p (by simp))
    simp only [execAll, hp, if_true]
    apply ih
    intro q hq
    rw [apply_frame]
    exact h q (by simp [hq])

theorem execAll_cons_ok (s : Obj) (p : Prim) (ps : List Prim) (h : p.pre s = true) :
    execAll s (p :: ps) = execAll (p.apply s) ps := by
  simp [execAll, h]

end PMV.Faults

namespace PMV.Faults

/-! #### "no late failure" as a predicate on validation chains -/

/-- every plan this chain can produce executes to the end from state `s` -/
def Safe (s : Obj) (v : V) : Prop := ∀ plan, v = .ok plan → (execAll s plan).2 = none

theorem safe_error (s : Obj) (e : Exc) : Safe s (.error e) := by intro _ h; cases h
theorem safe_throw (s : Obj) (e : Exc) : Safe s (throw e) := by intro _ h; cases h
theorem safe_raise (s : Obj) (e : Exc) : Safe s (raise e) := by intro _ h; cases h
theorem safe_pure (s : Obj) (plan : List Prim) (h : (execAll s plan).2 = none) : Safe s (pure plan) := by
  intro p hp; cases hp; exact h
theorem safe_ok (s : Obj) (plan : List Prim) (h : (execAll s plan).2 = none) : Safe s (.ok plan) := by
  intro p hp; cases hp; exact h
theorem safe_bind {α} (s : Obj) {x : Except Exc α} {f : α → V}
    (h : ∀ a, x = .ok a → Safe s (f a)) : Safe s (x >>= f) := by
  intro plan hp
  obtain ⟨a, ha, hf⟩ := (bind_ok x f plan).1 hp
  exact h a ha plan hf

theorem into_refl_rev : ∀ xs : List Nat, bcastRev xs xs = some xs
  | [] => rfl
  | x :: xs => by simp [bcastRev, into_refl_rev xs]

theorem into_refl (t : Shape) : into t t = true := by
  simp [into, bcast, into_refl_rev]

theorem filterMapE_mem {α β} (f : α → Except Exc (Option β)) :
    ∀ (l : List α) (r : List β), filterMapE f l = .ok r → ∀ y ∈ r, ∃ x ∈ l, f x = .ok (some y) := by
  intro l
  induction l with
  | nil => intro r h y hy; simp only [filterMapE] at h; cases h; cases hy
  | cons x xs ih =>
    intro r h y hy
    simp only [filterMapE] at h
    split at h
    · cases h
    · obtain ⟨x', hx', hf⟩ := ih r h y hy
      exact ⟨x', by simp [hx'], hf⟩
    · next b hb =>
      split at h
      · cases h
      · next l' hl' =>
        cases h
        cases hy with
        | head => exact ⟨x, by simp, hb⟩
        | tail _ hy' =>
          obtain ⟨x', hx', hf⟩ := ih l' hl' y hy'
          exact ⟨x', by simp [hx'], hf⟩

theorem mapE_mem {α β} (f : α → Except Exc β) :
    ∀ (l : List α) (r : List β), mapE f l = .ok r → ∀ y ∈ r, ∃ x ∈ l, f x = .ok y := by
  intro l
  induction l with
  | nil => intro r h y hy; simp only [mapE] at h; cases h; cases hy
  | cons x xs ih =>
    intro r h y hy
    simp only [mapE] at h
    split at h
    · cases h
    · next b hb =>
      split at h
      · cases h
      · next l' hl' =>
        cases h
        cases hy with
        | head => exact ⟨x, by simp, hb⟩
        | tail _ hy' =>
          obtain ⟨x', hx', hf⟩ := ih l' hl' y hy'
          exact ⟨x', by simp [hx'], hf⟩

end PMV.Faults
