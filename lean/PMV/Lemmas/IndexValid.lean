import PMV.Lemmas.Bcast
import PMV.Lemmas.Indices
/-
  C09 — validity of the array coordinate inside a result coordinate.
-/
namespace PMV

/-- the middle block of a valid index of `A ++ B ++ C` is a valid index of `B` -/
theorem valid_mid {A B C : Shape} {o : Index} (hv : Valid (A ++ B ++ C) o) :
    Valid B ((o.drop A.length).take B.length) := by
  have hlen := valid_length hv
  simp only [List.length_append] at hlen
  have h1 : o = o.take A.length ++ ((o.drop A.length).take B.length ++ (o.drop A.length).drop B.length) := by
    rw [List.take_append_drop, List.take_append_drop]
  rw [h1, List.append_assoc] at hv
  have hA : (o.take A.length).length = A.length := by simp [List.length_take]; omega
  have := (valid_append hA).1 hv
  have hB : ((o.drop A.length).take B.length).length = B.length := by
    simp [List.length_take, List.length_drop]; omega
  exact ((valid_append hB).1 this.2).1

/-- a shape with a zero-length axis has no valid index -/
theorem not_valid_of_zero {s : Shape} {o : Index} (h0 : 0 ∈ s) : ¬ Valid s o := by
  induction s generalizing o with
  | nil => simp at h0
  | cons n s ih =>
    cases o with
    | nil => simp [Valid]
    | cons a o =>
      simp only [Valid]
      rcases List.mem_cons.mp h0 with h | h
      · subst h; omega
      · intro hv; exact ih h hv.2

end PMV
