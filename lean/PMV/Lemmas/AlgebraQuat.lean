import PMV.Model.Algebra
import PMV.Lemmas.AlgebraMat3
import Mathlib.Tactic.Ring
import Mathlib.Tactic.LinearCombination
import Mathlib.Tactic.FieldSimp
/-
  C16 helper development: the textbook rotation matrix of a normalised quaternion (the
  specification `to_matrix3` is compared with) is multiplicative, orthonormal and has det 1.
-/
namespace PMV.Algebra

theorem qNormSq_eq {K : Type} [CommRing K] (a : Q4 K) :
    qNormSq a = a.s * a.s + a.x * a.x + a.y * a.y + a.z * a.z := by
  simp [qNormSq, sumRange]

/-- the norm is multiplicative: ‖ab‖² = ‖a‖² ‖b‖² -/
theorem quat_norm_mul {K : Type} [CommRing K] (a b : Q4 K) : qNormSq (qMul a b) = qNormSq a * qNormSq b := by
  simp only [qNormSq_eq, qMul]; ring

variable {K : Type} [Field K]

/-- the textbook rotation matrix of the NORMALISED quaternion p/‖p‖ : δ − 2(…)/‖p‖² -/
def toMatRef (p : Q4 K) : Mat K :=
  let n := qNormSq p
  fun r c => match r, c with
  | 0, 0 => 1 - 2 * (p.y * p.y + p.z * p.z) / n | 0, 1 => 2 * (p.x * p.y - p.s * p.z) / n
  | 0, 2 => 2 * (p.x * p.z + p.s * p.y) / n
  | 1, 0 => 2 * (p.x * p.y + p.s * p.z) / n | 1, 1 => 1 - 2 * (p.x * p.x + p.z * p.z) / n
  | 1, 2 => 2 * (p.y * p.z - p.s * p.x) / n
  | 2, 0 => 2 * (p.x * p.z - p.s * p.y) / n | 2, 1 => 2 * (p.y * p.z + p.s * p.x) / n
  | 2, 2 => 1 - 2 * (p.x * p.x + p.y * p.y) / n
  | _, _ => 0

theorem toMatRef_mul (p q : Q4 K) (hp : qNormSq p ≠ 0) (hq : qNormSq q ≠ 0) :
    Eq3 (toMatRef (qMul p q)) (Mat.mul 3 (toMatRef p) (toMatRef q)) := by
  have ea := qNormSq_eq p
  have eb := qNormSq_eq q
  unfold toMatRef
  rw [quat_norm_mul]
  generalize qNormSq p = a at hp ea
  generalize qNormSq q = b at hq eb
  refine forall_lt3_2 ⟨?_, ?_, ?_, ?_, ?_, ?_, ?_, ?_, ?_⟩ <;>
    simp only [Mat.mul, sumRange, qMul] <;> field_simp <;> subst ea eb <;> ring1

theorem toMatRef_orthonormal (p : Q4 K) (hp : qNormSq p ≠ 0) : Orthonormal3 (toMatRef p) := by
  have ea := qNormSq_eq p
  unfold toMatRef
  generalize qNormSq p = a at hp ea
  refine forall_lt3_2 ⟨?_, ?_, ?_, ?_, ?_, ?_, ?_, ?_, ?_⟩ <;>
    simp [Mat.mul, Mat.T, Mat.ident, sumRange] <;> field_simp <;> subst ea <;> ring1

theorem toMatRef_det (p : Q4 K) (hp : qNormSq p ≠ 0) : det3 (toMatRef p) = 1 := by
  have ea := qNormSq_eq p
  unfold toMatRef
  generalize qNormSq p = a at hp ea
  simp only [det3]
  field_simp
  subst ea
  ring1

end PMV.Algebra
