import PMV.Gen.PickleEffects
import PMV.Model.Pickle
/-
  C11 — "pickling never changes the object", tied to the SOURCE: the table
  `PMV.Gen.PickleEffects.events` is regenerated on every run from polymath/extensions/pickler.py
  and polymath/qube.py by harness/c11_py2lean.py (an abstract interpreter that lists every
  statement of `__getstate__` and of the functions it reaches which may write to an object
  reachable from the one being pickled).  Core Lean only.
-/
namespace PMV.Pickle
open PMV.Gen.PickleEffects

/-- **the only writes `__getstate__` can make to the pickled object (or anything reachable from
    it: its arrays, dicts, derivatives) are `_cache_[<constant key>] = …`** — no attribute is
    rebound, no array element or dict entry is stored, no mutating method is called, and no
    function outside the analysed set / the purity list receives such an object. -/
theorem source_writes_only_cache : ∀ e ∈ events, e.kind = Kind.cacheKey := by decide

/-- the cache keys written are exactly the three cached properties the encoder reads -/
theorem source_cache_keys : ∀ e ∈ events, e.detail ∈ ["corners", "slicer", "antimask"] := by decide

theorem model_keys_occur_in_source : ∀ k ∈ ["corners", "slicer", "antimask"], k ∈ events.map (·.detail) := by
  decide

/-- the cache keys the MODEL's `getstate1` reports are among those three -/
theorem getstate1_cache_keys (P : Params) (q : Obj) :
    ∀ k ∈ (getstate1 P q).2.2, k ∈ ["corners", "slicer", "antimask"] := by
  unfold getstate1
  cases q.vals with
  | single x => intro k hk; simp at hk
  | array vs items =>
    simp only
    split
    · intro k hk; simp at hk
    · split
      · intro k hk; simp at hk
      · intro k hk
        simp only [List.mem_append, List.mem_cons, List.mem_nil_iff, or_false] at hk
        rcases hk with (hk | hk) | hk
        · simp [hk]
        · split at hk
          · simp at hk; simp [hk]
          · simp at hk
        · simp [hk]

/-- model and source agree on the effect frame: every key the model writes is a key some
    analysed statement writes, and there is no other kind of write in the source -/
theorem effect_frame (P : Params) (q : Obj) :
    (∀ k ∈ (getstate1 P q).2.2, k ∈ events.map (·.detail)) ∧ (∀ e ∈ events, e.kind = Kind.cacheKey) :=
  ⟨fun k hk => model_keys_occur_in_source k (getstate1_cache_keys P q k hk), source_writes_only_cache⟩

end PMV.Pickle
