import PMV.Model.Heap
/-
  copy() independence: helper development for Props/C07.lean (objects without derivatives).  Core Lean only.
-/
namespace PMV.Heap

/-- `t` holds ndarray `a` as its values or mask -/
def Owns (h : Heap) (t a : Nat) : Prop := (h.obj t).vals = some a ∨ (h.obj t).mask = some a

/-- the two objects share no ndarray object and no buffer -/
def Sep (h : Heap) (x y : Nat) : Prop :=
  x ≠ y ∧ ∀ a b, Owns h x a → Owns h y b → a ≠ b ∧ (h.arr a).buf ≠ (h.arr b).buf

/-- the object and what it owns are allocated cells -/
def WF (h : Heap) (x : Nat) : Prop := x < h.next ∧ ∀ a, Owns h x a → a < h.next ∧ (h.arr a).buf < h.next

/-- everything observable of `x` in `h` (its fields, its ndarray objects incl. flags, the contents of their
    buffers) is the same in `h'` -/
def SameObs (h h' : Heap) (x : Nat) : Prop :=
  h'.obj x = h.obj x ∧ ∀ a, Owns h x a → h'.arr a = h.arr a ∧ h'.buf (h.arr a).buf = h.buf (h.arr a).buf

theorem SameObs.refl (h : Heap) (x : Nat) : SameObs h h x := ⟨rfl, fun _ _ => ⟨rfl, rfl⟩⟩

theorem SameObs.trans {h1 h2 h3 : Heap} {x : Nat} (p : SameObs h1 h2 x) (q : SameObs h2 h3 x) : SameObs h1 h3 x := by
  obtain ⟨p1, p2⟩ := p
  obtain ⟨q1, q2⟩ := q
  refine ⟨q1.trans p1, ?_⟩
  intro a ha
  have hb : Owns h2 x a := by unfold Owns at *; rw [p1]; exact ha
  obtain ⟨e1, e2⟩ := p2 a ha
  obtain ⟨f1, f2⟩ := q2 a hb
  refine ⟨f1.trans e1, ?_⟩
  rw [e1] at f2
  exact f2.trans e2

theorem Sep.symm {h : Heap} {x y : Nat} (s : Sep h x y) : Sep h y x :=
  ⟨fun e => s.1 e.symm, fun a b ha hb => ⟨fun e => (s.2 b a hb ha).1 e.symm, fun e => (s.2 b a hb ha).2 e.symm⟩⟩

theorem setWr_arr_other (h : Heap) (a x : Nat) (hx : x ≠ a) : (h.setWr a).arr x = h.arr x := by
  simp [Heap.setWr, hx]

/-- allocate a new array (cell `next`, on buffer `next`) and replace the target object by `ot'`, every array of
    which is the new one or one the target already owned -/
theorem alloc_other (h : Heap) (t x : Nat) (v : Int) (ot' : Obj) (sep : Sep h t x) (wt : WF h t) (wx : WF h x)
    (hown : ∀ a, (ot'.vals = some a ∨ ot'.mask = some a) → a = h.next ∨ Owns h t a) :
    let h' : Heap := { h with arr := upd h.arr h.next ⟨h.next, true⟩, buf := upd h.buf h.next v,
                              obj := upd h.obj t ot', next := h.next + 1 }
    SameObs h h' x ∧ Sep h' t x ∧ WF h' t ∧ WF h' x := by
  intro h'
  obtain ⟨hne, hsep⟩ := sep
  obtain ⟨wt1, wt2⟩ := wt
  obtain ⟨wx1, wx2⟩ := wx
  have hxt : x ≠ t := fun e => hne e.symm
  have objx : h'.obj x = h.obj x := by show upd h.obj t ot' x = _; rw [upd_other _ _ _ _ hxt]
  have objt : h'.obj t = ot' := by show upd h.obj t ot' t = _; simp
  have arrOld : ∀ a, a < h.next → h'.arr a = h.arr a := by
    intro a ha; show upd h.arr h.next _ a = _; rw [upd_other]; omega
  have bufOld : ∀ b, b < h.next → h'.buf b = h.buf b := by
    intro b hb; show upd h.buf h.next v b = _; rw [upd_other]; omega
  have arrNew : h'.arr h.next = ⟨h.next, true⟩ := by show upd h.arr h.next _ h.next = _; simp
  have ownx : ∀ b, Owns h' x b ↔ Owns h x b := by intro b; unfold Owns; rw [objx]
  refine ⟨⟨objx, fun b hb => ?_⟩, ⟨hne, ?_⟩, ⟨by show t < h.next + 1; omega, ?_⟩, ⟨by show x < h.next + 1; omega, ?_⟩⟩
  · obtain ⟨b1, b2⟩ := wx2 b hb
    exact ⟨arrOld b b1, bufOld _ b2⟩
  · intro a b ha hb
    have hb' := (ownx b).1 hb
    obtain ⟨b1, b2⟩ := wx2 b hb'
    rw [arrOld b b1]
    have ha' : a = h.next ∨ Owns h t a := by
      apply hown; unfold Owns at ha; rw [objt] at ha; exact ha
    rcases ha' with e | ho
    · subst e; rw [arrNew]
      exact ⟨by omega, by show h.next ≠ _; omega⟩
    · obtain ⟨a1, _⟩ := wt2 a ho
      rw [arrOld a a1]
      exact hsep a b ho hb'
  · intro a ha
    have ha' : a = h.next ∨ Owns h t a := by
      apply hown; unfold Owns at ha; rw [objt] at ha; exact ha
    rcases ha' with e | ho
    · subst e; rw [arrNew]
      exact ⟨by show h.next < h.next + 1; omega, by show h.next < h.next + 1; omega⟩
    · obtain ⟨a1, a2⟩ := wt2 a ho
      rw [arrOld a a1]
      exact ⟨by show a < h.next + 1; omega, by show _ < h.next + 1; omega⟩
  · intro b hb
    have hb' := (ownx b).1 hb
    obtain ⟨b1, b2⟩ := wx2 b hb'
    rw [arrOld b b1]
    exact ⟨by show b < h.next + 1; omega, by show _ < h.next + 1; omega⟩

/-- one mutation of `t` leaves the observation of a separate object `x` unchanged, and keeps the two separate and
    well-formed — "mutators write only buffers reachable from their target or first replace a shared mask by a
    copy" -/
theorem applyMut_other (h : Heap) (t x : Nat) (m : Mut) (sep : Sep h t x) (wt : WF h t) (wx : WF h x) :
    SameObs h (applyMut h t m) x ∧ Sep (applyMut h t m) t x ∧ WF (applyMut h t m) t ∧ WF (applyMut h t m) x := by
  obtain ⟨hne, hsep⟩ := sep
  obtain ⟨wt1, wt2⟩ := wt
  obtain ⟨wx1, wx2⟩ := wx
  have hxt : x ≠ t := fun e => hne e.symm
  cases m with
  | write v =>
    simp only [applyMut]
    split
    · rename_i a ha
      split
      · have hown : Owns h t a := Or.inl ha
        refine ⟨⟨rfl, fun b hb => ⟨rfl, ?_⟩⟩, ⟨hne, hsep⟩, ⟨wt1, wt2⟩, ⟨wx1, wx2⟩⟩
        show upd h.buf (h.arr a).buf v (h.arr b).buf = _
        rw [upd_other]
        exact fun e => (hsep a b hown hb).2 e.symm
      · exact ⟨SameObs.refl _ _, ⟨hne, hsep⟩, ⟨wt1, wt2⟩, ⟨wx1, wx2⟩⟩
    · exact ⟨SameObs.refl _ _, ⟨hne, hsep⟩, ⟨wt1, wt2⟩, ⟨wx1, wx2⟩⟩
  | writeMask v =>
    simp only [applyMut]
    split
    · exact ⟨SameObs.refl _ _, ⟨hne, hsep⟩, ⟨wt1, wt2⟩, ⟨wx1, wx2⟩⟩
    · split
      · rename_i a ha
        split
        · have hown : Owns h t a := Or.inr ha
          refine ⟨⟨rfl, fun b hb => ⟨rfl, ?_⟩⟩, ⟨hne, hsep⟩, ⟨wt1, wt2⟩, ⟨wx1, wx2⟩⟩
          show upd h.buf (h.arr a).buf v (h.arr b).buf = _
          rw [upd_other]
          exact fun e => (hsep a b hown hb).2 e.symm
        · refine alloc_other h t x v _ ⟨hne, hsep⟩ ⟨wt1, wt2⟩ ⟨wx1, wx2⟩ ?_
          intro b hb
          rcases hb with hb | hb
          · exact Or.inr (Or.inl hb)
          · simp at hb; exact Or.inl hb.symm
      · exact ⟨SameObs.refl _ _, ⟨hne, hsep⟩, ⟨wt1, wt2⟩, ⟨wx1, wx2⟩⟩
  | rebindVals v =>
    simp only [applyMut]
    split
    · exact ⟨SameObs.refl _ _, ⟨hne, hsep⟩, ⟨wt1, wt2⟩, ⟨wx1, wx2⟩⟩
    · refine alloc_other h t x v _ ⟨hne, hsep⟩ ⟨wt1, wt2⟩ ⟨wx1, wx2⟩ ?_
      intro b hb
      rcases hb with hb | hb
      · simp at hb; exact Or.inl hb.symm
      · exact Or.inr (Or.inr hb)
  | setUnits u =>
    simp only [applyMut]
    split
    · exact ⟨SameObs.refl _ _, ⟨hne, hsep⟩, ⟨wt1, wt2⟩, ⟨wx1, wx2⟩⟩
    · have objx : upd h.obj t { h.obj t with units := u } x = h.obj x := upd_other _ _ _ _ hxt
      have ownx : ∀ b, Owns { h with obj := upd h.obj t { h.obj t with units := u } } x b ↔ Owns h x b := by
        intro b; unfold Owns; show (upd h.obj t _ x).vals = _ ∨ (upd h.obj t _ x).mask = _ ↔ _; rw [objx]
      have ownt : ∀ a, Owns { h with obj := upd h.obj t { h.obj t with units := u } } t a ↔ Owns h t a := by
        intro a; unfold Owns; show (upd h.obj t _ t).vals = _ ∨ (upd h.obj t _ t).mask = _ ↔ _; simp
      refine ⟨⟨objx, fun b _ => ⟨rfl, rfl⟩⟩, ⟨hne, fun a b ha hb => hsep a b ((ownt a).1 ha) ((ownx b).1 hb)⟩,
              ⟨wt1, fun a ha => wt2 a ((ownt a).1 ha)⟩, ⟨wx1, fun b hb => wx2 b ((ownx b).1 hb)⟩⟩
  | freeze =>
    simp only [applyMut]
    -- flags of the target's own arrays are cleared, its `_readonly_` is set: nothing of `x` is involved
    have hbuf : ∀ a, ((((h.setWrOpt (h.obj t).vals).setWrOpt (h.obj t).mask)).arr a).buf = (h.arr a).buf := by
      intro a
      cases hv : (h.obj t).vals <;> cases hm : (h.obj t).mask <;> simp [Heap.setWrOpt, Heap.setWr, upd] <;>
        (repeat' split) <;> simp_all
    have harr : ∀ b, Owns h x b → (((h.setWrOpt (h.obj t).vals).setWrOpt (h.obj t).mask)).arr b = h.arr b := by
      intro b hb
      have n1 : ∀ a, (h.obj t).vals = some a → b ≠ a := fun a ha e => (hsep a b (Or.inl ha) hb).1 e.symm
      have n2 : ∀ a, (h.obj t).mask = some a → b ≠ a := fun a ha e => (hsep a b (Or.inr ha) hb).1 e.symm
      cases hv : (h.obj t).vals <;> cases hm : (h.obj t).mask <;> simp [Heap.setWrOpt, Heap.setWr] <;>
        simp_all [upd]
    have hobj : ∀ y, (((h.setWrOpt (h.obj t).vals).setWrOpt (h.obj t).mask)).obj y = h.obj y := by
      intro y
      cases hv : (h.obj t).vals <;> cases hm : (h.obj t).mask <;> rfl
    have hbufc : (((h.setWrOpt (h.obj t).vals).setWrOpt (h.obj t).mask)).buf = h.buf := by
      cases hv : (h.obj t).vals <;> cases hm : (h.obj t).mask <;> rfl
    have hnext : (((h.setWrOpt (h.obj t).vals).setWrOpt (h.obj t).mask)).next = h.next := by
      cases hv : (h.obj t).vals <;> cases hm : (h.obj t).mask <;> rfl
    generalize hh1 : ((h.setWrOpt (h.obj t).vals).setWrOpt (h.obj t).mask) = h1 at *
    have objx : upd h1.obj t { h1.obj t with ro := true } x = h.obj x := by
      rw [upd_other _ _ _ _ hxt]; exact hobj x
    have ownx : ∀ b, Owns { h1 with obj := upd h1.obj t { h1.obj t with ro := true } } x b ↔ Owns h x b := by
      intro b; unfold Owns; show (upd h1.obj t _ x).vals = _ ∨ (upd h1.obj t _ x).mask = _ ↔ _; rw [objx]
    have ownt : ∀ a, Owns { h1 with obj := upd h1.obj t { h1.obj t with ro := true } } t a ↔ Owns h t a := by
      intro a; unfold Owns
      show (upd h1.obj t _ t).vals = _ ∨ (upd h1.obj t _ t).mask = _ ↔ _
      simp [hobj t]
    refine ⟨⟨objx, fun b hb => ⟨harr b hb, by show h1.buf _ = _; rw [hbufc]⟩⟩, ⟨hne, ?_⟩, ⟨by show t < h1.next; omega, ?_⟩,
            ⟨by show x < h1.next; omega, ?_⟩⟩
    · intro a b ha hb
      have := hsep a b ((ownt a).1 ha) ((ownx b).1 hb)
      refine ⟨this.1, ?_⟩
      show (h1.arr a).buf ≠ (h1.arr b).buf
      rw [hbuf a, hbuf b]; exact this.2
    · intro a ha
      obtain ⟨a1, a2⟩ := wt2 a ((ownt a).1 ha)
      exact ⟨by show a < h1.next; omega, by show (h1.arr a).buf < h1.next; rw [hbuf a]; omega⟩
    · intro b hb
      obtain ⟨b1, b2⟩ := wx2 b ((ownx b).1 hb)
      exact ⟨by show b < h1.next; omega, by show (h1.arr b).buf < h1.next; rw [hbuf b]; omega⟩


/-- the three invariants survive every interleaved history of mutations of the two objects -/
theorem hist_inv (a b : Nat) (hist : List (Bool × Mut)) : ∀ (h : Heap), Sep h a b → WF h a → WF h b →
    Sep (runHist h a b hist) a b ∧ WF (runHist h a b hist) a ∧ WF (runHist h a b hist) b := by
  induction hist with
  | nil => intro h s wa wb; exact ⟨s, wa, wb⟩
  | cons p rest ih =>
    intro h s wa wb
    obtain ⟨side, m⟩ := p
    cases side with
    | true =>
      obtain ⟨_, s', wa', wb'⟩ := applyMut_other h a b m s wa wb
      exact ih _ s' wa' wb'
    | false =>
      obtain ⟨_, s', wb', wa'⟩ := applyMut_other h b a m s.symm wb wa
      exact ih _ s'.symm wa' wb'

/-- a history that only ever mutates the first object leaves the observation of the second one constant -/
theorem hist_first_only (a b : Nat) (hist : List (Bool × Mut)) (honly : ∀ p ∈ hist, p.1 = true) :
    ∀ (h : Heap), Sep h a b → WF h a → WF h b → SameObs h (runHist h a b hist) b := by
  induction hist with
  | nil => intro h _ _ _; exact SameObs.refl _ _
  | cons p rest ih =>
    intro h s wa wb
    obtain ⟨side, m⟩ := p
    have hs : side = true := honly (side, m) (by simp)
    subst hs
    obtain ⟨o1, s', wa', wb'⟩ := applyMut_other h a b m s wa wb
    exact o1.trans (ih (fun p hp => honly p (by simp [hp])) _ s' wa' wb')

theorem hist_second_only (a b : Nat) (hist : List (Bool × Mut)) (honly : ∀ p ∈ hist, p.1 = false) :
    ∀ (h : Heap), Sep h a b → WF h a → WF h b → SameObs h (runHist h a b hist) a := by
  induction hist with
  | nil => intro h _ _ _; exact SameObs.refl _ _
  | cons p rest ih =>
    intro h s wa wb
    obtain ⟨side, m⟩ := p
    have hs : side = false := honly (side, m) (by simp)
    subst hs
    obtain ⟨o1, s', wb', wa'⟩ := applyMut_other h b a m s.symm wb wa
    exact o1.trans (ih (fun p hp => honly p (by simp [hp])) _ s'.symm wa' wb')

/-- `copy()`: the new object and everything it owns are cells that did not exist before (`≥ h.next`), each of its
    arrays sits on a new buffer and is writable, and no cell that existed before is modified -/
theorem copyFlat_fresh (h : Heap) (o : Nat) :
    h.next ≤ (copyFlat h o).2 ∧
    (∀ a, Owns (copyFlat h o).1 (copyFlat h o).2 a →
        h.next ≤ a ∧ h.next ≤ ((copyFlat h o).1.arr a).buf ∧ ((copyFlat h o).1.arr a).wr = true) ∧
    (∀ l, l < h.next → (copyFlat h o).1.buf l = h.buf l ∧ (copyFlat h o).1.arr l = h.arr l ∧
                        (copyFlat h o).1.uname l = h.uname l ∧ (copyFlat h o).1.obj l = h.obj l) := by
  cases ev : (h.obj o).vals <;> cases em : (h.obj o).mask <;>
    simp only [copyFlat, copyArrRef, ev, em, Owns] <;>
    refine ⟨by omega, ?_, ?_⟩
  all_goals first
    | (intro l hl
       have h1 : l ≠ h.next := by omega
       have h2 : l ≠ h.next + 1 := by omega
       have h3 : l ≠ h.next + 1 + 1 := by omega
       simp [upd, h1, h2, h3])
    | (intro a ha
       simp [upd] at ha
       first
         | (subst ha; simp [upd])
         | (rcases ha with ha | ha <;> subst ha <;> simp [upd])
         | skip)

/-- `copy()` of a well-formed object establishes the hypotheses of the independence theorems: source and copy are
    separated, both are well-formed, and the source is observably unchanged -/
theorem copyFlat_sep (h : Heap) (o : Nat) (wo : WF h o) :
    SameObs h (copyFlat h o).1 o ∧ Sep (copyFlat h o).1 o (copyFlat h o).2 ∧
    WF (copyFlat h o).1 o ∧ WF (copyFlat h o).1 (copyFlat h o).2 := by
  obtain ⟨w1, w2⟩ := wo
  obtain ⟨c1, c2, c3⟩ := copyFlat_fresh h o
  have hnext : h.next < (copyFlat h o).1.next ∧ (copyFlat h o).2 < (copyFlat h o).1.next ∧
      (∀ a, Owns (copyFlat h o).1 (copyFlat h o).2 a →
          a < (copyFlat h o).1.next ∧ ((copyFlat h o).1.arr a).buf < (copyFlat h o).1.next) := by
    cases ev : (h.obj o).vals <;> cases em : (h.obj o).mask <;>
      simp only [copyFlat, copyArrRef, ev, em, Owns] <;>
      refine ⟨by omega, by omega, ?_⟩ <;>
      intro a ha <;> simp [upd] at ha <;>
      first
        | (subst ha; simp [upd]; omega)
        | (rcases ha with ha | ha <;> subst ha <;> simp [upd] <;> omega)
        | skip
  obtain ⟨n1, n2, n3⟩ := hnext
  have objo : (copyFlat h o).1.obj o = h.obj o := (c3 o w1).2.2.2
  have owno : ∀ a, Owns (copyFlat h o).1 o a ↔ Owns h o a := by intro a; unfold Owns; rw [objo]
  refine ⟨⟨objo, fun a ha => ?_⟩, ⟨by omega, ?_⟩, ⟨by omega, ?_⟩, ⟨n2, n3⟩⟩
  · obtain ⟨a1, a2⟩ := w2 a ha
    exact ⟨(c3 a a1).2.1, (c3 _ a2).1⟩
  · intro a b ha hb
    obtain ⟨a1, a2⟩ := w2 a ((owno a).1 ha)
    obtain ⟨b1, b2, _⟩ := c2 b hb
    rw [(c3 a a1).2.1]
    exact ⟨by omega, by omega⟩
  · intro a ha
    obtain ⟨a1, a2⟩ := w2 a ((owno a).1 ha)
    rw [(c3 a a1).2.1]
    exact ⟨by omega, by omega⟩

end PMV.Heap
