import PMV.Model.Reduce
/-
  Lane-level lemmas for C13: the code-shaped one-lane computations of `PMV.Model.Reduce`
  versus the same NumPy function applied to the unmasked sub-list.  Core Lean only.
-/
namespace PMV.Reduce

variable {α β : Type}

/-! ### unmasked sub-list, counts -/

@[simp] theorem unm_nil : unm ([] : List (Cell α)) = [] := rfl

theorem unm_cons (c : Cell α) (xs : List (Cell α)) :
    unm (c :: xs) = if c.m then unm xs else c.v :: unm xs := by
  cases h : c.m <;> simp [unm, h]

theorem compress_eq_unm (xs : List (Cell α)) : compress xs = unm xs := rfl

theorem unm_eq_raw (xs : List (Cell α)) (h : ∀ c ∈ xs, c.m = false) : unm xs = raw xs := by
  induction xs with
  | nil => rfl
  | cons c cs ih =>
    have hc : c.m = false := h c (by simp)
    rw [unm_cons, hc, ih (fun d hd => h d (by simp [hd]))]; rfl

theorem unm_eq_nil_iff (xs : List (Cell α)) : unm xs = [] ↔ ∀ c ∈ xs, c.m = true := by
  induction xs with
  | nil => simp
  | cons c cs ih =>
    rw [unm_cons]
    cases hc : c.m <;> simp [ih, hc]

theorem all_m_iff (xs : List (Cell α)) : xs.all (·.m) = true ↔ unm xs = [] := by
  rw [unm_eq_nil_iff]; simp

theorem count_eq (xs : List (Cell α)) : count xs = (unm xs).length := by
  induction xs with
  | nil => rfl
  | cons c cs ih =>
    rw [unm_cons]
    have : count (c :: cs) = (if c.m then 0 else 1) + count cs := rfl
    rw [this, ih]
    cases c.m <;> simp <;> omega

theorem length_eq (xs : List (Cell α)) : xs.length = (unm xs).length + countMasked xs := by
  induction xs with
  | nil => rfl
  | cons c cs ih =>
    rw [unm_cons]
    have : countMasked (c :: cs) = (if c.m then 1 else 0) + countMasked cs := rfl
    rw [this]
    cases c.m <;> simp <;> omega

theorem specRed_of_nil (f : List α → β) (xs : List (Cell α)) (h : unm xs = []) : specRed f xs = none := by
  simp [specRed, h]

theorem specRed_of_ne (f : List α → β) (xs : List (Cell α)) (h : unm xs ≠ []) :
    specRed f xs = some (f (unm xs)) := by
  unfold specRed
  split
  · contradiction
  · rfl

theorem specRed_eq_none_iff (f : List α → β) (xs : List (Cell α)) :
    specRed f xs = none ↔ ∀ c ∈ xs, c.m = true := by
  rw [← unm_eq_nil_iff]
  constructor
  · intro h
    by_cases hu : unm xs = []
    · exact hu
    · rw [specRed_of_ne f xs hu] at h; cases h
  · exact specRed_of_nil f xs

/-- a lane none of whose elements is masked: the plain NumPy function is the reference -/
theorem plain_spec (f : List α → β) (xs : List (Cell α)) (hne : xs ≠ []) (h : ∀ c ∈ xs, c.m = false) :
    obs (f (raw xs), false) = specRed f xs := by
  have hu := unm_eq_raw xs h
  have : unm xs ≠ [] := by
    rw [hu]; cases xs with
    | nil => contradiction
    | cons c cs => simp [raw]
  rw [specRed_of_ne f xs this, hu]; rfl

/-- a lane all of whose elements are masked: masked, whatever is stored -/
theorem allmasked_spec (f : List α → β) (v : β) (xs : List (Cell α)) (h : ∀ c ∈ xs, c.m = true) :
    obs (v, true) = specRed f xs := by
  rw [specRed_of_nil f xs ((unm_eq_nil_iff xs).2 h)]; rfl

/-- `func(values[antimask])` on a lane with an unmasked element -/
theorem compress_spec (f : List α → β) (xs : List (Cell α)) (h : unm xs ≠ []) :
    obs (f (compress xs), false) = specRed f xs := by
  rw [specRed_of_ne f xs h]; rfl

/-! ### sum and mean -/

theorem npSum_cons (x : Int) (l : List Int) : npSum (x :: l) = x + npSum l := rfl

theorem npSum_zeroFill (xs : List (Cell Int)) : npSum (zeroFill xs) = npSum (unm xs) := by
  induction xs with
  | nil => rfl
  | cons c cs ih =>
    rw [unm_cons]
    have : zeroFill (c :: cs) = (if c.m then 0 else c.v) :: zeroFill cs := rfl
    rw [this, npSum_cons, ih]
    cases c.m <;> simp [npSum_cons]

theorem sumMixed_spec (dflt : Int) (xs : List (Cell Int)) :
    obs (sumMixed dflt xs) = specRed npSum xs := by
  unfold sumMixed
  simp only [count_eq, npSum_zeroFill]
  by_cases h : unm xs = []
  · rw [specRed_of_nil _ _ h]; simp [h, obs]
  · rw [specRed_of_ne _ _ h]
    have : ((unm xs).length == 0) = false := by
      cases hl : unm xs with
      | nil => contradiction
      | cons _ _ => rfl
    simp [this, obs]

theorem meanMixed_spec (dflt : Int) (xs : List (Cell Int)) :
    obs (meanMixed dflt xs) = specRed npMean xs := by
  unfold meanMixed
  simp only [count_eq, npSum_zeroFill]
  by_cases h : unm xs = []
  · rw [specRed_of_nil _ _ h]; simp [h, obs]
  · rw [specRed_of_ne _ _ h]
    have hl : (unm xs).length ≠ 0 := by
      cases hl : unm xs with
      | nil => contradiction
      | cons _ _ => simp
    have h1 : ((unm xs).length == 0) = false := by simp [hl]
    have h2 : max (unm xs).length 1 = (unm xs).length := by omega
    simp [h1, h2, obs, npMean]

/-! ### max / min -/

theorem foldl_max_ge (xs : List Int) (x : Int) : x ≤ xs.foldl max x := by
  induction xs generalizing x with
  | nil => exact Int.le_refl x
  | cons y ys ih => exact Int.le_trans (Int.le_max_left x y) (ih (max x y))

theorem foldl_max_ge_mem (xs : List Int) (x : Int) : ∀ y ∈ xs, y ≤ xs.foldl max x := by
  induction xs generalizing x with
  | nil => intro y hy; cases hy
  | cons z zs ih =>
    intro y hy
    rcases List.mem_cons.1 hy with rfl | h
    · exact Int.le_trans (Int.le_max_right x y) (foldl_max_ge zs (max x y))
    · exact ih (max x z) y h

theorem foldl_max_mem (xs : List Int) (x : Int) : xs.foldl max x = x ∨ xs.foldl max x ∈ xs := by
  induction xs generalizing x with
  | nil => left; rfl
  | cons z zs ih =>
    rcases ih (max x z) with h | h
    · show (zs.foldl max (max x z)) = x ∨ (zs.foldl max (max x z)) ∈ z :: zs
      rw [h]
      rcases Int.le_total x z with hxz | hxz
      · right; rw [Int.max_eq_right hxz]; simp
      · left; exact Int.max_eq_left hxz
    · right; exact List.mem_cons_of_mem z h

theorem npMax_mem (l : List Int) (h : l ≠ []) : npMax l ∈ l := by
  cases l with
  | nil => contradiction
  | cons x xs =>
    rcases foldl_max_mem xs x with h | h
    · show xs.foldl max x ∈ x :: xs; rw [h]; simp
    · exact List.mem_cons_of_mem x h

theorem le_npMax (l : List Int) : ∀ y ∈ l, y ≤ npMax l := by
  cases l with
  | nil => intro y hy; cases hy
  | cons x xs =>
    intro y hy
    rcases List.mem_cons.1 hy with rfl | h
    · exact foldl_max_ge xs y
    · exact foldl_max_ge_mem xs x y h

/-- `np.max` is the maximum: a member that bounds every member -/
theorem npMax_eq_iff (l : List Int) (h : l ≠ []) (m : Int) :
    npMax l = m ↔ m ∈ l ∧ ∀ y ∈ l, y ≤ m := by
  constructor
  · rintro rfl; exact ⟨npMax_mem l h, le_npMax l⟩
  · rintro ⟨hm, hb⟩
    exact Int.le_antisymm (hb _ (npMax_mem l h)) (le_npMax l m hm)

theorem foldl_min_le (xs : List Int) (x : Int) : xs.foldl min x ≤ x := by
  induction xs generalizing x with
  | nil => exact Int.le_refl x
  | cons y ys ih => exact Int.le_trans (ih (min x y)) (Int.min_le_left x y)

theorem foldl_min_le_mem (xs : List Int) (x : Int) : ∀ y ∈ xs, xs.foldl min x ≤ y := by
  induction xs generalizing x with
  | nil => intro y hy; cases hy
  | cons z zs ih =>
    intro y hy
    rcases List.mem_cons.1 hy with rfl | h
    · exact Int.le_trans (foldl_min_le zs (min x y)) (Int.min_le_right x y)
    · exact ih (min x z) y h

theorem foldl_min_mem (xs : List Int) (x : Int) : xs.foldl min x = x ∨ xs.foldl min x ∈ xs := by
  induction xs generalizing x with
  | nil => left; rfl
  | cons z zs ih =>
    rcases ih (min x z) with h | h
    · show (zs.foldl min (min x z)) = x ∨ (zs.foldl min (min x z)) ∈ z :: zs
      rw [h]
      rcases Int.le_total x z with hxz | hxz
      · left; exact Int.min_eq_left hxz
      · right; rw [Int.min_eq_right hxz]; simp
    · right; exact List.mem_cons_of_mem z h

theorem npMin_mem (l : List Int) (h : l ≠ []) : npMin l ∈ l := by
  cases l with
  | nil => contradiction
  | cons x xs =>
    rcases foldl_min_mem xs x with h | h
    · show xs.foldl min x ∈ x :: xs; rw [h]; simp
    · exact List.mem_cons_of_mem x h

theorem npMin_le (l : List Int) : ∀ y ∈ l, npMin l ≤ y := by
  cases l with
  | nil => intro y hy; cases hy
  | cons x xs =>
    intro y hy
    rcases List.mem_cons.1 hy with rfl | h
    · exact foldl_min_le xs y
    · exact foldl_min_le_mem xs x y h

theorem npMin_eq_iff (l : List Int) (h : l ≠ []) (m : Int) :
    npMin l = m ↔ m ∈ l ∧ ∀ y ∈ l, m ≤ y := by
  constructor
  · rintro rfl; exact ⟨npMin_mem l h, npMin_le l⟩
  · rintro ⟨hm, hb⟩
    exact Int.le_antisymm (npMin_le l m hm) (hb _ (npMin_mem l h))

/-- members of the filled lane: the fill value or an unmasked value -/
theorem mem_fillWith (fill : Int) (xs : List (Cell Int)) (y : Int) (h : y ∈ fillWith fill xs) :
    y = fill ∨ y ∈ unm xs := by
  induction xs with
  | nil => cases h
  | cons c cs ih =>
    have e : fillWith fill (c :: cs) = (if c.m then fill else c.v) :: fillWith fill cs := rfl
    rw [e] at h
    rw [unm_cons]
    rcases List.mem_cons.1 h with h | h
    · cases hc : c.m <;> simp [hc] at h ⊢ <;> simp [h]
    · rcases ih h with h | h
      · left; exact h
      · right; cases c.m <;> simp [h]

theorem unm_sub_fillWith (fill : Int) (xs : List (Cell Int)) (y : Int) (h : y ∈ unm xs) :
    y ∈ fillWith fill xs := by
  induction xs with
  | nil => cases h
  | cons c cs ih =>
    have e : fillWith fill (c :: cs) = (if c.m then fill else c.v) :: fillWith fill cs := rfl
    rw [e]
    rw [unm_cons] at h
    cases hc : c.m
    · simp [hc] at h ⊢
      rcases h with h | h
      · left; exact h
      · right; exact ih h
    · simp [hc] at h ⊢
      right; exact ih h

theorem mem_unm (xs : List (Cell α)) (y : α) : y ∈ unm xs ↔ ∃ c ∈ xs, c.m = false ∧ c.v = y := by
  simp [unm, and_assoc]

theorem fillWith_ne_nil (fill : Int) (xs : List (Cell Int)) (h : unm xs ≠ []) : fillWith fill xs ≠ [] := by
  cases xs with
  | nil => exact absurd rfl h
  | cons c cs => simp [fillWith]

/-- filling the masked positions with a value below every unmasked one does not change the max -/
theorem npMax_fillWith (minval : Int) (xs : List (Cell Int)) (h : unm xs ≠ [])
    (hmin : ∀ c ∈ xs, c.m = false → minval ≤ c.v) :
    npMax (fillWith minval xs) = npMax (unm xs) := by
  rw [npMax_eq_iff _ (fillWith_ne_nil minval xs h)]
  refine ⟨unm_sub_fillWith minval xs _ (npMax_mem _ h), ?_⟩
  intro y hy
  rcases mem_fillWith minval xs y hy with rfl | hy
  · obtain ⟨c, hc, hm, hv⟩ := (mem_unm xs _).1 (npMax_mem _ h)
    rw [← hv]; exact hmin c hc hm
  · exact le_npMax _ y hy

theorem npMin_fillWith (maxval : Int) (xs : List (Cell Int)) (h : unm xs ≠ [])
    (hmax : ∀ c ∈ xs, c.m = false → c.v ≤ maxval) :
    npMin (fillWith maxval xs) = npMin (unm xs) := by
  rw [npMin_eq_iff _ (fillWith_ne_nil maxval xs h)]
  refine ⟨unm_sub_fillWith maxval xs _ (npMin_mem _ h), ?_⟩
  intro y hy
  rcases mem_fillWith maxval xs y hy with rfl | hy
  · obtain ⟨c, hc, hm, hv⟩ := (mem_unm xs _).1 (npMin_mem _ h)
    rw [← hv]; exact hmax c hc hm
  · exact npMin_le _ y hy

theorem maxMixed_spec (minval : Int) (xs : List (Cell Int))
    (hmin : ∀ c ∈ xs, c.m = false → minval ≤ c.v) :
    obs (maxMixed minval xs) = specRed npMax xs := by
  unfold maxMixed
  by_cases h : unm xs = []
  · rw [specRed_of_nil _ _ h]
    have : xs.all (·.m) = true := (all_m_iff xs).2 h
    simp only [this]; rfl
  · rw [specRed_of_ne _ _ h]
    have : xs.all (·.m) = false := by
      cases hh : xs.all (·.m)
      · rfl
      · exact absurd ((all_m_iff xs).1 hh) h
    simp only [this, npMax_fillWith minval xs h hmin]; rfl

theorem minMixed_spec (maxval : Int) (xs : List (Cell Int))
    (hmax : ∀ c ∈ xs, c.m = false → c.v ≤ maxval) :
    obs (minMixed maxval xs) = specRed npMin xs := by
  unfold minMixed
  by_cases h : unm xs = []
  · rw [specRed_of_nil _ _ h]
    have : xs.all (·.m) = true := (all_m_iff xs).2 h
    simp only [this]; rfl
  · rw [specRed_of_ne _ _ h]
    have : xs.all (·.m) = false := by
      cases hh : xs.all (·.m)
      · rfl
      · exact absurd ((all_m_iff xs).1 hh) h
    simp only [this, npMin_fillWith maxval xs h hmax]; rfl

end PMV.Reduce
