import PMV.Model.Pickle
/-
  List lemmas behind the C11 theorems: packbits, gather/scatter, chunks, little-endian bytes.
  Core Lean only.
-/
namespace PMV.Pickle

/-! ### packbits -/

theorem unpack8_bits (b0 b1 b2 b3 b4 b5 b6 b7 : Bool) :
    unpack8 (128 * bit b0 + 64 * bit b1 + 32 * bit b2 + 16 * bit b3 + 8 * bit b4 + 4 * bit b5
      + 2 * bit b6 + bit b7) = [b0, b1, b2, b3, b4, b5, b6, b7] := by
  cases b0 <;> cases b1 <;> cases b2 <;> cases b3 <;> cases b4 <;> cases b5 <;> cases b6 <;>
    cases b7 <;> rfl

theorem unpack8_pack8 (c : List Bool) :
    unpack8 (pack8 c) = (List.range 8).map fun k => c.getD k false := by
  unfold pack8
  rw [unpack8_bits]
  rfl

theorem take_map_getD {α : Type} (d : α) (c : List α) (n : Nat) (h : c.length ≤ n) :
    ((List.range n).map fun k => c.getD k d).take c.length = c := by
  apply List.ext_getElem
  · simp; omega
  · intro i h1 h2
    simp [List.getD_eq_getElem?_getD, h2]

theorem unpack8_pack8_take (c : List Bool) (h : c.length ≤ 8) :
    (unpack8 (pack8 c)).take c.length = c := by
  rw [unpack8_pack8]; exact take_map_getD false c 8 h

theorem unpack8_pack8_full (c : List Bool) (h : c.length = 8) : unpack8 (pack8 c) = c := by
  have h1 := unpack8_pack8_take c (by omega)
  rw [h, List.take_of_length_le (by rw [unpack8_pack8]; simp)] at h1
  exact h1

theorem packbitsF_roundtrip : ∀ (f : Nat) (bs : List Bool), bs.length ≤ f →
    (unpackbits (packbitsF f bs)).take bs.length = bs := by
  intro f
  induction f with
  | zero =>
    intro bs hf
    have : bs = [] := List.eq_nil_of_length_eq_zero (by omega)
    subst this; rfl
  | succ f ih =>
      intro bs hf
      cases bs with
      | nil => rfl
      | cons b bs =>
        simp only [packbitsF, unpackbits, List.flatMap_cons]
        by_cases h8 : 7 ≤ bs.length
        · -- a full byte
          have hfull : unpack8 (pack8 (b :: bs.take 7)) = b :: bs.take 7 :=
            unpack8_pack8_full _ (by simp; omega)
          rw [hfull]
          have hlen : (b :: bs).length = (b :: bs.take 7).length + (bs.drop 7).length := by
            simp; omega
          rw [hlen, List.take_append]
          have := ih (bs.drop 7) (by simp at hf ⊢; omega)
          simp only [unpackbits] at this
          rw [Nat.add_sub_cancel_left, this, List.take_of_length_le (by omega)]
          simp
        · -- the last, partial byte
          have ht : bs.take 7 = bs := List.take_of_length_le (by omega)
          have hd : bs.drop 7 = [] := List.drop_of_length_le (by omega)
          rw [ht, hd]
          have hnil : packbitsF f [] = [] := by cases f <;> rfl
          rw [hnil]
          simp only [List.flatMap_nil, List.append_nil]
          exact unpack8_pack8_take (b :: bs) (by simp; omega)

/-! ### gather / scatter -/

theorem gather_length_le {α : Type} : ∀ (fs : List Bool) (xs : List α), (gather fs xs).length ≤ xs.length
  | [], xs => by cases xs <;> simp [gather]
  | true :: fs, [] => by simp [gather]
  | false :: fs, [] => by simp [gather]
  | true :: fs, x :: xs => by simp [gather]; exact gather_length_le fs xs
  | false :: fs, x :: xs => by simp [gather]; have := gather_length_le fs xs; omega

theorem gather_length {α : Type} : ∀ (fs : List Bool) (xs : List α), fs.length = xs.length →
    (gather fs xs).length = countTrue fs
  | [], [], _ => rfl
  | true :: fs, x :: xs, h => by
    simp [gather, countTrue] at h ⊢; exact gather_length fs xs h
  | false :: fs, x :: xs, h => by
    simp [gather, countTrue] at h ⊢; exact gather_length fs xs h
  | [], _ :: _, h => by simp at h
  | _ :: _, [], h => by simp at h

theorem scatter_length {α : Type} (d : α) : ∀ (fs : List Bool) (xs : List α),
    (scatter d fs xs).length = fs.length
  | [], _ => rfl
  | true :: fs, x :: xs => by simp [scatter, scatter_length d fs xs]
  | true :: fs, [] => by simp [scatter, scatter_length d fs []]
  | false :: fs, xs => by simp [scatter, scatter_length d fs xs]

/-- `scatter ∘ gather` keeps the flagged entries and puts the default everywhere else -/
theorem scatter_gather {α : Type} (d : α) : ∀ (fs : List Bool) (v : List α), fs.length = v.length →
    scatter d fs (gather fs v) = List.zipWith (fun f x => if f then x else d) fs v
  | [], [], _ => rfl
  | true :: fs, x :: xs, h => by
    simp [gather, scatter] at h ⊢; exact scatter_gather d fs xs h
  | false :: fs, x :: xs, h => by
    simp [gather, scatter] at h ⊢; exact scatter_gather d fs xs h
  | [], _ :: _, h => by simp at h
  | _ :: _, [], h => by simp at h

/-- … hence the identity when everything that is not flagged already is the default -/
theorem scatter_gather_id {α : Type} (d : α) : ∀ (fs : List Bool) (v : List α), fs.length = v.length →
    (∀ p : Bool × α, p ∈ fs.zip v → p.1 = false → p.2 = d) → scatter d fs (gather fs v) = v
  | [], [], _, _ => rfl
  | true :: fs, x :: xs, h, hd => by
    simp [gather, scatter] at h ⊢
    exact scatter_gather_id d fs xs h (fun p hp => hd p (by simp [hp]))
  | false :: fs, x :: xs, h, hd => by
    simp [gather, scatter] at h ⊢
    refine ⟨(hd (false, x) (by simp) rfl).symm, ?_⟩
    exact scatter_gather_id d fs xs h (fun p hp => hd p (by simp [hp]))
  | [], _ :: _, h, _ => by simp at h
  | _ :: _, [], h, _ => by simp at h

theorem gather_mem {α : Type} : ∀ (fs : List Bool) (v : List α) (x : α), x ∈ gather fs v → x ∈ v
  | true :: fs, y :: ys, x, h => by
    simp [gather] at h ⊢
    rcases h with h | h
    · exact Or.inl h
    · exact Or.inr (gather_mem fs ys x h)
  | false :: fs, y :: ys, x, h => by
    simp [gather] at h ⊢
    exact Or.inr (gather_mem fs ys x h)
  | [], v, x, h => by cases v <;> simp [gather] at h
  | true :: _, [], x, h => by simp [gather] at h
  | false :: _, [], x, h => by simp [gather] at h

/-! ### chunks -/

theorem flatten_length_const {α : Type} (k : Nat) : ∀ (items : List (List α)),
    (∀ it ∈ items, it.length = k) → items.flatten.length = items.length * k
  | [], _ => by simp
  | it :: rest, h => by
    simp only [List.flatten_cons, List.length_append, List.length_cons]
    rw [flatten_length_const k rest (fun x hx => h x (by simp [hx])), h it (by simp)]
    rw [Nat.add_mul]; omega

theorem chunks_flatten {α : Type} (k : Nat) (hk : 0 < k) : ∀ (items : List (List α)) (f : Nat),
    (∀ it ∈ items, it.length = k) → items.length ≤ f → chunks k f items.flatten = items
  | [], f, _, _ => by cases f <;> rfl
  | it :: rest, f, h, hf => by
    cases f with
    | zero => simp at hf
    | succ f =>
      have hit : it.length = k := h it (by simp)
      cases it with
      | nil => simp at hit; omega
      | cons x xs =>
        simp only [List.flatten_cons, List.cons_append, chunks]
        have h1 : (x :: (xs ++ rest.flatten)).take k = x :: xs := by
          rw [← List.cons_append, ← hit]; simp
        have h2 : (x :: (xs ++ rest.flatten)).drop k = rest.flatten := by
          rw [← List.cons_append, ← hit]; simp
        rw [h1, h2, chunks_flatten k hk rest f (fun y hy => h y (by simp [hy])) (by simp at hf; omega)]

/-! ### little-endian bytes -/

theorem leBytes_length : ∀ (w x : Nat), (leBytes w x).length = w
  | 0, _ => rfl
  | w + 1, x => by simp [leBytes, leBytes_length w]

theorem ofLeBytes_leBytes : ∀ (w x : Nat), x < 256 ^ w → ofLeBytes (leBytes w x) = x
  | 0, x, h => by simp at h; simp [leBytes, ofLeBytes, h]
  | w + 1, x, h => by
    simp only [leBytes, ofLeBytes]
    rw [ofLeBytes_leBytes w (x / 256) (by
      rw [Nat.pow_succ] at h
      exact Nat.div_lt_of_lt_mul (by rw [Nat.mul_comm]; exact h))]
    omega

theorem wordBytes_length (be : Bool) (w x : Nat) : (wordBytes be w x).length = w := by
  cases be <;> simp [wordBytes, leBytes_length]

theorem ofWordBytes_wordBytes (be : Bool) (w x : Nat) (h : x < 256 ^ w) :
    ofWordBytes be (wordBytes be w x) = x := by
  cases be <;> simp [wordBytes, ofWordBytes, ofLeBytes_leBytes w x h]

theorem map_ofLe_chunks (be : Bool) (w : Nat) (hw : 0 < w) (xs : List Nat) (h : ∀ x ∈ xs, x < 256 ^ w) (f : Nat)
    (hf : xs.length ≤ f) :
    (chunks w f (xs.flatMap (wordBytes be w))).map (ofWordBytes be) = xs := by
  have hfl : xs.flatMap (wordBytes be w) = (xs.map (wordBytes be w)).flatten := by
    rw [List.flatMap_def]
  rw [hfl, chunks_flatten w hw (xs.map (wordBytes be w)) f
    (by intro it hit; simp at hit; obtain ⟨x, _, rfl⟩ := hit; exact wordBytes_length be w x)
    (by simpa using hf)]
  rw [List.map_map]
  conv => rhs; rw [← List.map_id xs]
  apply List.map_congr_left
  intro x hx
  exact ofWordBytes_wordBytes be w x (h x hx)

/-! ### per-item transposition -/

/-- the per-item split is a pure relabelling: entry `i` of component array `k` is component `k`
    of element `i` (index-map form) … -/
theorem itemColumns_get {α : Type} [Inhabited α] (isz : Nat) (rows : List (List α)) (k i : Nat)
    (hk : k < isz) (hi : i < rows.length) :
    ((itemColumns isz rows).getD k []).getD i default = (rows.getD i []).getD k default := by
  unfold itemColumns
  simp [List.getD_eq_getElem?_getD, hk, hi]

/-- … and reassembling the elements from the component arrays gives back the array -/
theorem itemRows_itemColumns {α : Type} [Inhabited α] (isz : Nat) (rows : List (List α))
    (h : ∀ r ∈ rows, r.length = isz) : itemRows rows.length (itemColumns isz rows) = rows := by
  unfold itemRows itemColumns
  apply List.ext_getElem
  · simp
  · intro i h1 h2
    simp only [List.getElem_map, List.getElem_range, List.map_map]
    have hr : rows[i].length = isz := h _ (List.getElem_mem h2)
    apply List.ext_getElem
    · simp [hr]
    · intro k hk1 hk2
      simp [List.getD_eq_getElem?_getD, h2, hk2]

end PMV.Pickle
