import PMV.Props.C06
import PMV.Model.Elem
/-
  C06 ⇄ C02 link.  `PMV/Model/Elem.lean` (agent C02) models, per element, which results polymath MASKS
  (cells `{value, mask}`, partial NumPy primitives in a `Trap` monad, including the derivative factors
  `divDerivX/Y`, `reciprocalDeriv`, `logDeriv`, `sqrtDeriv`, `arcsinDeriv`); `Props/C02.lean` proves
  `masked_iff_undefined_*` about it.  Here the real numbers are made an instance of that model's numeric
  class and, for every scalar clause of C06 that has a singular set (div, /number, reciprocal, sqrt, log,
  arcsin, arccos), it is proved that **`E.ok` implies "unmasked" in C02's model**, for the value and for the
  derivative cell, and that the two models compute the same numbers there.  (Operand cells: value
  `a.val`, mask `!a.ok`; C06's flag is one flag for value and derivative.)
-/
namespace PMV.Dual
open PMV

noncomputable instance instElemNumReal : Elem.Num ℝ where
  zero := 0
  one := 1
  half := 1 / 2
  lt x y := decide (x < y)
  eq x y := decide (x = y)
  floor x := (⌊x⌋ : ℝ)
  isInt x := decide ((⌊x⌋ : ℝ) = x)

instance : Elem.NumLaws ℝ where
  eq_iff x y := by simp [Elem.Num.eq]
  one_ne_zero := by simp [Elem.Num.eq, Elem.Num.one, Elem.Num.zero]
  not_one_lt_zero := by simp [Elem.Num.lt, Elem.Num.one, Elem.Num.zero]
  zero_in_unit := by simp [Elem.Num.lt, Elem.Num.one, Elem.Num.zero]
  lt_irrefl x := by simp [Elem.Num.lt]
  sq_nonneg x := by simp [Elem.Num.lt, Elem.Num.zero, mul_self_nonneg]
  add_nonneg x y hx hy := by
    simp only [Elem.Num.lt, Elem.Num.zero, decide_eq_false_iff_not, not_lt] at *
    linarith

/-- libm over the reals: the mathematical functions of `Num ℝ` -/
noncomputable def realFns : Elem.Fns ℝ where
  sqrt := Real.sqrt
  log := Real.log
  exp := Real.exp
  sin := Real.sin
  cos := Real.cos
  tan := Real.tan
  asin := Real.arcsin
  acos := Real.arccos
  atan := Real.arctan
  atan2 := atan2R
  powr := fun x y => x ^ y
  expMax := 709

theorem log_real_eq (a : ℝ) : Num.log a = Real.log a := rfl
theorem asin_real_eq (a : ℝ) : Num.asin a = Real.arcsin a := rfl
theorem acos_real_eq (a : ℝ) : Num.acos a = Real.arccos a := rfl

section link
variable (env : ℕ → ℝ) (denv : ℕ → Option ℝ) (um : ℕ → Bool)

/-- the cell C02's model sees for a C06 sub-expression: its value, masked iff not `ok` -/
noncomputable def cellOf (a : E ℝ) : Elem.Cell ℝ := ⟨a.val env, !a.ok env um⟩
/-- … and for its derivative -/
noncomputable def dcellOf (a : E ℝ) : Elem.Cell ℝ := ⟨(a.der env denv).getD 0, !a.ok env um⟩

attribute [local simp] cellOf dcellOf Elem.divByScalar Elem.divByNumber Elem.reciprocal Elem.sqrt Elem.log Elem.arcsin
  Elem.maskWhere Elem.pdiv Elem.psqrt Elem.plog Elem.pasin Elem.pacos Elem.divDerivX Elem.divDerivY Elem.reciprocalDeriv
  Elem.logDeriv Elem.sqrtDeriv Elem.arcsinDeriv Elem.rdivNumber Elem.mul Elem.reciprocalFast Elem.fastEval Elem.trips
  Elem.Num.isZero Elem.Num.le Elem.Num.gt Elem.Num.eq Elem.Num.lt Elem.Num.zero Elem.Num.one Elem.Num.half
  Elem.Trap.isOk Elem.Trap.asError realFns
  E.ok E.val E.der getD_dDiv getD_dFac getD_map_div

/-- `a / b`: C06-ok ⇒ C02's `_div_by_scalar` result is unmasked with the same value, and both derivative
    factors of `_div_derivs` are unmasked with the values of `dDiv` -/
theorem ok_unmasked_div (a b : E ℝ) (h : (E.div a b).ok env um = true) :
    Elem.divByScalar (cellOf env um a) (cellOf env um b) = .ok ⟨(E.div a b).val env, false⟩ ∧
    Elem.divDerivX (dcellOf env denv um a) (cellOf env um b)
      = .ok ⟨(a.der env denv).getD 0 * (1 / b.val env), false⟩ ∧
    Elem.divDerivY (cellOf env um a) (dcellOf env denv um b) (cellOf env um b)
      = .ok ⟨-(a.val env * ((b.der env denv).getD 0 * (1 / b.val env) * (1 / b.val env))), false⟩ := by
  simp only [E.ok, Bool.and_eq_true, nz_real] at h
  obtain ⟨⟨ha, hb⟩, hne⟩ := h
  refine ⟨?_, ?_, ?_⟩ <;> simp [ha, hb, hne, Bind.bind, Elem.Trap.bind]

/-- `a / c` for a Python number -/
theorem ok_unmasked_divn (a : E ℝ) (c : ℝ) (h : (E.divn a c).ok env um = true) :
    Elem.divByNumber (cellOf env um a) c = .ok ⟨(E.divn a c).val env, false⟩ := by
  simp only [E.ok, Bool.and_eq_true, nz_real] at h
  simp [h.1, h.2, Bind.bind, Elem.Trap.bind]

/-- `a.reciprocal()`: value and derivative (`-obj*obj * deriv`) -/
theorem ok_unmasked_recip (a : E ℝ) (h : (E.recip a).ok env um = true) :
    Elem.reciprocal false (cellOf env um a) = .ok ⟨(E.recip a).val env, false⟩ ∧
    Elem.reciprocalDeriv (dcellOf env denv um a) (cellOf env um a)
      = .ok ⟨((E.recip a).der env denv).getD 0, false⟩ := by
  simp only [E.ok, Bool.and_eq_true, nz_real] at h
  refine ⟨?_, ?_⟩ <;> simp [h.1, h.2, Bind.bind, Elem.Trap.bind]

/-- `a.sqrt()`: value, and derivative `0.5/obj * deriv` (masked by the source at radicand 0, where C06 is not ok) -/
theorem ok_unmasked_sqrt (a : E ℝ) (h : (E.sqrt a).ok env um = true) :
    Elem.sqrt realFns true (cellOf env um a) = .ok ⟨(E.sqrt a).val env, false⟩ ∧
    Elem.sqrtDeriv realFns (dcellOf env denv um a) (cellOf env um a)
      = .ok ⟨((E.sqrt a).der env denv).getD 0, false⟩ := by
  simp only [E.ok, Bool.and_eq_true, lt_real, zero_real] at h
  have hpos := h.2
  have hs : Real.sqrt (a.val env) ≠ 0 := (Real.sqrt_pos.mpr hpos).ne'
  refine ⟨?_, ?_⟩ <;> simp [h.1, not_lt.mpr hpos.le, hs, Bind.bind, Elem.Trap.bind]

/-- `a.log()`: value and derivative `deriv / x` -/
theorem ok_unmasked_log (a : E ℝ) (h : (E.log a).ok env um = true) :
    Elem.log realFns true (cellOf env um a) = .ok ⟨(E.log a).val env, false⟩ ∧
    Elem.logDeriv (dcellOf env denv um a) (cellOf env um a)
      = .ok ⟨((E.log a).der env denv).getD 0, false⟩ := by
  simp only [E.ok, Bool.and_eq_true, lt_real, zero_real] at h
  have hpos := h.2
  refine ⟨?_, ?_⟩ <;> simp [h.1, not_lt.mpr hpos.le, hpos.ne', Bind.bind, Elem.Trap.bind, log_real_eq]

/-- `a.arcsin()` / `a.arccos()`: value and derivative `±(1 - x²)**(-0.5) * deriv` -/
theorem ok_unmasked_asin (a : E ℝ) (h : (E.asin a).ok env um = true) :
    Elem.arcsin realFns false true (cellOf env um a) = .ok ⟨(E.asin a).val env, false⟩ ∧
    Elem.arcsinDeriv realFns false (dcellOf env denv um a) (cellOf env um a)
      = .ok ⟨((E.asin a).der env denv).getD 0, false⟩ := by
  simp only [E.ok, Bool.and_eq_true, lt_real, one_real, ofInt_real] at h
  have h1 : -1 < a.val env := by have := h.1.2; push_cast at this; exact this
  have h2 := h.2
  have hq : 0 < 1 - a.val env * a.val env := by nlinarith
  have hs : Real.sqrt (1 - a.val env * a.val env) ≠ 0 := (Real.sqrt_pos.mpr hq).ne'
  refine ⟨?_, ?_⟩ <;>
    simp [h.1.1, not_lt.mpr h1.le, not_lt.mpr h2.le, not_lt.mpr hq.le, hs, Bind.bind, Elem.Trap.bind, asin_real_eq,
      acos_real_eq]

theorem ok_unmasked_acos (a : E ℝ) (h : (E.acos a).ok env um = true) :
    Elem.arcsin realFns true true (cellOf env um a) = .ok ⟨(E.acos a).val env, false⟩ ∧
    Elem.arcsinDeriv realFns true (dcellOf env denv um a) (cellOf env um a)
      = .ok ⟨((E.acos a).der env denv).getD 0, false⟩ := by
  simp only [E.ok, Bool.and_eq_true, lt_real, one_real, ofInt_real] at h
  have h1 : -1 < a.val env := by have := h.1.2; push_cast at this; exact this
  have h2 := h.2
  have hq : 0 < 1 - a.val env * a.val env := by nlinarith
  have hs : Real.sqrt (1 - a.val env * a.val env) ≠ 0 := (Real.sqrt_pos.mpr hq).ne'
  refine ⟨?_, ?_⟩ <;>
    simp [h.1.1, not_lt.mpr h1.le, not_lt.mpr h2.le, not_lt.mpr hq.le, hs, Bind.bind, Elem.Trap.bind, asin_real_eq,
      acos_real_eq]

end link
end PMV.Dual
