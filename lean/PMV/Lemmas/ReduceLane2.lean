import PMV.Lemmas.ReduceLane
/-
  Lane-level lemmas for C13, part 2: argmax/argmin, any/all, maximum/minimum, item sums.
-/
namespace PMV.Reduce

variable {α β : Type}

/-! ### argmax / argmin -/

theorem findIdx_congr_mem {l : List α} {p q : α → Bool} (h : ∀ x ∈ l, p x = q x) :
    l.findIdx p = l.findIdx q := by
  induction l with
  | nil => rfl
  | cons a l ih =>
    rw [List.findIdx_cons, List.findIdx_cons, h a (by simp), ih (fun x hx => h x (by simp [hx]))]

theorem findIdx_map_fn (f : α → β) (l : List α) (p : β → Bool) :
    (l.map f).findIdx p = l.findIdx (fun x => p (f x)) := by
  induction l with
  | nil => rfl
  | cons a l ih => rw [List.map_cons, List.findIdx_cons, List.findIdx_cons, ih]

theorem foldl_max_eq_self_iff (xs : List Int) (x : Int) : xs.foldl max x = x ↔ ∀ y ∈ xs, y ≤ x := by
  constructor
  · intro h y hy; rw [← h]; exact foldl_max_ge_mem xs x y hy
  · intro h
    apply Int.le_antisymm
    · rcases foldl_max_mem xs x with e | e
      · rw [e]; exact Int.le_refl x
      · exact h _ e
    · exact foldl_max_ge xs x

/-- the loop of `np.argmax`: the running best index survives unless a later element is strictly
    larger, and then the answer is the first position of the overall maximum -/
theorem argmaxFrom_eq (xs : List Int) (i bi : Nat) (bv : Int) :
    argmaxFrom xs i bi bv =
      if xs.foldl max bv = bv then bi else i + xs.findIdx (fun y => y == xs.foldl max bv) := by
  induction xs generalizing i bi bv with
  | nil => simp [argmaxFrom]
  | cons x xs ih =>
    unfold argmaxFrom
    rw [List.foldl_cons, List.findIdx_cons]
    by_cases hx : x > bv
    · have hm : max bv x = x := Int.max_eq_right (Int.le_of_lt hx)
      rw [if_pos hx, ih, hm]
      have hge := foldl_max_ge xs x
      by_cases he : xs.foldl max x = x
      · have : ¬ (x = bv) := by omega
        simp [he, this]
      · have h1 : ¬ (xs.foldl max x = bv) := by omega
        have h2 : (x == xs.foldl max x) = false := by
          simp; exact fun h => he h.symm
        simp [he, h1, h2]; omega
    · have hm : max bv x = bv := Int.max_eq_left (by omega)
      rw [if_neg hx, ih, hm]
      have hge := foldl_max_ge xs bv
      by_cases he : xs.foldl max bv = bv
      · simp [he]
      · have h2 : (x == xs.foldl max bv) = false := by
          simp; omega
        simp [he, h2]; omega

theorem npArgmax_eq (l : List Int) (h : l ≠ []) : npArgmax l = l.findIdx (fun y => y == npMax l) := by
  cases l with
  | nil => contradiction
  | cons x xs =>
    show argmaxFrom xs 1 0 x = (x :: xs).findIdx (fun y => y == xs.foldl max x)
    rw [argmaxFrom_eq, List.findIdx_cons]
    by_cases he : xs.foldl max x = x
    · simp [he]
    · have : (x == xs.foldl max x) = false := by simp; exact fun h => he h.symm
      simp [he, this]; omega

theorem foldl_min_eq_self_iff (xs : List Int) (x : Int) : xs.foldl min x = x ↔ ∀ y ∈ xs, x ≤ y := by
  constructor
  · intro h y hy; rw [← h]; exact foldl_min_le_mem xs x y hy
  · intro h
    apply Int.le_antisymm
    · exact foldl_min_le xs x
    · rcases foldl_min_mem xs x with e | e
      · rw [e]; exact Int.le_refl x
      · exact h _ e

theorem argminFrom_eq (xs : List Int) (i bi : Nat) (bv : Int) :
    argminFrom xs i bi bv =
      if xs.foldl min bv = bv then bi else i + xs.findIdx (fun y => y == xs.foldl min bv) := by
  induction xs generalizing i bi bv with
  | nil => simp [argminFrom]
  | cons x xs ih =>
    unfold argminFrom
    rw [List.foldl_cons, List.findIdx_cons]
    by_cases hx : x < bv
    · have hm : min bv x = x := Int.min_eq_right (Int.le_of_lt hx)
      rw [if_pos hx, ih, hm]
      have hge := foldl_min_le xs x
      by_cases he : xs.foldl min x = x
      · have : ¬ (x = bv) := by omega
        simp [he, this]
      · have h1 : ¬ (xs.foldl min x = bv) := by omega
        have h2 : (x == xs.foldl min x) = false := by
          simp; exact fun h => he h.symm
        simp [he, h1, h2]; omega
    · have hm : min bv x = bv := Int.min_eq_left (by omega)
      rw [if_neg hx, ih, hm]
      have hge := foldl_min_le xs bv
      by_cases he : xs.foldl min bv = bv
      · simp [he]
      · have h2 : (x == xs.foldl min bv) = false := by
          simp; omega
        simp [he, h2]; omega

theorem npArgmin_eq (l : List Int) (h : l ≠ []) : npArgmin l = l.findIdx (fun y => y == npMin l) := by
  cases l with
  | nil => contradiction
  | cons x xs =>
    show argminFrom xs 1 0 x = (x :: xs).findIdx (fun y => y == xs.foldl min x)
    rw [argminFrom_eq, List.findIdx_cons]
    by_cases he : xs.foldl min x = x
    · simp [he]
    · have : (x == xs.foldl min x) = false := by simp; exact fun h => he h.symm
      simp [he, this]; omega

theorem argmaxMixed_spec (minval : Int) (xs : List (Cell Int))
    (hmin : ∀ c ∈ xs, c.m = false → minval < c.v) :
    obs (argmaxMixed minval xs) = specArgmax xs := by
  unfold argmaxMixed specArgmax
  by_cases h : unm xs = []
  · have : xs.all (·.m) = true := (all_m_iff xs).2 h
    simp only [this, h]; rfl
  · have hall : xs.all (·.m) = false := by
      cases hh : xs.all (·.m)
      · rfl
      · exact absurd ((all_m_iff xs).1 hh) h
    have hmx := npMax_fillWith minval xs h (fun c hc hm => Int.le_of_lt (hmin c hc hm))
    have key : npArgmax (fillWith minval xs)
        = xs.findIdx (fun c => !c.m && c.v == npMax (unm xs)) := by
      rw [npArgmax_eq _ (fillWith_ne_nil minval xs h), hmx]
      show (xs.map _).findIdx _ = _
      rw [findIdx_map_fn]
      apply findIdx_congr_mem
      intro c hc
      obtain ⟨d, hd, hdm, hdv⟩ := (mem_unm xs _).1 (npMax_mem _ h)
      have hlt : minval < npMax (unm xs) := by rw [← hdv]; exact hmin d hd hdm
      cases hm : c.m
      · simp
      · simp; omega
    simp only [hall, key]
    split
    · contradiction
    · rfl

theorem argminMixed_spec (maxval : Int) (xs : List (Cell Int))
    (hmax : ∀ c ∈ xs, c.m = false → c.v < maxval) :
    obs (argminMixed maxval xs) = specArgmin xs := by
  unfold argminMixed specArgmin
  by_cases h : unm xs = []
  · have : xs.all (·.m) = true := (all_m_iff xs).2 h
    simp only [this, h]; rfl
  · have hall : xs.all (·.m) = false := by
      cases hh : xs.all (·.m)
      · rfl
      · exact absurd ((all_m_iff xs).1 hh) h
    have hmx := npMin_fillWith maxval xs h (fun c hc hm => Int.le_of_lt (hmax c hc hm))
    have key : npArgmin (fillWith maxval xs)
        = xs.findIdx (fun c => !c.m && c.v == npMin (unm xs)) := by
      rw [npArgmin_eq _ (fillWith_ne_nil maxval xs h), hmx]
      show (xs.map _).findIdx _ = _
      rw [findIdx_map_fn]
      apply findIdx_congr_mem
      intro c hc
      obtain ⟨d, hd, hdm, hdv⟩ := (mem_unm xs _).1 (npMin_mem _ h)
      have hlt : npMin (unm xs) < maxval := by rw [← hdv]; exact hmax d hd hdm
      cases hm : c.m
      · simp
      · simp; omega
    simp only [hall, key]
    split
    · contradiction
    · rfl

/-- plain `np.argmax` on a lane without masked elements is the reference -/
theorem argmax_plain_spec (xs : List (Cell Int)) (hne : xs ≠ []) (h : ∀ c ∈ xs, c.m = false) :
    obs (npArgmax (raw xs), false) = specArgmax xs := by
  have hu := unm_eq_raw xs h
  have hr : raw xs ≠ [] := by cases xs with
    | nil => contradiction
    | cons c cs => simp [raw]
  unfold specArgmax
  rw [hu]
  split
  · contradiction
  · rename_i u hu2
    rw [npArgmax_eq _ hr]
    show some ((xs.map _).findIdx _) = _
    rw [findIdx_map_fn]
    congr 1
    apply findIdx_congr_mem
    intro c hc
    simp [h c hc]

theorem argmin_plain_spec (xs : List (Cell Int)) (hne : xs ≠ []) (h : ∀ c ∈ xs, c.m = false) :
    obs (npArgmin (raw xs), false) = specArgmin xs := by
  have hu := unm_eq_raw xs h
  have hr : raw xs ≠ [] := by cases xs with
    | nil => contradiction
    | cons c cs => simp [raw]
  unfold specArgmin
  rw [hu]
  split
  · contradiction
  · rename_i u hu2
    rw [npArgmin_eq _ hr]
    show some ((xs.map _).findIdx _) = _
    rw [findIdx_map_fn]
    congr 1
    apply findIdx_congr_mem
    intro c hc
    simp [h c hc]

theorem specArgmax_of_nil (xs : List (Cell Int)) (h : unm xs = []) : specArgmax xs = none := by
  simp [specArgmax, h]
theorem specArgmin_of_nil (xs : List (Cell Int)) (h : unm xs = []) : specArgmin xs = none := by
  simp [specArgmin, h]

/-! ### any / all -/

theorem any_unm (xs : List (Cell Bool)) : (xs.any fun c => c.v && !c.m) = npAny (unm xs) := by
  induction xs with
  | nil => rfl
  | cons c cs ih =>
    rw [unm_cons, List.any_cons, ih]
    cases c.m <;> simp [npAny]

theorem all_unm (xs : List (Cell Bool)) : (xs.all fun c => c.v || c.m) = npAll (unm xs) := by
  induction xs with
  | nil => rfl
  | cons c cs ih =>
    rw [unm_cons, List.all_cons, ih]
    cases c.m <;> simp [npAll]

theorem anyLane_array_spec (xs : List (Cell Bool)) : obs (anyLane .array xs) = specRed npAny xs := by
  unfold anyLane
  by_cases h : unm xs = []
  · rw [specRed_of_nil _ _ h]
    have : xs.all (·.m) = true := (all_m_iff xs).2 h
    simp only [this]; rfl
  · rw [specRed_of_ne _ _ h]
    have : xs.all (·.m) = false := by
      cases hh : xs.all (·.m)
      · rfl
      · exact absurd ((all_m_iff xs).1 hh) h
    simp only [this, any_unm]; rfl

theorem allLane_array_spec (xs : List (Cell Bool)) : obs (allLane .array xs) = specRed npAll xs := by
  unfold allLane
  by_cases h : unm xs = []
  · rw [specRed_of_nil _ _ h]
    have : xs.all (·.m) = true := (all_m_iff xs).2 h
    simp only [this]; rfl
  · rw [specRed_of_ne _ _ h]
    have : xs.all (·.m) = false := by
      cases hh : xs.all (·.m)
      · rfl
      · exact absurd ((all_m_iff xs).1 hh) h
    simp only [this, all_unm]; rfl

theorem any_raw (xs : List (Cell Bool)) : xs.any (·.v) = npAny (raw xs) := by
  simp [npAny, raw, List.any_map]
theorem all_raw (xs : List (Cell Bool)) : xs.all (·.v) = npAll (raw xs) := by
  simp [npAll, raw, List.all_map]

/-! ### Scalar.maximum / minimum -/

def cellObs (c : Cell Int) : Option Int := obs (c.v, c.m)

/-- running answer after more candidates: the best so far against the unmasked newcomers -/
def joinMax (o : Option Int) (u : List Int) : Option Int :=
  match o, u with
  | some a, u => some (u.foldl max a)
  | none, [] => none
  | none, b :: u => some (u.foldl max b)

def joinMin (o : Option Int) (u : List Int) : Option Int :=
  match o, u with
  | some a, u => some (u.foldl min a)
  | none, [] => none
  | none, b :: u => some (u.foldl min b)

theorem foldl_maximumStep (cs : List (Cell Int)) (r : Cell Int) :
    cellObs (cs.foldl maximumStep r) = joinMax (cellObs r) (unm cs) := by
  induction cs generalizing r with
  | nil =>
    obtain ⟨v, m⟩ := r
    cases m <;> rfl
  | cons s cs ih =>
    rw [List.foldl_cons, ih, unm_cons]
    obtain ⟨rv, rm⟩ := r
    obtain ⟨sv, sm⟩ := s
    cases rm <;> cases sm <;> simp [maximumStep, cellObs, obs, joinMax]
    · by_cases h : rv < sv
      · simp [h, Int.max_eq_right (Int.le_of_lt h)]
      · simp [h, Int.max_eq_left (Int.not_lt.1 h)]

theorem foldl_minimumStep (cs : List (Cell Int)) (r : Cell Int) :
    cellObs (cs.foldl minimumStep r) = joinMin (cellObs r) (unm cs) := by
  induction cs generalizing r with
  | nil =>
    obtain ⟨v, m⟩ := r
    cases m <;> rfl
  | cons s cs ih =>
    rw [List.foldl_cons, ih, unm_cons]
    obtain ⟨rv, rm⟩ := r
    obtain ⟨sv, sm⟩ := s
    cases rm <;> cases sm <;> simp [minimumStep, cellObs, obs, joinMin]
    · by_cases h : sv < rv
      · simp [h, Int.min_eq_right (Int.le_of_lt h)]
      · simp [h, Int.min_eq_left (Int.not_lt.1 h)]

/-! ### item sums -/

theorem vSum_length_le (isz : Nat) (l : List (List Int)) : (vSum isz l).length ≤ isz := by
  induction l with
  | nil => simp [vSum]
  | cons a l ih =>
    show (List.zipWith (· + ·) a (vSum isz l)).length ≤ isz
    rw [List.length_zipWith]; omega

theorem zipWith_zero_left (isz : Nat) (b : List Int) (h : b.length ≤ isz) :
    List.zipWith (· + ·) (List.replicate isz 0) b = b := by
  induction b generalizing isz with
  | nil => simp
  | cons x b ih =>
    cases isz with
    | zero => simp at h
    | succ n =>
      rw [List.replicate_succ, List.zipWith_cons_cons, ih n (by simpa using h)]
      simp

theorem vSum_vZeroFill (isz : Nat) (xs : List (Cell (List Int))) :
    vSum isz (vZeroFill isz xs) = vSum isz (unm xs) := by
  induction xs with
  | nil => rfl
  | cons c cs ih =>
    rw [unm_cons]
    have e : vZeroFill isz (c :: cs) = (if c.m then List.replicate isz 0 else c.v) :: vZeroFill isz cs := rfl
    rw [e]
    show List.zipWith (· + ·) _ (vSum isz (vZeroFill isz cs)) = _
    rw [ih]
    cases c.m
    · rfl
    · simp only [if_true]
      exact zipWith_zero_left isz _ (vSum_length_le isz _)

/-- component `k` of an item sum is the scalar sum of the components `k` -/
theorem vSum_getD (isz : Nat) (l : List (List Int)) (k : Nat) (hk : k < isz)
    (hl : ∀ a ∈ l, a.length = isz) :
    (vSum isz l).getD k 0 = npSum (l.map fun a => a.getD k 0) := by
  induction l with
  | nil => simp [vSum, npSum, List.getD_eq_getElem?_getD, List.getElem?_replicate, hk]
  | cons a l ih =>
    have hlen : (vSum isz l).length = isz := by
      clear ih
      induction l with
      | nil => simp [vSum]
      | cons b l ih2 =>
        show (List.zipWith (· + ·) b (vSum isz l)).length = isz
        rw [List.length_zipWith, ih2 (fun c hc => hl c (by
          rcases List.mem_cons.1 hc with h | h
          · simp [h]
          · simp [h])), hl b (by simp)]
        omega
    have ha : a.length = isz := hl a (by simp)
    show (List.zipWith (· + ·) a (vSum isz l)).getD k 0 = a.getD k 0 + npSum (l.map fun a => a.getD k 0)
    rw [← ih (fun b hb => hl b (by simp [hb]))]
    simp only [List.getD_eq_getElem?_getD, List.getElem?_zipWith]
    have h1 : k < a.length := by omega
    have h2 : k < (vSum isz l).length := by omega
    simp [List.getElem?_eq_getElem h1, List.getElem?_eq_getElem h2]

theorem vSumMixed_spec (isz : Nat) (dflt : List Int) (xs : List (Cell (List Int))) :
    obs (vSumMixed isz dflt xs) = specRed (vSum isz) xs := by
  unfold vSumMixed
  simp only [count_eq, vSum_vZeroFill]
  by_cases h : unm xs = []
  · rw [specRed_of_nil _ _ h]; simp [h, obs]
  · rw [specRed_of_ne _ _ h]
    have : ((unm xs).length == 0) = false := by
      cases hl : unm xs with
      | nil => contradiction
      | cons _ _ => rfl
    simp [this, obs]

theorem vMeanMixed_spec (isz : Nat) (dflt : List Int) (xs : List (Cell (List Int))) :
    obs (vMeanMixed isz dflt xs) = specRed (fun u => (vSum isz u, u.length)) xs := by
  unfold vMeanMixed
  simp only [count_eq, vSum_vZeroFill]
  by_cases h : unm xs = []
  · rw [specRed_of_nil _ _ h]; simp [h, obs]
  · rw [specRed_of_ne _ _ h]
    have hl : (unm xs).length ≠ 0 := by
      cases hl : unm xs with
      | nil => contradiction
      | cons _ _ => simp
    have h1 : ((unm xs).length == 0) = false := by simp [hl]
    have h2 : max (unm xs).length 1 = (unm xs).length := by omega
    simp [h1, h2, obs]

end PMV.Reduce
