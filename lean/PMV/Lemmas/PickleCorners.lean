import PMV.Lemmas.PickleLists
/-
  Corner finding and cropping (qube.py:1386-1467) are sound for every rank.  Core Lean only.
-/
namespace PMV.Pickle
open PMV

/-! ### the row-major index list -/

theorem mem_indices : ∀ (s : Shape) (i : Index), i ∈ indices s →
    i.length = s.length ∧ ∀ k, k < s.length → i.getD k 0 < s.getD k 0
  | [], i, h => by
    simp [indices] at h; subst h; exact ⟨rfl, fun k hk => by simp at hk⟩
  | n :: s, i, h => by
    simp only [indices, List.mem_flatMap, List.mem_range, List.mem_map] at h
    obtain ⟨j, hj, is, his, rfl⟩ := h
    obtain ⟨h1, h2⟩ := mem_indices s is his
    refine ⟨by simp [h1], ?_⟩
    intro k hk
    cases k with
    | zero => simpa using hj
    | succ k => simpa using h2 k (by simpa using hk)

theorem length_flatMap_range {α : Type} (f : Nat → List α) (L : Nat) (hf : ∀ j, (f j).length = L) :
    ∀ n, ((List.range n).flatMap f).length = n * L
  | 0 => by simp
  | n + 1 => by
    rw [List.range_succ, List.flatMap_append, List.length_append, length_flatMap_range f L hf n]
    simp [hf, Nat.succ_mul]

theorem length_indices : ∀ (s : Shape), (indices s).length = size s
  | [] => rfl
  | n :: s => by
    simp only [indices]
    rw [length_flatMap_range _ (size s) (fun j => by simp [length_indices s]) n]
    simp [size]

/-! ### first / last occupied position -/

theorem firstTrue_endTrue : ∀ (l : List Bool) (j : Nat), l[j]? = some true →
    firstTrue l ≤ j ∧ j < endTrue l
  | [], j, h => by simp at h
  | b :: bs, 0, h => by
    simp at h; subst h
    simp only [firstTrue, endTrue]
    refine ⟨by simp, ?_⟩
    by_cases he : endTrue bs = 0 <;> simp [he]
  | b :: bs, j + 1, h => by
    simp at h
    obtain ⟨h1, h2⟩ := firstTrue_endTrue bs j h
    simp only [firstTrue, endTrue]
    constructor
    · split <;> omega
    · split <;> omega

/-! ### occupancy -/

theorem occupied_of_unmasked (shape : Shape) (bits : List Bool) (i : Index) (axis : Nat)
    (hmem : (i, false) ∈ (indices shape).zip bits) (hax : axis < shape.length) :
    (occupied shape bits axis)[i.getD axis 0]? = some true := by
  have hi := mem_indices shape i (List.of_mem_zip hmem).1
  have hlt : i.getD axis 0 < shape.getD axis 0 := hi.2 axis hax
  unfold occupied
  rw [List.getElem?_map, List.getElem?_range hlt]
  simp only [Option.map_some, Option.some.injEq, List.any_eq_true]
  exact ⟨(i, false), hmem, by simp⟩

/-! ### the loop -/

theorem cornersLoop_sound (shape : Shape) (bits : List Bool) (i : Index)
    (hmem : (i, false) ∈ (indices shape).zip bits) :
    ∀ (n axis : Nat), axis + n = shape.length →
      ∃ lo hi, cornersLoop shape bits axis n = some (lo, hi) ∧ inBox lo hi (i.drop axis) = true := by
  have hi := mem_indices shape i (List.of_mem_zip hmem).1
  intro n
  induction n with
  | zero =>
    intro axis h
    refine ⟨[], [], rfl, ?_⟩
    have : i.drop axis = [] := List.drop_of_length_le (by omega)
    rw [this]; rfl
  | succ n ih =>
    intro axis h
    have hax : axis < shape.length := by omega
    obtain ⟨lo, hi', hl, hb⟩ := ih (axis + 1) (by omega)
    have hocc := occupied_of_unmasked shape bits i axis hmem hax
    obtain ⟨h1, h2⟩ := firstTrue_endTrue _ _ hocc
    have hne : endTrue (occupied shape bits axis) ≠ 0 := by omega
    refine ⟨firstTrue (occupied shape bits axis) :: lo, endTrue (occupied shape bits axis) :: hi', ?_, ?_⟩
    · simp only [cornersLoop, hne, if_false, hl]
    · have hlen : axis < i.length := by omega
      have hd : i.drop axis = i[axis] :: i.drop (axis + 1) := by
        rw [List.drop_eq_getElem_cons hlen]
      have hg : i.getD axis 0 = i[axis] := by simp [List.getD_eq_getElem?_getD, hlen]
      rw [hd]
      simp only [inBox, hb, Bool.and_true, Bool.and_eq_true, decide_eq_true_eq]
      rw [hg] at h1 h2
      exact ⟨h1, h2⟩

/-- **Every unmasked element lies inside the corners**, for arrays of any rank. -/
theorem findCorners_sound (shape : Shape) (bits : List Bool) (i : Index)
    (hmem : (i, false) ∈ (indices shape).zip bits) :
    inBox (findCorners shape bits).1 (findCorners shape bits).2 i = true := by
  obtain ⟨lo, hi, hl, hb⟩ := cornersLoop_sound shape bits i hmem shape.length 0 (by simp)
  simp only [findCorners, hl]
  simpa using hb

/-- so every position outside the slicer is masked … -/
theorem outside_box_masked (shape : Shape) (bits : List Bool) :
    ∀ p : Bool × Bool, p ∈ (boxFlags shape (findCorners shape bits).1 (findCorners shape bits).2).zip bits →
      p.1 = false → p.2 = true := by
  intro p hp hf
  obtain ⟨f, b⟩ := p
  simp only at hf; subst hf
  cases b with
  | true => rfl
  | false =>
    exfalso
    -- the position carries an index that is unmasked and outside the box: impossible
    unfold boxFlags at hp
    rw [List.zip_map_left] at hp
    simp only [List.mem_map] at hp
    obtain ⟨⟨i, b⟩, hib, heq⟩ := hp
    simp only [Prod.map, id, Prod.mk.injEq] at heq
    obtain ⟨h1, h2⟩ := heq
    subst h2
    have := findCorners_sound shape bits i hib
    rw [this] at h1
    exact Bool.noConfusion h1

/-- … and restoring the cropped mask into an all-True array gives back the mask. -/
theorem crop_restore (shape : Shape) (bits : List Bool) (hlen : bits.length = size shape) :
    let c := findCorners shape bits
    scatter true (boxFlags shape c.1 c.2) (gather (boxFlags shape c.1 c.2) bits) = bits := by
  intro c
  apply scatter_gather_id
  · simp [boxFlags, length_indices, hlen]
  · exact outside_box_masked shape bits

end PMV.Pickle
