import PMV.Model.Heap
import PMV.Lemmas.HeapCopy
import PMV.Lemmas.HeapFrame
/-
  copy() and mutation histories for objects WITH derivatives: helper development for Props/C07.lean.
  Everything is reduced to the object-level notions of HeapCopy.lean, pairwise over the members
  (`reachObjs` = the object and its derivative objects).  Core Lean only.
-/
namespace PMV.Heap

/-- no member of `x` shares an ndarray object or a buffer with a member of `y` (and no member is common) -/
def SepT (h : Heap) (x y : Nat) : Prop := ∀ p ∈ h.reachObjs x, ∀ q ∈ h.reachObjs y, Sep h p q
def WFT (h : Heap) (x : Nat) : Prop := ∀ p ∈ h.reachObjs x, WF h p
/-- the complete observation of `x` — the object, the SET of its derivatives and every derivative object, all their
    ndarray objects with flags, the contents of all their buffers — is the same in `h'` -/
def SameObsT (h h' : Heap) (x : Nat) : Prop := ∀ p ∈ h.reachObjs x, SameObs h h' p

theorem SepT.symm {h : Heap} {x y : Nat} (s : SepT h x y) : SepT h y x :=
  fun q hq p hp => (s p hp q hq).symm

theorem root_mem (h : Heap) (x : Nat) : x ∈ h.reachObjs x := by simp [Heap.reachObjs]

theorem SameObsT.reach {h h' : Heap} {x : Nat} (s : SameObsT h h' x) : h'.reachObjs x = h.reachObjs x := by
  have := (s x (root_mem h x)).1
  simp [Heap.reachObjs, this]

theorem SameObsT.refl (h : Heap) (x : Nat) : SameObsT h h x := fun p _ => SameObs.refl h p

theorem SameObsT.trans {h1 h2 h3 : Heap} {x : Nat} (a : SameObsT h1 h2 x) (b : SameObsT h2 h3 x) :
    SameObsT h1 h3 x := by
  intro p hp
  have hp2 : p ∈ h2.reachObjs x := by rw [a.reach]; exact hp
  exact (a p hp).trans (b p hp2)

/-- `h'` extends `h`: allocation only grows and every old ndarray keeps its buffer -/
structure Ext (h h' : Heap) : Prop where
  next : h.next ≤ h'.next
  arrBuf : ∀ a, a < h.next → (h'.arr a).buf = (h.arr a).buf

def KeepsOwn (h h' : Heap) (u : Nat) : Prop :=
  (h'.obj u).vals = (h.obj u).vals ∧ (h'.obj u).mask = (h.obj u).mask

theorem owns_keep {h h' : Heap} {u : Nat} (k : KeepsOwn h h' u) (a : Nat) : Owns h' u a ↔ Owns h u a := by
  unfold Owns; rw [k.1, k.2]

theorem wf_frame {h h' : Heap} {u : Nat} (e : Ext h h') (k : KeepsOwn h h' u) (w : WF h u) : WF h' u := by
  obtain ⟨w1, w2⟩ := w
  refine ⟨Nat.lt_of_lt_of_le w1 e.next, fun a ha => ?_⟩
  obtain ⟨a1, a2⟩ := w2 a ((owns_keep k a).1 ha)
  rw [e.arrBuf a a1]
  exact ⟨Nat.lt_of_lt_of_le a1 e.next, Nat.lt_of_lt_of_le a2 e.next⟩

theorem sep_frame {h h' : Heap} {u q : Nat} (e : Ext h h') (ku : KeepsOwn h h' u) (kq : KeepsOwn h h' q)
    (wu : WF h u) (wq : WF h q) (s : Sep h u q) : Sep h' u q := by
  refine ⟨s.1, fun a b ha hb => ?_⟩
  have ha' := (owns_keep ku a).1 ha
  have hb' := (owns_keep kq b).1 hb
  rw [e.arrBuf a (wu.2 a ha').1, e.arrBuf b (wq.2 b hb').1]
  exact s.2 a b ha' hb'

/-- what one object-level mutation of `p` can do to the rest of the heap -/
structure MutFrame (h h' : Heap) (p : Nat) : Prop where
  ext : Ext h h'
  objOther : ∀ y, y ≠ p → h'.obj y = h.obj y
  derivs : ∀ y, (h'.obj y).derivs = (h.obj y).derivs

theorem setWrOpt_obj (h : Heap) (o : Option Nat) : (h.setWrOpt o).obj = h.obj := by cases o <;> rfl
theorem setWrOpt_next (h : Heap) (o : Option Nat) : (h.setWrOpt o).next = h.next := by cases o <;> rfl

theorem applyMut_frame (h : Heap) (p : Nat) (m : Mut) : MutFrame h (applyMut h p m) p := by
  have rfl' : MutFrame h h p := ⟨⟨Nat.le_refl _, fun _ _ => rfl⟩, fun _ _ => rfl, fun _ => rfl⟩
  cases m with
  | write v =>
    simp only [applyMut]
    split
    · split
      · exact ⟨⟨Nat.le_refl _, fun _ _ => rfl⟩, fun _ _ => rfl, fun _ => rfl⟩
      · exact rfl'
    · exact rfl'
  | writeMask v =>
    simp only [applyMut]
    split
    · exact rfl'
    · split
      · split
        · exact ⟨⟨Nat.le_refl _, fun _ _ => rfl⟩, fun _ _ => rfl, fun _ => rfl⟩
        · refine ⟨⟨Nat.le_succ _, fun a ha => ?_⟩, fun y hy => ?_, fun y => ?_⟩
          · show (upd h.arr h.next _ a).buf = _
            rw [upd_other _ _ _ _ (by omega)]
          · show upd h.obj p _ y = _
            rw [upd_other _ _ _ _ hy]
          · show (upd h.obj p _ y).derivs = _
            by_cases hy : y = p
            · subst hy; simp
            · rw [upd_other _ _ _ _ hy]
      · exact rfl'
  | rebindVals v =>
    simp only [applyMut]
    split
    · exact rfl'
    · refine ⟨⟨Nat.le_succ _, fun a ha => ?_⟩, fun y hy => ?_, fun y => ?_⟩
      · show (upd h.arr h.next _ a).buf = _
        rw [upd_other _ _ _ _ (by omega)]
      · show upd h.obj p _ y = _
        rw [upd_other _ _ _ _ hy]
      · show (upd h.obj p _ y).derivs = _
        by_cases hy : y = p
        · subst hy; simp
        · rw [upd_other _ _ _ _ hy]
  | setUnits u =>
    simp only [applyMut]
    split
    · exact rfl'
    · refine ⟨⟨Nat.le_refl _, fun _ _ => rfl⟩, fun y hy => ?_, fun y => ?_⟩
      · show upd h.obj p _ y = _
        rw [upd_other _ _ _ _ hy]
      · show (upd h.obj p _ y).derivs = _
        by_cases hy : y = p
        · subst hy; simp
        · rw [upd_other _ _ _ _ hy]
  | freeze =>
    simp only [applyMut]
    refine ⟨⟨?_, fun a _ => ?_⟩, fun y hy => ?_, fun y => ?_⟩
    · show h.next ≤ ((h.setWrOpt (h.obj p).vals).setWrOpt (h.obj p).mask).next
      rw [setWrOpt_next, setWrOpt_next]; exact Nat.le_refl _
    · show ((((h.setWrOpt (h.obj p).vals).setWrOpt (h.obj p).mask)).arr a).buf = _
      cases hv : (h.obj p).vals <;> cases hm : (h.obj p).mask <;> simp [Heap.setWrOpt, Heap.setWr, upd] <;>
        (repeat' split) <;> simp_all
    · show upd ((h.setWrOpt (h.obj p).vals).setWrOpt (h.obj p).mask).obj p _ y = _
      rw [upd_other _ _ _ _ hy, setWrOpt_obj, setWrOpt_obj]
    · show (upd ((h.setWrOpt (h.obj p).vals).setWrOpt (h.obj p).mask).obj p _ y).derivs = _
      by_cases hy : y = p
      · subst hy; simp [setWrOpt_obj]
      · rw [upd_other _ _ _ _ hy, setWrOpt_obj, setWrOpt_obj]

theorem MutFrame.keeps {h h' : Heap} {p u : Nat} (f : MutFrame h h' p) (hu : u ≠ p) : KeepsOwn h h' u := by
  unfold KeepsOwn; rw [f.objOther u hu]; exact ⟨rfl, rfl⟩

theorem MutFrame.reach {h h' : Heap} {p : Nat} (f : MutFrame h h' p) (x : Nat) : h'.reachObjs x = h.reachObjs x := by
  simp [Heap.reachObjs, f.derivs x]

/-- an object-level mutation of a MEMBER `p` of `x` (the object itself or one of its derivatives) does not show in
    any member of a separated object `y`, and keeps the two separated and well-formed -/
theorem mutMember (h : Heap) (x y p : Nat) (m : Mut) (hp : p ∈ h.reachObjs x)
    (sep : SepT h x y) (wx : WFT h x) (wy : WFT h y) :
    SameObsT h (applyMut h p m) y ∧ SepT (applyMut h p m) x y ∧ WFT (applyMut h p m) x ∧ WFT (applyMut h p m) y := by
  have f := applyMut_frame h p m
  have hy0 := root_mem h y
  refine ⟨?_, ?_, ?_, ?_⟩
  · intro q hq
    exact (applyMut_other h p q m (sep p hp q hq) (wx p hp) (wy q hq)).1
  · intro p' hp' q hq
    rw [f.reach] at hp' hq
    have hqp : q ≠ p := fun e => (sep p hp q hq).1 e.symm
    by_cases e : p' = p
    · subst e; exact (applyMut_other h p' q m (sep p' hp q hq) (wx p' hp) (wy q hq)).2.1
    · exact sep_frame f.ext (f.keeps e) (f.keeps hqp) (wx p' hp') (wy q hq) (sep p' hp' q hq)
  · intro p' hp'
    rw [f.reach] at hp'
    by_cases e : p' = p
    · subst e; exact (applyMut_other h p' y m (sep p' hp y hy0) (wx p' hp) (wy y hy0)).2.2.1
    · exact wf_frame f.ext (f.keeps e) (wx p' hp')
  · intro q hq
    rw [f.reach] at hq
    have hqp : q ≠ p := fun e => (sep p hp q hq).1 e.symm
    exact wf_frame f.ext (f.keeps hqp) (wy q hq)

theorem lookup_mem (l : List (Nat × Nat)) (k d : Nat) (h : l.lookup k = some d) : d ∈ l.map (·.2) := by
  induction l with
  | nil => simp at h
  | cons p rest ih =>
    obtain ⟨k', d'⟩ := p
    simp only [List.lookup] at h
    split at h
    · simp at h; simp [h]
    · simp [ih h]

theorem filter_map_sub (l : List (Nat × Nat)) (k d : Nat)
    (h : d ∈ (l.filter (fun p => p.1 != k)).map (·.2)) : d ∈ l.map (·.2) := by
  simp only [List.mem_map, List.mem_filter] at h ⊢
  obtain ⟨a, ⟨ha, _⟩, e⟩ := h
  exact ⟨a, ha, e⟩

/-- `delete_deriv` on `x` -/
theorem deleteDeriv_other (h : Heap) (x y k : Nat) (sep : SepT h x y) (wx : WFT h x) (wy : WFT h y) :
    SameObsT h (applyMutT h x (.deleteDeriv k)) y ∧ SepT (applyMutT h x (.deleteDeriv k)) x y ∧
    WFT (applyMutT h x (.deleteDeriv k)) x ∧ WFT (applyMutT h x (.deleteDeriv k)) y := by
  simp only [applyMutT]
  split
  · exact ⟨SameObsT.refl _ _, sep, wx, wy⟩
  · generalize hh : ({ h with obj := upd h.obj x { h.obj x with
        derivs := (h.obj x).derivs.filter (fun p => p.1 != k) } } : Heap) = h'
    have hobj : h'.obj = upd h.obj x { h.obj x with derivs := (h.obj x).derivs.filter (fun p => p.1 != k) } := by
      rw [← hh]
    have harr : h'.arr = h.arr := by rw [← hh]
    have hbuf : h'.buf = h.buf := by rw [← hh]
    have hnext : h'.next = h.next := by rw [← hh]
    have ext : Ext h h' := ⟨by rw [hnext]; exact Nat.le_refl _, fun a _ => by rw [harr]⟩
    have keeps : ∀ u, KeepsOwn h h' u := by
      intro u; unfold KeepsOwn; rw [hobj]
      by_cases e : u = x
      · subst e; simp
      · rw [upd_other _ _ _ _ e]; exact ⟨rfl, rfl⟩
    have hxy : y ≠ x := fun e => (sep x (root_mem h x) y (root_mem h y)).1 e.symm
    have reachy : h'.reachObjs y = h.reachObjs y := by
      simp [Heap.reachObjs, hobj, upd_other _ _ _ _ hxy]
    have reachx : ∀ p, p ∈ h'.reachObjs x → p ∈ h.reachObjs x := by
      intro p hp
      simp only [Heap.reachObjs, hobj, upd_same, List.mem_cons] at hp ⊢
      rcases hp with e | hp
      · exact Or.inl e
      · exact Or.inr (filter_map_sub _ k p hp)
    refine ⟨?_, ?_, ?_, ?_⟩
    · intro q hq
      have hqx : q ≠ x := fun e => (sep x (root_mem h x) q hq).1 e.symm
      refine ⟨by rw [hobj, upd_other _ _ _ _ hqx], fun a _ => ?_⟩
      rw [harr, hbuf]; exact ⟨rfl, rfl⟩
    · intro p hp q hq
      rw [reachy] at hq
      have hp' := reachx p hp
      exact sep_frame ext (keeps p) (keeps q) (wx p hp') (wy q hq) (sep p hp' q hq)
    · intro p hp
      exact wf_frame ext (keeps p) (wx p (reachx p hp))
    · intro q hq
      rw [reachy] at hq
      exact wf_frame ext (keeps q) (wy q hq)

/-- `insert_deriv` on `x` with a fresh operand -/
theorem insertDeriv_other (h : Heap) (x y k : Nat) (v : Int) (sep : SepT h x y) (wx : WFT h x) (wy : WFT h y) :
    SameObsT h (applyMutT h x (.insertDeriv k v)) y ∧ SepT (applyMutT h x (.insertDeriv k v)) x y ∧
    WFT (applyMutT h x (.insertDeriv k v)) x ∧ WFT (applyMutT h x (.insertDeriv k v)) y := by
  simp only [applyMutT]
  split
  · exact ⟨SameObsT.refl _ _, sep, wx, wy⟩
  · have hxn : x < h.next := (wx x (root_mem h x)).1
    generalize hh : ({ h with
        arr := upd (upd h.arr h.next ⟨h.next, true⟩) (h.next + 1) ⟨h.next + 1, true⟩,
        buf := upd (upd h.buf h.next v) (h.next + 1) 0,
        obj := upd (upd h.obj (h.next + 2) ⟨some h.next, some (h.next + 1), none, [], false⟩) x
                 { h.obj x with derivs := (k, h.next + 2) :: (h.obj x).derivs.filter (fun p => p.1 != k) },
        next := h.next + 3 } : Heap) = h'
    have hnext : h'.next = h.next + 3 := by rw [← hh]
    have harr : ∀ a, a < h.next → h'.arr a = h.arr a := by
      intro a ha; rw [← hh]
      show upd (upd h.arr h.next _) (h.next + 1) _ a = _
      rw [upd_other _ _ _ _ (by omega), upd_other _ _ _ _ (by omega)]
    have hbuf : ∀ b, b < h.next → h'.buf b = h.buf b := by
      intro b hb; rw [← hh]
      show upd (upd h.buf h.next v) (h.next + 1) 0 b = _
      rw [upd_other _ _ _ _ (by omega), upd_other _ _ _ _ (by omega)]
    have harr0 : h'.arr h.next = ⟨h.next, true⟩ := by
      rw [← hh]; show upd (upd h.arr h.next _) (h.next + 1) _ h.next = _
      rw [upd_other _ _ _ _ (by omega)]; simp
    have harr1 : h'.arr (h.next + 1) = ⟨h.next + 1, true⟩ := by
      rw [← hh]; show upd (upd h.arr h.next _) (h.next + 1) _ (h.next + 1) = _
      simp
    have hobjx : h'.obj x = { h.obj x with derivs := (k, h.next + 2) :: (h.obj x).derivs.filter (fun p => p.1 != k) } := by
      rw [← hh]; show upd (upd h.obj (h.next + 2) _) x _ x = _; simp
    have hobjn : h'.obj (h.next + 2) = ⟨some h.next, some (h.next + 1), none, [], false⟩ := by
      rw [← hh]; show upd (upd h.obj (h.next + 2) _) x _ (h.next + 2) = _
      rw [upd_other _ _ _ _ (by omega)]; simp
    have hobjo : ∀ u, u ≠ x → u < h.next → h'.obj u = h.obj u := by
      intro u hu hun; rw [← hh]; show upd (upd h.obj (h.next + 2) _) x _ u = _
      rw [upd_other _ _ _ _ hu, upd_other _ _ _ _ (by omega)]
    have ext : Ext h h' := ⟨by rw [hnext]; omega, fun a ha => by rw [harr a ha]⟩
    have keeps : ∀ u, u < h.next → KeepsOwn h h' u := by
      intro u hun; unfold KeepsOwn
      by_cases e : u = x
      · subst e; rw [hobjx]; exact ⟨rfl, rfl⟩
      · rw [hobjo u e hun]; exact ⟨rfl, rfl⟩
    have hxy : y ≠ x := fun e => (sep x (root_mem h x) y (root_mem h y)).1 e.symm
    have hyn : y < h.next := (wy y (root_mem h y)).1
    have reachy : h'.reachObjs y = h.reachObjs y := by
      simp [Heap.reachObjs, hobjo y hxy hyn]
    have reachx : ∀ p, p ∈ h'.reachObjs x → p = h.next + 2 ∨ p ∈ h.reachObjs x := by
      intro p hp
      simp only [Heap.reachObjs, hobjx, List.map_cons, List.mem_cons] at hp ⊢
      rcases hp with e | e | hp
      · exact Or.inr (Or.inl e)
      · exact Or.inl e
      · exact Or.inr (Or.inr (filter_map_sub _ k p hp))
    -- the new derivative object
    have ownN : ∀ a, Owns h' (h.next + 2) a → a = h.next ∨ a = h.next + 1 := by
      intro a ha; unfold Owns at ha; rw [hobjn] at ha; simp at ha
      rcases ha with e | e
      · exact Or.inl e.symm
      · exact Or.inr e.symm
    have wfN : WF h' (h.next + 2) := by
      refine ⟨by rw [hnext]; omega, fun a ha => ?_⟩
      rcases ownN a ha with e | e <;> subst e
      · rw [harr0, hnext]; exact ⟨by omega, by show h.next < _; omega⟩
      · rw [harr1, hnext]; exact ⟨by omega, by show h.next + 1 < _; omega⟩
    have sepN : ∀ q, q ∈ h.reachObjs y → Sep h' (h.next + 2) q := by
      intro q hq
      obtain ⟨q1, q2⟩ := wy q hq
      refine ⟨by omega, fun a b ha hb => ?_⟩
      have hb' : Owns h q b := (owns_keep (keeps q q1) b).1 hb
      obtain ⟨b1, b2⟩ := q2 b hb'
      rw [harr b b1]
      rcases ownN a ha with e | e <;> subst e
      · rw [harr0]; exact ⟨by omega, by show h.next ≠ _; omega⟩
      · rw [harr1]; exact ⟨by omega, by show h.next + 1 ≠ _; omega⟩
    refine ⟨?_, ?_, ?_, ?_⟩
    · intro q hq
      obtain ⟨q1, q2⟩ := wy q hq
      have hqx : q ≠ x := fun e => (sep x (root_mem h x) q hq).1 e.symm
      refine ⟨hobjo q hqx q1, fun a ha => ?_⟩
      obtain ⟨a1, a2⟩ := q2 a ha
      exact ⟨harr a a1, hbuf _ a2⟩
    · intro p hp q hq
      rw [reachy] at hq
      rcases reachx p hp with e | hp'
      · subst e; exact sepN q hq
      · exact sep_frame ext (keeps p (wx p hp').1) (keeps q (wy q hq).1) (wx p hp') (wy q hq) (sep p hp' q hq)
    · intro p hp
      rcases reachx p hp with e | hp'
      · subst e; exact wfN
      · exact wf_frame ext (keeps p (wx p hp').1) (wx p hp')
    · intro q hq
      rw [reachy] at hq
      exact wf_frame ext (keeps q (wy q hq).1) (wy q hq)

/-- one public mutation of `x` (itself, one of its derivatives, or its derivative dictionary) does not show in a
    separated object `y`, and keeps the two separated and well-formed -/
theorem applyMutT_other (h : Heap) (x y : Nat) (m : MutT) (sep : SepT h x y) (wx : WFT h x) (wy : WFT h y) :
    SameObsT h (applyMutT h x m) y ∧ SepT (applyMutT h x m) x y ∧ WFT (applyMutT h x m) x ∧
    WFT (applyMutT h x m) y := by
  cases m with
  | own m => exact mutMember h x y x m (root_mem h x) sep wx wy
  | deriv k m =>
    simp only [applyMutT]
    split
    · rename_i d hd
      have hm : d ∈ h.reachObjs x := by
        simp only [Heap.reachObjs, List.mem_cons]
        exact Or.inr (lookup_mem _ k d hd)
      exact mutMember h x y d m hm sep wx wy
    · exact ⟨SameObsT.refl _ _, sep, wx, wy⟩
  | insertDeriv k v => exact insertDeriv_other h x y k v sep wx wy
  | deleteDeriv k => exact deleteDeriv_other h x y k sep wx wy

theorem histT_inv (a b : Nat) (hist : List (Bool × MutT)) : ∀ (h : Heap), SepT h a b → WFT h a → WFT h b →
    SepT (runHistT h a b hist) a b ∧ WFT (runHistT h a b hist) a ∧ WFT (runHistT h a b hist) b := by
  induction hist with
  | nil => intro h s wa wb; exact ⟨s, wa, wb⟩
  | cons p rest ih =>
    intro h s wa wb
    obtain ⟨side, m⟩ := p
    cases side with
    | true =>
      obtain ⟨_, s', wa', wb'⟩ := applyMutT_other h a b m s wa wb
      exact ih _ s' wa' wb'
    | false =>
      obtain ⟨_, s', wb', wa'⟩ := applyMutT_other h b a m s.symm wb wa
      exact ih _ s'.symm wa' wb'

theorem histT_first_only (a b : Nat) (hist : List (Bool × MutT)) (honly : ∀ p ∈ hist, p.1 = true) :
    ∀ (h : Heap), SepT h a b → WFT h a → WFT h b → SameObsT h (runHistT h a b hist) b := by
  induction hist with
  | nil => intro h _ _ _; exact SameObsT.refl _ _
  | cons p rest ih =>
    intro h s wa wb
    obtain ⟨side, m⟩ := p
    have hs : side = true := honly (side, m) (by simp)
    subst hs
    obtain ⟨o1, s', wa', wb'⟩ := applyMutT_other h a b m s wa wb
    exact o1.trans (ih (fun p hp => honly p (by simp [hp])) _ s' wa' wb')

theorem histT_second_only (a b : Nat) (hist : List (Bool × MutT)) (honly : ∀ p ∈ hist, p.1 = false) :
    ∀ (h : Heap), SepT h a b → WFT h a → WFT h b → SameObsT h (runHistT h a b hist) a := by
  induction hist with
  | nil => intro h _ _ _; exact SameObsT.refl _ _
  | cons p rest ih =>
    intro h s wa wb
    obtain ⟨side, m⟩ := p
    have hs : side = false := honly (side, m) (by simp)
    subst hs
    obtain ⟨o1, s', wb', wa'⟩ := applyMutT_other h b a m s.symm wb wa
    exact o1.trans (ih (fun p hp => honly p (by simp [hp])) _ s'.symm wa' wb')

/-! #### copy() of an object with derivatives -/

/-- the object `c` and everything it owns live in the region `[n0, h.next)` -/
def Fresh (n0 : Nat) (h : Heap) (c : Nat) : Prop :=
  n0 ≤ c ∧ c < h.next ∧
  ∀ a, Owns h c a → n0 ≤ a ∧ a < h.next ∧ n0 ≤ (h.arr a).buf ∧ (h.arr a).buf < h.next

theorem copyFlat_region (h : Heap) (o : Nat) :
    Fresh h.next (copyFlat h o).1 (copyFlat h o).2 ∧ Agree h.next h (copyFlat h o).1 ∧
    h.next ≤ (copyFlat h o).1.next := by
  obtain ⟨c1, c2, c3⟩ := copyFlat_fresh h o
  have hb : h.next < (copyFlat h o).1.next ∧ (copyFlat h o).2 < (copyFlat h o).1.next ∧
      (∀ a, Owns (copyFlat h o).1 (copyFlat h o).2 a →
          a < (copyFlat h o).1.next ∧ ((copyFlat h o).1.arr a).buf < (copyFlat h o).1.next) := by
    cases ev : (h.obj o).vals <;> cases em : (h.obj o).mask <;>
      simp only [copyFlat, copyArrRef, ev, em, Owns] <;>
      refine ⟨by omega, by omega, ?_⟩ <;>
      intro a ha <;> simp [upd] at ha <;>
      first
        | (subst ha; simp [upd]; omega)
        | (rcases ha with ha | ha <;> subst ha <;> simp [upd] <;> omega)
        | skip
  obtain ⟨n1, n2, n3⟩ := hb
  refine ⟨⟨c1, n2, fun a ha => ?_⟩, c3, by omega⟩
  obtain ⟨a1, a2, _⟩ := c2 a ha
  obtain ⟨a3, a4⟩ := n3 a ha
  exact ⟨a1, a3, a2, a4⟩

theorem Fresh.mono {n0 n1 : Nat} {h h' : Heap} {c : Nat} (f : Fresh n1 h c) (hn : n0 ≤ n1)
    (ag : Agree h.next h h') (hnext : h.next ≤ h'.next) : Fresh n0 h' c := by
  obtain ⟨f1, f2, f3⟩ := f
  have hobj : h'.obj c = h.obj c := (ag c f2).2.2.2
  refine ⟨by omega, by omega, fun a ha => ?_⟩
  have ha' : Owns h c a := by unfold Owns at *; rw [hobj] at ha; exact ha
  obtain ⟨a1, a2, a3, a4⟩ := f3 a ha'
  rw [(ag a a2).2.1]
  exact ⟨by omega, by omega, by omega, by omega⟩

theorem Agree.trans' {n0 : Nat} {h1 h2 h3 : Heap} (a : Agree n0 h1 h2) (b : Agree h2.next h2 h3)
    (hn : n0 ≤ h2.next) : Agree n0 h1 h3 := by
  intro l hl
  obtain ⟨a1, a2, a3, a4⟩ := a l hl
  obtain ⟨b1, b2, b3, b4⟩ := b l (by omega)
  exact ⟨b1.trans a1, b2.trans a2, b3.trans a3, b4.trans a4⟩

/-- every derivative copy is fresh, nothing old is touched, keys are kept -/
theorem copyDerivs_spec (l : List (Nat × Nat)) : ∀ (h : Heap),
    Agree h.next h (copyDerivs h l).1 ∧ h.next ≤ (copyDerivs h l).1.next ∧
    (∀ d ∈ (copyDerivs h l).2.map (·.2), Fresh h.next (copyDerivs h l).1 d) ∧
    (copyDerivs h l).2.map (·.1) = l.map (·.1) := by
  induction l with
  | nil =>
    intro h
    exact ⟨fun _ _ => ⟨rfl, rfl, rfl, rfl⟩, Nat.le_refl _, fun d hd => by simp [copyDerivs] at hd, rfl⟩
  | cons p rest ih =>
    intro h
    obtain ⟨k, d⟩ := p
    obtain ⟨f1, ag1, n1⟩ := copyFlat_region h d
    obtain ⟨ag2, n2, fr2, ks2⟩ := ih (copyFlat h d).1
    simp only [copyDerivs]
    refine ⟨ag1.trans' ag2 n1, by omega, ?_, ?_⟩
    · intro x hx
      simp only [List.map_cons, List.mem_cons] at hx
      rcases hx with e | hx
      · subst e; exact f1.mono (Nat.le_refl _) ag2 n2
      · have := fr2 x hx
        exact ⟨by have := this.1; omega, this.2.1, fun a ha => by
          obtain ⟨a1, a2, a3, a4⟩ := this.2.2 a ha
          exact ⟨by omega, a2, by omega, a4⟩⟩
    · simp [ks2]

/-- an object whose cells are all old (`< n0`) is separated from one whose cells are all in `[n0, next)` -/
theorem sep_old_fresh {n0 : Nat} {h : Heap} {p q : Nat} (hp : p < n0)
    (hown : ∀ a, Owns h p a → a < n0 ∧ (h.arr a).buf < n0) (f : Fresh n0 h q) : Sep h p q := by
  refine ⟨by have := f.1; omega, fun a b ha hb => ?_⟩
  obtain ⟨a1, a2⟩ := hown a ha
  obtain ⟨b1, _, b3, _⟩ := f.2.2 b hb
  exact ⟨by omega, by omega⟩

theorem Fresh.wf {n0 : Nat} {h : Heap} {c : Nat} (f : Fresh n0 h c) : WF h c :=
  ⟨f.2.1, fun a ha => ⟨(f.2.2 a ha).2.1, (f.2.2 a ha).2.2.2⟩⟩

/-- `Qube.copy()` of a well-formed object with ANY number of derivatives: every member of the copy (the new object
    and each new derivative object) and all they own are new cells; nothing that existed before is modified; hence
    source and copy are separated, both well-formed, and the source is observably unchanged -/
theorem copyObj_spec (h : Heap) (o : Nat) :
    (∀ p ∈ (copyObj h o).1.reachObjs (copyObj h o).2, Fresh h.next (copyObj h o).1 p) ∧
    Agree h.next h (copyObj h o).1 ∧
    ((copyObj h o).1.obj (copyObj h o).2).derivs.map (·.1) = (h.obj o).derivs.map (·.1) := by
  obtain ⟨f1, ag1, n1⟩ := copyFlat_region h o
  obtain ⟨ag2, n2, fr2, ks2⟩ := copyDerivs_spec (h.obj o).derivs (copyFlat h o).1
  generalize hr : copyFlat h o = r at *
  generalize hr2 : copyDerivs r.1 (h.obj o).derivs = r2 at *
  have hc : Fresh h.next r2.1 r.2 := f1.mono (Nat.le_refl _) ag2 n2
  -- the final heap: entry `derivs` of the new object is filled in
  have hfin : copyObj h o = ({ r2.1 with obj := upd r2.1.obj r.2 { r2.1.obj r.2 with derivs := r2.2 } }, r.2) := by
    simp only [copyObj, hr, hr2]
  rw [hfin]
  generalize hf : ({ r2.1 with obj := upd r2.1.obj r.2 { r2.1.obj r.2 with derivs := r2.2 } } : Heap) = hfh
  have fobjc : hfh.obj r.2 = { r2.1.obj r.2 with derivs := r2.2 } := by rw [← hf]; show upd _ _ _ _ = _; simp
  have fobjo : ∀ u, u ≠ r.2 → hfh.obj u = r2.1.obj u := by
    intro u hu; rw [← hf]; show upd _ _ _ u = _; rw [upd_other _ _ _ _ hu]
  have farr : hfh.arr = r2.1.arr := by rw [← hf]
  have fbuf : hfh.buf = r2.1.buf := by rw [← hf]
  have fun' : hfh.uname = r2.1.uname := by rw [← hf]
  have fnext : hfh.next = r2.1.next := by rw [← hf]
  have ownsAll : ∀ u a, Owns hfh u a ↔ Owns r2.1 u a := by
    intro u a; unfold Owns
    by_cases e : u = r.2
    · subst e; rw [fobjc]
    · rw [fobjo u e]
  have freshT : ∀ u, Fresh h.next r2.1 u → Fresh h.next hfh u := by
    intro u fu
    refine ⟨fu.1, by rw [fnext]; exact fu.2.1, fun a ha => ?_⟩
    rw [farr, fnext]; exact fu.2.2 a ((ownsAll u a).1 ha)
  refine ⟨?_, ?_, ?_⟩
  · intro p hp
    simp only [Heap.reachObjs, fobjc, List.mem_cons] at hp
    rcases hp with e | hp
    · subst e; exact freshT _ hc
    · refine freshT p ?_
      have := fr2 p hp
      exact ⟨by have := this.1; omega, this.2.1, fun a ha => by
        obtain ⟨a1, a2, a3, a4⟩ := this.2.2 a ha
        exact ⟨by omega, a2, by omega, a4⟩⟩
  · have ag := ag1.trans' ag2 n1
    intro l hl
    obtain ⟨e1, e2, e3, e4⟩ := ag l hl
    have hlc : l ≠ r.2 := by have := hc.1; omega
    rw [fbuf, farr, fun', fobjo l hlc]
    exact ⟨e1, e2, e3, e4⟩
  · rw [fobjc]; exact ks2

theorem copyObj_sep (h : Heap) (o : Nat) (wo : WFT h o) :
    SameObsT h (copyObj h o).1 o ∧ SepT (copyObj h o).1 o (copyObj h o).2 ∧
    WFT (copyObj h o).1 o ∧ WFT (copyObj h o).1 (copyObj h o).2 := by
  obtain ⟨fr, ag, _⟩ := copyObj_spec h o
  have hon : o < h.next := (wo o (root_mem h o)).1
  have reacho : (copyObj h o).1.reachObjs o = h.reachObjs o := by
    simp [Heap.reachObjs, (ag o hon).2.2.2]
  have old : ∀ p ∈ h.reachObjs o, p < h.next ∧ (copyObj h o).1.obj p = h.obj p ∧
      ∀ a, Owns (copyObj h o).1 p a → Owns h p a ∧ a < h.next ∧ (copyObj h o).1.arr a = h.arr a ∧
        (h.arr a).buf < h.next := by
    intro p hp
    obtain ⟨p1, p2⟩ := wo p hp
    have e := (ag p p1).2.2.2
    refine ⟨p1, e, fun a ha => ?_⟩
    have ha' : Owns h p a := by unfold Owns at *; rw [e] at ha; exact ha
    obtain ⟨a1, a2⟩ := p2 a ha'
    exact ⟨ha', a1, (ag a a1).2.1, a2⟩
  refine ⟨?_, ?_, ?_, ?_⟩
  · intro p hp
    obtain ⟨p1, e, _⟩ := old p hp
    refine ⟨e, fun a ha => ?_⟩
    obtain ⟨a1, a2⟩ := (wo p hp).2 a ha
    exact ⟨(ag a a1).2.1, (ag _ a2).1⟩
  · intro p hp q hq
    rw [reacho] at hp
    obtain ⟨p1, _, p3⟩ := old p hp
    refine sep_old_fresh p1 (fun a ha => ?_) (fr q hq)
    obtain ⟨_, a1, a2, a3⟩ := p3 a ha
    rw [a2]; exact ⟨a1, a3⟩
  · intro p hp
    rw [reacho] at hp
    obtain ⟨p1, _, p3⟩ := old p hp
    have hle : h.next ≤ (copyObj h o).1.next := by
      have := (fr _ (root_mem _ (copyObj h o).2)); have a := this.1; have b := this.2.1; omega
    refine ⟨by omega, fun a ha => ?_⟩
    obtain ⟨_, a1, a2, a3⟩ := p3 a ha
    rw [a2]; exact ⟨by omega, by omega⟩
  · intro q hq
    exact (fr q hq).wf

/-- `insert_deriv` with an ALIASED operand `d` (any allocated, well-formed object — e.g. the other object or one of
    its derivatives): the call itself does not change anything observable of `y` and both stay well-formed.
    (Separation is NOT preserved: the new derivative shares `d`'s ndarrays — see the counterexample in Props.) -/
theorem insertAlias_other (h : Heap) (x y k d : Nat) (sep : SepT h x y) (wx : WFT h x) (wy : WFT h y)
    (wd : WF h d) :
    SameObsT h (insertAlias h x k d) y ∧ WFT (insertAlias h x k d) x ∧ WFT (insertAlias h x k d) y := by
  simp only [insertAlias]
  split
  · exact ⟨SameObsT.refl _ _, wx, wy⟩
  · have hxn : x < h.next := (wx x (root_mem h x)).1
    generalize hh : ({ h with
        obj := upd (upd h.obj h.next ⟨(h.obj d).vals, (h.obj d).mask, (h.obj d).units, [], (h.obj d).ro⟩) x
                 { h.obj x with derivs := (k, h.next) :: (h.obj x).derivs.filter (fun p => p.1 != k) },
        next := h.next + 1 } : Heap) = h'
    have hnext : h'.next = h.next + 1 := by rw [← hh]
    have harr : h'.arr = h.arr := by rw [← hh]
    have hbuf : h'.buf = h.buf := by rw [← hh]
    have hobjx : h'.obj x = { h.obj x with derivs := (k, h.next) :: (h.obj x).derivs.filter (fun p => p.1 != k) } := by
      rw [← hh]; show upd (upd h.obj h.next _) x _ x = _; simp
    have hobjn : h'.obj h.next = ⟨(h.obj d).vals, (h.obj d).mask, (h.obj d).units, [], (h.obj d).ro⟩ := by
      rw [← hh]; show upd (upd h.obj h.next _) x _ h.next = _
      rw [upd_other _ _ _ _ (by omega)]; simp
    have hobjo : ∀ u, u ≠ x → u < h.next → h'.obj u = h.obj u := by
      intro u hu hun; rw [← hh]; show upd (upd h.obj h.next _) x _ u = _
      rw [upd_other _ _ _ _ hu, upd_other _ _ _ _ (by omega)]
    have ext : Ext h h' := ⟨by rw [hnext]; omega, fun a _ => by rw [harr]⟩
    have keeps : ∀ u, u < h.next → KeepsOwn h h' u := by
      intro u hun; unfold KeepsOwn
      by_cases e : u = x
      · subst e; rw [hobjx]; exact ⟨rfl, rfl⟩
      · rw [hobjo u e hun]; exact ⟨rfl, rfl⟩
    have hxy : y ≠ x := fun e => (sep x (root_mem h x) y (root_mem h y)).1 e.symm
    have hyn : y < h.next := (wy y (root_mem h y)).1
    have reachy : h'.reachObjs y = h.reachObjs y := by
      simp [Heap.reachObjs, hobjo y hxy hyn]
    have reachx : ∀ p, p ∈ h'.reachObjs x → p = h.next ∨ p ∈ h.reachObjs x := by
      intro p hp
      simp only [Heap.reachObjs, hobjx, List.map_cons, List.mem_cons] at hp ⊢
      rcases hp with e | e | hp
      · exact Or.inr (Or.inl e)
      · exact Or.inl e
      · exact Or.inr (Or.inr (filter_map_sub _ k p hp))
    have wfN : WF h' h.next := by
      refine ⟨by rw [hnext]; omega, fun a ha => ?_⟩
      have ha' : Owns h d a := by unfold Owns at *; rw [hobjn] at ha; exact ha
      obtain ⟨a1, a2⟩ := wd.2 a ha'
      rw [harr, hnext]; exact ⟨by omega, by omega⟩
    refine ⟨?_, ?_, ?_⟩
    · intro q hq
      obtain ⟨q1, _⟩ := wy q hq
      have hqx : q ≠ x := fun e => (sep x (root_mem h x) q hq).1 e.symm
      refine ⟨hobjo q hqx q1, fun a _ => ?_⟩
      rw [harr, hbuf]; exact ⟨rfl, rfl⟩
    · intro p hp
      rcases reachx p hp with e | hp'
      · subst e; exact wfN
      · exact wf_frame ext (keeps p (wx p hp').1) (wx p hp')
    · intro q hq
      rw [reachy] at hq
      exact wf_frame ext (keeps q (wy q hq).1) (wy q hq)

theorem copyFlat_units (h : Heap) (o : Nat) :
    ((copyFlat h o).1.obj (copyFlat h o).2).units = (h.obj o).units := by
  cases ev : (h.obj o).vals <;> cases em : (h.obj o).mask <;> simp [copyFlat, copyArrRef, ev, em, upd]

/-- `copy()` keeps the reference to the SAME Units object (units are shared by reference, by design) -/
theorem copyObj_units (h : Heap) (o : Nat) :
    ((copyObj h o).1.obj (copyObj h o).2).units = (h.obj o).units := by
  obtain ⟨f1, _, _⟩ := copyFlat_region h o
  obtain ⟨ag2, _, _, _⟩ := copyDerivs_spec (h.obj o).derivs (copyFlat h o).1
  have e := (ag2 _ f1.2.1).2.2.2
  have e0 := copyFlat_units h o
  simp only [copyObj, upd_same]
  rw [e]; exact e0

end PMV.Heap
