import PMV.Lemmas.AlgebraToEuler
/-
  C16 helper development: `from_euler (to_euler M) = M` AT exact gimbal lock (the branch `sy <= EPSILON` resp.
  `cy <= EPSILON` of Matrix3.to_euler with the two pivot entries exactly 0), one lemma per convention.
-/
namespace PMV.Algebra
variable {K : Type} [Field K] [DecidableEq K]

theorem to_euler_gimbal_row_sxyz (sqrt : K → K) (small : K → Bool) (m : Mat K) (h : SO3 m) (m0 : Mat K)
    (hsq : ∀ x y : K, sqrt (x * x + y * y) * sqrt (x * x + y * y) = x * x + y * y) (h1 : sqrt 1 = 1)
    (hs : small (eulerPivot sqrt ⟨0, 0, 0, 0⟩ m) = true) (z1 : m 0 0 = 0) (z2 : m 1 0 = 0) :
    Eq3 (fromEuler ⟨0, 0, 0, 0⟩ (toEuler sqrt small ⟨0, 0, 0, 0⟩ m).1 (toEuler sqrt small ⟨0, 0, 0, 0⟩ m).2.1
        (toEuler sqrt small ⟨0, 0, 0, 0⟩ m).2.2 m0) m := by
  change small (sqrt (m 0 0 * m 0 0 + m 1 0 * m 1 0)) = true at hs
  have hS := hsq (m 0 0) (m 1 0)
  generalize hsy : sqrt (m 0 0 * m 0 0 + m 1 0 * m 1 0) = sy at hs hS
  have sy0 : sy = 0 := by
    have : sy * sy = 0 := by rw [hS, z1, z2]; ring
    exact mul_self_eq_zero.mp this
  subst sy0
  have s0 : sqrt 0 = 0 := by
    have := hsy; rw [z1, z2] at this; simpa using this
  have ex : atan2SC sqrt (-m 1 2) (m 1 1) = ⟨-m 1 2 / 1, m 1 1 / 1⟩ :=
    atan2SC_eq sqrt _ _ 1 ((congrArg sqrt (by linear_combination (1) * h.r11 + (-m 1 0) * z2)).trans h1) one_ne_zero
  have ey : atan2SC sqrt (-m 2 0) 0 = ⟨-m 2 0 / 1, 0 / 1⟩ :=
    atan2SC_eq sqrt _ _ 1 ((congrArg sqrt (by linear_combination (1) * h.c00 + (-m 0 0) * z1 + (-m 1 0) * z2)).trans h1) one_ne_zero
  have d01 : m 1 2 * m 2 0 - m 0 1 = 0 := by
    linear_combination (1) * h.f01 + (m 2 2) * z2
  have d02 : -m 1 1 * m 2 0 - m 0 2 = 0 := by
    linear_combination (1) * h.f02 + (-m 2 1) * z2
  have d21 : m 2 1 = 0 := by
    linear_combination (-m 2 1) * h.r11 + (m 1 1) * h.r12 + (-m 1 2) * h.f00 + (m 1 0) * h.f02 + (-m 1 2) * z1 + (m 0 2) * z2
  have d22 : m 2 2 = 0 := by
    linear_combination (-m 2 2) * h.r11 + (m 1 2) * h.r12 + (m 1 1) * h.f00 + (-m 1 0) * h.f01 + (m 1 1) * z1 + (-m 0 1) * z2
  refine forall_lt3_2 ⟨?_, ?_, ?_, ?_, ?_, ?_, ?_, ?_, ?_⟩ <;>
    simp [toEuler, fromEuler, eulerIJK, nextAxis, Mat.set, SC.neg, hsy, s0, hs, ex, ey, z1, z2]
  all_goals first
    | linear_combination d01
    | linear_combination -d01
    | linear_combination d02
    | linear_combination -d02
    | linear_combination d21
    | linear_combination -d21
    | linear_combination d22
    | linear_combination -d22

theorem to_euler_gimbal_row_sxyx (sqrt : K → K) (small : K → Bool) (m : Mat K) (h : SO3 m) (m0 : Mat K)
    (hsq : ∀ x y : K, sqrt (x * x + y * y) * sqrt (x * x + y * y) = x * x + y * y) (h1 : sqrt 1 = 1)
    (hs : small (eulerPivot sqrt ⟨0, 0, 1, 0⟩ m) = true) (z1 : m 0 1 = 0) (z2 : m 0 2 = 0) :
    Eq3 (fromEuler ⟨0, 0, 1, 0⟩ (toEuler sqrt small ⟨0, 0, 1, 0⟩ m).1 (toEuler sqrt small ⟨0, 0, 1, 0⟩ m).2.1
        (toEuler sqrt small ⟨0, 0, 1, 0⟩ m).2.2 m0) m := by
  change small (sqrt (m 0 1 * m 0 1 + m 0 2 * m 0 2)) = true at hs
  have hS := hsq (m 0 1) (m 0 2)
  generalize hsy : sqrt (m 0 1 * m 0 1 + m 0 2 * m 0 2) = sy at hs hS
  have sy0 : sy = 0 := by
    have : sy * sy = 0 := by rw [hS, z1, z2]; ring
    exact mul_self_eq_zero.mp this
  subst sy0
  have s0 : sqrt 0 = 0 := by
    have := hsy; rw [z1, z2] at this; simpa using this
  have ex : atan2SC sqrt (-m 1 2) (m 1 1) = ⟨-m 1 2 / 1, m 1 1 / 1⟩ :=
    atan2SC_eq sqrt _ _ 1 ((congrArg sqrt (by linear_combination (1) * h.r11 + (-m 1 0 * m 2 0) * h.r12 + (m 1 0^2) * h.r22 + (m 1 0 * m 2 2) * h.f01 + (-m 1 0 * m 2 1) * h.f02 + (m 1 0 * m 2 2) * z1 + (-m 1 0 * m 2 1) * z2)).trans h1) one_ne_zero
  have ey : atan2SC sqrt 0 (m 0 0) = ⟨0 / 1, m 0 0 / 1⟩ :=
    atan2SC_eq sqrt _ _ 1 ((congrArg sqrt (by linear_combination (1) * h.r00 + (-m 0 1) * z1 + (-m 0 2) * z2)).trans h1) one_ne_zero
  have d10 : m 1 0 = 0 := by
    linear_combination (m 2 0) * h.r12 + (-m 1 0) * h.r22 + (-m 2 2) * h.f01 + (m 2 1) * h.f02 + (-m 2 2) * z1 + (m 2 1) * z2
  have d20 : m 2 0 = 0 := by
    linear_combination (-m 2 0) * h.r11 + (m 1 0) * h.r12 + (m 1 2) * h.f01 + (-m 1 1) * h.f02 + (m 1 2) * z1 + (-m 1 1) * z2
  have d21 : -m 2 1 - m 0 0 * m 1 2 = 0 := by
    linear_combination (m 2 1) * h.r11 + (-m 1 1) * h.r12 + (m 1 2) * h.f00 + (-m 1 0) * h.f02 + (-m 1 0) * z2
  have d22 : -m 2 2 + m 0 0 * m 1 1 = 0 := by
    linear_combination (m 2 2) * h.r11 + (-m 1 2) * h.r12 + (-m 1 1) * h.f00 + (m 1 0) * h.f01 + (m 1 0) * z1
  refine forall_lt3_2 ⟨?_, ?_, ?_, ?_, ?_, ?_, ?_, ?_, ?_⟩ <;>
    simp [toEuler, fromEuler, eulerIJK, nextAxis, Mat.set, SC.neg, hsy, s0, hs, ex, ey, z1, z2]
  all_goals first
    | linear_combination d10
    | linear_combination -d10
    | linear_combination d20
    | linear_combination -d20
    | linear_combination d21
    | linear_combination -d21
    | linear_combination d22
    | linear_combination -d22

theorem to_euler_gimbal_row_sxzy (sqrt : K → K) (small : K → Bool) (m : Mat K) (h : SO3 m) (m0 : Mat K)
    (hsq : ∀ x y : K, sqrt (x * x + y * y) * sqrt (x * x + y * y) = x * x + y * y) (h1 : sqrt 1 = 1)
    (hs : small (eulerPivot sqrt ⟨0, 1, 0, 0⟩ m) = true) (z1 : m 0 0 = 0) (z2 : m 2 0 = 0) :
    Eq3 (fromEuler ⟨0, 1, 0, 0⟩ (toEuler sqrt small ⟨0, 1, 0, 0⟩ m).1 (toEuler sqrt small ⟨0, 1, 0, 0⟩ m).2.1
        (toEuler sqrt small ⟨0, 1, 0, 0⟩ m).2.2 m0) m := by
  change small (sqrt (m 0 0 * m 0 0 + m 2 0 * m 2 0)) = true at hs
  have hS := hsq (m 0 0) (m 2 0)
  generalize hsy : sqrt (m 0 0 * m 0 0 + m 2 0 * m 2 0) = sy at hs hS
  have sy0 : sy = 0 := by
    have : sy * sy = 0 := by rw [hS, z1, z2]; ring
    exact mul_self_eq_zero.mp this
  subst sy0
  have s0 : sqrt 0 = 0 := by
    have := hsy; rw [z1, z2] at this; simpa using this
  have ex : atan2SC sqrt (-m 2 1) (m 2 2) = ⟨-m 2 1 / 1, m 2 2 / 1⟩ :=
    atan2SC_eq sqrt _ _ 1 ((congrArg sqrt (by linear_combination (1) * h.r22 + (-m 2 0) * z2)).trans h1) one_ne_zero
  have ey : atan2SC sqrt (-m 1 0) 0 = ⟨-m 1 0 / 1, 0 / 1⟩ :=
    atan2SC_eq sqrt _ _ 1 ((congrArg sqrt (by linear_combination (1) * h.c00 + (-m 0 0) * z1 + (-m 2 0) * z2)).trans h1) one_ne_zero
  have d01 : -m 1 0 * m 2 2 - m 0 1 = 0 := by
    linear_combination (1) * h.f01 + (-m 1 2) * z2
  have d02 : m 1 0 * m 2 1 - m 0 2 = 0 := by
    linear_combination (1) * h.f02 + (m 1 1) * z2
  have d11 : m 1 1 = 0 := by
    linear_combination (m 2 1) * h.r12 + (-m 1 1) * h.r22 + (m 2 2) * h.f00 + (-m 2 0) * h.f02 + (m 2 2) * z1 + (-m 0 2) * z2
  have d12 : m 1 2 = 0 := by
    linear_combination (m 2 2) * h.r12 + (-m 1 2) * h.r22 + (-m 2 1) * h.f00 + (m 2 0) * h.f01 + (-m 2 1) * z1 + (m 0 1) * z2
  refine forall_lt3_2 ⟨?_, ?_, ?_, ?_, ?_, ?_, ?_, ?_, ?_⟩ <;>
    simp [toEuler, fromEuler, eulerIJK, nextAxis, Mat.set, SC.neg, hsy, s0, hs, ex, ey, z1, z2]
  all_goals first
    | linear_combination d01
    | linear_combination -d01
    | linear_combination d02
    | linear_combination -d02
    | linear_combination d11
    | linear_combination -d11
    | linear_combination d12
    | linear_combination -d12

theorem to_euler_gimbal_row_sxzx (sqrt : K → K) (small : K → Bool) (m : Mat K) (h : SO3 m) (m0 : Mat K)
    (hsq : ∀ x y : K, sqrt (x * x + y * y) * sqrt (x * x + y * y) = x * x + y * y) (h1 : sqrt 1 = 1)
    (hs : small (eulerPivot sqrt ⟨0, 1, 1, 0⟩ m) = true) (z1 : m 0 2 = 0) (z2 : m 0 1 = 0) :
    Eq3 (fromEuler ⟨0, 1, 1, 0⟩ (toEuler sqrt small ⟨0, 1, 1, 0⟩ m).1 (toEuler sqrt small ⟨0, 1, 1, 0⟩ m).2.1
        (toEuler sqrt small ⟨0, 1, 1, 0⟩ m).2.2 m0) m := by
  change small (sqrt (m 0 2 * m 0 2 + m 0 1 * m 0 1)) = true at hs
  have hS := hsq (m 0 2) (m 0 1)
  generalize hsy : sqrt (m 0 2 * m 0 2 + m 0 1 * m 0 1) = sy at hs hS
  have sy0 : sy = 0 := by
    have : sy * sy = 0 := by rw [hS, z1, z2]; ring
    exact mul_self_eq_zero.mp this
  subst sy0
  have s0 : sqrt 0 = 0 := by
    have := hsy; rw [z1, z2] at this; simpa using this
  have ex : atan2SC sqrt (-m 2 1) (m 2 2) = ⟨-m 2 1 / 1, m 2 2 / 1⟩ :=
    atan2SC_eq sqrt _ _ 1 ((congrArg sqrt (by linear_combination (1) * h.r00 + (m 1 0 * m 2 0) * h.r12 + (1 - m 1 0^2) * h.r22 + (-1) * h.c00 + (-m 1 0 * m 2 2) * h.f01 + (m 1 0 * m 2 1) * h.f02 + (m 1 0 * m 2 1 - m 0 2) * z1 + (-m 1 0 * m 2 2 - m 0 1) * z2)).trans h1) one_ne_zero
  have ey : atan2SC sqrt 0 (m 0 0) = ⟨0 / 1, m 0 0 / 1⟩ :=
    atan2SC_eq sqrt _ _ 1 ((congrArg sqrt (by linear_combination (1) * h.r00 + (-m 0 2) * z1 + (-m 0 1) * z2)).trans h1) one_ne_zero
  have d10 : m 1 0 = 0 := by
    linear_combination (m 2 0) * h.r12 + (-m 1 0) * h.r22 + (-m 2 2) * h.f01 + (m 2 1) * h.f02 + (m 2 1) * z1 + (-m 2 2) * z2
  have d11 : -m 1 1 + m 0 0 * m 2 2 = 0 := by
    linear_combination (-m 2 1) * h.r12 + (m 1 1) * h.r22 + (-m 2 2) * h.f00 + (m 2 0) * h.f02 + (m 2 0) * z1
  have d12 : -m 1 2 - m 0 0 * m 2 1 = 0 := by
    linear_combination (-m 2 2) * h.r12 + (m 1 2) * h.r22 + (m 2 1) * h.f00 + (-m 2 0) * h.f01 + (-m 2 0) * z2
  have d20 : m 2 0 = 0 := by
    linear_combination (-m 2 0) * h.r11 + (m 1 0) * h.r12 + (m 1 2) * h.f01 + (-m 1 1) * h.f02 + (-m 1 1) * z1 + (m 1 2) * z2
  refine forall_lt3_2 ⟨?_, ?_, ?_, ?_, ?_, ?_, ?_, ?_, ?_⟩ <;>
    simp [toEuler, fromEuler, eulerIJK, nextAxis, Mat.set, SC.neg, hsy, s0, hs, ex, ey, z1, z2]
  all_goals first
    | linear_combination d10
    | linear_combination -d10
    | linear_combination d11
    | linear_combination -d11
    | linear_combination d12
    | linear_combination -d12
    | linear_combination d20
    | linear_combination -d20

theorem to_euler_gimbal_row_syzx (sqrt : K → K) (small : K → Bool) (m : Mat K) (h : SO3 m) (m0 : Mat K)
    (hsq : ∀ x y : K, sqrt (x * x + y * y) * sqrt (x * x + y * y) = x * x + y * y) (h1 : sqrt 1 = 1)
    (hs : small (eulerPivot sqrt ⟨1, 0, 0, 0⟩ m) = true) (z1 : m 1 1 = 0) (z2 : m 2 1 = 0) :
    Eq3 (fromEuler ⟨1, 0, 0, 0⟩ (toEuler sqrt small ⟨1, 0, 0, 0⟩ m).1 (toEuler sqrt small ⟨1, 0, 0, 0⟩ m).2.1
        (toEuler sqrt small ⟨1, 0, 0, 0⟩ m).2.2 m0) m := by
  change small (sqrt (m 1 1 * m 1 1 + m 2 1 * m 2 1)) = true at hs
  have hS := hsq (m 1 1) (m 2 1)
  generalize hsy : sqrt (m 1 1 * m 1 1 + m 2 1 * m 2 1) = sy at hs hS
  have sy0 : sy = 0 := by
    have : sy * sy = 0 := by rw [hS, z1, z2]; ring
    exact mul_self_eq_zero.mp this
  subst sy0
  have s0 : sqrt 0 = 0 := by
    have := hsy; rw [z1, z2] at this; simpa using this
  have ex : atan2SC sqrt (-m 2 0) (m 2 2) = ⟨-m 2 0 / 1, m 2 2 / 1⟩ :=
    atan2SC_eq sqrt _ _ 1 ((congrArg sqrt (by linear_combination (1) * h.r22 + (-m 2 1) * z2)).trans h1) one_ne_zero
  have ey : atan2SC sqrt (-m 0 1) 0 = ⟨-m 0 1 / 1, 0 / 1⟩ :=
    atan2SC_eq sqrt _ _ 1 ((congrArg sqrt (by linear_combination (1) * h.c11 + (-m 1 1) * z1 + (-m 2 1) * z2)).trans h1) one_ne_zero
  have d00 : m 0 0 = 0 := by
    linear_combination (-1) * h.f00 + (m 2 2) * z1 + (-m 1 2) * z2
  have d02 : m 0 2 = 0 := by
    linear_combination (-1) * h.f02 + (-m 2 0) * z1 + (m 1 0) * z2
  have d10 : -m 1 0 - m 0 1 * m 2 2 = 0 := by
    linear_combination (-m 2 0) * h.r12 + (m 1 0) * h.r22 + (m 2 2) * h.f01 + (-m 2 1) * h.f02 + (-m 0 2) * z2
  have d12 : -m 1 2 + m 0 1 * m 2 0 = 0 := by
    linear_combination (-m 2 2) * h.r12 + (m 1 2) * h.r22 + (m 2 1) * h.f00 + (-m 2 0) * h.f01 + (m 0 0) * z2
  refine forall_lt3_2 ⟨?_, ?_, ?_, ?_, ?_, ?_, ?_, ?_, ?_⟩ <;>
    simp [toEuler, fromEuler, eulerIJK, nextAxis, Mat.set, SC.neg, hsy, s0, hs, ex, ey, z1, z2]
  all_goals first
    | linear_combination d00
    | linear_combination -d00
    | linear_combination d02
    | linear_combination -d02
    | linear_combination d10
    | linear_combination -d10
    | linear_combination d12
    | linear_combination -d12

theorem to_euler_gimbal_row_syzy (sqrt : K → K) (small : K → Bool) (m : Mat K) (h : SO3 m) (m0 : Mat K)
    (hsq : ∀ x y : K, sqrt (x * x + y * y) * sqrt (x * x + y * y) = x * x + y * y) (h1 : sqrt 1 = 1)
    (hs : small (eulerPivot sqrt ⟨1, 0, 1, 0⟩ m) = true) (z1 : m 1 2 = 0) (z2 : m 1 0 = 0) :
    Eq3 (fromEuler ⟨1, 0, 1, 0⟩ (toEuler sqrt small ⟨1, 0, 1, 0⟩ m).1 (toEuler sqrt small ⟨1, 0, 1, 0⟩ m).2.1
        (toEuler sqrt small ⟨1, 0, 1, 0⟩ m).2.2 m0) m := by
  change small (sqrt (m 1 2 * m 1 2 + m 1 0 * m 1 0)) = true at hs
  have hS := hsq (m 1 2) (m 1 0)
  generalize hsy : sqrt (m 1 2 * m 1 2 + m 1 0 * m 1 0) = sy at hs hS
  have sy0 : sy = 0 := by
    have : sy * sy = 0 := by rw [hS, z1, z2]; ring
    exact mul_self_eq_zero.mp this
  subst sy0
  have s0 : sqrt 0 = 0 := by
    have := hsy; rw [z1, z2] at this; simpa using this
  have ex : atan2SC sqrt (-m 2 0) (m 2 2) = ⟨-m 2 0 / 1, m 2 2 / 1⟩ :=
    atan2SC_eq sqrt _ _ 1 ((congrArg sqrt (by linear_combination (-m 2 2^2) * h.r11 + (m 1 2 * m 2 2) * h.r12 + (1) * h.c00 + (m 1 1 * m 2 2 + m 0 0) * h.f00 + (-m 1 0 * m 2 2) * h.f01 + (m 0 0 * m 2 1) * z1 + (-m 1 0 - m 0 1 * m 2 2) * z2)).trans h1) one_ne_zero
  have ey : atan2SC sqrt 0 (m 1 1) = ⟨0 / 1, m 1 1 / 1⟩ :=
    atan2SC_eq sqrt _ _ 1 ((congrArg sqrt (by linear_combination (1) * h.r11 + (-m 1 2) * z1 + (-m 1 0) * z2)).trans h1) one_ne_zero
  have d00 : m 1 1 * m 2 2 - m 0 0 = 0 := by
    linear_combination (1) * h.f00 + (m 2 1) * z1
  have d01 : m 0 1 = 0 := by
    linear_combination (-1) * h.f01 + (m 2 0) * z1 + (-m 2 2) * z2
  have d02 : -m 1 1 * m 2 0 - m 0 2 = 0 := by
    linear_combination (1) * h.f02 + (-m 2 1) * z2
  have d21 : m 2 1 = 0 := by
    linear_combination (-m 2 1) * h.r11 + (m 1 1) * h.r12 + (-m 1 2) * h.f00 + (m 1 0) * h.f02 + (-m 0 0) * z1 + (m 0 2) * z2
  refine forall_lt3_2 ⟨?_, ?_, ?_, ?_, ?_, ?_, ?_, ?_, ?_⟩ <;>
    simp [toEuler, fromEuler, eulerIJK, nextAxis, Mat.set, SC.neg, hsy, s0, hs, ex, ey, z1, z2]
  all_goals first
    | linear_combination d00
    | linear_combination -d00
    | linear_combination d01
    | linear_combination -d01
    | linear_combination d02
    | linear_combination -d02
    | linear_combination d21
    | linear_combination -d21

theorem to_euler_gimbal_row_syxz (sqrt : K → K) (small : K → Bool) (m : Mat K) (h : SO3 m) (m0 : Mat K)
    (hsq : ∀ x y : K, sqrt (x * x + y * y) * sqrt (x * x + y * y) = x * x + y * y) (h1 : sqrt 1 = 1)
    (hs : small (eulerPivot sqrt ⟨1, 1, 0, 0⟩ m) = true) (z1 : m 1 1 = 0) (z2 : m 0 1 = 0) :
    Eq3 (fromEuler ⟨1, 1, 0, 0⟩ (toEuler sqrt small ⟨1, 1, 0, 0⟩ m).1 (toEuler sqrt small ⟨1, 1, 0, 0⟩ m).2.1
        (toEuler sqrt small ⟨1, 1, 0, 0⟩ m).2.2 m0) m := by
  change small (sqrt (m 1 1 * m 1 1 + m 0 1 * m 0 1)) = true at hs
  have hS := hsq (m 1 1) (m 0 1)
  generalize hsy : sqrt (m 1 1 * m 1 1 + m 0 1 * m 0 1) = sy at hs hS
  have sy0 : sy = 0 := by
    have : sy * sy = 0 := by rw [hS, z1, z2]; ring
    exact mul_self_eq_zero.mp this
  subst sy0
  have s0 : sqrt 0 = 0 := by
    have := hsy; rw [z1, z2] at this; simpa using this
  have ex : atan2SC sqrt (-m 0 2) (m 0 0) = ⟨-m 0 2 / 1, m 0 0 / 1⟩ :=
    atan2SC_eq sqrt _ _ 1 ((congrArg sqrt (by linear_combination (1) * h.r00 + (-m 0 1) * z2)).trans h1) one_ne_zero
  have ey : atan2SC sqrt (-m 2 1) 0 = ⟨-m 2 1 / 1, 0 / 1⟩ :=
    atan2SC_eq sqrt _ _ 1 ((congrArg sqrt (by linear_combination (1) * h.c11 + (-m 1 1) * z1 + (-m 0 1) * z2)).trans h1) one_ne_zero
  have d10 : -m 1 0 + m 0 2 * m 2 1 = 0 := by
    linear_combination (-m 2 0) * h.r12 + (m 1 0) * h.r22 + (m 2 2) * h.f01 + (-m 2 1) * h.f02 + (m 2 2) * z2
  have d12 : -m 1 2 - m 0 0 * m 2 1 = 0 := by
    linear_combination (-m 2 2) * h.r12 + (m 1 2) * h.r22 + (m 2 1) * h.f00 + (-m 2 0) * h.f01 + (-m 2 0) * z2
  have d20 : m 2 0 = 0 := by
    linear_combination (-m 2 0) * h.r11 + (m 1 0) * h.r12 + (m 1 2) * h.f01 + (-m 1 1) * h.f02 + (-m 0 2) * z1 + (m 1 2) * z2
  have d22 : m 2 2 = 0 := by
    linear_combination (-m 2 2) * h.r11 + (m 1 2) * h.r12 + (m 1 1) * h.f00 + (-m 1 0) * h.f01 + (m 0 0) * z1 + (-m 1 0) * z2
  refine forall_lt3_2 ⟨?_, ?_, ?_, ?_, ?_, ?_, ?_, ?_, ?_⟩ <;>
    simp [toEuler, fromEuler, eulerIJK, nextAxis, Mat.set, SC.neg, hsy, s0, hs, ex, ey, z1, z2]
  all_goals first
    | linear_combination d10
    | linear_combination -d10
    | linear_combination d12
    | linear_combination -d12
    | linear_combination d20
    | linear_combination -d20
    | linear_combination d22
    | linear_combination -d22

theorem to_euler_gimbal_row_syxy (sqrt : K → K) (small : K → Bool) (m : Mat K) (h : SO3 m) (m0 : Mat K)
    (hsq : ∀ x y : K, sqrt (x * x + y * y) * sqrt (x * x + y * y) = x * x + y * y) (h1 : sqrt 1 = 1)
    (hs : small (eulerPivot sqrt ⟨1, 1, 1, 0⟩ m) = true) (z1 : m 1 0 = 0) (z2 : m 1 2 = 0) :
    Eq3 (fromEuler ⟨1, 1, 1, 0⟩ (toEuler sqrt small ⟨1, 1, 1, 0⟩ m).1 (toEuler sqrt small ⟨1, 1, 1, 0⟩ m).2.1
        (toEuler sqrt small ⟨1, 1, 1, 0⟩ m).2.2 m0) m := by
  change small (sqrt (m 1 0 * m 1 0 + m 1 2 * m 1 2)) = true at hs
  have hS := hsq (m 1 0) (m 1 2)
  generalize hsy : sqrt (m 1 0 * m 1 0 + m 1 2 * m 1 2) = sy at hs hS
  have sy0 : sy = 0 := by
    have : sy * sy = 0 := by rw [hS, z1, z2]; ring
    exact mul_self_eq_zero.mp this
  subst sy0
  have s0 : sqrt 0 = 0 := by
    have := hsy; rw [z1, z2] at this; simpa using this
  have ex : atan2SC sqrt (-m 0 2) (m 0 0) = ⟨-m 0 2 / 1, m 0 0 / 1⟩ :=
    atan2SC_eq sqrt _ _ 1 ((congrArg sqrt (by linear_combination (1 - m 2 2^2 - m 1 2^2) * h.r00 + (m 0 2 * m 1 2 - m 0 1 * m 1 1 - m 0 0 * m 1 0) * h.r01 + (m 0 2 * m 2 2 - m 0 1 * m 2 1 - m 0 0 * m 2 0) * h.r02 + (m 0 1^2 + m 0 0^2) * h.r11 + (-m 1 1 * m 2 1 - m 1 0 * m 2 0) * h.r12 + (-1 + m 1 1^2 + m 1 0^2 + m 0 1^2 + m 0 0^2) * h.r22 + (1 - m 2 1^2 - m 1 1^2 - m 0 1^2) * h.c00 + (m 2 0 * m 2 1 + m 1 0 * m 1 1 + m 0 0 * m 0 1) * h.c01 + (-m 1 1 * m 2 2 - m 0 0) * h.f00 + (m 1 0 * m 2 2) * h.f01 + (m 0 1 * m 2 2) * z1 + (-m 1 2 - m 0 0 * m 2 1) * z2)).trans h1) one_ne_zero
  have ey : atan2SC sqrt 0 (m 1 1) = ⟨0 / 1, m 1 1 / 1⟩ :=
    atan2SC_eq sqrt _ _ 1 ((congrArg sqrt (by linear_combination (1) * h.r11 + (-m 1 0) * z1 + (-m 1 2) * z2)).trans h1) one_ne_zero
  have d01 : m 0 1 = 0 := by
    linear_combination (-1) * h.f01 + (-m 2 2) * z1 + (m 2 0) * z2
  have d20 : -m 2 0 - m 0 2 * m 1 1 = 0 := by
    linear_combination (m 2 0) * h.r11 + (-m 1 0) * h.r12 + (-m 1 2) * h.f01 + (m 1 1) * h.f02 + (-m 0 1) * z2
  have d21 : m 2 1 = 0 := by
    linear_combination (-m 2 1) * h.r11 + (m 1 1) * h.r12 + (-m 1 2) * h.f00 + (m 1 0) * h.f02 + (m 0 2) * z1 + (-m 0 0) * z2
  have d22 : -m 2 2 + m 0 0 * m 1 1 = 0 := by
    linear_combination (m 2 2) * h.r11 + (-m 1 2) * h.r12 + (-m 1 1) * h.f00 + (m 1 0) * h.f01 + (m 0 1) * z1
  refine forall_lt3_2 ⟨?_, ?_, ?_, ?_, ?_, ?_, ?_, ?_, ?_⟩ <;>
    simp [toEuler, fromEuler, eulerIJK, nextAxis, Mat.set, SC.neg, hsy, s0, hs, ex, ey, z1, z2]
  all_goals first
    | linear_combination d01
    | linear_combination -d01
    | linear_combination d20
    | linear_combination -d20
    | linear_combination d21
    | linear_combination -d21
    | linear_combination d22
    | linear_combination -d22

theorem to_euler_gimbal_row_szxy (sqrt : K → K) (small : K → Bool) (m : Mat K) (h : SO3 m) (m0 : Mat K)
    (hsq : ∀ x y : K, sqrt (x * x + y * y) * sqrt (x * x + y * y) = x * x + y * y) (h1 : sqrt 1 = 1)
    (hs : small (eulerPivot sqrt ⟨2, 0, 0, 0⟩ m) = true) (z1 : m 2 2 = 0) (z2 : m 0 2 = 0) :
    Eq3 (fromEuler ⟨2, 0, 0, 0⟩ (toEuler sqrt small ⟨2, 0, 0, 0⟩ m).1 (toEuler sqrt small ⟨2, 0, 0, 0⟩ m).2.1
        (toEuler sqrt small ⟨2, 0, 0, 0⟩ m).2.2 m0) m := by
  change small (sqrt (m 2 2 * m 2 2 + m 0 2 * m 0 2)) = true at hs
  have hS := hsq (m 2 2) (m 0 2)
  generalize hsy : sqrt (m 2 2 * m 2 2 + m 0 2 * m 0 2) = sy at hs hS
  have sy0 : sy = 0 := by
    have : sy * sy = 0 := by rw [hS, z1, z2]; ring
    exact mul_self_eq_zero.mp this
  subst sy0
  have s0 : sqrt 0 = 0 := by
    have := hsy; rw [z1, z2] at this; simpa using this
  have ex : atan2SC sqrt (-m 0 1) (m 0 0) = ⟨-m 0 1 / 1, m 0 0 / 1⟩ :=
    atan2SC_eq sqrt _ _ 1 ((congrArg sqrt (by linear_combination (1) * h.r00 + (-m 0 2) * z2)).trans h1) one_ne_zero
  have ey : atan2SC sqrt (-m 1 2) 0 = ⟨-m 1 2 / 1, 0 / 1⟩ :=
    atan2SC_eq sqrt _ _ 1 ((congrArg sqrt (by linear_combination (1) * h.r00 + (1) * h.r11 + (1) * h.r22 + (-1) * h.c00 + (-1) * h.c11 + (-m 2 2) * z1 + (-m 0 2) * z2)).trans h1) one_ne_zero
  have d10 : m 1 0 = 0 := by
    linear_combination (m 2 0) * h.r12 + (-m 1 0) * h.r22 + (-m 2 2) * h.f01 + (m 2 1) * h.f02 + (-m 0 1) * z1 + (m 2 1) * z2
  have d11 : m 1 1 = 0 := by
    linear_combination (m 2 1) * h.r12 + (-m 1 1) * h.r22 + (m 2 2) * h.f00 + (-m 2 0) * h.f02 + (m 0 0) * z1 + (-m 2 0) * z2
  have d20 : -m 2 0 + m 0 1 * m 1 2 = 0 := by
    linear_combination (m 2 0) * h.r11 + (-m 1 0) * h.r12 + (-m 1 2) * h.f01 + (m 1 1) * h.f02 + (m 1 1) * z2
  have d21 : -m 2 1 - m 0 0 * m 1 2 = 0 := by
    linear_combination (m 2 1) * h.r11 + (-m 1 1) * h.r12 + (m 1 2) * h.f00 + (-m 1 0) * h.f02 + (-m 1 0) * z2
  refine forall_lt3_2 ⟨?_, ?_, ?_, ?_, ?_, ?_, ?_, ?_, ?_⟩ <;>
    simp [toEuler, fromEuler, eulerIJK, nextAxis, Mat.set, SC.neg, hsy, s0, hs, ex, ey, z1, z2]
  all_goals first
    | linear_combination d10
    | linear_combination -d10
    | linear_combination d11
    | linear_combination -d11
    | linear_combination d20
    | linear_combination -d20
    | linear_combination d21
    | linear_combination -d21

theorem to_euler_gimbal_row_szxz (sqrt : K → K) (small : K → Bool) (m : Mat K) (h : SO3 m) (m0 : Mat K)
    (hsq : ∀ x y : K, sqrt (x * x + y * y) * sqrt (x * x + y * y) = x * x + y * y) (h1 : sqrt 1 = 1)
    (hs : small (eulerPivot sqrt ⟨2, 0, 1, 0⟩ m) = true) (z1 : m 2 0 = 0) (z2 : m 2 1 = 0) :
    Eq3 (fromEuler ⟨2, 0, 1, 0⟩ (toEuler sqrt small ⟨2, 0, 1, 0⟩ m).1 (toEuler sqrt small ⟨2, 0, 1, 0⟩ m).2.1
        (toEuler sqrt small ⟨2, 0, 1, 0⟩ m).2.2 m0) m := by
  change small (sqrt (m 2 0 * m 2 0 + m 2 1 * m 2 1)) = true at hs
  have hS := hsq (m 2 0) (m 2 1)
  generalize hsy : sqrt (m 2 0 * m 2 0 + m 2 1 * m 2 1) = sy at hs hS
  have sy0 : sy = 0 := by
    have : sy * sy = 0 := by rw [hS, z1, z2]; ring
    exact mul_self_eq_zero.mp this
  subst sy0
  have s0 : sqrt 0 = 0 := by
    have := hsy; rw [z1, z2] at this; simpa using this
  have ex : atan2SC sqrt (-m 0 1) (m 0 0) = ⟨-m 0 1 / 1, m 0 0 / 1⟩ :=
    atan2SC_eq sqrt _ _ 1 ((congrArg sqrt (by linear_combination (m 2 2^2) * h.r11 + (-m 1 2 * m 2 2) * h.r12 + (1) * h.r22 + (-m 1 1 * m 2 2 - m 0 0) * h.f00 + (m 1 0 * m 2 2 - m 0 1) * h.f01 + (-m 2 0 + m 0 1 * m 1 2) * z1 + (-m 2 1 - m 0 0 * m 1 2) * z2)).trans h1) one_ne_zero
  have ey : atan2SC sqrt 0 (m 2 2) = ⟨0 / 1, m 2 2 / 1⟩ :=
    atan2SC_eq sqrt _ _ 1 ((congrArg sqrt (by linear_combination (1) * h.r22 + (-m 2 0) * z1 + (-m 2 1) * z2)).trans h1) one_ne_zero
  have d02 : m 0 2 = 0 := by
    linear_combination (-1) * h.f02 + (-m 1 1) * z1 + (m 1 0) * z2
  have d10 : -m 1 0 - m 0 1 * m 2 2 = 0 := by
    linear_combination (-m 2 0) * h.r12 + (m 1 0) * h.r22 + (m 2 2) * h.f01 + (-m 2 1) * h.f02 + (-m 0 2) * z2
  have d11 : -m 1 1 + m 0 0 * m 2 2 = 0 := by
    linear_combination (-m 2 1) * h.r12 + (m 1 1) * h.r22 + (-m 2 2) * h.f00 + (m 2 0) * h.f02 + (m 0 2) * z1
  have d12 : m 1 2 = 0 := by
    linear_combination (m 2 2) * h.r12 + (-m 1 2) * h.r22 + (-m 2 1) * h.f00 + (m 2 0) * h.f01 + (m 0 1) * z1 + (-m 0 0) * z2
  refine forall_lt3_2 ⟨?_, ?_, ?_, ?_, ?_, ?_, ?_, ?_, ?_⟩ <;>
    simp [toEuler, fromEuler, eulerIJK, nextAxis, Mat.set, SC.neg, hsy, s0, hs, ex, ey, z1, z2]
  all_goals first
    | linear_combination d02
    | linear_combination -d02
    | linear_combination d10
    | linear_combination -d10
    | linear_combination d11
    | linear_combination -d11
    | linear_combination d12
    | linear_combination -d12

theorem to_euler_gimbal_row_szyx (sqrt : K → K) (small : K → Bool) (m : Mat K) (h : SO3 m) (m0 : Mat K)
    (hsq : ∀ x y : K, sqrt (x * x + y * y) * sqrt (x * x + y * y) = x * x + y * y) (h1 : sqrt 1 = 1)
    (hs : small (eulerPivot sqrt ⟨2, 1, 0, 0⟩ m) = true) (z1 : m 2 2 = 0) (z2 : m 1 2 = 0) :
    Eq3 (fromEuler ⟨2, 1, 0, 0⟩ (toEuler sqrt small ⟨2, 1, 0, 0⟩ m).1 (toEuler sqrt small ⟨2, 1, 0, 0⟩ m).2.1
        (toEuler sqrt small ⟨2, 1, 0, 0⟩ m).2.2 m0) m := by
  change small (sqrt (m 2 2 * m 2 2 + m 1 2 * m 1 2)) = true at hs
  have hS := hsq (m 2 2) (m 1 2)
  generalize hsy : sqrt (m 2 2 * m 2 2 + m 1 2 * m 1 2) = sy at hs hS
  have sy0 : sy = 0 := by
    have : sy * sy = 0 := by rw [hS, z1, z2]; ring
    exact mul_self_eq_zero.mp this
  subst sy0
  have s0 : sqrt 0 = 0 := by
    have := hsy; rw [z1, z2] at this; simpa using this
  have ex : atan2SC sqrt (-m 1 0) (m 1 1) = ⟨-m 1 0 / 1, m 1 1 / 1⟩ :=
    atan2SC_eq sqrt _ _ 1 ((congrArg sqrt (by linear_combination (1) * h.r11 + (-m 1 2) * z2)).trans h1) one_ne_zero
  have ey : atan2SC sqrt (-m 0 2) 0 = ⟨-m 0 2 / 1, 0 / 1⟩ :=
    atan2SC_eq sqrt _ _ 1 ((congrArg sqrt (by linear_combination (1) * h.r00 + (1) * h.r11 + (1) * h.r22 + (-1) * h.c00 + (-1) * h.c11 + (-m 2 2) * z1 + (-m 1 2) * z2)).trans h1) one_ne_zero
  have d00 : m 0 0 = 0 := by
    linear_combination (-1) * h.f00 + (m 1 1) * z1 + (-m 2 1) * z2
  have d01 : m 0 1 = 0 := by
    linear_combination (-1) * h.f01 + (-m 1 0) * z1 + (m 2 0) * z2
  have d20 : -m 2 0 - m 0 2 * m 1 1 = 0 := by
    linear_combination (m 2 0) * h.r11 + (-m 1 0) * h.r12 + (-m 1 2) * h.f01 + (m 1 1) * h.f02 + (-m 0 1) * z2
  have d21 : -m 2 1 + m 0 2 * m 1 0 = 0 := by
    linear_combination (m 2 1) * h.r11 + (-m 1 1) * h.r12 + (m 1 2) * h.f00 + (-m 1 0) * h.f02 + (m 0 0) * z2
  refine forall_lt3_2 ⟨?_, ?_, ?_, ?_, ?_, ?_, ?_, ?_, ?_⟩ <;>
    simp [toEuler, fromEuler, eulerIJK, nextAxis, Mat.set, SC.neg, hsy, s0, hs, ex, ey, z1, z2]
  all_goals first
    | linear_combination d00
    | linear_combination -d00
    | linear_combination d01
    | linear_combination -d01
    | linear_combination d20
    | linear_combination -d20
    | linear_combination d21
    | linear_combination -d21

theorem to_euler_gimbal_row_szyz (sqrt : K → K) (small : K → Bool) (m : Mat K) (h : SO3 m) (m0 : Mat K)
    (hsq : ∀ x y : K, sqrt (x * x + y * y) * sqrt (x * x + y * y) = x * x + y * y) (h1 : sqrt 1 = 1)
    (hs : small (eulerPivot sqrt ⟨2, 1, 1, 0⟩ m) = true) (z1 : m 2 1 = 0) (z2 : m 2 0 = 0) :
    Eq3 (fromEuler ⟨2, 1, 1, 0⟩ (toEuler sqrt small ⟨2, 1, 1, 0⟩ m).1 (toEuler sqrt small ⟨2, 1, 1, 0⟩ m).2.1
        (toEuler sqrt small ⟨2, 1, 1, 0⟩ m).2.2 m0) m := by
  change small (sqrt (m 2 1 * m 2 1 + m 2 0 * m 2 0)) = true at hs
  have hS := hsq (m 2 1) (m 2 0)
  generalize hsy : sqrt (m 2 1 * m 2 1 + m 2 0 * m 2 0) = sy at hs hS
  have sy0 : sy = 0 := by
    have : sy * sy = 0 := by rw [hS, z1, z2]; ring
    exact mul_self_eq_zero.mp this
  subst sy0
  have s0 : sqrt 0 = 0 := by
    have := hsy; rw [z1, z2] at this; simpa using this
  have ex : atan2SC sqrt (-m 1 0) (m 1 1) = ⟨-m 1 0 / 1, m 1 1 / 1⟩ :=
    atan2SC_eq sqrt _ _ 1 ((congrArg sqrt (by linear_combination (m 2 2^2 + m 1 2^2) * h.r00 + (-m 0 2 * m 1 2 + m 0 1 * m 1 1 + m 0 0 * m 1 0) * h.r01 + (-m 0 2 * m 2 2 + m 0 1 * m 2 1 + m 0 0 * m 2 0) * h.r02 + (1 - m 0 1^2 - m 0 0^2) * h.r11 + (m 1 1 * m 2 1 + m 1 0 * m 2 0) * h.r12 + (1 - m 1 1^2 - m 1 0^2 - m 0 1^2 - m 0 0^2) * h.r22 + (-1 + m 2 1^2 + m 1 1^2 + m 0 1^2) * h.c00 + (-m 2 0 * m 2 1 - m 1 0 * m 1 1 - m 0 0 * m 0 1) * h.c01 + (m 1 1 * m 2 2 + m 0 0) * h.f00 + (-m 1 0 * m 2 2 + m 0 1) * h.f01 + (m 0 0 * m 1 2) * z1 + (-m 0 1 * m 1 2) * z2)).trans h1) one_ne_zero
  have ey : atan2SC sqrt 0 (m 2 2) = ⟨0 / 1, m 2 2 / 1⟩ :=
    atan2SC_eq sqrt _ _ 1 ((congrArg sqrt (by linear_combination (1) * h.r22 + (-m 2 1) * z1 + (-m 2 0) * z2)).trans h1) one_ne_zero
  have d00 : m 1 1 * m 2 2 - m 0 0 = 0 := by
    linear_combination (1) * h.f00 + (m 1 2) * z1
  have d01 : -m 1 0 * m 2 2 - m 0 1 = 0 := by
    linear_combination (1) * h.f01 + (-m 1 2) * z2
  have d02 : m 0 2 = 0 := by
    linear_combination (-1) * h.f02 + (m 1 0) * z1 + (-m 1 1) * z2
  have d12 : m 1 2 = 0 := by
    linear_combination (m 2 2) * h.r12 + (-m 1 2) * h.r22 + (-m 2 1) * h.f00 + (m 2 0) * h.f01 + (-m 0 0) * z1 + (m 0 1) * z2
  refine forall_lt3_2 ⟨?_, ?_, ?_, ?_, ?_, ?_, ?_, ?_, ?_⟩ <;>
    simp [toEuler, fromEuler, eulerIJK, nextAxis, Mat.set, SC.neg, hsy, s0, hs, ex, ey, z1, z2]
  all_goals first
    | linear_combination d00
    | linear_combination -d00
    | linear_combination d01
    | linear_combination -d01
    | linear_combination d02
    | linear_combination -d02
    | linear_combination d12
    | linear_combination -d12

theorem to_euler_gimbal_row_rzyx (sqrt : K → K) (small : K → Bool) (m : Mat K) (h : SO3 m) (m0 : Mat K)
    (hsq : ∀ x y : K, sqrt (x * x + y * y) * sqrt (x * x + y * y) = x * x + y * y) (h1 : sqrt 1 = 1)
    (hs : small (eulerPivot sqrt ⟨0, 0, 0, 1⟩ m) = true) (z1 : m 0 0 = 0) (z2 : m 1 0 = 0) :
    Eq3 (fromEuler ⟨0, 0, 0, 1⟩ (toEuler sqrt small ⟨0, 0, 0, 1⟩ m).1 (toEuler sqrt small ⟨0, 0, 0, 1⟩ m).2.1
        (toEuler sqrt small ⟨0, 0, 0, 1⟩ m).2.2 m0) m := by
  change small (sqrt (m 0 0 * m 0 0 + m 1 0 * m 1 0)) = true at hs
  have hS := hsq (m 0 0) (m 1 0)
  generalize hsy : sqrt (m 0 0 * m 0 0 + m 1 0 * m 1 0) = sy at hs hS
  have sy0 : sy = 0 := by
    have : sy * sy = 0 := by rw [hS, z1, z2]; ring
    exact mul_self_eq_zero.mp this
  subst sy0
  have s0 : sqrt 0 = 0 := by
    have := hsy; rw [z1, z2] at this; simpa using this
  have ex : atan2SC sqrt (-m 1 2) (m 1 1) = ⟨-m 1 2 / 1, m 1 1 / 1⟩ :=
    atan2SC_eq sqrt _ _ 1 ((congrArg sqrt (by linear_combination (1) * h.r11 + (-m 1 0) * z2)).trans h1) one_ne_zero
  have ey : atan2SC sqrt (-m 2 0) 0 = ⟨-m 2 0 / 1, 0 / 1⟩ :=
    atan2SC_eq sqrt _ _ 1 ((congrArg sqrt (by linear_combination (1) * h.c00 + (-m 0 0) * z1 + (-m 1 0) * z2)).trans h1) one_ne_zero
  have d01 : m 1 2 * m 2 0 - m 0 1 = 0 := by
    linear_combination (1) * h.f01 + (m 2 2) * z2
  have d02 : -m 1 1 * m 2 0 - m 0 2 = 0 := by
    linear_combination (1) * h.f02 + (-m 2 1) * z2
  have d21 : m 2 1 = 0 := by
    linear_combination (-m 2 1) * h.r11 + (m 1 1) * h.r12 + (-m 1 2) * h.f00 + (m 1 0) * h.f02 + (-m 1 2) * z1 + (m 0 2) * z2
  have d22 : m 2 2 = 0 := by
    linear_combination (-m 2 2) * h.r11 + (m 1 2) * h.r12 + (m 1 1) * h.f00 + (-m 1 0) * h.f01 + (m 1 1) * z1 + (-m 0 1) * z2
  refine forall_lt3_2 ⟨?_, ?_, ?_, ?_, ?_, ?_, ?_, ?_, ?_⟩ <;>
    simp [toEuler, fromEuler, eulerIJK, nextAxis, Mat.set, SC.neg, hsy, s0, hs, ex, ey, z1, z2]
  all_goals first
    | linear_combination d01
    | linear_combination -d01
    | linear_combination d02
    | linear_combination -d02
    | linear_combination d21
    | linear_combination -d21
    | linear_combination d22
    | linear_combination -d22

theorem to_euler_gimbal_row_rxyx (sqrt : K → K) (small : K → Bool) (m : Mat K) (h : SO3 m) (m0 : Mat K)
    (hsq : ∀ x y : K, sqrt (x * x + y * y) * sqrt (x * x + y * y) = x * x + y * y) (h1 : sqrt 1 = 1)
    (hs : small (eulerPivot sqrt ⟨0, 0, 1, 1⟩ m) = true) (z1 : m 0 1 = 0) (z2 : m 0 2 = 0) :
    Eq3 (fromEuler ⟨0, 0, 1, 1⟩ (toEuler sqrt small ⟨0, 0, 1, 1⟩ m).1 (toEuler sqrt small ⟨0, 0, 1, 1⟩ m).2.1
        (toEuler sqrt small ⟨0, 0, 1, 1⟩ m).2.2 m0) m := by
  change small (sqrt (m 0 1 * m 0 1 + m 0 2 * m 0 2)) = true at hs
  have hS := hsq (m 0 1) (m 0 2)
  generalize hsy : sqrt (m 0 1 * m 0 1 + m 0 2 * m 0 2) = sy at hs hS
  have sy0 : sy = 0 := by
    have : sy * sy = 0 := by rw [hS, z1, z2]; ring
    exact mul_self_eq_zero.mp this
  subst sy0
  have s0 : sqrt 0 = 0 := by
    have := hsy; rw [z1, z2] at this; simpa using this
  have ex : atan2SC sqrt (-m 1 2) (m 1 1) = ⟨-m 1 2 / 1, m 1 1 / 1⟩ :=
    atan2SC_eq sqrt _ _ 1 ((congrArg sqrt (by linear_combination (1) * h.r11 + (-m 1 0 * m 2 0) * h.r12 + (m 1 0^2) * h.r22 + (m 1 0 * m 2 2) * h.f01 + (-m 1 0 * m 2 1) * h.f02 + (m 1 0 * m 2 2) * z1 + (-m 1 0 * m 2 1) * z2)).trans h1) one_ne_zero
  have ey : atan2SC sqrt 0 (m 0 0) = ⟨0 / 1, m 0 0 / 1⟩ :=
    atan2SC_eq sqrt _ _ 1 ((congrArg sqrt (by linear_combination (1) * h.r00 + (-m 0 1) * z1 + (-m 0 2) * z2)).trans h1) one_ne_zero
  have d10 : m 1 0 = 0 := by
    linear_combination (m 2 0) * h.r12 + (-m 1 0) * h.r22 + (-m 2 2) * h.f01 + (m 2 1) * h.f02 + (-m 2 2) * z1 + (m 2 1) * z2
  have d20 : m 2 0 = 0 := by
    linear_combination (-m 2 0) * h.r11 + (m 1 0) * h.r12 + (m 1 2) * h.f01 + (-m 1 1) * h.f02 + (m 1 2) * z1 + (-m 1 1) * z2
  have d21 : -m 2 1 - m 0 0 * m 1 2 = 0 := by
    linear_combination (m 2 1) * h.r11 + (-m 1 1) * h.r12 + (m 1 2) * h.f00 + (-m 1 0) * h.f02 + (-m 1 0) * z2
  have d22 : -m 2 2 + m 0 0 * m 1 1 = 0 := by
    linear_combination (m 2 2) * h.r11 + (-m 1 2) * h.r12 + (-m 1 1) * h.f00 + (m 1 0) * h.f01 + (m 1 0) * z1
  refine forall_lt3_2 ⟨?_, ?_, ?_, ?_, ?_, ?_, ?_, ?_, ?_⟩ <;>
    simp [toEuler, fromEuler, eulerIJK, nextAxis, Mat.set, SC.neg, hsy, s0, hs, ex, ey, z1, z2]
  all_goals first
    | linear_combination d10
    | linear_combination -d10
    | linear_combination d20
    | linear_combination -d20
    | linear_combination d21
    | linear_combination -d21
    | linear_combination d22
    | linear_combination -d22

theorem to_euler_gimbal_row_ryzx (sqrt : K → K) (small : K → Bool) (m : Mat K) (h : SO3 m) (m0 : Mat K)
    (hsq : ∀ x y : K, sqrt (x * x + y * y) * sqrt (x * x + y * y) = x * x + y * y) (h1 : sqrt 1 = 1)
    (hs : small (eulerPivot sqrt ⟨0, 1, 0, 1⟩ m) = true) (z1 : m 0 0 = 0) (z2 : m 2 0 = 0) :
    Eq3 (fromEuler ⟨0, 1, 0, 1⟩ (toEuler sqrt small ⟨0, 1, 0, 1⟩ m).1 (toEuler sqrt small ⟨0, 1, 0, 1⟩ m).2.1
        (toEuler sqrt small ⟨0, 1, 0, 1⟩ m).2.2 m0) m := by
  change small (sqrt (m 0 0 * m 0 0 + m 2 0 * m 2 0)) = true at hs
  have hS := hsq (m 0 0) (m 2 0)
  generalize hsy : sqrt (m 0 0 * m 0 0 + m 2 0 * m 2 0) = sy at hs hS
  have sy0 : sy = 0 := by
    have : sy * sy = 0 := by rw [hS, z1, z2]; ring
    exact mul_self_eq_zero.mp this
  subst sy0
  have s0 : sqrt 0 = 0 := by
    have := hsy; rw [z1, z2] at this; simpa using this
  have ex : atan2SC sqrt (-m 2 1) (m 2 2) = ⟨-m 2 1 / 1, m 2 2 / 1⟩ :=
    atan2SC_eq sqrt _ _ 1 ((congrArg sqrt (by linear_combination (1) * h.r22 + (-m 2 0) * z2)).trans h1) one_ne_zero
  have ey : atan2SC sqrt (-m 1 0) 0 = ⟨-m 1 0 / 1, 0 / 1⟩ :=
    atan2SC_eq sqrt _ _ 1 ((congrArg sqrt (by linear_combination (1) * h.c00 + (-m 0 0) * z1 + (-m 2 0) * z2)).trans h1) one_ne_zero
  have d01 : -m 1 0 * m 2 2 - m 0 1 = 0 := by
    linear_combination (1) * h.f01 + (-m 1 2) * z2
  have d02 : m 1 0 * m 2 1 - m 0 2 = 0 := by
    linear_combination (1) * h.f02 + (m 1 1) * z2
  have d11 : m 1 1 = 0 := by
    linear_combination (m 2 1) * h.r12 + (-m 1 1) * h.r22 + (m 2 2) * h.f00 + (-m 2 0) * h.f02 + (m 2 2) * z1 + (-m 0 2) * z2
  have d12 : m 1 2 = 0 := by
    linear_combination (m 2 2) * h.r12 + (-m 1 2) * h.r22 + (-m 2 1) * h.f00 + (m 2 0) * h.f01 + (-m 2 1) * z1 + (m 0 1) * z2
  refine forall_lt3_2 ⟨?_, ?_, ?_, ?_, ?_, ?_, ?_, ?_, ?_⟩ <;>
    simp [toEuler, fromEuler, eulerIJK, nextAxis, Mat.set, SC.neg, hsy, s0, hs, ex, ey, z1, z2]
  all_goals first
    | linear_combination d01
    | linear_combination -d01
    | linear_combination d02
    | linear_combination -d02
    | linear_combination d11
    | linear_combination -d11
    | linear_combination d12
    | linear_combination -d12

theorem to_euler_gimbal_row_rxzx (sqrt : K → K) (small : K → Bool) (m : Mat K) (h : SO3 m) (m0 : Mat K)
    (hsq : ∀ x y : K, sqrt (x * x + y * y) * sqrt (x * x + y * y) = x * x + y * y) (h1 : sqrt 1 = 1)
    (hs : small (eulerPivot sqrt ⟨0, 1, 1, 1⟩ m) = true) (z1 : m 0 2 = 0) (z2 : m 0 1 = 0) :
    Eq3 (fromEuler ⟨0, 1, 1, 1⟩ (toEuler sqrt small ⟨0, 1, 1, 1⟩ m).1 (toEuler sqrt small ⟨0, 1, 1, 1⟩ m).2.1
        (toEuler sqrt small ⟨0, 1, 1, 1⟩ m).2.2 m0) m := by
  change small (sqrt (m 0 2 * m 0 2 + m 0 1 * m 0 1)) = true at hs
  have hS := hsq (m 0 2) (m 0 1)
  generalize hsy : sqrt (m 0 2 * m 0 2 + m 0 1 * m 0 1) = sy at hs hS
  have sy0 : sy = 0 := by
    have : sy * sy = 0 := by rw [hS, z1, z2]; ring
    exact mul_self_eq_zero.mp this
  subst sy0
  have s0 : sqrt 0 = 0 := by
    have := hsy; rw [z1, z2] at this; simpa using this
  have ex : atan2SC sqrt (-m 2 1) (m 2 2) = ⟨-m 2 1 / 1, m 2 2 / 1⟩ :=
    atan2SC_eq sqrt _ _ 1 ((congrArg sqrt (by linear_combination (1) * h.r00 + (m 1 0 * m 2 0) * h.r12 + (1 - m 1 0^2) * h.r22 + (-1) * h.c00 + (-m 1 0 * m 2 2) * h.f01 + (m 1 0 * m 2 1) * h.f02 + (m 1 0 * m 2 1 - m 0 2) * z1 + (-m 1 0 * m 2 2 - m 0 1) * z2)).trans h1) one_ne_zero
  have ey : atan2SC sqrt 0 (m 0 0) = ⟨0 / 1, m 0 0 / 1⟩ :=
    atan2SC_eq sqrt _ _ 1 ((congrArg sqrt (by linear_combination (1) * h.r00 + (-m 0 2) * z1 + (-m 0 1) * z2)).trans h1) one_ne_zero
  have d10 : m 1 0 = 0 := by
    linear_combination (m 2 0) * h.r12 + (-m 1 0) * h.r22 + (-m 2 2) * h.f01 + (m 2 1) * h.f02 + (m 2 1) * z1 + (-m 2 2) * z2
  have d11 : -m 1 1 + m 0 0 * m 2 2 = 0 := by
    linear_combination (-m 2 1) * h.r12 + (m 1 1) * h.r22 + (-m 2 2) * h.f00 + (m 2 0) * h.f02 + (m 2 0) * z1
  have d12 : -m 1 2 - m 0 0 * m 2 1 = 0 := by
    linear_combination (-m 2 2) * h.r12 + (m 1 2) * h.r22 + (m 2 1) * h.f00 + (-m 2 0) * h.f01 + (-m 2 0) * z2
  have d20 : m 2 0 = 0 := by
    linear_combination (-m 2 0) * h.r11 + (m 1 0) * h.r12 + (m 1 2) * h.f01 + (-m 1 1) * h.f02 + (-m 1 1) * z1 + (m 1 2) * z2
  refine forall_lt3_2 ⟨?_, ?_, ?_, ?_, ?_, ?_, ?_, ?_, ?_⟩ <;>
    simp [toEuler, fromEuler, eulerIJK, nextAxis, Mat.set, SC.neg, hsy, s0, hs, ex, ey, z1, z2]
  all_goals first
    | linear_combination d10
    | linear_combination -d10
    | linear_combination d11
    | linear_combination -d11
    | linear_combination d12
    | linear_combination -d12
    | linear_combination d20
    | linear_combination -d20

theorem to_euler_gimbal_row_rxzy (sqrt : K → K) (small : K → Bool) (m : Mat K) (h : SO3 m) (m0 : Mat K)
    (hsq : ∀ x y : K, sqrt (x * x + y * y) * sqrt (x * x + y * y) = x * x + y * y) (h1 : sqrt 1 = 1)
    (hs : small (eulerPivot sqrt ⟨1, 0, 0, 1⟩ m) = true) (z1 : m 1 1 = 0) (z2 : m 2 1 = 0) :
    Eq3 (fromEuler ⟨1, 0, 0, 1⟩ (toEuler sqrt small ⟨1, 0, 0, 1⟩ m).1 (toEuler sqrt small ⟨1, 0, 0, 1⟩ m).2.1
        (toEuler sqrt small ⟨1, 0, 0, 1⟩ m).2.2 m0) m := by
  change small (sqrt (m 1 1 * m 1 1 + m 2 1 * m 2 1)) = true at hs
  have hS := hsq (m 1 1) (m 2 1)
  generalize hsy : sqrt (m 1 1 * m 1 1 + m 2 1 * m 2 1) = sy at hs hS
  have sy0 : sy = 0 := by
    have : sy * sy = 0 := by rw [hS, z1, z2]; ring
    exact mul_self_eq_zero.mp this
  subst sy0
  have s0 : sqrt 0 = 0 := by
    have := hsy; rw [z1, z2] at this; simpa using this
  have ex : atan2SC sqrt (-m 2 0) (m 2 2) = ⟨-m 2 0 / 1, m 2 2 / 1⟩ :=
    atan2SC_eq sqrt _ _ 1 ((congrArg sqrt (by linear_combination (1) * h.r22 + (-m 2 1) * z2)).trans h1) one_ne_zero
  have ey : atan2SC sqrt (-m 0 1) 0 = ⟨-m 0 1 / 1, 0 / 1⟩ :=
    atan2SC_eq sqrt _ _ 1 ((congrArg sqrt (by linear_combination (1) * h.c11 + (-m 1 1) * z1 + (-m 2 1) * z2)).trans h1) one_ne_zero
  have d00 : m 0 0 = 0 := by
    linear_combination (-1) * h.f00 + (m 2 2) * z1 + (-m 1 2) * z2
  have d02 : m 0 2 = 0 := by
    linear_combination (-1) * h.f02 + (-m 2 0) * z1 + (m 1 0) * z2
  have d10 : -m 1 0 - m 0 1 * m 2 2 = 0 := by
    linear_combination (-m 2 0) * h.r12 + (m 1 0) * h.r22 + (m 2 2) * h.f01 + (-m 2 1) * h.f02 + (-m 0 2) * z2
  have d12 : -m 1 2 + m 0 1 * m 2 0 = 0 := by
    linear_combination (-m 2 2) * h.r12 + (m 1 2) * h.r22 + (m 2 1) * h.f00 + (-m 2 0) * h.f01 + (m 0 0) * z2
  refine forall_lt3_2 ⟨?_, ?_, ?_, ?_, ?_, ?_, ?_, ?_, ?_⟩ <;>
    simp [toEuler, fromEuler, eulerIJK, nextAxis, Mat.set, SC.neg, hsy, s0, hs, ex, ey, z1, z2]
  all_goals first
    | linear_combination d00
    | linear_combination -d00
    | linear_combination d02
    | linear_combination -d02
    | linear_combination d10
    | linear_combination -d10
    | linear_combination d12
    | linear_combination -d12

theorem to_euler_gimbal_row_ryzy (sqrt : K → K) (small : K → Bool) (m : Mat K) (h : SO3 m) (m0 : Mat K)
    (hsq : ∀ x y : K, sqrt (x * x + y * y) * sqrt (x * x + y * y) = x * x + y * y) (h1 : sqrt 1 = 1)
    (hs : small (eulerPivot sqrt ⟨1, 0, 1, 1⟩ m) = true) (z1 : m 1 2 = 0) (z2 : m 1 0 = 0) :
    Eq3 (fromEuler ⟨1, 0, 1, 1⟩ (toEuler sqrt small ⟨1, 0, 1, 1⟩ m).1 (toEuler sqrt small ⟨1, 0, 1, 1⟩ m).2.1
        (toEuler sqrt small ⟨1, 0, 1, 1⟩ m).2.2 m0) m := by
  change small (sqrt (m 1 2 * m 1 2 + m 1 0 * m 1 0)) = true at hs
  have hS := hsq (m 1 2) (m 1 0)
  generalize hsy : sqrt (m 1 2 * m 1 2 + m 1 0 * m 1 0) = sy at hs hS
  have sy0 : sy = 0 := by
    have : sy * sy = 0 := by rw [hS, z1, z2]; ring
    exact mul_self_eq_zero.mp this
  subst sy0
  have s0 : sqrt 0 = 0 := by
    have := hsy; rw [z1, z2] at this; simpa using this
  have ex : atan2SC sqrt (-m 2 0) (m 2 2) = ⟨-m 2 0 / 1, m 2 2 / 1⟩ :=
    atan2SC_eq sqrt _ _ 1 ((congrArg sqrt (by linear_combination (-m 2 2^2) * h.r11 + (m 1 2 * m 2 2) * h.r12 + (1) * h.c00 + (m 1 1 * m 2 2 + m 0 0) * h.f00 + (-m 1 0 * m 2 2) * h.f01 + (m 0 0 * m 2 1) * z1 + (-m 1 0 - m 0 1 * m 2 2) * z2)).trans h1) one_ne_zero
  have ey : atan2SC sqrt 0 (m 1 1) = ⟨0 / 1, m 1 1 / 1⟩ :=
    atan2SC_eq sqrt _ _ 1 ((congrArg sqrt (by linear_combination (1) * h.r11 + (-m 1 2) * z1 + (-m 1 0) * z2)).trans h1) one_ne_zero
  have d00 : m 1 1 * m 2 2 - m 0 0 = 0 := by
    linear_combination (1) * h.f00 + (m 2 1) * z1
  have d01 : m 0 1 = 0 := by
    linear_combination (-1) * h.f01 + (m 2 0) * z1 + (-m 2 2) * z2
  have d02 : -m 1 1 * m 2 0 - m 0 2 = 0 := by
    linear_combination (1) * h.f02 + (-m 2 1) * z2
  have d21 : m 2 1 = 0 := by
    linear_combination (-m 2 1) * h.r11 + (m 1 1) * h.r12 + (-m 1 2) * h.f00 + (m 1 0) * h.f02 + (-m 0 0) * z1 + (m 0 2) * z2
  refine forall_lt3_2 ⟨?_, ?_, ?_, ?_, ?_, ?_, ?_, ?_, ?_⟩ <;>
    simp [toEuler, fromEuler, eulerIJK, nextAxis, Mat.set, SC.neg, hsy, s0, hs, ex, ey, z1, z2]
  all_goals first
    | linear_combination d00
    | linear_combination -d00
    | linear_combination d01
    | linear_combination -d01
    | linear_combination d02
    | linear_combination -d02
    | linear_combination d21
    | linear_combination -d21

theorem to_euler_gimbal_row_rzxy (sqrt : K → K) (small : K → Bool) (m : Mat K) (h : SO3 m) (m0 : Mat K)
    (hsq : ∀ x y : K, sqrt (x * x + y * y) * sqrt (x * x + y * y) = x * x + y * y) (h1 : sqrt 1 = 1)
    (hs : small (eulerPivot sqrt ⟨1, 1, 0, 1⟩ m) = true) (z1 : m 1 1 = 0) (z2 : m 0 1 = 0) :
    Eq3 (fromEuler ⟨1, 1, 0, 1⟩ (toEuler sqrt small ⟨1, 1, 0, 1⟩ m).1 (toEuler sqrt small ⟨1, 1, 0, 1⟩ m).2.1
        (toEuler sqrt small ⟨1, 1, 0, 1⟩ m).2.2 m0) m := by
  change small (sqrt (m 1 1 * m 1 1 + m 0 1 * m 0 1)) = true at hs
  have hS := hsq (m 1 1) (m 0 1)
  generalize hsy : sqrt (m 1 1 * m 1 1 + m 0 1 * m 0 1) = sy at hs hS
  have sy0 : sy = 0 := by
    have : sy * sy = 0 := by rw [hS, z1, z2]; ring
    exact mul_self_eq_zero.mp this
  subst sy0
  have s0 : sqrt 0 = 0 := by
    have := hsy; rw [z1, z2] at this; simpa using this
  have ex : atan2SC sqrt (-m 0 2) (m 0 0) = ⟨-m 0 2 / 1, m 0 0 / 1⟩ :=
    atan2SC_eq sqrt _ _ 1 ((congrArg sqrt (by linear_combination (1) * h.r00 + (-m 0 1) * z2)).trans h1) one_ne_zero
  have ey : atan2SC sqrt (-m 2 1) 0 = ⟨-m 2 1 / 1, 0 / 1⟩ :=
    atan2SC_eq sqrt _ _ 1 ((congrArg sqrt (by linear_combination (1) * h.c11 + (-m 1 1) * z1 + (-m 0 1) * z2)).trans h1) one_ne_zero
  have d10 : -m 1 0 + m 0 2 * m 2 1 = 0 := by
    linear_combination (-m 2 0) * h.r12 + (m 1 0) * h.r22 + (m 2 2) * h.f01 + (-m 2 1) * h.f02 + (m 2 2) * z2
  have d12 : -m 1 2 - m 0 0 * m 2 1 = 0 := by
    linear_combination (-m 2 2) * h.r12 + (m 1 2) * h.r22 + (m 2 1) * h.f00 + (-m 2 0) * h.f01 + (-m 2 0) * z2
  have d20 : m 2 0 = 0 := by
    linear_combination (-m 2 0) * h.r11 + (m 1 0) * h.r12 + (m 1 2) * h.f01 + (-m 1 1) * h.f02 + (-m 0 2) * z1 + (m 1 2) * z2
  have d22 : m 2 2 = 0 := by
    linear_combination (-m 2 2) * h.r11 + (m 1 2) * h.r12 + (m 1 1) * h.f00 + (-m 1 0) * h.f01 + (m 0 0) * z1 + (-m 1 0) * z2
  refine forall_lt3_2 ⟨?_, ?_, ?_, ?_, ?_, ?_, ?_, ?_, ?_⟩ <;>
    simp [toEuler, fromEuler, eulerIJK, nextAxis, Mat.set, SC.neg, hsy, s0, hs, ex, ey, z1, z2]
  all_goals first
    | linear_combination d10
    | linear_combination -d10
    | linear_combination d12
    | linear_combination -d12
    | linear_combination d20
    | linear_combination -d20
    | linear_combination d22
    | linear_combination -d22

theorem to_euler_gimbal_row_ryxy (sqrt : K → K) (small : K → Bool) (m : Mat K) (h : SO3 m) (m0 : Mat K)
    (hsq : ∀ x y : K, sqrt (x * x + y * y) * sqrt (x * x + y * y) = x * x + y * y) (h1 : sqrt 1 = 1)
    (hs : small (eulerPivot sqrt ⟨1, 1, 1, 1⟩ m) = true) (z1 : m 1 0 = 0) (z2 : m 1 2 = 0) :
    Eq3 (fromEuler ⟨1, 1, 1, 1⟩ (toEuler sqrt small ⟨1, 1, 1, 1⟩ m).1 (toEuler sqrt small ⟨1, 1, 1, 1⟩ m).2.1
        (toEuler sqrt small ⟨1, 1, 1, 1⟩ m).2.2 m0) m := by
  change small (sqrt (m 1 0 * m 1 0 + m 1 2 * m 1 2)) = true at hs
  have hS := hsq (m 1 0) (m 1 2)
  generalize hsy : sqrt (m 1 0 * m 1 0 + m 1 2 * m 1 2) = sy at hs hS
  have sy0 : sy = 0 := by
    have : sy * sy = 0 := by rw [hS, z1, z2]; ring
    exact mul_self_eq_zero.mp this
  subst sy0
  have s0 : sqrt 0 = 0 := by
    have := hsy; rw [z1, z2] at this; simpa using this
  have ex : atan2SC sqrt (-m 0 2) (m 0 0) = ⟨-m 0 2 / 1, m 0 0 / 1⟩ :=
    atan2SC_eq sqrt _ _ 1 ((congrArg sqrt (by linear_combination (1 - m 2 2^2 - m 1 2^2) * h.r00 + (m 0 2 * m 1 2 - m 0 1 * m 1 1 - m 0 0 * m 1 0) * h.r01 + (m 0 2 * m 2 2 - m 0 1 * m 2 1 - m 0 0 * m 2 0) * h.r02 + (m 0 1^2 + m 0 0^2) * h.r11 + (-m 1 1 * m 2 1 - m 1 0 * m 2 0) * h.r12 + (-1 + m 1 1^2 + m 1 0^2 + m 0 1^2 + m 0 0^2) * h.r22 + (1 - m 2 1^2 - m 1 1^2 - m 0 1^2) * h.c00 + (m 2 0 * m 2 1 + m 1 0 * m 1 1 + m 0 0 * m 0 1) * h.c01 + (-m 1 1 * m 2 2 - m 0 0) * h.f00 + (m 1 0 * m 2 2) * h.f01 + (m 0 1 * m 2 2) * z1 + (-m 1 2 - m 0 0 * m 2 1) * z2)).trans h1) one_ne_zero
  have ey : atan2SC sqrt 0 (m 1 1) = ⟨0 / 1, m 1 1 / 1⟩ :=
    atan2SC_eq sqrt _ _ 1 ((congrArg sqrt (by linear_combination (1) * h.r11 + (-m 1 0) * z1 + (-m 1 2) * z2)).trans h1) one_ne_zero
  have d01 : m 0 1 = 0 := by
    linear_combination (-1) * h.f01 + (-m 2 2) * z1 + (m 2 0) * z2
  have d20 : -m 2 0 - m 0 2 * m 1 1 = 0 := by
    linear_combination (m 2 0) * h.r11 + (-m 1 0) * h.r12 + (-m 1 2) * h.f01 + (m 1 1) * h.f02 + (-m 0 1) * z2
  have d21 : m 2 1 = 0 := by
    linear_combination (-m 2 1) * h.r11 + (m 1 1) * h.r12 + (-m 1 2) * h.f00 + (m 1 0) * h.f02 + (m 0 2) * z1 + (-m 0 0) * z2
  have d22 : -m 2 2 + m 0 0 * m 1 1 = 0 := by
    linear_combination (m 2 2) * h.r11 + (-m 1 2) * h.r12 + (-m 1 1) * h.f00 + (m 1 0) * h.f01 + (m 0 1) * z1
  refine forall_lt3_2 ⟨?_, ?_, ?_, ?_, ?_, ?_, ?_, ?_, ?_⟩ <;>
    simp [toEuler, fromEuler, eulerIJK, nextAxis, Mat.set, SC.neg, hsy, s0, hs, ex, ey, z1, z2]
  all_goals first
    | linear_combination d01
    | linear_combination -d01
    | linear_combination d20
    | linear_combination -d20
    | linear_combination d21
    | linear_combination -d21
    | linear_combination d22
    | linear_combination -d22

theorem to_euler_gimbal_row_ryxz (sqrt : K → K) (small : K → Bool) (m : Mat K) (h : SO3 m) (m0 : Mat K)
    (hsq : ∀ x y : K, sqrt (x * x + y * y) * sqrt (x * x + y * y) = x * x + y * y) (h1 : sqrt 1 = 1)
    (hs : small (eulerPivot sqrt ⟨2, 0, 0, 1⟩ m) = true) (z1 : m 2 2 = 0) (z2 : m 0 2 = 0) :
    Eq3 (fromEuler ⟨2, 0, 0, 1⟩ (toEuler sqrt small ⟨2, 0, 0, 1⟩ m).1 (toEuler sqrt small ⟨2, 0, 0, 1⟩ m).2.1
        (toEuler sqrt small ⟨2, 0, 0, 1⟩ m).2.2 m0) m := by
  change small (sqrt (m 2 2 * m 2 2 + m 0 2 * m 0 2)) = true at hs
  have hS := hsq (m 2 2) (m 0 2)
  generalize hsy : sqrt (m 2 2 * m 2 2 + m 0 2 * m 0 2) = sy at hs hS
  have sy0 : sy = 0 := by
    have : sy * sy = 0 := by rw [hS, z1, z2]; ring
    exact mul_self_eq_zero.mp this
  subst sy0
  have s0 : sqrt 0 = 0 := by
    have := hsy; rw [z1, z2] at this; simpa using this
  have ex : atan2SC sqrt (-m 0 1) (m 0 0) = ⟨-m 0 1 / 1, m 0 0 / 1⟩ :=
    atan2SC_eq sqrt _ _ 1 ((congrArg sqrt (by linear_combination (1) * h.r00 + (-m 0 2) * z2)).trans h1) one_ne_zero
  have ey : atan2SC sqrt (-m 1 2) 0 = ⟨-m 1 2 / 1, 0 / 1⟩ :=
    atan2SC_eq sqrt _ _ 1 ((congrArg sqrt (by linear_combination (1) * h.r00 + (1) * h.r11 + (1) * h.r22 + (-1) * h.c00 + (-1) * h.c11 + (-m 2 2) * z1 + (-m 0 2) * z2)).trans h1) one_ne_zero
  have d10 : m 1 0 = 0 := by
    linear_combination (m 2 0) * h.r12 + (-m 1 0) * h.r22 + (-m 2 2) * h.f01 + (m 2 1) * h.f02 + (-m 0 1) * z1 + (m 2 1) * z2
  have d11 : m 1 1 = 0 := by
    linear_combination (m 2 1) * h.r12 + (-m 1 1) * h.r22 + (m 2 2) * h.f00 + (-m 2 0) * h.f02 + (m 0 0) * z1 + (-m 2 0) * z2
  have d20 : -m 2 0 + m 0 1 * m 1 2 = 0 := by
    linear_combination (m 2 0) * h.r11 + (-m 1 0) * h.r12 + (-m 1 2) * h.f01 + (m 1 1) * h.f02 + (m 1 1) * z2
  have d21 : -m 2 1 - m 0 0 * m 1 2 = 0 := by
    linear_combination (m 2 1) * h.r11 + (-m 1 1) * h.r12 + (m 1 2) * h.f00 + (-m 1 0) * h.f02 + (-m 1 0) * z2
  refine forall_lt3_2 ⟨?_, ?_, ?_, ?_, ?_, ?_, ?_, ?_, ?_⟩ <;>
    simp [toEuler, fromEuler, eulerIJK, nextAxis, Mat.set, SC.neg, hsy, s0, hs, ex, ey, z1, z2]
  all_goals first
    | linear_combination d10
    | linear_combination -d10
    | linear_combination d11
    | linear_combination -d11
    | linear_combination d20
    | linear_combination -d20
    | linear_combination d21
    | linear_combination -d21

theorem to_euler_gimbal_row_rzxz (sqrt : K → K) (small : K → Bool) (m : Mat K) (h : SO3 m) (m0 : Mat K)
    (hsq : ∀ x y : K, sqrt (x * x + y * y) * sqrt (x * x + y * y) = x * x + y * y) (h1 : sqrt 1 = 1)
    (hs : small (eulerPivot sqrt ⟨2, 0, 1, 1⟩ m) = true) (z1 : m 2 0 = 0) (z2 : m 2 1 = 0) :
    Eq3 (fromEuler ⟨2, 0, 1, 1⟩ (toEuler sqrt small ⟨2, 0, 1, 1⟩ m).1 (toEuler sqrt small ⟨2, 0, 1, 1⟩ m).2.1
        (toEuler sqrt small ⟨2, 0, 1, 1⟩ m).2.2 m0) m := by
  change small (sqrt (m 2 0 * m 2 0 + m 2 1 * m 2 1)) = true at hs
  have hS := hsq (m 2 0) (m 2 1)
  generalize hsy : sqrt (m 2 0 * m 2 0 + m 2 1 * m 2 1) = sy at hs hS
  have sy0 : sy = 0 := by
    have : sy * sy = 0 := by rw [hS, z1, z2]; ring
    exact mul_self_eq_zero.mp this
  subst sy0
  have s0 : sqrt 0 = 0 := by
    have := hsy; rw [z1, z2] at this; simpa using this
  have ex : atan2SC sqrt (-m 0 1) (m 0 0) = ⟨-m 0 1 / 1, m 0 0 / 1⟩ :=
    atan2SC_eq sqrt _ _ 1 ((congrArg sqrt (by linear_combination (m 2 2^2) * h.r11 + (-m 1 2 * m 2 2) * h.r12 + (1) * h.r22 + (-m 1 1 * m 2 2 - m 0 0) * h.f00 + (m 1 0 * m 2 2 - m 0 1) * h.f01 + (-m 2 0 + m 0 1 * m 1 2) * z1 + (-m 2 1 - m 0 0 * m 1 2) * z2)).trans h1) one_ne_zero
  have ey : atan2SC sqrt 0 (m 2 2) = ⟨0 / 1, m 2 2 / 1⟩ :=
    atan2SC_eq sqrt _ _ 1 ((congrArg sqrt (by linear_combination (1) * h.r22 + (-m 2 0) * z1 + (-m 2 1) * z2)).trans h1) one_ne_zero
  have d02 : m 0 2 = 0 := by
    linear_combination (-1) * h.f02 + (-m 1 1) * z1 + (m 1 0) * z2
  have d10 : -m 1 0 - m 0 1 * m 2 2 = 0 := by
    linear_combination (-m 2 0) * h.r12 + (m 1 0) * h.r22 + (m 2 2) * h.f01 + (-m 2 1) * h.f02 + (-m 0 2) * z2
  have d11 : -m 1 1 + m 0 0 * m 2 2 = 0 := by
    linear_combination (-m 2 1) * h.r12 + (m 1 1) * h.r22 + (-m 2 2) * h.f00 + (m 2 0) * h.f02 + (m 0 2) * z1
  have d12 : m 1 2 = 0 := by
    linear_combination (m 2 2) * h.r12 + (-m 1 2) * h.r22 + (-m 2 1) * h.f00 + (m 2 0) * h.f01 + (m 0 1) * z1 + (-m 0 0) * z2
  refine forall_lt3_2 ⟨?_, ?_, ?_, ?_, ?_, ?_, ?_, ?_, ?_⟩ <;>
    simp [toEuler, fromEuler, eulerIJK, nextAxis, Mat.set, SC.neg, hsy, s0, hs, ex, ey, z1, z2]
  all_goals first
    | linear_combination d02
    | linear_combination -d02
    | linear_combination d10
    | linear_combination -d10
    | linear_combination d11
    | linear_combination -d11
    | linear_combination d12
    | linear_combination -d12

theorem to_euler_gimbal_row_rxyz (sqrt : K → K) (small : K → Bool) (m : Mat K) (h : SO3 m) (m0 : Mat K)
    (hsq : ∀ x y : K, sqrt (x * x + y * y) * sqrt (x * x + y * y) = x * x + y * y) (h1 : sqrt 1 = 1)
    (hs : small (eulerPivot sqrt ⟨2, 1, 0, 1⟩ m) = true) (z1 : m 2 2 = 0) (z2 : m 1 2 = 0) :
    Eq3 (fromEuler ⟨2, 1, 0, 1⟩ (toEuler sqrt small ⟨2, 1, 0, 1⟩ m).1 (toEuler sqrt small ⟨2, 1, 0, 1⟩ m).2.1
        (toEuler sqrt small ⟨2, 1, 0, 1⟩ m).2.2 m0) m := by
  change small (sqrt (m 2 2 * m 2 2 + m 1 2 * m 1 2)) = true at hs
  have hS := hsq (m 2 2) (m 1 2)
  generalize hsy : sqrt (m 2 2 * m 2 2 + m 1 2 * m 1 2) = sy at hs hS
  have sy0 : sy = 0 := by
    have : sy * sy = 0 := by rw [hS, z1, z2]; ring
    exact mul_self_eq_zero.mp this
  subst sy0
  have s0 : sqrt 0 = 0 := by
    have := hsy; rw [z1, z2] at this; simpa using this
  have ex : atan2SC sqrt (-m 1 0) (m 1 1) = ⟨-m 1 0 / 1, m 1 1 / 1⟩ :=
    atan2SC_eq sqrt _ _ 1 ((congrArg sqrt (by linear_combination (1) * h.r11 + (-m 1 2) * z2)).trans h1) one_ne_zero
  have ey : atan2SC sqrt (-m 0 2) 0 = ⟨-m 0 2 / 1, 0 / 1⟩ :=
    atan2SC_eq sqrt _ _ 1 ((congrArg sqrt (by linear_combination (1) * h.r00 + (1) * h.r11 + (1) * h.r22 + (-1) * h.c00 + (-1) * h.c11 + (-m 2 2) * z1 + (-m 1 2) * z2)).trans h1) one_ne_zero
  have d00 : m 0 0 = 0 := by
    linear_combination (-1) * h.f00 + (m 1 1) * z1 + (-m 2 1) * z2
  have d01 : m 0 1 = 0 := by
    linear_combination (-1) * h.f01 + (-m 1 0) * z1 + (m 2 0) * z2
  have d20 : -m 2 0 - m 0 2 * m 1 1 = 0 := by
    linear_combination (m 2 0) * h.r11 + (-m 1 0) * h.r12 + (-m 1 2) * h.f01 + (m 1 1) * h.f02 + (-m 0 1) * z2
  have d21 : -m 2 1 + m 0 2 * m 1 0 = 0 := by
    linear_combination (m 2 1) * h.r11 + (-m 1 1) * h.r12 + (m 1 2) * h.f00 + (-m 1 0) * h.f02 + (m 0 0) * z2
  refine forall_lt3_2 ⟨?_, ?_, ?_, ?_, ?_, ?_, ?_, ?_, ?_⟩ <;>
    simp [toEuler, fromEuler, eulerIJK, nextAxis, Mat.set, SC.neg, hsy, s0, hs, ex, ey, z1, z2]
  all_goals first
    | linear_combination d00
    | linear_combination -d00
    | linear_combination d01
    | linear_combination -d01
    | linear_combination d20
    | linear_combination -d20
    | linear_combination d21
    | linear_combination -d21

theorem to_euler_gimbal_row_rzyz (sqrt : K → K) (small : K → Bool) (m : Mat K) (h : SO3 m) (m0 : Mat K)
    (hsq : ∀ x y : K, sqrt (x * x + y * y) * sqrt (x * x + y * y) = x * x + y * y) (h1 : sqrt 1 = 1)
    (hs : small (eulerPivot sqrt ⟨2, 1, 1, 1⟩ m) = true) (z1 : m 2 1 = 0) (z2 : m 2 0 = 0) :
    Eq3 (fromEuler ⟨2, 1, 1, 1⟩ (toEuler sqrt small ⟨2, 1, 1, 1⟩ m).1 (toEuler sqrt small ⟨2, 1, 1, 1⟩ m).2.1
        (toEuler sqrt small ⟨2, 1, 1, 1⟩ m).2.2 m0) m := by
  change small (sqrt (m 2 1 * m 2 1 + m 2 0 * m 2 0)) = true at hs
  have hS := hsq (m 2 1) (m 2 0)
  generalize hsy : sqrt (m 2 1 * m 2 1 + m 2 0 * m 2 0) = sy at hs hS
  have sy0 : sy = 0 := by
    have : sy * sy = 0 := by rw [hS, z1, z2]; ring
    exact mul_self_eq_zero.mp this
  subst sy0
  have s0 : sqrt 0 = 0 := by
    have := hsy; rw [z1, z2] at this; simpa using this
  have ex : atan2SC sqrt (-m 1 0) (m 1 1) = ⟨-m 1 0 / 1, m 1 1 / 1⟩ :=
    atan2SC_eq sqrt _ _ 1 ((congrArg sqrt (by linear_combination (m 2 2^2 + m 1 2^2) * h.r00 + (-m 0 2 * m 1 2 + m 0 1 * m 1 1 + m 0 0 * m 1 0) * h.r01 + (-m 0 2 * m 2 2 + m 0 1 * m 2 1 + m 0 0 * m 2 0) * h.r02 + (1 - m 0 1^2 - m 0 0^2) * h.r11 + (m 1 1 * m 2 1 + m 1 0 * m 2 0) * h.r12 + (1 - m 1 1^2 - m 1 0^2 - m 0 1^2 - m 0 0^2) * h.r22 + (-1 + m 2 1^2 + m 1 1^2 + m 0 1^2) * h.c00 + (-m 2 0 * m 2 1 - m 1 0 * m 1 1 - m 0 0 * m 0 1) * h.c01 + (m 1 1 * m 2 2 + m 0 0) * h.f00 + (-m 1 0 * m 2 2 + m 0 1) * h.f01 + (m 0 0 * m 1 2) * z1 + (-m 0 1 * m 1 2) * z2)).trans h1) one_ne_zero
  have ey : atan2SC sqrt 0 (m 2 2) = ⟨0 / 1, m 2 2 / 1⟩ :=
    atan2SC_eq sqrt _ _ 1 ((congrArg sqrt (by linear_combination (1) * h.r22 + (-m 2 1) * z1 + (-m 2 0) * z2)).trans h1) one_ne_zero
  have d00 : m 1 1 * m 2 2 - m 0 0 = 0 := by
    linear_combination (1) * h.f00 + (m 1 2) * z1
  have d01 : -m 1 0 * m 2 2 - m 0 1 = 0 := by
    linear_combination (1) * h.f01 + (-m 1 2) * z2
  have d02 : m 0 2 = 0 := by
    linear_combination (-1) * h.f02 + (m 1 0) * z1 + (-m 1 1) * z2
  have d12 : m 1 2 = 0 := by
    linear_combination (m 2 2) * h.r12 + (-m 1 2) * h.r22 + (-m 2 1) * h.f00 + (m 2 0) * h.f01 + (-m 0 0) * z1 + (m 0 1) * z2
  refine forall_lt3_2 ⟨?_, ?_, ?_, ?_, ?_, ?_, ?_, ?_, ?_⟩ <;>
    simp [toEuler, fromEuler, eulerIJK, nextAxis, Mat.set, SC.neg, hsy, s0, hs, ex, ey, z1, z2]
  all_goals first
    | linear_combination d00
    | linear_combination -d00
    | linear_combination d01
    | linear_combination -d01
    | linear_combination d02
    | linear_combination -d02
    | linear_combination d12
    | linear_combination -d12

end PMV.Algebra
