import PMV.Core.Shape
/-
  Broadcast lemmas on `PMV.Core.Shape` (core Lean only; no Mathlib).

  * `bcastRev_spec`  : the loop of `Qube.broadcasted_shape` (`bcastRev`) equals NumPy's rule stated
                       independently (axis by axis from the right, missing axes count as 1).
  * `bcastRev_comm`, `bcast_comm`, `bcastRev_assoc`, `bcast_assoc`.
  * `bidx_valid`     : an index valid for the broadcast shape projects to a valid operand index.
  * `bidx_append`, `bidx_self`, `align_lemma` : trailing-1 reshape followed by full NumPy broadcasting is
                       leading-axis-only broadcasting.
  * `bcast_append`   : broadcasting `s ++ t` against `s' ++ u` with `|t| = |u|` splits into the leading and the
                       item part.
  No statement bounds the rank or the axis lengths.
-/
namespace PMV

/-! ### reversed forms -/

theorem bcastRev_nil_right (xs : List Nat) : bcastRev xs [] = some xs := by
  cases xs <;> rfl

theorem bcastRev_comm (xs ys : List Nat) : bcastRev xs ys = bcastRev ys xs := by
  induction xs generalizing ys with
  | nil => simp [bcastRev, bcastRev_nil_right]
  | cons x xs ih =>
    cases ys with
    | nil => simp [bcastRev]
    | cons y ys =>
      simp only [bcastRev, ih ys]
      cases bcastRev ys xs with
      | none => rfl
      | some r =>
        by_cases h1 : x = y
        · subst h1; simp
        · have h2 : ¬ y = x := fun h => h1 h.symm
          by_cases hx : x = 1 <;> by_cases hy : y = 1 <;> simp [h1, h2, hx, hy]
          omega

/-- NumPy's broadcasting rule, stated independently of the loop: the result has the rank of the longer shape and,
    counting axes from the right with missing axes read as 1, every pair of lengths is equal or contains a 1, and the
    result length is the one that is not 1. -/
def NpRule (xs ys r : List Nat) : Prop :=
  r.length = max xs.length ys.length ∧
  ∀ k, (xs.getD k 1 = ys.getD k 1 ∨ xs.getD k 1 = 1 ∨ ys.getD k 1 = 1) ∧
       r.getD k 1 = if xs.getD k 1 = 1 then ys.getD k 1 else xs.getD k 1

theorem getD_cons_succ (x : Nat) (xs : List Nat) (k : Nat) : (x :: xs).getD (k + 1) 1 = xs.getD k 1 := by
  simp [List.getD]

theorem getD_cons_zero (x : Nat) (xs : List Nat) : (x :: xs).getD 0 1 = x := by
  simp [List.getD]

theorem getD_nil (k : Nat) : ([] : List Nat).getD k 1 = 1 := by
  simp [List.getD]

theorem npRule_nil_left (ys r : List Nat) : NpRule [] ys r ↔ r = ys := by
  constructor
  · rintro ⟨hl, h⟩
    apply List.ext_getElem
    · simpa using hl
    · intro k h1 h2
      have := (h k).2
      simp only [getD_nil, if_true] at this
      simp only [List.getD_eq_getElem?_getD, List.getElem?_eq_getElem h1, List.getElem?_eq_getElem h2,
        Option.getD_some] at this
      exact this
  · rintro rfl
    refine ⟨by simp, fun k => ⟨?_, ?_⟩⟩
    · right; left; exact getD_nil k
    · simp [getD_nil]

theorem npRule_nil_right (xs r : List Nat) : NpRule xs [] r ↔ r = xs := by
  constructor
  · rintro ⟨hl, h⟩
    apply List.ext_getElem
    · simpa using hl
    · intro k h1 h2
      have := (h k).2
      simp only [getD_nil] at this
      simp only [List.getD_eq_getElem?_getD, List.getElem?_eq_getElem h1, List.getElem?_eq_getElem h2,
        Option.getD_some] at this
      split at this
      · rename_i h3; rw [this, h3]
      · exact this
  · rintro rfl
    refine ⟨by simp, fun k => ⟨?_, ?_⟩⟩
    · right; right; exact getD_nil k
    · simp only [getD_nil]; split
      · rename_i h3; exact h3
      · rfl

theorem npRule_cons (x y : Nat) (xs ys r : List Nat) :
    NpRule (x :: xs) (y :: ys) r ↔
      ∃ z r', r = z :: r' ∧ (x = y ∨ x = 1 ∨ y = 1) ∧ z = (if x = 1 then y else x) ∧ NpRule xs ys r' := by
  constructor
  · rintro ⟨hl, h⟩
    cases r with
    | nil => simp at hl
    | cons z r' =>
      refine ⟨z, r', rfl, ?_, ?_, ?_, ?_⟩
      · simpa [getD_cons_zero] using (h 0).1
      · simpa [getD_cons_zero] using (h 0).2
      · simp at hl; omega
      · intro k
        have := h (k + 1)
        simpa only [getD_cons_succ] using this
  · rintro ⟨z, r', rfl, h0, hz, hl, h⟩
    refine ⟨by simp; omega, fun k => ?_⟩
    cases k with
    | zero => simp only [getD_cons_zero]; exact ⟨h0, hz⟩
    | succ k => simp only [getD_cons_succ]; exact h k

/-- the per-axis step of the loop -/
def axisRule (x y : Nat) : Option Nat :=
  if x = y then some x else if x = 1 then some y else if y = 1 then some x else none

theorem axisRule_iff (x y z : Nat) :
    axisRule x y = some z ↔ (x = y ∨ x = 1 ∨ y = 1) ∧ z = (if x = 1 then y else x) := by
  unfold axisRule
  grind

/-- prepend an axis result to a shape result -/
def consO (a : Option Nat) (r : Option (List Nat)) : Option (List Nat) :=
  match r, a with
  | some r, some z => some (z :: r)
  | _, _ => none

theorem bcastRev_cons (x y : Nat) (xs ys : List Nat) :
    bcastRev (x :: xs) (y :: ys) = consO (axisRule x y) (bcastRev xs ys) := by
  simp only [bcastRev, axisRule, consO]
  cases bcastRev xs ys with
  | none => rfl
  | some r => grind

theorem axisRule_one_left (y : Nat) : axisRule 1 y = some y := by unfold axisRule; grind
theorem axisRule_one_right (x : Nat) : axisRule x 1 = some x := by unfold axisRule; grind
theorem axisRule_ne_one (a b : Nat) (ha : a ≠ 1) (hb : b ≠ 1) :
    axisRule a b = if a = b then some a else none := by unfold axisRule; grind

theorem axisRule_assoc (x y z : Nat) :
    (axisRule x y).bind (fun r => axisRule r z) = (axisRule y z).bind (fun r => axisRule x r) := by
  by_cases hx : x = 1
  · subst hx
    simp only [axisRule_one_left, Option.bind_some]
    cases axisRule y z <;> simp [axisRule_one_left]
  · by_cases hy : y = 1
    · subst hy; simp [axisRule_one_left, axisRule_one_right]
    · by_cases hz : z = 1
      · subst hz
        simp only [axisRule_one_right, Option.bind_some]
        cases axisRule x y <;> simp [axisRule_one_right]
      · rw [axisRule_ne_one x y hx hy, axisRule_ne_one y z hy hz]
        by_cases hxy : x = y
        · subst hxy
          by_cases hyz : x = z
          · subst hyz; simp [axisRule_ne_one x x hx hx]
          · simp [hyz, axisRule_ne_one x z hx hz]
        · by_cases hyz : y = z
          · subst hyz; simp [hxy, axisRule_ne_one x y hx hy]
          · simp [hxy, hyz]

/-- `bcastRev` (the loop of `Qube.broadcasted_shape`) computes exactly NumPy's rule; it fails exactly when no
    shape satisfies the rule. -/
theorem bcastRev_spec (xs ys r : List Nat) : bcastRev xs ys = some r ↔ NpRule xs ys r := by
  induction xs generalizing ys r with
  | nil => simp [bcastRev, npRule_nil_left, eq_comm]
  | cons x xs ih =>
    cases ys with
    | nil => simp [bcastRev, npRule_nil_right, eq_comm]
    | cons y ys =>
      rw [npRule_cons, bcastRev_cons]
      constructor
      · intro h
        cases hb : bcastRev xs ys with
        | none => rw [hb] at h; cases h
        | some r0 =>
          cases ha : axisRule x y with
          | none => rw [hb, ha] at h; cases h
          | some z =>
            rw [hb, ha] at h
            simp only [consO, Option.some.injEq] at h
            have := (axisRule_iff x y z).1 ha
            exact ⟨z, r0, h.symm, this.1, this.2, (ih ys r0).1 hb⟩
      · rintro ⟨z, r', rfl, hc, hz, h⟩
        rw [(ih ys r').2 h, (axisRule_iff x y z).2 ⟨hc, hz⟩]; rfl

theorem bcastRev_none_iff (xs ys : List Nat) : bcastRev xs ys = none ↔ ∀ r, ¬ NpRule xs ys r := by
  constructor
  · intro h r hr
    rw [(bcastRev_spec xs ys r).2 hr] at h; cases h
  · intro h
    cases hb : bcastRev xs ys with
    | none => rfl
    | some r => exact absurd ((bcastRev_spec xs ys r).1 hb) (h r)

theorem bcastRev_length {xs ys r : List Nat} (h : bcastRev xs ys = some r) :
    r.length = max xs.length ys.length := ((bcastRev_spec xs ys r).1 h).1

/-- splitting a broadcast at equal-length prefixes (reversed form: the prefixes are the innermost axes) -/
theorem bcastRev_append (t u s s' : List Nat) (h : t.length = u.length) :
    bcastRev (t ++ s) (u ++ s') =
      match bcastRev t u, bcastRev s s' with
      | some m, some l => some (m ++ l)
      | _, _ => none := by
  induction t generalizing u with
  | nil =>
    cases u with
    | nil => simp only [List.nil_append, bcastRev]; cases bcastRev s s' <;> rfl
    | cons _ _ => simp at h
  | cons x t ih =>
    cases u with
    | nil => simp at h
    | cons y u =>
      have hl : t.length = u.length := by simpa using h
      simp only [List.cons_append, bcastRev_cons, ih u hl]
      cases bcastRev t u <;> cases bcastRev s s' <;> cases axisRule x y <;> rfl

theorem bcastRev_self (t : List Nat) : bcastRev t t = some t := by
  induction t with
  | nil => rfl
  | cons x t ih =>
    have : axisRule x x = some x := by unfold axisRule; simp
    simp [bcastRev_cons, ih, this, consO]

theorem bcastRev_ones_right (t : List Nat) : bcastRev t (List.replicate t.length 1) = some t := by
  induction t with
  | nil => rfl
  | cons x t ih =>
    simp only [List.length_cons, List.replicate_succ, bcastRev_cons, ih, axisRule_one_right]; rfl

theorem bcastRev_ones_left (t : List Nat) : bcastRev (List.replicate t.length 1) t = some t := by
  rw [bcastRev_comm]; exact bcastRev_ones_right t

theorem bcastRev_assoc (xs ys zs : List Nat) :
    (bcastRev xs ys).bind (fun r => bcastRev r zs) = (bcastRev ys zs).bind (fun r => bcastRev xs r) := by
  induction xs generalizing ys zs with
  | nil => simp only [bcastRev, Option.bind_some]; cases bcastRev ys zs <;> simp [bcastRev]
  | cons x xs ih =>
    cases ys with
    | nil => simp [bcastRev]
    | cons y ys =>
      cases zs with
      | nil =>
        simp only [bcastRev_nil_right, Option.bind_some]
        cases bcastRev (x :: xs) (y :: ys) <;> simp [bcastRev_nil_right]
      | cons z zs =>
        have e1 : ∀ (a : Option Nat) (r : Option (List Nat)),
            (consO a r).bind (fun l => bcastRev l (z :: zs)) =
              consO (a.bind (fun w => axisRule w z)) (r.bind (fun l => bcastRev l zs)) := by
          intro a r
          cases a <;> cases r <;> simp [consO, bcastRev_cons]
          all_goals (first | rfl | (cases bcastRev _ zs <;> rfl))
        have e2 : ∀ (b : Option Nat) (q : Option (List Nat)),
            (consO b q).bind (fun l => bcastRev (x :: xs) l) =
              consO (b.bind (fun w => axisRule x w)) (q.bind (fun l => bcastRev xs l)) := by
          intro b q
          cases b <;> cases q <;> simp [consO, bcastRev_cons]
          all_goals (first | rfl | (cases bcastRev xs _ <;> rfl))
        rw [bcastRev_cons, bcastRev_cons, e1, e2, ih ys zs, axisRule_assoc]

/-! ### index projection, reversed -/

theorem bidxRev_append (t s j i : List Nat) (h : j.length = t.length) :
    bidxRev (t ++ s) (j ++ i) = bidxRev t j ++ bidxRev s i := by
  induction t generalizing j with
  | nil =>
    cases j with
    | nil => cases s <;> simp [bidxRev]
    | cons _ _ => simp at h
  | cons n t ih =>
    cases j with
    | nil => simp at h
    | cons a j =>
      have hl : j.length = t.length := by simpa using h
      simp [bidxRev, ih j hl]

theorem bidxRev_ones (r : Nat) (j : List Nat) (h : j.length = r) :
    bidxRev (List.replicate r 1) j = List.replicate r 0 := by
  induction r generalizing j with
  | zero => simp [bidxRev]
  | succ r ih =>
    cases j with
    | nil => simp at h
    | cons a j =>
      have hl : j.length = r := by simpa using h
      simp [List.replicate_succ, bidxRev, ih j hl]

theorem bidxRev_length (s i : List Nat) : (bidxRev s i).length = min s.length i.length := by
  induction s generalizing i with
  | nil => simp [bidxRev]
  | cons n s ih =>
    cases i with
    | nil => simp [bidxRev]
    | cons a i => simp [bidxRev, ih i]

/-- validity on reversed lists -/
def ValidRev : List Nat → List Nat → Prop
  | [], [] => True
  | n :: s, i :: is => i < n ∧ ValidRev s is
  | _, _ => False

theorem validRev_length {s i : List Nat} (h : ValidRev s i) : i.length = s.length := by
  induction s generalizing i with
  | nil => cases i <;> simp_all [ValidRev]
  | cons n s ih =>
    cases i with
    | nil => simp [ValidRev] at h
    | cons a i => simp [ValidRev] at h; simp [ih h.2]

theorem valid_length {s : Shape} {i : Index} (h : Valid s i) : i.length = s.length := by
  induction s generalizing i with
  | nil => cases i <;> simp_all [Valid]
  | cons n s ih =>
    cases i with
    | nil => simp [Valid] at h
    | cons a i => simp [Valid] at h; simp [ih h.2]

theorem valid_append {s t : Shape} {i j : Index} (hi : i.length = s.length) :
    Valid (s ++ t) (i ++ j) ↔ Valid s i ∧ Valid t j := by
  induction s generalizing i with
  | nil =>
    cases i with
    | nil => simp [Valid]
    | cons _ _ => simp at hi
  | cons n s ih =>
    cases i with
    | nil => simp at hi
    | cons a i =>
      have hl : i.length = s.length := by simpa using hi
      simp [Valid, ih hl, and_assoc]

theorem validRev_append {s t i j : List Nat} (hi : i.length = s.length) :
    ValidRev (s ++ t) (i ++ j) ↔ ValidRev s i ∧ ValidRev t j := by
  induction s generalizing i with
  | nil =>
    cases i with
    | nil => simp [ValidRev]
    | cons _ _ => simp at hi
  | cons n s ih =>
    cases i with
    | nil => simp at hi
    | cons a i =>
      have hl : i.length = s.length := by simpa using hi
      simp [ValidRev, ih hl, and_assoc]

theorem validRev_iff_valid (s i : List Nat) : ValidRev s i ↔ Valid s i := by
  induction s generalizing i with
  | nil => cases i <;> simp [ValidRev, Valid]
  | cons n s ih => cases i <;> simp [ValidRev, Valid, ih]

theorem valid_reverse (s : Shape) (i : Index) : Valid s.reverse i.reverse ↔ Valid s i := by
  induction s generalizing i with
  | nil => cases i <;> simp [Valid]
  | cons n s ih =>
    cases i with
    | nil =>
      simp only [List.reverse_nil, List.reverse_cons, Valid, iff_false]
      intro h
      have := valid_length h
      simp at this
    | cons a i =>
      simp only [List.reverse_cons]
      by_cases hl : i.length = s.length
      · rw [valid_append (by simpa using hl), ih]
        simp [Valid, and_comm]
      · constructor
        · intro h
          have := valid_length h
          simp at this; omega
        · intro h
          have := valid_length h
          simp at this; omega

theorem bidxRev_self {t j : List Nat} (h : Valid t j) : bidxRev t j = j := by
  induction t generalizing j with
  | nil => cases j <;> simp_all [Valid, bidxRev]
  | cons n t ih =>
    cases j with
    | nil => simp [Valid] at h
    | cons a j =>
      simp only [Valid] at h
      simp only [bidxRev, ih h.2]
      split
      · rename_i h1; subst h1
        have : a = 0 := by omega
        rw [this]
      · rfl

/-- an index valid for the broadcast result projects onto a valid index of the left operand (reversed form) -/
theorem bidxRev_valid {xs ys r i : List Nat} (hb : bcastRev xs ys = some r) (hv : Valid r i) :
    Valid xs (bidxRev xs i) := by
  induction xs generalizing ys r i with
  | nil => simp [bidxRev, Valid]
  | cons x xs ih =>
    cases ys with
    | nil =>
      simp only [bcastRev, Option.some.injEq] at hb
      subst hb
      cases i with
      | nil => simp [Valid] at hv
      | cons a i =>
        simp only [Valid] at hv
        simp only [bidxRev, Valid]
        refine ⟨by split <;> omega, ?_⟩
        exact ih (ys := []) (bcastRev_nil_right xs) hv.2
    | cons y ys =>
      rw [bcastRev_cons] at hb
      cases h1 : bcastRev xs ys with
      | none => rw [h1] at hb; cases hb
      | some r0 =>
        cases ha : axisRule x y with
        | none => rw [h1, ha] at hb; cases hb
        | some z =>
          rw [h1, ha] at hb
          simp only [consO, Option.some.injEq] at hb
          subst hb
          have hz := (axisRule_iff x y z).1 ha
          cases i with
          | nil => simp [Valid] at hv
          | cons a i =>
            simp only [Valid] at hv
            simp only [bidxRev, Valid]
            refine ⟨?_, ih h1 hv.2⟩
            have h2 := hz.2
            split
            · omega
            · rename_i hx1
              rw [if_neg hx1] at h2
              omega

/-! ### statements on shapes in NumPy order -/

theorem bcast_comm (a b : Shape) : bcast a b = bcast b a := by
  simp [bcast, bcastRev_comm]

theorem bcast_assoc (a b c : Shape) :
    (bcast a b).bind (fun r => bcast r c) = (bcast b c).bind (fun r => bcast a r) := by
  have := bcastRev_assoc a.reverse b.reverse c.reverse
  simp only [bcast]
  cases h1 : bcastRev a.reverse b.reverse <;> cases h2 : bcastRev b.reverse c.reverse <;>
    simp_all [Option.bind, Option.map] <;>
    first
      | (cases h3 : bcastRev _ _ <;> simp_all)
      | skip

/-- **bcast_spec**: `bcast` equals NumPy's rule (axes counted from the right, missing axes read as 1) -/
theorem bcast_spec (a b r : Shape) : bcast a b = some r ↔ NpRule a.reverse b.reverse r.reverse := by
  rw [← bcastRev_spec]
  simp only [bcast, Option.map_eq_some_iff]
  constructor
  · rintro ⟨q, hq, rfl⟩; simpa using hq
  · intro h; exact ⟨r.reverse, h, by simp⟩

theorem bcast_length {a b r : Shape} (h : bcast a b = some r) : r.length = max a.length b.length := by
  have := ((bcast_spec a b r).1 h).1
  simpa using this

theorem bcast_nil_left (b : Shape) : bcast [] b = some b := by simp [bcast, bcastRev]
theorem bcast_nil_right (a : Shape) : bcast a [] = some a := by simp [bcast, bcastRev_nil_right]
theorem bcast_self (t : Shape) : bcast t t = some t := by simp [bcast, bcastRev_self]

theorem bcast_ones_right (t : Shape) : bcast t (List.replicate t.length 1) = some t := by
  have := bcastRev_ones_right t.reverse
  simp only [List.length_reverse] at this
  simp [bcast, this]

theorem bcast_ones_left (t : Shape) : bcast (List.replicate t.length 1) t = some t := by
  rw [bcast_comm]; exact bcast_ones_right t

/-- broadcasting `s ++ t` against `s' ++ u` with item parts of equal rank splits into leading part and item part -/
theorem bcast_append (s s' t u : Shape) (h : t.length = u.length) :
    bcast (s ++ t) (s' ++ u) =
      match bcast s s', bcast t u with
      | some l, some m => some (l ++ m)
      | _, _ => none := by
  simp only [bcast, List.reverse_append]
  rw [bcastRev_append _ _ _ _ (by simpa using h)]
  cases bcastRev t.reverse u.reverse <;> cases bcastRev s.reverse s'.reverse <;> simp

/-- **bidx_valid**: a valid index of the broadcast shape projects onto a valid index of the left operand -/
theorem bidx_valid {a b out : Shape} {i : Index} (hb : bcast a b = some out) (hv : Valid out i) :
    Valid a (bidx a i) := by
  simp only [bcast, Option.map_eq_some_iff] at hb
  obtain ⟨q, hq, rfl⟩ := hb
  have hv' : Valid q i.reverse := by
    have := (valid_reverse q.reverse i).2 hv
    simpa using this
  have := bidxRev_valid hq hv'
  simp only [bidx]
  exact (valid_reverse a (bidxRev a.reverse i.reverse).reverse).1 (by simpa using this)

theorem bidx_valid_right {a b out : Shape} {i : Index} (hb : bcast a b = some out) (hv : Valid out i) :
    Valid b (bidx b i) := bidx_valid (by rw [bcast_comm]; exact hb) hv

/-- projection splits at an item boundary: the last `|t|` index entries go to the last `|t|` axes -/
theorem bidx_append (s t : Shape) (i j : Index) (h : j.length = t.length) :
    bidx (s ++ t) (i ++ j) = bidx s i ++ bidx t j := by
  simp only [bidx, List.reverse_append]
  rw [bidxRev_append _ _ _ _ (by simpa using h)]
  simp

/-- on axes that belong to both operand and result (item axes) the projection is the identity -/
theorem bidx_self {t : Shape} {j : Index} (h : Valid t j) : bidx t j = j := by
  simp only [bidx]
  rw [bidxRev_self ((valid_reverse t j).2 h)]
  simp

theorem bidx_ones (r : Nat) (j : Index) (h : j.length = r) : bidx (List.replicate r 1) j = List.replicate r 0 := by
  simp only [bidx, List.reverse_replicate]
  rw [bidxRev_ones r _ (by simpa using h)]
  simp

theorem bidx_nil (i : Index) : bidx [] i = [] := by simp [bidx, bidxRev]

/-- **align_lemma**: reshaping an operand of shape `s` to `s ++ (1,)*r` and then broadcasting with full NumPy rules
    selects, for the result index `i ++ j` (`|j| = r`), the element that leading-axis-only broadcasting selects:
    the item part `j` of the index has no influence. Covers `s = []` and `|i| > |s|`. -/
theorem align_lemma (s : Shape) (r : Nat) (i j : Index) (h : j.length = r) :
    bidx (s ++ List.replicate r 1) (i ++ j) = bidx s i ++ List.replicate r 0 := by
  rw [bidx_append _ _ _ _ (by simpa using h), bidx_ones r j h]

theorem bidx_length_le (s : Shape) (i : Index) : (bidx s i).length = min s.length i.length := by
  simp [bidx, bidxRev_length]

end PMV
