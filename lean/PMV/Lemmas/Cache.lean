import PMV.Model.Cache
/-
  Helper development for C18: soundness of the abstract interpretation `absEvent` with respect to the
  state machine of `PMV/Model/Cache.lean`.  Core Lean only.
-/
namespace PMV.Cache

/-- the state is described by the abstract value: every entry that is present may be present, and
    every entry that differs from its recomputation is flagged stale in the right component -/
def Inv (s : St) (a : Abs) : Prop :=
  (∀ x, s.cache.anti = some x → a.pAnti = true ∧ (x ≠ s.core.m → a.dAnti = true)) ∧
  (∀ c, s.cache.corn = some c → a.pCorn = true ∧ (c ≠ s.core.freshCorn → a.dCorn = true)) ∧
  (∀ x, s.cache.slic = some x → a.pSlic = true ∧ (some x ≠ s.core.freshCorn → a.dSlic = true)) ∧
  (∀ e, s.cache.wod = some e → a.pWod = true ∧ (a.dWodV = false → e.vshared = true) ∧
        (a.dWodM = false → e.mshared = true ∨ e.m = s.core.m) ∧ (e.u ≠ s.core.u → a.dWodU = true) ∧
        (e.ro ≠ s.core.ro → a.dWodR = true)) ∧
  (∀ b, a.varr = some b → s.core.varr = b) ∧
  (a.roTrue = true → s.core.ro = true)

/-- the inductive invariant of histories: nothing stale, and a cached wod still shares its parent's arrays -/
def Good (s : St) : Prop := Inv s (Abs.start s.core.varr)

theorem good_cacheOK {s : St} (h : Good s) : CacheOK s := by
  obtain ⟨h1, h2, h3, h4, _, _⟩ := h
  refine ⟨?_, ?_, ?_, ?_⟩
  · intro x hx
    have := (h1 x hx).2
    by_cases e : x = s.core.m
    · exact e
    · exact absurd (this e) (by simp [Abs.start])
  · intro c hc
    have := (h2 c hc).2
    by_cases e : c = s.core.freshCorn
    · exact e
    · exact absurd (this e) (by simp [Abs.start])
  · intro x hx
    have := (h3 x hx).2
    by_cases e : some x = s.core.freshCorn
    · exact e
    · exact absurd (this e) (by simp [Abs.start])
  · intro e he
    obtain ⟨_, hv, hm, hu, hr⟩ := h4 e he
    have hv := hv (by simp [Abs.start])
    have hm := hm (by simp [Abs.start])
    have hm' : (match e.mshared with | true => s.core.m | false => e.m) = s.core.m := by
      cases hq : e.mshared with
      | true => rfl
      | false => simpa [hq] using hm
    have hu : e.u = s.core.u := by
      by_cases q : e.u = s.core.u
      · exact q
      · exact absurd (hu q) (by simp [Abs.start])
    have hr : e.ro = s.core.ro := by
      by_cases q : e.ro = s.core.ro
      · exact q
      · exact absurd (hr q) (by simp [Abs.start])
    simp only [WodE.answer, Core.freshWod, hv, hu, hr]
    exact congrArg (fun t => Ans.wod s.core.v t s.core.u s.core.ro) hm'

theorem good_empty (c : Core) : Good ⟨c, Cache.empty⟩ := by
  simp [Good, Inv, Cache.empty, Abs.start]

/-! ### queries -/

theorem query_core (en : Bool) (q : Query) (s : St) : (query en q s).2.core = s.core := by
  cases q with
  | antimask => simp only [query, qAntimask]; split <;> rfl
  | corners =>
    simp only [query, qCorners, findCorners, qAntimask]
    repeat' split
    all_goals rfl
  | slicer =>
    simp only [query, qSlicer, qCorners, findCorners, qAntimask]
    repeat' split
    all_goals rfl
  | wod =>
    simp only [query, qWod]
    repeat' split
    all_goals rfl
  | countMasked => rfl
  | shrinkSelf t f =>
    cases t <;> cases f <;> simp only [query, qAntimask] <;> (try split) <;> rfl
  | unshrinkSelf => cases en <;> rfl

theorem queries_core (en : Bool) (qs : List Query) (s : St) : (queries en qs s).core = s.core := by
  induction qs generalizing s with
  | nil => rfl
  | cons q qs ih => simp only [queries]; rw [ih, query_core]


theorem look_some {α} {en : Bool} {x : Option α} {y : α} (h : look en x = some y) : x = some y := by
  cases en <;> simp [look] at h; exact h

theorem inv_weaken {s : St} {a : Abs} (h : Inv s a) : Inv s (absEvent .mayFill a) := by
  obtain ⟨h1, h2, h3, h4, h5, h6⟩ := h
  refine ⟨?_, ?_, ?_, ?_, h5, h6⟩
  · intro x hx; exact ⟨rfl, (h1 x hx).2⟩
  · intro c hc; refine ⟨rfl, fun q => ?_⟩
    simp [absEvent, (h2 c hc).2 q]
  · intro x hx; refine ⟨rfl, fun q => ?_⟩
    simp [absEvent, (h3 x hx).2 q]
  · intro e he; obtain ⟨_, b, c, d, f⟩ := h4 e he; exact ⟨rfl, b, c, d, f⟩

/-- the abstract value after a `mayFill` (what `Inv` is re-established against) -/
abbrev fillA (a : Abs) : Abs := absEvent .mayFill a

theorem inv_qAntimask (en : Bool) {s : St} {a : Abs} (h : Inv s (fillA a)) :
    Inv (qAntimask en s).2 (fillA a) ∧ (qAntimask en s).2.core = s.core ∧
      ((qAntimask en s).1 ≠ s.core.m → a.dAnti = true) := by
  unfold qAntimask
  cases hl : look en s.cache.anti with
  | some x => exact ⟨h, rfl, (h.1 x (look_some hl)).2⟩
  | none =>
    refine ⟨?_, rfl, fun q => absurd rfl q⟩
    obtain ⟨h1, h2, h3, h4, h5, h6⟩ := h
    refine ⟨?_, h2, h3, h4, h5, h6⟩
    intro x hx
    simp at hx
    exact ⟨rfl, fun q => absurd hx.symm q⟩

theorem inv_findCorners (en : Bool) {s : St} {a : Abs} (h : Inv s (fillA a)) :
    Inv (findCorners en s).2 (fillA a) ∧ (findCorners en s).2.core = s.core ∧
      ((findCorners en s).1 ≠ s.core.freshCorn → a.dAnti = true) := by
  unfold findCorners
  cases hs : s.core.shapeless with
  | true => exact ⟨h, rfl, fun q => absurd (by simp [Core.freshCorn, hs]) q⟩
  | false =>
    cases hm : s.core.mrep with
    | arr =>
      obtain ⟨i, c, d⟩ := inv_qAntimask en h
      refine ⟨i, c, fun q => d fun e => q ?_⟩
      simp [Core.freshCorn, hs, e]
    | sFalse => exact ⟨h, rfl, fun q => absurd (by simp [Core.freshCorn, hs]) q⟩
    | sTrue => exact ⟨h, rfl, fun q => absurd (by simp [Core.freshCorn, hs]) q⟩

theorem inv_qCorners (en : Bool) {s : St} {a : Abs} (h : Inv s (fillA a)) :
    Inv (qCorners en s).2 (fillA a) ∧ (qCorners en s).2.core = s.core ∧
      ((qCorners en s).1 ≠ s.core.freshCorn → (fillA a).dCorn = true) := by
  unfold qCorners
  cases hl : look en s.cache.corn with
  | some c => exact ⟨h, rfl, (h.2.1 c (look_some hl)).2⟩
  | none =>
    obtain ⟨i, cc, d⟩ := inv_findCorners en h
    have key : (findCorners en s).1 ≠ s.core.freshCorn → (fillA a).dCorn = true := by
      intro q; simp [fillA, absEvent, d q]
    refine ⟨?_, cc, key⟩
    obtain ⟨h1, h2, h3, h4, h5, h6⟩ := i
    refine ⟨h1, ?_, h3, h4, h5, h6⟩
    intro c hc
    simp at hc
    refine ⟨rfl, fun q => key ?_⟩
    rw [hc]; simpa [cc] using q


theorem inv_qSlicer (en : Bool) {s : St} {a : Abs} (h : Inv s (fillA a)) :
    Inv (qSlicer en s).2 (fillA a) ∧ (qSlicer en s).2.core = s.core := by
  unfold qSlicer
  cases hl : look en s.cache.slic with
  | some x => exact ⟨h, rfl⟩
  | none =>
    obtain ⟨i, cc, d⟩ := inv_qCorners en h
    simp only []
    cases hc : (qCorners en s).1 with
    | none => exact ⟨i, cc⟩
    | some x =>
      refine ⟨?_, cc⟩
      obtain ⟨h1, h2, h3, h4, h5, h6⟩ := i
      refine ⟨h1, h2, ?_, h4, h5, h6⟩
      intro y hy
      simp at hy
      refine ⟨rfl, fun q => ?_⟩
      have : (fillA a).dCorn = true := d (by rw [hc, hy]; simpa [cc] using q)
      simp only [fillA, absEvent] at this ⊢
      simp only [Bool.or_eq_true] at this ⊢
      cases this with
      | inl t => exact Or.inl (Or.inr t)
      | inr t => exact Or.inr t

theorem inv_qWod (en : Bool) {s : St} {a : Abs} (h : Inv s (fillA a)) :
    Inv (qWod en s).2 (fillA a) ∧ (qWod en s).2.core = s.core := by
  unfold qWod
  cases hd : s.core.hasDerivs with
  | false => exact ⟨h, rfl⟩
  | true =>
    cases hl : look en s.cache.wod with
    | some e => exact ⟨h, rfl⟩
    | none =>
      refine ⟨?_, rfl⟩
      obtain ⟨h1, h2, h3, h4, h5, h6⟩ := h
      refine ⟨h1, h2, h3, ?_, h5, h6⟩
      intro e he
      simp at he
      subst he
      exact ⟨rfl, fun _ => rfl, fun _ => Or.inl rfl, fun q => absurd rfl q, fun q => absurd rfl q⟩

theorem inv_query (en : Bool) (q : Query) {s : St} {a : Abs} (h : Inv s (fillA a)) :
    Inv (query en q s).2 (fillA a) := by
  cases q with
  | antimask => exact (inv_qAntimask en h).1
  | corners => exact (inv_qCorners en h).1
  | slicer => exact (inv_qSlicer en h).1
  | wod => exact (inv_qWod en h).1
  | countMasked => exact h
  | shrinkSelf t f =>
    have h1 : Inv (match t with | true => (qAntimask en s).2 | false => s) (fillA a) := by
      cases t
      · exact h
      · exact (inv_qAntimask en h).1
    cases f
    · exact h1
    · exact h1
  | unshrinkSelf => cases en <;> exact h

theorem inv_queries (en : Bool) (qs : List Query) {s : St} {a : Abs} (h : Inv s (fillA a)) :
    Inv (queries en qs s) (fillA a) := by
  induction qs generalizing s with
  | nil => exact h
  | cons q qs ih => exact ih (inv_query en q h)


theorem unshareV_fields (e : WodE) (o : Nat) :
    (e.unshareV o).mshared = e.mshared ∧ (e.unshareV o).u = e.u ∧ (e.unshareV o).ro = e.ro ∧
    (e.unshareV o).m = e.m := by
  unfold WodE.unshareV; cases e.vshared <;> simp
theorem unshareM_fields (e : WodE) (o : Nat) :
    (e.unshareM o).vshared = e.vshared ∧ (e.unshareM o).u = e.u ∧ (e.unshareM o).ro = e.ro := by
  unfold WodE.unshareM; cases e.mshared <;> simp

theorem onWrite_values (k : Cache) (c : Core) (md : Mode) :
    (k.onWrite c .values md).anti = k.anti ∧ (k.onWrite c .values md).corn = k.corn ∧
    (k.onWrite c .values md).slic = k.slic ∧
    (∀ e', (k.onWrite c .values md).wod = some e' → ∃ e, k.wod = some e ∧ (e' = e ∨ e' = e.unshareV c.v)) := by
  unfold Cache.onWrite
  cases md.rebinds c.varr
  · exact ⟨rfl, rfl, rfl, fun e' h => ⟨e', h, Or.inl rfl⟩⟩
  · refine ⟨rfl, rfl, rfl, fun e' h => ?_⟩
    cases hw : k.wod with
    | none => simp [hw] at h
    | some e => simp [hw] at h; exact ⟨e, rfl, Or.inr h.symm⟩

theorem write_values_core (c : Core) (md : Mode) (post : Facts) :
    (c.write .values md post).m = c.m ∧ (c.write .values md post).u = c.u ∧ (c.write .values md post).ro = c.ro ∧
    (c.write .values md post).freshCorn = c.freshCorn := by
  simp [Core.write, Core.freshCorn]

theorem inv_write_values (post : Facts) (md : Mode) (hmd : md ≠ .same) {s : St} {a : Abs} (h : Inv s a) :
    Inv ⟨s.core.write .values md post, s.cache.onWrite s.core .values md⟩ (absEvent (.write .values md) a) := by
  obtain ⟨pA, pC, pS, pW, dA, dC, dS, dV, dM, dU, dR, va, rt, rq⟩ := a
  obtain ⟨h1, h2, h3, h4, h5, h6⟩ := h
  obtain ⟨ka, kc, ks, kw⟩ := onWrite_values s.cache s.core md
  obtain ⟨cm, cu, cr, cf⟩ := write_values_core s.core md post
  -- the clauses that do not look at the values
  have base : ∀ (dV' : Bool) (va' : Option Bool),
      (∀ e', (s.cache.onWrite s.core .values md).wod = some e' → pW = true ∧ (dV' = false → e'.vshared = true) ∧
          (dM = false → e'.mshared = true ∨ e'.m = s.core.m) ∧ (e'.u ≠ s.core.u → dU = true) ∧
          (e'.ro ≠ s.core.ro → dR = true)) →
      (∀ b, va' = some b → (s.core.write .values md post).varr = b) →
      Inv ⟨s.core.write .values md post, s.cache.onWrite s.core .values md⟩
        ⟨pA, pC, pS, pW, dA, dC, dS, dV', dM, dU, dR, va', rt, rq⟩ := by
    intro dV' va' hw hv
    refine ⟨?_, ?_, ?_, ?_, hv, ?_⟩
    · intro x hx; rw [ka] at hx; simpa [cm] using h1 x hx
    · intro c hc; rw [kc] at hc; simpa [cf] using h2 c hc
    · intro x hx; rw [ks] at hx; simpa [cf] using h3 x hx
    · intro e' he'; simpa [cu, cr, cm] using hw e' he'
    · simpa [cr] using h6
  -- a write that may rebind: the wod is flagged
  have dirty : Inv ⟨s.core.write .values md post, s.cache.onWrite s.core .values md⟩
      ⟨pA, pC, pS, pW, dA, dC, dS, dV || pW, dM, dU, dR, none, rt, rq⟩ := by
    apply base
    · intro e' he'
      obtain ⟨e, he, hor⟩ := kw e' he'
      obtain ⟨p, _, m, u, r⟩ := h4 e he
      simp only at p m u r
      have f := unshareV_fields e s.core.v
      rcases hor with rfl | rfl
      · exact ⟨p, by simp [p], m, u, r⟩
      · exact ⟨p, by simp [p], by simpa [f.1, f.2.2.2] using m, by simpa [f.2.1] using u,
          by simpa [f.2.2.1] using r⟩
    · intro b hb; cases hb
  -- a write in place: nothing changes for the cache
  have inplace : md.rebinds s.core.varr = false → ∀ va', (∀ b, va' = some b → (s.core.write .values md post).varr = b) →
      Inv ⟨s.core.write .values md post, s.cache.onWrite s.core .values md⟩
        ⟨pA, pC, pS, pW, dA, dC, dS, dV, dM, dU, dR, va', rt, rq⟩ := by
    intro hr va' hv
    apply base _ _ _ hv
    intro e' he'
    have : s.cache.onWrite s.core .values md = s.cache := by simp [Cache.onWrite, hr]
    rw [this] at he'
    exact h4 e' he'
  cases md with
  | store =>
    refine inplace rfl va ?_
    intro b hb; simpa [Core.write] using h5 b hb
  | aug =>
    cases va with
    | some b =>
      cases b with
      | true =>
        have hv := h5 true rfl
        refine inplace (by simp [Mode.rebinds, hv]) (some true) ?_
        intro b hb; cases hb; simp [Core.write, hv]
      | false => exact dirty
    | none => exact dirty
  | rebind => exact dirty
  | setTrue => exact dirty
  | same => exact absurd rfl hmd



theorem onWrite_mask (k : Cache) (c : Core) (md : Mode) :
    (k.onWrite c .mask md).anti = k.anti ∧ (k.onWrite c .mask md).corn = k.corn ∧
    (k.onWrite c .mask md).slic = k.slic ∧
    (∀ e', (k.onWrite c .mask md).wod = some e' → ∃ e, k.wod = some e ∧ (e' = e ∨ e' = e.unshareM c.m)) := by
  unfold Cache.onWrite
  cases md.rebinds (match c.mrep with | .arr => true | _ => false)
  · exact ⟨rfl, rfl, rfl, fun e' h => ⟨e', h, Or.inl rfl⟩⟩
  · refine ⟨rfl, rfl, rfl, fun e' h => ?_⟩
    cases hw : k.wod with
    | none => simp [hw] at h
    | some e => simp [hw] at h; exact ⟨e, rfl, Or.inr h.symm⟩

theorem abs_write_mask (md : Mode) (hmd : md ≠ .same) (a : Abs) : absEvent (.write .mask md) a =
    { a with dAnti := a.dAnti || a.pAnti, dCorn := a.dCorn || a.pCorn, dSlic := a.dSlic || a.pSlic,
             dWodM := a.dWodM || a.pWod } := by cases md <;> first | rfl | exact absurd rfl hmd
theorem abs_write_units (md : Mode) (a : Abs) : absEvent (.write .units md) a =
    { a with dWodU := a.dWodU || a.pWod } := by cases md <;> rfl
theorem abs_write_readonly (md : Mode) (a : Abs) : absEvent (.write .readonly md) a =
    { a with dWodR := a.dWodR || a.pWod, roTrue := match md with | .setTrue => true | _ => false } := by
  cases md <;> rfl
theorem abs_write_derivs (md : Mode) (a : Abs) : absEvent (.write .derivs md) a = a := by cases md <;> rfl

theorem inv_write_mask (post : Facts) (md : Mode) (hmd : md ≠ .same) {s : St} {a : Abs} (h : Inv s a) :
    Inv ⟨s.core.write .mask md post, s.cache.onWrite s.core .mask md⟩ (absEvent (.write .mask md) a) := by
  rw [abs_write_mask md hmd]
  obtain ⟨h1, h2, h3, h4, h5, h6⟩ := h
  obtain ⟨ka, kc, ks, kw⟩ := onWrite_mask s.cache s.core md
  refine ⟨?_, ?_, ?_, ?_, ?_, ?_⟩
  · intro x hx; rw [ka] at hx; have := (h1 x hx).1; simp [this]
  · intro c hc; rw [kc] at hc; have := (h2 c hc).1; simp [this]
  · intro x hx; rw [ks] at hx; have := (h3 x hx).1; simp [this]
  · intro e' he'
    obtain ⟨e, he, hor⟩ := kw e' he'
    obtain ⟨p, v, _, u, r⟩ := h4 e he
    have f := unshareM_fields e s.core.m
    rcases hor with rfl | rfl
    · exact ⟨p, v, by simp [p], by simpa [Core.write] using u, by simpa [Core.write] using r⟩
    · exact ⟨p, by simpa [f.1] using v, by simp [p],
        by simpa [Core.write, f.2.1] using u, by simpa [Core.write, f.2.2] using r⟩
  · intro b hb; simpa [Core.write] using h5 b hb
  · simpa [Core.write] using h6

theorem onWrite_other (k : Cache) (c : Core) (md : Mode) (at_ : Attr) (h1 : at_ ≠ .values) (h2 : at_ ≠ .mask) :
    k.onWrite c at_ md = k := by
  cases at_ <;> simp_all [Cache.onWrite]

theorem inv_write_units (post : Facts) (md : Mode) {s : St} {a : Abs} (h : Inv s a) :
    Inv ⟨s.core.write .units md post, s.cache.onWrite s.core .units md⟩ (absEvent (.write .units md) a) := by
  rw [abs_write_units]
  obtain ⟨h1, h2, h3, h4, h5, h6⟩ := h
  rw [onWrite_other _ _ _ _ (by decide) (by decide)]
  refine ⟨?_, ?_, ?_, ?_, ?_, ?_⟩
  · intro x hx; simpa [Core.write] using h1 x hx
  · intro c hc; simpa [Core.write, Core.freshCorn] using h2 c hc
  · intro x hx; simpa [Core.write, Core.freshCorn] using h3 x hx
  · intro e he
    obtain ⟨p, v, m, u, r⟩ := h4 e he
    exact ⟨p, v, m, by simp [p], by simpa [Core.write] using r⟩
  · intro b hb; simpa [Core.write] using h5 b hb
  · simpa [Core.write] using h6

theorem inv_write_readonly (post : Facts) (md : Mode) {s : St} {a : Abs} (h : Inv s a) :
    Inv ⟨s.core.write .readonly md post, s.cache.onWrite s.core .readonly md⟩ (absEvent (.write .readonly md) a) := by
  rw [abs_write_readonly]
  obtain ⟨h1, h2, h3, h4, h5, h6⟩ := h
  rw [onWrite_other _ _ _ _ (by decide) (by decide)]
  refine ⟨?_, ?_, ?_, ?_, ?_, ?_⟩
  · intro x hx; simpa [Core.write] using h1 x hx
  · intro c hc; simpa [Core.write, Core.freshCorn] using h2 c hc
  · intro x hx; simpa [Core.write, Core.freshCorn] using h3 x hx
  · intro e he
    obtain ⟨p, v, m, u, r⟩ := h4 e he
    exact ⟨p, v, m, by simpa [Core.write] using u, by simp [p]⟩
  · intro b hb; simpa [Core.write] using h5 b hb
  · cases md <;> simp [Core.write]

theorem inv_write_derivs (post : Facts) (md : Mode) {s : St} {a : Abs} (h : Inv s a) :
    Inv ⟨s.core.write .derivs md post, s.cache.onWrite s.core .derivs md⟩ (absEvent (.write .derivs md) a) := by
  rw [abs_write_derivs, onWrite_other _ _ _ _ (by decide) (by decide)]
  exact h

theorem inv_write (post : Facts) (at_ : Attr) (md : Mode) (hmd : md ≠ .same) {s : St} {a : Abs} (h : Inv s a) :
    Inv ⟨s.core.write at_ md post, s.cache.onWrite s.core at_ md⟩ (absEvent (.write at_ md) a) := by
  cases at_ with
  | values => exact inv_write_values post md hmd h
  | mask => exact inv_write_mask post md hmd h
  | units => exact inv_write_units post md h
  | readonly => exact inv_write_readonly post md h
  | derivs => exact inv_write_derivs post md h


theorem inv_clear {s : St} {a : Abs} (h : Inv s a) :
    Inv { s with cache := Cache.empty } (absEvent .cacheClear a) := by
  obtain ⟨_, _, _, _, h5, h6⟩ := h
  exact ⟨by simp [Cache.empty], by simp [Cache.empty], by simp [Cache.empty], by simp [Cache.empty], h5, h6⟩

theorem inv_del (k : Key) {s : St} {a : Abs} (h : Inv s a) :
    Inv { s with cache := s.cache.del k } (absEvent (.cacheDel k) a) := by
  obtain ⟨h1, h2, h3, h4, h5, h6⟩ := h
  cases k with
  | antimask => exact ⟨by simp [Cache.del], h2, h3, h4, h5, h6⟩
  | corners => exact ⟨h1, by simp [Cache.del], h3, h4, h5, h6⟩
  | slicer => exact ⟨h1, h2, by simp [Cache.del], h4, h5, h6⟩
  | wod => exact ⟨h1, h2, h3, by simp [Cache.del], h5, h6⟩
  | unshrunk => exact ⟨h1, h2, h3, h4, h5, h6⟩
  | shrunk => exact ⟨h1, h2, h3, h4, h5, h6⟩

theorem inv_freeze {s : St} {a : Abs} (h : Inv s a) :
    Inv { s with cache := s.cache.freeze true } (absEvent .cacheFreeze a) := by
  obtain ⟨h1, h2, h3, h4, h5, h6⟩ := h
  have hw : ∀ e', (s.cache.freeze true).wod = some e' → ∃ e, s.cache.wod = some e ∧ e' = { e with ro := true } := by
    intro e' he'
    cases hq : s.cache.wod with
    | none => simp [Cache.freeze, hq] at he'
    | some e => simp [Cache.freeze, hq] at he'; exact ⟨e, rfl, he'.symm⟩
  cases hr : a.roTrue with
  | false =>
    simp only [absEvent, hr]
    refine ⟨h1, h2, h3, ?_, h5, by simp⟩
    intro e' he'
    obtain ⟨e, he, rfl⟩ := hw e' he'
    obtain ⟨p, v, m, u, r⟩ := h4 e he
    refine ⟨p, v, m, u, ?_⟩
    intro _; simp [p]
  | true =>
    have hro := h6 hr
    simp only [absEvent, hr]
    refine ⟨h1, h2, h3, ?_, h5, fun _ => hro⟩
    intro e' he'
    obtain ⟨e, he, rfl⟩ := hw e' he'
    obtain ⟨p, v, m, u, _⟩ := h4 e he
    exact ⟨p, v, m, u, fun q => absurd (by simp [hro]) q⟩



/-- a content-preserving rebinding (`self._mask_ = self._mask_.copy()`): only the aliasing of a cached wod changes -/
theorem inv_write_same_core (at_ : Attr) {s : St} {a : Abs} (h : Inv s a) :
    Inv ⟨s.core, s.cache.onWriteSame s.core at_⟩ (absEvent (.write at_ .same) a) := by
  obtain ⟨h1, h2, h3, h4, h5, h6⟩ := h
  cases at_ with
  | mask =>
    show Inv _ a
    refine ⟨h1, h2, h3, ?_, h5, h6⟩
    intro e' he'
    cases hq : s.cache.wod with
    | none => simp [Cache.onWriteSame, hq] at he'
    | some e =>
      simp [Cache.onWriteSame, hq] at he'
      obtain ⟨p, v, m, u, r⟩ := h4 e hq
      have f := unshareM_fields e s.core.m
      subst he'
      refine ⟨p, by simpa [f.1] using v, ?_, by simpa [f.2.1] using u, by simpa [f.2.2] using r⟩
      intro hd
      cases hs : e.mshared with
      | true => right; simp [WodE.unshareM, hs]
      | false =>
        have := m hd
        simp only [hs] at this
        simpa [WodE.unshareM, hs] using this
  | values =>
    refine ⟨h1, h2, h3, ?_, h5, h6⟩
    intro e' he'
    cases hq : s.cache.wod with
    | none => simp [Cache.onWriteSame, hq] at he'
    | some e =>
      simp [Cache.onWriteSame, hq] at he'
      obtain ⟨p, _, m, u, r⟩ := h4 e hq
      have f := unshareV_fields e s.core.v
      subst he'
      exact ⟨p, by simp [absEvent, p], by simpa [absEvent, f.1, f.2.2.2] using m, by simpa [absEvent, f.2.1] using u,
        by simpa [absEvent, f.2.2.1] using r⟩
  | units =>
    refine ⟨h1, h2, h3, ?_, h5, h6⟩
    intro e he
    obtain ⟨p, v, m, u, r⟩ := h4 e he
    exact ⟨p, v, m, by simp [absEvent, p], r⟩
  | readonly =>
    refine ⟨h1, h2, h3, ?_, h5, by simp [absEvent]⟩
    intro e he
    obtain ⟨p, v, m, u, r⟩ := h4 e he
    exact ⟨p, v, m, u, by simp [absEvent, p]⟩
  | derivs => exact ⟨h1, h2, h3, h4, h5, h6⟩

/-- … also when the representation fact of the mask is updated (`Inv` does not look at it) -/
theorem inv_write_same (post : Facts) (at_ : Attr) {s : St} {a : Abs} (h : Inv s a) :
    Inv ⟨s.core.sameRep at_ post, s.cache.onWriteSame s.core at_⟩ (absEvent (.write at_ .same) a) := by
  have k := inv_write_same_core at_ h
  cases at_ <;> exact k

theorem inv_assume (b : Bool) {s : St} {a : Abs} (h : Inv s a) :
    Inv { s with core := { s.core with varr := b } } (absEvent (.assumeVarr b) a) := by
  obtain ⟨h1, h2, h3, h4, _, h6⟩ := h
  exact ⟨h1, h2, h3, h4, by intro b' hb'; simp [absEvent] at hb'; simp [hb'], h6⟩

/-- soundness of one abstract step (cache enabled) -/
theorem inv_event (post : Facts) (e : Event) (fills : List Query) {s : St} {a : Abs} (h : Inv s a) :
    Inv (execEvent true post e fills s) (absEvent e a) := by
  cases e with
  | write at_ md =>
    cases md with
    | same => exact inv_write_same post at_ h
    | rebind => exact inv_write post at_ .rebind (by decide) h
    | aug => exact inv_write post at_ .aug (by decide) h
    | store => exact inv_write post at_ .store (by decide) h
    | setTrue => exact inv_write post at_ .setTrue (by decide) h
  | cacheClear => exact inv_clear h
  | cacheDel k => exact inv_del k h
  | cacheFreeze => exact inv_freeze h
  | assumeVarr b => exact inv_assume b h
  | mayFill => exact inv_queries true fills (inv_weaken h)
  | requireWritable => exact h
  | raise_ => exact h
  | ret => exact h
  | excAt => exact h
  | call n => exact h
  | mayRaise n => exact h
  | maskRepChanged => exact h

theorem inv_path (post : Facts) (es : List Event) (fs : List (List Query)) {s : St} {a : Abs} (h : Inv s a) :
    Inv (execPath true post es fs s) (absPath es a) := by
  induction es generalizing s a fs with
  | nil => exact h
  | cons e es ih =>
    cases e with
    | mayFill =>
      cases fs with
      | nil => exact ih [] (inv_weaken h)
      | cons f fs => exact ih fs (inv_event post .mayFill f h)
    | write at_ md => exact ih fs (inv_event post _ [] h)
    | cacheClear => exact ih fs (inv_event post _ [] h)
    | cacheDel k => exact ih fs (inv_event post _ [] h)
    | cacheFreeze => exact ih fs (inv_event post _ [] h)
    | assumeVarr b => exact ih fs (inv_event post _ [] h)
    | requireWritable => exact ih fs (inv_event post _ [] h)
    | raise_ => exact ih fs (inv_event post _ [] h)
    | ret => exact ih fs (inv_event post _ [] h)
    | excAt => exact ih fs (inv_event post _ [] h)
    | call n => exact ih fs (inv_event post _ [] h)
    | mayRaise n => exact ih fs (inv_event post _ [] h)
    | maskRepChanged => exact ih fs (inv_event post _ [] h)

/-- a clean abstract value at the end of a path means the state is `Good` again -/
theorem good_of_clean {s : St} {a : Abs} (h : Inv s a) (hc : a.clean = true) : Good s := by
  obtain ⟨h1, h2, h3, h4, _, _⟩ := h
  simp only [Abs.clean, Abs.cleanD, Bool.and_eq_true, Bool.not_eq_true'] at hc
  obtain ⟨⟨⟨⟨⟨⟨⟨c1, c2⟩, c3⟩, c4⟩, c5⟩, c6⟩, c7⟩, _⟩ := hc
  refine ⟨?_, ?_, ?_, ?_, ?_, ?_⟩
  · intro x hx; refine ⟨rfl, fun q => ?_⟩
    have := (h1 x hx).2 q; simp [c1] at this
  · intro c hc'; refine ⟨rfl, fun q => ?_⟩
    have := (h2 c hc').2 q; simp [c2] at this
  · intro x hx; refine ⟨rfl, fun q => ?_⟩
    have := (h3 x hx).2 q; simp [c3] at this
  · intro e he
    obtain ⟨_, v, m, u, r⟩ := h4 e he
    refine ⟨rfl, fun _ => v c4, fun _ => m c5, fun q => ?_, fun q => ?_⟩
    · have := u q; simp [c6] at this
    · have := r q; simp [c7] at this
  · intro b hb; simp [Abs.start] at hb; exact hb
  · intro hb; simp [Abs.start] at hb

/-- a mutator path that satisfies the policy keeps the invariant -/
theorem good_path (post : Facts) (es : List Event) (fs : List (List Query)) {s : St}
    (h : Good s) (hp : pathOK es = true) : Good (execPath true post es fs s) := by
  simp only [pathOK, Bool.and_eq_true] at hp
  have := inv_path post es fs h
  cases hv : s.core.varr with
  | true => rw [hv] at this; exact good_of_clean this hp.1
  | false => rw [hv] at this; exact good_of_clean this hp.2

theorem start_fill (b : Bool) : fillA (Abs.start b) = Abs.start b := by cases b <;> rfl

theorem good_query (en : Bool) (q : Query) {s : St} (h : Good s) : Good (query en q s).2 := by
  unfold Good at h ⊢
  rw [query_core]
  rw [← start_fill] at h ⊢
  exact inv_query en q h



/-! ### the object itself evolves independently of the cache -/

def coreEvent (post : Facts) (e : Event) (c : Core) : Core :=
  match e with
  | .write a .same => c.sameRep a post
  | .write a md => c.write a md post
  | .assumeVarr b => { c with varr := b }
  | _ => c

def corePath (post : Facts) : List Event → Core → Core
  | [], c => c
  | e :: es, c => corePath post es (coreEvent post e c)

theorem execEvent_core (en : Bool) (post : Facts) (e : Event) (f : List Query) (s : St) :
    (execEvent en post e f s).core = coreEvent post e s.core := by
  cases e with
  | write a md => cases md <;> rfl
  | mayFill => simp [execEvent, coreEvent, queries_core]
  | _ => rfl

theorem execPath_core (en : Bool) (post : Facts) (es : List Event) (fs : List (List Query)) (s : St) :
    (execPath en post es fs s).core = corePath post es s.core := by
  induction es generalizing s fs with
  | nil => rfl
  | cons e es ih =>
    cases e with
    | mayFill =>
      cases fs with
      | nil => simp only [execPath, corePath]; rw [ih]; rfl
      | cons f fs => simp only [execPath, corePath]; rw [ih, execEvent_core]
    | write at_ md => simp only [execPath, corePath]; rw [ih, execEvent_core]
    | cacheClear => simp only [execPath, corePath]; rw [ih, execEvent_core]
    | cacheDel k => simp only [execPath, corePath]; rw [ih, execEvent_core]
    | cacheFreeze => simp only [execPath, corePath]; rw [ih, execEvent_core]
    | assumeVarr b => simp only [execPath, corePath]; rw [ih, execEvent_core]
    | requireWritable => simp only [execPath, corePath]; rw [ih, execEvent_core]
    | raise_ => simp only [execPath, corePath]; rw [ih, execEvent_core]
    | ret => simp only [execPath, corePath]; rw [ih, execEvent_core]
    | excAt => simp only [execPath, corePath]; rw [ih, execEvent_core]
    | call n => simp only [execPath, corePath]; rw [ih, execEvent_core]
    | mayRaise n => simp only [execPath, corePath]; rw [ih, execEvent_core]
    | maskRepChanged => simp only [execPath, corePath]; rw [ih, execEvent_core]

/-- with the cache disabled every query is a recomputation from the current arrays -/
theorem query_ans_disabled (q : Query) (s : St) : (query false q s).1 = s.core.recompute q := by
  cases q with
  | antimask => rfl
  | corners =>
    simp only [query, qCorners, look, findCorners, qAntimask, Core.recompute, Core.freshCorn]
    cases s.core.shapeless <;> cases s.core.mrep <;> rfl
  | slicer =>
    simp only [query, qSlicer, qCorners, look, findCorners, qAntimask, Core.recompute, Core.freshCorn]
    cases s.core.shapeless <;> cases s.core.mrep <;> rfl
  | wod =>
    simp only [query, qWod, look, Core.recompute]
    cases s.core.hasDerivs <;> simp [WodE.answer, Core.freshWod]
  | countMasked => rfl
  | shrinkSelf t f => rfl
  | unshrinkSelf => rfl

/-- with the cache enabled and nothing stale, every query answers its recomputation -/
theorem query_ans_good (q : Query) {s : St} (h : Good s) : (query true q s).1 = s.core.recompute q := by
  have ok := good_cacheOK h
  have hf := h
  unfold Good at hf
  rw [← start_fill] at hf
  cases q with
  | antimask =>
    have := (inv_qAntimask true hf).2.2
    simp only [query, Core.recompute]
    by_cases e : (qAntimask true s).1 = s.core.m
    · rw [e]
    · exact absurd (this e) (by simp [Abs.start])
  | corners =>
    have := (inv_qCorners true hf).2.2
    simp only [query, Core.recompute]
    by_cases e : (qCorners true s).1 = s.core.freshCorn
    · rw [e]
    · exact absurd (this e) (by cases s.core.varr <;> simp [Abs.start, fillA, absEvent])
  | slicer =>
    simp only [query, Core.recompute, qSlicer]
    cases hl : look true s.cache.slic with
    | some x =>
      have := ok.2.2.1 x (look_some hl)
      simp only []
      rw [← this]
    | none =>
      have := (inv_qCorners true hf).2.2
      have e : (qCorners true s).1 = s.core.freshCorn := by
        by_cases e : (qCorners true s).1 = s.core.freshCorn
        · exact e
        · exact absurd (this e) (by cases s.core.varr <;> simp [Abs.start, fillA, absEvent])
      simp only []
      rw [e]
      cases s.core.freshCorn <;> rfl
  | wod =>
    simp only [query, Core.recompute, qWod]
    cases hd : s.core.hasDerivs with
    | false => rfl
    | true =>
      cases hl : look true s.cache.wod with
      | some e => exact ok.2.2.2 e (look_some hl)
      | none => simp [WodE.answer, Core.freshWod]
  | countMasked => rfl
  | shrinkSelf t f => rfl
  | unshrinkSelf => rfl


/-! ### monotonicity of the abstract interpretation; loops -/



structure Abs.LE (a b : Abs) : Prop where
  pAnti : a.pAnti = true → b.pAnti = true
  pCorn : a.pCorn = true → b.pCorn = true
  pSlic : a.pSlic = true → b.pSlic = true
  pWod : a.pWod = true → b.pWod = true
  dAnti : a.dAnti = true → b.dAnti = true
  dCorn : a.dCorn = true → b.dCorn = true
  dSlic : a.dSlic = true → b.dSlic = true
  dWodV : a.dWodV = true → b.dWodV = true
  dWodM : a.dWodM = true → b.dWodM = true
  dWodU : a.dWodU = true → b.dWodU = true
  dWodR : a.dWodR = true → b.dWodR = true
  varr : ∀ x, b.varr = some x → a.varr = some x
  roTrue : b.roTrue = true → a.roTrue = true
  rAnti : a.rAnti = true → b.rAnti = true

theorem Abs.le_iff (a b : Abs) : a.le b = true ↔ Abs.LE a b := by
  obtain ⟨a1, a2, a3, a4, a5, a6, a7, a8, a9, a10, a11, av, ar, aq⟩ := a
  obtain ⟨b1, b2, b3, b4, b5, b6, b7, b8, b9, b10, b11, bv, br, bq⟩ := b
  constructor
  · intro h
    simp only [Abs.le, Bool.and_eq_true, Bool.or_eq_true, Bool.not_eq_true'] at h
    obtain ⟨⟨⟨⟨⟨⟨⟨⟨⟨⟨⟨⟨⟨h1, h2⟩, h3⟩, h4⟩, h5⟩, h6⟩, h7⟩, h8⟩, h9⟩, h10⟩, h11⟩, hv⟩, hr⟩, hq⟩ := h
    refine ⟨?_, ?_, ?_, ?_, ?_, ?_, ?_, ?_, ?_, ?_, ?_, ?_, ?_, ?_⟩ <;> simp only <;> grind
  · intro ⟨h1, h2, h3, h4, h5, h6, h7, h8, h9, h10, h11, hv, hr, hq⟩
    simp only at h1 h2 h3 h4 h5 h6 h7 h8 h9 h10 h11 hv hr hq
    simp only [Abs.le, Bool.and_eq_true, Bool.or_eq_true, Bool.not_eq_true']
    refine ⟨⟨⟨⟨⟨⟨⟨⟨⟨⟨⟨⟨⟨?_, ?_⟩, ?_⟩, ?_⟩, ?_⟩, ?_⟩, ?_⟩, ?_⟩, ?_⟩, ?_⟩, ?_⟩, ?_⟩, ?_⟩, ?_⟩ <;> grind

theorem Abs.LE.refl (a : Abs) : Abs.LE a a := ⟨id, id, id, id, id, id, id, id, id, id, id, fun _ h => h, id, id⟩

theorem Abs.LE.trans {a b c : Abs} (h : Abs.LE a b) (g : Abs.LE b c) : Abs.LE a c :=
  ⟨fun x => g.pAnti (h.pAnti x), fun x => g.pCorn (h.pCorn x), fun x => g.pSlic (h.pSlic x), fun x => g.pWod (h.pWod x),
   fun x => g.dAnti (h.dAnti x), fun x => g.dCorn (h.dCorn x), fun x => g.dSlic (h.dSlic x),
   fun x => g.dWodV (h.dWodV x), fun x => g.dWodM (h.dWodM x), fun x => g.dWodU (h.dWodU x),
   fun x => g.dWodR (h.dWodR x), fun x hx => h.varr x (g.varr x hx), fun x => h.roTrue (g.roTrue x),
   fun x => g.rAnti (h.rAnti x)⟩

theorem Abs.LE.top (a : Abs) : Abs.LE a Abs.top := by
  constructor <;> simp [Abs.top]

theorem Abs.LE.join_left (a b : Abs) : Abs.LE a (a.join b) := by
  obtain ⟨a1, a2, a3, a4, a5, a6, a7, a8, a9, a10, a11, av, ar, aq⟩ := a
  obtain ⟨b1, b2, b3, b4, b5, b6, b7, b8, b9, b10, b11, bv, br, bq⟩ := b
  constructor <;> simp only [Abs.join] <;> grind

theorem Abs.LE.join_right (a b : Abs) : Abs.LE b (a.join b) := by
  obtain ⟨a1, a2, a3, a4, a5, a6, a7, a8, a9, a10, a11, av, ar, aq⟩ := a
  obtain ⟨b1, b2, b3, b4, b5, b6, b7, b8, b9, b10, b11, bv, br, bq⟩ := b
  constructor <;> simp only [Abs.join] <;> grind

theorem Abs.LE.clean {a b : Abs} (h : Abs.LE a b) (c : b.clean = true) : a.clean = true := by
  obtain ⟨_, _, _, _, h5, h6, h7, h8, h9, h10, h11, _, _, hq⟩ := h
  simp only [Abs.clean, Abs.cleanD, Bool.and_eq_true, Bool.not_eq_true'] at c ⊢
  grind

theorem Abs.LE.cleanD {a b : Abs} (h : Abs.LE a b) (c : b.cleanD = true) : a.cleanD = true := by
  obtain ⟨_, _, _, _, h5, h6, h7, h8, h9, h10, h11, _, _, _⟩ := h
  simp only [Abs.cleanD, Bool.and_eq_true, Bool.not_eq_true'] at c ⊢
  grind

/-- every abstract transfer function is monotone -/
theorem absEvent_mono (e : Event) {a b : Abs} (h : Abs.LE a b) : Abs.LE (absEvent e a) (absEvent e b) := by
  obtain ⟨a1, a2, a3, a4, a5, a6, a7, a8, a9, a10, a11, av, ar, aq⟩ := a
  obtain ⟨b1, b2, b3, b4, b5, b6, b7, b8, b9, b10, b11, bv, br, bq⟩ := b
  obtain ⟨h1, h2, h3, h4, h5, h6, h7, h8, h9, h10, h11, hv, hr, hq⟩ := h
  simp only at h1 h2 h3 h4 h5 h6 h7 h8 h9 h10 h11 hv hr hq
  cases e with
  | write at_ md =>
    cases at_ <;> cases md <;> (constructor <;> simp only [absEvent] <;> grind)
  | cacheDel k => cases k <;> (constructor <;> simp only [absEvent] <;> grind)
  | cacheFreeze => constructor <;> simp only [absEvent] <;> grind
  | _ => constructor <;> simp only [absEvent] <;> grind

theorem absPath_mono (es : List Event) {a b : Abs} (h : Abs.LE a b) : Abs.LE (absPath es a) (absPath es b) := by
  induction es generalizing a b with
  | nil => exact h
  | cons e es ih => exact ih (absEvent_mono e h)

theorem absPath_append (es fs : List Event) (a : Abs) : absPath (es ++ fs) a = absPath fs (absPath es a) := by
  induction es generalizing a with
  | nil => rfl
  | cons e es ih => exact ih _

theorem absAlts_ge (alts : List (List Event)) (a : Abs) : Abs.LE a (absAlts alts a) := by
  unfold absAlts
  suffices h : ∀ acc, Abs.LE a acc → Abs.LE a (alts.foldl (fun acc es => acc.join (absPath es a)) acc) from
    h a (Abs.LE.refl a)
  induction alts with
  | nil => intro acc h; exact h
  | cons es alts ih => intro acc h; exact ih _ (h.trans (Abs.LE.join_left _ _))

theorem absIter_ge (n : Nat) (alts : List (List Event)) (a : Abs) : Abs.LE a (absIter n alts a) := by
  induction n generalizing a with
  | zero => exact Abs.LE.refl a
  | succ n ih => exact (absAlts_ge alts a).trans (ih _)

/-- below a post-fixpoint of all the bodies, any sequence of iterations stays below it -/
theorem iters_below {alts : List (List Event)} {x : Abs}
    (hx : ∀ es ∈ alts, Abs.LE (absPath es x) x) (iters : List (List Event)) (hi : ∀ b ∈ iters, b ∈ alts)
    {a : Abs} (ha : Abs.LE a x) : Abs.LE (absPath iters.flatten a) x := by
  induction iters generalizing a with
  | nil => exact ha
  | cons b iters ih =>
    simp only [List.flatten_cons, absPath_append]
    exact ih (fun c hc => hi c (List.mem_cons_of_mem _ hc))
      ((absPath_mono b ha).trans (hx b (hi b List.mem_cons_self)))

theorem absSegs_top_or (segs : List Seg) {a b : Abs} (h : Abs.LE a b) (es : List Event) (he : Expands segs es) :
    Abs.LE (absPath es a) (absSegs segs b) := by
  induction he generalizing a b with
  | nil => exact h
  | straight _ ih =>
    rw [absPath_append]
    exact ih (absPath_mono _ h)
  | @loop alts iters rest segs hi _ ih =>
    rw [absPath_append]
    simp only [absSegs, absSeg]
    cases hc : (alts.all fun es => (absPath es (absIter 4 alts b)).le (absIter 4 alts b)) with
    | false => exact ih (Abs.LE.top _)
    | true =>
      have hx : ∀ es ∈ alts, Abs.LE (absPath es (absIter 4 alts b)) (absIter 4 alts b) := by
        intro es hes
        exact (Abs.le_iff _ _).mp (List.all_eq_true.mp hc es hes)
      exact ih (iters_below hx iters hi (h.trans (absIter_ge 4 alts b)))

/-- **every unrolling of a segmented path that passes the check satisfies the policy** -/
theorem segsOK_expands {segs : List Seg} (h : segsOK segs = true) {es : List Event} (he : Expands segs es) :
    pathOK es = true := by
  simp only [segsOK, Bool.and_eq_true] at h
  simp only [pathOK, Bool.and_eq_true]
  exact ⟨(absSegs_top_or segs (Abs.LE.refl _) es he).clean h.1, (absSegs_top_or segs (Abs.LE.refl _) es he).clean h.2⟩

/-! ### exceptional exits -/

theorem exitsOK_append (ex : List String) (es fs : List Event) (a : Abs) :
    exitsOK ex (es ++ fs) a = (exitsOK ex es a && exitsOK ex fs (absPath es a)) := by
  induction es generalizing a with
  | nil => simp [exitsOK, absPath]
  | cons e es ih =>
    cases e <;> simp [exitsOK, absPath, ih, absEvent, Bool.and_assoc]

/-- a larger abstract value makes the check harder -/
theorem exitsOK_anti (ex : List String) (es : List Event) {a b : Abs} (h : Abs.LE a b)
    (hb : exitsOK ex es b = true) : exitsOK ex es a = true := by
  induction es generalizing a b with
  | nil => rfl
  | cons e es ih =>
    cases e with
    | mayRaise site =>
      simp only [exitsOK, Bool.and_eq_true, Bool.or_eq_true, Bool.not_eq_true'] at hb ⊢
      refine ⟨⟨?_, ?_⟩, ih h hb.2⟩
      · rcases hb.1.1 with c | c
        · exact Or.inl (h.cleanD c)
        · exact Or.inr c
      · rcases hb.1.2 with (c | c) | c
        · left; left
          cases hq : a.rAnti with
          | false => rfl
          | true => rw [h.rAnti hq] at c; exact absurd c (by simp)
        · exact Or.inl (Or.inr c)
        · exact Or.inr c
    | _ => exact ih (absEvent_mono _ h) hb

/-- at a non-exempt `mayRaise` point of a path that passes the check, the prefix executed so far leaves
    nothing stale -/
theorem exitsOK_prefix (ex : List String) (pre rest : List Event) (site : String) (a : Abs)
    (h : exitsOK ex (pre ++ .mayRaise site :: rest) a = true) (hs : ex.contains site = false)
    (hr : ex.contains ("rep:" ++ site) = false) :
    (absPath pre a).clean = true := by
  rw [exitsOK_append] at h
  simp only [exitsOK, Bool.and_eq_true, Bool.or_eq_true, hs, hr, Bool.not_eq_true'] at h
  simp only [Abs.clean, Bool.and_eq_true, Bool.not_eq_true']
  refine ⟨?_, ?_⟩
  · rcases h.2.1.1 with c | c
    · exact c
    · exact absurd c (by simp)
  · rcases h.2.1.2 with (c | c) | c
    · exact c
    · exact absurd c (by simp)
    · exact absurd c (by simp)

theorem pathExitsOK_prefix (ex : List String) (pre rest : List Event) (site : String)
    (h : pathExitsOK ex (pre ++ .mayRaise site :: rest) = true) (hs : ex.contains site = false)
    (hr : ex.contains ("rep:" ++ site) = false) :
    pathOK pre = true := by
  simp only [pathExitsOK, Bool.and_eq_true] at h
  simp only [pathOK, Bool.and_eq_true]
  exact ⟨exitsOK_prefix ex pre rest site _ h.1 hs hr, exitsOK_prefix ex pre rest site _ h.2 hs hr⟩

/-- the value computed for a loop segment is above the entry value and is a post-fixpoint of every body -/
theorem loop_postfix (alts : List (List Event)) (b : Abs) :
    Abs.LE b (absSeg ⟨true, alts⟩ b) ∧
    ∀ es ∈ alts, Abs.LE (absPath es (absSeg ⟨true, alts⟩ b)) (absSeg ⟨true, alts⟩ b) := by
  simp only [absSeg]
  cases hc : (alts.all fun es => (absPath es (absIter 4 alts b)).le (absIter 4 alts b)) with
  | false => exact ⟨Abs.LE.top _, fun es _ => Abs.LE.top _⟩
  | true =>
    exact ⟨absIter_ge 4 alts b, fun es hes => (Abs.le_iff _ _).mp (List.all_eq_true.mp hc es hes)⟩

theorem iters_exits {ex : List String} {alts : List (List Event)} {x : Abs}
    (hx : ∀ es ∈ alts, Abs.LE (absPath es x) x) (hex : ∀ es ∈ alts, exitsOK ex es x = true)
    (iters : List (List Event)) (hi : ∀ b ∈ iters, b ∈ alts) {a : Abs} (ha : Abs.LE a x) :
    exitsOK ex iters.flatten a = true := by
  induction iters generalizing a with
  | nil => rfl
  | cons b iters ih =>
    simp only [List.flatten_cons, exitsOK_append, Bool.and_eq_true]
    have hb := hi b List.mem_cons_self
    exact ⟨exitsOK_anti ex b ha (hex b hb),
      ih (fun c hc => hi c (List.mem_cons_of_mem _ hc)) ((absPath_mono b ha).trans (hx b hb))⟩

/-- every exceptional exit of every unrolling of a segmented path that passes the check is clean -/
theorem segsExits_expands (ex : List String) {segs : List Seg} {es : List Event} (he : Expands segs es)
    {a b : Abs} (h : Abs.LE a b) (hc : segsExitsOK ex segs b = true) : exitsOK ex es a = true := by
  induction he generalizing a b with
  | nil => rfl
  | @straight es rest segs _ ih =>
    simp only [segsExitsOK, segExitsOK, Bool.and_eq_true] at hc
    rw [exitsOK_append, Bool.and_eq_true]
    exact ⟨exitsOK_anti ex es h hc.1, ih (absPath_mono es h) hc.2⟩
  | @loop alts iters rest segs hi _ ih =>
    simp only [segsExitsOK, segExitsOK, Bool.and_eq_true] at hc
    obtain ⟨hge, hpost⟩ := loop_postfix alts b
    have hex : ∀ es ∈ alts, exitsOK ex es (absSeg ⟨true, alts⟩ b) = true :=
      fun es hes => List.all_eq_true.mp hc.1 es hes
    rw [exitsOK_append, Bool.and_eq_true]
    exact ⟨iters_exits hpost hex iters hi (h.trans hge),
      ih (iters_below hpost iters hi (h.trans hge)) hc.2⟩

theorem segsAllExits_prefix (ex : List String) {segs : List Seg} {pre rest : List Event} {site : String}
    (hc : segsAllExitsOK ex segs = true) (he : Expands segs (pre ++ .mayRaise site :: rest))
    (hs : ex.contains site = false) (hr : ex.contains ("rep:" ++ site) = false) : pathOK pre = true := by
  simp only [segsAllExitsOK, Bool.and_eq_true] at hc
  apply pathExitsOK_prefix ex pre rest site _ hs hr
  simp only [pathExitsOK, Bool.and_eq_true]
  exact ⟨segsExits_expands ex he (Abs.LE.refl _) hc.1, segsExits_expands ex he (Abs.LE.refl _) hc.2⟩

/-! ### the 'unshrunk' entry of a shrunk object -/

/-- nothing obsolete is cached: the cached original corresponds to the current content -/
def ShrunkOK (s : ShrunkSt) : Prop := s.hasRef = true → s.refContent = s.content

def UnInv (s : ShrunkSt) (u : UnAbs) : Prop :=
  (s.hasRef = true → u.p = true) ∧ (s.hasRef = true → s.refContent ≠ s.content → u.s = true)

theorem unInv_event (e : Event) {s : ShrunkSt} {u : UnAbs} (h : UnInv s u) : UnInv (sExec e s) (unEvent e u) := by
  obtain ⟨h1, h2⟩ := h
  cases e with
  | write at_ md =>
    cases at_ <;> cases md <;> first
      | exact ⟨h1, h2⟩
      | exact ⟨h1, fun hr _ => by simp [unEvent, h1 hr]⟩
  | cacheClear => exact ⟨fun h => by simp [sExec] at h, fun h => by simp [sExec] at h⟩
  | cacheDel k =>
    cases k <;> first
      | exact ⟨h1, h2⟩
      | exact ⟨fun h => by simp [sExec] at h, fun h => by simp [sExec] at h⟩
  | mayFill => exact ⟨fun _ => rfl, h2⟩
  | _ => exact ⟨h1, h2⟩

theorem unInv_path (es : List Event) {s : ShrunkSt} {u : UnAbs} (h : UnInv s u) :
    UnInv (sRun es s) (unPath es u) := by
  induction es generalizing s u with
  | nil => exact h
  | cons e es ih => exact ih (unInv_event e h)

/-- a mutator path that satisfies the 'unshrunk' policy leaves no obsolete original in the cache -/
theorem shrunk_ok_path (es : List Event) {s : ShrunkSt} (h : ShrunkOK s) (hp : unOK es = true) :
    ShrunkOK (sRun es s) := by
  have hi : UnInv s ⟨true, false⟩ := ⟨fun _ => rfl, fun hr hne => absurd (h hr) hne⟩
  have := unInv_path es hi
  intro hr
  simp only [unOK, Bool.not_eq_true'] at hp
  by_cases e : (sRun es s).refContent = (sRun es s).content
  · exact e
  · have := this.2 hr e
    rw [hp] at this; exact absurd this (by simp)

theorem shrunk_same_answer {s : ShrunkSt} (h : ShrunkOK s) : sUnshrink true s = sUnshrink false s := by
  unfold sUnshrink
  cases hr : s.hasRef with
  | false => rfl
  | true => simpa using h hr

end PMV.Cache
