import PMV.Lemmas.IndexOneArr
/-
  C09 — index tuples with SEVERAL array entries of one common array shape `B` (the case of
  Pair / Vector index objects, whose components share a shape, and of equal-shaped index arrays),
  mixed freely with basic entries: agreement of `_prep_index`'s loop, NumPy's resolution and the
  specification, with the post-mask accumulated over all entries.
-/
namespace PMV.Index
open PMV PMV.NpIndex

/-- the array shape an entry contributes -/
def Entry.arrShape : Entry → Option Shape
  | .iarr v _ => some v.shape
  | .barr v m => some [(boolSel v m).length]
  | _ => Option.none

/-- basic, or an array entry of array shape `B` -/
def Entry.okB (B : Shape) (e : Entry) : Bool :=
  e.isBasic || (e.arrShape == some B)

/-- NumPy's atoms simulate the specification's on the common array shape `B` -/
def SimS (ats : List Atom) (sats : List SAtom) (B : Shape) : Prop :=
  plainLens ats = SAtom.lens sats ∧
  bcastAll (advShapes ats) = bcastAll (SAtom.arrShapes sats) ∧
  (∀ s ∈ SAtom.arrShapes sats, s = B) ∧ allOk ats = true ∧
  ∀ po ac, Valid B ac → SAtom.flag sats ac = false → walk ats po ac = SAtom.walk sats po ac

/-- agreement on a suffix of the index, for an incoming post-mask that represents the flags `F0` of
    the entries already processed; `Q` = extra facts about the resolved atoms -/
def AgreeG (w : Nat) (es : List Entry) (rest : Shape) (post : PostMask) (B : Shape) (F0 : Index → Bool)
    (Q : List Atom → List SAtom → Prop) : Prop :=
  PostRep post B F0 →
  (prog w rest es post = none → specAtoms w rest es = none) ∧
  (∀ pre post' shs, prog w rest es post = some (pre, post', shs) →
    (specAtoms w rest es = none → atoms rest w pre = none) ∧
    (∀ sats, specAtoms w rest es = some sats →
      (∀ s ∈ shs, s = B) ∧ PostRep post' B (fun i => F0 i || SAtom.flag sats i) ∧
        ∃ ats, atoms rest w pre = some ats ∧ SimS ats sats B ∧ Q ats sats))

theorem agreeG_mono (w : Nat) (es : List Entry) (rest : Shape) (post : PostMask) (B : Shape)
    (F0 : Index → Bool) (Q Q' : List Atom → List SAtom → Prop) (hq : ∀ a s, Q a s → Q' a s)
    (h : AgreeG w es rest post B F0 Q) : AgreeG w es rest post B F0 Q' := by
  intro hp
  obtain ⟨h1, h2⟩ := h hp
  refine ⟨h1, fun pre post' shs hpr => ?_⟩
  obtain ⟨a, b⟩ := h2 pre post' shs hpr
  refine ⟨a, fun sats hs => ?_⟩
  obtain ⟨c, d, ats, e, f, g⟩ := b sats hs
  exact ⟨c, d, ats, e, f, hq _ _ g⟩

theorem agreeG_nil (w : Nat) (rest : Shape) (post : PostMask) (B : Shape) (F0 : Index → Bool) :
    AgreeG w [] rest post B F0 (fun _ _ => True) := by
  intro hp
  refine ⟨fun h => by simp [prog] at h, ?_⟩
  intro pre post' shs h
  simp only [prog, Option.some.injEq, Prod.mk.injEq] at h
  obtain ⟨rfl, rfl, rfl⟩ := h
  cases rest with
  | nil =>
    refine ⟨fun h => by simp [specAtoms] at h, ?_⟩
    intro sats hs
    simp only [specAtoms, Option.some.injEq] at hs
    subst hs
    refine ⟨by simp, postRep_congr _ _ _ _ (fun i _ => by simp [SAtom.flag]) hp, [], by simp [atoms], ?_, trivial⟩
    exact ⟨rfl, rfl, by simp [SAtom.arrShapes], rfl, fun _ _ _ _ => rfl⟩
  | cons n sh =>
    exact ⟨fun _ => by simp [atoms], fun sats hs => by simp [specAtoms] at hs⟩

/-- one entry: if the three readings step alike — the loop emits `p` and updates the post-mask to
    `post1`, the specification emits the atoms `sa`, NumPy the atoms `A` — agreement propagates -/
theorem agreeG_step (w : Nat) (es : List Entry) (rest rest' : Shape) (post : PostMask) (B : Shape)
    (F0 fl : Index → Bool) (e : Entry) (p : NEntry) (u : PostUpd) (so : Option Shape)
    (sa : List SAtom) (A : List Atom) (Q : List Atom → List SAtom → Prop)
    (hpe : prepEntry rest 0 e = some (p, u, so))
    (hso : ∀ s ∈ so.toList, s = B)
    (hu : PostRep post B F0 → ∃ post1, u.apply post = some post1 ∧ PostRep post1 B (fun i => F0 i || fl i))
    (hdrop : rest.drop (e.padv w) = rest')
    (hspec : specAtoms w rest (e :: es) = (specAtoms w rest' es).map (sa ++ ·))
    (hat1 : ∀ ps, atoms rest w (p :: ps) = (atoms rest' w ps).map (A ++ ·))
    (hsim : ∀ ats sats, SimS ats sats B → SimS (A ++ ats) (sa ++ sats) B)
    (hflag : ∀ x ac, Valid B ac → SAtom.flag (sa ++ x) ac = (fl ac || SAtom.flag x ac))
    (ih : ∀ post1, AgreeG w es rest' post1 B (fun i => F0 i || fl i) Q) :
    AgreeG w (e :: es) rest post B F0 (fun _ _ => True) := by
  intro hp
  obtain ⟨post1, hu1, hu2⟩ := hu hp
  obtain ⟨ih1, ih2⟩ := ih post1 hu2
  have hprog : prog w rest (e :: es) post =
      match prog w rest' es post1 with
      | none => none
      | some (ps, post'', ss) => some (p :: ps, post'', so.toList ++ ss) := by
    simp only [prog, hpe, hu1, hdrop]
    cases prog w rest' es post1 with
    | none => rfl
    | some x => obtain ⟨ps, po, ss⟩ := x; simp
  constructor
  · intro h
    rw [hprog] at h
    cases hpr : prog w rest' es post1 with
    | none => rw [hspec, ih1 hpr]; rfl
    | some x => obtain ⟨ps, po, ss⟩ := x; simp [hpr] at h
  · intro pre post' shs h
    rw [hprog] at h
    cases hpr : prog w rest' es post1 with
    | none => simp [hpr] at h
    | some x =>
      obtain ⟨ps, po, ss⟩ := x
      simp only [hpr, Option.some.injEq, Prod.mk.injEq] at h
      obtain ⟨rfl, rfl, rfl⟩ := h
      obtain ⟨j2, j3⟩ := ih2 ps po ss hpr
      refine ⟨?_, ?_⟩
      · intro hn
        rw [hspec] at hn
        have : specAtoms w rest' es = none := by
          cases hs : specAtoms w rest' es with
          | none => rfl
          | some _ => simp [hs] at hn
        rw [hat1, j2 this]; rfl
      · intro sats hs
        rw [hspec] at hs
        cases hs' : specAtoms w rest' es with
        | none => simp [hs'] at hs
        | some sats' =>
          simp only [hs', Option.map_some, Option.some.injEq] at hs
          subst hs
          obtain ⟨k0, k1, ats, k3, k4, _⟩ := j3 sats' hs'
          refine ⟨?_, ?_, A ++ ats, by rw [hat1, k3]; rfl, hsim ats sats' k4, trivial⟩
          · intro s hs
            rcases List.mem_append.mp hs with h1 | h1
            · exact hso s h1
            · exact k0 s h1
          · refine postRep_congr po B _ _ ?_ k1
            intro i hi
            rw [hflag _ _ hi, Bool.or_assoc]

/-! #### how one atom extends the simulation -/

theorem simS_plain (a : SAtom) (ha : a.isPlainA = true) (B : Shape) (ats : List Atom) (sats : List SAtom)
    (h : SimS ats sats B) : SimS ([a.toAtom] ++ ats) ([a] ++ sats) B := by
  obtain ⟨h1, h2, h3, h4, h6⟩ := h
  cases a with
  | axis l fl =>
    refine ⟨by simp [SAtom.toAtom, plainLens, SAtom.lens, h1], by simpa [SAtom.toAtom, advShapes, SAtom.arrShapes] using h2,
      by simpa [SAtom.arrShapes] using h3, by simpa [SAtom.toAtom, allOk] using h4, ?_⟩
    intro po ac hac hfl
    simp only [List.singleton_append, SAtom.flag, Bool.or_eq_false_iff] at hfl
    simp [SAtom.toAtom, walk, SAtom.walk, h6 po.tail ac hac hfl.2]
  | new =>
    refine ⟨by simp [SAtom.toAtom, plainLens, SAtom.lens, h1], by simpa [SAtom.toAtom, advShapes, SAtom.arrShapes] using h2,
      by simpa [SAtom.arrShapes] using h3, by simpa [SAtom.toAtom, allOk] using h4, ?_⟩
    intro po ac hac hfl
    simp only [List.singleton_append, SAtom.flag] at hfl
    simp [SAtom.toAtom, walk, SAtom.walk, h6 po.tail ac hac hfl]
  | fix n k => simp [SAtom.isPlainA] at ha
  | arr sh' f fl => simp [SAtom.isPlainA] at ha

theorem simS_plains : ∀ (sa : List SAtom), sa.all SAtom.isPlainA = true → ∀ (B : Shape) (ats : List Atom)
    (sats : List SAtom), SimS ats sats B → SimS (sa.map SAtom.toAtom ++ ats) (sa ++ sats) B := by
  intro sa
  induction sa with
  | nil => intro _ B ats sats h; exact h
  | cons a r ih =>
    intro hp B ats sats h
    simp only [List.all_cons, Bool.and_eq_true] at hp
    exact simS_plain a hp.1 B _ _ (ih hp.2 B ats sats h)

theorem bcastAll_nil_cons (X : List Shape) : bcastAll ([] :: X) = bcastAll X := by
  simp only [bcastAll]
  cases bcastAll X with
  | none => rfl
  | some t => simp [bcast, bcastRev]

theorem simS_fix (n : Nat) (k : Option Nat) (B : Shape) (ats : List Atom) (sats : List SAtom)
    (h : SimS ats sats B) :
    SimS ([Atom.adv [] (fun _ => [k.getD 0]) true] ++ ats) ([SAtom.fix n k] ++ sats) B := by
  obtain ⟨h1, h2, h3, h4, h6⟩ := h
  refine ⟨by simp [plainLens, SAtom.lens, h1], ?_, by simpa [SAtom.arrShapes] using h3, by simpa [allOk] using h4, ?_⟩
  · simp only [List.singleton_append, advShapes, SAtom.arrShapes, bcastAll_nil_cons, h2]
  · intro po ac hac hfl
    simp only [List.singleton_append, SAtom.flag, Bool.or_eq_false_iff] at hfl
    simp [walk, SAtom.walk, h6 po ac hac hfl.2]

theorem simS_arr (B : Shape) (f f' : Index → List Nat) (fl : Index → Bool)
    (hf : ∀ i, Valid B i → fl i = false → f i = f' i) (ats : List Atom) (sats : List SAtom)
    (h : SimS ats sats B) :
    SimS ([Atom.adv B f true] ++ ats) ([SAtom.arr B f' fl] ++ sats) B := by
  obtain ⟨h1, h2, h3, h4, h6⟩ := h
  refine ⟨by simp [plainLens, SAtom.lens, h1], ?_, ?_, by simpa [allOk] using h4, ?_⟩
  · simp only [List.singleton_append, advShapes, SAtom.arrShapes, bcastAll, h2]
  · intro s hs
    simp only [List.singleton_append, SAtom.arrShapes, List.mem_cons] at hs
    rcases hs with rfl | hs
    · rfl
    · exact h3 s hs
  · intro po ac hac hfl
    simp only [List.singleton_append, SAtom.flag, Bool.or_eq_false_iff, bidx_self hac] at hfl
    simp only [List.singleton_append, walk, SAtom.walk, bidx_self hac, hf ac hac hfl.1, h6 po ac hac hfl.2]

/-! #### how one entry updates the post-mask -/

theorem postRep_keep (post : PostMask) (B : Shape) (F0 : Index → Bool) (hp : PostRep post B F0) :
    ∃ post1, PostUpd.keep.apply post = some post1 ∧ PostRep post1 B (fun i => F0 i || false) :=
  ⟨post, rfl, postRep_congr _ _ _ _ (fun i _ => by simp) hp⟩

theorem postRep_setTrue (post : PostMask) (B : Shape) (F0 : Index → Bool) :
    ∃ post1, PostUpd.setTrue.apply post = some post1 ∧ PostRep post1 B (fun i => F0 i || true) :=
  ⟨.all true, rfl, fun i _ => by simp⟩

theorem postRep_orArr (post : PostMask) (B : Shape) (F0 : Index → Bool) (a : Arr Bool) (ha : a.shape = B)
    (hp : PostRep post B F0) :
    ∃ post1, (PostUpd.orArr a).apply post = some post1 ∧ PostRep post1 B (fun i => F0 i || a.get i) := by
  cases post with
  | all c =>
    refine ⟨.arr (a.map (c || ·)), rfl, ha, fun i hi => ?_⟩
    simp [Arr.map, hp i hi]
  | arr p =>
    obtain ⟨hps, hpg⟩ := hp
    have hb : bcast p.shape a.shape = some B := by rw [hps, ha]; exact bcast_self B
    refine ⟨.arr ⟨B, fun i => p.get (bidx p.shape i) || a.get (bidx a.shape i)⟩, ?_, rfl, fun i hi => ?_⟩
    · simp [PostUpd.apply, PostMask.orArr, Arr.map2, hb]
    · simp only [hps, ha, bidx_self hi, hpg i hi]

theorem agreeG_reject (w : Nat) (es : List Entry) (rest : Shape) (post : PostMask) (B : Shape)
    (F0 : Index → Bool) (e : Entry) (hpe : prepEntry rest 0 e = none)
    (hspec : specAtoms w rest (e :: es) = none) : AgreeG w (e :: es) rest post B F0 (fun _ _ => True) := by
  intro _
  refine ⟨fun _ => hspec, ?_⟩
  intro pre post' shs h
  simp [prog, hpe] at h

theorem agreeG_dead (w : Nat) (es : List Entry) (rest : Shape) (post : PostMask) (B : Shape)
    (F0 : Index → Bool) (e : Entry) (p : NEntry) (u : PostUpd) (so : Option Shape)
    (hpe : prepEntry rest 0 e = some (p, u, so)) (hspec : specAtoms w rest (e :: es) = none)
    (hat : ∀ ps, atoms rest w (p :: ps) = none) : AgreeG w (e :: es) rest post B F0 (fun _ _ => True) := by
  intro _
  refine ⟨fun _ => hspec, ?_⟩
  intro pre post' shs h
  simp only [prog, hpe] at h
  cases hu : u.apply post with
  | none => simp [hu] at h
  | some po =>
    simp only [hu] at h
    cases hp : prog w (rest.drop (e.padv w)) es po with
    | none => simp [hp] at h
    | some x =>
      obtain ⟨ps, po', ss⟩ := x
      simp only [hp, Option.some.injEq, Prod.mk.injEq] at h
      obtain ⟨rfl, _, _⟩ := h
      exact ⟨fun _ => hat ps, fun sats hs => by rw [hspec] at hs; simp at hs⟩

/-- **all entries agree**: any mixture of basic entries and array entries of array shape `B`
    (integer or boolean arrays, masked / out-of-range elements, every mask representation), on
    any remaining shape without empty axes, for any incoming post-mask -/
theorem agreeG_list (w : Nat) (B : Shape) : ∀ (es : List Entry), es.all (Entry.okB B) = true →
    ∀ (rest : Shape), (∀ n ∈ rest, 0 < n) → ∀ (post : PostMask) (F0 : Index → Bool),
    AgreeG w es rest post B F0 (fun _ _ => True) := by
  intro es
  induction es with
  | nil => intro _ rest _ post F0; exact agreeG_nil w rest post B F0
  | cons e es ih =>
    intro hb rest hpos post F0
    simp only [List.all_cons, Bool.and_eq_true] at hb
    obtain ⟨hbe, hbs⟩ := hb
    have noflag : ∀ (sa : List SAtom), (∀ x ac, SAtom.flag (sa ++ x) ac = SAtom.flag x ac) →
        ∀ x ac, Valid B ac → SAtom.flag (sa ++ x) ac = ((fun _ => false) ac || SAtom.flag x ac) := by
      intro sa h x ac _; simp [h x ac]
    have hax : ∀ (L : List Nat), (L.map fun n => SAtom.axis (List.range n) false).all SAtom.isPlainA = true := by
      intro L
      rw [List.all_eq_true]
      intro a ha
      obtain ⟨n, _, rfl⟩ := List.mem_map.mp ha
      rfl
    cases e with
    | none =>
      exact agreeG_step w es rest rest post B F0 (fun _ => false) .none .newaxis .keep none [SAtom.new]
        [Atom.newaxis] _ (by simp [prepEntry]) (by simp) (fun hp => postRep_keep post B F0 hp)
        (by simp [Entry.padv, Entry.isEll, Entry.advance]) (by rw [specAtoms_none]; rfl)
        (fun ps => by rw [atoms_newaxis]; rfl) (fun ats sats h => simS_plain .new rfl B ats sats h)
        (noflag _ (fun x ac => by simp [SAtom.flag])) (fun post1 => ih hbs rest hpos post1 _)
    | ell =>
      exact agreeG_step w es rest (rest.drop w) post B F0 (fun _ => false) .ell .ell .keep none
        ((rest.take w).map fun n => SAtom.axis (List.range n) false)
        (((rest.take w).map fun n => SAtom.axis (List.range n) false).map SAtom.toAtom) _
        (by simp [prepEntry]) (by simp) (fun hp => postRep_keep post B F0 hp)
        (by simp [Entry.padv, Entry.isEll]) (by rw [specAtoms_ell])
        (fun ps => by rw [atoms_ell]; simp [List.map_map, Function.comp_def, SAtom.toAtom])
        (fun ats sats h => simS_plains _ (hax (rest.take w)) B ats sats h)
        (noflag _ (fun x ac => flag_axes_append _ x ac))
        (fun post1 => ih hbs _ (fun n hn => hpos n (List.mem_of_mem_drop hn)) post1 _)
    | slice full l =>
      cases rest with
      | nil => exact agreeG_reject w es [] post B F0 _ (by simp [prepEntry]) (specAtoms_nil_cons w _ es (by simp) (by simp) (by simp))
      | cons n sh =>
        by_cases hl : l.all (· < n) = true
        · exact agreeG_step w es (n :: sh) sh post B F0 (fun _ => false) (.slice full l) (.coords l) .keep none
            [SAtom.axis l false] [Atom.plain l] _ (by simp [prepEntry]) (by simp)
            (fun hp => postRep_keep post B F0 hp) (by simp [Entry.padv, Entry.isEll, Entry.advance])
            (by rw [specAtoms_cons_cons w n sh _ es (by simp) (by simp) (by simp)]; simp [specEntry, hl])
            (fun ps => by simp [atoms, hl]) (fun ats sats h => simS_plain (.axis l false) rfl B ats sats h)
            (noflag _ (fun x ac => by simp [SAtom.flag]))
            (fun post1 => ih hbs sh (fun k hk => hpos k (by simp [hk])) post1 _)
        · exact agreeG_dead w es (n :: sh) post B F0 (.slice full l) (.coords l) .keep none (by simp [prepEntry])
            (by rw [specAtoms_cons_cons w n sh _ es (by simp) (by simp) (by simp)]; simp [specEntry, hl])
            (fun ps => by simp [atoms, hl])
    | bool v m =>
      cases rest with
      | nil => exact agreeG_reject w es [] post B F0 _ (by simp [prepEntry]) (specAtoms_nil_cons w _ es (by simp) (by simp) (by simp))
      | cons n sh =>
        have hsp := specAtoms_cons_cons w n sh (.bool v m) es (by simp) (by simp) (by simp)
        have ih' := fun post1 F => ih hbs sh (fun k hk => hpos k (by simp [hk])) post1 F
        cases m with
        | true =>
          exact agreeG_step w es (n :: sh) sh post B F0 (fun _ => true) (.bool v true)
            (.coords (List.range (min 1 n))) .setTrue none [SAtom.axis (List.range (min 1 n)) true]
            [Atom.plain (List.range (min 1 n))] _ (by simp [prepEntry, prepBool]) (by simp)
            (fun _ => postRep_setTrue post B F0) (by simp [Entry.padv, Entry.isEll, Entry.advance])
            (by rw [hsp]; simp [specEntry]) (fun ps => by simp [atoms, range_min_all_lt])
            (fun ats sats h => simS_plain (.axis _ true) rfl B ats sats h)
            (fun x ac _ => by simp [SAtom.flag]) (fun post1 => ih' post1 _)
        | false =>
          cases v with
          | true =>
            exact agreeG_step w es (n :: sh) sh post B F0 (fun _ => false) (.bool true false)
              (.coords (List.range n)) .keep none [SAtom.axis (List.range n) false] [Atom.plain (List.range n)] _
              (by simp [prepEntry, prepBool]) (by simp) (fun hp => postRep_keep post B F0 hp)
              (by simp [Entry.padv, Entry.isEll, Entry.advance])
              (by rw [hsp]; simp [specEntry]) (fun ps => by simp [atoms, range_all_lt])
              (fun ats sats h => simS_plain (.axis _ false) rfl B ats sats h)
              (noflag _ (fun x ac => by simp [SAtom.flag])) (fun post1 => ih' post1 _)
          | false =>
            exact agreeG_step w es (n :: sh) sh post B F0 (fun _ => false) (.bool false false)
              (.coords []) .keep none [SAtom.axis [] false] [Atom.plain []] _
              (by simp [prepEntry, prepBool]) (by simp) (fun hp => postRep_keep post B F0 hp)
              (by simp [Entry.padv, Entry.isEll, Entry.advance])
              (by rw [hsp]; simp [specEntry]) (fun ps => by simp [atoms])
              (fun ats sats h => simS_plain (.axis _ false) rfl B ats sats h)
              (noflag _ (fun x ac => by simp [SAtom.flag])) (fun post1 => ih' post1 _)
    | int k m =>
      cases rest with
      | nil => exact agreeG_reject w es [] post B F0 _ (by simp [prepEntry]) (specAtoms_nil_cons w _ es (by simp) (by simp) (by simp))
      | cons n sh =>
        have hn : 0 < n := hpos n (by simp)
        have hsp := specAtoms_cons_cons w n sh (.int k m) es (by simp) (by simp) (by simp)
        have ih' := fun post1 F => ih hbs sh (fun k hk => hpos k (by simp [hk])) post1 F
        obtain ⟨h1, h2⟩ := int_entry_exact n k m
        cases hf : intFlag n k m with
        | false =>
          obtain ⟨j, hj, hnj⟩ := h1 hf
          have hm : m = false ∧ (normIdx n k).isNone = false := by simpa [intFlag] using hf
          obtain ⟨jj, hjj⟩ : ∃ jj, normIdx n k = some jj := by
            cases hq : normIdx n k with
            | none => simp [hq] at hm
            | some jj => exact ⟨jj, rfl⟩
          exact agreeG_step w es (n :: sh) sh post B F0 (fun _ => false) (.int k m) (.int j) .keep none
            [SAtom.fix n (some jj)] [Atom.adv [] (fun _ => [(some jj).getD 0]) true] _
            (by simp [prepEntry, hj]) (by simp) (fun hp => postRep_keep post B F0 hp)
            (by simp [Entry.padv, Entry.isEll, Entry.advance])
            (by rw [hsp]; simp [specEntry, hm.1, hjj]) (fun ps => by simp [atoms, hnj, hjj])
            (fun ats sats h => simS_fix n (some jj) B ats sats h)
            (noflag _ (fun x ac => by simp [SAtom.flag])) (fun post1 => ih' post1 _)
        | true =>
          have hj := h2 hf
          have hk : (if m = true then none else normIdx n k) = none := by
            cases m with
            | true => rfl
            | false =>
              have : (normIdx n k).isNone = true := by simpa [intFlag] using hf
              simpa using this
          have h0 : normIdx n 0 = some 0 := by simp [normIdx, hn]
          exact agreeG_step w es (n :: sh) sh post B F0 (fun _ => true) (.int k m) (.int 0) .setTrue none
            [SAtom.fix n none] [Atom.adv [] (fun _ => [(none : Option Nat).getD 0]) true] _
            (by simp [prepEntry, hj]) (by simp) (fun _ => postRep_setTrue post B F0)
            (by simp [Entry.padv, Entry.isEll, Entry.advance])
            (by rw [hsp]; simp [specEntry, hk]) (fun ps => by simp [atoms, h0])
            (fun ats sats h => simS_fix n none B ats sats h)
            (fun x ac _ => by simp [SAtom.flag]) (fun post1 => ih' post1 _)
    | iarr v m =>
      have hB : v.shape = B := by simpa [Entry.okB, Entry.isBasic, Entry.arrShape] using hbe
      subst hB
      cases rest with
      | nil => exact agreeG_reject w es [] post v.shape F0 _ (by simp [prepEntry]) (specAtoms_nil_cons w _ es (by simp) (by simp) (by simp))
      | cons n sh =>
        have hn : 0 < n := hpos n (by simp)
        have hvalid : ∀ i, Valid B i → i ∈ indices v.shape := fun i hi => (mem_indices _ _).2 hi
        have hok : (indices v.shape).all (fun i => (normIdx n ((prepIntArrVals n v (prepIntArrMask n v m)
            (if (indices v.shape).any (oobAt n v) = true then true else (prepIntArrMask n v m).any v.shape)) i)).isSome) = true := by
          rw [List.all_eq_true]; intro i _; exact prepIntArrVals_safe n v _ _ i hn
        refine agreeG_step w es (n :: sh) sh post v.shape F0 (iarrFlag n v m) (.iarr v m)
          (.arr ⟨v.shape, prepIntArrVals n v (prepIntArrMask n v m)
            (if (indices v.shape).any (oobAt n v) = true then true else (prepIntArrMask n v m).any v.shape)⟩)
          (prepIntArrUpd v (prepIntArrMask n v m)) (some v.shape)
          [SAtom.arr v.shape (fun i => [(normIdx n (v.get i)).getD 0]) (iarrFlag n v m)]
          [Atom.adv v.shape (fun i => [(normIdx n ((prepIntArrVals n v (prepIntArrMask n v m)
            (if (indices v.shape).any (oobAt n v) = true then true else (prepIntArrMask n v m).any v.shape)) i)).getD 0]) true] _
          rfl (by simp) ?_ (by simp [Entry.padv, Entry.isEll, Entry.advance])
          (by rw [specAtoms_cons_cons w n sh _ es (by simp) (by simp) (by simp)]
              simp only [specEntry, Option.bind_some]; rfl)
          (fun ps => by simp only [atoms, hok]; rfl) ?_ ?_
          (fun post1 => ih hbs sh (fun k hk => hpos k (by simp [hk])) post1 _)
        · -- post-mask
          intro hp
          have hbit := fun i hi => prepIntArrMask_bit n v m i (hvalid i hi)
          unfold prepIntArrUpd
          cases hm : prepIntArrMask n v m with
          | all c =>
            rw [hm] at hbit
            cases c with
            | true =>
              obtain ⟨p1, a1, a2⟩ := postRep_setTrue post v.shape F0
              exact ⟨p1, a1, postRep_congr _ _ _ _ (fun i hi => by simp [← hbit i hi, Mask.bit]) a2⟩
            | false =>
              obtain ⟨p1, a1, a2⟩ := postRep_keep post v.shape F0 hp
              exact ⟨p1, a1, postRep_congr _ _ _ _ (fun i hi => by simp [← hbit i hi, Mask.bit]) a2⟩
          | arr a =>
            rw [hm] at hbit
            obtain ⟨p1, a1, a2⟩ := postRep_orArr post v.shape F0 ⟨v.shape, a.get⟩ rfl hp
            exact ⟨p1, a1, postRep_congr _ _ _ _ (fun i hi => by simp [← hbit i hi, Mask.bit]) a2⟩
        · -- atoms
          intro ats sats h
          refine simS_arr v.shape _ _ (iarrFlag n v m) ?_ ats sats h
          intro i hi hfl
          have hb := prepIntArrMask_bit n v m i (hvalid i hi)
          rw [hfl] at hb
          have h2 : (normIdx n (v.get i)).isNone = false := by
            unfold iarrFlag at hfl; simp at hfl; simp [hfl.2]
          simp only [prepIntArrVals, hb, Bool.and_false, Bool.false_eq_true, if_false]
          rw [normIdx_emod n _ h2]
        · intro x ac hac
          simp [SAtom.flag, bidx_self hac]
    | barr v m =>
      have hB : [(boolSel v m).length] = B := by simpa [Entry.okB, Entry.isBasic, Entry.arrShape] using hbe
      by_cases hs : rest.take v.shape.length = v.shape ∧ rest ≠ []
      · obtain ⟨hs1, hs2⟩ := hs
        obtain ⟨n, sh, rfl⟩ : ∃ n sh, rest = n :: sh := by
          cases rest with
          | nil => exact absurd rfl hs2
          | cons n sh => exact ⟨n, sh, rfl⟩
        refine agreeG_step w es (n :: sh) ((n :: sh).drop v.shape.length) post B F0
          (fun i => m.bit ((boolSel v m).getD (i.headD 0) [])) (.barr v m)
          (.barr ⟨v.shape, fun i => v.get i || m.bit i⟩)
          (match m with
            | .arr a => .orArr ⟨[(boolSel v m).length], fun i => a.get ((boolSel v m).getD (i.headD 0) [])⟩
            | .all true => .setTrue
            | .all false => .keep)
          (some [(boolSel v m).length])
          [SAtom.arr B (fun i => (boolSel v m).getD (i.headD 0) []) (fun i => m.bit ((boolSel v m).getD (i.headD 0) []))]
          [Atom.adv B (fun i => (boolSel v m).getD (i.headD 0) []) true] _
          ?_ (by simp [hB]) ?_ (by simp [Entry.padv, Entry.isEll, Entry.advance])
          (by simp only [specAtoms, hs1, true_and, hB]; simp)
          (fun ps => by simp only [atoms, hs1, if_true, ← hB]; rfl)
          (fun ats sats h => simS_arr B _ _ _ (fun _ _ _ => rfl) ats sats h)
          (fun x ac hac => by simp [SAtom.flag, bidx_self hac])
          (fun post1 => ih hbs _ (fun k hk => hpos k (List.mem_of_mem_drop hk)) post1 _)
        · simp only [prepEntry, List.getElem?_cons_zero, prepBoolArr, List.drop_zero, hs1, if_true, Option.map_some]
          cases m with
          | all c => cases c <;> rfl
          | arr a => rfl
        · intro hp
          cases m with
          | all c =>
            cases c with
            | true =>
              obtain ⟨p1, a1, a2⟩ := postRep_setTrue post B F0
              exact ⟨p1, a1, postRep_congr _ _ _ _ (fun i _ => by simp [Mask.bit]) a2⟩
            | false =>
              obtain ⟨p1, a1, a2⟩ := postRep_keep post B F0 hp
              exact ⟨p1, a1, postRep_congr _ _ _ _ (fun i _ => by simp [Mask.bit]) a2⟩
          | arr a =>
            obtain ⟨p1, a1, a2⟩ := postRep_orArr post B F0
              ⟨[(boolSel v m).length], fun i => a.get ((boolSel v (.arr a)).getD (i.headD 0) [])⟩ (by simpa using hB) hp
            exact ⟨p1, a1, postRep_congr _ _ _ _ (fun i _ => by simp [Mask.bit]) a2⟩
      · refine agreeG_reject w es rest post B F0 _ ?_ ?_
        · cases rest with
          | nil => simp [prepEntry]
          | cons n sh =>
            have : ¬ ((n :: sh).take v.shape.length = v.shape) := fun h => hs ⟨h, by simp⟩
            simp [prepEntry, prepBoolArr, this]
        · cases rest with
          | nil => simp [specAtoms]
          | cons n sh =>
            have : ¬ ((n :: sh).take v.shape.length = v.shape) := fun h => hs ⟨h, by simp⟩
            simp [specAtoms, this]
    | _ => simp [Entry.okB, Entry.isBasic, Entry.arrShape] at hbe

end PMV.Index
